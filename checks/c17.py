"""C17  Independent conversions may run concurrently when the pool is disabled (DESIGN.md, C17)."""
import os, random, re, subprocess, collections
import common, tr_globals, gen_md, tchk
from tr_lemon import TranslateError

LEVEL = "proof"
TRUSTED = ["Coq 8.16.1 kernel", "tools/tr_globals.py on the -DDISABLE_OBJECT_POOL objects: the relocation graph over-approximates every access to "
           "process-global data; libc's own thread-safety is taken from its documentation (model/GlobalsPolicy.v lists)",
           "actual interleavings are only sampled: ThreadSanitizer (happens-before) on 2/4/8 threads converting streams of documents, outputs vs serial"]
E = tchk.EXT
FORMATS = ["html", "latex", "fodt", "opml", "beamer", "memoir"]


def tsan_run(exe, jobs, T, rounds):
    env = dict(os.environ, TSAN_OPTIONS="halt_on_error=0 report_signal_unsafe=0 exitcode=0 history_size=4")
    try:
        r = subprocess.run([exe, str(T), str(rounds)], input=("\n".join(jobs) + "\n").encode(), capture_output=True, env=env, timeout=1200)
    except subprocess.TimeoutExpired:
        return None, "timeout", []
    out = r.stdout.decode("latin-1").splitlines()
    err = r.stderr.decode("latin-1")
    races = []
    for blk in re.split(r"={18}\n", err):
        if "ThreadSanitizer: data race" not in blk: continue
        loc = re.search(r"Location is global '([^']+)'", blk)
        fr = re.findall(r"#0 (\S+) ", blk)
        races.append((loc.group(1) if loc else None, fr[:2]))
    return (r.returncode, out), err, races


def run(rep, tier, seed):
    rep.cov["trusted_base"] = TRUSTED
    tr_err = None
    try:
        tr_globals.main()
    except TranslateError as e:
        tr_err = str(e)
    res = common.coq_prove("Properties_C17") if not tr_err else dict(ok=False, theorems=["nopool_shared_footprint_except_known"], failed=["translator: " + tr_err], assumptions={}, output=tr_err)
    rep.add_obligations(res, "Properties_C17")
    rng = random.Random("C17-%d" % seed)
    exe = common.build_harness("tsan-nopool", "threads")
    bad = []
    total_jobs = 0
    nraces = collections.Counter()
    runs = [(2, 3), (4, 3), (8, 2)] if tier == "quick" else [(2, 6), (4, 6), (8, 6), (16, 4)] * 3
    for (T, rounds) in runs:
        for stream in ("plain", "email"):
            docs = []
            for _ in range(6 * T):
                d = gen_md.structured(rng)
                d = re.sub(r"<[^<>\s]+@[^<>\s]+>", "(mail)", d).replace("mailto:", "mail-to:")
                if stream == "email":
                    d += "\n\nWrite to <user%d@example.com> or <other@example.org>.\n" % rng.randint(0, 99)
                docs.append(d)
            jobs = ["%d %d %d %s" % (tchk.FMT[rng.choice(FORMATS)], E["notes"] | E["smart"] | (E["critic"] if rng.random() < 0.3 else 0), rng.randrange(7),
                                     d.encode("utf-8", "replace").hex()) for d in docs]
            total_jobs += len(jobs) * rounds
            res_, err, races = tsan_run(exe, jobs, T, rounds)
            if res_ is None or res_[0] != 0 or len(res_[1]) != len(jobs):
                bad.append(("concurrent-crash", "%d threads: the concurrent run crashed or hung (rc=%s): %s" % (T, res_ and res_[0], err[-300:]), dict(threads=T, jobs=jobs[:8], stream=stream))); continue
            ndiff = sum(int(l.split()[2]) for l in res_[1])
            for loc, frames in races:
                key = "race:rng-globals" if (loc or "").startswith("ran_") or any(f.startswith("ran_") for f in frames) else "race:%s" % (loc or "/".join(frames))
                nraces[key] += 1
                if key != "race:rng-globals" or stream == "plain":
                    bad.append((key if stream != "plain" or key != "race:rng-globals" else "race:rng-globals-without-email",
                                "data race reported by ThreadSanitizer: location %s, frames %s" % (loc, frames), dict(threads=T, stream=stream, jobs=jobs[:8])))
                else:
                    bad.append(("race:rng-globals", "data race on Knuth's generator (e-mail obfuscation): %s %s" % (loc, frames), dict(threads=T, stream=stream)))
            if ndiff:
                bad.append(("output-differs:%s" % stream, "%d conversions gave different bytes under %d threads than serially (%s stream)" % (ndiff, T, stream),
                            dict(threads=T, stream=stream, jobs=jobs[:8])))
    rep.cov["evaluations"] = total_jobs
    rep.cov["distinct_nontrivial"] = len(runs) * 2
    rep.cov["tsan_reports"] = dict(nraces)
    rep.cov["rule"] = ("ThreadSanitizer build with -DDISABLE_OBJECT_POOL; T in %s threads, each converting its own stream of generated documents x formats x extension sets x languages, "
                       "with and without e-mail autolinks; every result compared with the serial result; distinct = (thread count, stream) configuration" % sorted(set(t for t, r in runs)))
    rep.cov["samples"] = [dict(threads=runs[0][0], rounds=runs[0][1])]
    rep.assumptions += TRUSTED[1:]
    seen = set()
    for kind, what, info in bad:
        if kind in seen: continue
        seen.add(kind)
        if kind == "output-differs:email":
            kind2 = "race:rng-globals"          # same root cause: interleaved use of the shared generator
            rep.violation(kind2, what, dict(info, no_failing_input=False))
        else:
            rep.violation(kind, what, dict(info, no_failing_input=False))
    if not res["ok"] and not [b for b in bad if b[0] not in ("race:rng-globals", "output-differs:email")]:
        rep.violation("proof-broken", "Properties_C17 no longer checks: %s" % res["failed"],
                      dict(no_failing_input=True, broken="theorems of coq/props/Properties_C17.v (%s)" % res["failed"], coq_output=res["output"][-3000:]))


def replay(rep, r):
    rep.cov.update(evaluations=1, distinct_nontrivial=1, obligations=1, discharged=1, checker_cmd="replay", rule="replay")
    rep.cov["samples"] = [str(r)[:200]]
    exe = common.build_harness("tsan-nopool", "threads")
    if "jobs" in r:
        res_, err, races = tsan_run(exe, r["jobs"], r.get("threads", 4), 4)
        print(err[-2000:])
        for loc, fr in races:
            rep.violation("race:%s" % loc, "race", r)
