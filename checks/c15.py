"""C15  The exposed token tree is structurally sound and stays inside the source (DESIGN.md, C15)."""
import collections, os, random
import common, tr_enums, gen_md
from tr_lemon import TranslateError

LEVEL = "proof"
TRUSTED = ["Coq 8.16.1 kernel + vm_compute", "tools/tr_enums.py (compiled probe: gcc evaluates the enumerators)",
           "extraction + ocaml/driver.ml; harness/treedump.c (traversal, numbering of tokens)",
           "the checker is proved sound; running it on dumps of generated inputs is testing - the parser passes that build the tree are not modelled"]
EXTS = [0, 16, 16 | 8, 1, 16 | 512, 16 | 64, 16 | 128, 16 | 1 << 13]
FORMATS = [-1, 0, 2, 5, 9, 3]


ENUM = {}          # token kind name -> value, filled from the compiled probe (tools/tr_enums.py) by run() / replay()


def parse(dump):
    f = dump.split()
    srclen, n, T = int(f[0]), int(f[1]), {}
    for x in f[2:]:
        i, ty, st, ln, nx, pv, ch, tl, mt = map(int, x.split(":"))
        T[i] = dict(ty=ty, st=st, ln=ln, nx=nx, pv=pv, ch=ch, mt=mt)
    return srclen, n, T


def classify(dump, src):
    """diagnosis only (the verdict is the extracted checker's): which clause fails, in known-finding classes"""
    try:
        srclen, n, T = parse(dump)
    except (ValueError, IndexError):
        return ["tree-dump-garbled"]          # (a tree so broken that the traversal of harness/treedump.c printed nonsense)
    kinds = []
    # a cause with its own name: emphasis markers mated across each other (an opener whose closer lies before it), which makes
    # pair_emphasis_tokens build a container of negative (wrapped) length out of source order - everything else the checker
    # rejects in such a tree follows from it
    openers = {ENUM.get(n) for n in ("EMPH_START", "STRONG_START")} - {None}
    if any(t["ty"] in openers and t["mt"] > 0 and t["mt"] in T and T[t["mt"]]["st"] < t["st"] for t in T.values()):
        return ["crossed-emphasis-mates"]
    r = T.get(1)
    if r and (r["ty"] != 0 or r["st"] != 0 or r["nx"] or r["pv"]): kinds.append("root-shape")
    if r and r["ln"] < srclen:
        tail = src[r["ln"]:]
        kinds.append("root-short-trailing-whitespace" if tail.strip(b" \t\r\n") == b"" else "root-short")
    over = [t for t in T.values() if t["st"] + t["ln"] > srclen]
    if over:
        kinds.append("span-includes-terminator" if all(t["st"] + t["ln"] == srclen + 1 for t in over) and not src.endswith(b"\n") else "span-outside-source")
    indeg = collections.Counter()
    for i, t in T.items():
        for k in ("nx", "ch"):
            if t[k] > 0: indeg[t[k]] += 1
        if t["nx"] != 0 and (t["nx"] < 0 or T[t["nx"]]["pv"] != i): kinds.append("next-prev-inconsistent")
        if t["nx"] > 0 and T[t["nx"]]["st"] < t["st"]: kinds.append("sibling-order")
        if t["pv"] != 0 and (t["pv"] < 0 or T[t["pv"]]["nx"] != i): kinds.append("prev-next-inconsistent")
        if t["ch"] != 0 and (t["ch"] < 0 or T[t["ch"]]["pv"] != 0): kinds.append("first-child-has-prev")
        if t["mt"] != 0 and (t["mt"] < 0 or T[t["mt"]]["mt"] != i): kinds.append("mate-asymmetric")
    if any(indeg[i] != (0 if i == 1 else 1) for i in T): kinds.append("not-a-tree")
    return sorted(set(kinds)) or ["checker-rejects"]


# ---- tree surgery primitives: model (coq/model/TokenHeap.v, extracted) against token.c on the same operation scripts

def gen_script(rng):
    """builds chains of tokens with plausible spans the way the parser does, then applies surgery; ids are guesses
    (0 and ids one past the last are produced on purpose): the model says where a script first dereferences NULL"""
    src = bytes(rng.choice(b"ab|* _\n") for _ in range(rng.randint(0, 60)))
    ops, n = [], 0
    chains = []
    for _ in range(rng.randint(1, 4)):
        k, pos, ids = rng.randint(1, 8), rng.randint(0, 5), []
        for _ in range(k):
            ln = rng.choice([0, 1, 1, 2, 3, 7])
            ops.append("N %d %d %d" % (rng.randint(1, 300), pos, ln)); n += 1; ids.append(n)
            pos += ln + rng.choice([0, 0, 0, 1])
        for i in ids[1:]:
            ops.append("A %d %d" % (ids[0], i))
        chains.append(ids)
    def tid():
        r = rng.random()
        if r < 0.03: return 0
        if r < 0.06: return n + 1
        if r < 0.5 and chains: return rng.choice(rng.choice(chains))
        return rng.randint(1, max(1, n))
    for _ in range(rng.randint(1, 25)):
        k = rng.random()
        if k < 0.22:
            c = rng.choice(chains); i = rng.randrange(len(c)); j = rng.randrange(i, len(c))
            a, b = (c[i], c[j]) if rng.random() < 0.9 else (tid(), tid())
            if rng.random() < 0.4: ops.append("M %d %d" % (a, b))
            ops.append("PG %d %d %d" % (a, b, rng.randint(50, 120))); n += 1
        elif k < 0.36:
            t = tid(); ops.append("SP %d %d %d %d" % (t, rng.randint(0, 30), rng.randint(0, 6), rng.randint(1, 300))); n += 1
        elif k < 0.42:
            ops.append("SC %d %d" % (tid(), rng.choice(b"ab|* _")))
        elif k < 0.50:
            ops.append("P %d %d" % (rng.choice(chains)[0] if rng.random() < 0.7 else tid(), rng.randint(50, 120))); n += 1
        elif k < 0.58:
            ops.append("N %d %d %d" % (rng.randint(1, 300), rng.randint(0, 40), rng.randint(0, 5))); n += 1
            ops.append("H %d %d" % (tid(), n))
        elif k < 0.64: ops.append("PL %d" % tid())
        elif k < 0.72:
            c = rng.choice(chains); i = rng.randrange(len(c)); j = rng.randrange(i, len(c))
            ops.append("PR %d %d" % ((c[i], c[j]) if rng.random() < 0.85 else (tid(), tid())))
        elif k < 0.77: ops.append("RF %d" % tid())
        elif k < 0.82: ops.append("RL %d" % tid())
        elif k < 0.86: ops.append("RT %d" % tid())
        elif k < 0.90: ops.append("FT %d" % tid())
        elif k < 0.94: ops.append("A %d %d" % (tid(), tid()))
        elif k < 0.97: ops.append("C %d" % tid()); n += 1
        else: ops.append("M %d %d" % (tid(), tid()))
    return (src.hex() or "-") + " ; " + " ; ".join(ops)


def links_ok(dump):
    """next/prev of a heap dump '<n> type:start:len:next:prev:child:tail:mate ...' point back at each other"""
    try:
        T = [None] + [[int(x) for x in t.split(":")] for t in dump.split()[1:]]
    except ValueError:
        return False
    for i in range(1, len(T)):
        nx, pv = T[i][3], T[i][4]
        if nx and not (0 < nx < len(T) and T[nx][4] == i): return False
        if pv and not (0 < pv < len(T) and T[pv][3] == i): return False
    return True


def tails_ok(dump):
    """every child chain's head records its last sibling as tail ('type:start:len:next:prev:child:tail:mate')"""
    try:
        T = [None] + [[int(x) for x in t.split(":")] for t in dump.split()[1:]]
    except ValueError:
        return False
    for i in range(1, len(T)):
        c = T[i][5]
        if not c: continue
        if not 0 < c < len(T): return False
        last, steps = c, 0
        while T[last][3] and steps <= len(T):
            if not 0 < T[last][3] < len(T): return False
            last = T[last][3]; steps += 1
        if steps > len(T) or T[c][6] != last: return False
    return True


def surgery_compare(drv, har, scripts):
    """-> [(script cut before the first undefined operation, model heap, implementation heap)]"""
    model = common.run_lines_par(drv, scripts, args=["surgery"], timeout=600)
    cut, exp = [], []
    for sc, m in zip(scripts, model):
        f = m.split(" ", 2)
        if m.startswith("CRASH") or len(f) < 3:
            cut.append(sc.split(" ; ")[0]); exp.append("MODEL " + m[:100]); continue
        parts = sc.split(" ; ")
        cut.append(" ; ".join(parts[:1 + int(f[0])])); exp.append(f[2])
    impl = common.run_lines_par(har, cut, timeout=600)
    return list(zip(cut, exp, impl))


def surgery_part(rep, tier, rng, drv, bad, enums=None):
    har = common.build_harness("asan", "surgery")
    corpus = [l.strip() for l in open(os.path.join(common.VERIF, "corpus", "C15", "surgery.txt")) if l.strip() and not l.startswith("#")] \
        if os.path.exists(os.path.join(common.VERIF, "corpus", "C15", "surgery.txt")) else []
    scripts = corpus + [gen_script(rng) for _ in range(1500 if tier == "quick" else 60000)]
    if enums:
        scripts += [gen_emph_script(rng, enums) for _ in range(800 if tier == "quick" else 30000)]
    res = surgery_compare(drv, har, scripts)
    # the search for a failing input where model and code differ: both heaps go through the verified checkers (every link leads back,
    # mates point at each other, siblings in source order with spans that do not overlap); a script after which the model's heap
    # passes and token.c's does not is a concrete violation
    dif = [(exp, impl) for cut, exp, impl in res if exp != impl and not impl.startswith("CRASH") and not exp.startswith("MODEL")]
    vds = common.run_lines_par(drv, [x for pair in dif for x in pair], args=["heapcheck"], timeout=1200) if dif else []
    verdict = {pair: (vds[2 * j], vds[2 * j + 1]) for j, pair in enumerate(dif)}
    hist = collections.Counter()
    nontriv = set()
    for sc, (cut, exp, impl) in zip(scripts, res):
        ops = cut.split(" ; ")[1:]
        for o in ops: hist[o.split()[0]] += 1
        if any(o.split()[0] in ("PG", "SP", "SC", "PR", "PL", "EM") for o in ops[1:]): nontriv.add(cut)
        if exp != impl and links_ok(exp) and not links_ok(impl):
            bad.append((b"", cut, "surgery-links-broken", "an operation script on which the model keeps next/prev mutually consistent leaves token.c with a token whose "
                        "neighbour does not point back: implementation heap %s" % impl[:300]))
        elif exp != impl and verdict.get((exp, impl), ("", ""))[0] == "111" and verdict[(exp, impl)][1] in ("110", "101", "100", "011", "010", "001", "000"):
            vd = verdict[(exp, impl)][1]
            bad.append((b"", cut, "surgery-heap-incoherent", "an operation script after which the model's heap is coherent leaves token.c with a heap the verified checkers reject "
                        "(doubly-linked=%s mates-symmetric=%s source-order-and-spans=%s): implementation heap %s" % (vd[0], vd[1], vd[2], impl[:300])))
        elif exp != impl and tails_ok(exp) and not tails_ok(impl):
            bad.append((b"", cut, "surgery-tail-stale", "an operation script after which every first child records its last sibling as tail in the model leaves token.c with a "
                        "child chain whose head's tail is not its last token: implementation heap %s" % impl[:300]))
        elif exp != impl:
            bad.append((b"", cut, "surgery-model-vs-impl", "token.c and coq/model/TokenHeap.v differ on an operation script: model %s / implementation %s" % (exp[:200], impl[:200])))
    rep.cov["surgery_scripts"] = len(scripts)
    rep.cov["surgery_scripts_nontrivial"] = len(nontriv)
    rep.cov["surgery_ops_executed"] = dict(hist)
    rep.cov["surgery_scripts_cut_at_undefined_op"] = sum(1 for sc, (cut, _, _) in zip(scripts, res) if cut != sc)
    return len(scripts)


WRAPPED = ["token_prune_graft", "tokens_prune", "token_split", "token_new_parent", "token_append_child", "token_pop_link_from_chain", "token_chain_append"]


def contracts_part(rep, docs, cases, bad):
    """the hypotheses and conclusions of the surgery theorems, evaluated on the real heap around every call the library makes"""
    har = common.build_harness("asan", "contracts", extra_flags=["-Wl,--wrap=%s" % f for f in WRAPPED])
    out = common.run_lines_par(har, cases, timeout=1200)
    tot = collections.Counter()
    for d, c, o in zip(docs, cases, out):
        if o.startswith("CRASH"):
            bad.append((d, c, "impl-crash", "contract monitor crashed: " + o[:300])); continue
        for part in o.split():
            f = part.split(":")
            if len(f) == 4:
                tot[f[0] + ".calls"] += int(f[1]); tot[f[0] + ".within_hypotheses"] += int(f[2]); tot[f[0] + ".conclusion_failed"] += int(f[3])
                if int(f[3]):
                    bad.append((d, c, "contract-conclusion-fails:" + f[0], "a call of %s made by the library satisfied the hypotheses of its theorem "
                                "(Properties_C15.v) and the real heap afterwards does not satisfy the conclusion" % f[0]))
            elif len(f) == 2:
                tot[f[0]] += int(f[1])
    rep.cov["surgery_calls_monitored"] = dict(tot)
    return sum(v for k, v in tot.items() if k.endswith(".calls"))


def shrink_script(drv, har, cut):
    src, *ops = cut.split(" ; ")
    def test(sub):
        c, e, i = surgery_compare(drv, har, [src + " ; " + " ; ".join(sub)])[0]
        return e != i
    try:
        ops = common.ddmin(ops, test)
    except Exception:
        pass
    return src + " ; " + " ; ".join(ops)

# ---- the pair matcher: model (coq/model/PairMatch.v, extracted) against token_pairs.c on generated token chains and pairing tables

def gen_match_script(rng, big=False):
    """a chain of tokens with small type codes (1 '[' 2 ']' 3 '*' 4 '_' 5 '`' 6 '(' 7 ')' 9 text) under a parent, random flags
    (ambidextrous markers that may only open or only close), a pairing engine in the style of mmd.c (brackets: prune and
    allow empty; emphasis: mate only; backticks: prune and match length; plus odd combinations), one or two passes"""
    n = rng.randint(1100, 1400) if big else rng.randint(1, 30)
    types = [1, 2, 3, 4, 5, 6, 7, 9, 9, 9] if not big else [1, 1, 1, 1, 6, 3, 9, 2, 7]
    ops, pos = [], 0
    for i in range(n):
        t = rng.choice(types); ln = rng.choice([1, 1, 1, 2, 3]) if t in (5, 9) else 1
        ops.append("N %d %d %d" % (t, pos, ln)); pos += ln + rng.choice([0, 0, 0, 1])
    for i in range(2, n + 1): ops.append("A 1 %d" % i)
    ops.append("P 1 77")
    for i in range(1, n + 1):
        if rng.random() < (0.3 if not big else 0.02): ops.append("F %d %d %d %d" % (i, rng.random() < 0.7, rng.random() < 0.7, rng.random() < 0.9))
    prs = [("1 2 50", 5), ("6 7 51", 5), ("3 3 52", 0), ("4 4 53", 0), ("5 5 54", 6), ("3 3 55", 4), ("1 7 56", 4), ("5 2 57", 3)]
    for pr, o in rng.sample(prs, rng.randint(1, 5)):
        ops.append("E %s %d" % (pr, o if rng.random() < 0.8 else rng.randint(0, 7)))
    ops.append("MP %d" % (n + 1))
    if rng.random() < 0.4: ops.append("MP %d" % (n + 1))
    return " ; ".join(ops)


def heap_coherent(dump):
    """next/prev and mates of a matcher heap dump '<n> type:start:len:next:prev:child:tail:mate:co:cc:um ...' point back"""
    try:
        T = [None] + [[int(x) for x in t.split(":")] for t in dump.split()[1:]]
    except ValueError:
        return False
    for i in range(1, len(T)):
        nx, pv, mt = T[i][3], T[i][4], T[i][7]
        if nx and not (0 < nx < len(T) and T[nx][4] == i): return False
        if pv and not (0 < pv < len(T) and T[pv][3] == i): return False
        if mt and not (0 < mt < len(T) and T[mt][7] == i): return False
    return True


def matcher_part(rep, tier, rng, drv, bad):
    har = common.build_harness("asan", "pairmatch")
    scripts = [gen_match_script(rng) for _ in range(1200 if tier == "quick" else 40000)] + [gen_match_script(rng, big=True) for _ in range(3 if tier == "quick" else 40)]
    model = common.run_lines_par(drv, scripts, args=["pairmatch"], timeout=1200)
    impl = common.run_lines_par(har, scripts, timeout=1200)
    copies = 0
    # the implementation's heaps are judged by the extracted checkers dl_check / msym_check / order_check, which are proved sound
    # for "every link leads back", "mates point at each other", "siblings in source order with spans that do not overlap"
    verdicts = common.run_lines_par(drv, [i if not i.startswith("CRASH") else "0" for i in impl], args=["heapcheck"], timeout=1200)
    for sc, m, i, vd in zip(scripts, model, impl, verdicts):
        f = m.split(" ", 2)
        if m.startswith("CRASH") or len(f) < 3 or f[1] != "ok":
            bad.append((b"", sc, "matcher-model-stuck", "the matcher model dereferences NULL or runs out of fuel on a well-formed chain: %s" % m[:120])); continue
        copies += max(0, int(f[2].split()[0]) - sc.count("N ") - 1)
        if i.startswith("CRASH"):
            bad.append((b"", sc, "impl-crash", "pair matcher harness crashed: " + i[:200])); continue
        if vd != "111" or not heap_coherent(i):
            bad.append((b"", sc, "matcher-links-broken", "after token_pairs_match_pairs_inside_token on a well-formed, ordered chain the verified checkers say "
                        "doubly-linked=%s mates-symmetric=%s source-order=%s: %s" % (vd[0:1], vd[1:2], vd[2:3], i[:300])))
        elif f[2] != i:
            bad.append((b"", sc, "matcher-model-vs-impl", "token_pairs.c and coq/model/PairMatch.v differ: model %s / implementation %s" % (f[2][:200], i[:200])))
    rep.cov["matcher_scripts"] = len(scripts)
    rep.cov["matcher_grafts"] = copies
    return len(scripts)

# ---- mmd.c:pair_emphasis_tokens on the heap model (operation EM of the surgery scripts)

EMPH_NAMES = ["STAR", "UL", "STRONG_START", "STRONG_STOP", "EMPH_START", "EMPH_STOP", "PAIR_STRONG", "PAIR_EMPH", "PAIR_BACKTICK", "PAIR_MATH"]


def gen_emph_script(rng, v):
    """a chain of * _ and text tokens with the mates the pair matcher would leave (well nested, equal kinds; sometimes odd),
    or runs of adjacent double / triple markers around text (strong emphasis), then pair_emphasis_tokens on the chain"""
    K = " ".join(str(v[n]) for n in EMPH_NAMES)
    STAR, UL, TXT = v["STAR"], v["UL"], v["TEXT_PLAIN"]
    ops, pos, kinds, mates = [], 0, [], []
    def tok(t, ln, gap=0):
        nonlocal pos
        ops.append("N %d %d %d" % (t, pos, ln)); pos += ln + gap; kinds.append(t); return len(kinds)
    if rng.random() < 0.5:
        for _ in range(rng.randint(2, 24)):
            t = rng.choice([STAR, STAR, UL, TXT, TXT, v["PAIR_BACKTICK"] if rng.random() < 0.05 else TXT])
            tok(t, 1 if t in (STAR, UL) else rng.choice([1, 2, 3]), 0 if rng.random() < 0.7 else 1)
        stack = []
        for i, t in enumerate(kinds, 1):
            if t in (STAR, UL):
                if stack and kinds[stack[-1] - 1] == t and rng.random() < 0.6: mates.append((stack.pop(), i))
                elif rng.random() < 0.7: stack.append(i)
        if rng.random() < 0.1: mates.append((rng.randint(1, len(kinds)), rng.randint(1, len(kinds))))
    else:
        for _ in range(rng.randint(1, 4)):
            t = rng.choice([STAR, UL]); depth = rng.choice([1, 2, 2, 3])
            opens = [tok(t, 1) for _ in range(depth)]
            if rng.random() < 0.2: pos += 1
            tok(TXT, rng.randint(1, 3))
            if rng.random() < 0.3:
                t2 = rng.choice([STAR, UL]); o = tok(t2, 1); tok(TXT, 1); c = tok(t2, 1); mates.append((o, c))
            closes = [tok(t, 1) for _ in range(depth)]
            mates += list(zip(opens, reversed(closes)))
            if rng.random() < 0.5: tok(TXT, 1)
    ops += ["A 1 %d" % i for i in range(2, len(kinds) + 1)] + ["M %d %d" % m for m in mates] + ["EM 1 " + K]
    return "- ; " + " ; ".join(ops)


def run(rep, tier, seed):
    rep.cov["trusted_base"] = TRUSTED
    tr_err = None
    enum_values = None
    try:
        enum_values = tr_enums.main()[0]
        ENUM.update(enum_values)
    except TranslateError as e:
        tr_err = str(e)
    res = common.coq_prove("Properties_C15") if not tr_err else dict(ok=False, theorems=["enum_relations"], failed=["translator: " + tr_err], assumptions={}, output=tr_err)
    rep.add_obligations(res, "Properties_C15")
    har = common.build_harness("asan", "treedump")
    drv = common.extract_driver()
    rng = random.Random("C15-%d" % seed)
    n = 1200 if tier == "quick" else 30000
    docs = [b"\n ", b">4. \n>    ```"] + [gen_md.mixed(rng).encode("utf-8", "replace") for _ in range(n)]
    docs += [gen_md.mutate(rng, gen_md.structured(rng)) for _ in range(n // 4)]
    corpus = gen_md.corpus_docs()
    docs = docs[:2] + corpus + docs[2:]
    docs = [d.replace(b"\0", b" ") for d in docs]
    nc = 2 + len(corpus)
    cases = ["%d %d %s" % (16 if i < 2 else (16 | 8) if i < nc else rng.choice(EXTS),
                           -1 if i < 2 else FORMATS[1 + i % 5] if i < nc else rng.choice(FORMATS), d.hex() or "-") for i, d in enumerate(docs)]
    out = common.run_lines_par(har, cases, timeout=1200)
    dumps, owner = [], []
    bad = []
    for d, c, o in zip(docs, cases, out):
        if o.startswith("CRASH"):
            bad.append((d, c, "impl-crash", "tree dump harness crashed: " + o[:300])); continue
        for stage, part in zip(("after parse", "after export"), o.split(" | ")):
            dumps.append(part); owner.append((d, c, stage))
    verdict = common.run_lines_par(drv, dumps, args=["tree"], timeout=1200)
    ntok = 0
    for (d, c, stage), dump, v in zip(owner, dumps, verdict):
        ntok += int(dump.split()[1])
        if v != "1":
            for k in classify(dump, d):
                bad.append((d, c, k, "token tree %s violates the checker clause '%s'" % (stage, k)))
    nsurg = surgery_part(rep, tier, rng, drv, bad, enum_values)
    nsurg += matcher_part(rep, tier, rng, drv, bad)
    sel = list(range(len(docs))) if tier == "quick" else list(range(0, len(docs), 3))
    contracts_part(rep, [docs[i] for i in sel], [cases[i] for i in sel], bad)
    rep.cov["evaluations"] = len(docs) + nsurg
    rep.cov["trees_checked"] = len(dumps)
    rep.cov["tokens_checked"] = ntok
    rep.cov["distinct_nontrivial"] = len(set(d for d in docs if len(d) > 20))
    rep.cov["rule"] = ("seeded structured documents, marker soup and byte-mutated documents (tools/gen_md.py) x extension sets x "
                       "{parse only, parse+export html/latex/fodt/opml/beamer}; each dumped tree is judged by the extracted, "
                       "proved-sound wf_tree; non-trivial = distinct source longer than 20 bytes")
    rep.cov["samples"] = [dict(case=c[:120], dump=o[:200]) for c, o in list(zip(cases, out))[:3]]
    rep.assumptions += TRUSTED[3:]
    seen = set()
    for d, c, kind, what in bad:
        if kind in seen: continue
        seen.add(kind)
        if kind in ("surgery-links-broken", "matcher-links-broken", "surgery-heap-incoherent", "surgery-tail-stale"):
            rep.violation(kind, what, dict(script=c, matcher=kind.startswith("matcher"), no_failing_input=False, replay_cmd="python3 check.py C15 --replay <this file>")); continue
        if kind in ("matcher-model-vs-impl", "matcher-model-stuck"):
            rep.violation(kind, what, dict(script=c, matcher=True, no_failing_input=True,
                                           broken="correspondence coq/model/PairMatch.v <-> src/token_pairs.c (pair_matcher_first_pass_coherent is about the model)")); continue
        if kind == "surgery-model-vs-impl":
            small = shrink_script(drv, common.build_harness("asan", "surgery"), c)
            cc, e, i = surgery_compare(drv, common.build_harness("asan", "surgery"), [small])[0]
            # a difference between model and code is a broken tie; it becomes a failing input when the code's heap is not coherent
            rep.violation(kind, what, dict(script=small, model=e, impl=i, no_failing_input=True,
                                           broken="correspondence coq/model/TokenHeap.v <-> src/token.c (theorems of Properties_C15.v are about the model)"))
            continue
        rep.violation(kind, what, dict(case=c, source=d.decode("latin-1"), no_failing_input=False))
    if not res["ok"] and not bad:
        rep.violation("proof-broken", "Properties_C15 no longer checks: %s" % res["failed"],
                      dict(no_failing_input=True, broken="theorems of coq/props/Properties_C15.v (%s)" % res["failed"],
                           coq_output=res["output"][-3000:]))


def replay(rep, r):
    try: ENUM.update(tr_enums.main()[0])
    except Exception: pass
    har = common.build_harness("asan", "treedump")
    drv = common.extract_driver()
    if r.get("matcher"):
        rep.cov.update(evaluations=1, distinct_nontrivial=1, obligations=1, discharged=1, checker_cmd="replay", rule="replay")
        rep.cov["samples"] = [r["script"][:300]]
        m = common.run_lines(drv, [r["script"]], args=["pairmatch"])[0]; i = common.run_lines(common.build_harness("asan", "pairmatch"), [r["script"]])[0]
        print("model:", m[:1000]); print("impl :", i[:1000])
        if not heap_coherent(i): rep.violation("matcher-links-broken", "links or mates do not point back", r)
        elif m.split(" ", 2)[-1] != i: rep.violation("matcher-model-vs-impl", "model and token_pairs.c differ", dict(r, no_failing_input=True))
        return
    if "script" in r:
        rep.cov.update(evaluations=1, distinct_nontrivial=1, obligations=1, discharged=1, checker_cmd="replay", rule="replay")
        rep.cov["samples"] = [r["script"]]
        c, e, i = surgery_compare(drv, common.build_harness("asan", "surgery"), [r["script"]])[0]
        print("script:", c); print("model :", e); print("impl  :", i)
        if e != i and not i.startswith("CRASH") and not e.startswith("MODEL"):
            ve, vi = common.run_lines(drv, [e, i], args=["heapcheck"])
            print("verified checkers (doubly linked, mates symmetric, source order): model %s implementation %s" % (ve, vi))
            if ve == "111" and vi != "111":
                rep.violation("surgery-heap-incoherent", "token.c leaves a heap the verified checkers reject", r); return
        if e != i and not i.startswith("CRASH") and not e.startswith("MODEL") and tails_ok(e) and not tails_ok(i):
            rep.violation("surgery-tail-stale", "token.c leaves a child chain whose head's tail is not its last token", r); return
        if e != i:
            rep.violation("surgery-model-vs-impl", "model and token.c differ", dict(r, no_failing_input=True))
        return
    o = common.run_lines(har, [r["case"]])[0]
    print(o[:2000])
    rep.cov.update(evaluations=1, distinct_nontrivial=1, obligations=1, discharged=1, checker_cmd="replay", rule="replay")
    rep.cov["samples"] = [r["case"]]
    for part in o.split(" | "):
        if common.run_lines(drv, [part], args=["tree"])[0] != "1":
            for k in classify(part, r["source"].encode("latin-1")):
                rep.violation(k, "checker clause " + k, dict(case=r["case"], source=r["source"]))
