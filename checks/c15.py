"""C15  The exposed token tree is structurally sound and stays inside the source (DESIGN.md, C15)."""
import collections, os, random
import common, tr_enums, gen_md
from tr_lemon import TranslateError

LEVEL = "proof"
TRUSTED = ["Coq 8.16.1 kernel + vm_compute", "tools/tr_enums.py (compiled probe: gcc evaluates the enumerators)",
           "extraction + ocaml/driver.ml; harness/treedump.c (traversal, numbering of tokens)",
           "the checker is proved sound; running it on dumps of generated inputs is testing - the parser passes that build the tree are not modelled"]
EXTS = [0, 16, 16 | 8, 1, 16 | 512, 16 | 64, 16 | 128, 16 | 1 << 13]
FORMATS = [-1, 0, 2, 5, 9, 3]


def parse(dump):
    f = dump.split()
    srclen, n, T = int(f[0]), int(f[1]), {}
    for x in f[2:]:
        i, ty, st, ln, nx, pv, ch, tl, mt = map(int, x.split(":"))
        T[i] = dict(ty=ty, st=st, ln=ln, nx=nx, pv=pv, ch=ch, mt=mt)
    return srclen, n, T


def classify(dump, src):
    """diagnosis only (the verdict is the extracted checker's): which clause fails, in known-finding classes"""
    srclen, n, T = parse(dump)
    kinds = []
    r = T.get(1)
    if r and (r["ty"] != 0 or r["st"] != 0 or r["nx"] or r["pv"]): kinds.append("root-shape")
    if r and r["ln"] < srclen:
        tail = src[r["ln"]:]
        kinds.append("root-short-trailing-whitespace" if tail.strip(b" \t\r\n") == b"" else "root-short")
    over = [t for t in T.values() if t["st"] + t["ln"] > srclen]
    if over:
        kinds.append("span-includes-terminator" if all(t["st"] + t["ln"] == srclen + 1 for t in over) and not src.endswith(b"\n") else "span-outside-source")
    indeg = collections.Counter()
    for i, t in T.items():
        for k in ("nx", "ch"):
            if t[k] > 0: indeg[t[k]] += 1
        if t["nx"] != 0 and (t["nx"] < 0 or T[t["nx"]]["pv"] != i): kinds.append("next-prev-inconsistent")
        if t["nx"] > 0 and T[t["nx"]]["st"] < t["st"]: kinds.append("sibling-order")
        if t["pv"] != 0 and (t["pv"] < 0 or T[t["pv"]]["nx"] != i): kinds.append("prev-next-inconsistent")
        if t["ch"] != 0 and (t["ch"] < 0 or T[t["ch"]]["pv"] != 0): kinds.append("first-child-has-prev")
        if t["mt"] != 0 and (t["mt"] < 0 or T[t["mt"]]["mt"] != i): kinds.append("mate-asymmetric")
    if any(indeg[i] != (0 if i == 1 else 1) for i in T): kinds.append("not-a-tree")
    return sorted(set(kinds)) or ["checker-rejects"]


def run(rep, tier, seed):
    rep.cov["trusted_base"] = TRUSTED
    tr_err = None
    try:
        tr_enums.main()
    except TranslateError as e:
        tr_err = str(e)
    res = common.coq_prove("Properties_C15") if not tr_err else dict(ok=False, theorems=["enum_relations"], failed=["translator: " + tr_err], assumptions={}, output=tr_err)
    rep.add_obligations(res, "Properties_C15")
    har = common.build_harness("asan", "treedump")
    drv = common.extract_driver()
    rng = random.Random("C15-%d" % seed)
    n = 1200 if tier == "quick" else 30000
    docs = [b"\n ", b">4. \n>    ```"] + [gen_md.mixed(rng).encode("utf-8", "replace") for _ in range(n)]
    docs += [gen_md.mutate(rng, gen_md.structured(rng)) for _ in range(n // 4)]
    corpus = gen_md.corpus_docs()
    docs = docs[:2] + corpus + docs[2:]
    docs = [d.replace(b"\0", b" ") for d in docs]
    nc = 2 + len(corpus)
    cases = ["%d %d %s" % (16 if i < 2 else (16 | 8) if i < nc else rng.choice(EXTS),
                           -1 if i < 2 else FORMATS[1 + i % 5] if i < nc else rng.choice(FORMATS), d.hex() or "-") for i, d in enumerate(docs)]
    out = common.run_lines_par(har, cases, timeout=1200)
    dumps, owner = [], []
    bad = []
    for d, c, o in zip(docs, cases, out):
        if o.startswith("CRASH"):
            bad.append((d, c, "impl-crash", "tree dump harness crashed: " + o[:300])); continue
        for stage, part in zip(("after parse", "after export"), o.split(" | ")):
            dumps.append(part); owner.append((d, c, stage))
    verdict = common.run_lines_par(drv, dumps, args=["tree"], timeout=1200)
    ntok = 0
    for (d, c, stage), dump, v in zip(owner, dumps, verdict):
        ntok += int(dump.split()[1])
        if v != "1":
            for k in classify(dump, d):
                bad.append((d, c, k, "token tree %s violates the checker clause '%s'" % (stage, k)))
    rep.cov["evaluations"] = len(docs)
    rep.cov["trees_checked"] = len(dumps)
    rep.cov["tokens_checked"] = ntok
    rep.cov["distinct_nontrivial"] = len(set(d for d in docs if len(d) > 20))
    rep.cov["rule"] = ("seeded structured documents, marker soup and byte-mutated documents (tools/gen_md.py) x extension sets x "
                       "{parse only, parse+export html/latex/fodt/opml/beamer}; each dumped tree is judged by the extracted, "
                       "proved-sound wf_tree; non-trivial = distinct source longer than 20 bytes")
    rep.cov["samples"] = [dict(case=c[:120], dump=o[:200]) for c, o in list(zip(cases, out))[:3]]
    rep.assumptions += TRUSTED[3:]
    seen = set()
    for d, c, kind, what in bad:
        if kind in seen: continue
        seen.add(kind)
        rep.violation(kind, what, dict(case=c, source=d.decode("latin-1"), no_failing_input=False))
    if not res["ok"] and not bad:
        rep.violation("proof-broken", "Properties_C15 no longer checks: %s" % res["failed"],
                      dict(no_failing_input=True, broken="theorems of coq/props/Properties_C15.v (%s)" % res["failed"],
                           coq_output=res["output"][-3000:]))


def replay(rep, r):
    har = common.build_harness("asan", "treedump")
    drv = common.extract_driver()
    o = common.run_lines(har, [r["case"]])[0]
    print(o[:2000])
    rep.cov.update(evaluations=1, distinct_nontrivial=1, obligations=1, discharged=1, checker_cmd="replay", rule="replay")
    rep.cov["samples"] = [r["case"]]
    for part in o.split(" | "):
        if common.run_lines(drv, [part], args=["tree"])[0] != "1":
            for k in classify(part, r["source"].encode("latin-1")):
                rep.violation(k, "checker clause " + k, dict(case=r["case"], source=r["source"]))
