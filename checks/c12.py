"""C12  Accepting or rejecting CriticMarkup yields exactly the edited text (DESIGN.md, C12)."""
import os, random, subprocess, collections
import common, tchk

LEVEL = "proof"
TRUSTED = ["Coq 8.16.1 kernel", "model/CriticModel.v: hand model of critic_markup.c + token_pairs.c (critic pairings) + aho-corasick leftmost-longest search, "
           "with plain text kept byte-wise and erasure modelled as concatenation of what is kept; tied by correspondence on grammar scripts and marker soup",
           "extraction + ocaml/driver.ml; harness/bytesfn.c", "the CLI clause (-a / -r render what the edited text renders to) is tested, not proved"]
SAFE = "abc xyz\n\n.,!*_[]()#`\"'0123é日"
ESC = "{}+-~>="


def gen_text(rng, maxn=6):
    out = []
    for _ in range(rng.randint(0, maxn)):
        out.append("\\" + rng.choice(ESC) if rng.random() < 0.12 else rng.choice(SAFE))
    return "".join(out)


def gen_script(rng, depth=0):
    """returns (annotated, accepted, rejected)"""
    parts = []
    for _ in range(rng.randint(0 if depth else 1, 4)):
        k = rng.choice(["text", "text", "add", "del", "hi", "sub", "com"]) if depth < 3 else "text"
        if k == "text":
            t = gen_text(rng); parts.append((t, t, t))
        elif k in ("add", "del", "hi"):
            a, acc, rej = gen_script(rng, depth + 1)
            o, c = {"add": ("{++", "++}"), "del": ("{--", "--}"), "hi": ("{==", "==}")}[k]
            parts.append((o + a + c, acc if k != "del" else "", rej if k != "add" else ""))
        elif k == "sub":
            old, new = gen_text(rng, 4), gen_text(rng, 4)
            parts.append(("{~~" + old + "~>" + new + "~~}", new, old))
        else:
            parts.append(("{>>" + gen_text(rng, 4) + "<<}", "", ""))
    return tuple("".join(p[i] for p in parts) for i in range(3))


PAIRS = [(b"{++", b"++}"), (b"{--", b"--}"), (b"{~~", b"~~}"), (b"{==", b"==}"), (b"{>>", b"<<}")]


def no_pair_possible(b):
    """sufficient condition for 'no matched pair': for no kind does an opener occur before a closer"""
    for o, c in PAIRS:
        i = b.find(o)
        if i >= 0 and b.find(c, i + 3) >= 0:
            return False
    return True


SOUP = ["{++", "++}", "{--", "--}", "{~~", "~>", "~~}", "{==", "==}", "{>>", "<<}", "\\{", "\\}", "\\+", "\\~", "a", "b", " ", "\n\n", "{", "}", "+", "-", "~", ">", "<", "=", "\\", "é"]


def run(rep, tier, seed):
    rep.cov["trusted_base"] = TRUSTED
    res = common.coq_prove("Properties_C12")
    rep.add_obligations(res, "Properties_C12")
    rng = random.Random("C12-%d" % seed)
    drv = common.extract_driver(); har = common.build_harness("asan", "bytesfn")
    n = 1500 if tier == "quick" else 60000
    scripts = [gen_script(rng) for _ in range(n)]
    soups = ["".join(rng.choice(SOUP) for _ in range(rng.randint(0, 16))) for _ in range(n)]
    cases, expect = [], []
    for a, acc, rej in scripts:
        cases.append("accept " + (a.encode().hex() or "-")); expect.append(acc.encode())
        cases.append("reject " + (a.encode().hex() or "-")); expect.append(rej.encode())
    for s in soups:
        b = s.encode()
        cases.append("%s %s" % (rng.choice(["accept", "reject"]), b.hex() or "-")); expect.append(None)
        if b and rng.random() < 0.5:
            st = rng.randint(0, len(b)); ln = rng.randint(0, len(b) - st)
            cases.append("%s %s %d %d" % (rng.choice(["accept_range", "reject_range"]), b.hex(), st, ln)); expect.append(None)
    # sub-ranges: a well-formed script between arbitrary text (which may itself contain marks), range = exactly the script:
    # the script is edited, every byte outside the range stays as it was
    for a, acc, rej in scripts[: n // 3]:
        pre = "".join(rng.choice(SOUP + ["x", " ", "{--p--}"]) for _ in range(rng.randint(0, 6)))
        suf = "".join(rng.choice(SOUP + ["y", " ", "{~~s~>t~~}", "{++q++}"]) for _ in range(rng.randint(0, 6)))
        whole = (pre + a + suf).encode(); st = len(pre.encode()); ln = len(a.encode())
        if not whole: continue
        cases.append("accept_range %s %d %d" % (whole.hex(), st, ln)); expect.append((pre + acc + suf).encode())
        cases.append("reject_range %s %d %d" % (whole.hex(), st, ln)); expect.append((pre + rej + suf).encode())
    model = common.run_lines_par(drv, cases, args=["bytes"]); impl = common.run_lines_par(har, cases)
    bad, ncorr = [], 0
    for c, e, m, i in zip(cases, expect, model, impl):
        if i.startswith("CRASH"):
            bad.append(("impl-crash", "critic function crashed: " + i[:200], c)); continue
        got = bytes.fromhex(i) if i != "-" else b""
        if e is not None and got != e:
            bad.append(("spec-vs-impl:" + c.split()[0], "%s of a well-formed script does not give the edited text: expected %r got %r" % (c.split()[0], e, got), c)); continue
        if e is None and len(c.split()) == 2 and no_pair_possible(bytes.fromhex(c.split()[1]) if c.split()[1] != "-" else b"") and got.hex() != c.split()[1].replace("-", ""):
            bad.append(("unmatched-changed", "no marker pair can match in %r but %s changed it to %r" % (bytes.fromhex(c.split()[1]), c.split()[0], got), c)); continue
        if m != i:
            bad.append(("model-vs-impl", "correspondence broken: %s model=%s impl=%s" % (c[:80], m[:80], i[:80]), c)); continue
        ncorr += 1
    # idempotence, on the implementation, for the grammar stream
    idem = []
    for (a, acc, rej) in scripts[: n // 3]:
        idem.append("accept " + (acc.encode().hex() or "-")); idem.append("reject " + (acc.encode().hex() or "-"))
    iout = common.run_lines_par(har, idem)
    for c, o in zip(idem, iout):
        if o != c.split()[1]:
            bad.append(("not-idempotent", "edited text changes when processed again: %s -> %s" % (c, o), c))
    # CLI clause: -a / -r render what the edited text renders to
    cli = os.path.join(common.build_variant("asan"), "multimarkdown")
    ncli = 0
    for a, acc, rej in scripts[: (25 if tier == "quick" else 600)]:
        for flag, edited in (("-a", acc), ("-r", rej)):
            r1 = subprocess.run([cli, flag], input=a.encode(), capture_output=True, env=common.RUN_ENV, timeout=60)
            r2 = subprocess.run([cli], input=edited.encode(), capture_output=True, env=common.RUN_ENV, timeout=60)
            ncli += 1
            if r1.returncode or r2.returncode:
                bad.append(("impl-crash", "CLI failed: " + (r1.stderr + r2.stderr).decode("latin-1")[:200], a)); continue
            if r1.stdout != r2.stdout:
                bad.append(("cli-differs:" + flag, "multimarkdown %s on %r renders differently from the edited text %r" % (flag, a, edited), a))
    rep.cov["evaluations"] = len(cases) + len(idem) + ncli
    rep.cov["traces_validated_against_impl"] = ncorr
    rep.cov["distinct_nontrivial"] = len(set(a for a, x, y in scripts if "{" in a)) + len(set(s for s in soups if "{" in s))
    rep.cov["rule"] = ("valid stream: edit scripts from the grammar (five mark types, nesting <= 3 inside add/del/highlight, empty payloads, paragraph breaks, escapes) checked against "
                       "the executable spec AND the model; malformed stream: marker soup over the 11 markers, escapes and lone marker characters, whole string and random sub-ranges, "
                       "model vs implementation; idempotence; CLI -a/-r vs rendering of the edited text; non-trivial = distinct input containing a marker")
    rep.cov["samples"] = [dict(annotated=scripts[0][0], accepted=scripts[0][1], rejected=scripts[0][2]), dict(soup=soups[0])]
    rep.assumptions += TRUSTED[1:]
    seen = set()
    for kind, what, c in bad:
        if kind in seen: continue
        seen.add(kind)
        nofail = kind == "model-vs-impl"
        rep.violation(kind, what, dict(case=c, no_failing_input=nofail, broken="correspondence CriticModel.v <-> critic_markup.c" if nofail else None))
    if not res["ok"] and not [b for b in bad if b[0] != "model-vs-impl"]:
        rep.violation("proof-broken", "Properties_C12 no longer checks: %s" % res["failed"],
                      dict(no_failing_input=True, broken="theorems of coq/props/Properties_C12.v (%s)" % res["failed"], coq_output=res["output"][-3000:]))


def replay(rep, r):
    rep.cov.update(evaluations=1, distinct_nontrivial=1, obligations=1, discharged=1, checker_cmd="replay", rule="replay")
    rep.cov["samples"] = [r.get("case", "")[:200]]
    drv = common.extract_driver(); har = common.build_harness("asan", "bytesfn")
    c = r["case"]
    if " " in c and c.split()[0] in ("accept", "reject", "accept_range", "reject_range"):
        m = common.run_lines(drv, [c], args=["bytes"])[0]; i = common.run_lines(har, [c])[0]
        print("model", m); print("impl ", i)
        if m != i:
            rep.violation("model-vs-impl", "differs", r)
