"""The STAR / UL cases of mmd_assign_ambidextrous_tokens_in_block: model/Ambidextrous.v against the compiled function
(harness/ambi.c, sanitizer build, text held in a block of exactly strlen+1 bytes), used by C01 (reads stay inside the
text) and C03 (flags depend only on the text between the nearest whitespace on either side)."""
import random
import common

WORDS = [b"a", b"foo", b"bar", b"x1", b"9", b"don't", b"half-baked", b"caf\xc3\xa9", b"B"]
MARKS = [b"*", b"**", b"***", b"_", b"__", b"*_", b"_*", b"****", b"___"]
PUNCT = [b".", b",", b"(", b")", b"'", b"-", b"\"", b"!", b"\\", b"`", b"<", b">"]
SPACE = [b" ", b" ", b" ", b"\n", b"\t", b"  ", b"\r\n"]


def text(rng):
    k = rng.random()
    if k < 0.2:          # unstructured, small alphabet
        return bytes(rng.choice(b"**__ a1.-'\n\t*_") for _ in range(rng.randint(1, 16)))
    out = []
    for _ in range(rng.randint(1, 7)):
        r = rng.random()
        if r < 0.45: out.append(rng.choice(MARKS))
        elif r < 0.75: out.append(rng.choice(WORDS))
        elif r < 0.88: out.append(rng.choice(SPACE))
        else: out.append(rng.choice(PUNCT))
    return b"".join(out) or b"*"


INL = [b"'", b"\"", b"``", b"''", b"`", b"^", b"~", b"$", b"$$", b"-", b"--", b"1", b"2", b"x^2", b"H~2~O", b"x^a^", b"it's", b"'q'", b"\"q\"", b"1-2", b"a-b",
       b"$x$", b"$$y$$", b"s", b"S", b"'s", b"`c`'s"]


def real_doc(rng):
    """a small document of paragraphs, headings, quotes and tight lists whose lines start with a letter (so that every
    inline token is a child of a block the routine visits), with every kind of token the routine looks at"""
    out = []
    for _ in range(rng.randint(1, 4)):
        pre = rng.choice([b"", b"", b"# ", b"## ", b"> ", b"* ", b"1. "])
        lines = []
        for _ in range(rng.randint(1, 2) if not pre.startswith(b"#") else 1):
            parts = [rng.choice([b"a", b"Word", b"x"])]
            for _ in range(rng.randint(1, 8)):
                r = rng.random()
                parts.append(rng.choice(INL) if r < 0.45 else rng.choice(MARKS) if r < 0.6 else rng.choice(WORDS) if r < 0.8 else rng.choice([b" ", b" ", b", ", b". "]))
            lines.append(b"".join(parts))
        out.append(pre + b"\n".join(lines))
    return b"\n\n".join(out) + rng.choice([b"\n", b"", b"\n\n"])


def parse(line):
    """'<off>:<o><c> ...' -> {off: 'oc'}"""
    return None if line is None or line.startswith("CRASH") else dict(p.split(":") for p in line.split())


def part(rep, tier, rng, quick_n=3000, thorough_n=150000, wanted=("ambidextrous-read-outside-text", "ambidextrous-model-reads-outside", "emphasis-flags-depend-on-context")):
    """Returns a list of (kind, what, replay) to report; fills rep.cov['ambidextrous']."""
    n = quick_n if tier == "quick" else thorough_n
    h = common.build_harness("asan", "ambi")
    drv = common.extract_driver()
    texts = [b"*", b"_", b"*a*", b"_a_", b"a_b_", b"1_b_", b"**foo****bar**", b"*foo**bar***", b"***foo**bar*", b"a*", b"a_", b"*_*_a"]
    seen = set(texts)
    while len(texts) < n:
        t = text(rng)
        if t not in seen and b"\0" not in t:
            seen.add(t); texts.append(t)
    lines = [t.hex() for t in texts]
    impl = common.run_lines_par(h, lines)
    model = common.run_lines_par(drv, lines, args=("ambi",))
    bad, agree, markers = [], 0, 0
    differs = []
    for t, a, b in zip(texts, impl, model):
        case = dict(text=t.decode("latin-1"), hex=t.hex(), implementation=a, model=b)
        if a.startswith("CRASH"):
            bad.append(("ambidextrous-read-outside-text", "deciding which markers may open or close crashes or reads outside the text: " + a[:200], dict(case=case))); continue
        if "!!" in b:
            bad.append(("ambidextrous-model-reads-outside", "the model of the marker rules reads outside the text (the bounds theorem cannot hold)", dict(case=case, no_failing_input=True,
                        broken="theorem ambidextrous_reads_in_bounds / model Ambidextrous.assign"))); continue
        if a != b: differs.append(case)
        else: agree += 1; markers += len(a.split())
    # the whole routine on tokens of the real lexer and block parser: every token kind it looks at (quotes, apostrophes, backticks,
    # dashes, math, super/subscript as well as * and _), before and after, against Ambidextrous.assign_tok
    nd = 1500 if tier == "quick" else 60000
    rdocs = []
    seen_d = set()
    while len(rdocs) < nd:
        d = real_doc(rng)
        if d not in seen_d: seen_d.add(d); rdocs.append(d)
    rimpl = common.run_lines_par(h, ["T " + d.hex() for d in rdocs])
    mjobs, midx = [], []
    for d, o in zip(rdocs, rimpl):
        if o.startswith("CRASH"):
            bad.append(("ambidextrous-read-outside-text", "deciding which tokens may open or close crashes or reads outside the text: " + o[:200], dict(case=dict(text=d.decode("latin-1"), hex=d.hex(), real=True)))); continue
        before = o.split(" |")[0].strip()
        if before:
            mjobs.append(d.hex() + " " + before); midx.append((d, o))
    rmodel = common.run_lines_par(drv, mjobs, args=("ambitok",))
    tok_agree, kinds = 0, {}
    for (d, o), m in zip(midx, rmodel):
        after = o.split(" |")[1].strip() if " |" in o else ""
        case = dict(text=d.decode("latin-1"), hex=d.hex(), real=True, tokens=o.split(" |")[0].strip(), implementation=after, model=m)
        if "!!" in m:
            bad.append(("ambidextrous-model-reads-outside", "the model of the token rules reads outside the text (the bounds theorem cannot hold)", dict(case=case, no_failing_input=True,
                        broken="theorem ambidextrous_reads_in_bounds / model Ambidextrous.assign_tok"))); continue
        if after != m: differs.append(case)
        else:
            tok_agree += 1
            for t in case["tokens"].split(): kinds[t[0]] = kinds.get(t[0], 0) + 1
    # the context statement on the implementation for every token kind: a one-line text alone and inside a longer paragraph,
    # separated from the rest by blanks; the tokens of the real lexer inside it must come out the same
    def one_line():
        parts = [rng.choice([b"a", b"Word", b"x"])]
        for _ in range(rng.randint(1, 8)):
            r = rng.random()
            parts.append(rng.choice(INL) if r < 0.5 else rng.choice(MARKS) if r < 0.65 else rng.choice(WORDS) if r < 0.85 else rng.choice([b" ", b", ", b". "]))
        return b"".join(parts).replace(b"\n", b" ")
    nk = 600 if tier == "quick" else 20000
    kjobs, kmeta = [], []
    for _ in range(nk):
        t1 = one_line(); p1 = one_line() + b" "; p2 = b" " + one_line()
        kjobs.append("T " + t1.hex()); kjobs.append("T " + (p1 + t1 + p2).hex()); kmeta.append((t1, p1, p2))
    kres = common.run_lines_par(h, kjobs)
    def toks(o, lo, hi):
        if o is None or o.startswith("CRASH") or " |" not in o: return None
        b, a = o.split(" |")[0].split(), o.split(" |")[1].split()
        return [(x.split(":")[0], int(x.split(":")[1]) - lo, x.split(":")[2], y) for x, y in zip(b, a) if lo <= int(x.split(":")[1]) < hi]
    kind_ctx_ok = 0
    for j, (t1, p1, p2) in enumerate(kmeta):
        alone, inside = toks(kres[2 * j], 0, len(t1)), toks(kres[2 * j + 1], len(p1), len(p1) + len(t1))
        case = dict(text=t1.decode("latin-1"), hex=t1.hex(), before=p1.decode("latin-1"), after=p2.decode("latin-1"), real=True, ctx=True, alone=kres[2 * j], inside=kres[2 * j + 1])
        if alone is None or inside is None:
            if (kres[2 * j] or "").startswith("CRASH") or (kres[2 * j + 1] or "").startswith("CRASH"):
                bad.append(("ambidextrous-read-outside-text", "deciding which tokens may open or close crashes or reads outside the text: " + (kres[2 * j] + " " + kres[2 * j + 1])[:200], dict(case=case)))
            continue
        if [(k, st, ln) for k, st, ln, _ in alone] != [(k, st, ln) for k, st, ln, _ in inside]:
            continue        # (the lexer cut the text differently: not a statement about the routine)
        if alone != inside:
            bad.append(("emphasis-flags-depend-on-context", "whether a token may open or close (or what it becomes) changes with the text beyond the surrounding whitespace", dict(case=case)))
        else: kind_ctx_ok += 1
    # the property on the implementation itself: the same text inside other text, separated by whitespace / line endings
    m = 1000 if tier == "quick" else 30000
    ctx_lines, ctx_meta = [], []
    pool = [c["hex"] for c in differs[:200] if not c.get("real")] + lines
    for i in range(m):
        s = bytes.fromhex(pool[i % len(pool)]) if i < len(pool) else rng.choice(texts)
        pre = rng.choice([b"", b"", text(rng), rng.choice(MARKS), rng.choice(WORDS) + rng.choice(MARKS)])
        post = rng.choice([b"", text(rng), rng.choice(MARKS), rng.choice(MARKS) + rng.choice(WORDS)])
        c1 = rng.choice([b"\n", b" ", b"\t", b"\r"]); c2 = rng.choice([b"\n", b" ", b"\t", b"\r"])
        if b"\0" in pre + post: continue
        ctx_lines.append(s.hex()); ctx_meta.append((s, None))
        ctx_lines.append((pre + c1 + s + c2 + post).hex()); ctx_meta.append((s, (pre + c1, c2 + post)))
    res = common.run_lines_par(h, ctx_lines)
    ctx_ok = 0
    for j in range(0, len(ctx_lines), 2):
        s, (p1, p2) = ctx_meta[j + 1][0], ctx_meta[j + 1][1]
        alone, inside = parse(res[j]), parse(res[j + 1])
        case = dict(text=s.decode("latin-1"), hex=s.hex(), before=p1.decode("latin-1"), after=p2.decode("latin-1"), alone=res[j], inside=res[j + 1])
        if alone is None or inside is None:
            bad.append(("ambidextrous-read-outside-text", "deciding which markers may open or close crashes or reads outside the text: " + (res[j] + " " + res[j + 1])[:200], dict(case=case))); continue
        shifted = {str(int(k) - len(p1)): v for k, v in inside.items() if len(p1) <= int(k) < len(p1) + len(s)}
        if shifted != alone:
            bad.append(("emphasis-flags-depend-on-context", "whether a * or _ may open or close emphasis changes with the text beyond the surrounding whitespace", dict(case=case)))
        else: ctx_ok += 1
    # (the caller decides: a difference with no failing input for its own property is still reported)
    if differs and not any(k in wanted for k, _, _ in bad):
        bad.append(("ambidextrous-model-differs", "the compiled marker rules differ from model/Ambidextrous.v (the theorems no longer describe the code)",
                    dict(case=differs[0], no_failing_input=True, broken="correspondence harness/ambi.c vs Ambidextrous.assign_all (%d texts differ)" % len(differs))))
    rep.cov["ambidextrous"] = dict(texts=len(texts), agree=agree, markers_compared=markers, differing=len(differs), contexts_checked_on_implementation=ctx_ok,
                                   real_lexer_contexts_checked_on_implementation=kind_ctx_ok, real_lexer_documents=len(rdocs), real_lexer_documents_agreeing=tok_agree, real_tokens_by_kind=kinds,
                                   rule="texts over words / runs of * and _ / punctuation / whitespace (and 20% unstructured): can_open and can_close of every marker, model == compiled function "
                                        "under ASan with the text in an exact-size block; small documents (paragraphs, headings, quotes, lists) through the real lexer and block parser: every STAR, UL, quote, backtick, dash, math and "
                                        "super/subscript token before and after the routine == Ambidextrous.assign_tok; and flags(text) == flags(text inside other text separated by whitespace) on the compiled function")
    return bad, len(lines) + len(ctx_lines) + len(rdocs) + len(kjobs)


def replay(rep, r):
    c = r.get("case", r)
    h = common.build_harness("asan", "ambi")
    drv = common.extract_driver()
    s = bytes.fromhex(c["hex"])
    key = r.get("key")
    if c.get("ctx"):
        p1, p2 = c["before"].encode("latin-1"), c["after"].encode("latin-1")
        out = common.run_lines(h, ["T " + s.hex(), "T " + (p1 + s + p2).hex()])
        print("alone :", out[0]); print("inside:", out[1])
        def toks(o, lo, hi):
            b, a = o.split(" |")[0].split(), o.split(" |")[1].split()
            return [(x.split(":")[0], int(x.split(":")[1]) - lo, x.split(":")[2], y) for x, y in zip(b, a) if lo <= int(x.split(":")[1]) < hi]
        if any(o.startswith("CRASH") for o in out): rep.violation("ambidextrous-read-outside-text", " ".join(out)[:200], r); return
        if toks(out[0], 0, len(s)) != toks(out[1], len(p1), len(p1) + len(s)): rep.violation("emphasis-flags-depend-on-context", "outcome changes with the context", r)
        return
    if c.get("real"):
        o = common.run_lines(h, ["T " + s.hex()])[0]
        print("implementation:", o)
        if o.startswith("CRASH"): rep.violation("ambidextrous-read-outside-text", o[:200], r); return
        m = common.run_lines(drv, [s.hex() + " " + o.split(" |")[0].strip()], args=("ambitok",))[0]
        print("model         :", m)
        if o.split(" |")[1].strip() != m: rep.violation(key or "ambidextrous-model-differs", "model and implementation differ", r)
        return
    if "before" in c:
        p1, p2 = c["before"].encode("latin-1"), c["after"].encode("latin-1")
        out = common.run_lines(h, [s.hex(), (p1 + s + p2).hex()])
        print("alone :", out[0]); print("inside:", out[1])
        alone, inside = parse(out[0]), parse(out[1])
        if alone is None or inside is None:
            rep.violation("ambidextrous-read-outside-text", "crash: " + " ".join(out)[:200], r); return
        shifted = {str(int(k) - len(p1)): v for k, v in inside.items() if len(p1) <= int(k) < len(p1) + len(s)}
        if shifted != alone:
            rep.violation("emphasis-flags-depend-on-context", "flags change with the context", r)
        return
    a = common.run_lines(h, [s.hex()])[0]; b = common.run_lines(drv, [s.hex()], args=("ambi",))[0]
    print("implementation:", a); print("model         :", b)
    if a.startswith("CRASH"): rep.violation("ambidextrous-read-outside-text", a[:200], r)
    elif a != b: rep.violation(key or "ambidextrous-model-differs", "model and implementation differ", r)
