"""C10  Generated anchors and the references to them always match (DESIGN.md, C10)."""
import random, re
import common, tchk

LEVEL = "proof"
TRUSTED = ["Coq 8.16.1 kernel",
           "model/AnchorModel.v: hand model of the used-note stacks and of the three list writers (a document is abstracted to the order of its note calls); "
           "tied to html.c / writer.c by correspondence: the anchor sequence of the real HTML is compared with the extracted [export]",
           "model/HeaderIdModel.v + LabelModel.v: which bytes a heading's id / link label is computed from; tied by comparing the predicted id with the id attribute in the real HTML",
           "extraction + ocaml/driver.ml", "checks/c10.py: serialiser from abstract documents to MultiMarkdown text and the regular expressions reading anchors back (T-chk, not proof)"]
E = tchk.EXT
BASE = E["smart"] | E["notes"] | E["critic"]
WORDS = ["alpha", "beta", "gamma", "delta", "omega", "lorem", "ipsum", "dolor", "amet", "sit"]
KIND = {"F": ("^", "f", "fn"), "G": ("?", "g", "gn"), "C": ("#", "c", "cn")}


# ---------------------------------------------------------------- notes: abstract documents
def gen_adoc(rng, late=False):
    """abstract document: body calls + contents of the definitions of the three kinds.
    late=False keeps first uses out of lists that are already written (the proved case)"""
    n = {k: rng.randint(0, 5) for k in "FGC"}
    if sum(n.values()) == 0: n["F"] = 2
    def calls(allowed, lo, hi):
        pool = [k + str(d) for k in allowed for d in range(n[k])]
        if not pool: return []
        return [rng.choice(pool) for _ in range(rng.randint(lo, hi))]
    body = calls("FGC", 1, 8)
    if n["C"] and rng.random() < 0.3:
        body.insert(rng.randrange(len(body) + 1), "N%d" % rng.randrange(n["C"]))
    defs = {}
    for k in "FGC":
        allowed = "FGC" if (late or k == "F") else ("GC" if k == "G" else "C")
        defs[k] = [calls(allowed, 0, 3) if rng.random() < 0.6 else [] for _ in range(n[k])]
    # inline footnotes: definitions with exactly one call site, in the body or in a referenced note
    sites = {}
    for where, its in [("B", body)] + [(k + str(i), c) for k in "FGC" for i, c in enumerate(defs[k])]:
        for it in its:
            if it[0] == "F": sites.setdefault(it, []).append(where)
    inline = set()
    for it, w in sites.items():
        if len(w) == 1 and rng.random() < 0.4 and not any(c[0] == "F" and c in inline for c in defs["F"][int(it[1:])]):
            inline.add(it)
    # an inline note must not sit inside another inline note
    for it in list(inline):
        w = sites[it][0]
        if w != "B" and w[0] == "F" and w in inline: inline.discard(it)
    return dict(body=body, defs=defs, inline=inline)


def encode_adoc(a):
    enc = lambda its: ",".join(its) if its else "-"
    return "|".join([",".join(a["body"])] + [";".join(enc(c) for c in a["defs"][k]) for k in "FGC"])


def words(rng, lo=1, hi=3):
    return " ".join(rng.choice(WORDS) for _ in range(rng.randint(lo, hi)))


def ser_items(rng, a, its):
    out = [words(rng)]
    for it in its:
        k, d = it[0], int(it[1:])
        if k == "N":
            out.append("[Not cited][#c%d]" % d)
        elif it in a["inline"]:
            out.append("[^inline %s %s]" % (words(rng), ser_items(rng, a, a["defs"]["F"][d])))
        else:
            sig, nm, _ = KIND[k]
            # (a citation may carry a locator, on its first use as well as on later ones: the anchors are the same)
            loc = "[%s %d]" % (rng.choice(["p.", "pp.", "ch.", "see"]), rng.randint(1, 99)) if k == "C" and rng.random() < 0.4 else ""
            out.append("%s[%s%s%d]" % (loc, sig, nm, d))
        out.append(words(rng, 0, 2))
    return " ".join(x for x in out if x)


def ser_adoc(rng, a):
    """MultiMarkdown text whose note calls occur in the order the abstract document says"""
    body = a["body"]
    cuts = sorted(rng.sample(range(len(body) + 1), min(len(body) + 1, rng.randint(0, 3))))
    parts, prev = [], 0
    for c in cuts + [len(body)]:
        parts.append(body[prev:c]); prev = c
    blocks = []
    for p in parts:
        t = ser_items(rng, a, p)
        style = rng.random()
        if style < 0.5: blocks.append(t)
        elif style < 0.65: blocks.append("* " + t)
        elif style < 0.8: blocks.append("> " + t)
        elif style < 0.9: blocks.append("1. " + t)
        else: blocks.append("> * " + t)
    dl = []
    for k in "FGC":
        sig, nm, _ = KIND[k]
        for d, c in enumerate(a["defs"][k]):
            if k == "F" and "F%d" % d in a["inline"]: continue
            t = ser_items(rng, a, c)
            if rng.random() < 0.2 and k != "G":
                # a second, indented paragraph: calls stay in order, the back link moves to the last paragraph
                t = words(rng) + ".\n\n    " + t
            dl.append("[%s%s%d]: %s." % (sig, nm, d, t))
    rng.shuffle(dl)
    pre = ["# Heading %s" % words(rng)] if rng.random() < 0.3 else []
    return ("\n\n".join(pre + blocks + dl) + "\n").encode()


ANCHOR = re.compile(rb'<a href="#(fn|gn|cn):(\d+)"( id="(fn|gn|cn)ref:(\d+)")?|<li id="(fn|gn|cn):(\d+)">|<a href="#(fn|gn|cn)ref:(\d+)"')
KC = {b"fn": "F", b"gn": "G", b"cn": "C"}


def read_trace(html, rename=None):
    """anchor sequence of an HTML result in the driver's notation; rename: {kind: {anchor: number}} for --random"""
    out = []
    def num(k, x):
        x = int(x)
        if rename is not None and k == "F":
            return rename.get(x, "?%d" % x)
        return x
    for m in ANCHOR.finditer(html):
        if m.group(1):
            k = KC[m.group(1)]
            if m.group(3) and (m.group(4) != m.group(1) or m.group(5) != m.group(2)):
                out.append("bad-id"); continue
            out.append("c%s%s%s" % (k, num(k, m.group(2)), "+" if m.group(3) else ""))
        elif m.group(6):
            k = KC[m.group(6)]; out.append("e%s%s" % (k, num(k, m.group(7))))
        else:
            k = KC[m.group(8)]; out.append("b%s%s" % (k, num(k, m.group(9))))
    return out


def random_rename(html):
    """--random: the i-th footnote entry carries some anchor x_i; calls and back links must use the same x_i"""
    ids = [int(x) for x in re.findall(rb'<li id="fn:(\d+)">', html)]
    if len(set(ids)) != len(ids): return None          # two notes drew the same number out of 32000: nothing can be told
    return {x: i + 1 for i, x in enumerate(ids)}


def dangling(html):
    ids = re.findall(rb'\sid="([^"]*)"', html)
    hrefs = re.findall(rb'href="#([^"]*)"', html)
    s = set(ids)
    return [h.decode("latin-1") for h in hrefs if h not in s], [i.decode("latin-1") for i in set(ids) if ids.count(i) > 1]


def notes_part(rep, tier, rng, bad):
    drv = common.extract_driver()
    n = 300 if tier == "quick" else 30000
    docs = []
    for i in range(n):
        a = gen_adoc(rng, late=(i % 5 == 4))
        docs.append((a, ser_adoc(rng, a), BASE | (E["random_foot"] if i % 3 == 2 else 0)))
    model = common.run_lines_par(drv, [encode_adoc(a) for a, _, _ in docs], args=["anchors"], timeout=1800)
    impl = tchk.convert([(d, "html", e, 0) for _, d, e in docs])
    ncorr = nlate = nrand = 0
    sizes = []
    for (a, d, e), m, r in zip(docs, model, impl):
        case = dict(doc=d.decode(), ext=e, adoc=encode_adoc(a))
        if not r.ok():
            bad.append(("impl-crash", "conversion failed: " + r.raw[:200], case)); continue
        flags, _, mtr = m.partition(" ")
        mtr = mtr.split()
        if mtr == ["HANG"] or flags[0] != "1":
            bad.append(("model-err", "model rejects a generated document: " + m[:100], case)); continue
        rename = None
        if e & E["random_foot"]:
            rename = random_rename(r.out); nrand += 1
            if rename is None: continue
        itr = read_trace(r.out, rename)
        if rename is not None and flags[1] == "0" and len(itr) == len(mtr):
            # a footnote first used inside a later list has no entry to take its number from (known finding below):
            # accept the model's number for it when the model, too, has no entry for that call
            ments0 = {x[1:] for x in mtr if x[0] == "e"}
            itr = [m_ if ("?" in i_ and m_[0] == "c" and i_[:2] == m_[:2] and i_.endswith("+") == m_.endswith("+") and m_[1:].rstrip("+") not in ments0) else i_
                   for i_, m_ in zip(itr, mtr)]
        sizes.append(len(mtr))
        if itr != mtr:
            kind = "random-anchors-inconsistent" if rename is not None and [x for x in itr if "?" in x] else "model-vs-impl"
            # a genuine dangling call / wrong order is a failing input in its own right
            calls = {x[1:].rstrip("+") for x in itr if x[0] == "c"}; ents = {x[1:] for x in itr if x[0] == "e"}
            firsts = [x for x in itr if x.endswith("+")]
            miss = sorted(calls - ents)
            mcalls = {x[1:].rstrip("+") for x in mtr if x[0] == "c"}; ments = {x[1:] for x in mtr if x[0] == "e"}
            if miss and flags[1] == "1":
                kind = "call-without-entry"
                what = "note calls %s link to entries that are not in the list" % miss
            elif kind == "random-anchors-inconsistent":
                what = "with random anchors a call or back link uses an anchor no list entry carries"
            else:
                what = "correspondence broken: AnchorModel.v vs html.c; model %s impl %s" % (" ".join(mtr)[:200], " ".join(itr)[:200])
            case["model"] = " ".join(mtr); case["impl"] = " ".join(itr)
            if kind == "model-vs-impl" and not (e & E["random_foot"]):
                # the search for a failing input: a link of the real output that leads nowhere is one
                dang, dup = dangling(r.out)
                dang = [h for h in dang if not (flags[1] == "0" and re.match(r"(fn|gn):\d+$", h)) and not (flags[2] == "0" and re.match(r"cnref:\d+$", h))]
                if dang: kind, what = "dangling-href", "href without matching id: %s" % dang[:5]
                elif dup: kind, what = "duplicate-id", "id used twice: %s" % dup[:5]
            bad.append((kind, what, case)); continue
        ncorr += 1
        # the model and the code agree; a call without entry is then exactly the case the theorem excludes
        calls = {x[1:].rstrip("+") for x in itr if x[0] == "c"}; ents = {x[1:] for x in itr if x[0] == "e"}
        if calls - ents:
            if flags[1] == "1":
                bad.append(("call-without-entry", "a call has no entry although no note is first used inside a later list", case))
            else:
                nlate += 1
                rep.violation("note-first-used-in-later-list", "a note first used inside an entry of a list written afterwards is called but never listed "
                          "(e.g. a footnote first used inside a citation)", dict(case=case))
        if not (e & E["random_foot"]):
            dang, dup = dangling(r.out)
            dang = [h for h in dang if not (flags[1] == "0" and re.match(r"(fn|gn):\d+$", h)) and not (flags[2] == "0" and re.match(r"cnref:\d+$", h))]
            if dang: bad.append(("dangling-href", "href without matching id: %s" % dang[:5], case))
            if dup: bad.append(("duplicate-id", "id used twice: %s" % dup[:5], case))
    rep.cov["notes_cases"] = len(docs)
    rep.cov["notes_traces_matching_model"] = ncorr
    rep.cov["notes_cases_random_anchors"] = nrand
    rep.cov["notes_cases_with_late_first_use"] = nlate
    rep.cov["notes_trace_length_max"] = max(sizes or [0])
    return ncorr


# ---------------------------------------------------------------- headings
TITLE_WORDS = ["Alpha", "beta", "GAMMA", "x2", "Über", "naïve", "日本", "a.b", "c_d", "e-f", "g:h", "100%", "R&D", "(note)", "it's", "what?", "yes!", "semi;colon", "1.2.3", "Zed"]


def gen_title(rng):
    while True:
        t = " ".join(rng.choice(TITLE_WORDS) for _ in range(rng.randint(1, 4)))
        if rng.random() < 0.2: t = t.replace(" ", rng.choice(["  ", " - ", "-", ": "]), 1)
        if re.search(r"[A-Za-z0-9]", t): return t


def ascii_case(t, up):
    return "".join((c.upper() if up else c.lower()) if c.isascii() else c for c in t)


def gen_headings(rng):
    """document with headings of every style + references to each + TOC; returns (text, heads)
    heads: list of dict(title, style, manual, spec line for the driver)"""
    heads, blocks, used = [], [], set()
    if rng.random() < 0.3:
        blocks.append("Title: T\nBase Header Level: %d" % rng.randint(1, 3))
    else:
        blocks.append("Lead paragraph.")          # a first line like "g:h Zed" would be read as metadata
    for i in range(rng.randint(1, 6)):
        t = gen_title(rng) if not (heads and rng.random() < 0.15) else rng.choice(heads)["title"]
        manual = None
        style = rng.choice(["atx", "atx", "atxc", "s1", "s2"])
        if rng.random() < 0.2: manual = "Lab %d%s" % (i, rng.choice(["", "-x", ".y"]))
        suffix = " [%s]" % manual if manual else ""
        th = t.encode().hex()
        if style == "atx":
            l = rng.randint(1, 6); blocks.append("#" * l + " " + t + suffix); spec = "A %d 0 %s" % (l, th); lvl = l
        elif style == "atxc":
            l = rng.randint(1, 6); c = rng.randint(1, 6); blocks.append("#" * l + " " + t + suffix + " " + "#" * c); spec = "A %d %d %s" % (l, c, th); lvl = l
        elif style == "s1":
            n = rng.randint(2, 12); blocks.append(t + suffix + "\n" + "=" * n); spec = "S1 %d %s" % (n, th); lvl = 1
        else:
            n = rng.randint(2, 12); blocks.append(t + suffix + "\n" + "-" * n); spec = "S2 %d %s" % (n, th); lvl = 2
        if manual: spec = "M " + manual.encode().hex()
        heads.append(dict(title=t, style=style, manual=manual, spec=spec, level=lvl))
        blocks.append(rng.choice(["Some text.", "More words here.", "> quoted", "* item"]))
    # one paragraph per reference so that each href can be attributed
    refs = []
    for j, h in enumerate(heads):
        key = h["manual"] or h["title"]
        form = rng.choice(["[%s][]", "[%s]", "[see it][%s]"])
        if rng.random() < 0.3: key = ascii_case(key, rng.random() < 0.5)          # labels fold case for A-Z only
        blocks.append("REF%d %s." % (j, form % key)); refs.append(j)
    if rng.random() < 0.6:
        # the whole table of contents, or one restricted to a range of (source) heading levels
        lo = rng.randint(1, 3); hi = rng.randint(lo, 6)
        blocks.insert(rng.randrange(len(blocks) + 1) if rng.random() < 0.5 else len(blocks), rng.choice(["{{TOC}}", "{{TOC}}", "{{TOC:%d-%d}}" % (lo, hi), "{{TOC:%d}}" % lo]))
    cap = None
    if rng.random() < 0.5:
        cap = "Table " + rng.choice(["One", "two 2", "R&D"])
        form = rng.choice(["[%s]", "[%s][tlab]", "[%s] [tlab]", "[%s]\t[tlab]"])        # caption alone, with a label, with a separated label
        blocks.append("| a | b |\n|---|---|\n| 1 | 2 |\n" + form % cap)
        # a label directly after the caption names the table; otherwise the caption text does
        blocks.append("REFT [%s][]." % ("tlab" if form == "[%s][tlab]" else cap))
    start = blocks[0].startswith("Title:")
    text = ("\n\n".join(blocks) + "\n")
    return text.encode(), heads, cap


H_OPEN = re.compile(rb'<h([1-9])(?: id="([^"]*)")?>')


def headings_part(rep, tier, rng, bad):
    drv = common.extract_driver()
    n = 200 if tier == "quick" else 16000
    cfgs = [("default", BASE), ("unique", BASE | E["random_labels"]), ("nolabels", BASE | E["nolabels"]), ("random", BASE | E["random_foot"])]
    docs = [gen_headings(rng) for _ in range(n)]
    jobs, idx = [], []
    for di, (text, heads, cap) in enumerate(docs):
        for cname, ext in cfgs:
            jobs.append((text, "html", ext, 0)); idx.append((di, cname, "html"))
        jobs.append((text, "latex", BASE, 0)); idx.append((di, "default", "latex"))
    res = tchk.convert(jobs)
    specs = [h["spec"] for _, heads, _ in docs for h in heads]
    pred = common.run_lines(drv, specs, args=["hid"], timeout=600)
    pred_by_doc, p = [], 0
    for _, heads, _ in docs:
        pred_by_doc.append([bytes.fromhex(x.split(" ")[1]) if x.split(" ")[1:] and x.split(" ")[1] else b"" for x in pred[p:p + len(heads)]]); p += len(heads)
    nid = nref = ntoc = 0
    for (di, cname, fmt), r in zip(idx, res):
        text, heads, cap = docs[di]
        case = dict(doc=text.decode(), config=cname, format=fmt)
        if not r.ok():
            bad.append(("impl-crash", "conversion failed: " + r.raw[:200], case)); continue
        if fmt == "latex":
            labels = set(re.findall(rb'\\label\{([^}]*)\}', r.out))
            for a in re.findall(rb'\\autoref\{([^}]*)\}', r.out):
                if a not in labels:
                    bad.append(("latex-autoref-without-label", "\\autoref{%s} has no \\label" % a.decode("latin-1"), case)); break
            continue
        body = r.out
        toc = re.search(rb'<div class="TOC">(.*?)</div>', body, re.S)
        toc_hrefs = re.findall(rb'href="#([^"]*)"', toc.group(1)) if toc else []
        rest = body if not toc else body[:toc.start()] + body[toc.end():]
        hs = H_OPEN.findall(rest)
        ids = [h[1] for h in hs]
        if len(hs) != len(heads):
            bad.append(("generator", "expected %d headings, found %d" % (len(heads), len(hs)), case)); continue
        if cname == "nolabels":
            if any(ids): bad.append(("nolabels-id", "id attribute on a heading with --nolabels", case))
            if toc_hrefs:
                rep.violation("nolabels-toc-dangling", "with --nolabels the table of contents still links to heading ids that are not emitted", dict(case=case))
            continue
        if cname in ("default", "random"):
            want = pred_by_doc[di]
            if ids != want:
                bad.append(("heading-id-vs-model", "heading ids %s differ from HeaderIdModel %s" % (ids, want), case)); continue
            nid += len(ids)
        else:
            want = pred_by_doc[di]
            for h, got, w in zip(heads, ids, want):
                if h["manual"] and got != w:
                    bad.append(("heading-id-vs-model", "manual label not used under --unique", case)); break
        # references: REFj paragraph j links to heading j's id (first heading of that label when titles repeat)
        first_by_id = {}
        for j, i_ in enumerate(ids): first_by_id.setdefault(i_, j)
        bad_ref = None
        for j, h in enumerate(heads):
            m = re.search(rb'REF%d <a href="#([^"]*)"' % j, body)
            if not m:
                if cname != "unique" or True:
                    bad_ref = ("reference-not-resolved", "the reference to heading %d (%r) was not turned into a link" % (j, h["title"])); break
            elif m.group(1) != ids[j]:
                if cname == "unique" and not h["manual"]:
                    rep.violation("unique-autolink-dangling", "with --unique a cross-reference to a heading still points at the title-derived id, not the random one", dict(case=case))
                    continue
                if m.group(1) == pred_by_doc[di][j] and m.group(1) in ids:
                    continue                    # same label as an earlier heading
                bad_ref = ("reference-wrong-target", "the reference to heading %d points at #%s, the heading carries id %s" % (j, m.group(1).decode("latin-1"), ids[j].decode("latin-1"))); break
            else:
                nref += 1
        if bad_ref: bad.append((bad_ref[0], bad_ref[1], case)); continue
        if toc:
            mt = re.search(rb"\{\{TOC(?::(\d)(?:-(\d))?)?\}\}", text)
            lo_, hi_ = (int(mt.group(1)) if mt and mt.group(1) else 1), (int(mt.group(2)) if mt and mt.group(2) else (int(mt.group(1)) if mt and mt.group(1) else 6))
            if toc_hrefs != [i_ for i_, h in zip(ids, heads) if lo_ <= h["level"] <= hi_]:
                bad.append(("toc-target", "table of contents targets %s, heading ids %s" % (toc_hrefs, ids), case)); continue
            ntoc += len(toc_hrefs)
        if cap:
            m = re.search(rb'<table id="([^"]*)"', body); m2 = re.search(rb'REFT <a href="#([^"]*)"', body)
            if not m or not m2 or m.group(1) != m2.group(1):
                bad.append(("table-caption-target", "caption id / reference mismatch", case)); continue
        if cname != "unique":
            dang, _ = dangling(body)
            if dang: bad.append(("dangling-href", "href without matching id: %s" % dang[:5], case))
    rep.cov["heading_docs"] = len(docs)
    rep.cov["heading_ids_matching_model"] = nid
    rep.cov["heading_references_resolved"] = nref
    rep.cov["toc_entries_checked"] = ntoc
    return nid


def run(rep, tier, seed):
    rep.cov["trusted_base"] = TRUSTED
    res = common.coq_prove("Properties_C10")
    rep.add_obligations(res, "Properties_C10")
    rng = random.Random("C10-%d" % seed)
    bad = []
    n1 = notes_part(rep, tier, rng, bad)
    n2 = headings_part(rep, tier, rng, bad)
    rep.cov["evaluations"] = rep.cov["notes_cases"] + rep.cov["heading_docs"] * 5
    rep.cov["traces_validated_against_impl"] = n1
    rep.cov["distinct_nontrivial"] = n1
    rep.cov["rule"] = ("notes: random abstract documents (0..5 definitions per kind, calls in body / lists / quotes, re-use, inline footnotes, not-cited citations, notes first used "
                       "inside notes; every fifth document also has first uses inside later lists) serialised to MultiMarkdown, x {default, --random}: anchor sequence of the HTML == extracted "
                       "model trace, every href has an id, ids unique; headings: 1..6 headings in ATX / closed ATX / Setext 1 / Setext 2 style with punctuation and Unicode titles, "
                       "manual labels, repeated titles, references in three forms, TOC, captioned table, base header level, x {default, --unique, --nolabels, --random, LaTeX}: "
                       "id == HeaderIdModel prediction, reference href == id, TOC hrefs == ids, \\autoref has \\label")
    rep.cov["samples"] = [encode_adoc(gen_adoc(random.Random(1)))]
    rep.assumptions += TRUSTED[1:]
    seen = set()
    for kind, what, c in bad:
        if kind in seen: continue
        seen.add(kind)
        nofail = kind in ("model-vs-impl", "model-err", "generator")
        rep.violation(kind, what, dict(case=c, no_failing_input=nofail, broken="correspondence AnchorModel.v / HeaderIdModel.v <-> html.c, writer.c" if nofail else None))
    if not res["ok"] and not [b for b in bad if b[0] not in ("model-vs-impl", "model-err", "generator")]:
        rep.violation("proof-broken", "Properties_C10 no longer checks: %s" % res["failed"],
                      dict(no_failing_input=True, broken="theorems of coq/props/Properties_C10.v (%s)" % res["failed"], coq_output=res["output"][-3000:]))


def replay(rep, r):
    rep.cov.update(evaluations=1, distinct_nontrivial=1, obligations=1, discharged=1, checker_cmd="replay", rule="replay")
    c = r.get("case", r)
    rep.cov["samples"] = [str(c.get("doc", ""))[:200]]
    ext = c.get("ext") or dict(default=BASE, unique=BASE | E["random_labels"], nolabels=BASE | E["nolabels"], random=BASE | E["random_foot"]).get(c.get("config"), BASE)
    out = tchk.convert([(c["doc"].encode(), c.get("format", "html"), ext, 0)])[0]
    print(out.out.decode("utf-8", "replace"))
    dang, dup = dangling(out.out)
    print("dangling:", dang, "duplicate ids:", dup)
    if "adoc" in c:
        m = common.run_lines(common.extract_driver(), [c["adoc"]], args=["anchors"])[0]
        itr = read_trace(out.out, random_rename(out.out) if ext & E["random_foot"] else None)
        print("model", m); print("impl ", " ".join(itr))
        if m.split()[1:] != itr: rep.violation("model-vs-impl", "differs", r)
    elif dang:
        rep.violation("dangling-href", "href without id: %s" % dang, r)
