"""C02  Every input yields a complete rendering; nothing is silently dropped (DESIGN.md, C02).
(a) theorem over the lemon tables regenerated from parser.c + trace correspondence of the driver;
(b) writers: every token type a parse can produce is handled (T-gen, syntactic) + T-chk runs."""
import itertools, json, os, random, re, collections
import common, tr_lemon, tr_writers, gen_md
from common import VERIF, BUILD

LEVEL = "proof"
TRUSTED = ["Coq 8.16.1 kernel + vm_compute (reflection over 1039 parser stacks x 36 line kinds)",
           "tools/tr_lemon.py (tables from parser.c, assignable line kinds from mmd.c)",
           "lib/Lemon.v is a hand transcription of the lemon template driver; tied by trace correspondence (ParseTrace + hook H3)",
           "semantic actions of the grammar are not modelled; writers are covered by a syntactic case-label analysis and by runs (T-chk)"]

REP = {  # one representative source line per line kind (the trace reports what each really classified as)
    "LINE_HR": "* * *", "LINE_SETEXT_1": "=====", "LINE_SETEXT_2": "-----", "LINE_YAML": "---",
    "LINE_PLAIN": "plain *text*", "LINE_INDENTED_TAB": "\tcode", "LINE_INDENTED_SPACE": "    code",
    "LINE_TABLE": "a | b", "LINE_TABLE_SEPARATOR": "--|--", "LINE_HTML": "<div>",
    "LINE_ATX_1": "# h1", "LINE_ATX_2": "## h2 ##", "LINE_ATX_3": "### h3", "LINE_ATX_4": "#### h4",
    "LINE_ATX_5": "##### h5", "LINE_ATX_6": "###### h6", "LINE_BLOCKQUOTE": "> quote",
    "LINE_LIST_BULLETED": "* item", "LINE_LIST_ENUMERATED": "1. item",
    "LINE_DEF_ABBREVIATION": "[>abbr]: Abbreviation", "LINE_DEF_CITATION": "[#cite]: Citation",
    "LINE_DEF_FOOTNOTE": "[^fn]: Footnote", "LINE_DEF_GLOSSARY": "[?term]: Glossary",
    "LINE_DEF_LINK": "[link]: http://x.y/", "LINE_TOC": "{{TOC}}", "LINE_DEFINITION": ": definition",
    "LINE_META": "Key: value", "LINE_FENCE_BACKTICK_3": "```", "LINE_FENCE_BACKTICK_4": "````",
    "LINE_FENCE_BACKTICK_5": "`````", "LINE_FENCE_BACKTICK_START_3": "```c", "LINE_FENCE_BACKTICK_START_4": "````c",
    "LINE_FENCE_BACKTICK_START_5": "`````c", "LINE_STOP_COMMENT": "-->", "LINE_EMPTY": "", "LINE_START_COMMENT": "<!--",
}
EXTRA = ["  * nested", "    1. deep", "> > two", ">     code in quote", "* * item", "1. > q", "term", "+ plus", "- minus",
         "\t\ttabs", "| a | b |", "[^fn]: note\n    more", "<!-- c -->", "text <b>html</b>", "\\# not", "   ", "Key:", "[x]", "~~~"]
EXTS = [0, 1 << 4, 1 << 4, (1 << 4) | (1 << 3), 1 << 0, (1 << 4) | (1 << 9), (1 << 4) | (1 << 6), (1 << 4) | (1 << 7)]   # default, notes, smart, compat, critic, process-html, no-metadata


def parse_trace(raw, T):
    """raw trace (TAB separated) -> list of sessions; a session = dict(inputs=[codes], events=[normalised])"""
    names, rules, nstate = T["names"], T["rule_names"], T["YYNSTATE"]
    code = {n: i for i, n in enumerate(names)}
    rcode = {r: i for i, r in enumerate(rules)}
    sessions, stack, skipped, unparsed = [], [], 0, []
    for ln in raw.split("\t"):
        if not ln:
            continue
        if ln.startswith("VERIF-BEGIN"):
            stack.append(dict(inputs=[], events=[])); continue
        if ln.startswith("VERIF-END"):
            sessions.append(stack.pop()); continue
        if ln.startswith("VERIF-SKIP"):
            skipped += 1; continue
        if not stack:
            unparsed.append(ln); continue
        s = stack[-1]
        m = re.match(r"Input '(.*)'$", ln)
        if m:
            s["inputs"].append(code.get(m.group(1), -1)); continue
        m = re.match(r"Shift '(.*)', go to state (\d+)$", ln)
        if m:
            c = code.get(m.group(1), -1)
            s["events"].append(("S:%d:%s" if c < T["YYNOCODE"] and c <= 40 and names[c].startswith(("LINE", "$")) else "G:%s") % ((c, m.group(2)) if c <= 40 and names[c].startswith(("LINE", "$")) else (m.group(2),)))
            continue
        m = re.match(r"Shift '(.*)'$", ln)
        if m:
            c = code.get(m.group(1), -1)
            s["events"].append("S:%d:-" % c if c <= 40 and names[c].startswith(("LINE", "$")) else "G:-")
            continue
        m = re.match(r"Reduce \[(.*)\], go to state (\d+)\.$", ln)
        if m:
            s["events"].append("R:%d:%s" % (rcode.get(m.group(1), -1), m.group(2))); continue
        if ln == "Accept!": s["events"].append("A"); continue
        if ln == "Syntax Error!": s["events"].append("E"); continue
        if ln == "Fail!": s["events"].append("F"); continue
        if ln == "Stack Overflow!": s["events"].append("O"); continue
        if ln.startswith("FALLBACK") or ln.startswith("Return.") or ln.startswith("Discard") or ln.startswith("Popping"):
            continue
        unparsed.append(ln)
    return sessions, skipped, unparsed, len(stack)


STRUCTURED = []


def gen_docs(rng, tier, names):
    kinds = list(REP.keys())
    docs = []
    # all sequences of length <= L over the representatives (one blank-separated and one contiguous form)
    L = 2 if tier == "quick" else 3
    for n in range(1, L + 1):
        for seq in itertools.product(kinds, repeat=n):
            docs.append("\n".join(REP[k] for k in seq) + "\n")
    # continuation lines of containers in every indentation spelling (spaces, tab, space-before-tab ...) after an empty line
    # (definitions are preceded by a paragraph that uses them: an unused definition is never exported)
    USE = "Use[^fn] [?gl] [#c] [ABB] [l].\n\n"
    for opener in ["- item", "1. item", USE + "[^fn]: note", "Term\n: def", "> quote", "* a\n    * nested", USE + "[?gl]: glossary", USE + "[#c]: cite",
                   USE + "[>ABB]: abbreviation", USE + "[l]: http://example.com/"]:
        for ind in ["    ", "\t", "  \t", " \t", "   \t", "    \t", "\t  ", "     ", "        "]:
            for content in ["code", "* nested", "1. n", "> q", "# h", "text", "```", "| a | b |", "|---|", "| a |\n" + ind + "|---|\n" + ind + "| 1 |"]:
                docs.append("%s\n\n%s%s\n" % (opener, ind, content))
                docs.append("%s\n%s%s\n\n%smore\n" % (opener, ind, content, ind))
    # containers whose first line already is a table row, a pipe, a separator ...
    for marker in ["* ", "+ ", "- ", "1. ", "> ", "[^fn]: ", ": "]:
        for first in ["|", "|-|", "a | b", "| a | b |", "|:-:|", "a | b\n  |---|---|\n  | 1 | 2 |", "a | b\n    |---|---|\n    | 1 | 2 |"]:
            docs.append(("Term\n" if marker == ": " else "") + marker + first + "\n")
    global STRUCTURED
    STRUCTURED = docs[sum(len(kinds) ** n for n in range(1, L + 1)):]       # the container / continuation documents: all of them go through the writers
    # random longer documents
    pool = [REP[k] for k in kinds] + EXTRA
    for _ in range(1500 if tier == "quick" else 40000):
        n = rng.choice([3, 4, 5, 8, 12, 20, 40])
        docs.append("\n".join(rng.choice(pool) for _ in range(n)) + rng.choice(["\n", "", "\n\n"]))
    return docs


def run(rep, tier, seed):
    rep.cov["trusted_base"] = TRUSTED
    tr_err = None
    try:
        T, kinds, changed = tr_lemon.main()
    except tr_lemon.TranslateError as e:
        tr_err = str(e)
        T = json.load(open(os.path.join(BUILD, "gen", "parser_tables.json"))) if os.path.exists(os.path.join(BUILD, "gen", "parser_tables.json")) else None
        kinds = T["line_kinds"] if T else []
    wtr_err = None
    try:
        tr_writers.main()              # (before the proofs are checked: gen/WriterCases.v must describe the current sources)
    except tr_lemon.TranslateError as e:
        wtr_err = str(e)
    res = common.coq_prove("Properties_C02") if not tr_err else dict(ok=False, theorems=["parser_reachable_finite", "parser_never_errors", "parser_stack_bounded"], failed=["translator: " + tr_err], assumptions={}, output=tr_err)
    rep.add_obligations(res, "Properties_C02")
    har = common.build_harness("asan", "ptrace")
    rng = random.Random("C02-%d" % seed)
    docs = gen_docs(rng, tier, T["names"])
    cases = ["%d %s" % (rng.choice(EXTS), d.encode().hex() or "-") for d in docs]
    raw = common.run_lines(har, cases, timeout=900)
    drv = None
    try:
        drv = common.extract_driver()
    except Exception as e:
        common.log("driver unavailable: %r" % (e,))
    sessions_all, bad = [], []
    kindset = set(kinds)
    nsess = 0
    for d, c, r in zip(docs, cases, raw):
        if r.startswith("CRASH"):
            bad.append((d, "impl-crash", "parser harness crashed: " + r[:300], None)); continue
        sessions, skipped, unparsed, open_ = parse_trace(r, T)
        if unparsed or open_:
            bad.append((d, "trace-unparsed", "trace lines not understood: %r" % (unparsed[:3],), None)); continue
        for s in sessions:
            nsess += 1
            ev = " ".join(s["events"])
            toks = s["inputs"][:-1] if s["inputs"] and s["inputs"][-1] == 0 else s["inputs"]
            # --- the property itself, on the implementation's own trace
            if re.search(r"\b[EFO]\b", ev) or not ev.endswith("A"):
                bad.append((d, "parser-escape", "block parser took a syntax-error / failure / overflow escape or did not accept; inputs=%s" % [T["names"][t] for t in toks], s)); continue
            if ev.count("S:") != len(toks):
                bad.append((d, "token-dropped", "number of shifted line tokens differs from the number of input lines", s)); continue
            out = [t for t in toks if t not in kindset]
            if out:
                bad.append((d, "kind-outside-P", "parser received a line kind the translator does not list as assignable: %s" % [T["names"][t] for t in out], s)); continue
            sessions_all.append((d, toks, ev))
    # --- correspondence of the hand-written driver: model trace == implementation trace
    uniq = {}
    for d, toks, ev in sessions_all:
        uniq.setdefault(tuple(toks), (d, ev))
    keys = list(uniq.keys())
    if drv:
        model = common.run_lines(drv, [" ".join(map(str, k)) for k in keys], args=["lemon"], timeout=900)
        for k, m in zip(keys, model):
            d, ev = uniq[k]
            if m != ev:
                bad.append((d, "model-vs-impl", "correspondence broken: lib/Lemon.v + regenerated tables vs parser.c on inputs %s" % (list(k),), dict(inputs=list(k), events=ev.split(), model=m)))
    # --- (b) writers: translator + T-chk runs
    if wtr_err:
        bad.append(("", "writer-translator", "tools/tr_writers.py no longer recognises the writers: %s" % wtr_err, None))
    wbad, wruns = writers_tchk(rng, tier, docs)
    bad += wbad
    rep.cov["writer_runs"] = wruns
    rep.cov["evaluations"] = len(docs)
    rep.cov["parse_sessions"] = nsess
    rep.cov["traces_validated_against_impl"] = len(keys)
    rep.cov["distinct_nontrivial"] = len([k for k in keys if len(k) >= 2])
    rep.cov["rule"] = ("documents = all sequences up to length %d over one representative line per line kind, plus seeded random documents "
                       "(3..40 lines, representatives + nested/odd lines), random extension sets; every (nested) block parse is a session; "
                       "distinct = distinct line-kind sequence fed to Parse; non-trivial = at least 2 tokens" % (2 if tier == "quick" else 3))
    rep.cov["kinds_seen"] = sorted(set(T["names"][t] for k in keys for t in k))
    rep.cov["line_kinds_P"] = [T["names"][k] for k in kinds]
    rep.cov["samples"] = [dict(doc=uniq[k][0][:80], inputs=[T["names"][t] for t in k][:12], events=uniq[k][1][:200]) for k in keys[:3]]
    rep.assumptions += TRUSTED[2:]
    seen = set()
    for d, kind, what, s in bad:
        if kind in seen: continue
        seen.add(kind)
        nofail = kind in ("model-vs-impl", "trace-unparsed", "writer-translator")
        rep.violation(kind, what, dict(source=d, source_hex=d.encode().hex(), session=s if isinstance(s, dict) else None,
                                       no_failing_input=nofail, broken="correspondence lib/Lemon.v <-> parser.c" if nofail else None))
    if not res["ok"] and not [b for b in bad if b[1] not in ("model-vs-impl", "trace-unparsed", "writer-translator")]:
        found = search_model(T, kinds, har) if T else None
        if found:
            rep.violation("parser-escape", "block parser rejects or drops a line-kind sequence: %s" % found["what"], found)
        else:
            rep.violation("proof-broken", "Properties_C02 no longer checks: %s" % res["failed"],
                          dict(no_failing_input=True, broken="theorems of coq/props/Properties_C02.v (%s)" % res["failed"], coq_output=res["output"][-3000:]))


FORMATS = {"html": 0, "latex": 2, "beamer": 3, "memoir": 4, "fodt": 5, "opml": 9, "itmz": 10}
ESCAPES = ["Unknown token type", "Parser failed", "syntax error", "AddressSanitizer", "runtime error"]


def writers_tchk(rng, tier, docs):
    """T-chk (testing, not proof): run documents through every writer in MMD and compatibility mode in a
    forked child; the conversion must return, the process must survive, and no escape may be reported."""
    har = common.build_harness("asan", "conv")
    pick = rng.sample(docs, min(len(docs), 250 if tier == "quick" else 4000)) + (STRUCTURED if tier != "quick" else STRUCTURED[::3])
    pick += [gen_md.mixed(rng) for _ in range(350 if tier == "quick" else 6000)]
    cases, meta = [], []
    for d in pick:
        for fname, f in FORMATS.items():
            for ext in (1 << 4 | 1 << 3, 1 << 0):
                cases.append("%d %d 0 %s" % (f, ext, d.encode("utf-8", "replace").hex() or "-"))
                meta.append((d, fname, ext))
    out = common.run_lines_par(har, cases, timeout=1800)
    bad = []
    for (d, fname, ext), o in zip(meta, out):
        f = o.split(" ")
        if o.startswith("CRASH") or len(f) < 4:
            bad.append((d, "writer-harness", "conversion harness failed: " + o[:200], dict(format=fname, ext=ext))); continue
        status, done, err, res = f[0], f[1], f[2], f[3]
        errt = bytes.fromhex(err).decode("latin-1") if err != "-" else ""
        esc = [e for e in ESCAPES if e in errt]
        if status != "0" or done != "1" or esc:
            what = ("writer %s (ext=%d): " % (fname, ext)) + (
                "conversion ended the process or never returned (status %s, completed %s)" % (status, done) if status != "0" or done != "1" else "") + \
                (" escape reported: " + errt[:200] if esc else "")
            kind = "writer-escape" if (esc or done != "1") and "Sanitizer" not in errt else "writer-crash"
            bad.append((d, kind, what, dict(format=fname, ext=ext, stderr=errt[:400]))); continue
        if d.strip() and res == "-" and fname in ("html", "latex", "fodt") and not is_invisible(d):
            bad.append((d, "empty-output", "writer %s produced nothing for a non-blank source" % fname, dict(format=fname, ext=ext)))
    return bad, len(cases)


def is_invisible(d):
    """sources that legitimately render to nothing in snippet mode: only definitions, metadata, comments, blank"""
    for ln in d.replace("\r", "").split("\n"):
        t = ln.strip()
        if not t: continue
        if re.match(r"^\[[\^#?>]?[^\]]*\]:", t) or re.match(r"^[A-Za-z0-9][A-Za-z0-9 ._-]*:", t) or t in ("---", "...") or t.startswith("<!--"):
            continue
        return False
    return True


# ---- search when the proof breaks: BFS over the automaton (python re-implementation of the driver,
# used only to aim the search; the verdict comes from running the real parser on the document found)
def py_driver(T):
    A, LA, SO, RO, D, FB = T["yy_action"], T["yy_lookahead"], T["yy_shift_ofst"], T["yy_reduce_ofst"], T["yy_default"], T["yyFallback"]
    def fsa(st, la):
        if st >= T["YY_MIN_REDUCE"]: return st
        while True:
            i = SO[st] + la
            if i < 0 or i >= len(A) or LA[i] != la:
                if la < len(FB) and FB[la]:
                    la = FB[la]; continue
                return D[st]
            return A[i]
    def fra(st, la):
        i = RO[st] + la
        return A[i]
    def ren(a): return a + T["YY_MIN_REDUCE"] - T["YY_MIN_SHIFTREDUCE"] if a > T["YY_MAX_SHIFT"] else a
    def step(stk, major):
        stk = list(stk)
        for _ in range(400):
            act = fsa(stk[-1], major)
            if act <= T["YY_MAX_SHIFTREDUCE"]:
                if len(stk) >= T["YYSTACKDEPTH"]: return None, "overflow"
                stk.append(ren(act)); return tuple(stk), None
            if act <= T["YY_MAX_REDUCE"]:
                r = act - T["YY_MIN_REDUCE"]; n = T["rule_nrhs"][r]
                if n: del stk[-n:]
                if not stk: return None, "underflow"
                try: g = fra(stk[-1], T["rule_lhs"][r])
                except Exception: return None, "table"
                if g <= T["YY_MAX_SHIFTREDUCE"]: stk.append(ren(g)); continue
                if g == T["YY_ACCEPT_ACTION"]: return (0,), "accept"
                return None, "bad-goto"
            return None, "syntax-error"
        return None, "loop"
    return step


def search_model(T, kinds, har):
    step = py_driver(T)
    from collections import deque
    q = deque([((0,), [])]); seen = {(0,)}
    names = T["names"]
    tries = 0
    while q and tries < 200:
        stk, path = q.popleft()
        for k in kinds + [0]:
            if k == 0 and not path: continue
            try: nxt, why = step(stk, k)
            except Exception: nxt, why = None, "table"
            if k == 0:
                if why == "accept": continue
                cand = path
            elif nxt is None:
                cand = path + [k]
            else:
                if nxt not in seen:
                    seen.add(nxt); q.append((nxt, path + [k]))
                continue
            tries += 1
            doc = "\n".join(REP.get(names[t], "x") for t in cand) + "\n"
            raw = common.run_lines(har, ["0 " + doc.encode().hex()])[0]
            sessions, _, _, _ = parse_trace(raw, T) if not raw.startswith("CRASH") else ([], 0, 0, 0)
            for s in sessions:
                ev = " ".join(s["events"])
                if re.search(r"\b[EFO]\b", ev) or not ev.endswith("A") or raw.startswith("CRASH"):
                    return dict(source=doc, source_hex=doc.encode().hex(), kinds=[names[t] for t in cand],
                                what="%s on %s" % (why, [names[t] for t in cand]), events=ev)
    return None


def replay(rep, r):
    T, kinds, _ = tr_lemon.main()
    har = common.build_harness("asan", "ptrace")
    raw = common.run_lines(har, ["0 " + r["source_hex"]])[0]
    print(raw.replace("\t", "\n")[:3000])
    rep.cov.update(evaluations=1, distinct_nontrivial=1, obligations=1, discharged=1, checker_cmd="replay", rule="replay")
    rep.cov["samples"] = [r.get("source", "")]
    sessions, skipped, unparsed, open_ = parse_trace(raw, T) if not raw.startswith("CRASH") else ([], 0, [], 0)
    for s in sessions:
        ev = " ".join(s["events"])
        if re.search(r"\b[EFO]\b", ev) or not ev.endswith("A"):
            rep.violation("parser-escape", "block parser escape", dict(source_hex=r["source_hex"], events=ev))
