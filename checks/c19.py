"""C19  DString operations behave like the obvious string model (DESIGN.md, C19)."""
import os, random, collections
import common
from common import VERIF, BUILD

LEVEL = "proof"
M64 = (1 << 64) - 1
TRUSTED = ["Coq 8.16.1 kernel + vm_compute", "extraction (ExtrOcamlBasic only) + ocaml/driver.ml",
           "harness/dstring.c, gcc -fsanitize=address,undefined",
           "libc memmove/memcpy/strncpy/strncat/strstr/strlen as modelled in DStringModel.v; realloc succeeds",
           "payloads are NUL-free C strings; array reads stay inside the array"]


def hx(b):
    return b.hex() if b else "-"


def gen_case(rng):
    alpha = rng.choice([b"ab", b"abc", bytes(range(1, 256)), b"a", b"xy\xc3\xa9"])
    def payload(maxn=12):
        k = rng.choice([0, 1, 1, 2, 3, rng.randint(0, maxn)])
        return bytes(rng.choice(alpha) for _ in range(k))
    def big():
        k = rng.choice([1020, 1021, 1022, 1023, 1024, 1025, 2046, 2047, 2048, 2049])
        al = alpha if len(alpha) > 1 else b"abcd"      # single-letter text makes replace quadratic in the model
        return bytes(rng.choice(al) for _ in range(k))
    init = big() if rng.random() < 0.25 else payload(30)
    cur = [len(init)]                       # running estimate of the content length
    def pos():
        l = cur[0]
        return rng.choice([0, 1, max(l - 1, 0), l, l + 1, l // 2, rng.randint(0, l + 2), 1022, 1023, 1024,
                           1 << 63, M64 - 1, M64, M64 - l, (M64 - l + 1) & M64])
    def ln():
        l = cur[0]
        return rng.choice([0, 1, 2, max(l - 1, 0), l, l + 1, rng.randint(0, l + 2), M64, M64 - 1, M64 - 2,
                           1 << 63, (M64 - l) & M64, (M64 - l + 1) & M64])
    ops = []
    for _ in range(rng.choice([1, 2, 3, 5, 8, 12, 20, 40])):
        k = rng.choice("A A C AA P I I IC IA E E E S S R R R".split())
        if k == "A":
            p = big() if rng.random() < 0.06 and cur[0] < 3000 else payload(); ops.append("A %s" % hx(p)); cur[0] += len(p)
        elif k == "C":
            c = rng.choice([0, 65, 66, 255, rng.randint(0, 255)]); ops.append("C %d" % c); cur[0] += (c != 0)
        elif k == "AA":
            p = payload(); n = rng.choice([M64, len(p), rng.randint(0, len(p))]); ops.append("AA %s %d" % (hx(p), n))
            cur[0] += len(p) if n == M64 else n
        elif k == "P":
            p = big() if rng.random() < 0.03 and cur[0] < 3000 else payload(); ops.append("P %s" % hx(p)); cur[0] += len(p)
        elif k == "I":
            p = big() if rng.random() < 0.03 and cur[0] < 3000 else payload(); ops.append("I %d %s" % (pos(), hx(p))); cur[0] += len(p)
        elif k == "IC":
            c = rng.choice([0, 65, 66, 255, rng.randint(0, 255)]); ops.append("IC %d %d" % (pos(), c)); cur[0] += (c != 0)
        elif k == "IA":
            p = payload(); n = rng.choice([M64, len(p), rng.randint(0, len(p))]); ops.append("IA %d %s %d" % (pos(), hx(p), n))
            cur[0] += len(p) if n == M64 else n
        elif k == "E":
            ops.append("E %d %d" % (pos(), ln()))
        elif k == "S":
            ops.append("S %d %d" % (pos(), ln()))
        elif k == "R":
            o = payload(3) if rng.random() < 0.9 else b""
            ops.append("R %d %d %s %s" % (pos(), ln(), hx(o), hx(payload(4))))
    return hx(init) + " ; " + " ; ".join(ops)


def canon_model(line):
    """'len cap hex nul ret | ...' -> list of (len, hex, ret) for comparison with the spec"""
    res = []
    for part in line.split(" | "):
        f = part.split()
        if len(f) == 5:
            res.append((f[0], f[2], f[4], f[3]))
        else:
            res.append(tuple(f))
    return res


def canon_spec(line):
    return [tuple(part.split()) for part in line.split(" | ")]


def nontrivial(case, out):
    """distinct + non-trivial: reaches a growth boundary, or uses an out-of-range/sentinel argument,
    or a replace that replaced something"""
    caps = set(p.split()[1] for p in out.split(" | ") if len(p.split()) == 5)
    return len(caps) > 1 or "1844674407370955" in case or "9223372036854775808" in case or "D:" in out and "D:0" not in out


def corpus():
    p = os.path.join(VERIF, "corpus", "C19", "cases.txt")
    return [l.strip() for l in open(p) if l.strip() and not l.startswith("#")] if os.path.exists(p) else []


def compare(rep, cases, drv, har):
    model = common.run_lines_par(drv, cases, args=["dstring"])
    spec = common.run_lines_par(drv, cases, args=["dstring-spec"])
    impl = common.run_lines_par(har, cases)
    bad = []
    for c, m, s, i in zip(cases, model, spec, impl):
        why = None
        if i.startswith("CRASH"):
            why = ("impl-crash", "implementation crashed: " + i)
        else:
            ci = canon_model(i)
            if [x[:3] for x in ci] != [tuple(x) for x in canon_spec(s)]:
                why = ("spec-vs-impl", "implementation differs from the ideal string")
            elif any(len(x) == 4 and x[3] != "1" for x in ci):
                why = ("not-nul-terminated", "buffer not NUL-terminated at its recorded length")
            elif any(len(p.split()) == 5 and int(p.split()[0]) >= int(p.split()[1]) for p in i.split(" | ")):
                why = ("cap-not-larger", "capacity not larger than length")
            elif m != i:
                why = ("model-vs-impl", "correspondence broken: model and implementation differ (property still met on this case)")
        if why:
            bad.append((c, m, s, i, why))
    return model, spec, impl, bad


def shrink(case, drv, har, kind):
    init, *ops = case.split(" ; ")
    def test(sub):
        c = init + " ; " + " ; ".join(sub)
        _, _, _, bad = compare(None, [c], drv, har)
        return bool(bad) and bad[0][4][0] == kind
    try:
        ops = common.ddmin(ops, test)
    except Exception:
        pass
    return init + " ; " + " ; ".join(ops)


def run(rep, tier, seed):
    rep.cov["trusted_base"] = TRUSTED
    res = common.coq_prove("Properties_C19")
    rep.add_obligations(res, "Properties_C19")
    drv = common.extract_driver()
    har = common.build_harness("asan", "dstring")
    rng = random.Random("C19-%d" % seed)
    n = 2000 if tier == "quick" else 60000
    cases = corpus() + [gen_case(rng) for _ in range(n)]
    hist = collections.Counter(o.split()[0] for c in cases for o in c.split(" ; ")[1:])
    model, spec, impl, bad = compare(rep, cases, drv, har)
    rep.cov["evaluations"] = len(cases)
    rep.cov["traces_validated_against_impl"] = len(cases) - len(bad)
    rep.cov["distinct_nontrivial"] = len(set(c for c, o in zip(cases, impl) if nontrivial(c, o)))
    rep.cov["rule"] = ("corpus first, then seeded random op sequences (1..40 ops) with boundary arguments "
                       "{0,1,len-1,len,len+1,1022..1024,2^63,2^64-2,2^64-1,2^64-len}; payload sizes around 1023/1024/2047/2048/4096; "
                       "non-trivial = distinct case that crosses a capacity boundary, uses a wrap-range argument, or replaces text")
    rep.cov["op_histogram"] = dict(hist)
    rep.cov["samples"] = [dict(case=c[:300], impl=i[:300]) for c, i in list(zip(cases, impl))[:3]]
    rep.assumptions += TRUSTED[3:]
    seen = set()
    for c, m, s, i, (kind, what) in bad:
        if kind in seen:
            continue
        seen.add(kind)
        small = shrink(c, drv, har, kind)
        mm, ss, ii, _ = compare(rep, [small], drv, har)
        nofail = kind == "model-vs-impl"
        rep.violation(kind, what, dict(case=small, model=mm[0], spec=ss[0], impl=ii[0], no_failing_input=nofail,
                                       broken="correspondence DStringModel.v <-> d_string.c" if nofail else None,
                                       replay_cmd="python3 check.py C19 --replay <this file>"))
    if not res["ok"] and not [b for b in bad if b[4][0] != "model-vs-impl"]:
        rep.violation("proof-broken", "Properties_C19 no longer checks: %s" % res["failed"],
                      dict(no_failing_input=True, broken="theorems of coq/props/Properties_C19.v (%s)" % res["failed"],
                           coq_output=res["output"][-3000:]))


def replay(rep, r):
    drv = common.extract_driver()
    har = common.build_harness("asan", "dstring")
    model, spec, impl, bad = compare(rep, [r["case"]], drv, har)
    print("case :", r["case"]); print("model:", model[0]); print("spec :", spec[0]); print("impl :", impl[0])
    rep.cov.update(evaluations=1, distinct_nontrivial=1, obligations=1, discharged=1, checker_cmd="replay", rule="replay")
    rep.cov["samples"] = [r["case"]]
    for c, m, s, i, (kind, what) in bad:
        rep.violation(kind, what, dict(case=c, model=m, spec=s, impl=i, no_failing_input=(kind == "model-vs-impl")))
