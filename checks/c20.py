"""C20  Document wrapper and metadata never change the body rendering (DESIGN.md, C20)."""
import os, random, re
import common, tchk, gen_md

LEVEL = "proof"
TRUSTED = ["Coq 8.16.1 kernel + vm_compute",
           "tools/tr_metakeys.py: translator from process_metadata_stack / mmd_engine_export_token_tree (writer.c) to the MiniC program of gen/MetaKeys.v "
           "(recognises the statement forms listed in its docstring; anything else fails the translation and with it the obligations)",
           "lib/MiniC.v: interpreter taken as the meaning of those C statements (strcmp / atoi / label_from_string / my_strdup as parameters; flags as sets); validated by comparing the "
           "extracted interpreter's verdicts with what real conversions show",
           "extraction + ocaml/driver.ml (its atoi), harness/conv.c", "that the body writers render from the settings only is not proved: snippet-inside-complete, default-is-one-of-the-two and "
           "metadata-independence of the body are tested on generated and corpus bodies"]
E = tchk.EXT
BASE = E["smart"] | E["notes"] | E["critic"]
FORMATS = ["html", "latex", "beamer", "memoir"]
FCONST = dict(html="FORMAT_HTML", latex="FORMAT_LATEX", beamer="FORMAT_BEAMER", memoir="FORMAT_MEMOIR")
CONTROL = ["Base Header Level", "HTML Header Level", "LaTeX Header Level", "ODF Header Level", "EPUB Header Level", "XHTML Header Level", "Language", "Quotes Language", "LaTeX Mode"]
OTHER = ["Title", "Author", "Date", "Keywords", "Copyright", "CSS", "Custom Key", "Affiliation", "x-y_z", "Subtitle", "Revision"]
LANGS = ["de", "es", "fr", "he", "nl", "sv", "en", "xx", "DE", " fr "]
QUOTES = ["dutch", "nl", "french", "fr", "german", "de", "germanguillemets", "spanish", "es", "swedish", "sv", "english", "klingon"]
PROBE = b'# H\n\n"q" text[^f] and [#undefinedkey].\n\n### H3\n\nframe text\n\n[^f]: note\n'


def norm_key(k):
    return re.sub(r"[^a-z0-9._:-]", "", k.lower())


def gen_meta(rng, want_other=None, bibtex=None):
    """list of (key, value) pairs: control keys (with edge values), other keys, repeated keys, in random order"""
    ms = []
    for _ in range(rng.randint(0, 4)):
        k = rng.choice(CONTROL)
        if "Level" in k: v = rng.choice(["1", "2", "3", "4", "0", "-1", "2x", "x", " 3", "12"])
        elif k == "Language": v = rng.choice(LANGS)
        elif k == "Quotes Language": v = rng.choice(QUOTES)
        else: v = rng.choice(["beamer", "memoir", "Beamer", "article", "MEMOIR"])
        ms.append((k, v))
    other = want_other if want_other is not None else rng.random() < 0.5
    if other:
        for _ in range(rng.randint(1, 3)):
            ms.append((rng.choice(OTHER), rng.choice(["Some Value", "a & b", "x: y", "1 < 2", "Ünï", "100%", "back\\slash"])))
    if bibtex if bibtex is not None else rng.random() < 0.25:
        ms.append(("BibTeX", "refs.bib"))
    rng.shuffle(ms)
    return ms


def meta_text(ms, yaml=False):
    if not ms: return b""
    t = "".join("%s: %s\n" % kv for kv in ms)
    return (("---\n" + t + "---\n\n") if yaml else (t + "\n")).encode()


def is_complete(fmt, out):
    return out.startswith(b"<!DOCTYPE") if fmt == "html" else (b"\\end{document}" in out)


def observe(fmt, out):
    """what a conversion of PROBE shows about the settings"""
    o = {}
    o["complete"] = 1 if is_complete(fmt, out) else 0
    if fmt == "html":
        m = re.search(rb"<h(-?\d+)", out); o["hl"] = int(m.group(1)) if m else None
        m = re.search(rb'title="([^"]*)" class="footnote"', out); o["lang_sig"] = m.group(1) if m else None
        m = re.search(rb"<p>(.{1,12}?)q(.{1,12}?) text", out); o["quote_sig"] = (m.group(1), m.group(2)) if m else None
        o["bib"] = 0 if b"cn:1" in out else 1
    else:
        # the beamer wrapper ends in \mode<all>; inside the body the difference depends on the heading levels in use
        o["beamer"] = (1 if b"\\mode<all>" in out else 0) if o["complete"] else None
        o["bib"] = None             # LaTeX writes \citep{key} for an undefined key with or without a bibtex file
    return o


def model_part(rep, tier, rng, bad):
    """the regenerated program, run by the extracted interpreter, against what real conversions show"""
    drv = common.extract_driver()
    n = 300 if tier == "quick" else 25000
    # calibration of the glyph / phrase signatures on single-key blocks (the composition of keys is what is tested)
    cal_jobs = [(meta_text([("Language", l)]) + PROBE, "html", BASE | E["snippet"], 0) for l in ["de", "es", "fr", "he", "nl", "sv", "en"]]
    cal_jobs += [(meta_text([("Quotes Language", q)]) + PROBE, "html", BASE | E["snippet"], 0) for q in ["dutch", "french", "german", "germanguillemets", "spanish", "swedish", "english"]]
    cal = tchk.convert(cal_jobs)
    lang_sig = {c: observe("html", r.out)["lang_sig"] for c, r in zip(["LC_DE", "LC_ES", "LC_FR", "LC_HE", "LC_NL", "LC_SV", "LC_EN"], cal[:7])}
    quote_sig = {c: observe("html", r.out)["quote_sig"] for c, r in zip(["DUTCH", "FRENCH", "GERMAN", "GERMANGUILL", "SPANISH", "SWEDISH", "ENGLISH"], cal[7:])}
    cases = []
    for i in range(n):
        ms = gen_meta(rng)
        fmt = rng.choice(["html", "html", "latex"])
        sw = rng.choice(["", "", "complete", "snippet"])
        cases.append((ms, fmt, sw))
    hx = lambda s: s.encode().hex() or "-"
    lines = []
    for ms, fmt, sw in cases:
        flags = ["EXT_SMART", "EXT_NOTES", "EXT_CRITIC"] + (["EXT_COMPLETE"] if sw == "complete" else []) + (["EXT_SNIPPET"] if sw == "snippet" else [])
        lines.append("%s %s %s" % (",".join(flags), FCONST[fmt], " ".join("%s=%s" % (hx(norm_key(k)), hx(v)) for k, v in ms)))
    model = common.run_lines_par(drv, lines, args=["metaswitch"], timeout=900)
    res = tchk.convert([(meta_text(ms) + PROBE, fmt, BASE | (E[sw] if sw else 0), 0) for ms, fmt, sw in cases])
    ok = 0
    for (ms, fmt, sw), m, r in zip(cases, model, res):
        case = dict(meta=ms, format=fmt, switch=sw, doc=(meta_text(ms) + PROBE).decode())
        if not r.ok():
            bad.append(("impl-crash", "conversion failed: " + r.raw[:200], case)); continue
        mv = dict(x.split("=", 1) for x in m.split(" ") if "=" in x)
        o = observe(fmt, r.out)
        diffs = []
        if int(mv["complete"]) != o["complete"]: diffs.append("complete: model %s, output %s" % (mv["complete"], o["complete"]))
        if o["bib"] is not None and (mv["bib"] != "-") != bool(o["bib"]): diffs.append("bibtex recorded: model %s, output %s" % (mv["bib"], o["bib"]))
        if fmt == "html":
            if o["hl"] is not None and str(o["hl"]) != mv["hl"]: diffs.append("header level: model %s, output h%s" % (mv["hl"], o["hl"]))
            if lang_sig.get(mv["lang"]) != o["lang_sig"]: diffs.append("language: model %s, output %r" % (mv["lang"], o["lang_sig"]))
            if quote_sig.get(mv["quotes"]) != o["quote_sig"]: diffs.append("quotes: model %s, output %r" % (mv["quotes"], o["quote_sig"]))
        else:
            if o["beamer"] is not None and (mv["fmt"] == "FORMAT_BEAMER") != bool(o["beamer"]): diffs.append("latex mode: model %s, beamer output %s" % (mv["fmt"], o["beamer"]))
        if diffs:
            case["model"] = m
            bad.append(("model-vs-impl", "correspondence broken: gen/MetaKeys.v under lib/MiniC.v vs writer.c: " + "; ".join(diffs), case))
        else: ok += 1
    rep.cov["metadata_blocks_compared_with_model"] = ok
    return ok


def strip_nl(b):
    return b.rstrip(b"\n")


def bodies(rng, n):
    out = list(gen_md.corpus_docs())[:40] if hasattr(gen_md, "corpus_docs") else []
    out = [b.replace(b"[%", b"[ %") for b in out if b and not re.match(rb"[A-Za-z0-9][^\n]*:", b) and not b.startswith(b"---")]
    while len(out) < n:
        d = gen_md.structured(rng)
        if isinstance(d, str): d = d.encode()
        if re.match(rb"\s*[A-Za-z0-9][^\n]*:", d) or d.startswith(b"---"): d = b"Lead paragraph.\n\n" + d
        d = d.replace(b"[%", b"[ %")          # metadata variables are a documented way for metadata to reach the body
        if rng.random() < 0.3: d += b"\n\nCited [#Knuth:1968] and [p. 3][#Lamport;] here.\n"
        if rng.random() < 0.2: d += b"\n\nLocal[#loc].\n\n[#loc]: A local reference.\n"
        out.append(d)
    rng.shuffle(out)
    return out[:n]


def wrapper_part(rep, tier, rng, bad):
    n = 40 if tier == "quick" else 1500
    bs = bodies(rng, n)
    exts = [BASE, BASE & ~E["smart"], BASE | E["random_foot"] * 0 | E["nolabels"]]
    jobs, idx = [], []
    for bi, b in enumerate(bs):
        ms = gen_meta(rng)
        ms2 = [kv for kv in ms if kv[0] in CONTROL or kv[0] == "BibTeX"] + gen_meta(rng, want_other=True, bibtex=False)[-2:]
        ms2 = [kv for kv in ms2 if kv[0] in CONTROL or kv[0] == "BibTeX"] + [kv for kv in ms2 if kv[0] in OTHER]
        # same documented keys in the same order; different undocumented ones
        doc_keys = [kv for kv in ms if kv[0] in CONTROL or kv[0] == "BibTeX"]
        ms2 = doc_keys + [kv for kv in ms2 if kv[0] in OTHER]
        ms1 = doc_keys + [kv for kv in ms if kv[0] in OTHER]
        hasvar = rng.random() < 0.25 or bi < 8           # (the first bodies always use variables, with each kind of value once)
        if hasvar:
            # metadata values used as variables in the body: a documented channel, so the body may change with them -
            # but the wrapper switch must still leave it alone (values with a hard line break, reserved characters ...)
            TVS = ["Plain title", "First line\\\n    Second line", "A & B <c>", "Ünï \"q\""]
            tv = TVS[bi % 4] if bi < 8 else rng.choice(TVS)
            # (keys with digits, hyphens, underscores and dots too: every writer must look them up under the same name)
            ckey, cvar = rng.choice([("Custom Key", "customkey"), ("build-id", "build-id"), ("Version2", "version2"), ("x_y", "x_y"), ("a.b", "a.b"), ("Rev 3", "rev3")])
            ms1 = [kv for kv in ms1 if kv[0] not in ("Title", ckey)] + [("Title", tv), (ckey, rng.choice(["v1", "x\\\n    y"]))]
            ms2 = ms1
            b = b + ("\n\nTitle is [%%title] and key is [%%%s] and again [%%title].\n" % cvar).encode()
            bs[bi] = b
        ext = rng.choice(exts)
        for fmt in (FORMATS if tier != "quick" else (rng.sample(FORMATS, 2) if bi >= 8 else sorted(set(["html", "latex"] + rng.sample(FORMATS, 1))))):
            for name, text, sw in [("S", meta_text(ms1) + b, "snippet"), ("F", meta_text(ms1) + b, "complete"), ("D", meta_text(ms1) + b, ""),
                                   ("S2", meta_text(ms2) + b, "snippet"), ("SY", meta_text(ms1, yaml=True) + b, "snippet")]:
                jobs.append((text, fmt, ext | (E[sw] if sw else 0), 0)); idx.append((bi, fmt, name, ms1, ms2, ext))
    res = tchk.convert(jobs)
    by = {}
    for (bi, fmt, name, ms1, ms2, ext), r in zip(idx, res):
        by.setdefault((bi, fmt), {})[name] = (r, ms1, ms2, ext)
    nin = ndef = nmeta = nyaml = 0
    for (bi, fmt), d in by.items():
        S, ms1, ms2, ext = d["S"]; F = d["F"][0]; D = d["D"][0]; S2 = d["S2"][0]; SY = d["SY"][0]
        case = dict(doc=(meta_text(ms1) + bs[bi]).decode("utf-8", "replace"), format=fmt, ext=ext, meta=ms1)
        if not all(x.ok() for x in (S, F, D, S2, SY)):
            bad.append(("impl-crash", "conversion failed", case)); continue
        s = strip_nl(S.out)
        if s not in F.out:
            bad.append(("snippet-not-inside-complete", "the snippet rendering does not appear verbatim inside the complete rendering (%s)" % fmt, case)); continue
        nin += 1
        other = any(norm_key(k) not in [norm_key(c) for c in CONTROL] for k, _ in ms1)
        want = F.out if other else S.out
        if D.out != want:
            which = "complete" if D.out == F.out else ("snippet" if D.out == S.out else "neither")
            bad.append(("default-not-as-decided", "default output is %s; metadata %s other keys, so it should be the %s rendering" % (which, "has" if other else "has no", "complete" if other else "snippet"), case)); continue
        ndef += 1
        if S2.out != S.out:
            case["meta2"] = ms2
            bad.append(("undocumented-key-changes-body", "changing only undocumented metadata keys %r -> %r changed the body" % (ms1, ms2), case)); continue
        nmeta += 1
        if ms1 and SY.out != S.out:
            bad.append(("yaml-fence-changes-body", "the same block inside --- fences gives a different body", case)); continue
        nyaml += 1
    # every documented control key on its own (and all of them together), in every format: such a document has no metadata
    # "beyond the rendering-control keys", so without a switch it is the snippet
    CV = {"Base Header Level": "2", "HTML Header Level": "3", "LaTeX Header Level": "2", "ODF Header Level": "2", "EPUB Header Level": "2", "XHTML Header Level": "2",
          "Language": "de", "Quotes Language": "french", "LaTeX Mode": "memoir"}
    blocks = [[(k, rng.choice([CV[k], CV[k], "beamer" if k == "LaTeX Mode" else CV[k]]))] for k in CONTROL] + [[(k, CV[k]) for k in CONTROL]]
    cbody = b"# Head\n\nSome \"text\" here.\n"
    cjobs = [(meta_text(ms) + cbody, fmt, BASE | (E[sw] if sw else 0), 0) for ms in blocks for fmt in FORMATS for sw in ("", "snippet")]
    cres = tchk.convert(cjobs)
    nctl = 0
    it = iter(cres)
    for ms in blocks:
        for fmt in FORMATS:
            D, S = next(it), next(it)
            case = dict(doc=(meta_text(ms) + cbody).decode(), format=fmt, ext=BASE, meta=ms)
            if not (D.ok() and S.ok()):
                bad.append(("impl-crash", "conversion failed", case)); continue
            if D.out != S.out:
                bad.append(("default-not-as-decided", "metadata consisting of the control key(s) %s only: the default %s output is not the snippet rendering" % ([k for k, _ in ms], fmt), case)); continue
            nctl += 1
    rep.cov["control_keys_alone_give_snippet"] = nctl
    rep.cov["body_format_pairs"] = len(by)
    rep.cov["snippet_inside_complete"] = nin
    rep.cov["default_as_decided"] = ndef
    rep.cov["body_unchanged_by_undocumented_keys"] = nmeta
    rep.cov["yaml_fenced_same"] = nyaml
    return nin


def run(rep, tier, seed):
    rep.cov["trusted_base"] = TRUSTED
    import tr_metakeys
    terr = None
    try:
        info = tr_metakeys.main()
        rep.cov["translated"] = info
    except Exception as e:
        terr = "%s: %s" % (type(e).__name__, e)
    res = common.coq_prove("Properties_C20")
    if terr:
        res = dict(res, ok=False, failed="translation failed (%s)" % terr)
    rep.add_obligations(res, "Properties_C20")
    rng = random.Random("C20-%d" % seed)
    bad = []
    n1 = model_part(rep, tier, rng, bad) if not terr else 0
    n2 = wrapper_part(rep, tier, rng, bad)
    rep.cov["evaluations"] = n1 + rep.cov["body_format_pairs"] * 5
    rep.cov["traces_validated_against_impl"] = n1
    rep.cov["distinct_nontrivial"] = n1 + n2
    rep.cov["rule"] = ("model: metadata blocks of 0..8 keys (control keys with edge values such as '2x', ' 3', '-1', unknown languages; other keys; bibtex; repeats; random order) x {default, complete, snippet} "
                       "x {html, latex}: complete?, header level, language phrase, quote glyphs, bibtex in force, beamer mode predicted by the extracted interpreter on the regenerated program == what the conversion of a probe "
                       "document shows; wrapper: corpus and generated bodies (some citing undefined keys) x metadata blocks x {html, latex, beamer, memoir} x 3 extension sets: snippet inside complete verbatim, default == the one "
                       "the decision theorem names, body unchanged when only undocumented keys change, YAML fences equivalent")
    rep.cov["samples"] = [repr(gen_meta(random.Random(3)))]
    rep.assumptions += TRUSTED[1:]
    seen = set()
    for kind, what, c in bad:
        if kind in seen: continue
        seen.add(kind)
        nofail = kind in ("model-vs-impl",)
        rep.violation(kind, what, dict(case=c, no_failing_input=nofail, broken="correspondence gen/MetaKeys.v <-> writer.c" if nofail else None))
    if not res["ok"] and not [b for b in bad if b[0] != "model-vs-impl"]:
        rep.violation("proof-broken", "Properties_C20 no longer checks: %s" % res["failed"],
                      dict(no_failing_input=True, broken="theorems of coq/props/Properties_C20.v (%s)" % res["failed"], coq_output=res.get("output", "")[-3000:]))


def replay(rep, r):
    rep.cov.update(evaluations=1, distinct_nontrivial=1, obligations=1, discharged=1, checker_cmd="replay", rule="replay")
    c = r.get("case", r)
    rep.cov["samples"] = [str(c.get("doc", ""))[:200]]
    d = c["doc"].encode(); fmt = c.get("format", "html"); ext = c.get("ext", BASE)
    S, F, D = tchk.convert([(d, fmt, ext | E["snippet"], 0), (d, fmt, ext | E["complete"], 0), (d, fmt, ext, 0)])
    print("---- snippet\n" + S.out.decode("utf-8", "replace")); print("---- complete\n" + F.out.decode("utf-8", "replace"))
    print("default is", "complete" if D.out == F.out else "snippet" if D.out == S.out else "neither")
    if strip_nl(S.out) not in F.out:
        rep.violation("snippet-not-inside-complete", "snippet not inside complete", r)
