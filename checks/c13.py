"""C13  Transclusion terminates on any include graph and substitutes exactly (DESIGN.md, C13)."""
import os, random, shutil, collections
import common, tchk

LEVEL = "proof"
TRUSTED = ["Coq 8.16.1 kernel", "model/TranscludeModel.v: hand model of mmd_transclude_source over an abstract file system (exact path strings; OS normalisation of ./ and .., "
           "symbolic links, directories opened as files and the PATH_MAX cut-off are not modelled), simple metadata blocks; tied by correspondence (harness/transclude.c)",
           "extraction + ocaml/driver.ml", "libc strstr/strncpy/fopen as modelled"]
FMT = {"html": 0, "latex": 2, "fodt": 5, "mmd": 11, "opml": 9, "beamer": 3, "epub": 1}
WILD = {"html": ".html", "latex": ".tex", "beamer": ".tex", "fodt": ".fodt", "epub": ".html", "opml": ".txt"}


def gen_case(rng, root):
    """random include graph over up to 6 files: trees, sharing, self loops, cycles, missing targets, nested directories,
    absolute paths, transclude base overrides, wildcard extensions, {{TOC}}, over-long markers, unterminated markers"""
    nf = rng.randint(1, 6)
    dirs = ["", "sub/", "sub/deep/", "other/"]
    fmt = rng.choice(list(FMT))
    names = []
    for i in range(nf):
        d = rng.choice(dirs)
        ext = rng.choice([".txt", ".txt", ".md", WILD.get(fmt, ".txt")])
        if names and rng.random() < 0.3:
            # a path that is a proper prefix / extension of an earlier one (the manifest must tell them apart)
            o = rng.choice(names)
            cand = rng.choice([o + ".bak", o + "2", o.rsplit(".", 1)[0], o[:-1]])
            if cand and cand not in names and not cand.endswith("/"):
                names.append(cand); continue
        names.append("%sf%d%s" % (d, i, ext))
    def marker(frm):
        k = rng.random()
        tgt = rng.choice(names + ["missing.txt"])
        if k < 0.1: return "{{TOC}}"
        if k < 0.15: return "{{" + "x" * rng.choice([997, 998, 999, 1000, 1001]) + "}}"
        if k < 0.2: return "{{unterminated"
        if k < 0.23: return "{{ " + "y" * rng.choice([990, 1005, 1440]) + " "      # a stray opener: the span up to the next marker's }} is too long to be a file name

        if k < 0.3: return "{{%s/%s}}" % (root, tgt)                       # absolute
        if k < 0.45 and "." in tgt.split("/")[-1]:
            base = tgt.rsplit(".", 1)[0]
            return "{{%s.*}}" % base                                       # wildcard
        return "{{%s}}" % tgt
    files = {}
    for n in names:
        meta, body = "", []
        if rng.random() < 0.3:
            ml = ["Title: T%s" % n.replace("/", "_")]
            if rng.random() < 0.5:
                ml.append("Transclude Base: %s" % rng.choice([root, root + "/sub", "sub", "other/", "deep"]))
            if rng.random() < 0.3: ml.append("Author: A")
            meta = "\n".join(ml) + "\n\n"                      # simple block: key lines, then an empty line
        for _ in range(rng.randint(0, 4)):
            body.append(rng.choice(["text %s " % n, "line\n", marker(n), marker(n), "{ {", "}} stray", "\n\n"]))
        c = meta + "".join(body)
        if rng.random() < 0.1: c = "\xef\xbb\xbf" + c
        files[n] = c
    top = rng.choice(names)
    src = files[top] if rng.random() < 0.7 else "start " + " ".join(marker(top) for _ in range(rng.randint(1, 4))) + " end\n"
    search = rng.choice([root, root + "/", root + "/sub"])
    spath = "%s/%s" % (root, top)
    enc = lambda s: (s.encode("latin-1", "replace").hex() or "-")
    return "%d %s %s %s %s" % (FMT[fmt], enc(search), enc(spath), enc(src), " ".join("%s=%s" % (enc(root + "/" + n), enc(c)) for n, c in files.items()))


def run(rep, tier, seed):
    rep.cov["trusted_base"] = TRUSTED
    res = common.coq_prove("Properties_C13")
    rep.add_obligations(res, "Properties_C13")
    rng = random.Random("C13-%d" % seed)
    drv = common.extract_driver(); har = common.build_harness("asan", "transclude")
    root = os.path.join(common.BUILD, "run", "C13.%d" % os.getpid())
    os.makedirs(root, exist_ok=True)
    try:
        cases = [gen_case(rng, root) for _ in range(400 if tier == "quick" else 10000)]
        model = common.run_lines_par(drv, cases, args=["transclude"], timeout=1800)
        impl = common.run_lines(har, cases, timeout=1800)
    finally:
        shutil.rmtree(root, ignore_errors=True)
    bad, ncorr, ncyc = [], 0, 0
    for c, m, i in zip(cases, model, impl):
        if i.startswith("CRASH"):
            bad.append(("impl-crash", "transclusion crashed or did not terminate: " + i[:300], c)); continue
        if m.startswith("ERR"):
            bad.append(("model-err", "model reports %s" % m, c)); continue
        cyc = m.endswith(" !")
        ncyc += cyc
        mm = m[:-2] if cyc else m
        man = i.split(" ")[1:]
        if len(set(man)) != len(man):
            bad.append(("manifest-duplicate", "the manifest lists a file twice", c)); continue
        if mm != i:
            mt, it = mm.split(" ")[0], i.split(" ")[0]
            mman = mm.split(" ")[1:]
            if mt == it and not cyc and set(mman) != set(man):
                # same substituted text, so the same files were read; the model's manifest is the list of files referenced
                unhex = lambda x: bytes.fromhex(x).decode("latin-1") if x != "-" else ""
                miss = [unhex(x) for x in mman if x not in man]; extra = [unhex(x) for x in man if x not in mman]
                bad.append(("manifest-wrong", "acyclic include graph: the manifest %s" % ("; ".join(
                    (["omits referenced file(s) %s" % miss] if miss else []) + (["lists file(s) never referenced %s" % extra] if extra else []))), c)); continue
            if not cyc:
                # the search for a failing input: in an acyclic graph a marker that names an existing file by its absolute path
                # (no search-folder rule involved) must be gone from the result
                unhex = lambda x: bytes.fromhex(x).decode("latin-1") if x != "-" else ""
                itext, mtext = unhex(it), unhex(mt)
                left = [unhex(kv.split("=")[0]) for kv in c.split(" ")[4:] if "{{%s}}" % unhex(kv.split("=")[0]) in itext and "{{%s}}" % unhex(kv.split("=")[0]) not in mtext]
                if left:
                    bad.append(("marker-left-for-existing-file", "acyclic include graph: the marker of existing file(s) %s is left in place instead of being replaced by the file's content" % left[:3], c)); continue
            bad.append(("model-vs-impl", "correspondence broken: TranscludeModel.v vs transclude.c", c)); continue
        ncorr += 1
    rep.cov["evaluations"] = len(cases)
    rep.cov["traces_validated_against_impl"] = ncorr
    rep.cov["cyclic_cases"] = ncyc
    rep.cov["distinct_nontrivial"] = len(set(c for c in cases if c.count("=") >= 2))
    rep.cov["rule"] = ("random include graphs over 1..6 files in nested directories: trees, sharing, self loops, cycles, missing targets, absolute and relative markers, "
                       "transclude-base overrides, wildcard extensions per format, {{TOC}}, 997..1001-byte markers, unterminated markers, BOMs, metadata blocks, x 7 formats; "
                       "files are materialised and mmd_transclude_source + manifest compared with the extracted model; non-trivial = at least two files")
    rep.cov["samples"] = [cases[0][:300]]
    rep.assumptions += TRUSTED[1:]
    seen = set()
    for kind, what, c in bad:
        if kind in seen: continue
        seen.add(kind)
        nofail = kind in ("model-vs-impl", "model-err")
        rep.violation(kind, what, dict(case=c, no_failing_input=nofail, broken="correspondence TranscludeModel.v <-> transclude.c" if nofail else None))
    if not res["ok"] and not [b for b in bad if b[0] not in ("model-vs-impl", "model-err")]:
        rep.violation("proof-broken", "Properties_C13 no longer checks: %s" % res["failed"],
                      dict(no_failing_input=True, broken="theorems of coq/props/Properties_C13.v (%s)" % res["failed"], coq_output=res["output"][-3000:]))


def replay(rep, r):
    rep.cov.update(evaluations=1, distinct_nontrivial=1, obligations=1, discharged=1, checker_cmd="replay", rule="replay")
    rep.cov["samples"] = [r.get("case", "")[:200]]
    drv = common.extract_driver(); har = common.build_harness("asan", "transclude")
    m = common.run_lines(drv, [r["case"]], args=["transclude"])[0]; i = common.run_lines(har, [r["case"]])[0]
    print("model", m[:600]); print("impl ", i[:600])
    if m.replace(" !", "") != i:
        rep.violation(r.get("key", "model-vs-impl"), "model and implementation differ", r)
    # (replay of marker-left-for-existing-file: the implementation's text, decoded)
    try: print("impl text:", bytes.fromhex(i.split(" ")[0]).decode("latin-1")[:600])
    except Exception: pass
