"""C05  Output is a function of (source, options) only: no hidden history (DESIGN.md, C05)."""
import os, random, re, collections
import common, tr_globals, tr_engine, gen_md, tchk
from tr_lemon import TranslateError

LEVEL = "proof"
TRUSTED = ["Coq 8.16.1 kernel", "tools/tr_globals.py: the relocation graph of the -O2 objects over-approximates every access to process-global data "
           "(objdump; gcc clones folded; no inline asm in src/)", "tools/tr_engine.py (regex over struct mmd_engine and assignments)",
           "model/GlobalsPolicy.v: the classification lists", "ran_start() overwrites the whole generator state (premise of the noninterference theorem; "
           "tested by the history harness with e-mail documents)", "history harness: testing"]
E = tchk.EXT
PLAIN = ["html", "latex", "fodt", "opml", "beamer", "memoir"]


def doc_pool(rng):
    docs = ["Contact <user%d@example.com> and <mailto:x@y.org>.\n" % rng.randint(0, 9),
            "Language: de\nTitle: Deutsch\n\n\"Zitat\" mit Fussnote[^a].\n\n[^a]: Eine 'Note'.\n",
            "Quotes Language: french\n\n\"guillemets\" here[^n]\n\n[^n]: note\n",
            "Plain \"quoted\" text with footnote[^z] and *emph*.\n\n[^z]: the note\n",
            "Base Header Level: 3\n\n# Head\n\ntext\n",
            "ABBR and more ABBR.\n\n[>ABBR]: Abbreviation\n",
            "![img](a.png \"t\") and [link](http://x.y/ \"T\").\n\n# Head One\n\n[Head One][]\n",
            "Term[?term] cite[#c].\n\n[?term]: glossary\n\n[#c]: Author. Title.\n",
            "| a | b |\n|---|---|\n| 1 | 2 |\n[Caption]\n\nSee [Caption][].\n", "{{TOC}}\n\n# A\n\n## B\n"]
    # every spelling of an e-mail link on its own (each takes its own route to the obfuscator)
    docs += ["Write to <mailto:someone%d@example.org>.\n" % rng.randint(0, 99), "<MAILTO:Big@Example.ORG> first thing.\n",
             "A [text link](mailto:a.b@c.de) only.\n", "By reference [me][m].\n\n[m]: mailto:ref@example.com\n",
             "Two: <mailto:one@x.y> then <two@x.y>.\n", "Two: <one@x.y> then <mailto:two@x.y>.\n",
             "* item <mailto:list@x.y>\n* item <plain@x.y>\n", "note[^e]\n\n[^e]: <mailto:note@x.y>\n"]
    docs += [re.sub(r"\[\^", "[^", gen_md.structured(rng)) for _ in range(10)]
    return docs


def run(rep, tier, seed):
    rep.cov["trusted_base"] = TRUSTED
    tr_err = None
    try:
        tr_globals.main(); tr_engine.main()
    except TranslateError as e:
        tr_err = str(e)
    res = common.coq_prove("Properties_C05") if not tr_err else dict(ok=False, theorems=["writable_globals_classified"], failed=["translator: " + tr_err], assumptions={}, output=tr_err)
    rep.add_obligations(res, "Properties_C05")
    rng = random.Random("C05-%d" % seed)
    har = common.build_harness("asan", "history")
    pool = doc_pool(rng)
    extsets = [E["notes"] | E["smart"], E["notes"] | E["smart"] | E["complete"], E["compat"] | E["obfuscate"] | E["nolabels"] | E["nometa"], E["notes"] | E["critic"] | E["smart"]]
    def op(mode, ext=None, lang=None):
        d = rng.choice(pool)
        return (mode, rng.choice(PLAIN), ext if ext is not None else rng.choice(extsets), lang if lang is not None else rng.randrange(7), d)
    hist = []
    for _ in range(250 if tier == "quick" else 6000):
        k = rng.randint(1, 6)
        if rng.random() < 0.5:
            ext = rng.choice(extsets); lang = rng.randrange(7)
            h = [op("R", ext, lang) if rng.random() < 0.8 else op("S") for _ in range(k)]
        else:
            h = [op("S") for _ in range(k)]
            if rng.random() < 0.4:
                h = h + h[:2]                      # the same conversion again later
        hist.append(h)
    enc = lambda o: "%s %d %d %d %s" % (o[0], tchk.FMT[o[1]], o[2], o[3], o[4].encode("utf-8", "replace").hex() or "-")
    outs = common.run_lines_par(har, [" ; ".join(enc(o) for o in h) for h in hist], timeout=1800)
    # baseline: each distinct conversion alone, first thing in a fresh process
    distinct = sorted(set((o[1], o[2], o[3], o[4]) for h in hist for o in h))
    base = {}
    for d in distinct:
        o = common.run_lines(har, [enc(("S",) + d)])[0]
        base[d] = o
    bad, nops = [], 0
    for h, o in zip(hist, outs):
        if o.startswith("CRASH"):
            bad.append(("impl-crash", "history harness crashed: " + o[:300], h)); continue
        parts = o.split(" | ")
        for i, (opx, got) in enumerate(zip(h, parts)):
            nops += 1
            if got.endswith("!SRC-MODIFIED"):
                bad.append(("source-modified", "the caller's source buffer was changed by a conversion", h[: i + 1])); break
            if got != base[(opx[1], opx[2], opx[3], opx[4])]:
                bad.append(("history-dependent:%s" % ("reused-engine" if opx[0] == "R" else "same-process"),
                            "conversion #%d of the history (%s, %s) differs from the same conversion done first in a fresh process" % (i + 1, opx[0], opx[1]), h[: i + 1])); break
    rep.cov["evaluations"] = len(hist)
    rep.cov["conversions_compared"] = nops
    rep.cov["distinct_nontrivial"] = len(set(tuple(h) for h in hist if len(h) >= 2))
    rep.cov["rule"] = ("histories of 1..8 conversions over a pool of documents (obfuscated e-mail, metadata selecting language / quotes language / base header level, "
                       "footnotes, abbreviations, glossary, images, cross references, TOC, generated documents) x formats x extension sets x languages, through fresh engines "
                       "and through ONE reused engine whose text is replaced; every result compared with the same conversion done first in a fresh process; "
                       "non-trivial = distinct history of length >= 2")
    rep.cov["samples"] = [[(o[0], o[1], o[2], o[3], o[4][:40]) for o in hist[0]]]
    rep.assumptions += TRUSTED[1:]
    seen = set()
    for kind, what, h in bad:
        if kind in seen: continue
        seen.add(kind)
        small = shrink(h, kind, har, base, enc) if kind.startswith("history") else h
        rep.violation(kind, what, dict(history=[list(o) for o in small], no_failing_input=False))
    if not res["ok"] and not bad:
        rep.violation("proof-broken", "Properties_C05 no longer checks: %s" % res["failed"],
                      dict(no_failing_input=True, broken="theorems of coq/props/Properties_C05.v (%s)" % res["failed"], coq_output=res["output"][-3000:]))


def shrink(h, kind, har, base, enc):
    last = h[-1]
    def failing(sub):
        hh = list(sub) + [last]
        o = common.run_lines(har, [" ; ".join(enc(x) for x in hh)])[0]
        if o.startswith("CRASH"): return False
        got = o.split(" | ")[-1]
        ref = common.run_lines(har, [enc(("S",) + tuple(last[1:]))])[0]
        return got != ref
    try:
        pre = common.ddmin(list(h[:-1]), failing) if len(h) > 2 else h[:-1]
    except Exception:
        pre = h[:-1]
    return list(pre) + [last]


def replay(rep, r):
    rep.cov.update(evaluations=1, distinct_nontrivial=1, obligations=1, discharged=1, checker_cmd="replay", rule="replay")
    har = common.build_harness("asan", "history")
    h = [tuple(o) for o in r["history"]]
    rep.cov["samples"] = [str(h)[:300]]
    enc = lambda o: "%s %d %d %d %s" % (o[0], tchk.FMT[o[1]], o[2], o[3], o[4].encode("utf-8", "replace").hex() or "-")
    o = common.run_lines(har, [" ; ".join(enc(x) for x in h)])[0].split(" | ")[-1]
    ref = common.run_lines(har, [enc(("S",) + tuple(h[-1][1:]))])[0]
    print("in history:", bytes.fromhex(o.replace("!SRC-MODIFIED", "")).decode("utf-8", "replace")[:400]); print("fresh     :", bytes.fromhex(ref).decode("utf-8", "replace")[:400])
    if o != ref:
        rep.violation("history-dependent", "differs from fresh process", r)
