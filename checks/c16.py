"""C16  Valid UTF-8 in, valid UTF-8 out (DESIGN.md, C16)."""
import random, collections
import common, tr_escapers, gen_md, tchk
from tr_lemon import TranslateError

LEVEL = "proof"
TRUSTED = ["Coq 8.16.1 kernel + vm_compute", "tools/tr_escapers.py (tabulation of escapers and char classes by calling the compiled functions)",
           "model/LabelModel.v hand transcription of label_from_string / clean_string, tied by correspondence (harness/bytesfn.c)",
           "tolower() behaves as in the C locale on bytes >= 0x80 (the library never calls setlocale)",
           "pipeline level (lexer, smart typography, writers) is tested with a UTF-8 validity oracle, not proved"]
SPECIAL = [" ", "À", "à", "é", "\u0085", " ", "　", "€", "中", "퟿", "", "�",
           "\U00010000", "\U0001f389", "\U0010ffff", "©", "—", "“", "ß", "İ",
           # characters whose LAST byte looks like Latin-1 white space or a control (A0, 85, 80, 8A, 9F): a bytewise trim must not cut into them
           "†", "≠", "造", "\U0001f3e0", "\u2005", "\u2028", "Ā", "\u200a", "\u2060", "ğ", "\U0001f49f"]
SYNTAX = list("*_`[]()!#>-+=|:~^$\\<&\"' \t\n") + ["\n\n", "  \n", "1. ", "    ", "](", "]: ", "[^", "{++", "++}", "<!--", "-->", "---", "...", "``", "''"]


def gen_trailing_doc(rng):
    """special characters at the END of headings, cells, items, lines, link texts and emphasis (where trailing white space is trimmed), with a TOC"""
    sp = lambda: rng.choice(SPECIAL)
    w = lambda: rng.choice(["Home", "text", "Zed", "a"])
    parts = []
    for _ in range(rng.randint(2, 6)):
        k = rng.randrange(9)
        if k == 0: parts.append("#" * rng.randint(1, 4) + " %s %s%s" % (w(), sp(), rng.choice(["", " #", " ##"])))
        elif k == 1: parts.append("%s %s\n%s" % (w(), sp(), rng.choice(["====", "----"])))
        elif k == 2: parts.append("| %s %s | %s%s |\n|---|---|\n| %s%s | x %s |" % (w(), sp(), w(), sp(), w(), sp(), sp()))
        elif k == 3: parts.append("* %s %s\n* %s%s" % (w(), sp(), w(), sp()))
        elif k == 4: parts.append("%s %s  \n%s%s" % (w(), sp(), w(), sp()))
        elif k == 5: parts.append("[%s %s](http://e.com/) **%s%s** *%s %s*" % (w(), sp(), w(), sp(), w(), sp()))
        elif k == 6: parts.append("> %s %s" % (w(), sp()))
        elif k == 7: parts.append("Term %s\n: Def %s" % (sp(), sp()))
        else: parts.append("%s[^n]\n\n[^n]: note %s" % (w(), sp()))
    if rng.random() < 0.6: parts.insert(rng.randrange(len(parts) + 1), "{{TOC}}")
    end = "\n"
    if rng.random() < 0.5:
        # a definition as the last thing in the text, its content ending in a special character - with and without a final line ending
        d = rng.randrange(5)
        if d == 0: parts.insert(0, "The AB tool."); parts.append("[>AB]: Abbreviation %s%s" % (w(), sp()))
        elif d == 1: parts.insert(0, "A [?term] here."); parts.append("[?term]: glossary %s%s" % (w(), sp()))
        elif d == 2: parts.insert(0, "Cited [#c1] here."); parts.append("[#c1]: Author %s%s" % (w(), sp()))
        elif d == 3: parts.insert(0, "A [link][r1] here."); parts.append("[r1]: http://e.com/ \"title %s%s\"" % (w(), sp()))
        else: parts.insert(0, "Noted[^z] here."); parts.append("[^z]: note %s%s" % (w(), sp()))
        end = rng.choice(["\n", "", "", "\n\n"])
    return "\n\n".join(parts) + end


def gen_utf8_doc(rng):
    k = rng.random()
    if k < 0.25:
        return gen_trailing_doc(rng)
    if k < 0.55:
        base = gen_md.structured(rng)
        # splice special code points at random positions
        chars = list(base)
        for _ in range(rng.randint(1, 8)):
            chars.insert(rng.randrange(len(chars) + 1), rng.choice(SPECIAL))
        return "".join(chars)
    n = rng.randint(1, 40)
    return "".join(rng.choice(SPECIAL) if rng.random() < 0.4 else rng.choice(SYNTAX) if rng.random() < 0.7 else rng.choice("abXY09") for _ in range(n))


def is_utf8(b):
    try:
        b.decode("utf-8"); return True
    except UnicodeDecodeError:
        return False


def run(rep, tier, seed):
    rep.cov["trusted_base"] = TRUSTED
    tr_err = None
    try:
        tr_escapers.main()
    except TranslateError as e:
        tr_err = str(e)
    res = common.coq_prove("Properties_C16") if not tr_err else dict(ok=False, theorems=["esc_preserves_utf8"], failed=["translator: " + tr_err], assumptions={}, output=tr_err)
    rep.add_obligations(res, "Properties_C16")
    rng = random.Random("C16-%d" % seed)
    bad = []
    # ---- correspondence of the byte-level models
    drv = common.extract_driver() if res["ok"] or True else None
    har = common.build_harness("asan", "bytesfn")
    fns = ["label", "clean00", "clean10", "clean01", "clean11", "esc_html", "esc_html_br", "esc_latex", "esc_odf", "esc_odf_br", "esc_opml", "esc_itmz"]
    strs = []
    for _ in range(1500 if tier == "quick" else 40000):
        k = rng.random()
        if k < 0.6:
            s = gen_utf8_doc(rng).encode("utf-8", "surrogatepass")[:200]
        elif k < 0.8:
            s = bytes(rng.choice([0x26, 0x61, 0x6d, 0x70, 0x3b, 0x5c, 0x0a, 0x0d, 0x20, 0x09, 0x41, 0x5a, 0xc3, 0xa9, 0x80, 0xbf, 0xf0, 0x2e, 0x3a]) for _ in range(rng.randint(0, 24)))
        else:
            s = bytes(rng.randint(1, 255) for _ in range(rng.randint(0, 16)))
        strs.append(s.replace(b"\0", b""))
    cases = ["%s %s" % (rng.choice(fns), s.hex() or "-") for s in strs]
    model = common.run_lines_par(drv, cases, args=["bytes"])
    impl = common.run_lines_par(har, cases)
    ncorr = 0
    for c, s, m, i in zip(cases, strs, model, impl):
        if i.startswith("CRASH"):
            bad.append(("impl-crash", "byte function crashed: %s on %s" % (i[:200], c), dict(case=c))); continue
        out = bytes.fromhex(i) if i != "-" else b""
        if is_utf8(s) and not is_utf8(out):
            bad.append(("bytefn-invalid-utf8", "%s maps valid UTF-8 %r to invalid %r" % (c.split()[0], s, out), dict(case=c, out=i))); continue
        if m != i:
            bad.append(("model-vs-impl", "correspondence broken: %s model=%s impl=%s" % (c, m, i), dict(case=c, model=m, impl=i))); continue
        ncorr += 1
    # ---- T-chk on the whole pipeline
    docs = [gen_utf8_doc(rng).encode("utf-8") for _ in range(500 if tier == "quick" else 12000)]
    docs += [d for d in gen_md.corpus_docs() if is_utf8(d)][: (20 if tier == "quick" else 200)]
    jobs = []
    for d in docs:
        d = d.replace(b"\0", b"")
        for f in (tchk.TEXTUAL + ["mmd"]) if tier != "quick" else rng.sample(tchk.TEXTUAL, 3):
            ext = tchk.EXT["notes"] | (tchk.EXT["smart"] if rng.random() < 0.6 else 0) | (tchk.EXT["complete"] if rng.random() < 0.2 else 0) | (tchk.EXT["critic"] if rng.random() < 0.2 else 0)
            jobs.append((d, f, ext, rng.randrange(7)))
    results = tchk.convert(jobs)
    ninv = 0
    for r in results:
        if not r.ok():
            if "Sanitizer" in r.stderr or r.status not in ("0",):
                bad.append(("impl-crash", "conversion crashed (%s): %s" % (r.fmt, r.stderr[:200] or r.raw[:200]), dict(doc=r.doc.decode("latin-1"), fmt=r.fmt, ext=r.ext, lang=r.lang)))
            continue
        if not is_utf8(r.out):
            ninv += 1
            bad.append(("invalid-utf8-out", "%s output of a valid UTF-8 source is not valid UTF-8" % r.fmt, dict(doc=r.doc.decode("latin-1"), doc_hex=r.doc.hex(), fmt=r.fmt, ext=r.ext, lang=r.lang)))
    rep.cov["evaluations"] = len(cases) + len(jobs)
    rep.cov["traces_validated_against_impl"] = ncorr
    rep.cov["conversions"] = len(jobs)
    rep.cov["distinct_nontrivial"] = len(set(s for s in strs if any(b >= 0x80 for b in s))) + len(set(d for d in docs if any(b >= 0x80 for b in d)))
    rep.cov["rule"] = ("byte-function correspondence on valid UTF-8 with special code points (U+00A0, U+0085, 2-4 byte, boundaries), ampersand/backslash soup and "
                       "random bytes; pipeline: structured documents with special code points spliced at random positions and syntax/code-point soup x textual "
                       "formats x smart on/off x 7 languages; non-trivial = distinct input containing a byte >= 0x80")
    rep.cov["fn_histogram"] = dict(collections.Counter(c.split()[0] for c in cases))
    rep.cov["samples"] = [dict(case=cases[0], impl=impl[0]), dict(doc=docs[0][:80].decode("latin-1"))]
    rep.assumptions += TRUSTED[2:]
    seen = set()
    for kind, what, info in bad:
        if kind in seen: continue
        seen.add(kind)
        if kind == "invalid-utf8-out":
            def failing(b, info=info):
                r = tchk.convert([(b, info["fmt"], info["ext"], info["lang"])])[0]
                return is_utf8(b) and r.ok() and not is_utf8(r.out)
            small = tchk.shrink_doc(bytes.fromhex(info["doc_hex"]), failing)
            info = dict(info, doc=small.decode("latin-1"), doc_hex=small.hex())
        nofail = kind == "model-vs-impl"
        rep.violation(kind, what, dict(info, no_failing_input=nofail, broken="correspondence LabelModel.v/Escapers.v <-> writer.c etc." if nofail else None))
    if not res["ok"] and not [b for b in bad if b[0] != "model-vs-impl"]:
        rep.violation("proof-broken", "Properties_C16 no longer checks: %s" % res["failed"],
                      dict(no_failing_input=True, broken="theorems of coq/props/Properties_C16.v (%s)" % res["failed"], coq_output=res["output"][-3000:]))


def replay(rep, r):
    rep.cov.update(evaluations=1, distinct_nontrivial=1, obligations=1, discharged=1, checker_cmd="replay", rule="replay")
    rep.cov["samples"] = [str(r)[:200]]
    if "doc_hex" in r:
        x = tchk.convert([(bytes.fromhex(r["doc_hex"]), r["fmt"], r["ext"], r["lang"])])[0]
        print(x.out[:500])
        if x.ok() and not is_utf8(x.out):
            rep.violation("invalid-utf8-out", "output not valid UTF-8", r)
