"""C04  All output formats carry the same text, escaped for the target (DESIGN.md, C04)."""
import random, re, collections
import xml.parsers.expat as expat
import common, tr_escapers, tchk, planted
from tr_lemon import TranslateError

LEVEL = "proof"
TRUSTED = ["Coq 8.16.1 kernel + vm_compute", "tools/tr_escapers.py (complete tabulation of the single-byte escapers by calling them)",
           "the string printers apply the char escaper byte by byte: checked by correspondence (harness/bytesfn.c vs extracted esc)",
           "the writers that decide WHICH printer a piece of text goes through are not modelled: cross-format text preservation, escaping of "
           "planted runs and nesting are tested with oracles on generated documents (planted reserved characters in every text position)"]
FORMATS = ["html", "latex", "beamer", "memoir", "fodt", "opml"]
VISIBLE_ONCE = {"paragraph", "heading", "list item", "table cell", "link text", "footnote", "nested footnote", "code span", "code block",
                "block quote", "definition", "strong", "emphasis", "citation locator"}
LATEX_TOK = {"&": [r"\&"], "%": [r"\%"], "#": [r"\#"], "{": [r"\{"], "}": [r"\}"], "$": [r"\$"], "~": [r"\ensuremath{\sim}", r"\textasciitilde{}"],
             "^": [r"\^{}", r"\textasciicircum{}"], "a_b": [r"a\_b"], "a\\b": [r"a\textbackslash{}b"], "<": ["<", "$<$"], ">": [">", "$>$"],
             '"': ["''", '"', "``"], "'": ["'", "`"], "&amp;": [r"\&"], "AT&T": [r"AT\&T"], "1<2": ["1<2", "1$<$2"], "x>y": ["x>y", "x$>$y"]}


def xml_text(b):
    """(text content, error) of an XML document; attribute values of OPML outlines count as text"""
    out = []
    p = expat.ParserCreate()
    p.CharacterDataHandler = out.append
    def start(name, attrs):
        if name == "outline":
            out.append(" " + attrs.get("text", "") + " " + attrs.get("_note", "") + " ")
    p.StartElementHandler = start
    try:
        p.Parse(b, True)
    except expat.ExpatError as e:
        return "".join(out), str(e)
    return "".join(out), None


def latex_balanced(s):
    """None if environments and braces nest properly (verbatim bodies skipped), else a message"""
    s = re.sub(r"\\begin\{(verbatim|lstlisting)\}.*?\\end\{\1\}", "", s, flags=re.S)
    if "\\begin{document}" not in s:
        # a complete document opens the document environment in an \input file (mmd6-*-begin) and closes it itself
        s = s.replace("\\end{document}", "")
    stack = []
    for m in re.finditer(r"\\(begin|end)\{([^}]*)\}", s):
        if m.group(1) == "begin": stack.append(m.group(2))
        else:
            if not stack or stack[-1] != m.group(2):
                return "\\end{%s} closes %s" % (m.group(2), stack[-1] if stack else "nothing")
            stack.pop()
    if stack: return "unclosed environment %s" % stack[-1]
    depth = 0
    t = re.sub(r"\\\\", "", s)
    t = re.sub(r"\\[{}]", "", t)
    for ch in t:
        if ch == "{": depth += 1
        elif ch == "}":
            depth -= 1
            if depth < 0: return "unbalanced }"
    return "unbalanced {" if depth else None


def expected_text(run):
    return run.replace("&amp;", "&").replace("&#169;", "\u00a9")


def check_doc(src, plants, results):
    """returns list of (kind, what)"""
    bad = []
    for r in results:
        if not r.ok():
            bad.append(("impl-crash", "conversion to %s failed: %s" % (r.fmt, (r.stderr or r.raw)[:200]))); continue
        out = r.out.decode("utf-8", "replace")
        if r.fmt in ("html", "fodt", "opml"):
            # (a complete HTML document starts with a doctype line, which cannot stand inside the wrapper element)
            doc = r.out if r.fmt != "html" else b"<root>" + re.sub(rb"^<!DOCTYPE html>\n", b"", r.out).replace(b"&nbsp;", b"&#160;") + b"</root>"
            text, err = xml_text(doc)
            if err:
                bad.append(("not-nested:%s" % r.fmt, "%s output does not parse (markup not properly nested or reserved character unescaped): %s" % (r.fmt, err))); continue
            hay = text
        else:
            err = latex_balanced(out)
            if err:
                bad.append(("not-nested:%s" % r.fmt, "%s: %s" % (r.fmt, err)))
            hay = out
        for pos, marker, run in plants:
            n = hay.count(marker)
            if pos == "fence language":
                # where the target prints the language of a code fence, the reserved characters of the target are escaped there too
                if r.fmt in ("latex", "beamer", "memoir") and n:
                    m = re.search(r"language=(" + re.escape(marker) + r"[^\n]*)\]\n", hay)
                    val = m.group(1) if m else hay[hay.find(marker):hay.find(marker) + 60]
                    rest = val
                    for esc in (r"\&", r"\%", r"\#", r"\$", r"\_", r"\{", r"\}", r"\ensuremath{\sim}", r"\textasciitilde{}", r"\^{}", r"\textasciicircum{}", "$<$", "$>$"):
                        rest = rest.replace(esc, "")
                    if re.search(r"[&%#$_{}~^\\]", rest):
                        bad.append(("unescaped:%s:fence language" % r.fmt, "%s: the language of a code fence is printed with unescaped reserved characters: source %r, output %r" % (r.fmt, run, val)))
                continue
            if pos == "metadata value":
                # a value may be printed several times (title, header fields) or not at all (keys the format has no use for);
                # wherever it is printed its reserved characters are escaped: the XML formats were parsed above, for LaTeX
                # every occurrence is followed by the escaped tokens
                if r.fmt in ("latex", "beamer", "memoir") and n:
                    toks = run.split(" ")[1:]
                    alts = ["(?:" + "|".join(re.escape(a) for a in LATEX_TOK[t]) + ")" if t in LATEX_TOK else re.escape(t) for t in toks]
                    rx = re.compile(re.escape(marker) + r"\s+" + r"\s+".join(alts))
                    for m in re.finditer(re.escape(marker), hay):
                        if not rx.match(hay, m.start()):
                            bad.append(("unescaped:%s:metadata value" % r.fmt, "%s: a metadata value is printed with unescaped reserved characters: source %r, output %r" % (r.fmt, run, hay[m.start():m.start() + 100])))
                            break
                continue
            if pos in VISIBLE_ONCE and n != 1 and not (r.fmt == "opml"):
                bad.append(("text-%s:%s:%s" % ("lost" if n == 0 else "repeated", r.fmt, pos), "%s: text planted in %s appears %d times (marker %s)" % (r.fmt, pos, n, marker)))
                continue
            if r.fmt == "opml" and pos in VISIBLE_ONCE and n < 1:
                bad.append(("text-lost:opml:%s" % pos, "opml: text planted in %s is missing (marker %s)" % (pos, marker))); continue
            if n == 0:
                continue
            # escaping of the run itself
            if r.fmt in ("html", "fodt") and pos in VISIBLE_ONCE:
                exp = run if pos in ("code span", "code block") else expected_text(run)
                if norm(exp) not in norm(hay):
                    bad.append(("text-changed:%s:%s" % (r.fmt, pos), "%s: run planted in %s is not reproduced exactly: expected %r" % (r.fmt, pos, exp)))
            if r.fmt in ("latex", "beamer", "memoir") and pos in VISIBLE_ONCE and pos not in ("code block",):
                toks = run.split(" ")[1:]
                alts = []
                for t in toks:
                    if t in LATEX_TOK: alts.append("(?:" + "|".join(re.escape(a) for a in LATEX_TOK[t]) + ")")
                    elif t == "&#169;": alts.append(r"\S+")
                    else: alts.append(re.escape(t))
                rx = re.escape(marker) + r"\s+" + r"\s+".join(alts)
                if not re.search(rx, hay):
                    seg = hay[hay.find(marker):hay.find(marker) + 120]
                    bad.append(("unescaped:%s:%s" % (r.fmt, pos), "%s: run planted in %s is not escaped as expected: source %r, output %r" % (r.fmt, pos, run, seg)))
    return bad


def norm(s):
    return re.sub(r"\s+", " ", s)


def run(rep, tier, seed):
    rep.cov["trusted_base"] = TRUSTED
    tr_err = None
    try:
        tr_escapers.main()
    except TranslateError as e:
        tr_err = str(e)
    res = common.coq_prove("Properties_C04") if not tr_err else dict(ok=False, theorems=["esc_roundtrip"], failed=["translator: " + tr_err], assumptions={}, output=tr_err)
    rep.add_obligations(res, "Properties_C04")
    rng = random.Random("C04-%d" % seed)
    bad = []
    # ---- correspondence: string printers = byte-wise application of the tabulated char escaper
    drv = common.extract_driver(); har = common.build_harness("asan", "bytesfn")
    fns = ["esc_html", "esc_html_br", "esc_latex", "esc_odf", "esc_odf_br", "esc_opml", "esc_itmz"]
    strs = [bytes(rng.choice([rng.randint(1, 255), rng.choice(b"&<>\"'\\{}$%#_^~|/\n\r\t")]) for _ in range(rng.randint(0, 30))) for _ in range(1200 if tier == "quick" else 30000)]
    cases = ["%s %s" % (rng.choice(fns), s.hex() or "-") for s in strs]
    model = common.run_lines_par(drv, cases, args=["bytes"]); impl = common.run_lines_par(har, cases)
    ncorr = 0
    for c, m, i in zip(cases, model, impl):
        if m != i:
            bad.append(("model-vs-impl", "correspondence broken: string printer differs from the tabulated escaper: %s model=%s impl=%s" % (c, m, i), None, None))
        else:
            ncorr += 1
    # ---- T-chk on planted documents
    docs = [planted.document(rng, meta=False) for _ in range(250 if tier == "quick" else 6000)]
    jobs = [(src.encode("utf-8"), f, tchk.EXT["notes"], 0) for src, pl in docs for f in FORMATS]
    results = tchk.convert(jobs)
    byd = collections.defaultdict(list)
    for r in results:
        byd[r.doc].append(r)
    for src, pl in docs:
        for kind, what in check_doc(src, pl, byd[src.encode("utf-8")]):
            bad.append((kind, what, src, pl))
    # the same with a metadata block (complete documents: the values go into the header of every format)
    mdocs = [planted.document(rng, meta=True) for _ in range(80 if tier == "quick" else 2000)]
    mjobs = [(src.encode("utf-8"), f, tchk.EXT["notes"], 0) for src, pl in mdocs for f in FORMATS]
    mres = tchk.convert(mjobs)
    byd = collections.defaultdict(list)
    for r in mres:
        byd[r.doc].append(r)
    for src, pl in mdocs:
        for kind, what in check_doc(src, pl, byd[src.encode("utf-8")]):
            bad.append((kind, what, src, pl))
    jobs = jobs + mjobs; docs = docs + mdocs
    rep.cov["evaluations"] = len(cases) + len(jobs)
    rep.cov["traces_validated_against_impl"] = ncorr
    rep.cov["planted_runs"] = sum(len(pl) for s, pl in docs)
    rep.cov["distinct_nontrivial"] = len(set(s for s, pl in docs))
    rep.cov["rule"] = ("planted documents: a unique marker word + reserved tokens in every text position (paragraph, heading, list item, table cell, link text/title, "
                       "URL, image alt/title, footnote incl. nested, code span/block, quote, definition, emphasis, citation locator; and, in complete documents, metadata values) x 6 textual formats; oracles: XML parse (nesting + "
                       "escaping), LaTeX environment/brace balance, marker exactly once, run reproduced / escaped as expected; plus string-printer correspondence")
    rep.cov["position_histogram"] = dict(collections.Counter(p for s, pl in docs for p, m, r in pl))
    rep.cov["samples"] = [dict(doc=docs[0][0][:300])]
    rep.assumptions += TRUSTED[2:]
    seen = set()
    for kind, what, src, pl in bad:
        if kind in seen: continue
        seen.add(kind)
        info = dict(no_failing_input=(kind == "model-vs-impl"))
        if src is not None:
            small = shrink(src, pl, kind)
            info.update(doc=small, doc_hex=small.encode("utf-8").hex(), plants=pl)
        else:
            info.update(broken="correspondence gen/Escapers.v <-> mmd_print_string_*")
        rep.violation(kind, what, info)
    if not res["ok"] and not [b for b in bad if b[0] != "model-vs-impl"]:
        rep.violation("proof-broken", "Properties_C04 no longer checks: %s" % res["failed"],
                      dict(no_failing_input=True, broken="theorems of coq/props/Properties_C04.v (%s)" % res["failed"], coq_output=res["output"][-3000:]))


def shrink(src, pl, kind):
    """drop blocks (blank-line separated) while the same kind of violation remains"""
    blocks = src.split("\n\n")
    def failing(sub):
        s = "\n\n".join(sub)
        rs = tchk.convert([(s.encode("utf-8"), f, tchk.EXT["notes"], 0) for f in FORMATS])
        pls = [p for p in pl if p[1] in s]
        return any(k == kind for k, w in check_doc(s, pls, rs))
    try:
        blocks = common.ddmin(blocks, failing)
    except Exception:
        pass
    return "\n\n".join(blocks)


def replay(rep, r):
    rep.cov.update(evaluations=1, distinct_nontrivial=1, obligations=1, discharged=1, checker_cmd="replay", rule="replay")
    rep.cov["samples"] = [r.get("doc", "")[:200]]
    src = r["doc"]
    rs = tchk.convert([(src.encode("utf-8"), f, tchk.EXT["notes"], 0) for f in FORMATS])
    for kind, what in check_doc(src, [tuple(p) for p in r.get("plants", []) if p[1] in src], rs):
        print(kind, what)
        rep.violation(kind, what, r)
