"""C14  Outline export is lossless and re-import reproduces the document (DESIGN.md, C14)."""
import random, re
import xml.parsers.expat as expat
import common, tchk, tr_escapers

LEVEL = "proof"
TRUSTED = ["Coq 8.16.1 kernel + vm_compute",
           "tools/tr_escapers.py (esc_opml / esc_itmz tables regenerated from the compiled escapers on every run)",
           "model/OpmlModel.v: hand models of print_xml_as_text (xml.c), of the outline nesting in mmd_outline_add_opml (opml.c) and of the depth counter in "
           "parse_opml_token_chain (opml-reader.c); tied by correspondence (harness/bytesfn.c unesc, tag sequence of real OPML output, heading levels of the re-imported text)",
           "extraction + ocaml/driver.ml", "expat as XML attribute decoder in the lossless-export oracle; HTML rendering equality of original and re-imported text is testing"]
E = tchk.EXT
BASE = E["smart"] | E["notes"] | E["critic"]
RESERVED = ["&", "<", ">", '"', "'", "&amp;", "&lt;", "&#10;", "&#13;", "&#9;", "&#", "&;", "<b>", "]]>", "\t", "é", "日本", "a&b", "x<y", "\\", "*", "_", "`"]
WORDS = ["alpha", "beta", "gamma", "delta", "omega", "lorem", "ipsum"]


# ---------------------------------------------------------------- part 1: escape / unescape
def unhex(x):
    return b"" if x in ("", "-") else bytes.fromhex(x)


def unesc_part(rep, tier, rng, bad):
    drv = common.extract_driver(); har = common.build_harness("asan", "bytesfn")
    n = 800 if tier == "quick" else 80000
    frag = ["&", "&amp;", "&apos;", "&lt;", "&gt;", "&quot;", "&#10;", "&#9;", "&#13;", "&#1", "&#10", "&#100;", "&#39;", "&am", "&amp", "&ampx;", "&l", "&lt", "&g;", "&q", "&quot",
            "#10;", "amp;", ";", "a", "Z", " ", "\n", "\r", "\t", "<", ">", '"', "'", "\x01", "\x7f", "é", "\xff"]
    strings = []
    for i in range(n):
        if i % 2:
            s = "".join(rng.choice(frag) for _ in range(rng.randint(0, 12))).encode("latin-1")
        else:
            s = bytes(rng.choice([38, 35, 59, 60, 62, 34, 39, 9, 10, 13, 97, 49, 48, 51, 57] + [rng.randint(1, 255)]) for _ in range(rng.randint(0, 24)))
        strings.append(s.replace(b"\0", b"x"))
    strings += [bytes([b]) for b in range(1, 256)]
    lines = ["unesc %s" % (s.hex() or "-") for s in strings]
    m = common.run_lines_par(drv, lines, args=["bytes"], timeout=900); i = common.run_lines(har, lines, timeout=900)
    ncorr = 0
    for s, a, b in zip(strings, m, i):
        if a != b:
            bad.append(("model-vs-impl:unesc", "correspondence broken: OpmlModel.xml_as_text vs print_xml_as_text on %r: model %s impl %s" % (s, a, b), dict(fn="unesc", hex=s.hex())))
        else: ncorr += 1
    # the round trip on the implementation itself: unescape(escape(s)) == s
    for esc in ("esc_opml", "esc_itmz"):
        e = common.run_lines(har, ["%s %s" % (esc, s.hex() or "-") for s in strings], timeout=900)
        u = common.run_lines(har, ["unesc %s" % (x if x not in ("", "-") else "-") for x in e], timeout=900)
        for s, x, y in zip(strings, e, u):
            if unhex(y) != s:
                bad.append(("roundtrip:" + esc, "unescape(escape(s)) != s for s=%r: escaped %r, decoded %r" % (s, unhex(x), unhex(y)), dict(fn=esc, hex=s.hex()))); break
    rep.cov["unesc_cases"] = len(strings)
    return ncorr


# ---------------------------------------------------------------- part 2: documents
def eof_newline(doc, h2):
    """the difference a missing final line ending makes: the importer ends the text with a line ending; the re-imported text then
    renders exactly like the original with a line ending appended (it differs from the original where that line ending is
    content: at the end of a code block, or after a final backslash)"""
    if doc.endswith((b"\n", b"\r")): return False
    r = tchk.convert([(doc + b"\n", "html", BASE | E["complete"], 0)])[0]
    return r.ok() and r.out == h2


def gen_title(rng):
    t = " ".join(rng.choice(WORDS + RESERVED[:12] + ["é", "日本", "a&b", "x<y"]) for _ in range(rng.randint(1, 4)))
    t = t.replace("\t", " ").strip()
    if not re.search(r"[A-Za-z]", t): t = "T " + t
    if t.endswith("#"): t += " x"                  # a trailing run of # is the closing marker, not title text
    return t


def gen_body(rng):
    paras = []
    for _ in range(rng.randint(0, 3)):
        k = rng.random()
        w = lambda: " ".join(rng.choice(WORDS + RESERVED) for _ in range(rng.randint(1, 6))).strip() or "w"
        if k < 0.5: paras.append(w())
        elif k < 0.65: paras.append("* " + w() + "\n* " + w())
        elif k < 0.8: paras.append("    code " + w())
        elif k < 0.9: paras.append("> " + w() + "\n> # not a heading")
        else: paras.append("```\n<tag attr=\"v\"> & 'q'\n```")
    return paras


def gen_doc(rng, nested=True):
    """returns (text bytes, info) with info = dict(levels, preamble, titles, bodies (exact source text after each heading), meta)"""
    nl = "\r\n" if rng.random() < 0.15 else "\n"
    meta = []
    if rng.random() < 0.5:
        meta.append(("Title", gen_title(rng)))
        if rng.random() < 0.5: meta.append(("Author", "A. " + rng.choice(["O'Neil", "B <b@c>", "Q \"R\""])))
        if rng.random() < 0.3: meta.append(("Custom Key", rng.choice(["v&w", "1 < 2", "plain"])))
        if rng.random() < 0.3: meta.append(("Base Header Level", str(rng.randint(1, 3))))
    n = rng.randint(0, 7)
    levels, prev = [], 0
    for _ in range(n):
        if nested: l = rng.randint(1, min(6, prev + 1))
        else: l = rng.randint(1, 6)
        levels.append(l); prev = l
    out = ""
    if meta: out += "".join("%s: %s%s" % kv + "" for kv in [(k, v, nl) for k, v, in meta]) + nl
    preamble = ""
    if rng.random() < 0.5 or not levels:
        ps = gen_body(rng) or ["Lead " + rng.choice(WORDS)]
        if not meta and re.match(r"[A-Za-z0-9][^\n]*:", ps[0]): ps[0] = "Lead. " + ps[0]
        preamble = (nl + nl).join(p.replace("\n", nl) for p in ps) + nl + nl
    out += preamble
    if meta: preamble = nl + preamble              # the blank line ending the metadata is the first block of the body
    titles, bodies = [], []
    for l in levels:
        t = gen_title(rng)
        style = rng.random()
        if l <= 2 and style < 0.3:
            if not t[0].isalpha(): t = "T " + t     # "> x" or "* x" above an underline is a quote / list, not a heading
            head = t + nl + ("=" if l == 1 else "-") * rng.randint(3, 8) + nl
        elif style < 0.6:
            if rng.random() < 0.2: t = rng.choice(["C#", "F# and C#", "Item #"]) if rng.random() < 0.7 else t + " #"   # inside closing hashes a title may end in '#'
            head = "#" * l + " " + t + " " + "#" * rng.randint(1, 6) + nl
        else:
            head = "#" * l + " " + t + nl
        ps = gen_body(rng)
        body = nl + (nl + nl).join(p.replace("\n", nl) for p in ps) + (nl + nl if ps else "")
        if rng.random() < 0.1: body = ""            # heading directly followed by the next one
        out += head + body
        titles.append(t); bodies.append(body)
    if rng.random() < 0.15 and (levels or preamble):
        # the text may end without a line ending: after the last paragraph, or right after a heading line / a Setext underline
        cut = len(out) - len(out.rstrip("\r\n"))
        out = out[:len(out) - cut]
        if bodies:
            bodies[-1] = bodies[-1][:max(0, len(bodies[-1]) - cut)] if bodies[-1] else ""
        else:
            preamble = preamble[:max(0, len(preamble) - cut)]
    return out.encode(), dict(levels=levels, preamble=preamble, titles=titles, bodies=bodies, meta=meta, nl=nl)


TAG = re.compile(rb'<outline\b[^>]*?(/?)>|</outline>')


def opml_tags(opml):
    """outline tag sequence of the body, the trailing Metadata outline excluded"""
    b = opml[opml.find(b"<body>"):]
    k = b.find(b'<outline text="&gt;&gt;Metadata&lt;&lt;">')
    if k >= 0: b = b[:k]
    seq = ""
    for m in TAG.finditer(b):
        if m.group(0).startswith(b"</"): seq += "C"
        elif m.group(1): seq += "OC"
        else: seq += "O"
    return seq


def opml_items(opml):
    """(text, _note) of every outline element, decoded by expat"""
    items = []
    p = expat.ParserCreate()
    def start(name, attrs):
        if name == "outline": items.append((attrs.get("text"), attrs.get("_note")))
    p.StartElementHandler = start
    p.Parse(opml, True)
    return items


def docs_part(rep, tier, rng, bad):
    drv = common.extract_driver()
    n = 250 if tier == "quick" else 20000
    docs = [gen_doc(rng, nested=(i % 4 != 3)) for i in range(n)]
    exp = tchk.convert([(d, "opml", BASE, 0) for d, _ in docs])
    mlines = ["%s|%s" % ("P" if info["preamble"] else "-", ",".join(map(str, info["levels"]))) for _, info in docs]
    model = common.run_lines(drv, mlines, args=["outline"], timeout=600)
    # re-import: OPML text -> MultiMarkdown text, then render both
    back = tchk.convert([(r.out, "mmd", BASE | E["opml_in"], 0) for r in exp], data=True)   # only the *_to_data API returns the text
    jobs = []
    for (d, _), b in zip(docs, back):
        jobs.append((d, "html", BASE | E["complete"], 0)); jobs.append((b.out, "html", BASE | E["complete"], 0))
    html = tchk.convert(jobs)
    ntags = nlev = nloss = nrender = 0
    for k, ((d, info), r, m, b) in enumerate(zip(docs, exp, model, back)):
        case = dict(doc=d.decode(), levels=info["levels"], preamble=bool(info["preamble"]))
        if not r.ok() or not b.ok():
            bad.append(("impl-crash", "OPML export or import failed: %s / %s" % (r.raw[:100], b.raw[:100]), case)); continue
        mp = m.split(" ")
        mtags, mback, nested = (mp + ["", "", ""])[:3] if info["levels"] or info["preamble"] else ("", "", "1")
        # (a) nesting written by the exporter == model
        tags = opml_tags(r.out)
        if tags != mtags:
            bad.append(("model-vs-impl:export-tags", "correspondence broken: outline nesting %s, OpmlModel.export_tags %s" % (tags, mtags), case)); continue
        ntags += 1
        # (b) no body character lost: items carry exactly the titles and the source text between headings
        try:
            items = opml_items(r.out)
        except expat.ExpatError as e:
            bad.append(("opml-not-xml", "the exported OPML is not well-formed: %s" % e, case)); continue
        body_items = [it for it in items if it[0] != ">>Metadata<<"]
        if info["meta"]:
            body_items = body_items[:len(body_items) - len(info["meta"])]
        want = ([(">>Preamble<<", info["preamble"])] if info["preamble"] else []) + list(zip(info["titles"], info["bodies"]))
        norm = lambda s: s    # expat normalises nothing inside attribute values that are written as character references
        got = [(t, nnote) for t, nnote in body_items]
        if [w[0] for w in want] != [g[0] for g in got]:
            bad.append(("title-lost", "outline titles %r differ from the headings %r" % ([g[0] for g in got], [w[0] for w in want]), case)); continue
        lost = [(w, g) for w, g in zip(want, got) if w[1] != (g[1] or "")]
        if lost and len(lost) == 1 and lost[0][0] is want[-1] and lost[0][0][1].rstrip(" \t\r\n\\") == (lost[0][1][1] or "").rstrip(" \t\r\n\\") and lost[0][0][1].startswith(lost[0][1][1] or ""):
            # (a backslash before a line ending is a hard break, i.e. white space for this purpose)
            rep.violation("eof-trailing-whitespace-dropped", "white space at the very end of the document is not stored in the last item", dict(case=case))
            lost = []
        if lost:
            bad.append(("body-lost", "section text stored in the outline differs from the source: want %r got %r" % (lost[0][0][1], lost[0][1][1]), case)); continue
        nloss += 1
        # (c) levels after re-import == model's import of the model's tags
        lv = [len(x) for x in re.findall(rb'^(#+) .* #+\r?$', b.out, re.M)]
        setext = len(re.findall(rb'^(======|------)\r?$', b.out, re.M))
        if not setext:
            want_lv = [int(x) for x in mback.split(",") if x][1 if info["preamble"] else 0:]
            if lv != want_lv:
                bad.append(("model-vs-impl:import-levels", "correspondence broken: heading levels after import %s, OpmlModel.import_levels %s" % (lv, want_lv), case)); continue
            nlev += 1
            if nested == "1" and lv != info["levels"]:
                bad.append(("levels-changed", "properly nested headings %s came back as %s" % (info["levels"], lv), case)); continue
        # (d) renders identically (properly nested headings, single-line metadata)
        if nested == "1":
            h1, h2 = html[2 * k], html[2 * k + 1]
            if h1.out != h2.out:
                case["reimported"] = b.out.decode("utf-8", "replace")
                if eof_newline(d, h2.out):
                    bad.append(("eof-without-line-ending-gains-one", "a document without a final line ending comes back from the import with one; it renders like the original "
                                "with a line ending appended, which differs where that line ending is content (end of a code block, final backslash)", case)); continue
                bad.append(("render-differs", "HTML of the re-imported text differs from HTML of the original", case)); continue
            nrender += 1
    rep.cov["documents"] = len(docs)
    rep.cov["export_tag_sequences_matching_model"] = ntags
    rep.cov["import_level_sequences_matching_model"] = nlev
    rep.cov["documents_with_exact_section_text"] = nloss
    rep.cov["documents_rendering_identically_after_roundtrip"] = nrender
    return ntags


def run(rep, tier, seed):
    rep.cov["trusted_base"] = TRUSTED
    tr_escapers.main()
    res = common.coq_prove("Properties_C14")
    rep.add_obligations(res, "Properties_C14")
    rng = random.Random("C14-%d" % seed)
    bad = []
    n1 = unesc_part(rep, tier, rng, bad)
    n2 = docs_part(rep, tier, rng, bad)
    rep.cov["evaluations"] = rep.cov["unesc_cases"] * 3 + rep.cov["documents"] * 4
    rep.cov["traces_validated_against_impl"] = n1 + n2
    rep.cov["distinct_nontrivial"] = n2
    rep.cov["rule"] = ("decoder: strings of entity fragments (complete, truncated, unknown references, lone '&' incl. at the end), random bytes and every single byte: model == print_xml_as_text, and "
                       "unescape(escape(s)) == s on the implementation for the OPML and ITMZ escapers; documents: 0..7 headings (ATX, closed ATX, Setext; three quarters properly nested, one quarter arbitrary "
                       "levels), optional preamble, 0..3 metadata keys, bodies with reserved characters, tabs, code, lists, quotes, empty sections, LF or CRLF: outline tag sequence == export_tags, "
                       "item titles / notes == headings / exact source text between headings (expat), heading levels after import == import_levels, HTML(original) == HTML(export+import) when properly nested")
    rep.cov["samples"] = ["P|1,2,2,1"]
    rep.assumptions += TRUSTED[1:]
    seen = set()
    for kind, what, c in bad:
        if kind in seen: continue
        seen.add(kind)
        nofail = kind.startswith("model-vs-impl")
        rep.violation(kind, what, dict(case=c, no_failing_input=nofail, broken="correspondence OpmlModel.v <-> xml.c / opml.c / opml-reader.c" if nofail else None))
    if not res["ok"] and not [b for b in bad if not b[0].startswith("model-vs-impl")]:
        rep.violation("proof-broken", "Properties_C14 no longer checks: %s" % res["failed"],
                      dict(no_failing_input=True, broken="theorems of coq/props/Properties_C14.v (%s)" % res["failed"], coq_output=res["output"][-3000:]))


def replay(rep, r):
    rep.cov.update(evaluations=1, distinct_nontrivial=1, obligations=1, discharged=1, checker_cmd="replay", rule="replay")
    c = r.get("case", r)
    rep.cov["samples"] = [str(c)[:200]]
    if "hex" in c:
        har = common.build_harness("asan", "bytesfn"); drv = common.extract_driver()
        s = c["hex"] or "-"
        if c["fn"] == "unesc":
            a = common.run_lines(drv, ["unesc " + s], args=["bytes"])[0]; b = common.run_lines(har, ["unesc " + s])[0]
            print("model", a, "impl", b)
            if a != b: rep.violation("model-vs-impl:unesc", "differs", r)
        else:
            e = common.run_lines(har, ["%s %s" % (c["fn"], s)])[0]; u = common.run_lines(har, ["unesc " + (e or "-")])[0]
            print("escaped", bytes.fromhex(e), "decoded", bytes.fromhex(u))
            if u != c["hex"]: rep.violation("roundtrip:" + c["fn"], "unescape(escape(s)) != s", r)
        return
    d = c["doc"].encode()
    o = tchk.convert([(d, "opml", BASE, 0)])[0]
    print(o.out.decode("utf-8", "replace"))
    b = tchk.convert([(o.out, "mmd", BASE | E["opml_in"], 0)], data=True)[0]
    print("---- re-imported\n" + b.out.decode("utf-8", "replace"))
    h = tchk.convert([(d, "html", BASE | E["complete"], 0), (b.out, "html", BASE | E["complete"], 0)])
    if h[0].out != h[1].out:
        rep.violation("eof-without-line-ending-gains-one" if eof_newline(d, h[1].out) else "render-differs", "HTML differs after the round trip", r)
