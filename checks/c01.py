"""C01  Memory-safe, crash-free conversion of arbitrary input (DESIGN.md, C01)."""
import os, random, re, shutil
import common, tchk, gen_md

LEVEL = "proof"
TRUSTED = ["Coq 8.16.1 kernel + vm_compute",
           "tools/tr_bounds.py (regex recognition of the table_alignment declaration, the recording guard and the guards dominating each indexed read)",
           "model/TableAlignModel.v tied to writer.c by comparing the LaTeX column specification with the extracted model on separator lines of 1..200 cells",
           "the bounds theorems of C19, C18, C02, C13, C15 with their own trusted bases",
           "WHOLE-PROGRAM MEMORY SAFETY IS NOT PROVED: every other line of the library is only exercised under AddressSanitizer + UndefinedBehaviorSanitizer (gcc), with the token pool and with "
           "-DDISABLE_OBJECT_POOL, on generated inputs - testing"]
E = tchk.EXT
ALLBITS = ["compat", "complete", "snippet", "smart", "notes", "nolabels", "process_html", "nometa", "obfuscate", "critic", "accept", "reject", "random_foot", "random_labels"]
FORMATS = ["html", "epub", "latex", "beamer", "memoir", "fodt", "odt", "textbundle", "bundlezip", "opml", "itmz", "mmd"]
ALIGN = [(":--", "l"), ("--:", "r"), (":-:", "c"), ("---", "l"), (":--+", "L"), ("--:+", "R"), (":-:+", "C"), ("--+", "L"), ("-", "l"), (":-", "l")]


# ---------------------------------------------------------------- table alignment: model vs LaTeX column specification
def align_part(rep, tier, rng, bad):
    drv = common.extract_driver()
    widths = list(range(1, 60)) + [63, 64, 65, 100, 127, 128, 200]
    if tier != "quick": widths = widths * 4
    cases = []
    for w in widths:
        cells = [rng.choice(ALIGN) for _ in range(w)]
        doc = "|" + "|".join("h%d" % i for i in range(w)) + "|\n|" + "|".join(c[0] for c in cells) + "|\n|" + "|".join("x" for _ in range(w)) + "|\n"
        cases.append((doc.encode(), cells))
    res = tchk.convert([(d, "latex", E["smart"], 0) for d, _ in cases])
    letter = {"l": 108, "r": 114, "c": 99, "L": 76, "R": 82, "C": 67, "N": 78, "n": 110}
    lines = [",".join(str(letter[c[1]]) for c in cells) for _, cells in cases]
    model = common.run_lines(drv, lines, args=["talign"], timeout=300)
    ok = 0
    for (d, cells), r, m in zip(cases, res, model):
        case = dict(doc=d.decode(), format="latex", ext=E["smart"], lang=0, variant="asan")
        if not r.ok():
            bad.append(("sanitizer:table", "a table with %d columns: %s" % (len(cells), r.stderr[:300] or r.raw[:200]), case)); continue
        mm = re.search(rb"\\begin\{tabulary\}\{\\textwidth\}\{@\{\}([A-Za-z]*)@\{\}\}", r.out)
        got = mm.group(1).decode() if mm else None
        want = "".join({"N": "L", "n": "l"}.get(chr(int(x)), chr(int(x))) for x in m.split(",") if x) if m != "OOB" else "OOB"
        if got != want:
            bad.append(("model-vs-impl:table-alignment", "column specification %r, TableAlignModel %r (%d columns)" % (got, want, len(cells)), case))
        else: ok += 1
    rep.cov["table_alignment_cases_matching_model"] = ok
    return ok


# ---------------------------------------------------------------- generated inputs
def stress_docs(rng):
    out = []
    # many abbreviation / glossary definitions: the search trie outgrows its first allocation
    for n in (10, 30, 60, 120):
        terms = ["".join(rng.choice("abcdefghijklmnopqrstuvwxyz") for _ in range(rng.randint(6, 14))) for _ in range(n)]
        d = "Text " + " ".join(terms[:20]) + ".\n\n" + "\n".join("[>%s]: expansion %d" % (t, i) for i, t in enumerate(terms[:n // 2]))
        d += "\n\n" + "\n".join("[?%s]: glossary entry %d" % (t, i) for i, t in enumerate(terms[n // 2:])) + "\n"
        out.append(d)
    # wide tables
    for w in (47, 48, 49, 60, 130):
        out.append("|" + "a|" * w + "\n|" + ":-:|" * w + "\n|" + "1|" * w + "\n[Caption %d]\n" % w)
    # long URLs, titles, attributes, empty attribute values
    for n in (990, 1000, 1001, 1100, 5000):
        out.append("![a](" + "u" * n + ".png) and [l](http://" + "h" * n + ".example/)\n\n![r][ref]\n\n[ref]: " + "p" * n + ".png \"" + "t" * n + "\" width=\n")
    out.append("![a](x.png key=) ![b](y.png width= height=\"\") [c](z key=)\n\n[d]: u key=\n[e]: v width=10px class=\n")
    # many notes and links
    out.append("".join("Note%d[^n%d] cite[#c%d] gl[?g%d].\n\n" % (i, i, i, i) for i in range(150)) + "".join("[^n%d]: t%d\n[#c%d]: c%d\n[?g%d]: g%d\n" % (i, i, i, i, i, i) for i in range(150)))
    # moderately deep nesting of several constructs
    out.append("> " * 200 + "deep\n"); out.append("".join("  " * i + "* item\n" for i in range(150)))
    out.append("[" * 300 + "x" + "]" * 300 + "\n" + "*" * 301 + "y" + "*" * 300 + "\n" + "{++" * 100 + "z" + "++}" * 100 + "\n")
    # unterminated constructs, CR/LF mixes, invalid UTF-8
    out.append("```\nunterminated fence\n\n<div>\nunterminated html\n\n[unterminated](link\n\n**bold *mixed\n\n$$math\n\n{{unterminated\n")
    out.append("a\rb\r\nc\n\rd\r\r\n\n\r\n# h\r## h2\r\n===\r---\n")
    out.append(b"caf\xc3 \xa9 \xff\xfe \xf0\x9f\x98 \x80\x80 \xed\xa0\x80 \xc0\xaf [\xe9](\xe8) ![\xe0](\xe1)\n\n# \xfc\n\n| \xf6 |\n|---|\n".decode("latin-1"))
    out.append("Title: T\nCSS: " + "c" * 2000 + ".css\nHTML Header: <script>" + "s" * 3000 + "</script>\nBase Header Level: 99999999999999999999\nLanguage: " + "x" * 500 + "\n\n# h\n")
    out.append("{{TOC}}\n\n{{TOC:2-3}}\n\n{{TOC:9-1}}\n\n{{TOC:-}}\n\n" + "".join("#" * (i % 6 + 1) + " Heading %d\n\n" % i for i in range(60)))
    out.append("Term\n: def\n: def2\n\n" * 50 + "~~~\ncode\n~~~\n" + "<!-- c -->\n" * 20 + "$a$ \\(b\\) \\[c\\] $$d$$ ^sup^ ~sub~ x^2 y~3 H~2~O\n")
    return [d.encode("latin-1", "replace") if isinstance(d, str) else d for d in out]


def gen_cases(rng, n):
    docs = stress_docs(rng)
    corpus = list(gen_md.corpus_docs())
    for i in range(n):
        k = rng.random()
        if k < 0.3: d = gen_md.mixed(rng)
        elif k < 0.5: d = gen_md.soup(rng)
        elif k < 0.7 and corpus: c_ = rng.choice(corpus); d = gen_md.mutate(rng, c_.decode("utf-8", "replace") if isinstance(c_, bytes) else c_)
        else: d = gen_md.structured(rng)
        if isinstance(d, str): d = d.encode("utf-8", "replace")
        docs.append(d[:20000].replace(b"\0", b" "))
    cases = []
    for d in docs:
        for _ in range(2):
            ext = 0
            for b in ALLBITS:
                if rng.random() < 0.3: ext |= E[b]
            if rng.random() < 0.7: ext |= E["smart"] | E["notes"] | E["critic"]
            cases.append((d, rng.choice(FORMATS), ext, rng.randint(0, 6)))
    return cases


def import_cases(rng, n):
    """OPML / ITMZ-mapdata texts: exports of generated documents, mutated byte-wise, plus hand-made attribute shapes"""
    base = [gen_md.structured(rng) for _ in range(max(4, n // 8))]
    base = [b if isinstance(b, bytes) else b.encode() for b in base]
    # (longer outlines too: the imported text is then much shorter than the outline it replaces)
    base += [b"\n\n".join(rng.choice(base) for _ in range(rng.randint(2, 12))) for _ in range(max(2, len(base) // 2))]
    exp = tchk.convert([(b, "opml", E["smart"], 0) for b in base])
    texts = [r.out for r in exp if r.ok()]
    hand = [b'<?xml version="1.0"?><opml version="1.0"><body><outline a="x" text="T" _note="n"></outline></body></opml>',
            b'<opml><body><outline text="" _note=""/><outline TEXT="U" _NOTE="v"/><outline text=x _note=\'q\'/><outline text="&#10;&amp;&#"/></body></opml>',
            b'<opml><head><title>&</title></head><body><outline text="&gt;&gt;Metadata&lt;&lt;"><outline text="k" _note="v"/><outline/></outline></body></opml>',
            b'<opml><body>' + b'<outline text="d">' * 300 + b'</outline>' * 300 + b'</body></opml>',
            b'<opml><body><outline text="' + b"A" * 5000 + b'" _note="' + b"&amp;" * 2000 + b'"/></body></opml>',
            b'<opml><body><outline verylongattributename_' + b"x" * 300 + b'="1" t="2" text="T"/></body></opml>', b"<opml>", b"<", b"", b"<outline text=\"", b'<opml><body><outline text="a" _note="b"']
    out = []
    for t in hand: out.append(t)
    for i in range(n):
        t = bytearray(rng.choice(texts)) if texts else bytearray(b"<opml/>")
        for _ in range(rng.randint(1, 6)):
            if not t: break
            p = rng.randrange(len(t)); k = rng.random()
            if k < 0.4: t[p] = rng.choice(b'<>"\'&=/ \n#;')
            elif k < 0.7: del t[p:p + rng.randint(1, 20)]
            else: t[p:p] = rng.choice([b'<outline text="x"', b"&#", b'="', b"</outline>", b"<outline/>", b"\xff", b"&amp;amp;"])
        out.append(bytes(t).replace(b"\0", b" "))
    res = [(t, rng.choice(["mmd", "html", "opml"]), E["smart"] | E[rng.choice(["opml_in", "itmz_in"])], 0) for t in out]
    # real ITMZ archives: the tool's own exports, archives whose mapdata.xml has a length at / around the buffer sizes the
    # reader starts from and grows to (1024, 2048, 4096 ...), members stored and deflated, and byte-mutated archives
    import io, zipfile
    def archive(xml, method, name="mapdata.xml", extra=()):
        bio = io.BytesIO()
        with zipfile.ZipFile(bio, "w", method) as z:
            for n, b in extra: z.writestr(n, b)
            z.writestr(name, xml)
        return bio.getvalue()
    zips = [r.out for r in tchk.convert([(b, "itmz", E["smart"], 0) for b in base[:max(4, n // 16)]]) if r.ok()]
    maps = []
    for zb in zips[:max(2, n // 40)]:
        try: maps.append(tchk.members(zb)[0]["mapdata.xml"])
        except Exception: pass
    if not maps: maps = [b'<iThoughts>\n<topic uuid="1" text="T" note="n"></topic></iThoughts>\n']
    sizes = [1022, 1023, 1024, 1025, 2047, 2048, 2049, 4095, 4096, 4097, 8192, 0, 1, 2, 3]
    for i in range(max(len(sizes), n // 6)):
        x = rng.choice(maps); want = sizes[i] if i < len(sizes) else rng.choice(sizes[:11]) + rng.choice([0, 0, -1, 1])
        if len(x) < want:
            x = x.replace(b"<iThoughts>", b"<iThoughts>" + b" " * (want - len(x)), 1) if rng.random() < 0.5 else x + b"\n" * (want - len(x))
        else:
            x = x[:want]
        zips.append(archive(x, rng.choice([zipfile.ZIP_STORED, zipfile.ZIP_DEFLATED]),
                            extra=rng.choice([(), (("assets/a.png", b"x" * 10),), (("mapdata.xml.bak", b"y"),)])))
    zips.append(archive(b"<iThoughts/>", zipfile.ZIP_STORED, name="other.xml"))
    for i in range(n // 6):
        t = bytearray(rng.choice(zips))
        for _ in range(rng.randint(1, 4)):
            p = rng.randrange(len(t)); t[p] = rng.randrange(256)
        zips.append(bytes(t))
    res += [(zb, rng.choice(["mmd", "html", "opml", "itmz"]), E["smart"] | E["itmz_in"], 0) for zb in zips]
    return res


def crash_sig(o):
    """what went wrong, without addresses"""
    m = re.search(r"(AddressSanitizer: [a-z-]+|runtime error: [^\n]{0,60}|SEGV|stack-overflow)", o) or re.search(r"(rc=[-a-z0-9]+)", o)
    return m.group(1)[:60] if m else o[:40]


def shrink(case, variant, data):
    d, f, e, l = case
    def failing(x):
        r = tchk.convert([(x, f, e, l)], variant=variant, data=data)[0]
        return not r.ok()
    return tchk.shrink_doc(d, failing)


def run(rep, tier, seed):
    rep.cov["trusted_base"] = TRUSTED
    import tr_bounds
    terr = None
    try: rep.cov["translated"] = {k: str(v)[:200] for k, v in tr_bounds.main().items()}
    except Exception as e: terr = "%s: %s" % (type(e).__name__, e)
    res = common.coq_prove("Properties_C01")
    if terr: res = dict(res, ok=False, failed="translation failed (%s)" % terr)
    rep.add_obligations(res, "Properties_C01")
    rng = random.Random("C01-%d" % seed)
    bad = []
    n1 = align_part(rep, tier, rng, bad) if not terr else 0
    n = 150 if tier == "quick" else 20000
    cases = gen_cases(rng, n)
    imps = import_cases(rng, 60 if tier == "quick" else 6000)
    total = 0
    crashes = {}
    for variant in ("asan", "asan-nopool"):
        for group, data in ((cases, False), (imps, True)):
            rs = tchk.convert(group, variant=variant, data=data)
            total += len(rs)
            for c, r in zip(group, rs):
                if not r.ok():
                    sig = re.search(r"(AddressSanitizer: [a-z-]+|runtime error: [^\n]{0,60}|SEGV|stack-overflow)", r.stderr + r.raw)
                    key = "sanitizer:%s:%s" % (variant, sig.group(1)[:50] if sig else "status=%s" % r.status)
                    crashes.setdefault(key, []).append((c, data, variant, (r.stderr or r.raw)[-600:]))
    # every entry point on the same inputs (metadata queries, manifest, both convert families), both pool configurations
    api_n = 0
    rundir = os.path.join(common.BUILD, "run", "C01.%d" % os.getpid())
    os.makedirs(rundir, exist_ok=True)
    try:
        sub = rng.sample(cases, min(len(cases), 60 if tier == "quick" else 1200))
        lines = ["%d %d %d %s %s" % (tchk.FMT[f], e, l, d.hex() or "-", rng.choice([b"title", b"author", b"", b"x" * 300, b"\xff"]).hex() or "-") for d, f, e, l in sub if f not in ("textbundle",)]
        for variant in ("asan", "asan-nopool"):
            har = common.build_harness(variant, "api")
            outs = common.run_lines_par(har, lines, args=[rundir], timeout=3600)
            api_n += len(outs)
            for ln, o in zip(lines, outs):
                if o.startswith("CRASH"):
                    crashes.setdefault("sanitizer:api:%s:%s" % (variant, crash_sig(o)), []).append(((bytes.fromhex(ln.split(" ")[3]) if ln.split(" ")[3] != "-" else b"", "api", 0, 0), False, variant, o))
        # CriticMarkup accept / reject on whole strings and ranges; metadata update
        soup = [gen_md.soup(rng) for _ in range(100 if tier == "quick" else 2000)]
        soup = [s if isinstance(s, bytes) else s.encode("utf-8", "replace") for s in soup]
        bl = []
        for s in soup:
            s = s[:3000].replace(b"\0", b" ")
            bl.append("accept %s" % (s.hex() or "-")); bl.append("reject %s" % (s.hex() or "-"))
            a = rng.randint(0, len(s) + 3); b = rng.randint(0, len(s) + 3)
            bl.append("accept_range %s %d %d" % (s.hex() or "-", a, b)); bl.append("reject_range %s %d %d" % (s.hex() or "-", a, b))
        for variant in ("asan", "asan-nopool"):
            har = common.build_harness(variant, "bytesfn")
            outs = common.run_lines_par(har, bl, timeout=3600)
            api_n += len(outs)
            for ln, o in zip(bl, outs):
                if o.startswith("CRASH"):
                    crashes.setdefault("sanitizer:critic:%s:%s" % (variant, crash_sig(o)), []).append(((bytes.fromhex(ln.split(" ")[1]) if ln.split(" ")[1] != "-" else b"", "critic", 0, 0), False, variant, o + " :: " + ln[:40]))
        ml = []
        for s in soup[:len(soup) // 2]:
            s = (rng.choice([b"Title: x\nAuthor: y\n\n", b"title:\n", b"---\nk: v\n---\n", b"", b"k:v"]) + s[:1500]).replace(b"\0", b" ")
            key = rng.choice([b"title", b"author", b"new key", b"k", b"\xc3\xa9", b"a" * 200])
            ml.append("Q %s %s" % (s.hex() or "-", key.hex())); ml.append("U %s %s %s" % (s.hex() or "-", key.hex(), rng.choice([b"v", b"", b"multi\nline", b"x" * 500]).hex() or "-"))
        # an imported outline replaces the engine's text buffer: updating metadata on that engine afterwards must see the new buffer's size
        for t, f, e, l in sorted(imps, key=lambda c: -len(c[0]))[:20] + rng.sample(imps, min(len(imps), 30 if tier == "quick" else 1500)):
            for how in (0, 1):
                ml.append("I %s %s %s %d %d" % (t.hex() or "-", rng.choice([b"title", b"k", b"new key"]).hex(),
                                                (b"v" * rng.choice([1, 600, 1100, 2100, 4200, 9000])).hex(), e, how))
        for variant in ("asan", "asan-nopool"):
            har = common.build_harness(variant, "meta")
            outs = common.run_lines_par(har, ml, timeout=3600)
            api_n += len(outs)
            for ln, o in zip(ml, outs):
                if o.startswith("CRASH"):
                    crashes.setdefault("sanitizer:meta:%s:%s" % (variant, crash_sig(o)), []).append(((bytes.fromhex(ln.split(" ")[1]) if ln.split(" ")[1] != "-" else b"", "meta", 0, 0), False, variant, o + " :: " + ln[:20]))
    finally:
        shutil.rmtree(rundir, ignore_errors=True)
    # the scans around emphasis markers: model with checked reads == compiled function under ASan (exact-size text)
    from checks import ambi
    abad, an = ambi.part(rep, tier, rng, quick_n=1500, thorough_n=60000, wanted=("ambidextrous-read-outside-text", "ambidextrous-model-reads-outside"))
    ambi_reported = False
    for kind, what, rp in abad:
        if kind != "emphasis-flags-depend-on-context" and not ambi_reported:
            ambi_reported = rep.violation(kind, what, rp) or ambi_reported
    rep.cov["evaluations"] = total + api_n + an + rep.cov.get("table_alignment_cases_matching_model", 0)
    rep.cov["conversions_under_sanitizers"] = total
    rep.cov["other_entry_point_calls_under_sanitizers"] = api_n
    rep.cov["traces_validated_against_impl"] = n1
    rep.cov["distinct_nontrivial"] = len(set(c[0] for c in cases))
    rep.cov["rule"] = ("table alignment: separator lines of 1..200 cells with all alignment forms, LaTeX column specification == extracted model; sanitizers (ASan+UBSan, pool and no-pool builds): "
                       "structured / soup / mutated-corpus / mixed documents and stress documents (10..120 abbreviation+glossary definitions, 47..130 column tables, 990..5000 byte URLs and titles, empty attribute "
                       "values, 150 notes, nesting 100..300, unterminated constructs, CR/LF mixes, invalid UTF-8, huge metadata, TOC ranges) x 12 formats x random subsets of 14 extension bits x 7 languages; "
                       "OPML / ITMZ import of exported and byte-mutated outlines and hand-made attribute shapes; all API entry points (harness/api.c), CriticMarkup accept/reject incl. ranges, metadata query/update")
    rep.cov["samples"] = [cases[0][0][:200].decode("latin-1")]
    rep.assumptions += TRUSTED[1:]
    for kind, what, c in bad:
        rep.violation(kind, what, dict(case=c, no_failing_input=kind.startswith("model-vs-impl"), broken="correspondence TableAlignModel.v <-> writer.c" if kind.startswith("model-vs-impl") else None))
    for key, lst in list(crashes.items())[:8]:
        (c, data, variant, err) = lst[0]
        d = c[0]
        if c[1] in tchk.FMT:
            try: d = shrink(c, variant, data)
            except Exception: pass
        rep.violation(key, "invalid memory access / undefined operation / crash (%d inputs): %s" % (len(lst), err[:900]),
                      dict(case=dict(doc_hex=d.hex(), format=c[1], ext=c[2], lang=c[3], variant=variant, data=data)))
    if not res["ok"] and not bad and not crashes and not ambi_reported:
        rep.violation("proof-broken", "Properties_C01 no longer checks: %s" % res["failed"],
                      dict(no_failing_input=True, broken="obligations of coq/props/Properties_C01.v (%s)" % res["failed"], coq_output=res.get("output", "")[-3000:]))


def replay(rep, r):
    rep.cov.update(evaluations=1, distinct_nontrivial=1, obligations=1, discharged=1, checker_cmd="replay", rule="replay")
    if str(r.get("key", "")).startswith(("ambidextrous", "emphasis-flags")):
        from checks import ambi
        return ambi.replay(rep, r)
    c = r.get("case", r)
    d = bytes.fromhex(c["doc_hex"]) if "doc_hex" in c else c["doc"].encode()
    rep.cov["samples"] = [d[:200].decode("latin-1")]
    if c.get("format") not in tchk.FMT:
        print("entry point:", c.get("format")); return
    o = tchk.convert([(d, c["format"], c.get("ext", 0), c.get("lang", 0))], variant=c.get("variant", "asan"), data=c.get("data", False))[0]
    print(o.status, o.done, (o.stderr or o.raw)[-1500:])
    if not o.ok(): rep.violation("sanitizer", "crash reproduced", r)
