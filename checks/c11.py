"""C11  Metadata is reported, extracted and updated faithfully (DESIGN.md, C11)."""
import os, random, re, subprocess, collections
import common, tr_escapers, tchk
from tr_lemon import TranslateError

LEVEL = "proof"
TRUSTED = ["Coq 8.16.1 kernel", "model/MetaModel.v + LabelModel.v: hand model of the first-block metadata extraction at byte level (key lines starting at column 0, continuation lines, "
           "blank line / EOF termination); the general line classifier is outside the model; tied by correspondence on the valid stream",
           "extraction + ocaml/driver.ml; harness/meta.c", "update / read-back / frame properties and the CLI -m/-e clause are decided by an executable oracle on generated blocks and update sequences (testing)"]
KEYWORDS = ["Title", "Author", "Date", "Base Header Level", "x-custom_key", "My.Key", "CSS", "key 2", "A", "Quotes Language", "Key-With-Dash", "k9"]
VALS = ["Value", "multi word value", "a & b: c", "ümlaut 日本 text", "x", "see http://x.y/z", "50% <done> \"q\"", "v.1-2_3", "C:\\path", "émigré"]


def norm_key(k):
    return re.sub(r"[^0-9a-z._:\-\x80-\xff]", "", k.lower())


def norm_val(v):
    return re.sub(r"[ \t\n\r]+", " ", v).strip()


def gen_block(rng):
    """(source text, [(raw key, expected normalised key, expected value)], terminator kind)"""
    n = rng.randint(1, 5)
    keys = rng.sample(KEYWORDS, n)
    lines, exp = [], []
    for ki, k in enumerate(keys):
        kk = k + rng.choice(["", "", " ", "\t"])                   # blanks before the colon are allowed
        sep = rng.choice([" ", "", "\t", "  "])
        v = rng.choice(VALS) + rng.choice(["", "", "  "])          # trailing blanks
        # a key after the first may have an empty / blank value (the first line of a document is metadata only with a value);
        # most often the last key, where the value is followed by the end of the block
        empty = ki > 0 and rng.random() < (0.3 if ki == n - 1 else 0.08)
        if empty:
            v = rng.choice(["", "", " ", "  "])
        val_lines = [v]
        for _ in range(0 if empty else rng.choice([0, 0, 0, 1, 2])):
            c = rng.choice(["continued here", "more & more", "日本 again"])
            val_lines.append(c)
            lines_c = rng.choice(["    ", "\t", ""]) + c
            v = v + "\n" + lines_c
        lines.append(kk + ":" + sep + v)
        exp.append((k, norm_key(k), norm_val(" ".join([val_lines[0]] + val_lines[1:]))))
    nl = rng.choice(["\n", "\n", "\r\n"]) if rng.random() < 0.15 else "\n"
    block = "\n".join(lines).replace("\n", nl)
    term = rng.choice(["blank", "blank", "eof-nl", "eof"])
    if term == "blank":
        src = block + nl + nl + rng.choice(["", "body text\n", "# Head\n\ntext *em*\n", "notakey: in body\n", "    code\n"])
    elif term == "eof-nl":
        src = block + nl
    else:
        src = block
    return src, exp, term, len(block.encode()) + (len(nl) if term != "eof" else 0)


def run(rep, tier, seed):
    rep.cov["trusted_base"] = TRUSTED
    tr_err = None
    try:
        tr_escapers.main()
    except TranslateError as e:
        tr_err = str(e)
    res = common.coq_prove("Properties_C11") if not tr_err else dict(ok=False, theorems=["meta_key_recognised_exactly"], failed=["translator: " + tr_err], assumptions={}, output=tr_err)
    rep.add_obligations(res, "Properties_C11")
    rng = random.Random("C11-%d" % seed)
    drv = common.extract_driver(); har = common.build_harness("asan", "meta")
    blocks = [gen_block(rng) for _ in range(700 if tier == "quick" else 20000)]
    cases, expect = [], []
    for src, exp, term, endoff in blocks:
        probe = rng.choice(exp)[0] if rng.random() < 0.8 else "nokey"
        probe_sp = "".join(c.upper() if rng.random() < 0.3 else c for c in probe)       # case / spacing insensitive lookup
        cases.append("Q %s %s" % (src.encode().hex(), probe_sp.encode().hex()))
        e = dict((k, v) for _, k, v in exp)
        expect.append((endoff, [k for _, k, _ in exp], e.get(norm_key(probe_sp))))
    model = common.run_lines_par(drv, cases, args=["meta"]); impl = common.run_lines_par(har, cases)
    bad, ncorr = [], 0
    hist = collections.Counter(b[2] for b in blocks)
    for (src, exp, term, endoff), c, (eend, ekeys, eval_), m, i in zip(blocks, cases, expect, model, impl):
        if i.startswith("CRASH"):
            bad.append(("impl-crash", "metadata query crashed: " + i[:200], c, src)); continue
        f = i.split(" ")
        has, end, keys, val = f[0], int(f[1]), bytes.fromhex(f[2]).decode("utf-8", "replace") if f[2] != "-" else "", f[3]
        got_val = bytes.fromhex(val).decode("utf-8", "replace") if val not in ("NULL", "-") else ("" if val == "-" else None)
        if has != "1":
            bad.append(("metadata-not-detected", "a well-formed metadata block is not reported (%s)" % term, c, src)); continue
        if end != eend:
            bad.append(("end-offset", "end offset %d does not delimit the block (expected %d, %s)" % (end, eend, term), c, src)); continue
        if keys.split("\n")[:-1] != ekeys:
            bad.append(("keys", "key listing %r differs from the keys written %r" % (keys.split("\n")[:-1], ekeys), c, src)); continue
        if got_val != eval_:
            bad.append(("value:%s" % term, "value returned %r is not the value written %r (%s)" % (got_val, eval_, term), c, src)); continue
        if m != i:
            bad.append(("model-vs-impl", "correspondence broken: MetaModel.v vs mmd.c: model=%s impl=%s" % (m[:120], i[:120]), c, src)); continue
        ncorr += 1
    # ---- update sequences (oracle: read back; others and body unchanged); every call is also put to the model of the update function
    nupd = 0
    ucalls = []
    for src, exp, term, endoff in blocks[: (150 if tier == "quick" else 4000)]:
        if term == "eof":
            continue                              # adding a key to a block that ends at EOF without newline: outside the documented use
        cur = src; vals = dict((k, v) for _, k, v in exp); body = src.encode()[endoff:]
        for _ in range(rng.randint(1, 4)):
            k = rng.choice([e[0] for e in exp] + ["New Key", "Another"])
            v = rng.choice(VALS)
            out = common.run_lines(har, ["U %s %s %s" % (cur.encode().hex(), k.encode().hex(), v.encode().hex())])[0]
            nupd += 1
            ucalls.append(("U %s %s %s" % (cur.encode().hex() or "-", k.encode().hex(), v.encode().hex()), out, cur, src))
            if out.startswith("CRASH"):
                bad.append(("impl-crash", "update crashed: " + out[:200], cur, src)); break
            new = bytes.fromhex(out).decode("utf-8", "replace") if out != "-" else ""
            vals[norm_key(k)] = norm_val(v)
            qs = ["Q %s %s" % (new.encode().hex(), kk.encode().hex()) for kk in vals]
            rs = common.run_lines(har, qs)
            okk = True
            for kk, r in zip(vals, rs):
                f = r.split(" ")
                gv = bytes.fromhex(f[3]).decode("utf-8", "replace") if len(f) > 3 and f[3] not in ("NULL", "-") else ("" if len(f) > 3 and f[3] == "-" else None)
                if gv != vals[kk]:
                    bad.append(("update-readback" if kk == norm_key(k) else "update-changed-other-key",
                                "after updating %r to %r, key %r reads %r instead of %r" % (k, v, kk, gv, vals[kk]), cur, src)); okk = False; break
            if okk and not new.encode().endswith(body):
                bad.append(("update-changed-body", "updating %r changed the text after the metadata block" % k, cur, src)); okk = False
            if not okk: break
            cur = new
    # ---- the same for blocks in which a key occurs twice (possibly in another spelling): whatever value the query returns for it
    # before, after an update it returns the new one, the other keys keep theirs and the body stays
    ndup = 0
    for _ in range(60 if tier == "quick" else 1500):
        keys = rng.sample(KEYWORDS, rng.randint(2, 4))
        j = rng.randrange(len(keys)); pos = rng.randint(j + 1, len(keys))
        twin = rng.choice([keys[j], keys[j].upper(), keys[j].lower(), keys[j] + " "])
        order = keys[:pos] + [twin] + keys[pos:]
        body = rng.choice(["body text\n", "# Head\n\ntext *em*\n", "", "notakey: in body\n"])
        src = "\n".join("%s: %s" % (k, rng.choice(VALS)) for k in order) + "\n\n" + body
        tail = ("\n" + body).encode()
        rs = common.run_lines(har, ["Q %s %s" % (src.encode().hex(), k.encode().hex()) for k in keys])
        vals = {}
        for k, r in zip(keys, rs):
            f = r.split(" ")
            vals[k] = bytes.fromhex(f[3]).decode("utf-8", "replace") if len(f) > 3 and f[3] not in ("NULL", "-") else ("" if len(f) > 3 and f[3] == "-" else None)
        cur = src
        for _ in range(rng.randint(1, 3)):
            k = rng.choice(keys[j:j + 1] * 2 + keys); v = rng.choice(VALS)
            out = common.run_lines(har, ["U %s %s %s" % (cur.encode().hex(), k.encode().hex(), v.encode().hex())])[0]
            nupd += 1; ndup += 1
            ucalls.append(("U %s %s %s" % (cur.encode().hex() or "-", k.encode().hex(), v.encode().hex()), out, cur, src))
            if out.startswith("CRASH"):
                bad.append(("impl-crash", "update crashed: " + out[:200], cur, src)); break
            new = bytes.fromhex(out).decode("utf-8", "replace") if out != "-" else ""
            vals[k] = norm_val(v)
            rs = common.run_lines(har, ["Q %s %s" % (new.encode().hex(), kk.encode().hex()) for kk in keys])
            okk = True
            for kk, r in zip(keys, rs):
                f = r.split(" ")
                gv = bytes.fromhex(f[3]).decode("utf-8", "replace") if len(f) > 3 and f[3] not in ("NULL", "-") else ("" if len(f) > 3 and f[3] == "-" else None)
                if gv != vals[kk]:
                    bad.append(("update-readback" if kk == k else "update-changed-other-key",
                                "a key occurs twice in the block: after updating %r to %r, key %r reads %r instead of %r" % (k, v, kk, gv, vals[kk]), cur, src)); okk = False; break
            if okk and not new.encode().endswith(tail):
                bad.append(("update-changed-body", "a key occurs twice in the block: updating %r changed the text after the metadata block" % k, cur, src)); okk = False
            if not okk: break
            cur = new
    rep.cov["updates_on_blocks_with_a_repeated_key"] = ndup
    # MetaModel.meta_update (the function the update theorems are about) against the compiled update, on every call made above
    umodel = common.run_lines_par(drv, [u[0] for u in ucalls], args=["meta"], timeout=900)
    nuc = 0
    for (line, out, cur, src), m in zip(ucalls, umodel):
        if out.startswith("CRASH"): continue
        if (m if m != "-" else "") != (out if out != "-" else ""):
            bad.append(("model-vs-impl", "correspondence broken: MetaModel.meta_update vs mmd_engine_update_metavalue_for_key: model=%s impl=%s" % (m[:160], out[:160]), cur, src))
        else: nuc += 1
    rep.cov["updates_matching_model"] = nuc
    # ---- CLI -m / -e
    cli = os.path.join(common.build_variant("asan"), "multimarkdown")
    ncli = 0
    for src, exp, term, endoff in blocks[: (20 if tier == "quick" else 400)]:
        r = subprocess.run([cli, "-m"], input=src.encode(), capture_output=True, env=common.RUN_ENV, timeout=60); ncli += 1
        if r.stdout.decode("utf-8", "replace").split("\n")[:len(exp)] != [k for _, k, _ in exp]:
            bad.append(("cli-keys", "multimarkdown -m lists %r, expected %r" % (r.stdout, [k for _, k, _ in exp]), src, src))
        raw, k, v = rng.choice(exp)
        r = subprocess.run([cli, "-e", raw], input=src.encode(), capture_output=True, env=common.RUN_ENV, timeout=60); ncli += 1
        if r.stdout.decode("utf-8", "replace").rstrip("\n") != v:
            bad.append(("cli-value:%s" % term, "multimarkdown -e %r prints %r, expected %r" % (raw, r.stdout, v), src, src))
    rep.cov["evaluations"] = len(cases) + nupd + ncli
    rep.cov["traces_validated_against_impl"] = ncorr
    rep.cov["terminator_histogram"] = dict(hist)
    rep.cov["distinct_nontrivial"] = len(set(b[0] for b in blocks if len(b[1]) >= 2))
    rep.cov["rule"] = ("metadata blocks of 1..5 keys (blanks, mixed case, digits, . _ - in keys; blanks before the colon; values with & : % multi-byte, trailing blanks, indented and "
                       "unindented continuation lines; LF and CRLF) terminated by a blank line + body, by EOF with newline, by EOF without newline; oracle = the values as written "
                       "(whitespace-normalised); model correspondence; sequences of 1..4 updates with read-back / frame checks; CLI -m and -e; non-trivial = at least two keys")
    rep.cov["samples"] = [dict(source=blocks[0][0][:200], expected=blocks[0][1])]
    rep.assumptions += TRUSTED[1:]
    seen = set()
    for kind, what, c, src in bad:
        if kind in seen: continue
        seen.add(kind)
        nofail = kind == "model-vs-impl"
        rep.violation(kind, what, dict(case=c, source=src, no_failing_input=nofail, broken="correspondence MetaModel.v <-> mmd.c" if nofail else None))
    if not res["ok"] and not [b for b in bad if b[0] != "model-vs-impl"]:
        rep.violation("proof-broken", "Properties_C11 no longer checks: %s" % res["failed"],
                      dict(no_failing_input=True, broken="theorems of coq/props/Properties_C11.v (%s)" % res["failed"], coq_output=res["output"][-3000:]))


def replay(rep, r):
    rep.cov.update(evaluations=1, distinct_nontrivial=1, obligations=1, discharged=1, checker_cmd="replay", rule="replay")
    rep.cov["samples"] = [r.get("source", "")[:200]]
    har = common.build_harness("asan", "meta"); drv = common.extract_driver()
    if r.get("case", "").startswith("Q "):
        i = common.run_lines(har, [r["case"]])[0]; m = common.run_lines(drv, [r["case"]], args=["meta"])[0]
        print("impl ", i); print("model", m)
        if i != m:
            rep.violation("model-vs-impl", "differs", r)
