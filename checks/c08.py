"""C08  XML-based outputs are well-formed for every input (DESIGN.md, C08)."""
import random, collections
import common, tr_escapers, gen_md, tchk, planted
from tr_lemon import TranslateError

LEVEL = "proof"
TRUSTED = ["Coq 8.16.1 kernel + vm_compute", "tools/tr_escapers.py (complete tabulation of the escapers)",
           "lib/XmlDfa.v is the definition of 'safe as element content / attribute value' used by the theorems",
           "the writers around the escapers (2.2 kLoC opendocument-content.c, opml.c, itmz.c, epub.c templates) are not modelled: "
           "every XML member of every output is parsed with expat on generated inputs (testing)"]


def control_free(s):
    return "".join(c for c in s if c == "\n" or ord(c) >= 32).replace("\x7f", "")


def no_raw_html(s):
    """neutralise raw HTML / raw-source passthrough so that only document text is tested"""
    import re
    s = re.sub(r"<(?=[A-Za-z/!?])", "< ", s)
    s = s.replace("{=", "{ =")
    # metadata keys whose VALUE is raw target-format source by design (inserted verbatim into the output)
    s = re.sub(r"(?im)^(x?html ?(header|footer)|odf ?header|latex ?[a-z ]*|mmd ?(header|footer))\s*:", r"Note \1:", s)
    return s


def gen_doc(rng):
    k = rng.random()
    if k < 0.45:
        return planted.document(rng)[0]
    if k < 0.75:
        return no_raw_html(control_free(gen_md.structured(rng)))
    return no_raw_html(control_free(gen_md.soup(rng)))


def classify(fmt, name, b, err):
    """violation key: the cause where it is one of the recorded ones, else format:member"""
    import re
    m = re.search(r"line (\d+), column (\d+)", err)
    at = line = b""
    if m:
        lines = b.split(b"\n")
        ln, col = int(m.group(1)), int(m.group(2))
        if ln - 1 < len(lines):
            line = lines[ln - 1]
            at = line[max(0, col - 16):col + 16]
    # (expat counts columns in characters, the slice above is in bytes: on lines with multi-byte text look at the whole line)
    if any(c >= 0x80 for c in line): at = line
    # the lexer passes anything of the form &alnum; through as an entity; XHTML knows only the five predefined ones
    # (names like &nbsp; are "undefined", things like &1; are not even names)
    if fmt == "epub" and (("undefined entity" in err and re.search(rb"&[A-Za-z][A-Za-z0-9]*;", at)) or
                          ("invalid token" in err and re.search(rb"&[0-9][A-Za-z0-9]*;|&#[xX]?[0-9A-Fa-f]*;", at))):
        return "epub-html-named-entity"
    if fmt in ("fodt", "odt") and b"<<}" in at:
        return "odf-raw-critic-comment-close"
    return "ill-formed:%s:%s" % (fmt, name.split("/")[-1])


def xml_members(fmt, out):
    """[(member name, bytes)] of the XML parts of an output"""
    if fmt in ("opml", "fodt"):
        return [(fmt, out)]
    m, z = tchk.members(out)
    return [(n, b) for n, b in m.items() if n.endswith((".xml", ".opf", ".xhtml", ".rdf"))]


def run(rep, tier, seed):
    rep.cov["trusted_base"] = TRUSTED
    tr_err = None
    try:
        tr_escapers.main()
    except TranslateError as e:
        tr_err = str(e)
    res = common.coq_prove("Properties_C08") if not tr_err else dict(ok=False, theorems=["esc_xml_text_safe"], failed=["translator: " + tr_err], assumptions={}, output=tr_err)
    rep.add_obligations(res, "Properties_C08")
    rng = random.Random("C08-%d" % seed)
    docs = [gen_doc(rng).encode("utf-8") for _ in range(300 if tier == "quick" else 8000)]
    # minimised past failures run first, in the format they failed in (here: a figure inside a tight list item, EPUB XHTML)
    PAST = [(b"1. \n  ![]()", "epub"), (b"* \n  ![a](b.png)\n* x\n", "epub"), (b"> 1. \n>   ![a](b.png \"t\")\n", "epub")]
    fmts = ["opml", "fodt", "itmz", "odt", "epub"]
    E = tchk.EXT
    extsets = [E["notes"], E["notes"] | E["smart"], E["notes"] | E["critic"], E["notes"] | E["complete"], E["notes"] | E["snippet"], E["compat"],
               E["notes"] | E["critic"] | E["accept"], E["notes"] | E["nolabels"]]
    jobs = [(d, f, E["notes"] | E["smart"], 0) for d, f in PAST]
    for d in docs:
        for f in fmts if tier != "quick" else rng.sample(fmts, 3):
            jobs.append((d, f, rng.choice(extsets), rng.randrange(7)))
    results = tchk.convert(jobs)
    bad, nmem = [], 0
    for r in results:
        if not r.ok():
            bad.append(("impl-crash", "conversion to %s failed: status %s %s" % (r.fmt, r.status, (r.stderr or r.raw)[:200]), r)); continue
        try:
            mem = xml_members(r.fmt, r.out)
        except Exception as e:
            bad.append(("not-a-zip", "%s result is not a readable archive: %r" % (r.fmt, e), r)); continue
        for name, b in mem:
            nmem += 1
            err = tchk.xml_error(b)
            if err:
                bad.append((classify(r.fmt, name, b, err), "%s member %s is not well-formed XML: %s" % (r.fmt, name, err), r))
    rep.cov["evaluations"] = len(jobs)
    rep.cov["xml_members_parsed"] = nmem
    rep.cov["distinct_nontrivial"] = len(set(d for d in docs if any(c in d for c in b"&<>\"")))
    rep.cov["rule"] = ("valid-UTF-8 control-free sources: planted reserved-character runs in every text position (tools/planted.py), structured documents "
                       "and marker soup with raw HTML neutralised, x {opml, fodt, itmz, odt, epub} x extension sets x languages; every XML member parsed by expat; "
                       "non-trivial = distinct source containing & < > or a double quote")
    rep.cov["samples"] = [dict(doc=docs[0][:120].decode("utf-8", "replace"))]
    rep.assumptions += TRUSTED[2:]
    seen = set()
    for kind, what, r in bad:
        if kind in seen: continue
        seen.add(kind)
        def failing(b, r=r, kind=kind):
            try: b.decode("utf-8")
            except UnicodeDecodeError: return False            # the property is about valid UTF-8 sources: do not shrink out of it
            if any(c < 0x20 and c not in (9, 10, 13) for c in b): return False
            x = tchk.convert([(b, r.fmt, r.ext, r.lang)])[0]
            if not x.ok(): return kind == "impl-crash"
            try:
                return any(classify(x.fmt, n, mb, tchk.xml_error(mb)) == kind for n, mb in xml_members(x.fmt, x.out) if tchk.xml_error(mb))
            except Exception:
                return kind == "not-a-zip"
        small = tchk.shrink_doc(r.doc, failing) if kind != "impl-crash" else r.doc
        rep.violation(kind, what, dict(doc=small.decode("utf-8", "replace"), doc_hex=small.hex(), fmt=r.fmt, ext=r.ext, lang=r.lang))
    if not res["ok"] and not bad:
        rep.violation("proof-broken", "Properties_C08 no longer checks: %s" % res["failed"],
                      dict(no_failing_input=True, broken="theorems of coq/props/Properties_C08.v (%s)" % res["failed"], coq_output=res["output"][-3000:]))


def replay(rep, r):
    rep.cov.update(evaluations=1, distinct_nontrivial=1, obligations=1, discharged=1, checker_cmd="replay", rule="replay")
    rep.cov["samples"] = [str(r)[:200]]
    x = tchk.convert([(bytes.fromhex(r["doc_hex"]), r["fmt"], r["ext"], r["lang"])])[0]
    for n, b in xml_members(x.fmt, x.out):
        e = tchk.xml_error(b)
        print(n, e)
        if e:
            rep.violation(classify(x.fmt, n, b, e), e, r)
