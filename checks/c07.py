"""C07  Bounded stack and linear cost on nested and repeated input (DESIGN.md, C07)."""
import os, random, resource, subprocess, collections
import common, tr_callgraph, gen_md, tchk
from tr_lemon import TranslateError

LEVEL = "proof"
TRUSTED = ["Coq 8.16.1 kernel + vm_compute", "tools/tr_callgraph.py: call graph from relocations of the -O0 objects (no inlining; indirect calls through function "
           "pointers occur only in miniz and for malloc/free in the lemon driver and are not modelled), frame sizes from gcc -fstack-usage, guard pattern recognition by regex",
           "a guard 'if (depth == kMax...) return' admits at most kMax+1 live frames of its function (balanced increment/decrement is assumed)",
           "cost: measured, not proved - matcher steps through hook H2, tokens allocated through hook H1, on the published pathological families, random repetitions of their atoms and k copies of documents",
           "stack: nesting runs under an 8 MiB stack limit (testing)"]
E = tchk.EXT
NEST = {"bracket": ("[", "]"), "paren": ("(", ")"), "critic-add": ("{++", "++}"), "angle": ("<", ">"), "footnote": ("[^", "]"), "image": ("![", "]"),
        "quote": ("> ", ""), "brace": ("{", "}"), "backtick": ("`", "`"), "math": ("$", "$"), "list": ("* ", ""), "emph": ("*", "*")}
ATOMS = ["*a", "a*", "**a", "a**", "_a", "a_", "[a", "a]", "(a", "a)", "*a_", "[ a_", "b"]
FAMILIES = {
    "nested-emph-strong": lambda n: "\n".join(["*a **a"] * n) + "\nb " + "\n".join(["a** a*"] * n),
    "close-unopened-emph": lambda n: "\n".join(["a_"] * n), "open-unclosed-emph": lambda n: "\n".join(["_a"] * n),
    "close-unopened-link": lambda n: "\n".join(["a]"] * n), "open-unclosed-link": lambda n: "\n".join(["[a"] * n),
    "mismatched-star-underscore": lambda n: "\n".join(["*a_"] * n), "bracket-underscore": lambda n: "\n".join(["[ a_"] * n),
    "nested-brackets": lambda n: "[" * n + "a" + "]" * n,
}


def limit_stack():
    resource.setrlimit(resource.RLIMIT_STACK, (8 * 1024 * 1024, 8 * 1024 * 1024))


def run(rep, tier, seed):
    rep.cov["trusted_base"] = TRUSTED
    tr_err = None
    try:
        tr_callgraph.main()
    except TranslateError as e:
        tr_err = str(e)
    res = common.coq_prove("Properties_C07") if not tr_err else dict(ok=False, theorems=["guarded_call_paths_bounded"], failed=["translator: " + tr_err], assumptions={}, output=tr_err)
    rep.add_obligations(res, "Properties_C07")
    rng = random.Random("C07-%d" % seed)
    bad = []
    # ---- cost: marginal work must stay proportional
    har = common.build_harness("cov", "cost", extra_flags=common.COST_WRAP)      # hooks H1/H2 and the basic-block count in one run
    fams = dict(FAMILIES)
    for _ in range(14 if tier == "quick" else 120):
        s = " ".join(rng.choice(ATOMS) for _ in range(rng.randint(2, 6))) + " "
        fams["repeat:" + s] = (lambda s: (lambda n: s * n))(s)
    # a matched pair that swallows an unmatched opener of another kind, then unmatched openers interleaved with
    # closers that cannot pair with them: exercises the opener bookkeeping behind the large-stack shortcut
    KINDS = [("*", "*"), ("_", "_"), ("[", "]"), ("(", ")")]
    for (o1, c1) in KINDS:
        for (o2, c2) in KINDS:
            if o1 != o2:
                fams["swallow:%s%s" % (o1, o2)] = (lambda s: (lambda n: s * n))("%sa %sb c%s %sd e%s " % (o1, o2, c1, o1, c2))
    sizes = (2000, 4000, 8000) if tier == "quick" else (4000, 8000, 16000, 32000)
    meas = {}
    from concurrent.futures import ThreadPoolExecutor
    jobs = [(name, f, fmt) for name, f in fams.items() for fmt in (["html"] if tier == "quick" else ["html", "latex"])]
    with ThreadPoolExecutor(common.NCPU) as ex:      # (cost is counted in steps, not seconds: running the measurements side by side does not change it)
        measured = list(ex.map(lambda j: common.run_lines(har, ["%d %d %s" % (tchk.FMT[j[2]], E["notes"] | E["smart"], j[1](n).encode().hex()) for n in sizes], timeout=900), jobs))
    for (name, f, fmt), outs in zip(jobs, measured):
        if True:
            if any(o.startswith("CRASH") for o in outs):
                bad.append(("impl-crash", "cost harness failed on family %s: %s" % (name, [o[:100] for o in outs]), dict(family=name))); continue
            steps = [int(o.split()[0]) for o in outs]; toks = [int(o.split()[1]) for o in outs]; bbs = [int(o.split()[3]) for o in outs]
            meas[(name, fmt)] = steps
            for i in range(len(sizes) - 2):
                d1, d2 = steps[i + 1] - steps[i], steps[i + 2] - steps[i + 1]
                t1, t2 = toks[i + 1] - toks[i], toks[i + 2] - toks[i + 1]
                b1, b2 = bbs[i + 1] - bbs[i], bbs[i + 2] - bbs[i + 1]
                if b1 > 100000 and b2 > 2.8 * b1:
                    bad.append(("superlinear-basic-blocks:" + ("published" if name in FAMILIES else "repeat"),
                                "executed basic blocks on family %r grow faster than its length: %s for sizes %s" % (name, bbs, list(sizes)),
                                dict(family=name, example=f(8)[:200], sizes=list(sizes), basic_blocks=bbs))); break
                if d1 > 2000 and d2 > 2.8 * d1:
                    bad.append(("superlinear-matcher:" + ("published" if name in FAMILIES else "repeat"),
                                "pair matcher work on family %r grows faster than its length: steps %s for sizes %s" % (name, steps, list(sizes)),
                                dict(family=name, example=f(8)[:200], sizes=list(sizes), steps=steps))); break
                if t1 > 1000 and t2 > 2.8 * t1:
                    bad.append(("superlinear-tokens", "token allocation on family %r grows faster than its length: %s" % (name, toks), dict(family=name, sizes=list(sizes), tokens=toks))); break
    # k copies of the same blocks
    for _ in range(6 if tier == "quick" else 40):
        d = gen_md.structured(rng, 4, meta=False) + "\n\n"
        ks = (1, 2, 4, 8, 16)
        outs = common.run_lines(har, ["%d %d %s" % (tchk.FMT[rng.choice(["html", "latex", "fodt"])], E["notes"] | E["smart"], (d * k).encode("utf-8", "replace").hex()) for k in ks], timeout=900)
        if any(o.startswith("CRASH") for o in outs): continue
        steps = [int(o.split()[0]) for o in outs]; toks = [int(o.split()[1]) for o in outs]
        base = max(steps[0], 50)
        if steps[-1] > 1.5 * ks[-1] * base + 2000 or toks[-1] > 1.5 * ks[-1] * max(toks[0], 10) + 100:
            bad.append(("superlinear-copies", "work for k copies of a document is not proportional to k: steps %s tokens %s for k=%s" % (steps, toks, list(ks)), dict(doc=d[:300])))
    # k copies, cost = executed basic blocks of the library (build variant "cov": gcc -fsanitize-coverage=trace-pc, one callback per basic block):
    # the cost per copy must not grow with k
    harcov = common.build_harness("cov", "cost", extra_flags=common.COST_WRAP)
    ATOM_BLOCKS = ["* item\n", "1. one\n", "para text *emph* and `code`\n\n", "> quote\n>\n", "> * a\n", "* a\n    * b\n", "[a][b]\n\n[b]: http://x.y\n\n",
                   "note[^a]\n\n[^a]: text\n\n", "# Head\n\ntext\n\n", "term\n: def\n\n", "| a | b |\n|---|---|\n| 1 | 2 |\n\n", "    code\n\n",
                   "* a\n\n    para\n\n", "[^n]: note\n    more\n\n", "> quote\n\n", "- [link](u \"t\") ![i](p)\n", "Head\n====\n\n", "```\ncode\n```\n\n", "<div>\nhtml\n</div>\n\n"]
    cjobs = [(d, (64, 4096), fmt) for d in ATOM_BLOCKS for fmt in (["html"] if tier == "quick" else ["html", "latex", "fodt"])]
    cjobs += [(gen_md.structured(rng, 4, meta=False) + "\n\n", (16, 256), rng.choice(["html", "latex", "fodt"])) for _ in range(6 if tier == "quick" else 60)]
    def copies_run(j):
        d, ks, fmt = j
        return common.run_lines(harcov, ["%d %d %s" % (tchk.FMT[fmt], E["notes"] | E["smart"], (d * k).encode("utf-8", "replace").hex()) for k in ks], timeout=900)
    with ThreadPoolExecutor(common.NCPU) as ex:
        cres = list(ex.map(copies_run, cjobs))
    ncopies = 0
    percopy = {}
    for (d, ks, fmt), outs in zip(cjobs, cres):
        if any(o.startswith("CRASH") for o in outs): continue
        ncopies += 1
        # executed basic blocks of the library + bytes handled inside libc on its behalf (8 bytes counted as one block)
        bb = [int(o.split()[3]) + int(o.split()[4]) // 8 for o in outs]
        pc = [b / k for b, k in zip(bb, ks)]
        percopy["%s/%s" % (d[:20].replace("\n", "\\n"), fmt)] = [round(x) for x in pc]
        # a document may ask for output that is itself more than proportional to k (k tables of contents, each listing the headings
        # of all k copies): work proportional to what has to be written is not a violation, so the growth of the output per copy is allowed for
        outpc = [max(1, int(o.split()[2])) / k for o, k in zip(outs, ks)]
        allowed = max(1.0, outpc[1] / outpc[0])
        if pc[1] > 1.5 * allowed * pc[0] + 50:
            bad.append(("superlinear-copies", "executed basic blocks per copy grow with the number of copies: %s per copy for k=%s of %r (%s)" % ([round(x) for x in pc], list(ks), d[:60], fmt),
                        dict(doc=d[:300], ks=list(ks), basic_blocks=bb, fmt=fmt)))
    rep.cov["copies_measured_in_basic_blocks"] = ncopies
    rep.cov["basic_blocks_per_copy"] = dict(list(percopy.items())[:25])
    # ---- stack: deep nesting under an 8 MiB stack
    cli = os.path.join(common.build_variant("plain"), "multimarkdown")
    rundir = os.path.join(common.BUILD, "run", "C07.%d" % os.getpid()); os.makedirs(rundir, exist_ok=True)
    nruns = 0
    inconclusive = []
    try:
        depths = [2000, 30000, 500000] if tier == "quick" else [2000, 30000, 100000, 250000, 500000]
        njobs = []
        for cname, (o, c) in NEST.items():
            for n in depths:
                if cname == "emph" and n > 30000:
                    continue      # a run of n '*' costs O(n^2) in mmd_assign_ambidextrous_tokens_in_block (observation in DESIGN.md; not one of the stated cost clauses)
                for fmt in (["html", "latex", "fodt", "opml"] if tier != "quick" else [rng.choice(["html", "latex", "fodt", "opml"])]):
                    if cname == "footnote" and fmt == "html" and n > 30000:
                        continue  # n nested inline footnotes cost O(n^2) in the HTML writer (the label text of each is cleaned separately: observation in DESIGN.md; not a stated cost clause)
                    njobs.append((cname, o, c, n, fmt))

        def nest_run(j):
            cname, o, c, n, fmt = j
            src = (o * n + "a" + c * n + "\n").encode()
            p = os.path.join(rundir, "n%d.md" % njobs.index(j)); open(p, "wb").write(src)
            try:
                r = subprocess.run([cli, "-t", fmt, p], stdout=subprocess.DEVNULL, stderr=subprocess.PIPE, preexec_fn=limit_stack, timeout=300)
                return r.returncode, len(src)
            except subprocess.TimeoutExpired:
                return "timeout", len(src)
            finally:
                os.unlink(p)
        with ThreadPoolExecutor(8) as ex:
            nres = list(ex.map(nest_run, njobs))
        for (cname, o, c, n, fmt), (rc, srclen) in zip(njobs, nres):
            nruns += 1
            if rc == "timeout":
                # the stack clause says 'never crashes'; a run that is still going after 300 s shows no crash and is recorded as not judged
                inconclusive.append("%s depth %d -> %s: no result in 300 s" % (cname, n, fmt))
            elif rc != 0:
                kind = "deep-nesting-stack-overflow" if n >= 100000 else "stack-overflow-at-moderate-depth:%s" % cname
                bad.append((kind, "%d nested %s openers (%d bytes): conversion to %s died with status %s under an 8 MiB stack" % (n, cname, srclen, fmt, rc),
                            dict(construct=cname, depth=n, fmt=fmt, opener=o, closer=c)))
    finally:
        import shutil; shutil.rmtree(rundir, ignore_errors=True)
    rep.cov["evaluations"] = len(meas) * len(sizes) + nruns
    rep.cov["distinct_nontrivial"] = len(meas) + len(NEST)
    rep.cov["nesting_runs_not_judged"] = inconclusive
    rep.cov["families"] = {("%s/%s" % k): v for k, v in list(meas.items())[:30]}
    rep.cov["rule"] = ("cost: the published pathological families and random repetitions of their atoms at sizes %s (marginal matcher steps and token allocations must not grow faster "
                       "than 2.8x per doubling), k in 1..16 copies of generated documents; stack: %d nesting constructs x depths x formats under an 8 MiB stack limit" % (list(sizes), len(NEST)))
    rep.cov["samples"] = [dict(family="mismatched-star-underscore", steps=meas.get(("mismatched-star-underscore", "html")))]
    rep.assumptions += TRUSTED[1:]
    seen = set()
    for kind, what, info in bad:
        if kind in seen: continue
        seen.add(kind)
        rep.violation(kind, what, dict(info, no_failing_input=False))
    if not res["ok"] and not [b for b in bad if b[0] != "deep-nesting-stack-overflow"]:
        rep.violation("proof-broken", "Properties_C07 no longer checks: %s" % res["failed"],
                      dict(no_failing_input=True, broken="theorems of coq/props/Properties_C07.v (%s)" % res["failed"], coq_output=res["output"][-3000:]))


def replay(rep, r):
    rep.cov.update(evaluations=1, distinct_nontrivial=1, obligations=1, discharged=1, checker_cmd="replay", rule="replay")
    rep.cov["samples"] = [str(r)[:200]]
    if "construct" in r:
        cli = os.path.join(common.build_variant("plain"), "multimarkdown")
        src = (r["opener"] * r["depth"] + "a" + r["closer"] * r["depth"] + "\n").encode()
        p = os.path.join(common.BUILD, "run", "c07replay.md"); os.makedirs(os.path.dirname(p), exist_ok=True); open(p, "wb").write(src)
        x = subprocess.run([cli, "-t", r["fmt"], p], stdout=subprocess.DEVNULL, stderr=subprocess.PIPE, preexec_fn=limit_stack)
        print("exit status", x.returncode)
        if x.returncode:
            rep.violation("deep-nesting-stack-overflow" if r["depth"] >= 100000 else "stack-overflow-at-moderate-depth:%s" % r["construct"], "crash", r)
