"""C18  The shared token pool honours its init/drain/free protocol (DESIGN.md, C18)."""
import itertools, os, random, re
import common
from common import VERIF

LEVEL = "proof"
TRUSTED = ["Coq 8.16.1 kernel + vm_compute", "extraction (ExtrOcamlBasic only) + ocaml/driver.ml",
           "harness/pool.c + hook H1 (verif_token_pool_state), gcc -fsanitize=address,undefined",
           "malloc returns a fresh block and succeeds; stack.c growth of the slab stack not modelled; "
           "token_pool_count modelled as an unbounded integer (C short)"]
SIZES = [0, 1, 2, 1023, 1024, 1025, 2047, 2048, 2049, 5000]


def well_bracketed(ops):
    d = 0
    for o in ops:
        k = o[0]
        if k == "I": d += 1
        elif k == "D":
            if d == 0: return False
            d -= 1
        elif k == "F":
            if d != 0: return False
        else:
            if d == 0: return False
    return True


def exhaustive(maxlen):
    alpha = ["I", "D", "F", "A1", "A1024", "A1025"]
    for n in range(1, maxlen + 1):
        for seq in itertools.product(alpha, repeat=n):
            if well_bracketed(seq):
                yield " ".join(seq)


def gen_case(rng):
    ops, d = [], 0
    for _ in range(rng.randint(1, 30)):
        ch = []
        ch += ["I"] * (3 if d < 3 else 1)
        if d > 0:
            ch += ["D"] * 3 + ["A"] * 4 + ["V"] * 1
            # a free while a pair is still open is refused (an error message only): the histories of the theorems do not contain
            # it, the correspondence does - whoever still holds the pool must not lose it
            if rng.random() < 0.15: ch += ["F"] * 2
        else:
            ch += ["F"] * 2
        k = rng.choice(ch)
        if k == "I": d += 1
        if k == "D": d -= 1
        if k == "A": k = "A%d" % rng.choice(SIZES)
        if k == "V": k = "V%d" % rng.choice([1, 3, 40, 50, 100, 700])
        ops.append(k)
    ops += ["D"] * d
    if rng.random() < 0.7: ops.append("F")
    return " ".join(ops)


def to_model_case(case, impl_line):
    """replace V<k> by A<n> with n = the allocation count the implementation reported"""
    ops = case.split()
    parts = impl_line.split(" | ")
    out = []
    for o, p in zip(ops, parts):
        if o[0] == "V":
            out.append("A%s" % p.split()[4])
        else:
            out.append(o)
    return " ".join(out)


def canon_impl(case, impl_line):
    """impl line with V entries rewritten in the A format (first/last/newslabs are not reported for V)"""
    ops = case.split(); res = []
    for o, p in zip(ops, impl_line.split(" | ")):
        f = p.split()
        res.append(" ".join(f[:4]) + (" " + f[-1] if o[0] in "AVD" else ""))
    return " | ".join(res)


def canon_model(mcase, line):
    res = []
    for o, p in zip(mcase.split(), line.split(" | ")):
        f = p.split()
        res.append(" ".join(f[:4]) + (" " + f[-1] if o[0] in "AD" else ""))
    return " | ".join(res)


def run_cases(rep, cases, drv, har):
    impl = common.run_lines(har, cases, timeout=600)
    bad = []
    mcases = []
    for c, i in zip(cases, impl):
        mcases.append(to_model_case(c, i) if not i.startswith("CRASH") and len(i.split(" | ")) == len(c.split()) else None)
    idx = [k for k, m in enumerate(mcases) if m is not None]
    model = common.run_lines(drv, [mcases[k] for k in idx], args=["pool"], timeout=600)
    mres = dict(zip(idx, model))
    hashes = {}
    for k, (c, i) in enumerate(zip(cases, impl)):
        if i.startswith("CRASH") or mcases[k] is None:
            bad.append((c, "impl-crash", "implementation crashed or stopped: " + i[:300], i, "")); continue
        m = mres[k]
        # property-level checks on the implementation alone
        for o, p in zip(c.split(), i.split(" | ")):
            f = p.split()
            if o[0] in "AVD" and f[-1] != "1":
                bad.append((c, "token-invalid", "a token handed out earlier in the epoch was overwritten, moved or not contiguous", i, m)); break
            if o[0] == "V":
                key = o
                if hashes.setdefault(key, f[5]) != f[5]:
                    bad.append((c, "result-changed", "conversion output differs from the same conversion earlier (%s)" % o, i, m)); break
            if o[0] == "D" and f[0] == "0" and (f[2] != "0" or f[3] != "-1"):
                bad.append((c, "not-released", "slabs still allocated after the outermost drain", i, m)); break
        else:
            if canon_impl(c, i) != canon_model(mcases[k], m):
                bad.append((c, "model-vs-impl", "correspondence broken: PoolModel.v and token.c/object_pool.c differ", i, m))
            elif "ERR" in m:
                bad.append((c, "model-err", "model reports an error on a history the implementation ran", i, m))
    return impl, mcases, bad, hashes


def shrink(case, kind, drv, har):
    ops = case.split()
    def test(sub):
        if not well_bracketed(sub): return False
        _, _, bad, _ = run_cases(None, [" ".join(sub)], drv, har)
        return bool(bad) and bad[0][1] == kind
    try:
        ops = common.ddmin(ops, test)
    except Exception:
        pass
    return " ".join(ops)


def run(rep, tier, seed):
    rep.cov["trusted_base"] = TRUSTED
    res = common.coq_prove("Properties_C18")
    rep.add_obligations(res, "Properties_C18")
    drv = common.extract_driver()
    har = common.build_harness("asan", "pool")
    rng = random.Random("C18-%d" % seed)
    L = 6 if tier == "quick" else 8
    ex = list(exhaustive(L))
    rnd = [gen_case(rng) for _ in range(400 if tier == "quick" else 8000)]
    fixed = ["I V700 D F", "I V700 D I V700 D F I V700 D F", "I I V700 D V700 D F", "I A1024 D I A1 V100 D F"]
    cases = fixed + ex + rnd
    impl, mcases, bad, hashes = run_cases(rep, cases, drv, har)
    # results unchanged w.r.t. a fresh process
    fresh = {}
    for key in sorted(hashes):
        out = common.run_lines(har, ["I %s D F" % key])[0]
        fresh[key] = out.split(" | ")[1].split()[5] if not out.startswith("CRASH") else None
        if fresh[key] != hashes[key]:
            bad.append(("I %s D F" % key, "result-changed", "conversion output inside a history differs from a fresh process", out, ""))
    rep.cov["evaluations"] = len(cases)
    rep.cov["exhaustive_histories_up_to_len"] = L
    rep.cov["exhaustive_count"] = len(ex)
    multi = set(c for c, i in zip(cases, impl) if re.search(r"\b(A(1024|1025|2047|2048|2049|5000)|V(100|700))\b", c))
    rep.cov["distinct_nontrivial"] = len(multi)
    rep.cov["traces_validated_against_impl"] = len(cases) - len(bad)
    rep.cov["rule"] = ("all well-bracketed histories over {I,D,F,A1,A1024,A1025} up to length %d, plus seeded random histories (<=30 ops, "
                       "nesting <=4, allocation batches %s, conversions of 1..700-paragraph documents); non-trivial = distinct history "
                       "crossing a slab boundary (>=1024 tokens in one epoch)" % (L, SIZES))
    rep.cov["samples"] = [dict(case=c, impl=i[:300]) for c, i in list(zip(cases, impl))[:2] + list(zip(cases, impl))[-2:]]
    rep.assumptions += TRUSTED[3:]
    seen = set()
    for c, kind, what, i, m in bad:
        if kind in seen: continue
        seen.add(kind)
        small = shrink(c, kind, drv, har) if kind != "result-changed" else c
        nofail = kind in ("model-vs-impl", "model-err")
        ii, mm, _, _ = run_cases(rep, [small], drv, har)
        rep.violation(kind, what, dict(case=small, impl=ii[0], model_case=mm[0], no_failing_input=nofail,
                                       broken="correspondence PoolModel.v <-> token.c/object_pool.c" if nofail else None))
    if not res["ok"] and not [b for b in bad if b[1] not in ("model-vs-impl", "model-err")]:
        rep.violation("proof-broken", "Properties_C18 no longer checks: %s" % res["failed"],
                      dict(no_failing_input=True, broken="theorems of coq/props/Properties_C18.v (%s)" % res["failed"],
                           coq_output=res["output"][-3000:]))


def replay(rep, r):
    drv = common.extract_driver()
    har = common.build_harness("asan", "pool")
    impl, mcases, bad, _ = run_cases(rep, [r["case"]], drv, har)
    print("case:", r["case"]); print("impl:", impl[0])
    rep.cov.update(evaluations=1, distinct_nontrivial=1, obligations=1, discharged=1, checker_cmd="replay", rule="replay")
    rep.cov["samples"] = [r["case"]]
    for c, kind, what, i, m in bad:
        rep.violation(kind, what, dict(case=c, impl=i, no_failing_input=kind in ("model-vs-impl", "model-err")))
