"""C03  HTML rendering agrees with the documented Markdown/MultiMarkdown semantics (DESIGN.md, C03)."""
import random, re
import common, tchk

LEVEL = "proof"
TRUSTED = ["Coq 8.16.1 kernel", "model/SpecRender.v: the specification itself (what the syntax guide prescribes for each construct, written by hand from QuickStart / README and calibrated on single constructs)",
           "tools/tr_lemon.py + lib/Lemon.v for the block-parser theorems", "extraction + ocaml/driver.ml (document token parser)", "harness/conv.c",
           "the comparison of real HTML with the specification on generated documents is testing, not proof"]
E = tchk.EXT
COMPAT = E["compat"] | E["nolabels"] | E["obfuscate"] | E["nometa"]        # what --compatibility sets (main.c)
WORDS = ["Alpha", "beta", "gamma", "delta", "omega", "lorem", "ipsum", "dolor", "sit", "amet", "Zed", "quux", "x1", "v2"]
ESCAPABLE = "*_`#[]()!\\{}+-.<>&"
ENTITIES = ["copy", "amp", "lt", "nbsp", "#169", "#x3b1", "eacute"]
h = lambda s: (s.encode() if isinstance(s, str) else s).hex() or "-"


def words(rng, lo=1, hi=4, cap=False):
    w = [rng.choice(WORDS) for _ in range(rng.randint(lo, hi))]
    if cap: w[0] = w[0].capitalize()
    t = " ".join(w)
    if rng.random() < 0.15: t += rng.choice([",", "."])
    return t


class Gen:
    def __init__(self, rng, compat, notes=True, refs=True):
        self.rng, self.compat, self.refs = rng, compat, refs
        self.allow_notes = notes and not compat
        self.nlabels = 0
        self.notes = []           # token strings of the footnote contents, index = note number

    def label(self):
        self.nlabels += 1
        return "lab%d" % self.nlabels

    def text(self, cap=False): return "T" + h(words(self.rng, cap=cap))

    def simple_inl(self):
        """an element allowed inside emphasis, link text and table cells"""
        r = self.rng; k = r.random()
        if k < 0.6: return self.text()
        if k < 0.8: return "C" + h(r.choice(["code", "a&b", "x < y", "f(x)", "a > b", "q \"s\"", "p*q", "u_v"]))
        return "X%d" % ord(r.choice(ESCAPABLE))

    def emph(self, depth=0):
        r = self.rng
        kind = r.choice("ES")
        mid = []
        if r.random() < 0.4: mid.append(self.simple_inl())
        if depth == 0 and r.random() < 0.25:
            mid += [("S" if kind == "E" else "E") + " ( " + self.text() + " )", self.text()]
        return kind + " ( " + " ".join([self.text()] + mid + ([self.text()] if mid else [])) + " )"

    def inl(self):
        r = self.rng; k = r.random()
        url = r.choice(["http://example.com/", "http://example.com/a/b?x=1&y=2", "https://ex.org/p_q", "rel/path.html", "#frag"])
        title = r.choice(["-", "-", h("A title"), h("T & U")])
        if k < 0.24: return self.text()
        if k < 0.27:
            # words with underscores and digits stay as they are, whatever the emphasis character
            # (no lone "_": directly followed by a footnote call or a link it may open, and would then pair with the closing-capable
            # underscore at the end of "step1_final_" - a correct emphasis, but not an unambiguous use)
            return "T" + h(r.choice(["snake_case_word", "step1_final_", "v1_beta_2", "a_b", "x_1", "2_3_4", "file_name.txt"]))
        if k < 0.30:
            # emphasis written tight against punctuation: an apostrophe, a hyphen, brackets, a full stop
            e = r.choice("ES") + " ( " + self.text() + " )"
            form = r.randrange(5)
            if form == 0: return "G ( %s P- %s )" % (e, h("s"))                      # _word_'s
            if form == 1: return "G ( T%s %s )" % (h("well-"), e)                      # well-_known_
            if form == 2: return "G ( %s T%s )" % (e, h("-baked"))                     # _half_-baked
            if form == 3: return "G ( T%s %s T%s )" % (h("("), e, h(")."))            # (_word_).
            return "G ( %s T%s )" % (e, h(r.choice([",", ".", ";", "!", "?"])))
        if k < 0.42: return self.emph()
        if k < 0.50: return "C" + h(r.choice(["code", "a&b", "x < y", "<tag>", "f(x)", "1 > 0", "say \"hi\"", "p*q*r", "u_v_w", "[not](link)"]))
        if k < 0.58: return "L ( " + " ".join([self.text()] + ([self.emph(1)] if r.random() < 0.3 else [])) + " ) " + h(url) + " " + title
        if k < 0.60: return "A" + h(r.choice(["http://auto.example/", "http://auto.example/x?a=1&b=2", "https://e.org/~u"]))
        if k < 0.61 and self.refs: return "R ( " + self.text() + " ) " + h(self.label()) + " " + h(url) + " " + title
        if k < 0.62 and self.refs: return "I" + h(words(r)) + " " + h(self.label()) + " " + h(r.choice(["img.png", "dir/pic.gif"])) + " " + title
        if k < 0.67: return "M" + h(words(r)) + " " + h(r.choice(["img.png", "http://e.com/i.jpg?a=1&b=2", "dir/pic.gif"])) + " " + title
        if k < 0.72: return "X%d" % ord(r.choice(ESCAPABLE))
        if k < 0.76: return r.choice(["a", "l", "g"])
        if k < 0.79: return "N" + h(r.choice(ENTITIES))
        if k < 0.84: return "Q ( " + self.text() + " )"
        if k < 0.90: return r.choice(["2", "3", "e"])
        if k < 0.93: return "P" + h(r.choice(["it", "don", "Bob"])) + " " + h(r.choice(["s", "t"]))
        if self.compat: return self.text()
        if k < 0.96: return r.choice(["U", "D"]) + h(r.choice(["2", "n", "ab"]))
        return "H" + h(r.choice(["a+b", "x^2", "a < b", "\\alpha"]))

    def inls(self, brk=True, lo=1, hi=5, para=False):
        r = self.rng
        out = [self.text(cap=True)]
        for _ in range(r.randint(lo - 1, hi - 1)):
            if brk and r.random() < 0.08 and out[-1] not in ("b", "s") and not out[-1].startswith(("a", "l", "g", "2", "3", "e", "F")):
                out.append(r.choice(["b", "s"]) if para else "b"); out.append(self.text(cap=True))
            elif para and self.allow_notes and len(self.notes) < 5 and r.random() < 0.1 and out[-1][0] in "TC":
                out.append("F%d" % len(self.notes))
                self.notes.append("( " + " ".join([self.text(cap=True)] + ([self.emph(1)] if r.random() < 0.3 else [])) + " )")
            else:
                out.append(self.inl())
        res = "( " + " ".join(out) + " )"
        if "l" in out:
            # a lone '<' followed, later in the paragraph, by a '>' inside a code span or URL is paired with it (recorded finding, probed separately)
            res = " ".join((x[0] + h("code")) if (x[0] in "CHA" and re.fullmatch(r"[CHA](?:[0-9a-f]{2})*", x) and re.search(r"^.(?:..)*3e", x)) else x for x in res.split(" ") if x != "g")
        return res

    def cell_inls(self):
        r = self.rng
        return "( " + " ".join([self.simple_inl() if i else self.text() for i in range(r.randint(1, 2))]) + " )"

    def block(self, prev):
        r = self.rng
        while True:
            k = r.random()
            if k < 0.26: return "para", "para " + self.inls(para=True)
            if k < 0.28 and not self.compat:
                return "figure", "figure %s %s %s" % (h(words(r)), h(r.choice(["fig.png", "http://e.com/f.jpg?a=1&b=2"])), r.choice(["-", h("Fig & title")]))
            if k < 0.38: return "atx", "atx %d ( %s )" % (r.randint(1, 6), " ".join([self.text(cap=True)] + ([self.emph(1)] if r.random() < 0.3 else []) + (["C" + h("co&de")] if r.random() < 0.2 else [])))
            if k < 0.44: return "setext", "setext %d ( %s )" % (r.randint(1, 2), self.text(cap=True))
            if k < 0.48: return "hr", "hr"
            if k < 0.49 and not self.compat and prev != "deflist":
                items = " ".join("( %s ) ( %s )" % (self.text(cap=True), " ".join(self.inls(brk=False, hi=2) for _ in range(r.randint(1, 2)))) for _ in range(r.randint(1, 2)))
                return "deflist", "deflist ( %s )" % items
            if k < 0.50 and prev != "html":
                lines = ["<div class=\"c\">", r.choice(["raw <b>html</b> & text", "plain words", "<span>x</span>"]), "</div>"]
                return "html", "html %s ;" % " ".join(h(l) for l in lines)
            if k < 0.57 and not self.compat:
                lines = [r.choice(["code line", "x = a & b;", "if (a < b) { }", "  indented", "<tag attr=\"v\">", "* not a list", "# not a heading", "", "tab\there"]) for _ in range(r.randint(1, 4))]
                if lines[-1] == "": lines[-1] = "end"
                return "fenced", "fenced %s %s ;" % (r.choice(["-", "-", h("python"), h("c")]), " ".join(h(l) for l in lines))
            if k < 0.63 and prev not in ("list", "indented", "deflist"):
                lines = [r.choice(["code line", "x = a & b;", "if (a < b) { }", "  more indented", "<tag>", "* star", "1. one"]) for _ in range(r.randint(1, 3))]
                return "indented", "indented %s ;" % " ".join(h(l) for l in lines)
            if k < 0.72: return "quote", "quote ( %s )" % " ".join(self.inls(brk=False, hi=3) for _ in range(r.randint(1, 3)))
            if k < 0.88 and prev != "list":
                n = r.randint(1, 4)
                loose = r.choice("lt") if n > 1 else "t"
                items = []
                for i in range(n):
                    nsub = r.randint(1, 3) if r.random() < 0.25 else 0
                    sub = " ".join(self.inls(brk=False, hi=2) for _ in range(nsub))
                    # a nested list with blank lines between its items is loose by itself; in an item that is not the last one
                    # of a tight list those blank lines would also make the outer list loose, so it is generated only where the
                    # outer list keeps its own kind: in a loose list, or in the last item
                    subloose = "l" if nsub > 1 and (loose == "l" or i == n - 1) and r.random() < 0.5 else "t"
                    items.append("%s %s ( %s )" % (self.inls(brk=False, hi=3), subloose, sub))
                return "list", "list %s %s ( %s )" % (r.choice("ou"), loose, " ".join(items))
            if k >= 0.88 and not self.compat and prev != "table":
                ncol = r.randint(1, 5)
                aligns = "".join(r.choice("lcrn") for _ in range(ncol))
                def row():
                    cells, left = [], ncol
                    while left:
                        span = 1 if r.random() < 0.8 else r.randint(1, left)
                        cells.append("%s %d" % (self.cell_inls(), span)); left -= span
                    return "( " + " ".join(cells) + " )"
                header = "( " + " ".join("%s 1" % self.cell_inls() for _ in range(ncol)) + " )"
                return "table", "table %s %s ( %s )" % (aligns, header, " ".join(row() for _ in range(r.randint(1, 3))))

    def doc(self, n=None):
        r = self.rng
        out, prev = [], None
        for _ in range(n or r.randint(1, 7)):
            kind, t = self.block(prev)
            out.append((kind, t)); prev = kind
        if self.notes:
            out.append(("notes", "notes " + " ".join(self.notes)))
        return out


def spelling(rng):
    return "%d %d %d %d %d %d %d" % (rng.choice([42, 43, 45]), rng.choice([42, 95]), rng.randint(0, 3), rng.randint(0, 6), rng.randint(0, 3), rng.random() < 0.3, rng.random() < 0.2)


def run_docs(lines, exts):
    drv = common.extract_driver()
    mo = common.run_lines_par(drv, lines, args=["spec"], timeout=1800)
    srcs, wants = [], []
    for m in mo:
        p = m.split(" ")
        if len(p) != 2: srcs.append(None); wants.append(None); continue
        srcs.append(bytes.fromhex(p[0]) if p[0] != "-" else b""); wants.append(bytes.fromhex(p[1]) if p[1] != "-" else b"")
    res = tchk.convert([(s or b"", "html", e, 0) for s, e in zip(srcs, exts)])
    return srcs, wants, res


def blocks_part(rep, tier, rng, bad):
    """ties the block-level theorem to the code: the line kinds the real classifier assigns to spelled closed documents are
    accepted by the DFA of BlockLang.v, and the block rules in the real parser trace are the model's F; compositionality on real traces"""
    import json, os
    from checks import c02
    T = json.load(open(os.path.join(common.BUILD, "gen", "parser_tables.json")))
    blk = T["names"].index("block")
    block_rules = {i for i, l in enumerate(T["rule_lhs"]) if l == blk}
    drv = common.extract_driver(); har = common.build_harness("asan", "ptrace")
    n = 60 if tier == "quick" else 6000
    lines = []
    for i in range(n):
        g = Gen(rng, False, notes=False, refs=False)
        parts = []
        while len(parts) < 2:
            k, t = g.block(None)
            if k in ("para", "atx", "setext", "hr", "fenced", "quote"): parts.append(t)
        sp = spelling(rng)
        sp = " ".join(sp.split(" ")[:6] + ["0"])          # the trace harness is fed LF text
        for t in (parts[0], parts[1], parts[0] + " " + parts[1]):
            lines.append("1 0 %s | %s" % (sp, t))
    mo = common.run_lines_par(drv, lines, args=["spec"], timeout=900)
    srcs = [bytes.fromhex(m.split(" ")[0]) + b"\n" for m in mo]          # one more newline: the last block is closed by an empty line
    raw = common.run_lines_par(har, ["%d %s" % (E["smart"] | E["notes"], s.hex()) for s in srcs], timeout=900)
    kinds, real = [], []
    for r in raw:
        sessions, skipped, unparsed, open_ = c02.parse_trace(r, T)
        top = sessions[-1] if sessions else dict(inputs=[], events=[])
        kinds.append([k for k in top["inputs"] if k > 0])
        real.append([int(e.split(":")[1]) for e in top["events"] if e.startswith("R:") and int(e.split(":")[1]) in block_rules])
    # "---" on the very first line is classified LINE_YAML, elsewhere LINE_SETEXT_2 / LINE_HR: both rules build a BLOCK_HR
    yaml_rule = T["rule_names"].index("block ::= LINE_YAML"); hr_rule = T["rule_names"].index("block ::= LINE_HR")
    same_block = lambda l: [hr_rule if x == yaml_rule else x for x in l]
    model = common.run_lines(drv, [",".join(map(str, k)) or "0" for k in kinds], args=["blocks"], timeout=600)
    ok = comp = 0
    for i, (ln, s, k, rr, m) in enumerate(zip(lines, srcs, kinds, real, model)):
        case = dict(tokens=ln, source=s.decode("utf-8", "replace"), kinds=k)
        st, f = (m.split(" ") + ["-"])[:2]
        if st != "7":
            bad.append(("spelled-block-not-closed", "the line kinds %s of a spelled closed document are not accepted by the DFA of BlockLang.v (state %s)" % (k, st), case)); continue
        fm = [] if f == "." else [int(x) for x in f.split(",")] if f != "-" else None
        if fm != rr:
            bad.append(("model-vs-impl:block-rules", "block rules in the real parser trace %s, model %s" % (rr, fm), case)); continue
        ok += 1
        if i % 3 == 2 and same_block(real[i]) == same_block(real[i - 2] + real[i - 1]): comp += 1
        elif i % 3 == 2:
            bad.append(("not-compositional:parser", "real parser: blocks of u++v %s are not blocks of u %s followed by blocks of v %s" % (real[i], real[i - 2], real[i - 1]), case))
    rep.cov["block_traces_matching_model"] = ok
    rep.cov["real_traces_compositional"] = comp
    return ok


def run(rep, tier, seed):
    rep.cov["trusted_base"] = TRUSTED
    import tr_lemon
    tr_lemon.main()
    res = common.coq_prove("Properties_C03")
    rep.add_obligations(res, "Properties_C03")
    rng = random.Random("C03-%d" % seed)
    n = 400 if tier == "quick" else 60000
    lines, exts, metas = [], [], []
    for i in range(n):
        compat = (i % 4 == 3); smart = (i % 2 == 0)
        g = Gen(rng, compat)
        d = g.doc()
        sp = spelling(rng)
        lines.append("%d %d %s | %s" % (smart, compat, sp, " ".join(t for _, t in d)))
        exts.append((E["smart"] if smart else 0) | (COMPAT if compat else 0) | E["notes"])
        metas.append((smart, compat, sp, d))
    srcs, wants, outs = run_docs(lines, exts)
    bad, ok, kinds = [], 0, {}
    for ln, (smart, compat, sp, d), s, w, r in zip(lines, metas, srcs, wants, outs):
        case = dict(tokens=ln, source=(s or b"").decode("utf-8", "replace"))
        if s is None:
            bad.append(("spec-error", "the specification could not be evaluated on a generated document", case)); continue
        if not r.ok():
            bad.append(("impl-crash", "conversion failed: " + r.raw[:200], case)); continue
        got = r.out
        if sp.endswith(" 1") and b"\r" in got:
            # CRLF sources: the carriage returns of code lines are copied into the output (recorded finding); compare without them
            rep.violation("crlf-kept-in-code-blocks", "carriage returns of a CRLF source are kept inside code blocks", dict(case=case))
            got = got.replace(b"\r", b"")
        if got.rstrip(b"\n") != w.rstrip(b"\n"):
            case["want"] = w.decode("utf-8", "replace"); case["got"] = r.out.decode("utf-8", "replace")
            bad.append(("render-differs", "HTML differs from the specified rendering", case)); continue
        ok += 1
        for k, _ in d: kinds[k] = kinds.get(k, 0) + 1
    # the recorded finding: a lone '<' captures a later '>' even when that one sits inside a code span
    probe = tchk.convert([(b"a < `1 > 0`\n", "html", E["smart"], 0)])[0]
    if probe.ok() and b"<code>1 &gt; 0</code>" not in probe.out:
        rep.violation("lone-angle-swallows-code-span", "a lone '<' is paired with a '>' inside a later code span", dict(case=dict(tokens="", source="a < `1 > 0`")))
    # compositionality on the implementation itself: independent blocks, any order
    m = 100 if tier == "quick" else 12000
    comp_ok = 0
    clines, cexts, cmeta = [], [], []
    for i in range(m):
        g = Gen(rng, False, notes=False, refs=False)
        d = [b for b in (g.block(None) for _ in range(rng.randint(2, 5))) if b[0] in ("para", "atx", "setext", "hr", "fenced", "quote")]
        d = [(k, t) for k, t in d]
        if len(d) < 2: continue
        rng.shuffle(d)
        sp = spelling(rng)
        whole = "1 0 %s | %s" % (sp, " ".join(t for _, t in d))
        clines.append(whole); cexts.append(E["smart"] | E["notes"]); cmeta.append(("whole", len(d)))
        for _, t in d:
            clines.append("1 0 %s | %s" % (sp, t)); cexts.append(E["smart"] | E["notes"]); cmeta.append(("part", 0))
    csrcs, cwants, couts = run_docs(clines, cexts)
    i = 0
    while i < len(clines):
        kind, k = cmeta[i]
        parts = couts[i + 1:i + 1 + k]
        whole = couts[i]
        if whole.ok() and all(p.ok() for p in parts):
            # headings with equal titles get the same id either way; nothing else can interact
            cat = b"\n\n".join(p.out.rstrip(b"\n") for p in parts)
            if whole.out.rstrip(b"\n") != cat:
                bad.append(("not-compositional", "the rendering of a document of independent blocks is not the concatenation of the renderings of its blocks",
                            dict(tokens=clines[i], source=(csrcs[i] or b"").decode("utf-8", "replace"), got=whole.out.decode("utf-8", "replace"), want=cat.decode("utf-8", "replace"))))
            else: comp_ok += 1
        i += 1 + k
    # context independence of a paragraph: the same one-line paragraph of inline markers (matched, nested, left over) renders
    # to the same <p> content after another paragraph, inside a loose list item, a nested list item, a block quote and as the
    # first thing in the document
    toks = ["*", "**", "_", "__", "a", "b ", " ", "`", "[", "]", "(u)", "~", "^", "*a*", "**b**", "_d_", "\\*", "a*b", "a_b_c", "**a *b* c**", "'", "}", "{", "\"", "--", "c"]
    ctx_docs, ctx_n = [], (120 if tier == "quick" else 6000)
    for _ in range(ctx_n):
        para = ("w" + "".join(rng.choice(toks) for _ in range(rng.randint(3, 30)))).strip()
        para = re.sub(r"\s+", " ", para)
        ctx_docs.append(para)
    cjobs = []
    for para in ctx_docs:
        for pre in ("x\n\n", "* x\n\n    ", "* x\n    * y\n\n        ", "x\n\n> ", ""):
            cjobs.append(((pre + para + "\n").encode(), "html", E["smart"] | E["notes"], 0))
    cres = tchk.convert(cjobs)
    ctx_ok = 0
    def last_p(b):
        m = re.findall(rb"<p>(.*?)</p>", b, re.S)
        return m[-1] if m else None
    for k, para in enumerate(ctx_docs):
        rs = cres[5 * k:5 * k + 5]
        if not all(x.ok() for x in rs): continue
        ps = [last_p(x.out) for x in rs]
        if ps[0] is None: continue          # (the text was not a paragraph at the top level)
        if any(q != ps[0] for q in ps[1:]):
            which = ["top level", "list item", "nested list item", "block quote", "document that starts with it"][[q != ps[0] for q in ps].index(True)]
            bad.append(("paragraph-depends-on-context", "a paragraph renders differently inside a %s than at the top level" % which,
                        dict(tokens="", source=para, want=ps[0].decode("utf-8", "replace"), got=[q.decode("utf-8", "replace") if q else None for q in ps])))
        else: ctx_ok += 1
    rep.cov["paragraphs_context_independent"] = ctx_ok
    # reference definitions in their equivalent spellings: the title on the same line or on the next one (indented, after
    # trailing blanks or a tab on the URL line), in double or single quotes, the URL bare or in angle brackets, the label in
    # another case - link and image must render exactly as with the plainest spelling
    rjobs, rmeta = [], []
    for _ in range(30 if tier == "quick" else 1500):
        lab = rng.choice(["two", "Ref Label", "x1"]); url = rng.choice(["http://b.com/", "http://b.com/p?a=1&b=2", "rel/p.html"])
        tit = rng.choice(["Second title", "T & U", "it's"])
        use = rng.choice(["See [%s] here." % lab, "See [text][%s] here." % lab, "Pic ![alt][%s] here." % lab, "See [text][%s] here." % lab.upper()])
        plain = "%s\n\n[%s]: %s \"%s\"\n" % (use, lab, url, tit)
        # (titles in parentheses are original-Markdown syntax that this implementation drops or rejects: not in its syntax guide, not generated)
        q = rng.choice(['"%s"', "'%s'"]) % tit if "'" not in tit else '"%s"' % tit
        u = rng.choice([url, "<%s>" % url])
        variants = ["[%s]: %s %s" % (lab, u, q), "[%s]: %s\n    %s" % (lab, u, q), "[%s]: %s  \n    %s" % (lab, u, q), "[%s]: %s\t\n\t%s" % (lab, u, q),
                    "[%s]:  %s   %s" % (lab, u, q), " [%s]: %s\n %s" % (lab, u, q)]
        v = rng.choice(variants)
        ext = E["notes"] | (E["smart"] if rng.random() < 0.5 else 0) | (COMPAT if rng.random() < 0.25 else 0)
        rjobs.append((plain.encode(), "html", ext, 0)); rjobs.append((("%s\n\n%s\n" % (use, v)).encode(), "html", ext, 0))
        rmeta.append((plain, "%s\n\n%s\n" % (use, v)))
    rres = tchk.convert(rjobs)
    nref = 0
    for j, (plain, var) in enumerate(rmeta):
        a, b = rres[2 * j], rres[2 * j + 1]
        if a.ok() and b.ok() and a.out != b.out:
            bad.append(("render-differs", "a reference definition written in an equivalent spelling renders differently from the plain one",
                        dict(tokens="", source=var, want=a.out.decode("utf-8", "replace"), got=b.out.decode("utf-8", "replace"), plain=plain)))
        else: nref += 1
    rep.cov["reference_definition_spellings_agree"] = nref
    nb = blocks_part(rep, tier, rng, bad)
    # the delimiter rules: model/Ambidextrous.v == compiled function, and context independence on the compiled function
    from checks import ambi
    abad, an = ambi.part(rep, tier, rng)
    aseen = set()
    for kind, what, rp in abad:
        if kind not in aseen:
            aseen.add(kind); rep.violation(kind, what, rp)
    rep.cov["evaluations"] = len(lines) + len(clines) + nb + len(cjobs) + an
    rep.cov["documents_rendered_as_specified"] = ok
    rep.cov["documents_compositional"] = comp_ok
    rep.cov["blocks_by_kind"] = kinds
    rep.cov["traces_validated_against_impl"] = ok
    rep.cov["distinct_nontrivial"] = len(set(lines))
    rep.cov["rule"] = ("abstract documents of 1..7 blocks (paragraphs with emphasis / strong / nested, code spans, inline and automatic links with titles and & in URLs, images, 19 backslash escapes, entities, lone & < >, "
                       "hard breaks, super/subscript, math, quotes, dashes, ellipses, apostrophes; ATX 1..6 and Setext headings; rules; fenced and indented code; quotes of paragraphs; tight and loose bulleted / "
                       "numbered lists with a nested level; tables with alignment and column spans) x spellings (3 bullet characters, * or _, 0..3 leading spaces, 0..6 closing #, 4 rule spellings, tab or spaces, "
                       "LF or CRLF) x {smart, plain} x {MMD, compatibility}: HTML of the spelled text == SpecRender.render; and HTML(blocks in any order) == concatenation of HTML(block)")
    rep.cov["samples"] = [lines[0][:300]]
    rep.assumptions += TRUSTED[1:]
    seen = set()
    for kind, what, c in bad:
        if kind in seen: continue
        seen.add(kind)
        rep.violation(kind, what, dict(case=c, no_failing_input=(kind == "spec-error"), broken="SpecRender evaluation" if kind == "spec-error" else None))
    if not res["ok"] and not bad and not abad:
        rep.violation("proof-broken", "Properties_C03 no longer checks: %s" % res["failed"],
                      dict(no_failing_input=True, broken="theorems of coq/props/Properties_C03.v (%s)" % res["failed"], coq_output=res.get("output", "")[-3000:]))


def replay(rep, r):
    rep.cov.update(evaluations=1, distinct_nontrivial=1, obligations=1, discharged=1, checker_cmd="replay", rule="replay")
    if str(r.get("key", "")).startswith(("ambidextrous", "emphasis-flags")):
        from checks import ambi
        return ambi.replay(rep, r)
    c = r.get("case", r)
    rep.cov["samples"] = [c.get("tokens", "")[:200]]
    if not c.get("tokens"):
        # cases given as source text: a reference definition against its plain spelling, or a paragraph in its contexts
        docs = [c["source"]] + ([c["plain"]] if c.get("plain") else [])
        outs = tchk.convert([(d.encode(), "html", E["notes"] | E["smart"], 0) for d in docs])
        for d, o in zip(docs, outs): print("---- source\n" + d + "---- html\n" + o.out.decode("utf-8", "replace"))
        if len(outs) == 2 and outs[0].out != outs[1].out:
            rep.violation(r.get("key", "render-differs"), "the two spellings render differently", r)
        elif c.get("want") is not None and isinstance(c["want"], str) and outs[0].out.decode("utf-8", "replace").strip() != c["want"].strip() and len(outs) == 1:
            print("---- recorded\n" + c["want"])
        return
    hd = c["tokens"].split("|")[0].split()
    ext = (E["smart"] if hd[0] == "1" else 0) | (COMPAT if hd[1] == "1" else 0) | E["notes"]
    srcs, wants, outs = run_docs([c["tokens"]], [ext])
    print("---- source\n" + srcs[0].decode("utf-8", "replace")); print("---- specified\n" + wants[0].decode("utf-8", "replace")); print("---- got\n" + outs[0].out.decode("utf-8", "replace"))
    if outs[0].out.rstrip(b"\n") != wants[0].rstrip(b"\n"):
        rep.violation("render-differs", "HTML differs from the specified rendering", r)
