"""C06  Every documented entry point produces the same result (DESIGN.md, C06)."""
import os, random, re, shutil, subprocess, collections
import common, tr_wrappers, gen_md, tchk
from tr_lemon import TranslateError
from common import BUILD

LEVEL = "proof"
TRUSTED = ["Coq 8.16.1 kernel", "tools/tr_wrappers.py (regex recognition of the straight-line wrapper bodies in mmd.c)",
           "the engine functions themselves are uninterpreted in the theorem; what they do is covered by other properties",
           "harness/api.c runs all 3x3 variants, engine reuse sequences and the CLI on generated sources and compares bytes (testing)"]
PLAIN = ["html", "latex", "beamer", "memoir", "opml"]
PACK = ["epub", "odt", "bundlezip", "itmz", "fodt"]
E = tchk.EXT
CLI_DEFAULT = E["smart"] | E["notes"] | E["critic"] | E["transclude"]
CLI_FLAGS = [([], CLI_DEFAULT), (["--nosmart"], CLI_DEFAULT & ~E["smart"]), (["--nolabels"], CLI_DEFAULT | E["nolabels"]),
             (["-c"], E["compat"] | E["nolabels"] | E["obfuscate"] | E["nometa"]), (["-f"], CLI_DEFAULT | E["complete"]), (["-s"], CLI_DEFAULT | E["snippet"])]
FMTNAME = dict(html="html", latex="latex", beamer="beamer", memoir="memoir", opml="opml", epub="epub", odt="odt", bundlezip="bundlezip", itmz="itmz", fodt="fodt")


def mask(name, b):
    """hide the parts of packaged outputs that embed the clock or a generated identifier by design"""
    b = re.sub(rb"<dc:identifier[^>]*>[^<]*</dc:identifier>", b"<dc:identifier/>", b)
    b = re.sub(rb'<meta property="dcterms:modified">[^<]*</meta>', b"<modified/>", b)
    b = re.sub(rb"<dc:date>[^<]*</dc:date>", b"<dc:date/>", b)
    b = re.sub(rb"<meta:creation-date>[^<]*</meta:creation-date>", b"<cd/>", b)
    b = re.sub(rb"urn:uuid:[0-9a-fA-F-]+", b"urn:uuid:X", b)
    b = re.sub(rb"[0-9a-fA-F]{8}-[0-9a-fA-F]{4}-[0-9a-fA-F]{4}-[0-9a-fA-F]{4}-[0-9a-fA-F]{12}", b"UUID", b)   # generated identifiers (topics, asset names)
    return b


def canon(fmt, b):
    """comparable form of a result"""
    if b is None: return None
    if fmt in ("epub", "odt", "bundlezip", "itmz"):
        try:
            m, z = tchk.members(b)
        except Exception as e:
            return ("NOT-A-ZIP", len(b))
        return tuple(sorted((mask(n, n.encode()).decode(), mask(n, c)) for n, c in m.items()))
    return mask(fmt, b)


def fields(line):
    d = {}
    for f in line.split():
        k, v = f.split(":", 1)
        d[k] = None if v in ("NULL", "NOFILE") else (b"" if v == "-" else bytes.fromhex(v))
        if v == "NOFILE": d[k + "!"] = "NOFILE"
    return d


def no_email(s):
    return re.sub(r"<[^<>\s]+@[^<>\s]+>", "(mail)", s).replace("mailto:", "mail-to:")


def gen_doc(rng):
    # random anchors and e-mail obfuscation are excluded by the property ("unless random ... requested"; obfuscation draws on a PRNG: C05)
    s = gen_md.structured(rng) if rng.random() < 0.8 else gen_md.soup(rng)
    return no_email(s).replace("\0", " ")


def run(rep, tier, seed):
    rep.cov["trusted_base"] = TRUSTED
    tr_err = None
    try:
        tr_wrappers.main()
    except TranslateError as e:
        tr_err = str(e)
    res = common.coq_prove("Properties_C06") if not tr_err else dict(ok=False, theorems=["convert_variants_agree"], failed=["translator: " + tr_err], assumptions={}, output=tr_err)
    rep.add_obligations(res, "Properties_C06")
    rng = random.Random("C06-%d" % seed)
    har = common.build_harness("asan", "api")
    cli = os.path.join(common.build_variant("asan"), "multimarkdown")
    rundir = os.path.join(BUILD, "run", "C06.%d" % os.getpid()); os.makedirs(rundir, exist_ok=True)
    bad = []
    try:
        docs = ["Title: T & Co\nAuthor: A\nBase Header Level: 2\n\n# Head\n\nText *em* [^f].\n\n[^f]: note\n", "plain\n", ""]
        docs += [gen_doc(rng) for _ in range(120 if tier == "quick" else 3000)]
        keys = ["title", "author", "baseheaderlevel", "x-customkey", "nokey", "css", "date", "language"]
        cases, meta = [], []
        for d in docs:
            fl, ext = rng.choice(CLI_FLAGS)
            ext_api = ext & ~E["transclude"]
            for f in rng.sample(PLAIN, 2) + [rng.choice(PACK)]:
                lang = rng.randrange(7) if fl != ["-c"] else 0
                cases.append("%d %d %d %s %s" % (tchk.FMT[f], ext_api | E["transclude"], lang, d.encode("utf-8", "replace").hex() or "-", rng.choice(keys).encode().hex()))
                meta.append((d, f, fl, ext, lang))
        outs = common.run_lines_par(har, cases, args=[rundir], timeout=1800, jobs=1)
        ncmp = 0
        for (d, f, fl, ext, lang), c, o in zip(meta, cases, outs):
            if o.startswith("CRASH"):
                bad.append(("impl-crash", "API harness crashed: " + o[:300], d, f, c)); continue
            F = fields(o)
            src = d.encode("utf-8", "replace")
            if F.get("Dsrc") != src:
                bad.append(("source-modified", "mmd_d_string_convert changed the caller's source text", d, f, c)); continue
            names = (["S", "D", "E", "E3", "E2"] if f in PLAIN else []) + ["SD", "DD", "ED", "SF", "DF", "EF"]
            ref = canon(f, F.get("SD"))
            for n in names:
                ncmp += 1
                if F.get(n) is None:
                    bad.append(("no-result:%s" % n, "%s (%s) produced no result for format %s" % (n, VARIANT[n], f), d, f, c)); break
                if canon(f, F[n]) != ref:
                    bad.append(("variant-differs:%s" % n, "%s (%s) differs from mmd_string_convert_to_data for format %s" % (n, VARIANT[n], f), d, f, c)); break
            for grp in (("hasS", "hasD", "hasE"), ("keysS", "keysD", "keysE"), ("valS", "valD", "valE")):
                if len(set(F.get(g) for g in grp)) != 1:
                    bad.append(("metadata-variants-differ:%s" % grp[0][:-1], "%s differ: %r" % (grp, [F.get(g) for g in grp]), d, f, c)); break
            # the command line tool
            if rng.random() < (0.5 if tier == "quick" else 1.0):
                inp = os.path.join(rundir, "in.txt"); open(inp, "wb").write(src)
                langs = ["en", "es", "de", "fr", "nl", "sv", "he"]
                # the tool transcludes {{file}} markers before converting (its own, documented step; C13) - switched off so that
                # the comparison is with the same conversion the API calls perform
                args = [cli, "--notransclude", "-t", FMTNAME[f]] + fl + (["-l", LANGS[lang]] if lang else [])
                r1 = subprocess.run(args + [inp], capture_output=True, env=common.RUN_ENV, timeout=120)
                outp = os.path.join(rundir, "out.bin")
                if os.path.exists(outp): os.unlink(outp)
                r2 = subprocess.run(args + ["-o", outp, inp], capture_output=True, env=common.RUN_ENV, timeout=120)
                o2 = open(outp, "rb").read() if os.path.exists(outp) else None
                for nm, got, rr in (("CLI", r1.stdout, r1), ("CLI-o", o2, r2)):
                    ncmp += 1
                    if rr.returncode != 0 or got is None:
                        bad.append(("cli-failed", "%s exited %s / no output: %s" % (nm, rr.returncode, rr.stderr.decode("latin-1")[:200]), d, f, c)); break
                    if canon(f, got) != ref:
                        bad.append(("variant-differs:%s" % nm, "%s (%s) differs from mmd_string_convert_to_data for format %s, flags %s" % (nm, " ".join(args[1:]), f, fl), d, f, c)); break
        rep.cov["evaluations"] = len(cases)
        rep.cov["comparisons"] = ncmp
        rep.cov["distinct_nontrivial"] = len(set(d for d in docs if len(d) > 20))
        rep.cov["rule"] = ("generated sources (structured + soup, e-mail autolinks removed) x 2 plain formats + 1 packaged format each x CLI flag sets "
                           "(mirrored to extension bits) x languages; per case 11 API results (3 families x convert / to_data / to_file, engine reused for "
                           "a second conversion and after metadata queries), the metadata query variants, and the CLI with and without -o; packaged results "
                           "compared member-wise with identifier/date fields masked")
        rep.cov["samples"] = [dict(case=cases[0][:200])]
    finally:
        shutil.rmtree(rundir, ignore_errors=True)
    rep.assumptions += TRUSTED[1:]
    seen = set()
    for kind, what, d, f, c in bad:
        if kind in seen: continue
        seen.add(kind)
        rep.violation(kind, what, dict(doc=d, fmt=f, case=c, no_failing_input=False))
    if not res["ok"] and not bad:
        rep.violation("proof-broken", "Properties_C06 no longer checks: %s" % res["failed"],
                      dict(no_failing_input=True, broken="theorems of coq/props/Properties_C06.v (%s)" % res["failed"], coq_output=res["output"][-3000:]))


LANGS = ["en", "es", "de", "fr", "nl", "sv", "he"]
VARIANT = dict(S="mmd_string_convert", D="mmd_d_string_convert", E="mmd_engine_convert", E3="second mmd_engine_convert on the same engine",
               E2="mmd_engine_convert after metadata queries on the same engine", SD="mmd_string_convert_to_data", DD="mmd_d_string_convert_to_data",
               ED="mmd_engine_convert_to_data", SF="mmd_string_convert_to_file", DF="mmd_d_string_convert_to_file", EF="mmd_engine_convert_to_file")


def replay(rep, r):
    rep.cov.update(evaluations=1, distinct_nontrivial=1, obligations=1, discharged=1, checker_cmd="replay", rule="replay")
    rep.cov["samples"] = [r.get("case", "")[:200]]
    har = common.build_harness("asan", "api")
    rundir = os.path.join(BUILD, "run", "C06r.%d" % os.getpid()); os.makedirs(rundir, exist_ok=True)
    o = common.run_lines(har, [r["case"]], args=[rundir])[0]
    shutil.rmtree(rundir, ignore_errors=True)
    F = fields(o); f = r["fmt"]; ref = canon(f, F.get("SD"))
    for n in VARIANT:
        if n in F or f not in PLAIN and n in ("S", "D", "E", "E2", "E3"):
            continue
    for n in ["SD", "DD", "ED", "SF", "DF", "EF"] + (["S", "D", "E", "E3", "E2"] if f in PLAIN else []):
        print(n, "same" if canon(f, F.get(n)) == ref else "DIFFERS")
        if canon(f, F.get(n)) != ref:
            rep.violation("variant-differs:%s" % n, "%s differs" % VARIANT[n], r)
