"""C09  Package outputs are valid archives with the required members (DESIGN.md, C09)."""
import io, os, random, re, shutil, zipfile
import xml.parsers.expat as expat
import common, tchk

LEVEL = "proof"
TRUSTED = ["Coq 8.16.1 kernel + vm_compute",
           "tools/tr_packages.py: regex recognition of the mz_zip_writer_add_mem / add_assets / finalize calls of the four packagers, in textual order (branches and loops are not followed)",
           "python zipfile + zlib as the judge of ZIP validity and member CRCs (testing, not proof); expat for the manifests",
           "harness/conv.c (mmd_string_convert_to_data with and without a directory)"]
E = tchk.EXT
BASE = E["smart"] | E["notes"] | E["critic"]
PNG = b"\x89PNG\r\n\x1a\n" + b"\0" * 8
WORDS = ["alpha", "beta", "gamma", "delta", "omega"]
UUID = rb"[0-9a-f]{8}-[0-9a-f]{4}-[0-9a-f]{4}-[0-9a-f]{4}-[0-9a-f]{12}"


def make_assets(root):
    os.makedirs(os.path.join(root, "img", "deep"), exist_ok=True)
    files = {"one.png": PNG + b"1", "two.png": PNG + b"22", "img/three.png": PNG + b"333", "img/deep/four-four.png": PNG + b"4444",
             "tiny.png": b"x", "three.png": b"abc", "style.css": b"body { margin: 0 }\n", "big.png": PNG + bytes(range(256)) * 40,
             # names as cameras and screenshot tools write them, an extension a packager may not know, and none at all
             "IMG_0042.JPG": b"\xff\xd8\xff\xe0jpeg", "Screenshot_1.PNG": PNG + b"55555", "img/pic.webp": b"RIFFxxxxWEBP", "img/noext": PNG + b"6"}
    for n, c in files.items():
        with open(os.path.join(root, n), "wb") as f: f.write(c)
    return files


def gen_doc(rng, files):
    """document with images in known order; returns (text, image urls in document order incl. definitions used, has_css)"""
    imgs = [n for n in files if n != "style.css"]
    blocks, meta = [], []
    if rng.random() < 0.6:
        meta.append("Title: %s" % rng.choice(["Plain", "R&D <draft>", "\"Quoted\" 'title'", "Ünï 日本"]))
        if rng.random() < 0.5: meta.append("CSS: style.css")
        if rng.random() < 0.3: meta.append("Author: A & B")
    defs = {}
    nimg = rng.randint(0, 5)
    for i in range(rng.randint(1, 6)):
        k = rng.random()
        w = " ".join(rng.choice(WORDS) for _ in range(rng.randint(1, 5)))
        if k < 0.25: blocks.append("#" * rng.randint(1, 3) + " Head %d %s" % (i, rng.choice(["", "& more", "<x>"])))
        elif k < 0.65 and nimg:
            nimg -= 1
            u = rng.choice(imgs)
            form = rng.random()
            if form < 0.4: blocks.append("%s ![alt %d](%s) tail" % (w, i, u))
            elif form < 0.6: blocks.append("%s ![alt %d](%s \"A title\") tail" % (w, i, u))
            elif form < 0.7: blocks.append("![figure %d](%s)" % (i, u))                  # alone in its paragraph: a figure
            else:
                lab = "pic%d" % len(defs); defs[lab] = u
                blocks.append("%s ![alt %d][%s] tail" % (w, i, lab))
                if rng.random() < 0.5: blocks.append("[%s]: %s" % (lab, u))              # definition in the middle of the document
        elif k < 0.8: blocks.append("* " + w + "\n* " + w)
        else: blocks.append(w + " [link](http://example.com/?a=1&b=2).")
    for lab, u in defs.items():
        if not any(b.startswith("[%s]:" % lab) for b in blocks): blocks.append("[%s]: %s" % (lab, u))
    if rng.random() < 0.3: blocks.append("[other]: http://example.com/not-an-image")
    text = ("\n".join(meta) + "\n\n" if meta else "") + "\n\n".join(blocks) + "\n"
    if not meta and re.match(r"[A-Za-z0-9][^\n]*:", text): text = "Lead.\n\n" + text
    return text.encode()


def parse_xml_attrs(b, element, attr):
    out = []
    p = expat.ParserCreate()
    def start(name, attrs):
        if name == element or name.endswith(":" + element.split(":")[-1]) and name == element:
            if attr in attrs: out.append(attrs[attr])
    p.StartElementHandler = start
    p.Parse(b, True)
    return out


def mask_assets(b):
    b = re.sub(rb'(assets|Pictures)/' + UUID + rb'(\.[A-Za-z0-9]+)?', b"ASSET", b)
    return re.sub(rb'(<draw:image xlink:href=")[^"]*"', rb'\1ASSET"', b)


def check_archive(fmt, data, doc, plain, have_dir, files):
    """returns list of (kind, what)"""
    bad = []
    try:
        z = zipfile.ZipFile(io.BytesIO(data))
    except Exception as e:
        return [("not-a-zip", "the result is not a ZIP archive: %s" % e)]
    t = z.testzip()
    if t is not None: bad.append(("crc", "member %s fails its CRC" % t))
    names = z.namelist()
    if len(set(names)) != len(names): bad.append(("duplicate-member", "member listed twice: %s" % names))
    # the archive must be exactly the data: no trailing garbage beyond the end-of-central-directory comment
    eocd = data.rfind(b"PK\x05\x06")
    if eocd < 0 or eocd + 22 + int.from_bytes(data[eocd + 20:eocd + 22], "little") != len(data):
        bad.append(("incomplete-archive", "end of central directory record is not at the end of the data (length %d)" % len(data)))
    get = lambda n: z.read(n)
    if fmt == "epub":
        if not names or names[0] != "mimetype" or get("mimetype") != b"application/epub+zip":
            bad.append(("epub-mimetype", "mimetype is not the first member with the EPUB media type"))
        for n in ("META-INF/container.xml", "OEBPS/main.opf", "OEBPS/nav.xhtml", "OEBPS/main.xhtml"):
            if n not in names: bad.append(("member-missing", "%s missing from the EPUB" % n))
        if not bad:
            roots = parse_xml_attrs(get("META-INF/container.xml"), "rootfile", "full-path")
            if roots != ["OEBPS/main.opf"]: bad.append(("epub-container", "container.xml names %s" % roots))
            hrefs = parse_xml_attrs(get("OEBPS/main.opf"), "item", "href")
            for h in ("nav.xhtml", "main.xhtml"):
                if h not in hrefs: bad.append(("epub-manifest", "package document does not list %s" % h))
            for h in hrefs:
                if "OEBPS/" + h not in names: bad.append(("epub-manifest", "package document lists %s which is not in the archive" % h))
            main = get("OEBPS/main.xhtml")
            body = lambda b: re.search(rb"<body>(.*)</body>", b, re.S).group(1) if re.search(rb"<body>(.*)</body>", b, re.S) else b
            if mask_imgs(body(main)) != mask_imgs(body(plain["html"])):
                bad.append(("main-document-differs", "OEBPS/main.xhtml body is not the HTML rendering (asset paths aside)"))
            refs = re.findall(rb'(?:src|href)="(assets/[^"]+)"', main)
            if have_dir:
                for r in refs:
                    if "OEBPS/" + r.decode() not in names: bad.append(("asset-missing", "main.xhtml references %s which is not in the archive" % r.decode()))
    elif fmt == "odt":
        info = z.infolist()
        if not names or names[0] != "mimetype" or info[0].compress_type != zipfile.ZIP_STORED or get("mimetype") != b"application/vnd.oasis.opendocument.text":
            bad.append(("odt-mimetype", "mimetype is not the first member, stored, with the OpenDocument text media type"))
        for n in ("content.xml", "styles.xml", "meta.xml", "settings.xml", "META-INF/manifest.xml"):
            if n not in names: bad.append(("member-missing", "%s missing from the ODT" % n))
        if not bad:
            paths = parse_xml_attrs(get("META-INF/manifest.xml"), "manifest:file-entry", "manifest:full-path")
            for n in ("content.xml", "styles.xml", "meta.xml", "settings.xml"):
                if n not in paths: bad.append(("odt-manifest", "manifest does not list %s" % n))
            for p_ in paths:
                if p_ != "/" and not p_.endswith("/") and p_ not in names and have_dir:
                    bad.append(("odt-manifest", "manifest lists %s which is not in the archive" % p_))
            text = lambda b: (re.search(rb"<office:text>(.*)</office:text>", b, re.S) or re.search(rb"(.*)", b, re.S)).group(1)
            if mask_assets(text(get("content.xml"))) != mask_assets(text(plain["fodt"])):
                bad.append(("main-document-differs", "content.xml text is not the flat OpenDocument rendering (asset paths aside)"))
            if have_dir:
                for r in re.findall(rb'xlink:href="(Pictures/[^"]+)"', get("content.xml")):
                    if r.decode() not in names: bad.append(("asset-missing", "content.xml references %s which is not in the archive" % r.decode()))
                    # (an OpenDocument consumer takes the members of the package from the manifest)
                    elif r.decode() not in paths: bad.append(("odt-manifest", "content.xml references %s, which is in the archive but not listed in the manifest" % r.decode()))
                for n in names:
                    if n.startswith("Pictures/") and not n.endswith("/") and n not in paths: bad.append(("odt-manifest", "the archive contains %s, which the manifest does not list" % n))
    elif fmt == "bundlezip":
        for n in ("info.json", "text.markdown", "text.html"):
            if n not in names: bad.append(("member-missing", "%s missing from the TextBundle" % n))
        if not bad:
            import json
            try: json.loads(get("info.json"))
            except Exception as e: bad.append(("info-json", "info.json is not JSON: %s" % e))
            html = get("text.html")
            body = lambda b: re.search(rb"<body>(.*)</body>", b, re.S).group(1) if re.search(rb"<body>(.*)</body>", b, re.S) else b
            if mask_imgs(body(html)) != mask_imgs(body(plain["html"])):
                bad.append(("main-document-differs", "text.html body is not the HTML rendering (asset paths aside)"))
            refs = re.findall(rb'(?:src|href)="(assets/[^"]+)"', html)
            if have_dir:
                for r in refs:
                    if r.decode() not in names: bad.append(("asset-missing", "text.html references %s which is not in the archive" % r.decode()))
            # text.markdown is the source with every asset URL replaced by the path text.html uses for it
            md = get("text.markdown")
            srcs = re.findall(rb'<img src="([^"]+)"', html)
            if len(md.split(b"\n")) != len(doc.split(b"\n")):
                bad.append(("text-markdown", "text.markdown has a different number of lines than the source"))
            else:
                left = [u for u in re.findall(rb"!\[[^\]]*\]\(([^) ]+)", md)] + re.findall(rb"^\[pic\d+\]: (\S+)", md, re.M)
                stale = [u for u in left if not u.startswith(b"assets/")]
                if stale:
                    bad.append(("text-markdown", "text.markdown still refers to %s although text.html and the package use asset paths" % [s.decode() for s in stale]))
                elif have_dir:
                    for u in left:
                        if u.decode() not in names: bad.append(("asset-missing", "text.markdown references %s which is not in the archive" % u.decode()))
                if mask_assets(md) != mask_urls(doc, files):
                    bad.append(("text-markdown", "text.markdown is not the source with asset paths substituted"))
    elif fmt == "itmz":
        if "mapdata.xml" not in names: bad.append(("member-missing", "mapdata.xml missing from the ITMZ"))
        else:
            m = re.sub(UUID.replace(b"a-f", b"a-fA-F"), b"UUID", get("mapdata.xml")); p2 = re.sub(UUID.replace(b"a-f", b"a-fA-F"), b"UUID", plain["itmz"])
            if m.rstrip() != p2.rstrip(): bad.append(("main-document-differs", "mapdata.xml is not the ITMZ rendering"))
    return bad


def mask_imgs(b):
    b = re.sub(rb'src="[^"]*"', b'src="X"', b)
    return re.sub(rb'<link type="text/css" rel="stylesheet" href="[^"]*"/>', b"<CSS/>", b)


def mask_urls(doc, files):
    """the source with every image / css URL occurrence that becomes an asset replaced by ASSET"""
    out = doc
    def rep_img(m): return m.group(1) + b"ASSET" + m.group(3)
    out = re.sub(rb"(!\[[^\]]*\]\()([^) ]+)([^)]*\))", rep_img, out)
    used = set(re.findall(rb"!\[[^\]]*\]\[(pic\d+)\]", doc))
    def rep_def(m): return m.group(1) + b"ASSET" if m.group(2) in used else m.group(0)
    out = re.sub(rb"^(\[(pic\d+)\]: )\S+", rep_def, out, flags=re.M)
    out = re.sub(rb"^(CSS: )\S+", rb"\1ASSET", out, flags=re.M)
    return out


def run(rep, tier, seed):
    rep.cov["trusted_base"] = TRUSTED
    import tr_packages
    terr = None
    try:
        rep.cov["translated"] = tr_packages.main()["functions"]
    except Exception as e:
        terr = "%s: %s" % (type(e).__name__, e)
    res = common.coq_prove("Properties_C09")
    if terr: res = dict(res, ok=False, failed="translation failed (%s)" % terr)
    rep.add_obligations(res, "Properties_C09")
    rng = random.Random("C09-%d" % seed)
    root = os.path.join(common.BUILD, "run", "C09.%d" % os.getpid())
    bad = []
    try:
        files = make_assets(root)
        n = 60 if tier == "quick" else 3000
        docs = [gen_doc(rng, files) for _ in range(n)]
        docs += [b"", b"\n", b"Title: only metadata\n", b"![lonely](one.png)\n", b"![a](one.png)![b](one.png)\n\n![c][pic0]\n\n[pic0]: two.png\n\n![d](img/three.png)\n"]
        plain = {}
        for f in ("html", "fodt", "itmz"):
            ext = BASE | (E["complete"] if f == "html" else 0)
            plain[f] = tchk.convert([(d, f, ext, 0) for d in docs], data=(f == "fodt"), string_api=(f == "itmz"))
        total = valid = 0
        for have_dir in (True, False):
            for fmt in ("epub", "odt", "bundlezip", "itmz"):
                rs = tchk.convert([(d, fmt, BASE, 0) for d in docs], data=True, directory=root if have_dir else None)
                for k, (d, r) in enumerate(zip(docs, rs)):
                    total += 1
                    case = dict(doc=d.decode("utf-8", "replace"), format=fmt, directory=have_dir)
                    if not r.ok():
                        bad.append(("impl-crash", "conversion failed: " + r.raw[:200], case)); continue
                    pl = {f: plain[f][k].out for f in plain}
                    errs = check_archive(fmt, r.out, d, pl, have_dir, files)
                    if not errs: valid += 1
                    for kind, what in errs: bad.append((kind, "%s (%s, directory %s)" % (what, fmt, "given" if have_dir else "NULL"), case))
    finally:
        shutil.rmtree(root, ignore_errors=True)
    rep.cov["evaluations"] = total
    rep.cov["archives_fully_valid"] = valid
    rep.cov["distinct_nontrivial"] = len(set(docs))
    rep.cov["rule"] = ("documents with 0..5 images (inline, titled, figure, reference style with the definition mid-document or at the end, repeated files, nested directories, "
                       "1-byte / 3-byte / 10 KB files), css metadata, titles with reserved characters, headings, plus degenerate documents, x {epub, odt, bundlezip, itmz} "
                       "x {directory given, NULL}: zipfile opens it, every member passes its CRC, end record at the very end, required members and manifest entries, main document == plain rendering "
                       "modulo asset paths, every referenced asset path is a member (directory given), text.markdown == source with asset paths substituted")
    rep.cov["samples"] = [docs[0].decode("utf-8", "replace")[:300]]
    rep.assumptions += TRUSTED[1:]
    seen = set()
    for kind, what, c in bad:
        if kind in seen: continue
        seen.add(kind)
        rep.violation(kind, what, dict(case=c))
    if not res["ok"] and not bad:
        rep.violation("proof-broken", "Properties_C09 no longer checks: %s" % res["failed"],
                      dict(no_failing_input=True, broken="obligations of coq/props/Properties_C09.v (%s)" % res["failed"], coq_output=res.get("output", "")[-3000:]))


def replay(rep, r):
    rep.cov.update(evaluations=1, distinct_nontrivial=1, obligations=1, discharged=1, checker_cmd="replay", rule="replay")
    c = r.get("case", r)
    rep.cov["samples"] = [c.get("doc", "")[:200]]
    root = os.path.join(common.BUILD, "run", "C09.%d" % os.getpid())
    try:
        files = make_assets(root)
        d = c["doc"].encode(); fmt = c["format"]
        plain = {"html": tchk.convert([(d, "html", BASE | E["complete"], 0)])[0].out, "fodt": tchk.convert([(d, "fodt", BASE, 0)], data=True)[0].out,
                 "itmz": tchk.convert([(d, "itmz", BASE, 0)], string_api=True)[0].out}
        o = tchk.convert([(d, fmt, BASE, 0)], data=True, directory=root if c.get("directory") else None)[0]
        errs = check_archive(fmt, o.out, d, plain, c.get("directory"), files)
        try:
            z = zipfile.ZipFile(io.BytesIO(o.out))
            for i in z.infolist(): print(i.filename, i.compress_type, i.file_size)
            for n in ("text.markdown",):
                if n in z.namelist(): print(z.read(n).decode("utf-8", "replace"))
        except Exception as e:
            print("zip:", e)
        print(errs)
        for kind, what in errs[:1]: rep.violation(kind, what, r)
    finally:
        shutil.rmtree(root, ignore_errors=True)
