#!/usr/bin/env python3
"""Single entry point: check.py <ID> [--tier quick|thorough] [--replay file]   (see DESIGN.md)"""
import argparse, importlib, json, os, sys, traceback
sys.path.insert(0, os.path.join(os.path.dirname(os.path.abspath(__file__)), "tools"))
sys.path.insert(0, os.path.dirname(os.path.abspath(__file__)))
import common

LEVELS = {}

def main():
    ap = argparse.ArgumentParser()
    ap.add_argument("pid")
    ap.add_argument("--tier", default=os.environ.get("VERIF_TIER", "quick"), choices=["quick", "thorough"])
    ap.add_argument("--replay")
    a = ap.parse_args()
    seed = int(os.environ.get("VERIF_SEED", "0") or 0)
    mod = importlib.import_module("checks." + a.pid.lower())
    rep = common.Report(a.pid, a.tier, seed, getattr(mod, "LEVEL", "proof"))
    try:
        if a.replay:
            common.refresh_gen()
            mod.replay(rep, json.load(open(a.replay)))
        else:
            # replay files of earlier runs describe other trees: start from an empty directory
            import shutil
            shutil.rmtree(os.path.join(common.VERIF, "replays", a.pid), ignore_errors=True)
            common.refresh_gen()
            mod.run(rep, a.tier, seed)
    except Exception as e:
        traceback.print_exc()
        rep.violation("check-crashed", "the check itself failed: %r" % (e,),
                      dict(no_failing_input=True, broken="check infrastructure: %r" % (e,)))
    sys.exit(rep.finish())

if __name__ == "__main__":
    main()
