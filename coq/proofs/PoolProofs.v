(* Proofs about PoolModel: protocol invariant over all well-bracketed histories. *)
From Coq Require Import Lia.
From MMD.lib Require Import Bytes.
From MMD.model Require Import PoolModel.
Local Open Scope N_scope.

Definition handed_ok (h : list addr) (top : nat) (rest : list nat) (i : N) : Prop :=
  NoDup h /\ forall s k, In (s, k) h -> k < NOBJ /\ ((s = top /\ k < i) \/ In s rest).

Definition pool_ok (pd : pooldata) (st : pstate) : Prop :=
  live st = slabs pd /\ NoDup (slabs pd) /\ (forall s, In s (slabs pd) -> (s < fresh st)%nat) /\
  ((slabs pd = [] /\ nxt pd = None /\ lst pd = None /\ handed st = []) \/
   (exists top rest i, slabs pd = top :: rest /\ nxt pd = Some (top, i) /\ lst pd = Some top /\
                       i <= NOBJ /\ handed_ok (handed st) top rest i)).

Definition PInv (d : nat) (st : pstate) : Prop :=
  count st = Z.of_nat d /\
  match d with
  | O => live st = [] /\ handed st = [] /\ (pool st = None \/ pool st = Some (mkpd [] None None))
  | S _ => exists pd, pool st = Some pd /\ pool_ok pd st
  end.

Lemma pinv_init : PInv 0 pinit.
Proof. unfold PInv, pinit; cbn. auto. Qed.

Lemma memb_true x l : In x l -> memb x l = true.
Proof.
  intros H. unfold memb. apply existsb_exists. exists x. split; [exact H|apply Nat.eqb_refl].
Qed.

Lemma filter_out_all (l : list nat) : filter (fun x => negb (memb x l)) l = [].
Proof.
  assert (G : forall m, (forall x, In x m -> In x l) -> filter (fun x => negb (memb x l)) m = []).
  { induction m as [|x m IH]; intros H; [reflexivity|]. cbn [filter].
    rewrite memb_true by (apply H; left; reflexivity). cbn [negb]. apply IH.
    intros y Hy. apply H. right; exact Hy. }
  apply G. auto.
Qed.

(* what one well-bracketed step guarantees *)
Definition depth_after (d : nat) (o : pop) : nat :=
  match o with PInit => S d | PDrain => pred d | _ => d end.

Definition op_allowed (d : nat) (o : pop) : bool :=
  match o with
  | PInit => true
  | PAlloc => (0 <? d)%nat
  | PDrain => (0 <? d)%nat
  | PFree => (d =? 0)%nat
  end.

Lemma pinv_S d st pd : count st = Z.of_nat (S d) -> pool st = Some pd -> pool_ok pd st -> PInv (S d) st.
Proof. intros H1 H2 H3. split; [exact H1|]. exists pd. split; assumption. Qed.

Lemma pool_ok_ne pd st top rest i :
  live st = slabs pd -> NoDup (slabs pd) -> (forall s, In s (slabs pd) -> (s < fresh st)%nat) ->
  slabs pd = top :: rest -> nxt pd = Some (top, i) -> lst pd = Some top -> i <= NOBJ ->
  handed_ok (handed st) top rest i -> pool_ok pd st.
Proof.
  intros H1 H2 H3 H4 H5 H6 H7 H8. split; [exact H1|]. split; [exact H2|]. split; [exact H3|].
  right. exists top, rest, i. auto.
Qed.

Lemma alloc_step d st : PInv (S d) st ->
  exists st' a, pstep st PAlloc = Ok (st', Some a) /\ PInv (S d) st' /\
    ~ In a (handed st) /\ handed st' = a :: handed st /\ In (fst a) (live st') /\ snd a < NOBJ /\
    freed st' = freed st /\ (forall x, In x (live st) -> In x (live st')).
Proof.
  intros [Hc (pd & Hp & Hlive & Hnd & Hfr & Hshape)].
  unfold pstep. rewrite Hp.
  destruct Hshape as [(Hs & Hn & Hl & Hh) | (top & rest & i & Hs & Hn & Hl & Hi & Hnd' & Hin)].
  - (* freshly initialised or drained pool: NULL == NULL *)
    rewrite Hn, Hl. cbn [ptr_eq add_slab]. cbn [nxt lst ptr_lt]. rewrite Nat.eqb_refl. cbn [andb].
    change (0 <? NOBJ) with true. cbv iota. cbn [slabs count fresh live freed handed].
    eexists; eexists; split; [reflexivity|].
    rewrite Hh, Hs in *. cbn [handed live fst snd freed].
    split.
    { eapply pinv_S; [exact Hc|reflexivity|].
      eapply (pool_ok_ne _ _ (fresh st) [] (0 + 1)); cbn [live slabs fresh nxt lst handed]; try reflexivity.
      - rewrite Hlive. reflexivity.
      - constructor; [intros []|constructor].
      - intros s [<-|[]]. lia.
      - unfold NOBJ; lia.
      - split; [constructor; [intros []|constructor]|].
        intros s k [E|[]]. injection E as <- <-. split; [unfold NOBJ; lia|left; split; [reflexivity|lia]]. }
    split. { intros []. }
    split. { reflexivity. }
    split. { left; reflexivity. }
    split. { unfold NOBJ; lia. }
    split. { reflexivity. }
    intros x Hx. right; exact Hx.
  - rewrite Hn, Hl. cbn [ptr_eq]. rewrite Nat.eqb_refl. cbn [andb].
    destruct (N.eqb_spec i NOBJ) as [Hfull|Hnot].
    + (* slab exhausted: next == last, add a slab *)
      cbn [add_slab nxt lst ptr_lt]. rewrite Nat.eqb_refl. cbn [andb].
      change (0 <? NOBJ) with true. cbv iota. cbn [slabs count fresh live freed handed].
      eexists; eexists; split; [reflexivity|]. cbn [handed live fst snd freed].
      assert (Hnew : forall k, ~ In (fresh st, k) (handed st)).
      { intros k Hk. destruct (Hin _ _ Hk) as [_ [[E _]|E]].
        - assert (top < fresh st)%nat by (apply Hfr; rewrite Hs; left; reflexivity). lia.
        - assert (fresh st < fresh st)%nat by (apply Hfr; rewrite Hs; right; exact E). lia. }
      split.
      { eapply pinv_S; [exact Hc|reflexivity|].
        eapply (pool_ok_ne _ _ (fresh st) (slabs pd) (0 + 1)); cbn [live slabs fresh nxt lst handed]; try reflexivity.
        - rewrite Hlive. reflexivity.
        - constructor; [|exact Hnd]. intros Hx. apply Hfr in Hx. lia.
        - intros s [<-|Hx]; [lia|]. apply Hfr in Hx. lia.
        - unfold NOBJ; lia.
        - split; [constructor; [apply Hnew|exact Hnd']|].
          intros s k [E|H].
          + injection E as <- <-. split; [unfold NOBJ; lia|left; split; [reflexivity|lia]].
          + split; [apply (Hin _ _ H)|]. right. rewrite Hs.
            destruct (Hin _ _ H) as [_ [[-> _]|Hr]]; [left; reflexivity|right; exact Hr]. }
      split. { apply Hnew. }
      split. { reflexivity. }
      split. { left; reflexivity. }
      split. { unfold NOBJ; lia. }
      split. { reflexivity. }
      intros x Hx. right; exact Hx.
    + (* room in the current slab *)
      rewrite Hn, Hl. cbn [nxt lst ptr_lt]. rewrite Nat.eqb_refl. cbn [andb].
      destruct (N.ltb_spec i NOBJ) as [Hlt|Hge]; [|lia].
      eexists; eexists; split; [reflexivity|]. cbn [handed live fst snd freed count].
      assert (Hnew : ~ In (top, i) (handed st)).
      { intros Hk. destruct (Hin _ _ Hk) as [_ [[_ E]|E]]; [lia|].
        rewrite Hs in Hnd. inversion Hnd; subst. contradiction. }
      split.
      { eapply pinv_S; [exact Hc|reflexivity|].
        eapply (pool_ok_ne _ _ top rest (i + 1)); cbn [live slabs fresh nxt lst handed]; try assumption; try reflexivity.
        - lia.
        - split; [constructor; [exact Hnew|exact Hnd']|].
          intros s k [E|H].
          + injection E as <- <-. split; [exact Hlt|left; split; [reflexivity|lia]].
          + split; [apply (Hin _ _ H)|].
            destruct (Hin _ _ H) as [_ [[-> Hk]|Hr]]; [left; split; [reflexivity|lia]|right; exact Hr]. }
      split. { exact Hnew. }
      split. { reflexivity. }
      split. { rewrite Hlive, Hs. left; reflexivity. }
      split. { exact Hlt. }
      split. { reflexivity. }
      auto.
Qed.

Lemma init_step d st : PInv d st ->
  exists st', pstep st PInit = Ok (st', None) /\ PInv (S d) st' /\
    handed st' = handed st /\ freed st' = freed st /\ (forall x, In x (live st) -> In x (live st')).
Proof.
  intros [Hc Hd]. unfold pstep.
  destruct d as [|d].
  - destruct Hd as (Hl & Hh & [Hp|Hp]); rewrite Hp.
    + cbn [add_slab set_pool pool count fresh live freed handed].
      eexists; split; [reflexivity|]. cbn [handed freed live].
      split.
      { eapply pinv_S; [cbn [count]; lia|reflexivity|].
        eapply (pool_ok_ne _ _ (fresh st) [] 0); cbn [live slabs fresh nxt lst handed]; try reflexivity.
        - rewrite Hl. reflexivity.
        - constructor; [intros []|constructor].
        - intros s [<-|[]]. lia.
        - unfold NOBJ; lia.
        - rewrite Hh. split; [constructor|intros s k []]. }
      split. { reflexivity. }
      split. { reflexivity. }
      intros x Hx. right; exact Hx.
    + eexists; split; [reflexivity|]. cbn [handed freed live].
      split.
      { eapply pinv_S; [cbn [count]; lia|exact Hp|].
        split; [cbn [live slabs]; exact Hl|]. split; [constructor|]. split; [intros s []|].
        left. cbn [slabs nxt lst handed]. auto. }
      auto.
  - destruct Hd as (pd & Hp & Hok). rewrite Hp.
    eexists; split; [reflexivity|]. cbn [handed freed live].
    split.
    { eapply pinv_S; [cbn [count]; lia|exact Hp|exact Hok]. }
    auto.
Qed.

Lemma drain_step d st : PInv (S d) st ->
  exists st', pstep st PDrain = Ok (st', None) /\ PInv d st' /\
    (d = O -> live st' = [] /\ handed st' = []) /\
    (d <> O -> st' = mkps (pool st) (count st - 1)%Z (fresh st) (live st) (freed st) (handed st)).
Proof.
  intros [Hc (pd & Hp & Hlive & Hnd & Hfr & Hshape)]. unfold pstep. rewrite Hc, Hp.
  destruct d as [|d].
  - change (Z.of_nat 1 - 1 =? 0)%Z with true. cbv iota. cbn [drain_pool fresh live freed].
    eexists; split; [reflexivity|]. rewrite Hlive, filter_out_all.
    split; [|split; [intros _; split; reflexivity|intros H; contradiction]].
    split; [reflexivity|]. cbn [live handed pool]. auto.
  - destruct (Z.eqb_spec (Z.of_nat (S (S d)) - 1) 0) as [E|_]; [lia|].
    eexists; split; [reflexivity|]. split; [|split; [intros H; discriminate|intros _; reflexivity]].
    split; [cbn [count]; lia|]. exists pd. split; [reflexivity|].
    unfold pool_ok; cbn [live slabs fresh nxt lst handed]. auto.
Qed.

Lemma free_step st : PInv 0 st ->
  exists st', pstep st PFree = Ok (st', None) /\ PInv 0 st' /\ pool st' = None /\ live st' = [].
Proof.
  intros [Hc (Hl & Hh & Hp)]. unfold pstep. rewrite Hc. change (Z.of_nat 0 =? 0)%Z with true. cbv iota.
  destruct Hp as [Hp|Hp]; rewrite Hp.
  - eexists; split; [reflexivity|]. repeat split; auto.
  - cbn [drain_pool set_pool slabs fresh live freed handed count memb existsb negb].
    eexists; split; [reflexivity|]. cbn [pool live].
    assert (Hf : filter (fun _ : nat => true) (live st) = []) by (rewrite Hl; reflexivity).
    rewrite Hf. repeat split; auto.
Qed.

(* ---- whole histories *)
Lemma run_inv ops : forall d st, PInv d st -> well_bracketed d ops = true ->
  exists st' rs d', prun st ops = Ok (st', rs) /\ PInv d' st'.
Proof.
  induction ops as [|o t IH]; intros d st Hinv Hwb; cbn [prun].
  - exists st, [], d. split; [reflexivity|exact Hinv].
  - destruct o; cbn [well_bracketed] in Hwb.
    + destruct (init_step d st Hinv) as (st1 & -> & Hinv1 & _). cbn [bind fst snd].
      destruct (IH _ _ Hinv1 Hwb) as (st' & rs & d' & -> & Hinv'). cbn [bind fst snd]. eauto.
    + apply andb_true_iff in Hwb as [Hd Hwb]. destruct d as [|d]; [discriminate|].
      destruct (alloc_step d st Hinv) as (st1 & a & -> & Hinv1 & _). cbn [bind fst snd].
      destruct (IH _ _ Hinv1 Hwb) as (st' & rs & d' & -> & Hinv'). cbn [bind fst snd]. eauto.
    + destruct d as [|d]; [discriminate|].
      destruct (drain_step d st Hinv) as (st1 & -> & Hinv1 & _). cbn [bind fst snd].
      destruct (IH _ _ Hinv1 Hwb) as (st' & rs & d' & -> & Hinv'). cbn [bind fst snd]. eauto.
    + apply andb_true_iff in Hwb as [Hd Hwb]. destruct d as [|d]; [|discriminate].
      destruct (free_step st Hinv) as (st1 & -> & Hinv1 & _). cbn [bind fst snd].
      destruct (IH _ _ Hinv1 Hwb) as (st' & rs & d' & -> & Hinv'). cbn [bind fst snd]. eauto.
Qed.

(* the state reached by a well-bracketed prefix, and its depth *)
Fixpoint depth_of (d : nat) (ops : list pop) : nat :=
  match ops with [] => d | o :: t => depth_of (depth_after d o) t end.

Lemma run_inv_depth ops : forall d st, PInv d st -> well_bracketed d ops = true ->
  exists st' rs, prun st ops = Ok (st', rs) /\ PInv (depth_of d ops) st'.
Proof.
  induction ops as [|o t IH]; intros d st Hinv Hwb; cbn [prun depth_of].
  - exists st, []. split; [reflexivity|exact Hinv].
  - destruct o; cbn [well_bracketed depth_after] in *.
    + destruct (init_step d st Hinv) as (st1 & -> & Hinv1 & _). cbn [bind fst snd].
      destruct (IH _ _ Hinv1 Hwb) as (st' & rs & -> & Hinv'). cbn [bind fst snd]. eauto.
    + apply andb_true_iff in Hwb as [Hd Hwb]. destruct d as [|d]; [discriminate|].
      destruct (alloc_step d st Hinv) as (st1 & a & -> & Hinv1 & _). cbn [bind fst snd].
      destruct (IH _ _ Hinv1 Hwb) as (st' & rs & -> & Hinv'). cbn [bind fst snd]. eauto.
    + destruct d as [|d]; [discriminate|].
      destruct (drain_step d st Hinv) as (st1 & -> & Hinv1 & _). cbn [bind fst snd pred].
      destruct (IH _ _ Hinv1 Hwb) as (st' & rs & -> & Hinv'). cbn [bind fst snd]. eauto.
    + apply andb_true_iff in Hwb as [Hd Hwb]. destruct d as [|d]; [|discriminate].
      destruct (free_step st Hinv) as (st1 & -> & Hinv1 & _). cbn [bind fst snd].
      destruct (IH _ _ Hinv1 Hwb) as (st' & rs & -> & Hinv'). cbn [bind fst snd]. eauto.
Qed.

(* slabs are freed only by the step that brings the count to zero (or by free at count zero) *)
Lemma no_early_free d st o st' r :
  PInv d st -> op_allowed d o = true -> pstep st o = Ok (st', r) ->
  freed st' <> freed st -> count st' = 0%Z.
Proof.
  intros Hinv Hal Hstep Hne. destruct o; cbn [op_allowed] in Hal.
  - destruct (init_step d st Hinv) as (st1 & E & _ & _ & Hf & _). rewrite E in Hstep.
    injection Hstep as <- <-. contradiction.
  - destruct d as [|d]; [discriminate|].
    destruct (alloc_step d st Hinv) as (st1 & a & E & _ & _ & _ & _ & _ & Hf & _). rewrite E in Hstep.
    injection Hstep as <- <-. contradiction.
  - destruct d as [|d]; [discriminate|].
    destruct (drain_step d st Hinv) as (st1 & E & [Hc _] & _ & Hk). rewrite E in Hstep.
    injection Hstep as <- <-. destruct d as [|d]; [exact Hc|].
    rewrite (Hk ltac:(discriminate)) in Hne. cbn [freed] in Hne. contradiction.
  - destruct d as [|d]; [|discriminate].
    destruct (free_step st Hinv) as (st1 & E & [Hc _] & _). rewrite E in Hstep.
    injection Hstep as <- <-. exact Hc.
Qed.

(* ---- the object index handed out depends only on the history, not on the starting state *)
Definition ni (st : pstate) : N :=
  match pool st with
  | Some pd => match nxt pd with Some (_, i) => if i =? NOBJ then 0 else i | None => 0 end
  | None => 0
  end.

Lemma alloc_idx d st st' a : PInv (S d) st -> pstep st PAlloc = Ok (st', Some a) ->
  snd a = ni st /\ ni st' = (if snd a + 1 =? NOBJ then 0 else snd a + 1).
Proof.
  intros [Hc (pd & Hp & Hlive & Hnd & Hfr & Hshape)] Hstep.
  unfold pstep in Hstep. unfold ni at 1. rewrite Hp in *.
  destruct Hshape as [(Hs & Hn & Hl & Hh) | (top & rest & i & Hs & Hn & Hl & Hi & Hnd' & Hin)].
  - rewrite Hn, Hl in Hstep. cbn [ptr_eq add_slab nxt lst ptr_lt] in Hstep.
    rewrite Nat.eqb_refl in Hstep. cbn [andb] in Hstep. change (0 <? NOBJ) with true in Hstep.
    cbv iota in Hstep. injection Hstep as <- <-. rewrite Hn. split; reflexivity.
  - rewrite Hn, Hl in Hstep. cbn [ptr_eq] in Hstep. rewrite Nat.eqb_refl in Hstep. cbn [andb] in Hstep.
    rewrite Hn. destruct (N.eqb_spec i NOBJ) as [Hfull|Hnot].
    + cbn [add_slab nxt lst ptr_lt] in Hstep. rewrite Nat.eqb_refl in Hstep. cbn [andb] in Hstep.
      change (0 <? NOBJ) with true in Hstep. cbv iota in Hstep. injection Hstep as <- <-.
      split; reflexivity.
    + rewrite Hn, Hl in Hstep. cbn [nxt lst ptr_lt] in Hstep. rewrite Nat.eqb_refl in Hstep.
      cbn [andb] in Hstep. destruct (N.ltb_spec i NOBJ) as [Hlt|Hge]; [|lia].
      injection Hstep as <- <-. split; reflexivity.
Qed.

Lemma init_ni d st st' : PInv d st -> pstep st PInit = Ok (st', None) ->
  ni st' = match d with O => 0 | S _ => ni st end.
Proof.
  intros [Hc Hd] Hstep. unfold pstep in Hstep. destruct d as [|d].
  - destruct Hd as (Hl & Hh & [Hp|Hp]); rewrite Hp in Hstep; injection Hstep as <-;
      unfold ni; cbn [pool]; rewrite ?Hp; reflexivity.
  - destruct Hd as (pd & Hp & Hok). rewrite Hp in Hstep. injection Hstep as <-.
    unfold ni. cbn [pool]. rewrite Hp. reflexivity.
Qed.

Definition idxs (rs : list (option addr)) : list (option N) := map (option_map snd) rs.

Lemma run_idx_indep ops : forall d st1 st2,
  PInv d st1 -> PInv d st2 -> (d <> O -> ni st1 = ni st2) -> well_bracketed d ops = true ->
  exists s1 r1 s2 r2, prun st1 ops = Ok (s1, r1) /\ prun st2 ops = Ok (s2, r2) /\ idxs r1 = idxs r2.
Proof.
  induction ops as [|o t IH]; intros d st1 st2 H1 H2 Hni Hwb; cbn [prun].
  - exists st1, [], st2, []. auto.
  - destruct o; cbn [well_bracketed] in Hwb.
    + destruct (init_step d st1 H1) as (a1 & E1 & I1 & _).
      destruct (init_step d st2 H2) as (a2 & E2 & I2 & _).
      pose proof (init_ni _ _ _ H1 E1) as N1. pose proof (init_ni _ _ _ H2 E2) as N2.
      rewrite E1, E2. cbn [bind fst snd].
      destruct (IH (S d) a1 a2 I1 I2) as (s1 & r1 & s2 & r2 & -> & -> & Hr); [|exact Hwb|].
      * intros _. rewrite N1, N2. destruct d; [reflexivity|apply Hni; discriminate].
      * cbn [bind fst snd]. do 4 eexists. split; [reflexivity|]. split; [reflexivity|].
        cbn [idxs map option_map]. f_equal. exact Hr.
    + apply andb_true_iff in Hwb as [Hd Hwb]. destruct d as [|d]; [discriminate|].
      destruct (alloc_step d st1 H1) as (a1 & x1 & E1 & I1 & _).
      destruct (alloc_step d st2 H2) as (a2 & x2 & E2 & I2 & _).
      destruct (alloc_idx _ _ _ _ H1 E1) as [X1 N1]. destruct (alloc_idx _ _ _ _ H2 E2) as [X2 N2].
      rewrite E1, E2. cbn [bind fst snd].
      assert (Hx : snd x1 = snd x2) by (rewrite X1, X2; apply Hni; discriminate).
      destruct (IH (S d) a1 a2 I1 I2) as (s1 & r1 & s2 & r2 & -> & -> & Hr); [|exact Hwb|].
      * intros _. rewrite N1, N2, Hx. reflexivity.
      * cbn [bind fst snd]. do 4 eexists. split; [reflexivity|]. split; [reflexivity|].
        cbn [idxs map option_map]. rewrite Hx. f_equal. exact Hr.
    + destruct d as [|d]; [discriminate|].
      destruct (drain_step d st1 H1) as (a1 & E1 & I1 & _ & K1).
      destruct (drain_step d st2 H2) as (a2 & E2 & I2 & _ & K2).
      rewrite E1, E2. cbn [bind fst snd].
      destruct (IH d a1 a2 I1 I2) as (s1 & r1 & s2 & r2 & -> & -> & Hr); [|exact Hwb|].
      * intros Hd. rewrite (K1 Hd), (K2 Hd). unfold ni. cbn [pool]. apply Hni. discriminate.
      * cbn [bind fst snd]. do 4 eexists. split; [reflexivity|]. split; [reflexivity|].
        cbn [idxs map option_map]. f_equal. exact Hr.
    + apply andb_true_iff in Hwb as [Hd Hwb]. destruct d as [|d]; [|discriminate].
      destruct (free_step st1 H1) as (a1 & E1 & I1 & _).
      destruct (free_step st2 H2) as (a2 & E2 & I2 & _).
      rewrite E1, E2. cbn [bind fst snd].
      destruct (IH O a1 a2 I1 I2) as (s1 & r1 & s2 & r2 & -> & -> & Hr); [|exact Hwb|].
      * intros Hq; contradiction.
      * cbn [bind fst snd]. do 4 eexists. split; [reflexivity|]. split; [reflexivity|].
        cbn [idxs map option_map]. f_equal. exact Hr.
Qed.

(* freshness over whole histories: every address returned is new in its epoch, inside a live slab *)
Lemma run_alloc_fresh pre : forall d st, PInv d st -> well_bracketed d (pre ++ [PAlloc]) = true ->
  exists st1 rs st2 a,
    prun st pre = Ok (st1, rs) /\ pstep st1 PAlloc = Ok (st2, Some a) /\
    ~ In a (handed st1) /\ In (fst a) (live st2) /\ snd a < NOBJ /\ handed st2 = a :: handed st1.
Proof.
  induction pre as [|o t IH]; intros d st Hinv Hwb.
  - cbn [app well_bracketed] in Hwb. apply andb_true_iff in Hwb as [Hd _].
    destruct d as [|d]; [discriminate|].
    destruct (alloc_step d st Hinv) as (st2 & a & E & _ & Hnew & Hh & Hl & Hi & _).
    exists st, [], st2, a. cbn [prun]. auto 10.
  - cbn [app] in Hwb. cbn [prun].
    assert (G : forall d1 st1 r, pstep st o = Ok (st1, r) -> PInv d1 st1 ->
                well_bracketed d1 (t ++ [PAlloc]) = true ->
                exists st1' rs st2 a,
                  (do r0 <- Ok (st1, r); do r2 <- prun (fst r0) t; Ok (fst r2, snd r0 :: snd r2)) = Ok (st1', rs) /\
                  pstep st1' PAlloc = Ok (st2, Some a) /\
                  ~ In a (handed st1') /\ In (fst a) (live st2) /\ snd a < NOBJ /\ handed st2 = a :: handed st1').
    { intros d1 st1 r E I W. destruct (IH d1 st1 I W) as (s1 & rs & s2 & a & Hp & Hs & Hrest).
      cbn [bind fst snd]. rewrite Hp. cbn [bind fst snd]. exists s1, (r :: rs), s2, a. auto. }
    destruct o; cbn [well_bracketed] in Hwb.
    + destruct (init_step d st Hinv) as (st1 & E & I & _). rewrite E. eapply G; eauto.
    + apply andb_true_iff in Hwb as [Hd Hwb]. destruct d as [|d]; [discriminate|].
      destruct (alloc_step d st Hinv) as (st1 & a & E & I & _). rewrite E. eapply G; eauto.
    + destruct d as [|d]; [discriminate|].
      destruct (drain_step d st Hinv) as (st1 & E & I & _). rewrite E. eapply G; eauto.
    + apply andb_true_iff in Hwb as [Hd Hwb]. destruct d as [|d]; [|discriminate].
      destruct (free_step st Hinv) as (st1 & E & I & _). rewrite E. eapply G; eauto.
Qed.
