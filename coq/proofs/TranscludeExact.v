(* C13: transclusion substitutes exactly.  Files are given in structured form - text pieces alternating
   with markers - and [expand] is plain textual substitution that never includes a file within itself.
   Whenever [expand] succeeds (all targets exist, no include cycle on the way), the model of
   mmd_transclude_source returns exactly that text, for include trees of any depth and width. *)
From Coq Require Import Lia.
From MMD.lib Require Import Bytes BytesFacts.
From MMD.model Require Import TranscludeModel.
From MMD.proofs Require Import TranscludeProofs.
Local Open Scope N_scope.

(* a structured document: (text, marker name) pairs, then a final text *)
Record sdoc := mksd { pieces : list (list N * list N); final : list N }.
Definition src_pieces (ps : list (list N * list N)) : list N :=
  flat_map (fun p => fst p ++ OPEN2 ++ snd p ++ CLOSE2) ps.
Definition src (d : sdoc) : list N := src_pieces (pieces d) ++ final d.

(* texts contain no '{'; names contain neither '{' nor '}', are shorter than the 1000-byte limit, are not
   TOC, not absolute, and do not end in the ".*" wildcard *)
Definition no_byte (x : N) (l : list N) : bool := forallb (fun b => negb (b =? x)) l.
Definition text_ok (t : list N) : bool := no_byte 123 t.
Definition name_ok (n : list N) : bool :=
  no_byte 123 n && no_byte 125 n && Nat.ltb (length n) 990 && negb (bytes_eqb n TOC) && negb (is_abs n) &&
  match rev n with 42 :: 46 :: _ => false | _ => true end.
(* the first byte of a file is ordinary text that cannot start a metadata key or a byte order mark *)
Definition head_ok (l : list N) : bool :=
  match l with h :: _ => negb (is_key_char h) && negb (h =? 58) && negb (h =? 239) && negb (h =? 255) && negb (h =? 123) | [] => false end.
Definition doc_ok (d : sdoc) : bool :=
  forallb (fun p => text_ok (fst p) && name_ok (snd p)) (pieces d) && text_ok (final d) &&
  head_ok (match pieces d with (t, _) :: _ => t | [] => final d end).

Section Exact.
Variable fs : fsys.
Variable fmt : ext_kind.
Variable F : path.                        (* the folder every marker is resolved in *)
Hypothesis F_sep : ends_with_sep F = true.
Variable segs : path -> option sdoc.       (* the structured content of the files *)
Hypothesis fs_segs : forall p, lookup fs p = option_map src (segs p).
Hypothesis segs_ok : forall p d, segs p = Some d -> doc_ok d = true.

(* textual substitution; a file is never expanded inside itself *)
Fixpoint expand (n : nat) (stack : list path) (d : sdoc) {struct n} : option (list N) :=
  match n with
  | O => None
  | S k =>
    (fix go (ps : list (list N * list N)) : option (list N) :=
       match ps with
       | [] => Some (final d)
       | (t, name) :: r =>
         let p := F ++ name in
         if mem_path p stack then None else
         match segs p with
         | Some c => match expand k (stack ++ [p]) c, go r with
                     | Some a, Some b => Some (t ++ a ++ b)
                     | _, _ => None
                     end
         | None => None
         end
       end) (pieces d)
  end.

(* ---- searching for the markers *)
Lemma no_byte_in x l : no_byte x l = true -> forall b, In b l -> b <> x.
Proof.
  unfold no_byte. rewrite forallb_forall. intros H b Hb E. specialize (H b Hb). subst. rewrite N.eqb_refl in H. discriminate.
Qed.

Lemma prefixb_app_l p t : prefixb p (p ++ t) = true.
Proof. apply prefixb_spec. exists t. reflexivity. Qed.
Lemma find_sub_prefix p l : prefixb p l = true -> find_sub p l = Some O.
Proof. intros H. destruct l; cbn [find_sub]; rewrite H; reflexivity. Qed.

Lemma find_sub_cons p y l : prefixb p (y :: l) = false -> find_sub p (y :: l) = option_map S (find_sub p l).
Proof. intros H. cbn [find_sub]. rewrite H. destruct (find_sub p l); reflexivity. Qed.
Lemma prefixb_head x p' y l : (y =? x) = false -> prefixb (x :: p') (y :: l) = false.
Proof. intros H. cbn [prefixb]. rewrite N.eqb_sym, H. reflexivity. Qed.

Lemma find_sub_skip x p' t r : no_byte x t = true -> find_sub (x :: p') (t ++ (x :: p') ++ r) = Some (length t).
Proof.
  induction t as [|y t IH]; intros H.
  - cbn [app length]. apply find_sub_prefix. apply (prefixb_app_l (x :: p') r).
  - cbn [no_byte forallb] in H. apply andb_true_iff in H as [Hy Ht]. apply negb_true_iff in Hy.
    cbn [app]. rewrite (find_sub_cons _ _ _ (prefixb_head x p' y _ Hy)). pose proof (IH Ht) as E. cbn [app] in E. rewrite E. reflexivity.
Qed.

Lemma find_sub_none x p' l : no_byte x l = true -> find_sub (x :: p') l = None.
Proof.
  induction l as [|y l IH]; intros H.
  - reflexivity.
  - cbn [no_byte forallb] in H. apply andb_true_iff in H as [Hy Hl]. apply negb_true_iff in Hy.
    rewrite (find_sub_cons _ _ _ (prefixb_head x p' y _ Hy)), (IH Hl). reflexivity.
Qed.

Lemma add_sep_F : add_trailing_sep F = F.
Proof. unfold add_trailing_sep. rewrite F_sep. reflexivity. Qed.

Lemma head_ok_meta l : head_ok l = true -> meta_first_line_ok l = false.
Proof.
  destruct l as [|h r]; [discriminate|]. cbn [head_ok]. intros H.
  repeat (apply andb_true_iff in H as [H ?]). apply negb_true_iff in H.
  unfold meta_first_line_ok. destruct (h =? 10) eqn:E10.
  - cbn [line_split]. rewrite E10. reflexivity.
  - cbn [line_split]. rewrite E10. destruct (line_split r) as [a b]. cbn [fst key_of_line].
    match goal with Hc : negb (h =? 58) = true |- _ => apply negb_true_iff in Hc; rewrite Hc end. rewrite H. reflexivity.
Qed.

Lemma head_ok_meta_end l : head_ok l = true -> meta_end l = O /\ transclude_base l = None.
Proof. intros H. unfold meta_end, transclude_base. rewrite (head_ok_meta l H). auto. Qed.

Lemma head_ok_bom l : head_ok l = true -> strip_bom l = l.
Proof.
  destruct l as [|h r]; [discriminate|]. cbn [head_ok]. intros H. repeat (apply andb_true_iff in H as [H ?]).
  repeat match goal with Hc : negb (_ =? _) = true |- _ => apply negb_true_iff in Hc; apply N.eqb_neq in Hc end.
  unfold strip_bom. destruct h as [|h]; [reflexivity|].
  destruct r as [|y r']; repeat (destruct h as [h|h|]; try reflexivity; try congruence).
Qed.

(* the head of a document's source is the head of its first text, and it survives expansion *)
Definition first_text (d : sdoc) : list N := match pieces d with (t, _) :: _ => t | [] => final d end.
Lemma src_head d : head_ok (first_text d) = true -> head_ok (src d) = true.
Proof.
  unfold first_text, src. destruct (pieces d) as [|[t n] r]; cbn [src_pieces flat_map app fst].
  - auto.
  - destruct t as [|h t']; [discriminate|]. cbn. auto.
Qed.

Lemma doc_ok_head d : doc_ok d = true -> head_ok (first_text d) = true.
Proof. unfold doc_ok, first_text. intros H. apply andb_true_iff in H as [_ H]. exact H. Qed.

Lemma expand_head n stack d out : doc_ok d = true -> expand n stack d = Some out -> head_ok out = true.
Proof.
  intros Hok He. pose proof (doc_ok_head d Hok) as Hh. destruct n as [|k]; [discriminate|]. cbn [expand] in He.
  unfold first_text in Hh. destruct (pieces d) as [|[t name] r].
  - injection He as <-. exact Hh.
  - destruct (mem_path (F ++ name) stack); [discriminate|]. destruct (segs (F ++ name)) as [c|]; [|discriminate].
    destruct (expand k (stack ++ [F ++ name]) c) as [a|]; [|discriminate].
    match type of He with match ?g with _ => _ end = _ => destruct g as [b|]; [|discriminate] end.
    injection He as <-. destruct t as [|h t']; [discriminate|]. cbn in *. exact Hh.
Qed.

(* ---- one marker *)
Lemma one_marker recurse stack lf t name rest' st :
  text_ok t = true -> name_ok name = true ->
  loop fs fmt recurse F stack (S lf) (t ++ OPEN2 ++ name ++ CLOSE2 ++ rest') st =
  let p := F ++ name in
  if mem_path p stack then
    do r <- loop fs fmt recurse F stack lf (skipn 2 (OPEN2 ++ name ++ CLOSE2 ++ rest')) (mkt (manifest st) true); Ok (t ++ OPEN2 ++ fst r, snd r)
  else
    let st1 := mkt (if mem_path p (manifest st) then manifest st else manifest st ++ [p]) (cyc st) in
    match scan_file fs p with
    | None => do r <- loop fs fmt recurse F stack lf (skipn 2 (OPEN2 ++ name ++ CLOSE2 ++ rest')) st1; Ok (t ++ OPEN2 ++ fst r, snd r)
    | Some buf =>
      do child <- recurse F p (stack ++ [p]) st1 buf;
      do r <- loop fs fmt recurse F stack lf rest' (snd child);
      Ok (t ++ skipn (meta_end (fst child)) (fst child) ++ fst r, snd r)
    end.
Proof.
  intros Ht Hn. unfold name_ok in Hn. repeat (apply andb_true_iff in Hn as [Hn ?]).
  match goal with H : Nat.ltb _ _ = true |- _ => apply Nat.ltb_lt in H; rename H into Hlen end.
  match goal with H : negb (bytes_eqb name TOC) = true |- _ => apply negb_true_iff in H; rename H into Htoc end.
  match goal with H : negb (is_abs name) = true |- _ => apply negb_true_iff in H; rename H into Habs end.
  match goal with H : no_byte 125 name = true |- _ => rename H into Hclose end.
  match goal with H : match rev name with _ => _ end = true |- _ => rename H into Hwild end.
  cbn [loop].
  assert (Eo : find_sub OPEN2 (t ++ OPEN2 ++ name ++ CLOSE2 ++ rest') = Some (length t)).
  { unfold OPEN2. apply (find_sub_skip 123 [123] t). exact Ht. }
  rewrite Eo. rewrite firstn_app_exact, skipn_app_exact.
  assert (Ec : find_sub CLOSE2 (OPEN2 ++ name ++ CLOSE2 ++ rest') = Some (2 + length name)%nat).
  { replace (OPEN2 ++ name ++ CLOSE2 ++ rest') with ((OPEN2 ++ name) ++ CLOSE2 ++ rest') by (rewrite <- app_assoc; reflexivity).
    unfold CLOSE2 at 1 2. rewrite (find_sub_skip 125 [125] (OPEN2 ++ name)).
    - rewrite app_length. reflexivity.
    - unfold no_byte. rewrite forallb_app. cbn [OPEN2 forallb]. cbn. exact Hclose. }
  rewrite Ec.
  assert (E1000 : Nat.leb 1000 (2 + length name) = false) by (apply Nat.leb_gt; lia).
  rewrite E1000.
  assert (Etext : firstn (2 + length name - 2) (skipn 2 (OPEN2 ++ name ++ CLOSE2 ++ rest')) = name).
  { replace (2 + length name - 2)%nat with (length name) by lia. cbn [OPEN2 skipn app]. apply firstn_app_exact. }
  rewrite Etext, Htoc, Habs, add_sep_F.
  assert (Ew : apply_wildcard fmt name (F ++ name) = F ++ name).
  { unfold apply_wildcard. destruct fmt; try reflexivity;
      destruct (rev name) as [|a [|b r0]]; try reflexivity;
      destruct a as [|a]; try reflexivity; repeat (destruct a as [a|a|]; try reflexivity);
      destruct b as [|b]; try reflexivity; repeat (destruct b as [b|b|]; try reflexivity); discriminate. }
  rewrite Ew.
  assert (Eafter : skipn (2 + length name + 2) (OPEN2 ++ name ++ CLOSE2 ++ rest') = rest').
  { replace (OPEN2 ++ name ++ CLOSE2 ++ rest') with ((OPEN2 ++ name ++ CLOSE2) ++ rest') by (rewrite <- !app_assoc; reflexivity).
    replace (2 + length name + 2)%nat with (length (OPEN2 ++ name ++ CLOSE2)) by (rewrite !app_length; cbn; lia).
    apply skipn_app_exact. }
  rewrite Eafter. cbv zeta. destruct (mem_path (F ++ name) stack); [reflexivity|].
  destruct (scan_file fs (F ++ name)); reflexivity.
Qed.

(* ---- the marker loop over the pieces, given the recursion hypothesis for the included files *)
Lemma loop_pieces k (d : sdoc)
  (IHk : forall stack st c out, doc_ok c = true -> expand k stack c = Some out ->
         forall p, exists st', transclude fs fmt k F p stack st (src c) = Ok (out, st')) :
  forall ps stack st out lf,
  forallb (fun p => text_ok (fst p) && name_ok (snd p)) ps = true -> text_ok (final d) = true ->
  (fix go (ps : list (list N * list N)) : option (list N) :=
     match ps with
     | [] => Some (final d)
     | (t, name) :: r =>
       let p := F ++ name in
       if mem_path p stack then None else
       match segs p with
       | Some c => match expand k (stack ++ [p]) c, go r with Some a, Some b => Some (t ++ a ++ b) | _, _ => None end
       | None => None
       end
     end) ps = Some out ->
  (length ps < lf)%nat ->
  exists st', loop fs fmt (transclude fs fmt k) F stack lf (src_pieces ps ++ final d) st = Ok (out, st').
Proof.
  induction ps as [|[t name] r IH]; intros stack st out lf Hps Hfin Hgo Hlf.
  - injection Hgo as <-. cbn [src_pieces flat_map app]. destruct lf as [|lf]; [lia|]. cbn [loop].
    unfold OPEN2. rewrite (find_sub_none 123 [123] (final d) Hfin). eauto.
  - cbn [forallb fst snd] in Hps. apply andb_true_iff in Hps as [Hp Hr]. apply andb_true_iff in Hp as [Ht Hn].
    destruct lf as [|lf]; [lia|].
    cbn [src_pieces flat_map fst snd]. rewrite <- !app_assoc. fold (src_pieces r).
    rewrite (one_marker (transclude fs fmt k) stack lf t name (src_pieces r ++ final d) st Ht Hn). cbv zeta.
    cbn [fst snd] in Hgo.
    destruct (mem_path (F ++ name) stack); [discriminate|].
    destruct (segs (F ++ name)) as [c|] eqn:Es; [|discriminate].
    destruct (expand k (stack ++ [F ++ name]) c) as [a|] eqn:Ea; [|discriminate].
    match type of Hgo with match ?g with _ => _ end = _ => destruct g as [b|] eqn:Eg; [|discriminate] end.
    injection Hgo as <-.
    pose proof (segs_ok _ _ Es) as Hc.
    assert (Hsc : scan_file fs (F ++ name) = Some (src c)).
    { unfold scan_file. rewrite fs_segs, Es. cbn [option_map]. f_equal. apply head_ok_bom, src_head, doc_ok_head, Hc. }
    rewrite Hsc.
    destruct (IHk (stack ++ [F ++ name]) (mkt (if mem_path (F ++ name) (manifest st) then manifest st else manifest st ++ [F ++ name]) (cyc st)) c a Hc Ea (F ++ name))
      as (stc & Et).
    rewrite Et. cbn [bind fst snd].
    destruct (head_ok_meta_end a (expand_head _ _ _ _ Hc Ea)) as [Em _]. rewrite Em. cbn [skipn].
    destruct (IH stack stc b lf Hr Hfin Eg ltac:(cbn in Hlf; lia)) as (st' & El). rewrite El. cbn [bind fst snd]. eauto.
Qed.

Theorem transclude_exact : forall n stack st d out, doc_ok d = true -> expand n stack d = Some out ->
  forall p, exists st', transclude fs fmt n F p stack st (src d) = Ok (out, st').
Proof.
  induction n as [|k IHk]; intros stack st d out Hok He p; [discriminate|].
  cbn [transclude]. pose proof (src_head d (doc_ok_head d Hok)) as Hh.
  destruct (head_ok_meta_end (src d) Hh) as [Em Eb]. rewrite Em. cbn [skipn firstn app].
  unfold folder_of. rewrite Eb, add_sep_F.
  cbn [expand] in He.
  assert (Hd := Hok). unfold doc_ok in Hd. apply andb_true_iff in Hd as [Hd _]. apply andb_true_iff in Hd as [Hps Hfin].
  destruct (loop_pieces k d IHk (pieces d) stack st out (S (length (src d))) Hps Hfin He) as (st' & El).
  - unfold src. rewrite app_length. assert (length (pieces d) <= length (src_pieces (pieces d)))%nat; [|lia].
    generalize (pieces d). intros l. induction l as [|[t nm] r IHl]; [cbn; lia|].
    cbn [src_pieces flat_map length fst snd]. rewrite !app_length. cbn [OPEN2 length]. fold (src_pieces r). lia.
  - unfold src in El |- *. rewrite El. cbn [bind fst snd]. eauto.
Qed.
End Exact.
