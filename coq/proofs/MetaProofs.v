(* C11 proofs (first layer): recognition of a key line. *)
From Coq Require Import Lia.
From MMD.lib Require Import Bytes BytesFacts.
From MMD.model Require Import LabelModel MetaModel.
Local Open Scope N_scope.

Definition wf_key (k : list N) : bool :=
  match k with x :: r => is_alnum x && forallb is_keychar r | [] => false end.

Lemma take_while_all f l rest : forallb f l = true -> (match rest with x :: _ => f x = false | [] => True end) ->
  take_while f (l ++ rest) = l.
Proof.
  induction l as [|x l IH]; intros H Hr; cbn [app take_while].
  - destruct rest as [|y r]; [reflexivity|]. cbn [take_while]. rewrite Hr. reflexivity.
  - cbn [forallb] in H. apply andb_true_iff in H as [H1 H2]. rewrite H1. f_equal. apply IH; assumption.
Qed.

(* a well-formed key followed by a colon is recognised with exactly its own length, whatever follows *)
Lemma meta_key_len_exact k v : wf_key k = true -> meta_key_len (k ++ 58 :: v) = Some (length k).
Proof.
  destruct k as [|x r]; [discriminate|]. cbn [wf_key]. intros H. apply andb_true_iff in H as [Hx Hr].
  cbn [app meta_key_len]. rewrite Hx. rewrite (take_while_all is_keychar r (58 :: v) Hr eq_refl).
  rewrite skipn_app_exact. reflexivity.
Qed.

(* a line that does not begin with a letter or digit never starts a key *)
Lemma meta_key_len_none x r : is_alnum x = false -> meta_key_len (x :: r) = None.
Proof. intros H. cbn [meta_key_len]. rewrite H. reflexivity. Qed.
