(* C11: updating a key.  On a block of one-line entries, updating the key of an entry rewrites exactly the value of the
   first entry with that (normalised) key - the one a query returns - keeping the blanks after its colon; every other
   line of the block and everything after the block stay as they are.  With the round-trip theorem: the key reads back
   as the new value and every other key as before. *)
From Coq Require Import Lia.
From MMD.lib Require Import Bytes BytesFacts.
From MMD.model Require Import LabelModel MetaModel.
From MMD.proofs Require Import MetaProofs MetaRoundTrip.
Local Open Scope N_scope.

Lemma with_offsets_app off es1 es2 :
  with_offsets off (es1 ++ es2) = with_offsets off es1 ++ with_offsets (off + length (block_text es1)) es2.
Proof.
  revert off. induction es1 as [|e r IH]; intros off; cbn [app with_offsets block_text flat_map length].
  - rewrite Nat.add_0_r. reflexivity.
  - rewrite IH. f_equal. f_equal. fold (block_text r). rewrite app_length. f_equal. lia.
Qed.

Lemma block_text_app es1 es2 : block_text (es1 ++ es2) = block_text es1 ++ block_text es2.
Proof. unfold block_text. apply flat_map_app. Qed.

Lemma keychar_not_colon b : is_keychar b = true -> negb (b =? 58) = true.
Proof.
  unfold is_keychar, is_alnum. intros H. destruct (N.eqb_spec b 58) as [->|]; [discriminate|]. reflexivity.
Qed.

Lemma key_no_colon k : wf_key k = true -> forallb (fun b => negb (b =? 58)) k = true.
Proof.
  destruct k as [|x r]; [discriminate|]. cbn [wf_key forallb]. intros H. apply andb_true_iff in H as [Hx Hr].
  rewrite (keychar_not_colon x (alnum_keychar x Hx)). cbn [andb].
  apply forallb_forall. intros b Hb. rewrite forallb_forall in Hr. apply keychar_not_colon, Hr, Hb.
Qed.

Lemma take_while_ws_line v rest : no_eol v = true -> take_while is_ws (v ++ 10 :: rest) = take_while is_ws v.
Proof.
  intros _. induction v as [|x v IH]; cbn [app take_while]; [reflexivity|]. destruct (is_ws x); [f_equal; exact IH | reflexivity].
Qed.

Lemma take_while_prefix (f : N -> bool) l : exists r, l = take_while f l ++ r.
Proof.
  induction l as [|x l [r IH]]; cbn [take_while]; [exists []; reflexivity|].
  destruct (f x); [exists r; cbn [app]; f_equal; exact IH | exists (x :: l); reflexivity].
Qed.

Section WS.
Variable ws : list N.

Definition mk_of (p : nat * (list N * list N)) : meta :=
  mkmeta (fst p) (label_from_string (fst (snd p))) (clean_string ws false false (snd (snd p) ++ [10])).

Lemma result_eq es : result ws es = map mk_of (with_offsets 0 es).
Proof. reflexivity. Qed.

Definition step (clean : list N) (acc : option nat * option nat) (m : meta) : option nat * option nat :=
  match acc with
  | (None, en) => if bytes_eqb_l clean (m_key m) then (Some (m_start m), en) else acc
  | (Some st, None) => (Some st, Some (m_start m))
  | _ => acc
  end.

Lemma fold_no_match clean (ps : list (nat * (list N * list N))) :
  (forall p, In p ps -> bytes_eqb_l clean (label_from_string (fst (snd p))) = false) ->
  fold_left (step clean) (map mk_of ps) (None, None) = (None, None).
Proof.
  induction ps as [|p r IH]; intros H; [reflexivity|]. cbn [map fold_left step mk_of m_key].
  rewrite (H p (or_introl eq_refl)). apply IH. intros q Hq. apply H. right. exact Hq.
Qed.

Lemma fold_done clean ms a b : fold_left (step clean) ms (Some a, Some b) = (Some a, Some b).
Proof. induction ms as [|m r IH]; [reflexivity|]. cbn [fold_left step]. exact IH. Qed.

Lemma fold_after clean (ps : list (nat * (list N * list N))) a :
  fold_left (step clean) (map mk_of ps) (Some a, None) =
  (Some a, match ps with [] => None | p :: _ => Some (fst p) end).
Proof.
  destruct ps as [|p r]; [reflexivity|]. cbn [map fold_left step mk_of m_start]. apply fold_done.
Qed.

Theorem update_rewrites_one_value es1 ki vi es2 tail key value :
  let es := es1 ++ (ki, vi) :: es2 in
  forallb wf_entry es = true ->
  (match es with e1 :: _ => forallb is_ws (snd e1) = false | [] => True end) ->
  tail_ok tail ->
  (forall e, In e es1 -> bytes_eqb_l (label_from_string key) (label_from_string (fst e)) = false) ->
  bytes_eqb_l (label_from_string key) (label_from_string ki) = true ->
  meta_update ws (block_text es ++ tail) key value =
  block_text (es1 ++ (ki, take_while is_ws vi ++ value) :: es2) ++ tail.
Proof.
  intros es Hw Hv Ht Hno Hyes.
  assert (Ees0 : es = es1 ++ (ki, vi) :: es2) by reflexivity. clearbody es.
  assert (Hne : exists e1 r, es = e1 :: r) by (rewrite Ees0; destruct es1; cbn; eauto).
  destruct Hne as (e1 & r & Ees). rewrite Ees in Hv.
  assert (MR : meta_parse ws (block_text es ++ tail) = Some (result ws es, length (block_text es))).
  { pose proof Hw as Hw'. rewrite Ees in Hw'. rewrite Ees. apply meta_roundtrip; [exact Hw' | exact Hv | exact Ht]. }
  unfold meta_update. rewrite MR. rewrite result_eq. rewrite Ees0 at 1. rewrite with_offsets_app. cbn [with_offsets Nat.add]. rewrite map_app. cbn [map].
  change (upd_range (label_from_string key)) with (fun ms => fold_left (step (label_from_string key)) ms (@None nat, @None nat)). cbv beta.
  rewrite fold_left_app.
  rewrite fold_no_match.
  2:{ intros p Hp. apply Hno. clear - Hp. revert Hp. generalize 0%nat. induction es1 as [|e l IH]; intros off Hp; [destruct Hp|].
      cbn [with_offsets] in Hp. destruct Hp as [<-|Hp]; [left; reflexivity | right; exact (IH _ Hp)]. }
  cbn [fold_left step mk_of m_key m_start fst snd]. rewrite Hyes. rewrite fold_after.
  set (o1 := length (block_text es1)).
  (* the text, split at the entry *)
  assert (Htext : block_text es ++ tail = block_text es1 ++ (ki ++ 58 :: vi ++ [10]) ++ block_text es2 ++ tail).
  { rewrite Ees0. rewrite block_text_app. cbn [block_text flat_map]. fold (block_text es2). unfold entry_line. cbn [fst snd].
    rewrite <- !app_assoc. reflexivity. }
  assert (Hwe : wf_entry (ki, vi) = true).
  { rewrite Ees0 in Hw. rewrite forallb_app in Hw. apply andb_true_iff in Hw as [_ H]. cbn [forallb] in H. apply andb_true_iff in H as [H _]. exact H. }
  unfold wf_entry in Hwe. cbn [fst snd] in Hwe. apply andb_true_iff in Hwe as [Hk Hnv].
  (* where the value starts *)
  assert (Hb : after_colon (block_text es ++ tail) o1 = (o1 + S (length ki) + length (take_while is_ws vi))%nat).
  { unfold after_colon. rewrite Htext. unfold o1. rewrite skipn_app_exact.
    replace ((ki ++ 58 :: vi ++ [10]) ++ block_text es2 ++ tail) with (ki ++ 58 :: (vi ++ 10 :: block_text es2 ++ tail)).
    2:{ rewrite <- !app_assoc. cbn [app]. rewrite <- !app_assoc. reflexivity. }
    rewrite (take_while_all _ ki (58 :: _) (key_no_colon ki Hk) eq_refl).
    replace (S (length ki)) with (length (ki ++ [58])) by (rewrite app_length; cbn; lia).
    replace (ki ++ 58 :: vi ++ 10 :: block_text es2 ++ tail) with ((ki ++ [58]) ++ vi ++ 10 :: block_text es2 ++ tail) by (rewrite <- app_assoc; reflexivity).
    rewrite skipn_app_exact, (take_while_ws_line vi _ Hnv). reflexivity. }
  rewrite Hb. clear Hb.
  destruct (take_while_prefix is_ws vi) as [vrest Evi]. set (wsp := take_while is_ws vi) in *.
  set (b := (o1 + S (length ki) + length wsp)%nat).
  assert (Hfirst : firstn b (block_text es ++ tail) = block_text es1 ++ ki ++ 58 :: wsp).
  { rewrite Htext. unfold b, o1. rewrite <- Nat.add_assoc. rewrite firstn_app_r. f_equal.
    rewrite Evi. replace ((ki ++ 58 :: (wsp ++ vrest) ++ [10]) ++ block_text es2 ++ tail) with ((ki ++ 58 :: wsp) ++ vrest ++ [10] ++ block_text es2 ++ tail).
    2:{ rewrite <- !app_assoc. cbn [app]. rewrite <- !app_assoc. reflexivity. }
    replace (S (length ki) + length wsp)%nat with (length (ki ++ 58 :: wsp)) by (rewrite app_length; cbn [length]; lia).
    apply firstn_app_exact. }
  (* where the next entry (or the end of the block) starts *)
  set (o2 := (o1 + length (entry_line (ki, vi)))%nat).
  assert (Hlen : length (block_text es) = (o2 + length (block_text es2))%nat).
  { rewrite Ees0. unfold o2, o1. rewrite block_text_app, app_length. cbn [block_text flat_map]. fold (block_text es2). rewrite app_length. lia. }
  match goal with |- context [Nat.ltb ?e b] => assert (Hend : e = o2); [| rewrite Hend] end.
  { destruct es2 as [|e2 r2].
    - cbn [with_offsets]. rewrite Hlen. cbn [block_text flat_map length]. lia.
    - cbn [with_offsets fst]. reflexivity. }
  assert (Hle : (b <= o2)%nat).
  { unfold b, o2, entry_line. cbn [fst snd]. rewrite !app_length. cbn [length]. rewrite app_length. cbn [length].
    assert (length wsp <= length vi)%nat by (rewrite Evi at 1; rewrite app_length; lia). lia. }
  destruct (Nat.ltb_spec o2 b) as [Hlt|_]; [lia|].
  assert (Hskip : skipn o2 (block_text es ++ tail) = block_text es2 ++ tail).
  { rewrite Htext. unfold o2, o1. rewrite skipn_app_r. unfold entry_line. cbn [fst snd]. apply skipn_app_exact. }
  rewrite Hfirst, Hskip.
  rewrite block_text_app. cbn [block_text flat_map]. fold (block_text es2). unfold entry_line. cbn [fst snd].
  rewrite <- !app_assoc. cbn [app]. rewrite <- !app_assoc. reflexivity.
Qed.

(* and read back: the updated text parses into the same entries, the updated one carrying the new value *)
Corollary update_reads_back es1 ki vi es2 tail key value :
  let es := es1 ++ (ki, vi) :: es2 in
  let es' := es1 ++ (ki, take_while is_ws vi ++ value) :: es2 in
  forallb wf_entry es = true ->
  (match es with e1 :: _ => forallb is_ws (snd e1) = false | [] => True end) ->
  tail_ok tail ->
  (forall e, In e es1 -> bytes_eqb_l (label_from_string key) (label_from_string (fst e)) = false) ->
  bytes_eqb_l (label_from_string key) (label_from_string ki) = true ->
  no_eol value = true -> forallb is_ws value = false ->
  meta_parse ws (meta_update ws (block_text es ++ tail) key value) = Some (result ws es', length (block_text es')).
Proof.
  intros es es' Hw Hv Ht Hno Hyes Hnv Hnb.
  unfold es. rewrite (update_rewrites_one_value es1 ki vi es2 tail key value Hw Hv Ht Hno Hyes). fold es'.
  assert (Hw' : forallb wf_entry es' = true).
  { unfold es, es' in *. rewrite forallb_app in Hw |- *. apply andb_true_iff in Hw as [H1 H2]. rewrite H1. cbn [andb forallb] in H2 |- *.
    apply andb_true_iff in H2 as [He H2]. rewrite H2, andb_true_r.
    unfold wf_entry in He |- *. cbn [fst snd] in He |- *. apply andb_true_iff in He as [Hk Hvi]. rewrite Hk. cbn [andb].
    unfold no_eol in *. rewrite forallb_app, Hnv, andb_true_r.
    destruct (take_while_prefix is_ws vi) as [rest E]. rewrite E in Hvi. rewrite forallb_app in Hvi. apply andb_true_iff in Hvi as [H _]. exact H. }
  assert (Hv' : match es' with e1 :: _ => forallb is_ws (snd e1) = false | [] => True end).
  { unfold es, es' in *. destruct es1 as [|e0 l]; cbn [app] in Hv |- *; [|exact Hv]. cbn [snd].
    rewrite forallb_app, Hnb, andb_false_r. reflexivity. }
  destruct es' as [|e1 r] eqn:E'; [unfold es' in E'; destruct es1; discriminate|].
  apply meta_roundtrip; assumption.
Qed.

(* adding a key no entry carries: one line "key:<tab>value" is appended to the block; the block's lines and everything after
   the block stay, and the new text reads back as the old entries followed by the new one *)
Theorem update_adds_new_key es tail key value :
  es <> [] ->
  forallb wf_entry es = true ->
  (match es with e1 :: _ => forallb is_ws (snd e1) = false | [] => True end) ->
  tail_ok tail ->
  (forall e, In e es -> bytes_eqb_l (label_from_string key) (label_from_string (fst e)) = false) ->
  meta_update ws (block_text es ++ tail) key value = block_text (es ++ [(key, 9 :: value)]) ++ tail.
Proof.
  intros Hne Hw Hv Ht Hno.
  destruct es as [|e1 r]; [congruence|].
  assert (MR : meta_parse ws (block_text (e1 :: r) ++ tail) = Some (result ws (e1 :: r), length (block_text (e1 :: r)))).
  { apply meta_roundtrip; assumption. }
  remember (e1 :: r) as es eqn:Ees.
  unfold meta_update. rewrite MR, result_eq.
  change (upd_range (label_from_string key)) with (fun ms => fold_left (step (label_from_string key)) ms (@None nat, @None nat)). cbv beta.
  rewrite fold_no_match.
  2:{ intros p Hp. apply Hno. clear - Hp. revert Hp. generalize 0%nat. induction es as [|e l IH]; intros off Hp; [destruct Hp|].
      cbn [with_offsets] in Hp. destruct Hp as [<-|Hp]; [left; reflexivity | right; exact (IH _ Hp)]. }
  assert (Hpos : (0 < length (block_text es))%nat).
  { pose proof (entries_le_text es) as HL. rewrite Ees in HL at 1. cbn [length] in HL. lia. }
  destruct (Nat.eqb_spec (length (block_text es)) 0) as [E0|_]; [lia|].
  rewrite firstn_app_exact, skipn_app_exact, block_text_app. cbn [block_text flat_map]. unfold entry_line. cbn [fst snd app].
  rewrite <- !app_assoc. cbn [app]. rewrite <- !app_assoc. reflexivity.
Qed.

Corollary added_key_reads_back es tail key value :
  es <> [] ->
  forallb wf_entry es = true ->
  (match es with e1 :: _ => forallb is_ws (snd e1) = false | [] => True end) ->
  tail_ok tail ->
  (forall e, In e es -> bytes_eqb_l (label_from_string key) (label_from_string (fst e)) = false) ->
  wf_key key = true -> no_eol value = true ->
  meta_parse ws (meta_update ws (block_text es ++ tail) key value) =
  Some (result ws (es ++ [(key, 9 :: value)]), length (block_text (es ++ [(key, 9 :: value)]))).
Proof.
  intros Hne Hw Hv Ht Hno Hk Hnv. rewrite (update_adds_new_key es tail key value Hne Hw Hv Ht Hno).
  destruct es as [|e1 r]; [congruence|]. cbn [app].
  apply meta_roundtrip; [|exact Hv|exact Ht].
  change (e1 :: r ++ [(key, 9 :: value)]) with ((e1 :: r) ++ [(key, 9 :: value)]). rewrite forallb_app, Hw. cbn [forallb andb].
  unfold wf_entry. cbn [fst snd]. rewrite Hk. unfold no_eol in *. cbn [forallb]. rewrite Hnv. reflexivity.
Qed.
End WS.
