From Coq Require Import List ZArith Bool.
Import ListNotations.
From MMD.lib Require Import Bytes Lemon BlockComp.
From MMD.gen Require Import ParserTables.
From MMD.model Require Import BlockLang.
Local Open Scope Z_scope.

(* the reachable product states and the simulation triples, computed from the regenerated tables *)
Definition Hset : list hstate := Eval vm_compute in explore_H parser_tables NT_block dstep line_kinds 4000 [(base, 0%nat)] [].
Definition Sset : list triple :=
  Eval vm_compute in explore_S parser_tables NT_block dstep line_kinds 4000 (seeds_S parser_tables NT_block dstep FIN line_kinds Hset) [].

Lemma block_checks : all_checks parser_tables NT_block dstep FIN line_kinds Hset Sset = true.
Proof. vm_compute. reflexivity. Qed.
