(* Proofs about the note bookkeeping model (AnchorModel.v). *)
From Coq Require Import List Arith Bool Lia.
Import ListNotations.
From MMD.model Require Import AnchorModel.

Lemma kind_eqb_eq a b : kind_eqb a b = true <-> a = b.
Proof. destruct a, b; cbn; split; intros H; try reflexivity; try discriminate. Qed.
Lemma kind_eqb_refl a : kind_eqb a a = true.
Proof. destruct a; reflexivity. Qed.
Lemma kind_eqb_neq a b : kind_eqb a b = false <-> a <> b.
Proof. destruct a, b; cbn; split; intros H; try reflexivity; try discriminate; try congruence. Qed.

(* ---- index_of *)
Lemma index_of_none d l : index_of d l = None <-> ~ In d l.
Proof.
  induction l as [|x r IH]; cbn.
  - tauto.
  - destruct (Nat.eqb_spec x d) as [E|E].
    + split; [discriminate | intros H; exfalso; apply H; left; exact E].
    + destruct (index_of d r) eqn:Ei; cbn.
      * split; [discriminate|]. intros H. exfalso. apply H. right.
        destruct (in_dec Nat.eq_dec d r) as [Hin|Hn]; [exact Hin|]. apply IH in Hn. discriminate.
      * split; [|reflexivity]. intros _ [H|H]; [congruence|]. apply (proj1 IH); [reflexivity|exact H].
Qed.

Lemma index_of_some d l i : index_of d l = Some i -> i < length l /\ nth_error l i = Some d.
Proof.
  revert i. induction l as [|x r IH]; cbn; intros i H.
  - discriminate.
  - destruct (Nat.eqb_spec x d) as [E|E].
    + injection H as <-. subst. cbn. split; [lia|reflexivity].
    + destruct (index_of d r) as [j|] eqn:Ej; cbn in H; [|discriminate]. injection H as <-.
      destruct (IH j eq_refl) as [Hl Hn]. cbn. split; [lia|exact Hn].
Qed.

(* ---- used lists under push *)
Lemma used_push_same s k d : used (push s k d) k = used s k ++ [d].
Proof. destruct k; reflexivity. Qed.
Lemma used_push_other s k k' d : k <> k' -> used (push s k d) k' = used s k'.
Proof. destruct k, k'; intros H; try reflexivity; congruence. Qed.

(* the used lists only ever grow at the end *)
Definition grows (s s' : st) : Prop := forall k, exists l, used s' k = used s k ++ l.
Lemma grows_refl s : grows s s.
Proof. intros k. exists []. rewrite app_nil_r. reflexivity. Qed.
Lemma grows_trans a b c : grows a b -> grows b c -> grows a c.
Proof. intros H1 H2 k. destruct (H1 k) as [l1 E1]. destruct (H2 k) as [l2 E2]. exists (l1 ++ l2). rewrite E2, E1, app_assoc. reflexivity. Qed.
Lemma grows_push s k d : grows s (push s k d).
Proof.
  intros k'. destruct (kind_eqb k k') eqn:E.
  - apply kind_eqb_eq in E. subst. exists [d]. apply used_push_same.
  - apply kind_eqb_neq in E. exists []. rewrite app_nil_r. apply used_push_other. exact E.
Qed.
Lemma grows_len s s' k : grows s s' -> length (used s k) <= length (used s' k).
Proof. intros H. destruct (H k) as [l E]. rewrite E, app_length. lia. Qed.

Lemma do_item_grows s it : grows s (fst (do_item s it)).
Proof.
  destruct it as [k d|d]; cbn [do_item].
  - destruct (index_of d (used s k)); cbn [fst]; [apply grows_refl | apply grows_push].
  - destruct (index_of d (uc s)); cbn [fst]; [apply grows_refl | apply grows_push].
Qed.

Lemma do_items_grows its : forall s, grows s (fst (do_items s its)).
Proof.
  induction its as [|it r IH]; intros s; cbn.
  - apply grows_refl.
  - pose proof (do_item_grows s it) as H1. destruct (do_item s it) as [s1 e1]. cbn in H1.
    pose proof (IH s1) as H2. destruct (do_items s1 r) as [s2 e2]. cbn in *.
    eapply grows_trans; eassumption.
Qed.

(* a kind that is not called is left alone *)
Lemma do_item_same s it k : calls_kind k it = false -> used (fst (do_item s it)) k = used s k.
Proof.
  destruct it as [k' d|d]; cbn [do_item calls_kind]; intros H.
  - destruct (index_of d (used s k')); cbn [fst]; [reflexivity|]. apply used_push_other. apply kind_eqb_neq in H. congruence.
  - destruct (index_of d (uc s)); cbn [fst]; [reflexivity|]. apply used_push_other. apply kind_eqb_neq in H. congruence.
Qed.

Lemma do_items_same its k : forall s, forallb (fun it => negb (calls_kind k it)) its = true ->
  used (fst (do_items s its)) k = used s k.
Proof.
  induction its as [|it r IH]; intros s H; cbn.
  - reflexivity.
  - cbn in H. apply andb_true_iff in H as [H1 H2]. apply negb_true_iff in H1.
    pose proof (do_item_same s it k H1) as E1. destruct (do_item s it) as [s1 e1]. cbn in E1.
    pose proof (IH s1 H2) as E2. destruct (do_items s1 r) as [s2 e2]. cbn in *. congruence.
Qed.

(* ---- calls never exceed the used list *)
Definition calls_le (s : st) (tr : list ev) : Prop :=
  forall k n b, In (ECall k n b) tr -> 1 <= n <= length (used s k).

Lemma calls_le_mono s s' tr : grows s s' -> calls_le s tr -> calls_le s' tr.
Proof. intros G H k n b Hin. specialize (H k n b Hin). pose proof (grows_len s s' k G). lia. Qed.

Lemma calls_le_app s a b : calls_le s a -> calls_le s b -> calls_le s (a ++ b).
Proof. intros Ha Hb k n f Hin. apply in_app_or in Hin as [H|H]; [apply (Ha _ _ _ H) | apply (Hb _ _ _ H)]. Qed.

Lemma do_item_calls_le s it : calls_le (fst (do_item s it)) (snd (do_item s it)).
Proof.
  destruct it as [k d|d]; cbn [do_item].
  - destruct (index_of d (used s k)) as [i|] eqn:Ei; cbn [fst snd]; intros k' n b [H|[]]; inversion H; subst.
    + apply index_of_some in Ei as [Hl _]. lia.
    + rewrite used_push_same, app_length. cbn. lia.
  - destruct (index_of d (uc s)) as [j|]; cbn [fst snd]; intros k' n b [].
Qed.

Lemma do_items_calls_le its : forall s, calls_le (fst (do_items s its)) (snd (do_items s its)).
Proof.
  induction its as [|it r IH]; intros s; cbn.
  - intros k n b [].
  - pose proof (do_item_calls_le s it) as H1. destruct (do_item s it) as [s1 e1]. cbn in H1.
    pose proof (IH s1) as H2. pose proof (do_items_grows r s1) as G. destruct (do_items s1 r) as [s2 e2]. cbn in *.
    apply calls_le_app; [eapply calls_le_mono; eassumption | exact H2].
Qed.

(* ---- entries *)
Lemma entries_app k a b : entries k (a ++ b) = entries k a ++ entries k b.
Proof. unfold entries. apply flat_map_app. Qed.
Lemma firsts_app k a b : firsts k (a ++ b) = firsts k a ++ firsts k b.
Proof. unfold firsts. apply flat_map_app. Qed.

Lemma entries_entry k k' n r : entries k (EEntry k' n :: r) = (if kind_eqb k k' then [n] else []) ++ entries k r.
Proof. reflexivity. Qed.
Lemma entries_back k k' n r : entries k (EBack k' n :: r) = entries k r.
Proof. reflexivity. Qed.
Lemma firsts_entry k k' n r : firsts k (EEntry k' n :: r) = firsts k r.
Proof. reflexivity. Qed.
Lemma firsts_back k k' n r : firsts k (EBack k' n :: r) = firsts k r.
Proof. reflexivity. Qed.

Lemma do_item_entries s it k : entries k (snd (do_item s it)) = [].
Proof.
  destruct it as [k' d|d]; cbn.
  - destruct (index_of d (used s k')); reflexivity.
  - destruct (index_of d (uc s)); reflexivity.
Qed.
Lemma do_items_entries its k : forall s, entries k (snd (do_items s its)) = [].
Proof.
  induction its as [|it r IH]; intros s; cbn [do_items].
  - reflexivity.
  - pose proof (do_item_entries s it k) as H1. destruct (do_item s it) as [s1 e1]. cbn [snd] in H1.
    pose proof (IH s1) as H2. destruct (do_items s1 r) as [s2 e2]. cbn [snd] in *.
    rewrite entries_app, H1, H2. reflexivity.
Qed.

Lemma list_loop_grows D k f : forall i s s' e, list_loop D k f i s = Some (s', e) -> grows s s'.
Proof.
  induction f as [|f IH]; intros i s s' e H; cbn in H.
  - discriminate.
  - destruct (nth_error (used s k) i) as [d|].
    + pose proof (do_items_grows (content D k d) s) as G. destruct (do_items s (content D k d)) as [s1 e1]. cbn in G.
      destruct (list_loop D k f (S i) s1) as [[s2 e2]|] eqn:El; [|discriminate]. injection H as <- <-.
      eapply grows_trans; [exact G | eapply IH; exact El].
    + injection H as <- <-. apply grows_refl.
Qed.

Lemma list_loop_entries D k f : forall i s s' e, list_loop D k f i s = Some (s', e) -> i <= length (used s k) ->
  entries k e = seq (S i) (length (used s' k) - i) /\ forall k', k' <> k -> entries k' e = [].
Proof.
  induction f as [|f IH]; intros i s s' e H Hi; cbn in H.
  - discriminate.
  - destruct (nth_error (used s k) i) as [d|] eqn:En.
    + pose proof (do_items_grows (content D k d) s) as G. pose proof (do_items_entries (content D k d)) as Z.
      destruct (do_items s (content D k d)) as [s1 e1] eqn:Ed.
      destruct (list_loop D k f (S i) s1) as [[s2 e2]|] eqn:El; [|discriminate]. injection H as <- <-.
      assert (Hlt : i < length (used s k)) by (apply nth_error_Some; congruence).
      pose proof (grows_len s s1 k G) as Hg. cbn in Hg.
      destruct (IH (S i) s1 s2 e2 El ltac:(cbn in *; lia)) as [E1 E2].
      pose proof (grows_len _ _ k (list_loop_grows _ _ _ _ _ _ _ El)) as Hg2.
      split.
      * rewrite entries_entry, kind_eqb_refl, entries_app, entries_back.
        specialize (Z k s). rewrite Ed in Z. cbn [snd] in Z. rewrite Z. rewrite E1. cbn [app].
        replace (length (used s2 k) - i) with (S (length (used s2 k) - S i)) by lia. reflexivity.
      * intros k' Hk. assert (Eq : kind_eqb k' k = false) by (apply kind_eqb_neq; exact Hk).
        rewrite entries_entry, Eq, entries_app, entries_back.
        specialize (Z k' s). rewrite Ed in Z. cbn [snd] in Z. rewrite Z. rewrite (E2 k' Hk). reflexivity.
    + injection H as <- <-. apply nth_error_None in En. split; [|reflexivity].
      replace (length (used s k) - i) with 0 by lia. reflexivity.
Qed.

Lemma list_loop_calls_le D k f : forall i s s' e, list_loop D k f i s = Some (s', e) -> calls_le s' e.
Proof.
  induction f as [|f IH]; intros i s s' e H; cbn in H.
  - discriminate.
  - destruct (nth_error (used s k) i) as [d|].
    + pose proof (do_items_calls_le (content D k d) s) as C. destruct (do_items s (content D k d)) as [s1 e1]. cbn in C.
      destruct (list_loop D k f (S i) s1) as [[s2 e2]|] eqn:El; [|discriminate]. injection H as <- <-.
      pose proof (list_loop_grows _ _ _ _ _ _ _ El) as G. pose proof (IH _ _ _ _ El) as C2.
      intros k' n b [Hin|Hin]; [discriminate|]. apply in_app_or in Hin as [Hin|[Hin|Hin]].
      * apply (calls_le_mono _ _ _ G C _ _ _ Hin).
      * discriminate.
      * apply (C2 _ _ _ Hin).
    + injection H as <- <-. intros k' n b [].
Qed.

(* contents of kind k that never call kind k0 leave its list untouched *)
Lemma content_forall D k d (P : item -> bool) : forallb (forallb P) (defs D k) = true -> forallb P (content D k d) = true.
Proof.
  intros H. unfold content. destruct (nth_in_or_default d (defs D k) []) as [Hin|E].
  - rewrite forallb_forall in H. apply H. exact Hin.
  - rewrite E. reflexivity.
Qed.

Lemma list_loop_same D k k0 f : forallb (forallb (fun it => negb (calls_kind k0 it))) (defs D k) = true ->
  forall i s s' e, list_loop D k f i s = Some (s', e) -> used s' k0 = used s k0.
Proof.
  intros Hc. induction f as [|f IH]; intros i s s' e H; cbn in H.
  - discriminate.
  - destruct (nth_error (used s k) i) as [d|].
    + pose proof (do_items_same (content D k d) k0 s (content_forall D k d _ Hc)) as E1.
      destruct (do_items s (content D k d)) as [s1 e1]. cbn in E1.
      destruct (list_loop D k f (S i) s1) as [[s2 e2]|] eqn:El; [|discriminate]. injection H as <- <-.
      rewrite (IH _ _ _ _ El). exact E1.
    + injection H as <- <-. reflexivity.
Qed.

(* ---- the whole export *)
Lemma forallb_and_split {A} (P Q : A -> bool) l :
  forallb (fun x => P x && Q x) l = true -> forallb P l = true /\ forallb Q l = true.
Proof.
  induction l as [|x r IH]; cbn; [auto|]. intros H. apply andb_true_iff in H as [H1 H2].
  apply andb_true_iff in H1 as [Hp Hq]. destruct (IH H2) as [Ip Iq]. rewrite Hp, Hq, Ip, Iq. auto.
Qed.
Lemma forallb2_and_split {A} (P Q : A -> bool) l :
  forallb (forallb (fun x => P x && Q x)) l = true -> forallb (forallb P) l = true /\ forallb (forallb Q) l = true.
Proof.
  induction l as [|x r IH]; cbn; [auto|]. intros H. apply andb_true_iff in H as [H1 H2].
  destruct (forallb_and_split P Q x H1) as [Hp Hq]. destruct (IH H2) as [Ip Iq]. rewrite Hp, Hq, Ip, Iq. auto.
Qed.

Record export_facts (D : adoc) (s : st) (tr : list ev) : Prop := {
  ef_entries : forall k, exists m, entries k tr = seq 1 m /\ m <= length (used s k);
  ef_calls : calls_le s tr;
  ef_last : entries Cn tr = seq 1 (length (used s Cn));
}.

Lemma export_structure D s tr : export D = Some (s, tr) ->
  exists s0 e0 s1 e1 s2 e2 e3,
    do_items init (body D) = (s0, e0) /\
    list_loop D Fn (S (total_defs D)) 0 s0 = Some (s1, e1) /\
    list_loop D Gl (S (total_defs D)) 0 s1 = Some (s2, e2) /\
    list_loop D Cn (S (total_defs D)) 0 s2 = Some (s, e3) /\
    tr = e0 ++ e1 ++ e2 ++ e3.
Proof.
  unfold export. destruct (do_items init (body D)) as [s0 e0].
  destruct (list_loop D Fn _ 0 s0) as [[s1 e1]|] eqn:E1; [|discriminate].
  destruct (list_loop D Gl _ 0 s1) as [[s2 e2]|] eqn:E2; [|discriminate].
  destruct (list_loop D Cn _ 0 s2) as [[s3 e3]|] eqn:E3; [|discriminate].
  intros H. injection H as <- <-. exists s0, e0, s1, e1, s2, e2, e3. auto.
Qed.

(* entries of every list are numbered 1..m without gaps, m being the size of the used list when that
   list was finished *)
Lemma export_entries D s tr : export D = Some (s, tr) ->
  exists s1 s2, grows s1 s2 /\ grows s2 s /\
    entries Fn tr = seq 1 (length (used s1 Fn)) /\
    entries Gl tr = seq 1 (length (used s2 Gl)) /\
    entries Cn tr = seq 1 (length (used s Cn)) /\
    (forallb (forallb (fun it => negb (calls_kind Fn it))) (gdefs D) = true ->
     forallb (forallb (fun it => negb (calls_kind Fn it))) (cdefs D) = true -> used s Fn = used s1 Fn) /\
    (forallb (forallb (fun it => negb (calls_kind Gl it))) (cdefs D) = true -> used s Gl = used s2 Gl).
Proof.
  intros H. destruct (export_structure D s tr H) as (s0 & e0 & s1 & e1 & s2 & e2 & e3 & H0 & H1 & H2 & H3 & ->).
  exists s1, s2.
  pose proof (list_loop_grows _ _ _ _ _ _ _ H2) as G2. pose proof (list_loop_grows _ _ _ _ _ _ _ H3) as G3.
  destruct (list_loop_entries _ _ _ _ _ _ _ H1 (Nat.le_0_l _)) as [F1 F1o].
  destruct (list_loop_entries _ _ _ _ _ _ _ H2 (Nat.le_0_l _)) as [F2 F2o].
  destruct (list_loop_entries _ _ _ _ _ _ _ H3 (Nat.le_0_l _)) as [F3 F3o].
  pose proof (do_items_entries (body D)) as Z.
  assert (Z0 : forall k, entries k e0 = []) by (intros k; specialize (Z k init); rewrite H0 in Z; exact Z).
  rewrite Nat.sub_0_r in F1, F2, F3.
  repeat split; try assumption.
  - rewrite !entries_app, Z0, F1, (F2o Fn), (F3o Fn) by discriminate. rewrite app_nil_r. reflexivity.
  - rewrite !entries_app, Z0, F2, (F1o Gl), (F3o Gl) by discriminate. rewrite app_nil_r. reflexivity.
  - rewrite !entries_app, Z0, F3, (F1o Cn), (F2o Cn) by discriminate. reflexivity.
  - intros Hg Hc. rewrite (list_loop_same D Cn Fn _ Hc _ _ _ _ H3). apply (list_loop_same D Gl Fn _ Hg _ _ _ _ H2).
  - intros Hc. apply (list_loop_same D Cn Gl _ Hc _ _ _ _ H3).
Qed.

Lemma export_calls_le D s tr : export D = Some (s, tr) -> calls_le s tr.
Proof.
  intros H. destruct (export_structure D s tr H) as (s0 & e0 & s1 & e1 & s2 & e2 & e3 & H0 & H1 & H2 & H3 & ->).
  pose proof (do_items_calls_le (body D) init) as C0. rewrite H0 in C0. cbn in C0.
  pose proof (list_loop_grows _ _ _ _ _ _ _ H1) as G1. pose proof (list_loop_grows _ _ _ _ _ _ _ H2) as G2.
  pose proof (list_loop_grows _ _ _ _ _ _ _ H3) as G3.
  pose proof (list_loop_calls_le _ _ _ _ _ _ _ H1) as C1. pose proof (list_loop_calls_le _ _ _ _ _ _ _ H2) as C2.
  pose proof (list_loop_calls_le _ _ _ _ _ _ _ H3) as C3.
  repeat apply calls_le_app.
  - eapply calls_le_mono; [|exact C0]. eapply grows_trans; [exact G1|]. eapply grows_trans; eassumption.
  - eapply calls_le_mono; [|exact C1]. eapply grows_trans; eassumption.
  - eapply calls_le_mono; [|exact C2]. exact G3.
  - exact C3.
Qed.

Lemma in_entries k n tr : In n (entries k tr) <-> In (EEntry k n) tr.
Proof.
  unfold entries. rewrite in_flat_map. split.
  - intros (e & Hin & He). destruct e as [k' m b|k' m|k' m]; try (destruct He; fail).
    destruct (kind_eqb k k') eqn:E; [|destruct He]. apply kind_eqb_eq in E. subst. destruct He as [<-|[]]. exact Hin.
  - intros H. exists (EEntry k n). split; [exact H|]. rewrite kind_eqb_refl. left. reflexivity.
Qed.

(* every call resolves when no note is first used inside a list written later *)
Lemma calls_resolve D s tr : forward_only D = true -> export D = Some (s, tr) ->
  forall k n b, In (ECall k n b) tr -> In (EEntry k n) tr.
Proof.
  intros Hf H k n b Hin. unfold forward_only in Hf. apply andb_true_iff in Hf as [Hg Hc].
  apply forallb2_and_split in Hc as [Hcf Hcg].
  destruct (export_entries D s tr H) as (s1 & s2 & _ & _ & EF & EG & EC & SF & SG).
  pose proof (export_calls_le D s tr H k n b Hin) as Hle.
  apply in_entries. destruct k.
  - rewrite EF. rewrite <- (SF Hg Hcf). apply in_seq. lia.
  - rewrite EG. rewrite <- (SG Hcg). apply in_seq. lia.
  - rewrite EC. apply in_seq. lia.
Qed.

(* ---- order of first use: first calls are numbered 1, 2, 3 ... and a re-use follows its first call *)
Definition bump (c : kind -> nat) (k : kind) : kind -> nat := fun k' => if kind_eqb k k' then S (c k') else c k'.
Fixpoint wf_trace (c : kind -> nat) (tr : list ev) : Prop :=
  match tr with
  | [] => True
  | ECall k n true :: r => n = S (c k) /\ wf_trace (bump c k) r
  | ECall k n false :: r => 1 <= n <= c k /\ wf_trace c r
  | _ :: r => wf_trace c r
  end.
Definition after (c : kind -> nat) (tr : list ev) : kind -> nat := fun k => c k + length (firsts k tr).

Lemma wf_trace_ext tr : forall c c', (forall k, c k = c' k) -> wf_trace c tr -> wf_trace c' tr.
Proof.
  induction tr as [|e r IH]; intros c c' E H; cbn in *; [exact I|].
  destruct e as [k n [|]|k n|k n].
  - destruct H as [Hn Hr]. split; [rewrite <- E; exact Hn|]. eapply IH; [|exact Hr].
    intros k'. unfold bump. rewrite E. reflexivity.
  - destruct H as [Hn Hr]. split; [rewrite <- E; exact Hn|]. eapply IH; eassumption.
  - eapply IH; eassumption.
  - eapply IH; eassumption.
Qed.

Lemma wf_trace_app a : forall c b, wf_trace c (a ++ b) <-> wf_trace c a /\ wf_trace (after c a) b.
Proof.
  induction a as [|e r IH]; intros c b; cbn [app].
  - split.
    + intros H. split; [exact I|]. eapply wf_trace_ext; [|exact H]. intros k. unfold after. cbn. lia.
    + intros [_ H]. eapply wf_trace_ext; [|exact H]. intros k. unfold after. cbn. lia.
  - assert (Hsame : forall c0, (forall k, length (firsts k (e :: r)) = length (firsts k r)) ->
              (wf_trace (after c0 r) b <-> wf_trace (after c0 (e :: r)) b)).
    { intros c0 Hl. split; intros H; (eapply wf_trace_ext; [|exact H]); intros k; unfold after; rewrite Hl; reflexivity. }
    destruct e as [k n [|]|k n|k n]; cbn [wf_trace].
    + rewrite (IH (bump c k) b).
      assert (Hb : wf_trace (after (bump c k) r) b <-> wf_trace (after c (ECall k n true :: r)) b).
      { split; intros H; (eapply wf_trace_ext; [|exact H]); intros k'; unfold after, bump; cbn [firsts flat_map];
        fold (firsts k' r); destruct (kind_eqb k' k) eqn:E.
        - apply kind_eqb_eq in E. subst. rewrite kind_eqb_refl. cbn. lia.
        - assert (E' : kind_eqb k k' = false) by (apply kind_eqb_neq; apply kind_eqb_neq in E; congruence). rewrite E'. cbn. lia.
        - apply kind_eqb_eq in E. subst. rewrite kind_eqb_refl. cbn. lia.
        - assert (E' : kind_eqb k k' = false) by (apply kind_eqb_neq; apply kind_eqb_neq in E; congruence). rewrite E'. cbn. lia. }
      tauto.
    + rewrite (IH c b). rewrite (Hsame c) by reflexivity. tauto.
    + rewrite (IH c b). rewrite (Hsame c) by reflexivity. tauto.
    + rewrite (IH c b). rewrite (Hsame c) by reflexivity. tauto.
Qed.

Definition lens (s : st) : kind -> nat := fun k => length (used s k).

Lemma do_item_wf s it : is_nocite it = false ->
  wf_trace (lens s) (snd (do_item s it)) /\
  forall k, length (used (fst (do_item s it)) k) = length (used s k) + length (firsts k (snd (do_item s it))).
Proof.
  destruct it as [k d|d]; cbn [do_item is_nocite]; [|discriminate]. intros _.
  destruct (index_of d (used s k)) as [i|] eqn:Ei; cbn [fst snd wf_trace firsts flat_map app length].
  - apply index_of_some in Ei as [Hl _]. unfold lens. split; [split; [lia|exact I]|]. intros k'. lia.
  - split; [split; [reflexivity|exact I]|]. intros k'. destruct (kind_eqb k' k) eqn:E.
    + apply kind_eqb_eq in E. subst. rewrite used_push_same, app_length. cbn. lia.
    + apply kind_eqb_neq in E. rewrite used_push_other by congruence. cbn. lia.
Qed.

Lemma do_items_wf its : forall s, forallb (fun it => negb (is_nocite it)) its = true ->
  wf_trace (lens s) (snd (do_items s its)) /\
  forall k, length (used (fst (do_items s its)) k) = length (used s k) + length (firsts k (snd (do_items s its))).
Proof.
  induction its as [|it r IH]; intros s H; cbn [do_items].
  - split; [exact I|]. intros k. cbn. lia.
  - cbn [forallb] in H. apply andb_true_iff in H as [H1 H2]. apply negb_true_iff in H1.
    destruct (do_item_wf s it H1) as [W1 L1]. destruct (do_item s it) as [s1 e1]. cbn [fst snd] in W1, L1.
    destruct (IH s1 H2) as [W2 L2]. destruct (do_items s1 r) as [s2 e2]. cbn [fst snd] in *.
    split.
    + apply wf_trace_app. split; [exact W1|]. eapply wf_trace_ext; [|exact W2]. intros k. unfold lens, after. rewrite L1. reflexivity.
    + intros k. rewrite firsts_app, app_length, L2, L1. lia.
Qed.

Lemma list_loop_wf D k : forallb (forallb (fun it => negb (is_nocite it))) (defs D k) = true ->
  forall f i s s' e, list_loop D k f i s = Some (s', e) ->
  wf_trace (lens s) e /\ forall k', length (used s' k') = length (used s k') + length (firsts k' e).
Proof.
  intros Hn. induction f as [|f IH]; intros i s s' e H; cbn in H.
  - discriminate.
  - destruct (nth_error (used s k) i) as [d|].
    + destruct (do_items_wf (content D k d) s (content_forall D k d _ Hn)) as [W1 L1].
      destruct (do_items s (content D k d)) as [s1 e1]. cbn [fst snd] in W1, L1.
      destruct (list_loop D k f (S i) s1) as [[s2 e2]|] eqn:El; [|discriminate]. injection H as <- <-.
      destruct (IH _ _ _ _ El) as [W2 L2]. split.
      * cbn [wf_trace]. apply wf_trace_app. split; [exact W1|]. cbn [wf_trace].
        eapply wf_trace_ext; [|exact W2]. intros k'. unfold lens, after. rewrite L1. reflexivity.
      * intros k'. rewrite firsts_entry, firsts_app, firsts_back, app_length, L2, L1. lia.
    + injection H as <- <-. split; [exact I|]. intros k'. cbn. lia.
Qed.

Lemma export_wf D s tr : nocite_free D = true -> export D = Some (s, tr) ->
  wf_trace (fun _ => 0) tr /\ forall k, length (used s k) = length (firsts k tr).
Proof.
  intros Hn H. unfold nocite_free in Hn. apply andb_true_iff in Hn as [Hn Hc]. apply andb_true_iff in Hn as [Hn Hg].
  apply andb_true_iff in Hn as [Hb Hf].
  destruct (export_structure D s tr H) as (s0 & e0 & s1 & e1 & s2 & e2 & e3 & H0 & H1 & H2 & H3 & ->).
  destruct (do_items_wf (body D) init Hb) as [W0 L0]. rewrite H0 in W0, L0. cbn [fst snd] in W0, L0.
  destruct (list_loop_wf D Fn Hf _ _ _ _ _ H1) as [W1 L1].
  destruct (list_loop_wf D Gl Hg _ _ _ _ _ H2) as [W2 L2].
  destruct (list_loop_wf D Cn Hc _ _ _ _ _ H3) as [W3 L3].
  assert (Li : forall k, length (used init k) = 0) by (intros []; reflexivity).
  split.
  - apply wf_trace_app. split; [eapply wf_trace_ext; [|exact W0]; intros k; unfold lens; rewrite Li; reflexivity|].
    apply wf_trace_app. split; [eapply wf_trace_ext; [|exact W1]; intros k; unfold lens, after; rewrite L0, Li; reflexivity|].
    apply wf_trace_app. split.
    + eapply wf_trace_ext; [|exact W2]. intros k. unfold lens, after. rewrite L1, L0, Li. reflexivity.
    + eapply wf_trace_ext; [|exact W3]. intros k. unfold lens, after. rewrite L2, L1, L0, Li. lia.
  - intros k. rewrite !firsts_app, !app_length, L3, L2, L1, L0, Li. lia.
Qed.

(* consequences of wf_trace *)
Lemma wf_firsts tr : forall c k, wf_trace c tr -> firsts k tr = seq (S (c k)) (length (firsts k tr)).
Proof.
  induction tr as [|e r IH]; intros c k H; cbn [firsts flat_map]; [reflexivity|].
  fold (firsts k r). destruct e as [k' n [|]|k' n|k' n]; cbn [wf_trace] in H.
  - destruct H as [-> Hr]. specialize (IH _ k Hr). destruct (kind_eqb k k') eqn:E.
    + apply kind_eqb_eq in E. subst. cbn [app length seq]. f_equal. rewrite IH at 1. unfold bump. rewrite kind_eqb_refl. reflexivity.
    + cbn [app]. rewrite IH at 1. unfold bump.
      assert (E' : kind_eqb k' k = false) by (apply kind_eqb_neq; apply kind_eqb_neq in E; congruence). rewrite E'. reflexivity.
  - destruct H as [_ Hr]. cbn [app]. apply IH. exact Hr.
  - cbn [app]. apply IH. exact H.
  - cbn [app]. apply IH. exact H.
Qed.

Lemma in_firsts k n tr : In n (firsts k tr) <-> In (ECall k n true) tr.
Proof.
  unfold firsts. rewrite in_flat_map. split.
  - intros (e & Hin & He). destruct e as [k' m [|]|k' m|k' m]; try (destruct He; fail).
    destruct (kind_eqb k k') eqn:E; [|destruct He]. apply kind_eqb_eq in E. subst. destruct He as [<-|[]]. exact Hin.
  - intros H. exists (ECall k n true). split; [exact H|]. rewrite kind_eqb_refl. left. reflexivity.
Qed.

Lemma reuse_after_first tr a b k n : wf_trace (fun _ => 0) tr -> tr = a ++ ECall k n false :: b -> In (ECall k n true) a.
Proof.
  intros W ->. apply wf_trace_app in W as [Wa Wb]. cbn [wf_trace] in Wb. destruct Wb as [Hn _].
  unfold after in Hn. apply in_firsts. rewrite (wf_firsts a _ k Wa). apply in_seq. lia.
Qed.

(* ---- termination: the lists are finite because a definition enters a used list at most once *)
Definition sinv (D : adoc) (s : st) : Prop :=
  forall k, NoDup (used s k) /\ forall d, In d (used s k) -> d < length (defs D k).

Lemma sinv_len D s k : sinv D s -> length (used s k) <= length (defs D k).
Proof.
  intros H. destruct (H k) as [Hn Hb].
  rewrite <- (seq_length (length (defs D k)) 0). apply NoDup_incl_length; [exact Hn|].
  intros d Hd. apply in_seq. specialize (Hb d Hd). lia.
Qed.

Lemma NoDup_snoc (l : list nat) d : NoDup l -> ~ In d l -> NoDup (l ++ [d]).
Proof.
  induction l as [|x r IH]; cbn [app]; intros Hn Hd.
  - constructor; [intros []|constructor].
  - inversion Hn as [|? ? Hx Hr]; subst. constructor.
    + intros Hin. apply in_app_or in Hin as [Hin|[Hin|[]]]; [contradiction|]. subst. apply Hd. left. reflexivity.
    + apply IH; [exact Hr|]. intros Hin. apply Hd. right. exact Hin.
Qed.

Lemma sinv_push D s k d : sinv D s -> ~ In d (used s k) -> d < length (defs D k) -> sinv D (push s k d).
Proof.
  intros H Hn Hd k'. destruct (kind_eqb k k') eqn:E.
  - apply kind_eqb_eq in E. subst k'. rewrite used_push_same. destruct (H k) as [Hnd Hb]. split.
    + apply NoDup_snoc; assumption.
    + intros x Hx. apply in_app_or in Hx as [Hx|[<-|[]]]; [apply Hb; exact Hx | exact Hd].
  - apply kind_eqb_neq in E. rewrite used_push_other by exact E. apply H.
Qed.

Lemma do_item_sinv D s it : sinv D s -> item_ok D it = true -> sinv D (fst (do_item s it)).
Proof.
  intros H Hok. destruct it as [k d|d]; cbn [do_item item_ok] in *.
  - destruct (index_of d (used s k)) eqn:Ei; cbn [fst]; [exact H|]. apply sinv_push; [exact H | apply index_of_none; exact Ei | apply Nat.ltb_lt; exact Hok].
  - destruct (index_of d (uc s)) eqn:Ei; cbn [fst]; [exact H|]. apply (sinv_push D s Cn d); [exact H | apply index_of_none; exact Ei | apply Nat.ltb_lt; exact Hok].
Qed.

Lemma do_items_sinv D its : forall s, sinv D s -> forallb (item_ok D) its = true -> sinv D (fst (do_items s its)).
Proof.
  induction its as [|it r IH]; intros s H Hok; cbn.
  - exact H.
  - cbn in Hok. apply andb_true_iff in Hok as [H1 H2]. pose proof (do_item_sinv D s it H H1) as I1.
    destruct (do_item s it) as [s1 e1]. cbn in I1. pose proof (IH s1 I1 H2) as I2.
    destruct (do_items s1 r) as [s2 e2]. exact I2.
Qed.

Lemma list_loop_total D k : forallb (forallb (item_ok D)) (defs D k) = true ->
  forall f i s, sinv D s -> length (defs D k) - i < f ->
  exists s' e, list_loop D k f i s = Some (s', e) /\ sinv D s'.
Proof.
  intros Hok. induction f as [|f IH]; intros i s Hs Hf; [lia|]. cbn.
  destruct (nth_error (used s k) i) as [d|] eqn:En.
  - pose proof (do_items_sinv D (content D k d) s Hs (content_forall D k d _ Hok)) as I1.
    pose proof (do_items_grows (content D k d) s) as G.
    destruct (do_items s (content D k d)) as [s1 e1]. cbn in I1, G.
    assert (Hi : i < length (used s k)) by (apply nth_error_Some; congruence).
    pose proof (sinv_len D s k Hs) as Hl.
    destruct (IH (S i) s1 I1 ltac:(lia)) as (s' & e & El & Is). rewrite El. exists s', (EEntry k (S i) :: e1 ++ EBack k (S i) :: e). auto.
  - exists s, []. auto.
Qed.

Lemma export_total D : wf_doc D = true -> exists s tr, export D = Some (s, tr).
Proof.
  intros H. unfold wf_doc in H. apply andb_true_iff in H as [H Hc]. apply andb_true_iff in H as [H Hg].
  apply andb_true_iff in H as [Hb Hf].
  assert (I0 : sinv D init) by (intros k; destruct k; cbn; split; try constructor; intros d []).
  pose proof (do_items_sinv D (body D) init I0 Hb) as Is0. unfold export.
  destruct (do_items init (body D)) as [s0 e0]. cbn in Is0.
  destruct (list_loop_total D Fn Hf (S (total_defs D)) 0 s0 Is0 ltac:(unfold total_defs; cbn; lia)) as (s1 & e1 & E1 & Is1). rewrite E1.
  destruct (list_loop_total D Gl Hg (S (total_defs D)) 0 s1 Is1 ltac:(unfold total_defs; cbn; lia)) as (s2 & e2 & E2 & Is2). rewrite E2.
  destruct (list_loop_total D Cn Hc (S (total_defs D)) 0 s2 Is2 ltac:(unfold total_defs; cbn; lia)) as (s3 & e3 & E3 & Is3). rewrite E3.
  eauto.
Qed.
