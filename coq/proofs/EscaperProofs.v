(* Lifting of finite table checks (computed over the 255 non-NUL byte values of a regenerated
   escaper table) to statements about all strings. *)
From Coq Require Import Lia.
From MMD.lib Require Import Bytes BytesFacts PrefixCode Dfa Utf8 XmlDfa.
Local Open Scope N_scope.

Definition tab_enc (t : list (list N)) (c : N) : list N := nth (N.to_nat c) t [].
Definition bytes_from (lo : nat) (n : nat) : list N := map N.of_nat (seq lo n).
Definition bytes1 : list N := bytes_from 1 255.       (* every byte value that can occur in a C string *)
Definition bytes32 : list N := bytes_from 32 224.     (* without the C0 control characters *)
Definition esc (t : list (list N)) (s : list N) : list N := encode (tab_enc t) s.

(* a string over an alphabet *)
Definition over (alphabet : list N) (s : list N) : Prop := Forall (fun c => In c alphabet) s.

(* ---- round trip *)
Theorem table_roundtrip t alphabet :
  prefix_free (tab_enc t) alphabet = true ->
  forall s, over alphabet s ->
  decode (tab_enc t) alphabet (S (length (esc t s))) (esc t s) = Some s.
Proof. intros H s Hs. unfold esc. apply decode_encode; [exact H|exact Hs|apply Nat.lt_succ_diag_r]. Qed.

(* ---- reserved characters only inside the listed escape forms *)
Definition mem_list (x : list N) (l : list (list N)) : bool :=
  existsb (fun y => (length x =? length y)%nat && prefixb x y) l.

Definition reserved_ok (t : list (list N)) (alphabet reserved : list N) (forms : list (list N)) : bool :=
  forallb (fun c => let e := tab_enc t c in
                    (mem_list e forms) ||
                    ((mem_list e [[c]]) && negb (existsb (N.eqb c) reserved))) alphabet.

Lemma mem_list_in x l : mem_list x l = true -> In x l.
Proof.
  unfold mem_list. rewrite existsb_exists. intros (y & Hy & H). apply andb_true_iff in H as [Hl Hp].
  apply Nat.eqb_eq in Hl. apply prefixb_spec in Hp as [r Hr].
  assert (r = []). { apply (f_equal (@length _)) in Hr. rewrite app_length in Hr. destruct r; [reflexivity|simpl in Hr; lia]. }
  subst r. rewrite app_nil_r in Hr. subst y. exact Hy.
Qed.

Theorem table_reserved t alphabet reserved forms :
  reserved_ok t alphabet reserved forms = true ->
  forall c, In c alphabet ->
  In (tab_enc t c) forms \/ (tab_enc t c = [c] /\ ~ In c reserved).
Proof.
  unfold reserved_ok. rewrite forallb_forall. intros H c Hc. specialize (H c Hc). cbv zeta in H.
  apply orb_true_iff in H as [H|H]; [left; apply mem_list_in, H|].
  apply andb_true_iff in H as [H1 H2]. right. split.
  - apply mem_list_in in H1. destruct H1 as [E|[]]. symmetry; exact E.
  - intros Hin. apply negb_true_iff in H2. assert (existsb (N.eqb c) reserved = true).
    { apply existsb_exists. exists c. split; [exact Hin|apply N.eqb_refl]. } congruence.
Qed.

(* ---- XML safety *)
Definition xstate_eqb (a b : xstate) : bool :=
  match a, b with
  | XT, XT | XAmp, XAmp | XHash, XHash | XDec, XDec | XHex0, XHex0 | XHex, XHex
  | XTag0, XTag0 | XTag, XTag | XTagSlash, XTagSlash | XBad, XBad => true
  | XName j, XName k => j =? k
  | _, _ => false
  end.

Definition xml_closed (attr : bool) (t : list (list N)) (alphabet : list N) : bool :=
  forallb (fun c => xstate_is_text (run xstate (xstep attr) (tab_enc t c) XT)) alphabet.

Lemma is_text_eq q : xstate_is_text q = true -> q = XT.
Proof. destruct q; cbn; intros H; try discriminate; reflexivity. Qed.

Theorem table_xml_safe attr t alphabet :
  xml_closed attr t alphabet = true ->
  forall s, over alphabet s -> xml_safe attr (esc t s) = true.
Proof.
  unfold xml_closed. rewrite forallb_forall. intros H s Hs. unfold xml_safe, esc, encode.
  rewrite (closed_under_codewords xstate (xstep attr) (tab_enc t) alphabet XT); [reflexivity| |exact Hs].
  intros c Hc. apply is_text_eq, H, Hc.
Qed.

(* ---- UTF-8 *)
Definition utf8_sim (t : list (list N)) (alphabet : list N) : bool :=
  forallb (fun q => forallb (fun c => ustate_eqb (ustep q c) UBad ||
                                      ustate_eqb (run ustate ustep (tab_enc t c) q) (ustep q c)) alphabet)
          all_ustates.

Lemma all_ustates_complete q : In q all_ustates.
Proof. destruct q; cbn; tauto. Qed.

Theorem table_preserves_utf8 t alphabet :
  utf8_sim t alphabet = true ->
  forall s, over alphabet s -> valid_utf8 s = true -> valid_utf8 (esc t s) = true.
Proof.
  unfold utf8_sim. rewrite forallb_forall. intros H s Hs Hv. unfold valid_utf8, esc, encode in *.
  apply ustate_eqb_eq in Hv.
  rewrite (simulation ustate ustep (tab_enc t) alphabet UBad ubad_sink); [rewrite Hv; reflexivity| |exact Hs|rewrite Hv; discriminate].
  intros q c Hc Hnb. specialize (H q (all_ustates_complete q)). rewrite forallb_forall in H.
  specialize (H c Hc). apply orb_true_iff in H as [H|H]; apply ustate_eqb_eq in H; [contradiction|exact H].
Qed.
