(* Soundness of the tree checker against the declarative statement of C15. *)
From Coq Require Import Lia.
From MMD.lib Require Import Bytes.
From MMD.model Require Import TreeCheck.
Local Open Scope N_scope.

(* The declarative property: what "structurally sound and inside the source" means for a dump. *)
Record WfTree (h : list tok) (srclen : N) : Prop := {
  wt_root : exists r, get h 1 = Some r /\ ty r = 0 /\ st r = 0 /\ ln r = srclen /\ nx r = 0 /\ pv r = 0;
  wt_span : forall i t, get h i = Some t -> st t + ln t <= srclen;
  wt_next : forall i t, get h i = Some t -> nx t <> 0 ->
            exists u, get h (nx t) = Some u /\ pv u = i /\ st t <= st u /\ i < nx t;
  wt_prev : forall i t, get h i = Some t -> pv t <> 0 -> exists u, get h (pv t) = Some u /\ nx u = i;
  wt_child : forall i t, get h i = Some t -> ch t <> 0 ->
            exists c, get h (ch t) = Some c /\ pv c = 0 /\ i < ch t;
  wt_mate : forall i t, get h i = Some t -> mt t <> 0 -> exists u, get h (mt t) = Some u /\ mt u = i;
  (* finite tree: the root is referenced by nobody, every other token by exactly one next/child
     pointer, and (by wt_next / wt_child) that pointer comes from a token with a smaller number *)
  wt_root_unref : count (targets h) 1 = 0%nat;
  wt_tree : forall i, 2 <= i -> i <= Nlen h -> count (targets h) i = 1%nat
}.

Lemma ids_from_nth n : forall i k, (k < n)%nat -> nth_error (ids_from i n) k = Some (i + N.of_nat k).
Proof.
  induction n as [|n IH]; intros i k Hk; [lia|]. destruct k as [|k]; cbn [ids_from nth_error].
  - f_equal. lia.
  - rewrite IH by lia. f_equal. lia.
Qed.

Lemma ids_from_in n : forall i x, i <= x -> x < i + N.of_nat n -> In x (ids_from i n).
Proof.
  induction n as [|n IH]; intros i x H1 H2; [lia|]. cbn [ids_from].
  destruct (N.eq_dec i x) as [->|Hne]; [left; reflexivity|]. right. apply IH; lia.
Qed.

Lemma combine_ids_nth (l : list tok) : forall (a : N) k t, nth_error l k = Some t ->
  nth_error (combine (ids_from a (length l)) l) k = Some (a + N.of_nat k, t).
Proof.
  induction l as [|x l IH]; intros a k0 t0 Hn; [destruct k0; discriminate|].
  destruct k0 as [|k0]; cbn [length ids_from combine nth_error] in *.
  - injection Hn as ->. f_equal. f_equal. lia.
  - rewrite (IH (a + 1) k0 t0 Hn). f_equal. f_equal. lia.
Qed.

Lemma get_in_combine h i t : get h i = Some t -> In (i, t) (combine (ids_from 1 (length h)) h).
Proof.
  unfold get. destruct (N.eqb_spec i 0) as [|Hi]; [discriminate|]. intros H.
  pose proof (combine_ids_nth h 1 _ _ H) as E.
  replace (1 + N.of_nat (N.to_nat (i - 1))) with i in E by lia.
  eapply nth_error_In; exact E.
Qed.

Lemma get_bound h i t : get h i = Some t -> 1 <= i /\ i <= Nlen h.
Proof.
  unfold get. destruct (N.eqb_spec i 0) as [|Hi]; [discriminate|]. intros H.
  assert (Hk : (N.to_nat (i - 1) < length h)%nat) by (apply nth_error_Some; rewrite H; discriminate).
  unfold Nlen. lia.
Qed.

Ltac split_andb H :=
  repeat match type of H with
         | (_ && _) = true => let H1 := fresh "Hb" in apply andb_true_iff in H as [H H1]
         end.

Theorem wf_tree_sound h srclen : wf_tree h srclen = true -> WfTree h srclen.
Proof.
  unfold wf_tree. intros H.
  apply andb_true_iff in H as [H Htree]. apply andb_true_iff in H as [H Hroot1].
  apply andb_true_iff in H as [Hroot Hall].
  rewrite forallb_forall in Hall.
  assert (Htok : forall i t, get h i = Some t -> ok_tok h srclen i t = true).
  { intros i t Hg. apply (Hall (i, t)). apply get_in_combine, Hg. }
  constructor.
  - unfold root_ok in Hroot. destruct h as [|r rest]; [discriminate|].
    exists r. split; [reflexivity|]. split_andb Hroot.
    repeat match goal with Hx : (_ =? _) = true |- _ => apply N.eqb_eq in Hx end. auto.
  - intros i t Hg. specialize (Htok i t Hg). unfold ok_tok in Htok. split_andb Htok.
    apply N.leb_le. assumption.
  - intros i t Hg Hn. specialize (Htok i t Hg). unfold ok_tok in Htok. split_andb Htok.
    destruct (N.eqb_spec (nx t) 0) as [|_]; [contradiction|].
    match goal with Hx : ((i <? nx t) && _) = true |- _ => apply andb_true_iff in Hx as [Hlt Hx];
      destruct (get h (nx t)) as [u|]; [|discriminate]; apply andb_true_iff in Hx as [Hp Ho] end.
    exists u. split; [reflexivity|]. apply N.eqb_eq in Hp. apply N.leb_le in Ho. apply N.ltb_lt in Hlt. auto.
  - intros i t Hg Hn. specialize (Htok i t Hg). unfold ok_tok in Htok. split_andb Htok.
    destruct (N.eqb_spec (pv t) 0) as [|_]; [contradiction|].
    match goal with Hx : match get h (pv t) with _ => _ end = true |- _ =>
      destruct (get h (pv t)) as [u|]; [|discriminate]; apply N.eqb_eq in Hx end.
    exists u. auto.
  - intros i t Hg Hn. specialize (Htok i t Hg). unfold ok_tok in Htok. split_andb Htok.
    destruct (N.eqb_spec (ch t) 0) as [|_]; [contradiction|].
    match goal with Hx : ((i <? ch t) && _) = true |- _ => apply andb_true_iff in Hx as [Hlt Hx];
      destruct (get h (ch t)) as [c|]; [|discriminate]; apply N.eqb_eq in Hx end.
    exists c. apply N.ltb_lt in Hlt. auto.
  - intros i t Hg Hn. specialize (Htok i t Hg). unfold ok_tok in Htok. split_andb Htok.
    destruct (N.eqb_spec (mt t) 0) as [|_]; [contradiction|].
    match goal with Hx : match get h (mt t) with _ => _ end = true |- _ =>
      destruct (get h (mt t)) as [u|]; [|discriminate]; apply N.eqb_eq in Hx end.
    exists u. auto.
  - apply Nat.eqb_eq, Hroot1.
  - intros i H2 Hn. rewrite forallb_forall in Htree. apply Nat.eqb_eq, Htree.
    apply ids_from_in; unfold Nlen in Hn; lia.
Qed.

(* consequences used to read the statement: every non-root token has a referrer, and referrers
   have smaller numbers, so following referrers from any token reaches the root: the dump is a
   finite tree *)
Lemma count_pos_in l x : (0 < count l x)%nat -> In x l.
Proof.
  unfold count. induction l as [|y l IH]; cbn [filter length]; [lia|].
  destruct (N.eqb_spec x y) as [->|Hne]; [left; reflexivity|]. intros H. right. apply IH, H.
Qed.

Lemma target_has_referrer h i : In i (targets h) ->
  exists j t, get h j = Some t /\ (nx t = i \/ ch t = i) /\ i <> 0.
Proof.
  unfold targets. rewrite in_flat_map. intros (t & Hin & Hi).
  apply In_nth_error in Hin as [k Hk].
  exists (N.of_nat k + 1), t. split.
  - unfold get. destruct (N.eqb_spec (N.of_nat k + 1) 0); [lia|].
    replace (N.to_nat (N.of_nat k + 1 - 1)) with k by lia. exact Hk.
  - apply in_app_or in Hi as [Hi|Hi].
    + destruct (N.eqb_spec (nx t) 0); [destruct Hi|]. destruct Hi as [<-|[]]. auto.
    + destruct (N.eqb_spec (ch t) 0); [destruct Hi|]. destruct Hi as [<-|[]]. auto.
Qed.

Theorem wf_tree_parent h srclen i : WfTree h srclen -> 2 <= i -> i <= Nlen h ->
  exists j t, get h j = Some t /\ (nx t = i \/ ch t = i) /\ j < i.
Proof.
  intros W H2 Hn. pose proof (wt_tree _ _ W i H2 Hn) as Hc.
  destruct (target_has_referrer h i) as (j & t & Hg & Hor & Hnz); [apply count_pos_in; lia|].
  exists j, t. split; [exact Hg|]. split; [exact Hor|].
  destruct Hor as [E|E].
  - destruct (wt_next _ _ W j t Hg) as (u & _ & _ & _ & Hlt); [rewrite E; exact Hnz|]. rewrite E in Hlt. exact Hlt.
  - destruct (wt_child _ _ W j t Hg) as (c & _ & _ & Hlt); [rewrite E; exact Hnz|]. rewrite E in Hlt. exact Hlt.
Qed.
