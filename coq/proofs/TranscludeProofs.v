(* C13: termination of transclusion on every file system (any include graph) and absence of
   duplicates in the manifest. *)
From Coq Require Import Lia.
From MMD.lib Require Import Bytes BytesFacts.
From MMD.model Require Import TranscludeModel.
Local Open Scope N_scope.

Lemma bytes_eqb_eq a : forall b, bytes_eqb a b = true -> a = b.
Proof.
  induction a as [|x a IH]; intros [|y b] H; try discriminate; [reflexivity|].
  cbn in H. apply andb_true_iff in H as [H1 H2]. apply N.eqb_eq in H1. subst. f_equal. apply IH, H2.
Qed.

Lemma bytes_eqb_refl a : bytes_eqb a a = true.
Proof. induction a as [|x a IH]; [reflexivity|]. cbn. rewrite N.eqb_refl, IH. reflexivity. Qed.

Lemma mem_path_false p l : mem_path p l = false -> ~ In p l.
Proof.
  intros H Hin. unfold mem_path in H. assert (existsb (bytes_eqb p) l = true).
  { apply existsb_exists. exists p. split; [exact Hin|apply bytes_eqb_refl]. } congruence.
Qed.

Definition keys (fs : fsys) : list path := map fst fs.

Lemma lookup_key fs p c : lookup fs p = Some c -> In p (keys fs).
Proof.
  induction fs as [|[q d] fs IH]; [discriminate|]. cbn [lookup keys map fst].
  destruct (bytes_eqb p q) eqn:E; [intros _; left; symmetry; apply bytes_eqb_eq, E|intros H; right; apply IH, H].
Qed.

Lemma scan_file_key fs p c : scan_file fs p = Some c -> In p (keys fs).
Proof. unfold scan_file. destruct (lookup fs p) eqn:E; [intros _; eapply lookup_key, E|discriminate]. Qed.

Lemma find_close_pos t j : find_sub CLOSE2 (OPEN2 ++ t) = Some j -> (1 <= j)%nat.
Proof.
  intros H. destruct j; [|lia]. exfalso. apply find_sub_sound in H as [t' Ht'].
  cbn [skipn OPEN2 CLOSE2 app] in Ht'. discriminate.
Qed.

Lemma NoDup_app' {A} (a b : list A) : NoDup a -> NoDup b -> (forall x, In x a -> ~ In x b) -> NoDup (a ++ b).
Proof.
  induction a as [|x a IH]; intros Ha Hb H; [exact Hb|]. inversion Ha; subst. cbn. constructor.
  - intros Hin. apply in_app_or in Hin as [Hin|Hin]; [contradiction|]. apply (H x (or_introl eq_refl) Hin).
  - apply IH; [assumption|assumption|]. intros y Hy. apply H. right; exact Hy.
Qed.

Section T.
Variable fs : fsys.
Variable fmt : ext_kind.
Definition R := res (list N * tstate).
Definition good (st : tstate) (r : R) : Prop :=
  exists out st', r = Ok (out, st') /\ (NoDup (manifest st) -> NoDup (manifest st')).

(* the marker loop returns when the recursion it uses does *)
Lemma loop_ok recurse folder stack :
  (forall fo p st buf, ~ In p stack -> In p (keys fs) -> good st (recurse fo p (stack ++ [p]) st buf)) ->
  forall lfuel rest st, (length rest < lfuel)%nat -> good st (loop fs fmt recurse folder stack lfuel rest st).
Proof.
  intros Hrec. induction lfuel as [|lf IH]; intros rest st Hl; [lia|]. cbn [loop].
  destruct (find_sub OPEN2 rest) as [i|] eqn:Fo.
  2:{ exists rest, st. auto. }
  pose proof (find_sub_bound _ _ _ Fo) as Hi. cbn [OPEN2 length] in Hi.
  destruct (find_sub_sound _ _ _ Fo) as [t Ht].
  destruct (find_sub CLOSE2 (skipn i rest)) as [j|] eqn:Fc.
  2:{ exists rest, st. auto. }
  pose proof (find_sub_bound _ _ _ Fc) as Hj. cbn [CLOSE2 length] in Hj. rewrite skipn_length in Hj.
  assert (Hj1 : (1 <= j)%nat) by (rewrite Ht in Fc; eapply find_close_pos, Fc).
  assert (L2 : (length (skipn 2 (skipn i rest)) < lf)%nat) by (rewrite !skipn_length; lia).
  assert (Lj : (length (skipn j (skipn i rest)) < lf)%nat) by (rewrite !skipn_length; lia).
  assert (La : (length (skipn (j + 2) (skipn i rest)) < lf)%nat) by (rewrite !skipn_length; lia).
  assert (Wrap : forall st0 st2 rest' (k : list N -> list N), (length rest' < lf)%nat -> (NoDup (manifest st0) -> NoDup (manifest st2)) ->
            good st0 (do r <- loop fs fmt recurse folder stack lf rest' st2; Ok (k (fst r), snd r))).
  { intros st0 st2 rest' k Hlen Hnd. destruct (IH rest' st2 Hlen) as (o & s' & -> & Hs). cbn [bind fst snd].
    exists (k o), s'. split; [reflexivity|]. intros H. apply Hs, Hnd, H. }
  destruct (Nat.leb 1000 j).
  { apply (Wrap st st _ (fun o => firstn i rest ++ OPEN2 ++ o) L2 (fun H => H)). }
  destruct (bytes_eqb (firstn (j - 2) (skipn 2 (skipn i rest))) TOC).
  { apply (Wrap st st _ (fun o => firstn i rest ++ firstn j (skipn i rest) ++ o) Lj (fun H => H)). }
  set (p := apply_wildcard fmt _ _).
  destruct (mem_path p stack) eqn:Ms.
  { apply (Wrap st (mkt (manifest st) true) _ (fun o => firstn i rest ++ OPEN2 ++ o) L2 (fun H => H)). }
  set (st1 := mkt (if mem_path p (manifest st) then manifest st else manifest st ++ [p]) (cyc st)).
  assert (Hst1 : NoDup (manifest st) -> NoDup (manifest st1)).
  { intros H. unfold st1. cbn [manifest]. destruct (mem_path p (manifest st)) eqn:Mm; [exact H|].
    apply NoDup_app'; [exact H|constructor; [intros []|constructor]|]. intros x Hx [<-|[]]. eapply mem_path_false; eassumption. }
  destruct (scan_file fs p) as [buf|] eqn:Sf.
  2:{ apply (Wrap st st1 _ (fun o => firstn i rest ++ OPEN2 ++ o) L2 Hst1). }
  destruct (Hrec folder p st1 buf (mem_path_false _ _ Ms) (scan_file_key _ _ _ Sf)) as (co & cs & -> & Hcs).
  cbn [bind fst snd].
  apply (Wrap st cs _ (fun o => firstn i rest ++ skipn (meta_end co) co ++ o) La (fun H => Hcs (Hst1 H))).
Qed.


(* recursion into files: the stack of open files holds distinct keys of the file system *)
Lemma transclude_ok : forall fuel stack, NoDup stack -> incl stack (keys fs) ->
  (length (keys fs) < fuel + length stack)%nat ->
  forall sp srcp st src, good st (transclude fs fmt fuel sp srcp stack st src).
Proof.
  induction fuel as [|fuel IH]; intros stack Hnd Hincl Hf sp srcp st src.
  - pose proof (NoDup_incl_length Hnd Hincl). lia.
  - cbn [transclude].
    destruct (loop_ok (transclude fs fmt fuel) (folder_of sp srcp src) stack) with
      (lfuel := S (length (skipn (meta_end src) src))) (rest := skipn (meta_end src) src) (st := st) as (o & s' & -> & Hs).
    + intros fo p st0 buf Hnin Hin. apply IH.
      * apply NoDup_app'; [exact Hnd|constructor; [intros []|constructor]|]. intros x Hx [<-|[]]. contradiction.
      * intros x Hx. apply in_app_or in Hx as [Hx|[<-|[]]]; [apply Hincl, Hx|exact Hin].
      * rewrite app_length. cbn [length]. lia.
    + lia.
    + cbn [bind fst snd]. eexists; eexists; split; [reflexivity|exact Hs].
Qed.

Theorem transclude_top_ok sp srcp src :
  exists out st, transclude_top fs fmt sp srcp src = Ok (out, st) /\ NoDup (manifest st).
Proof.
  unfold transclude_top.
  destruct (transclude_ok (S (length fs)) [] (NoDup_nil _) (incl_nil_l _)) with (sp := sp) (srcp := srcp) (st := mkt [] false) (src := src)
    as (o & s' & E & Hs).
  - unfold keys. rewrite map_length. cbn [length]. lia.
  - exists o, s'. split; [exact E|]. apply Hs. constructor.
Qed.
End T.
