(* Proofs about DStringModel: invariant, refinement to DStringSpec, absence of OOB, termination. *)
From Coq Require Import Lia.
From MMD.lib Require Import Bytes BytesFacts.
From MMD.model Require Import DStringModel DStringSpec.
Local Open Scope N_scope.

Definition BIG : N := 2 ^ 62.   (* any string that fits in memory is far shorter *)

(* The invariant, in "view" form: the buffer is the content, a NUL, and junk. *)
Definition View (s : ds) (c j : list byte) : Prop :=
  raw s = c ++ 0 :: j /\ len s = Nlen c /\ nonul c = true /\
  cap s = Nlen (raw s) /\ 1024 <= cap s /\ cap s < 2 ^ 63.

Definition Inv (s : ds) : Prop := exists c j, View s c j.

Lemma view_content s c j : View s c j -> content s = c.
Proof.
  intros (Hr & Hl & _). unfold content. rewrite Hr, Hl, Nlen_to_nat. apply firstn_app_exact.
Qed.

Lemma view_len_lt_cap s c j : View s c j -> len s < cap s.
Proof.
  intros (Hr & Hl & _ & Hc & _). rewrite Hc, Hr, Hl, Nlen_app, Nlen_cons. lia.
Qed.

Lemma view_nul s c j : View s c j -> nth_error (raw s) (N.to_nat (len s)) = Some 0.
Proof.
  intros (Hr & Hl & _). rewrite Hr, Hl, Nlen_to_nat.
  rewrite nth_error_app2 by lia. rewrite Nat.sub_diag. reflexivity.
Qed.

(* ---- primitives in view form *)
Lemma memcpy_in_view a t p : Nlen p <= Nlen t ->
  memcpy_in (a ++ t) (Nlen a) p = Ok (a ++ p ++ skipn (length p) t).
Proof.
  intros H. unfold memcpy_in. rewrite Nlen_app.
  destruct (N.leb_spec (Nlen a + Nlen p) (Nlen a + Nlen t)) as [_|Hc]; [|lia].
  rewrite Nlen_to_nat, blit_view. reflexivity.
Qed.

Lemma poke_view a t b : t <> [] -> poke (a ++ t) (Nlen a) b = Ok (a ++ b :: tl t).
Proof.
  intros H. destruct t as [|x t]; [congruence|]. unfold poke. rewrite Nlen_app, Nlen_cons.
  destruct (N.ltb_spec (Nlen a) (Nlen a + (1 + Nlen t))) as [_|Hc]; [|lia].
  rewrite Nlen_to_nat, blit_view. reflexivity.
Qed.

(* move [n] bytes at the start of [t] to the right by [k] *)
Lemma memmove_right_view a t k n : (k + n <= length t)%nat ->
  memmove (a ++ t) (Nlen a + N.of_nat k) (Nlen a) (N.of_nat n) =
  Ok (a ++ firstn k t ++ firstn n t ++ skipn (k + n) t).
Proof.
  intros H. unfold memmove. rewrite Nlen_app.
  assert (Ht : Nlen t = N.of_nat (length t)) by reflexivity.
  destruct (N.leb_spec (Nlen a + N.of_nat n) (Nlen a + Nlen t)) as [_|Hc]; [|lia].
  destruct (N.leb_spec (Nlen a + N.of_nat k + N.of_nat n) (Nlen a + Nlen t)) as [_|Hc]; [|lia].
  simpl andb. f_equal.
  replace (N.to_nat (Nlen a + N.of_nat k)) with (length a + k)%nat by (unfold Nlen; lia).
  replace (N.to_nat (Nlen a)) with (length a + 0)%nat by (unfold Nlen; lia).
  rewrite Nat2N.id, sub_list_view. simpl skipn.
  rewrite blit_view_off by lia. rewrite firstn_length_le by lia. reflexivity.
Qed.

(* move [n] bytes found [k] bytes into [t] to the start of [t] *)
Lemma memmove_left_view a t k n : (k + n <= length t)%nat ->
  memmove (a ++ t) (Nlen a) (Nlen a + N.of_nat k) (N.of_nat n) =
  Ok (a ++ firstn n (skipn k t) ++ skipn n t).
Proof.
  intros H. unfold memmove. rewrite Nlen_app.
  assert (Ht : Nlen t = N.of_nat (length t)) by reflexivity.
  destruct (N.leb_spec (Nlen a + N.of_nat k + N.of_nat n) (Nlen a + Nlen t)) as [_|Hc]; [|lia].
  destruct (N.leb_spec (Nlen a + N.of_nat n) (Nlen a + Nlen t)) as [_|Hc]; [|lia].
  simpl andb. f_equal.
  replace (N.to_nat (Nlen a + N.of_nat k)) with (length a + k)%nat by (unfold Nlen; lia).
  rewrite Nlen_to_nat, Nat2N.id, sub_list_view, blit_view.
  rewrite firstn_length_le by (rewrite skipn_length; lia). reflexivity.
Qed.

Lemma cstr_at_view s c j off : View s c j -> (off <= length c)%nat ->
  cstr_at (raw s) (N.of_nat off) = Ok (skipn off c).
Proof.
  intros (Hr & _ & Hn & _) H. unfold cstr_at. rewrite Hr, Nlen_app, Nlen_cons.
  destruct (N.ltb_spec (N.of_nat off) (Nlen c + (1 + Nlen j))) as [_|Hc]; [|unfold Nlen in Hc; lia].
  rewrite Nat2N.id, skipn_app_l by lia.
  rewrite take_nonzero_nonul by (apply nonul_skipn, Hn).
  rewrite app_length, skipn_length. simpl length.
  destruct (Nat.ltb_spec (length c - off) (length c - off + S (length j))) as [_|Hc]; [reflexivity|lia].
Qed.

(* ---- growth *)
Lemma grow_double_spec fuel c needed r :
  1 <= c -> MAXINC < c * 2 ^ N.of_nat fuel -> c < 2 ^ 63 ->
  grow_double fuel c needed = r ->
  exists c', r = Ok c' /\ c <= c' /\ (needed <= c' \/ MAXINC < c') /\
             (c' = c \/ (c' < 2 * needed /\ c' <= 2 * MAXINC)).
Proof.
  revert c r; induction fuel as [|f IH]; intros c r H1 Hf Hc; cbn [grow_double].
  - destruct (N.leb_spec needed c) as [Hn|Hn]; simpl orb.
    + intros <-. exists c. repeat split; try lia.
    + destruct (N.ltb_spec MAXINC c) as [Hm|Hm]; intros <-.
      * exists c. repeat split; lia.
      * simpl in Hf. lia.
  - destruct (N.leb_spec needed c) as [Hn|Hn]; simpl orb.
    + intros <-. exists c. repeat split; lia.
    + destruct (N.ltb_spec MAXINC c) as [Hm|Hm].
      * intros <-. exists c. repeat split; lia.
      * intros Hr. unfold MAXINC in *.
        rewrite wmul2_small in Hr by (unfold W; lia).
        apply IH in Hr; try lia.
        -- destruct Hr as (c' & -> & Hle & Hor & Hb). exists c'. repeat split; try lia.
        -- rewrite Nat2N.inj_succ, N.pow_succ_r' in Hf. lia.
Qed.

Lemma grow_spec c needed :
  1024 <= c -> c < 2 ^ 63 -> c < needed -> needed <= BIG + 1 ->
  exists c', grow c needed = Ok c' /\ needed <= c' /\ c <= c' /\ c' < 2 ^ 63.
Proof.
  intros H1 H2 H3 H4. unfold grow.
  destruct (grow_double_spec 70 c needed _ ltac:(lia) ltac:(unfold MAXINC; simpl; lia) H2 eq_refl)
    as (c1 & -> & Hle & Hor & Hb).
  cbn [bind]. unfold BIG, MAXINC in *.
  destruct (N.leb_spec needed c1) as [Hn|Hn].
  - exists c1. repeat split; try lia.
  - eexists; split; [reflexivity|].
    assert (Hd : (needed - c1 + 104857600 - 1) = 104857600 * ((needed - c1 + 104857600 - 1) / 104857600)
                 + (needed - c1 + 104857600 - 1) mod 104857600) by (apply N.div_mod; lia).
    assert (Hm : (needed - c1 + 104857600 - 1) mod 104857600 < 104857600) by (apply N.mod_lt; lia).
    set (q := (needed - c1 + 104857600 - 1) / 104857600) in *.
    set (m := (needed - c1 + 104857600 - 1) mod 104857600) in *.
    clearbody q m. lia.
Qed.

Lemma ensure_view fill s c j newsize :
  View s c j -> newsize <= BIG ->
  exists s1 j1, ensure fill s newsize = Ok s1 /\ View s1 c j1 /\ newsize < cap s1 /\ len s1 = len s.
Proof.
  intros Hv Hs. pose proof Hv as (Hr & Hl & Hn & Hc & Hlo & Hhi).
  unfold ensure. rewrite wadd_small by (unfold BIG, W in *; lia).
  destruct (N.ltb_spec (cap s) (newsize + 1)) as [Hg|Hg].
  - destruct (grow_spec (cap s) (newsize + 1) Hlo Hhi Hg ltac:(lia)) as (c' & -> & H1 & H2 & H3).
    cbn [bind]. eexists; exists (j ++ repeat fill (N.to_nat (c' - cap s))). split; [reflexivity|].
    split; [|split; cbn [cap len]; [lia|reflexivity]].
    unfold View; cbn [raw len cap]. rewrite Hr, <- app_assoc. cbn [app].
    repeat split; try assumption; try lia.
    rewrite !Nlen_app, !Nlen_cons, Nlen_app, Nlen_repeat.
    rewrite Hc, Hr, Nlen_app, Nlen_cons in *. lia.
  - exists s, j. repeat split; try assumption; try lia.
Qed.

(* ---- the operations *)
Section Ops.
Variable fill : byte.

Ltac view_split Hv := pose proof Hv as (Hr & Hl & Hn & Hc & Hlo & Hhi).

Lemma capfacts s c j : View s c j -> cap s = Nlen c + 1 + Nlen j.
Proof. intros (Hr & _ & _ & Hc & _). rewrite Hc, Hr, Nlen_app, Nlen_cons. lia. Qed.

Lemma append_ok s c j p :
  View s c j -> nonul p = true -> Nlen c + Nlen p <= BIG ->
  exists s' j', ds_append fill s p = Ok s' /\ View s' (c ++ p) j'.
Proof.
  intros Hv Hp Hs. view_split Hv. unfold ds_append. rewrite Hp. cbn [negb].
  destruct (N.eqb_spec (Nlen p) 0) as [Hz|Hz].
  - exists s, j. apply Nlen_zero in Hz. subst p. rewrite app_nil_r. split; [reflexivity|assumption].
  - rewrite Hl, wadd_small by (unfold BIG, W in *; lia).
    destruct (ensure_view fill s c j (Nlen c + Nlen p) Hv Hs) as (s1 & j1 & -> & Hv1 & Hcap1 & Hlen1).
    cbn [bind]. pose proof Hv1 as (Hr1 & Hl1 & _ & Hc1 & Hlo1 & Hhi1).
    pose proof (capfacts _ _ _ Hv1) as Hcf.
    rewrite Hl1. unfold Nlen at 1. rewrite (cstr_at_view s1 c j1 (length c) Hv1) by lia.
    rewrite skipn_all. cbn [bind]. rewrite Nlen_nil, N.add_0_r.
    fold (Nlen c). rewrite Hr1.
    rewrite memcpy_in_view by (rewrite Nlen_cons; lia). cbn [bind].
    assert (Hsk : skipn (length p) (0 :: j1) <> []).
    { intros E. apply (f_equal (@length _)) in E. rewrite skipn_length in E. cbn [length] in E.
      unfold Nlen in *. lia. }
    rewrite app_assoc, <- Nlen_app, poke_view by exact Hsk. cbn [bind].
    eexists; eexists; split; [reflexivity|].
    unfold View; cbn [raw len cap]. repeat split; try assumption.
    + rewrite nonul_app, Hn, Hp; reflexivity.
    + rewrite Hc1, Hr1. rewrite !Nlen_app, !Nlen_cons.
      destruct (skipn (length p) (0 :: j1)) as [|y Y] eqn:E; [congruence|]. cbn [tl].
      apply (f_equal (@length _)) in E. rewrite skipn_length in E. cbn [length] in E.
      unfold Nlen in *. lia.
Qed.

(* closing step shared by all mutators: write the NUL after the new content *)
Lemma finish (c' t : list byte) capv :
  t <> [] -> nonul c' = true -> capv = Nlen (c' ++ t) -> 1024 <= capv -> capv < 2 ^ 63 ->
  poke (c' ++ t) (Nlen c') 0 = Ok (c' ++ 0 :: tl t) /\
  View (mkds (c' ++ 0 :: tl t) (Nlen c') capv) c' (tl t).
Proof.
  intros Ht Hn Hc Hlo Hhi. rewrite poke_view by exact Ht. split; [reflexivity|].
  unfold View; cbn [raw len cap]. repeat split; try assumption.
  rewrite Hc, !Nlen_app, Nlen_cons. destruct t as [|x t]; [congruence|]. cbn [tl]. rewrite Nlen_cons. lia.
Qed.

Lemma poke_as_memcpy r i b : poke r i b = memcpy_in r i [b].
Proof.
  unfold poke, memcpy_in. rewrite Nlen_cons, Nlen_nil.
  destruct (N.ltb_spec i (Nlen r)); destruct (N.leb_spec (i + (1 + 0)) (Nlen r)); try reflexivity; lia.
Qed.

Lemma skipn_nonempty {A} (l : list A) n : (n < length l)%nat -> skipn n l <> [].
Proof. intros H E. apply (f_equal (@length _)) in E. rewrite skipn_length in E. simpl in E. lia. Qed.

(* open a gap of |q| bytes at offset |a| in  a ++ b ++ NUL ++ junk, fill it with q, terminate *)
Lemma insert_core a b j1 q capv :
  Nlen q <= Nlen j1 -> nonul (a ++ q ++ b) = true ->
  capv = Nlen (a ++ b ++ 0 :: j1) -> 1024 <= capv -> capv < 2 ^ 63 ->
  exists r1 r2 r3 j',
    memmove (a ++ b ++ 0 :: j1) (Nlen a + Nlen q) (Nlen a) (Nlen b) = Ok r1 /\
    memcpy_in r1 (Nlen a) q = Ok r2 /\
    poke r2 (Nlen a + Nlen q + Nlen b) 0 = Ok r3 /\
    View (mkds r3 (Nlen a + Nlen q + Nlen b) capv) (a ++ q ++ b) j'.
Proof.
  intros Hq Hn Hc Hlo Hhi.
  set (t := b ++ 0 :: j1).
  assert (Hlt : length t = (length b + S (length j1))%nat) by (unfold t; rewrite app_length; reflexivity).
  assert (Hq' : (length q <= length j1)%nat) by (unfold Nlen in Hq; lia).
  unfold Nlen at 2 4. rewrite memmove_right_view by lia.
  eexists. eexists. eexists. eexists. split; [reflexivity|].
  rewrite memcpy_in_view.
  2:{ rewrite !Nlen_app, Nlen_firstn by lia. unfold Nlen; lia. }
  split; [reflexivity|].
  rewrite skipn_app_l by (rewrite firstn_length_le; lia).
  rewrite (skipn_all2 (firstn (length q) t)) by (rewrite firstn_length_le; lia). cbn [app].
  assert (Hb : firstn (length b) t = b) by (unfold t; apply firstn_app_exact).
  rewrite Hb.
  replace (a ++ q ++ b ++ skipn (length q + length b) t) with ((a ++ q ++ b) ++ skipn (length q + length b) t)
    by (rewrite <- !app_assoc; reflexivity).
  replace (Nlen a + Nlen q + Nlen b) with (Nlen (a ++ q ++ b)) by (rewrite !Nlen_app; lia).
  destruct (finish (a ++ q ++ b) (skipn (length q + length b) t) capv) as (Hp & Hv); try assumption.
  - apply skipn_nonempty. unfold Nlen in Hq; lia.
  - rewrite Hc. unfold Nlen. rewrite !app_length, skipn_length, Hlt, ?app_length. cbn [length]. lia.
  - rewrite Hp. split; [reflexivity|]. exact Hv.
Qed.

Lemma split_at (c : list byte) k : c = firstn k c ++ skipn k c.
Proof. symmetry; apply firstn_skipn. Qed.

Definition cpos (s : ds) (pos : N) : N := if len s <? pos then len s else pos.

Lemma cpos_clamp s c j pos : View s c j -> N.to_nat (cpos s pos) = clampN pos c /\ cpos s pos <= Nlen c.
Proof.
  intros (_ & Hl & _). unfold cpos, clampN. rewrite Hl.
  destruct (N.ltb_spec (Nlen c) pos); split; try lia; f_equal; lia.
Qed.

(* generic insertion of a NUL-free payload q at (clamped) position pos *)
Lemma insert_generic s c j pos q :
  View s c j -> nonul q = true -> Nlen c + Nlen q <= BIG ->
  exists s1 r1 r2 r3 j',
    ensure fill s (wadd (len s) (Nlen q)) = Ok s1 /\
    memmove (raw s1) (wadd (cpos s pos) (Nlen q)) (cpos s pos) (wsub (len s1) (cpos s pos)) = Ok r1 /\
    memcpy_in r1 (cpos s pos) q = Ok r2 /\
    poke r2 (wadd (len s) (Nlen q)) 0 = Ok r3 /\
    View (mkds r3 (wadd (len s) (Nlen q)) (cap s1)) (sp_insert c pos q) j'.
Proof.
  intros Hv Hq Hs. view_split Hv.
  destruct (cpos_clamp s c j pos Hv) as [Hk Hle]. set (k := clampN pos c) in *.
  assert (Hkl : (k <= length c)%nat) by (unfold Nlen in Hle; lia).
  rewrite Hl, wadd_small by (unfold BIG, W in *; lia).
  destruct (ensure_view fill s c j (Nlen c + Nlen q) Hv Hs) as (s1 & j1 & He & Hv1 & Hcap1 & Hlen1).
  rewrite He. exists s1.
  pose proof Hv1 as (Hr1 & Hl1 & _ & Hc1 & Hlo1 & Hhi1).
  pose proof (capfacts _ _ _ Hv1) as Hcf.
  assert (Hp : cpos s pos = Nlen (firstn k c)) by (rewrite Nlen_firstn by lia; lia).
  rewrite Hl1, Hp, wadd_small, wsub_small; try (unfold BIG, W in *; rewrite ?Nlen_firstn by lia; lia).
  replace (Nlen c - Nlen (firstn k c)) with (Nlen (skipn k c)).
  2:{ rewrite Nlen_firstn by lia. unfold Nlen. rewrite skipn_length. lia. }
  rewrite Hr1.
  assert (Hsp : c ++ 0 :: j1 = firstn k c ++ skipn k c ++ 0 :: j1)
    by (rewrite app_assoc, firstn_skipn; reflexivity).
  rewrite Hsp.
  destruct (insert_core (firstn k c) (skipn k c) j1 q (cap s1)) as (r1 & r2 & r3 & j' & H1 & H2 & H3 & H4).
  - lia.
  - rewrite !nonul_app, Hq, nonul_firstn, nonul_skipn by assumption. reflexivity.
  - rewrite Hc1, Hr1, Hsp. reflexivity.
  - assumption.
  - assumption.
  - exists r1, r2, r3, j'. split; [reflexivity|]. split; [exact H1|]. split; [exact H2|].
    replace (Nlen c + Nlen q) with (Nlen (firstn k c) + Nlen q + Nlen (skipn k c)).
    2:{ rewrite Nlen_firstn by lia. unfold Nlen. rewrite skipn_length. lia. }
    split; [exact H3|]. exact H4.
Qed.

Lemma insert_ok s c j pos p :
  View s c j -> nonul p = true -> Nlen c + Nlen p <= BIG ->
  exists s' j', ds_insert fill s pos p = Ok s' /\ View s' (sp_insert c pos p) j'.
Proof.
  intros Hv Hp Hs. unfold ds_insert. rewrite Hp. cbn [negb].
  destruct (N.eqb_spec (Nlen p) 0) as [Hz|Hz].
  - exists s, j. apply Nlen_zero in Hz. subst p. unfold sp_insert. cbn [app].
    rewrite firstn_skipn. split; [reflexivity|assumption].
  - fold (cpos s pos).
    destruct (insert_generic s c j pos p Hv Hp Hs) as (s1 & r1 & r2 & r3 & j' & -> & H1 & H2 & H3 & H4).
    cbn [bind]. rewrite H1. cbn [bind]. rewrite H2. cbn [bind]. rewrite H3. cbn [bind].
    eexists; eexists; split; [reflexivity|exact H4].
Qed.

Lemma insert_c_ok s c j pos b :
  View s c j -> Nlen c + 1 <= BIG ->
  exists s' j', ds_insert_c fill s pos b = Ok s' /\
                View s' (if b =? 0 then c else sp_insert c pos [b]) j'.
Proof.
  intros Hv Hs. unfold ds_insert_c.
  destruct (N.eqb_spec b 0) as [Hz|Hz].
  - exists s, j. split; [reflexivity|assumption].
  - fold (cpos s pos).
    assert (Hq : nonul [b] = true).
    { unfold nonul; simpl. destruct (N.eqb_spec b 0); [contradiction|reflexivity]. }
    destruct (insert_generic s c j pos [b] Hv Hq Hs) as (s1 & r1 & r2 & r3 & j' & He & H1 & H2 & H3 & H4).
    change (Nlen [b]) with 1 in *. rewrite He. cbn [bind]. rewrite H1. cbn [bind].
    rewrite poke_as_memcpy, H2. cbn [bind]. rewrite H3. cbn [bind].
    eexists; eexists; split; [reflexivity|exact H4].
Qed.

Lemma firstn_le_Nlen (p : list byte) (n : N) : n <= Nlen p -> Nlen (firstn (N.to_nat n) p) = n.
Proof. intros H. rewrite Nlen_firstn by (unfold Nlen in H; lia). lia. Qed.

Lemma insert_arr_ok s c j pos p n :
  View s c j -> nonul p = true -> n <> SIZE_MAX -> n <= Nlen p -> Nlen c + n <= BIG ->
  exists s' j', ds_insert_c_array fill s pos p n = Ok s' /\
                View s' (sp_insert c pos (firstn (N.to_nat n) p)) j'.
Proof.
  intros Hv Hp Hm Hn Hs. unfold ds_insert_c_array.
  destruct (N.eqb_spec n SIZE_MAX) as [|_]; [contradiction|].
  rewrite Hp. cbn [negb orb].
  destruct (N.ltb_spec (Nlen p) n) as [|_]; [lia|].
  fold (cpos s pos).
  pose proof (firstn_le_Nlen p n Hn) as Hf.
  destruct (insert_generic s c j pos (firstn (N.to_nat n) p) Hv (nonul_firstn _ _ Hp) ltac:(lia))
    as (s1 & r1 & r2 & r3 & j' & He & H1 & H2 & H3 & H4).
  rewrite Hf in *. rewrite He. cbn [bind]. rewrite H1. cbn [bind]. rewrite H2. cbn [bind].
  rewrite H3. cbn [bind]. eexists; eexists; split; [reflexivity|exact H4].
Qed.

Lemma prepend_ok s c j p :
  View s c j -> nonul p = true -> Nlen c + Nlen p <= BIG ->
  exists s' j', ds_prepend fill s p = Ok s' /\ View s' (p ++ c) j'.
Proof.
  intros Hv Hp Hs. view_split Hv. unfold ds_prepend. rewrite Hp. cbn [negb].
  destruct (N.eqb_spec (Nlen p) 0) as [Hz|Hz].
  - exists s, j. apply Nlen_zero in Hz. subst p. split; [reflexivity|assumption].
  - rewrite Hl, wadd_small by (unfold BIG, W in *; lia).
    destruct (ensure_view fill s c j (Nlen c + Nlen p) Hv Hs) as (s1 & j1 & He & Hv1 & Hcap1 & Hlen1).
    rewrite He. cbn [bind].
    pose proof Hv1 as (Hr1 & Hl1 & _ & Hc1 & Hlo1 & Hhi1).
    pose proof (capfacts _ _ _ Hv1) as Hcf.
    destruct (insert_core [] c j1 p (cap s1)) as (r1 & r2 & r3 & j' & H1 & H2 & H3 & H4).
    + lia.
    + cbn [app]. rewrite nonul_app, Hp, Hn. reflexivity.
    + rewrite Hc1, Hr1. reflexivity.
    + assumption.
    + assumption.
    + cbn [app] in *. rewrite Nlen_nil, !N.add_0_l in *.
      rewrite Hr1, Hl1, H1. cbn [bind]. rewrite H2. cbn [bind].
      replace (Nlen c + Nlen p) with (Nlen p + Nlen c) by lia. rewrite H3. cbn [bind].
      eexists; eexists; split; [reflexivity|exact H4].
Qed.

(* append a NUL-free payload q with memcpy + poke (append_c_array, append_c) *)
Lemma append_core c j1 q capv :
  Nlen q <= Nlen j1 -> nonul (c ++ q) = true ->
  capv = Nlen (c ++ 0 :: j1) -> 1024 <= capv -> capv < 2 ^ 63 ->
  exists r1 r2 j',
    memcpy_in (c ++ 0 :: j1) (Nlen c) q = Ok r1 /\
    poke r1 (Nlen c + Nlen q) 0 = Ok r2 /\
    View (mkds r2 (Nlen c + Nlen q) capv) (c ++ q) j'.
Proof.
  intros Hq Hn Hc Hlo Hhi.
  assert (Hq' : (length q <= length j1)%nat) by (unfold Nlen in Hq; lia).
  rewrite memcpy_in_view by (rewrite Nlen_cons; lia).
  rewrite app_assoc, <- Nlen_app.
  destruct (finish (c ++ q) (skipn (length q) (0 :: j1)) capv) as (Hp & Hv); try assumption.
  - apply skipn_nonempty. cbn [length]. lia.
  - rewrite Hc. unfold Nlen. rewrite !app_length, skipn_length. cbn [length]. lia.
  - eexists; eexists; eexists. split; [reflexivity|]. split; [exact Hp|exact Hv].
Qed.

Lemma append_c_ok s c j b :
  View s c j -> Nlen c + 1 <= BIG ->
  exists s' j', ds_append_c fill s b = Ok s' /\ View s' (if b =? 0 then c else c ++ [b]) j'.
Proof.
  intros Hv Hs. view_split Hv. unfold ds_append_c.
  destruct (N.eqb_spec b 0) as [Hz|Hz].
  - exists s, j. split; [reflexivity|assumption].
  - rewrite Hl, wadd_small by (unfold BIG, W in *; lia).
    destruct (ensure_view fill s c j (Nlen c + 1) Hv Hs) as (s1 & j1 & He & Hv1 & Hcap1 & Hlen1).
    rewrite He. cbn [bind].
    pose proof Hv1 as (Hr1 & Hl1 & _ & Hc1 & Hlo1 & Hhi1).
    pose proof (capfacts _ _ _ Hv1) as Hcf.
    assert (Hq : nonul [b] = true).
    { unfold nonul; simpl. destruct (N.eqb_spec b 0); [contradiction|reflexivity]. }
    destruct (append_core c j1 [b] (cap s1)) as (r1 & r2 & j' & H1 & H2 & H3).
    + change (Nlen [b]) with 1. lia.
    + rewrite nonul_app, Hn, Hq. reflexivity.
    + rewrite Hc1, Hr1. reflexivity.
    + assumption.
    + assumption.
    + change (Nlen [b]) with 1 in *. rewrite Hr1, Hl1, poke_as_memcpy, H1. cbn [bind].
      rewrite H2. cbn [bind]. eexists; eexists; split; [reflexivity|exact H3].
Qed.

Lemma append_arr_ok s c j p n :
  View s c j -> nonul p = true -> n <> SIZE_MAX -> n <= Nlen p -> Nlen c + n <= BIG ->
  exists s' j', ds_append_c_array fill s p n = Ok s' /\ View s' (c ++ firstn (N.to_nat n) p) j'.
Proof.
  intros Hv Hp Hm Hle Hs. view_split Hv. unfold ds_append_c_array.
  destruct (N.eqb_spec n SIZE_MAX) as [|_]; [contradiction|].
  rewrite Hp. cbn [negb orb].
  destruct (N.ltb_spec (Nlen p) n) as [|_]; [lia|].
  rewrite Hl, wadd_small by (unfold BIG, W in *; lia).
  destruct (ensure_view fill s c j (Nlen c + n) Hv Hs) as (s1 & j1 & He & Hv1 & Hcap1 & Hlen1).
  rewrite He. cbn [bind].
  pose proof Hv1 as (Hr1 & Hl1 & _ & Hc1 & Hlo1 & Hhi1).
  pose proof (capfacts _ _ _ Hv1) as Hcf.
  pose proof (firstn_le_Nlen p n Hle) as Hf.
  destruct (append_core c j1 (firstn (N.to_nat n) p) (cap s1)) as (r1 & r2 & j' & H1 & H2 & H3).
  - rewrite Hf. lia.
  - rewrite nonul_app, Hn, nonul_firstn by assumption. reflexivity.
  - rewrite Hc1, Hr1. reflexivity.
  - assumption.
  - assumption.
  - rewrite Hf in *. rewrite Hr1, Hl1, H1. cbn [bind]. rewrite H2. cbn [bind].
    eexists; eexists; split; [reflexivity|exact H3].
Qed.

(* ---- erase *)
Lemma erase_ok s c j pos l :
  View s c j ->
  exists s' j', ds_erase s pos l = Ok s' /\ View s' (sp_erase c pos l) j'.
Proof.
  intros Hv. view_split Hv. unfold ds_erase, sp_erase. rewrite Hl.
  destruct (N.ltb_spec (Nlen c) pos) as [Hp|Hp]; cbn [orb].
  { exists s, j. split; [reflexivity|assumption]. }
  destruct (N.eqb_spec l 0) as [Hz|Hz].
  { exists s, j. split; [reflexivity|assumption]. }
  set (k := N.to_nat pos).
  assert (Hk : (k <= length c)%nat) by (unfold Nlen in Hp; lia).
  assert (Hpk : pos = Nlen (firstn k c)) by (rewrite Nlen_firstn by lia; lia).
  assert (Hbig : Nlen c < 2 ^ 63).
  { rewrite Hc, Hr, Nlen_app, Nlen_cons in Hhi. lia. }
  destruct (N.leb_spec (Nlen c - pos) l) as [Hto|Hto].
  - (* erase to the end *)
    destruct (N.leb_spec (Nlen c) (pos + l)) as [_|Hx]; [|lia].
    change (SIZE_MAX =? SIZE_MAX) with true. cbv iota.
    rewrite Hr.
    assert (Hsp : c ++ 0 :: j = firstn k c ++ skipn k c ++ 0 :: j)
      by (rewrite app_assoc, firstn_skipn; reflexivity).
    rewrite Hsp, Hpk.
    destruct (finish (firstn k c) (skipn k c ++ 0 :: j) (cap s)) as (H1 & H2).
    + destruct (skipn k c); discriminate.
    + apply nonul_firstn, Hn.
    + rewrite Hc, Hr, Hsp. reflexivity.
    + assumption.
    + assumption.
    + rewrite H1. cbn [bind]. eexists; eexists; split; [reflexivity|exact H2].
  - (* erase in the middle *)
    destruct (N.leb_spec (Nlen c) (pos + l)) as [Hx|_]; [lia|].
    destruct (N.eqb_spec l SIZE_MAX) as [Hm|_]; [unfold SIZE_MAX in Hm; lia|].
    set (d := N.to_nat l).
    assert (Hd : (k + d < length c)%nat) by (unfold Nlen in *; lia).
    rewrite wadd_small by (unfold W; lia).
    rewrite (wsub_small (Nlen c) pos) by (unfold W; lia).
    rewrite !wsub_small by (unfold W; lia).
    rewrite Hr.
    set (t := skipn k c ++ 0 :: j).
    assert (Hsp : c ++ 0 :: j = firstn k c ++ t)
      by (unfold t; rewrite app_assoc, firstn_skipn; reflexivity).
    assert (Hlt : length t = (length c - k + S (length j))%nat)
      by (unfold t; rewrite app_length, skipn_length; reflexivity).
    rewrite Hsp.
    replace (pos + l) with (Nlen (firstn k c) + N.of_nat d) by (unfold d; lia).
    replace (memmove (firstn k c ++ t) pos) with (memmove (firstn k c ++ t) (Nlen (firstn k c)))
      by (rewrite <- Hpk; reflexivity).
    replace (Nlen c - pos - l) with (N.of_nat (length c - k - d)) by (unfold Nlen, d, k; lia).
    rewrite memmove_left_view by lia. cbn [bind].
    assert (Hmid : firstn (length c - k - d) (skipn d t) = skipn (k + d) c).
    { unfold t. rewrite skipn_app_l by (rewrite skipn_length; lia).
      rewrite skipn_skipn'. rewrite firstn_app_l by (rewrite skipn_length; lia).
      apply firstn_all2. rewrite skipn_length. lia. }
    rewrite Hmid.
    replace (Nlen c - l) with (Nlen (firstn k c ++ skipn (k + d) c)).
    2:{ rewrite Nlen_app, Nlen_firstn by lia. unfold Nlen, d, k. rewrite skipn_length. lia. }
    rewrite app_assoc.
    destruct (finish (firstn k c ++ skipn (k + d) c) (skipn (length c - k - d) t) (cap s)) as (H1 & H2).
    + apply skipn_nonempty. lia.
    + rewrite nonul_app, nonul_firstn, nonul_skipn by assumption. reflexivity.
    + rewrite Hc, Hr. unfold Nlen. rewrite !app_length, firstn_length_le, !skipn_length, Hlt by lia.
      cbn [length]. lia.
    + assumption.
    + assumption.
    + rewrite H1. cbn [bind]. eexists; eexists; split; [reflexivity|].
      replace (N.to_nat (Nlen (firstn k c) + N.of_nat d)) with (k + d)%nat
        by (rewrite Nlen_firstn by lia; lia).
      exact H2.
Qed.

(* ---- copy_substring *)
Lemma sub_list_app_l {A} (a b : list A) off n : (off + n <= length a)%nat ->
  sub_list (a ++ b) off n = sub_list a off n.
Proof.
  intros H. unfold sub_list. rewrite skipn_app_l by lia.
  rewrite firstn_app_l by (rewrite skipn_length; lia). reflexivity.
Qed.

Lemma substr_ok s c j start l :
  View s c j -> ds_copy_substring s start l = Ok (sp_substr c start l).
Proof.
  intros Hv. view_split Hv. unfold ds_copy_substring, sp_substr. rewrite Hl.
  assert (Hbig : Nlen c < 2 ^ 63).
  { rewrite Hc, Hr, Nlen_app, Nlen_cons in Hhi. lia. }
  destruct (N.eqb_spec l SIZE_MAX) as [Hm|Hm].
  - destruct (N.leb_spec start (Nlen c)) as [Hs|Hs].
    + destruct (N.ltb_spec (Nlen c) start) as [|_]; [lia|].
      destruct (N.ltb_spec (Nlen c - start) (Nlen c - start)) as [|_]; [lia|]. cbn [orb].
      rewrite Hr, Nlen_app, Nlen_cons.
      destruct (N.leb_spec (start + (Nlen c - start)) (Nlen c + (1 + Nlen j))) as [_|]; [|lia].
      f_equal. f_equal.
      rewrite sub_list_app_l by (unfold Nlen in *; lia).
      unfold sub_list. rewrite firstn_all2 by (rewrite skipn_length; unfold Nlen in *; lia).
      apply take_nonzero_id, nonul_skipn, Hn.
    + destruct (N.ltb_spec (Nlen c) start) as [_|]; [|lia]. reflexivity.
  - destruct (N.ltb_spec (Nlen c) start) as [Hs|Hs]; cbn [orb]; [reflexivity|].
    destruct (N.ltb_spec (Nlen c - start) l) as [Hx|Hx].
    + destruct (N.ltb_spec (Nlen c) (start + l)) as [_|]; [reflexivity|lia].
    + destruct (N.ltb_spec (Nlen c) (start + l)) as [|_]; [lia|].
      rewrite Hr, Nlen_app, Nlen_cons.
      destruct (N.leb_spec (start + l) (Nlen c + (1 + Nlen j))) as [_|]; [|lia].
      f_equal. f_equal.
      rewrite sub_list_app_l by (unfold Nlen in *; lia).
      apply take_nonzero_id. unfold sub_list. apply nonul_firstn, nonul_skipn, Hn.
Qed.

(* ---- replace_text_in_range *)
Lemma wadd_wofZ stop z :
  stop < W -> (- Z.of_N W < z < Z.of_N W)%Z -> (0 <= Z.of_N stop + z < Z.of_N W)%Z ->
  wadd stop (wofZ z) = Z.to_N (Z.of_N stop + z).
Proof.
  intros Hs Hz Hr. unfold wadd, wofZ.
  assert (HW : (0 < Z.of_N W)%Z) by (unfold W; lia).
  apply N2Z.inj. rewrite N2Z.inj_mod, N2Z.inj_add, !Z2N.id; try lia.
  - rewrite Z.add_mod_idemp_r by lia. apply Z.mod_small. lia.
  - apply Z.mod_pos_bound. lia.
Qed.

Lemma sp_erase_mid (P T : list byte) i n :
  (i + n <= length T)%nat -> (0 < n)%nat ->
  sp_erase (P ++ T) (Nlen P + N.of_nat i) (N.of_nat n) = (P ++ firstn i T) ++ skipn (i + n) T.
Proof.
  intros Hb Hn. unfold sp_erase. rewrite Nlen_app.
  destruct (N.ltb_spec (Nlen P + Nlen T) (Nlen P + N.of_nat i)) as [H|_]; [unfold Nlen in H; lia|].
  destruct (N.eqb_spec (N.of_nat n) 0) as [H|_]; [lia|]. cbn [orb].
  replace (N.to_nat (Nlen P + N.of_nat i)) with (length P + i)%nat by (unfold Nlen; lia).
  rewrite firstn_app_r.
  destruct (N.leb_spec (Nlen P + Nlen T) (Nlen P + N.of_nat i + N.of_nat n)) as [H|H].
  - rewrite skipn_all2 by (unfold Nlen in H; lia). rewrite app_nil_r. reflexivity.
  - replace (N.to_nat (Nlen P + N.of_nat i + N.of_nat n)) with (length P + (i + n))%nat by (unfold Nlen; lia).
    rewrite skipn_app_r. reflexivity.
Qed.

Lemma sp_insert_at (A B q : list byte) : sp_insert (A ++ B) (Nlen A) q = A ++ q ++ B.
Proof.
  unfold sp_insert, clampN. rewrite Nlen_app.
  replace (N.min (Nlen A) (Nlen A + Nlen B)) with (Nlen A) by lia.
  rewrite Nlen_to_nat, firstn_app_exact, skipn_app_exact. reflexivity.
Qed.

Lemma replace_loop_ok fuel : forall s P T j stop limit delta o r,
  View s (P ++ T) j -> nonul o = true -> nonul r = true -> (0 < length o)%nat ->
  (length T < fuel)%nat -> stop = Nlen P + N.of_nat limit -> (limit <= length T)%nat ->
  Nlen P + Nlen T + Nlen T * Nlen r <= BIG ->
  exists s' j',
    replace_loop fill fuel s
      (match find_sub o T with Some i => Some (Nlen P + N.of_nat i) | None => None end)
      stop o r delta
    = Ok (s', (delta + Z.of_nat (snd (sp_rep fuel T limit o r))
                       * (Z.of_nat (length r) - Z.of_nat (length o)))%Z)
    /\ View s' (P ++ fst (sp_rep fuel T limit o r)) j'.
Proof.
  induction fuel as [|f IH]; intros s P T j stop limit delta o r Hv Ho Hr Hlo Hf Hstop Hlim Hbig;
    [lia|].
  cbn [replace_loop sp_rep].
  destruct (find_sub o T) as [i|] eqn:Hfind.
  2:{ exists s, j. cbn [fst snd]. rewrite Z.mul_0_l, Z.add_0_r. split; [reflexivity|exact Hv]. }
  pose proof (find_sub_bound _ _ _ Hfind) as Hib.
  rewrite Hstop.
  destruct (N.ltb_spec (Nlen P + N.of_nat i) (Nlen P + N.of_nat limit)) as [Hin|Hout];
    destruct (Nat.ltb_spec i limit) as [Hin'|Hout']; try lia; cbn [negb].
  2:{ exists s, j. cbn [fst snd]. rewrite Z.mul_0_l, Z.add_0_r. split; [reflexivity|exact Hv]. }
  (* erase *)
  destruct (erase_ok s (P ++ T) j (Nlen P + N.of_nat i) (Nlen o) Hv) as (s1 & j1 & -> & Hv1).
  change (Nlen o) with (N.of_nat (length o)) in Hv1. rewrite sp_erase_mid in Hv1 by lia. cbn [bind].
  (* insert *)
  set (A := P ++ firstn i T) in *. set (T' := skipn (i + length o) T) in *.
  assert (HA : Nlen P + N.of_nat i = Nlen A).
  { unfold A. rewrite Nlen_app, Nlen_firstn by lia. reflexivity. }
  assert (HT' : (length T' + (i + length o) = length T)%nat) by (unfold T'; rewrite skipn_length; lia).
  assert (HlenT : Nlen T = Nlen T' + N.of_nat i + Nlen o) by (unfold Nlen; lia).
  assert (Hmul : Nlen T' * Nlen r + Nlen r <= Nlen T * Nlen r).
  { replace (Nlen T' * Nlen r + Nlen r) with ((Nlen T' + 1) * Nlen r) by lia.
    apply N.mul_le_mono_r. unfold Nlen in *. lia. }
  rewrite HA.
  destruct (insert_ok s1 (A ++ T') j1 (Nlen A) r Hv1 Hr) as (s2 & j2 & -> & Hv2).
  { rewrite Nlen_app. lia. }
  rewrite sp_insert_at in Hv2. cbn [bind].
  destruct (N.ltb_spec (Nlen P + N.of_nat limit) (Nlen A + Nlen o)) as [Hstr|Hstr].
  - (* the match straddles the end of the range *)
    assert (Hl0 : (limit - (i + length o) = 0)%nat) by (unfold Nlen in *; lia).
    rewrite Hl0.
    assert (Hrest : sp_rep f T' 0 o r = (T', O)).
    { destruct f as [|f']; [reflexivity|]. cbn [sp_rep].
      destruct (find_sub o T'); reflexivity. }
    rewrite Hrest. cbn [fst snd].
    exists s2, j2. split.
    + f_equal. f_equal. unfold Nlen. lia.
    + unfold A in Hv2. rewrite <- app_assoc in Hv2. exact Hv2.
  - (* continue after the replacement *)
    set (chg := (Z.of_N (Nlen r) - Z.of_N (Nlen o))%Z).
    assert (HW : W = 2 ^ 64) by reflexivity.
    assert (Hsmall : Nlen P + Nlen T + Nlen r < 2 ^ 62 + 2 ^ 62).
    { unfold BIG in Hbig. destruct (N.eq_dec (Nlen T) 0) as [E|E]; [unfold Nlen in *; lia|].
      assert (Nlen r <= Nlen T * Nlen r). { rewrite <- (N.mul_1_l (Nlen r)) at 1. apply N.mul_le_mono_r. lia. }
      lia. }
    rewrite wadd_wofZ; try (unfold chg, Nlen in *; lia).
    rewrite (wadd_small (Nlen A) (Nlen r)) by (rewrite <- HA; unfold Nlen in *; lia).
    set (P' := A ++ r).
    assert (HP' : Nlen A + Nlen r = Nlen P') by (unfold P'; rewrite Nlen_app; reflexivity).
    rewrite HP'.
    assert (Hv2' : View s2 (P' ++ T') j2) by (unfold P'; rewrite <- app_assoc; exact Hv2).
    unfold Nlen at 1. rewrite (cstr_at_view s2 (P' ++ T') j2 (length P') Hv2') by (rewrite app_length; lia).
    rewrite skipn_app_exact. cbn [bind].
    fold (Nlen P').
    specialize (IH s2 P' T' j2
      (Z.to_N (Z.of_N (Nlen P + N.of_nat limit) + chg)) (limit - (i + length o))%nat
      (delta + chg)%Z o r Hv2' Ho Hr Hlo ltac:(lia)).
    destruct IH as (s' & j' & Hloop & Hv').
    + rewrite <- HP', <- HA. unfold chg, Nlen in *. lia.
    + lia.
    + rewrite <- HP', <- HA. lia.
    + rewrite Hloop.
      destruct (sp_rep f T' (limit - (i + length o)) o r) as [t'' k] eqn:Hrep. cbn [fst snd] in *.
      exists s', j'. split.
      * f_equal. f_equal. unfold chg, Nlen. lia.
      * unfold P', A in Hv'. rewrite <- !app_assoc in Hv'. exact Hv'.
Qed.

Lemma replace_ok s c j pos l o r :
  View s c j -> nonul o = true -> nonul r = true ->
  Nlen c + Nlen c * Nlen r <= BIG ->
  exists s' j', ds_replace fill s pos l o r = Ok (s', snd (sp_replace c pos l o r)) /\
                View s' (fst (sp_replace c pos l o r)) j'.
Proof.
  intros Hv Ho Hrr Hbig. view_split Hv. unfold ds_replace, sp_replace. rewrite Ho, Hrr, Hl. cbn [negb orb].
  destruct (N.ltb_spec (Nlen c) pos) as [Hp|Hp]; cbn [orb].
  { exists s, j. split; [reflexivity|assumption]. }
  destruct (N.eqb_spec (Nlen o) 0) as [Hz|Hz].
  { exists s, j. split; [reflexivity|assumption]. }
  set (k := N.to_nat pos).
  assert (Hk : (k <= length c)%nat) by (unfold Nlen in Hp; lia).
  assert (Hbig' : Nlen c < 2 ^ 63).
  { rewrite Hc, Hr, Nlen_app, Nlen_cons in Hhi. lia. }
  set (P := firstn k c). set (T := skipn k c).
  assert (HPT : c = P ++ T) by (unfold P, T; symmetry; apply firstn_skipn).
  assert (HP : pos = Nlen P) by (unfold P; rewrite Nlen_firstn by lia; lia).
  assert (HlT : length T = (length c - k)%nat) by (unfold T; apply skipn_length).
  set (limit := if Nlen c - pos <? l then (length c - k)%nat else N.to_nat l).
  assert (Hlim : (limit <= length T)%nat).
  { unfold limit. destruct (N.ltb_spec (Nlen c - pos) l); unfold Nlen in *; lia. }
  assert (Hstop : (if (l =? SIZE_MAX) || (Nlen c - pos <? l) then Nlen c else wadd pos l)
                  = Nlen P + N.of_nat limit).
  { unfold limit. destruct (N.eqb_spec l SIZE_MAX) as [Hm|Hm]; cbn [orb].
    - destruct (N.ltb_spec (Nlen c - pos) l) as [_|Hx]; [|unfold SIZE_MAX in Hm; lia].
      unfold Nlen in *. lia.
    - destruct (N.ltb_spec (Nlen c - pos) l) as [Hx|Hx].
      + unfold Nlen in *. lia.
      + rewrite wadd_small by (unfold W; lia). lia. }
  rewrite Hstop.
  replace (N.of_nat k) with pos by (unfold k; lia).
  rewrite HP. unfold Nlen at 1.
  assert (Hv' : View s (P ++ T) j) by (rewrite <- HPT; exact Hv).
  rewrite (cstr_at_view s (P ++ T) j (length P) Hv') by (rewrite app_length; lia).
  rewrite skipn_app_exact. cbn [bind]. fold (Nlen P).
  destruct (replace_loop_ok (S (N.to_nat (Nlen c))) s P T j (Nlen P + N.of_nat limit) limit 0%Z o r
              Hv' Ho Hrr) as (s' & j' & Hloop & Hvf).
  - unfold Nlen in Hz. lia.
  - rewrite Nlen_to_nat. lia.
  - reflexivity.
  - exact Hlim.
  - rewrite HPT, Nlen_app in Hbig.
    assert (Nlen T * Nlen r <= (Nlen P + Nlen T) * Nlen r) by (apply N.mul_le_mono_r; lia). lia.
  - rewrite Nlen_to_nat in *. rewrite Hloop.
    fold T. destruct (sp_rep (S (length c)) T limit o r) as [t' n] eqn:Hrep. cbn [fst snd] in *.
    exists s', j'. split; [|exact Hvf]. rewrite Z.add_0_l. reflexivity.
Qed.

(* ---- d_string_new *)
Lemma start_size_spec fuel c needed r :
  1 <= c -> needed <= c * 2 ^ N.of_nat fuel -> needed <= BIG -> c < 2 ^ 63 ->
  start_size fuel c needed = r ->
  exists c', r = Ok c' /\ needed <= c' /\ c <= c' /\ c' < 2 ^ 63.
Proof.
  revert c r; induction fuel as [|f IH]; intros c r H1 Hf Hn Hc; cbn [start_size].
  - destruct (N.leb_spec needed c) as [Hle|Hle]; intros <-.
    + exists c. repeat split; lia.
    + simpl in Hf. lia.
  - destruct (N.leb_spec needed c) as [Hle|Hle].
    + intros <-. exists c. repeat split; lia.
    + intros Hr. unfold BIG in *. rewrite wmul2_small in Hr by (unfold W; lia).
      apply IH in Hr; try lia.
      * destruct Hr as (c' & -> & ? & ? & ?). exists c'. repeat split; lia.
      * rewrite Nat2N.inj_succ, N.pow_succ_r' in Hf. lia.
Qed.

Lemma new_ok p :
  nonul p = true -> Nlen p + 1 <= BIG ->
  exists s j, ds_new fill p = Ok s /\ View s p j.
Proof.
  intros Hp Hs. unfold ds_new. rewrite Hp. cbn [negb].
  rewrite wadd_small by (unfold BIG, W in *; lia).
  destruct (start_size_spec 70 START (Nlen p + 1) _ ltac:(unfold START; lia)
              ltac:(unfold START, BIG in *; simpl; lia) ltac:(lia) ltac:(unfold START; lia) eq_refl)
    as (c' & -> & H1 & H2 & H3).
  cbn [bind]. unfold START in H2.
  set (n := N.to_nat c').
  assert (Hn : (length p < n)%nat) by (unfold n, Nlen in *; lia).
  assert (Hrep : repeat fill n = [] ++ repeat fill n) by reflexivity.
  rewrite Hrep. change 0 with (Nlen (@nil N)) at 1.
  rewrite memcpy_in_view by (rewrite Nlen_repeat; unfold Nlen; lia).
  cbn [app bind].
  destruct (finish p (skipn (length p) (repeat fill n)) c') as (Hk & Hv); try assumption; try lia.
  - apply skipn_nonempty. rewrite repeat_length. lia.
  - unfold Nlen. rewrite app_length, skipn_length, repeat_length. unfold n. lia.
  - rewrite Hk. cbn [bind]. eexists; eexists; split; [reflexivity|exact Hv].
Qed.

(* ---- all operations *)
Definition fits (c : list byte) (o : op) : Prop :=
  match o with
  | OAppend p | OPrepend p | OInsert _ p | OAppendArr p _ | OInsertArr _ p _ => Nlen c + Nlen p <= BIG
  | OAppendC _ | OInsertC _ _ => Nlen c + 1 <= BIG
  | OErase _ _ | OSubstr _ _ => True
  | OReplace _ _ _ r => Nlen c + Nlen c * Nlen r <= BIG
  end.

Lemma step_refines s c j o :
  View s c j -> op_ok o = true -> fits c o ->
  exists s' j', step fill s o = Ok (s', snd (sp_step c o)) /\ View s' (fst (sp_step c o)) j'.
Proof.
  intros Hv Hok Hfit. destruct o as [p|b|p n|p|pos p|pos b|pos p n|pos l|st l|pos l o r];
    cbn [step sp_step fst snd op_ok fits] in *.
  - destruct (append_ok s c j p Hv Hok Hfit) as (s' & j' & -> & Hv'). cbn [bind]. eauto.
  - destruct (append_c_ok s c j b Hv Hfit) as (s' & j' & -> & Hv'). cbn [bind]. eauto.
  - apply andb_true_iff in Hok as [Hp Hn]. unfold ds_append_c_array.
    destruct (N.eqb_spec n SIZE_MAX) as [Hm|Hm].
    + destruct (append_ok s c j p Hv Hp Hfit) as (s' & j' & -> & Hv'). cbn [bind]. eauto.
    + cbn [orb] in Hn. apply N.leb_le in Hn.
      destruct (append_arr_ok s c j p n Hv Hp Hm Hn ltac:(lia)) as (s' & j' & He & Hv').
      unfold ds_append_c_array in He. destruct (N.eqb_spec n SIZE_MAX); [contradiction|].
      rewrite He. cbn [bind]. eauto.
  - destruct (prepend_ok s c j p Hv Hok Hfit) as (s' & j' & -> & Hv'). cbn [bind]. eauto.
  - destruct (insert_ok s c j pos p Hv Hok Hfit) as (s' & j' & -> & Hv'). cbn [bind]. eauto.
  - destruct (insert_c_ok s c j pos b Hv Hfit) as (s' & j' & -> & Hv'). cbn [bind]. eauto.
  - apply andb_true_iff in Hok as [Hp Hn]. unfold ds_insert_c_array.
    destruct (N.eqb_spec n SIZE_MAX) as [Hm|Hm].
    + destruct (insert_ok s c j pos p Hv Hp Hfit) as (s' & j' & -> & Hv'). cbn [bind]. eauto.
    + cbn [orb] in Hn. apply N.leb_le in Hn.
      destruct (insert_arr_ok s c j pos p n Hv Hp Hm Hn ltac:(lia)) as (s' & j' & He & Hv').
      unfold ds_insert_c_array in He. destruct (N.eqb_spec n SIZE_MAX); [contradiction|].
      rewrite He. cbn [bind]. eauto.
  - destruct (erase_ok s c j pos l Hv) as (s' & j' & -> & Hv'). cbn [bind]. eauto.
  - rewrite (substr_ok s c j st l Hv). cbn [bind]. eauto.
  - apply andb_true_iff in Hok as [Ho Hr].
    destruct (replace_ok s c j pos l o r Hv Ho Hr Hfit) as (s' & j' & -> & Hv'). cbn [bind fst snd]. eauto.
Qed.

(* histories: run the model and the ideal string side by side *)
Fixpoint run_spec (c : list byte) (ops : list op) : list byte * list out :=
  match ops with
  | [] => (c, [])
  | o :: t => let '(c1, x) := sp_step c o in let '(c2, xs) := run_spec c1 t in (c2, x :: xs)
  end.

Fixpoint run_model (s : ds) (ops : list op) : res (ds * list out) :=
  match ops with
  | [] => Ok (s, [])
  | o :: t => do r <- step fill s o; do r2 <- run_model (fst r) t; Ok (fst r2, snd r :: snd r2)
  end.

(* every operation is well-formed and every intermediate ideal string fits in memory *)
Fixpoint hist_ok (c : list byte) (ops : list op) : Prop :=
  match ops with
  | [] => True
  | o :: t => op_ok o = true /\ fits c o /\ hist_ok (fst (sp_step c o)) t
  end.

Lemma run_refines ops : forall s c j,
  View s c j -> hist_ok c ops ->
  exists s' j', run_model s ops = Ok (s', snd (run_spec c ops)) /\ View s' (fst (run_spec c ops)) j'.
Proof.
  induction ops as [|o t IH]; intros s c j Hv Hh; cbn [run_model run_spec].
  - exists s, j. split; [reflexivity|exact Hv].
  - destruct Hh as (Hok & Hfit & Hrest).
    destruct (step_refines s c j o Hv Hok Hfit) as (s1 & j1 & -> & Hv1). cbn [bind fst snd].
    destruct (sp_step c o) as [c1 x] eqn:Hs. cbn [fst snd] in *.
    destruct (IH s1 c1 j1 Hv1 Hrest) as (s' & j' & -> & Hv'). cbn [bind fst snd].
    destruct (run_spec c1 t) as [c2 xs]. cbn [fst snd] in *.
    exists s', j'. split; [reflexivity|exact Hv'].
Qed.

End Ops.
