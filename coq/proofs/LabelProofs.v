(* UTF-8 preservation of the label / clean transducers by reflection (Transducer.v). *)
From Coq Require Import Lia PArith FMapPositive.
From MMD.lib Require Import Bytes BytesFacts Dfa Utf8 FiniteInv Explore Transducer.
From MMD.model Require Import LabelModel.
From MMD.proofs Require Import EscaperProofs.
Local Open Scope N_scope.

Definition uidx (q : ustate) : N :=
  match q with U0 => 0 | UC1 => 1 | UC2 => 2 | UC3 => 3 | UE0 => 4 | UED => 5 | UF0 => 6 | UF4 => 7 | UBad => 8 end.

Section Keys.
Variable T : Type.
Variable tkey : T -> N.
Variable teqb : T -> T -> bool.
Hypothesis teqb_eq : forall a b, teqb a b = true -> a = b.

Definition pkey (p : pstate T) : positive :=
  match p with
  | None => 1%positive
  | Some (t, qi, qo) => N.succ_pos (1 + (tkey t * 9 + uidx qi) * 9 + uidx qo)
  end.
Definition peqb (a b : pstate T) : bool :=
  match a, b with
  | None, None => true
  | Some (t, qi, qo), Some (t', qi', qo') => teqb t t' && ustate_eqb qi qi' && ustate_eqb qo qo'
  | _, _ => false
  end.
Lemma peqb_eq a b : peqb a b = true -> a = b.
Proof.
  destruct a as [[[t qi] qo]|], b as [[[t' qi'] qo']|]; cbn; intros H; try discriminate; [|reflexivity].
  apply andb_true_iff in H as [H H3]. apply andb_true_iff in H as [H1 H2].
  apply teqb_eq in H1. apply ustate_eqb_eq in H2, H3. subst. reflexivity.
Qed.
End Keys.

(* ---- label_from_string *)
Definition lkey (s : lstate) : N :=
  (match pend s with None => 0 | Some b => b + 1 end) * 2 + (if first s then 1 else 0).
Definition opt_eqb (a b : option N) : bool :=
  match a, b with None, None => true | Some x, Some y => x =? y | _, _ => false end.
Definition leqb (a b : lstate) : bool := opt_eqb (pend a) (pend b) && Bool.eqb (first a) (first b).
Lemma leqb_eq a b : leqb a b = true -> a = b.
Proof.
  destruct a as [pa fa], b as [pb fb]; unfold leqb; cbn. intros H. apply andb_true_iff in H as [H1 H2].
  apply Bool.eqb_prop in H2. subst. f_equal.
  destruct pa, pb; cbn in H1; try discriminate; [apply N.eqb_eq in H1; subst|]; reflexivity.
Qed.

Definition label_R_opt := Eval vm_compute in
  explore (pstate lstate) N (pnext lstate lstep) (pkey lstate lkey) (peqb lstate leqb)
          (2000 * 2000)%nat bytes1 [pinit lstate linit] (PositiveMap.empty _) [].
Definition label_R := match label_R_opt with Some l => l | None => [] end.

Theorem label_utf8 : forall s, over bytes1 s -> valid_utf8 s = true -> valid_utf8 (label_from_string s) = true.
Proof.
  apply (transducer_preserves_utf8 lstate linit lstep lflush label_R bytes1
           (smem _ (pkey lstate lkey) (peqb lstate leqb) (smap_of_list _ (pkey lstate lkey) label_R))).
  - apply smem_sound. apply peqb_eq, leqb_eq.
  - vm_compute. reflexivity.
  - vm_compute. reflexivity.
  - apply (smem_sound _ (pkey lstate lkey) (peqb lstate leqb) (peqb_eq _ leqb leqb_eq)). vm_compute. reflexivity.
Qed.

(* ---- clean_string *)
Definition ckey (s : cstate) : N :=
  (match mode s with CNormal => 0 | CBackslash => 1 | CAmp k => 2 + k end) * 2 + (if bw s then 1 else 0).
Definition ceqb (a b : cstate) : bool :=
  Bool.eqb (bw a) (bw b) &&
  match mode a, mode b with
  | CNormal, CNormal | CBackslash, CBackslash => true
  | CAmp j, CAmp k => j =? k
  | _, _ => false
  end.
Lemma ceqb_eq a b : ceqb a b = true -> a = b.
Proof.
  destruct a as [ba ma], b as [bb mb]; unfold ceqb; cbn. intros H. apply andb_true_iff in H as [H1 H2].
  apply Bool.eqb_prop in H1. subst. f_equal.
  destruct ma, mb; try discriminate; try reflexivity. apply N.eqb_eq in H2. subst. reflexivity.
Qed.

Definition clean_R_opt (lc uc : bool) :=
  explore (pstate cstate) N (pnext cstate (cstep lc uc)) (pkey cstate ckey) (peqb cstate ceqb)
          (2000 * 2000)%nat bytes1 [pinit cstate cinit] (PositiveMap.empty _) [].
Definition clean_R00 := Eval vm_compute in match clean_R_opt false false with Some l => l | None => [] end.
Definition clean_R10 := Eval vm_compute in match clean_R_opt true false with Some l => l | None => [] end.
Definition clean_R01 := Eval vm_compute in match clean_R_opt false true with Some l => l | None => [] end.
Definition clean_R11 := Eval vm_compute in match clean_R_opt true true with Some l => l | None => [] end.
Definition clean_R (lc uc : bool) := match lc, uc with
  | false, false => clean_R00 | true, false => clean_R10 | false, true => clean_R01 | true, true => clean_R11 end.

Theorem clean_core_utf8 lc uc : forall s, over bytes1 s -> valid_utf8 s = true -> valid_utf8 (clean_core lc uc s) = true.
Proof.
  apply (transducer_preserves_utf8 cstate cinit (cstep lc uc) (cflush lc) (clean_R lc uc) bytes1
           (smem _ (pkey cstate ckey) (peqb cstate ceqb) (smap_of_list _ (pkey cstate ckey) (clean_R lc uc)))).
  - apply smem_sound. apply peqb_eq, ceqb_eq.
  - destruct lc, uc; vm_compute; reflexivity.
  - destruct lc, uc; vm_compute; reflexivity.
  - apply (smem_sound _ (pkey cstate ckey) (peqb cstate ceqb) (peqb_eq _ ceqb ceqb_eq)).
    destruct lc, uc; vm_compute; reflexivity.
Qed.

(* trimming ASCII bytes off the end keeps validity *)
Lemma ustep_ascii_back q a : a < 128 -> ustep q a = U0 -> q = U0.
Proof.
  intros Ha. destruct q; cbn; try (intros; reflexivity);
    unfold inr; destruct (N.leb_spec 128 a); try lia; cbn; try discriminate;
    repeat match goal with |- context [?x <=? ?y] => destruct (N.leb_spec x y); try lia; cbn end; discriminate.
Qed.

Lemma valid_drop_last l a : a < 128 -> valid_utf8 (l ++ [a]) = true -> valid_utf8 l = true.
Proof.
  unfold valid_utf8. intros Ha H. apply ustate_eqb_eq in H. apply ustate_eqb_eq.
  rewrite run_app in H. cbn in H. eapply ustep_ascii_back; eassumption.
Qed.

Lemma trim_trailing_spec ws l : exists t, l = trim_trailing ws l ++ t /\ Forall (fun x => In x ws) t.
Proof.
  induction l as [|x r IH]; [exists []; split; [reflexivity|constructor]|].
  destruct IH as (t & Hr & Ht). cbn [trim_trailing].
  destruct (trim_trailing ws r) as [|y r'] eqn:E.
  - destruct (existsb (N.eqb x) ws) eqn:Ex.
    + exists (x :: t). cbn in Hr. subst r. split; [reflexivity|]. constructor; [|exact Ht].
      apply existsb_exists in Ex as (z & Hz & Hxz). apply N.eqb_eq in Hxz. subst z. exact Hz.
    + exists t. cbn in Hr. subst r. split; [reflexivity|exact Ht].
  - exists t. rewrite Hr at 1. split; [reflexivity|exact Ht].
Qed.

Lemma valid_drop_ascii_suffix t : forall l, Forall (fun x => x < 128) t -> valid_utf8 (l ++ t) = true -> valid_utf8 l = true.
Proof.
  induction t as [|a t IH] using rev_ind; intros l Ht H; [rewrite app_nil_r in H; exact H|].
  apply Forall_app in Ht as [Ht Ha]. inversion Ha; subst.
  rewrite app_assoc in H. apply valid_drop_last in H; [|assumption]. apply IH; assumption.
Qed.

Theorem clean_utf8 ws lc uc :
  (forall b, In b ws -> b < 128) ->
  forall s, over bytes1 s -> valid_utf8 s = true -> valid_utf8 (clean_string ws lc uc s) = true.
Proof.
  intros Hws s Hs Hv. unfold clean_string.
  destruct (trim_trailing_spec ws (clean_core lc uc s)) as (t & Hl & Ht).
  apply (valid_drop_ascii_suffix t).
  - eapply Forall_impl; [|exact Ht]. intros a Ha. apply Hws, Ha.
  - rewrite <- Hl. apply clean_core_utf8; assumption.
Qed.
