From Coq Require Import List Arith NArith Bool Lia.
Import ListNotations.
From MMD.model Require Import TableAlignModel.

Lemma upd_length (arr : list N) i v : i < length arr -> length (firstn i arr ++ v :: skipn (S i) arr) = length arr.
Proof.
  intros Hi. rewrite app_length, firstn_length.
  change (length (v :: skipn (S i) arr)) with (S (length (skipn (S i) arr))). rewrite skipn_length. lia.
Qed.

Lemma awrite_length size arr i v a : length arr = size -> awrite size arr i v = Some a -> length a = size.
Proof.
  unfold awrite. intros Hl H. destruct (Nat.ltb_spec i size) as [Hi|Hi]; [|discriminate].
  rewrite <- Hl in Hi. pose proof (upd_length arr i v Hi) as U. injection H as <-. rewrite <- Hl. exact U.
Qed.

Lemma record_in_bounds size l cells : l < size -> forall counter arr, length arr = size -> counter <= l ->
  exists a n, record size (Some l) cells counter arr = Some (a, n) /\ n <= l /\ length a = size.
Proof.
  intros Hl. induction cells as [|c r IH]; intros counter arr Ha Hc; cbn [record].
  - unfold awrite at 1. destruct (Nat.ltb_spec counter size) as [Hi|Hi]; [|lia]. cbn [option_map].
    eexists. exists counter. split; [reflexivity|]. split; [exact Hc|].
    rewrite <- Ha. apply upd_length. lia.
  - destruct (Nat.leb_spec l counter) as [Hge|Hlt].
    + apply IH; assumption.
    + destruct (awrite size arr counter c) as [a|] eqn:Ew.
      * apply IH; [eapply awrite_length; eassumption | lia].
      * unfold awrite in Ew. destruct (Nat.ltb_spec counter size); [discriminate|lia].
Qed.

(* without the guard the (size)th cell is written outside the array *)
Lemma record_unguarded_overflows size : 0 < size ->
  record size None (repeat 108%N size) 0 (repeat 0%N size) = None.
Proof.
  intros Hs.
  assert (G : forall k counter arr, length arr = size -> counter + k = size ->
              record size None (repeat 108%N k) counter arr = None).
  { induction k as [|k IH]; intros counter arr Ha Hk; cbn [repeat record].
    - unfold awrite. destruct (Nat.ltb_spec counter size); [lia|reflexivity].
    - destruct (awrite size arr counter 108%N) as [a|] eqn:Ew; [|reflexivity].
      apply IH; [eapply awrite_length; eassumption | lia]. }
  apply G; [apply repeat_length | lia].
Qed.
