(* C11: updating a key in a block whose entries may continue on following lines: the first entry with the key gets the new
   value in place of the rest of its first line AND of its continuation lines; every other entry, with its continuation
   lines, and everything after the block stay as they are. *)
From Coq Require Import Lia.
From MMD.lib Require Import Bytes BytesFacts.
From MMD.model Require Import LabelModel MetaModel.
From MMD.proofs Require Import MetaProofs MetaRoundTrip MetaMultiLine MetaUpdate.
Local Open Scope N_scope.

Lemma text_of_lines_app a b : text_of_lines (a ++ b) = text_of_lines a ++ text_of_lines b.
Proof. unfold text_of_lines. apply flat_map_app. Qed.

Lemma mtext_app es1 es2 : mtext (es1 ++ es2) = mtext es1 ++ mtext es2.
Proof. unfold mtext. rewrite flat_map_app. apply text_of_lines_app. Qed.

Lemma mtext_cons e es : mtext (e :: es) = text_of_lines (mlines e) ++ mtext es.
Proof. change (e :: es) with ([e] ++ es). rewrite mtext_app. unfold mtext at 1. cbn [flat_map]. rewrite app_nil_r. reflexivity. Qed.

Lemma moffsets_app off es1 es2 :
  moffsets off (es1 ++ es2) = moffsets off es1 ++ moffsets (off + length (mtext es1)) es2.
Proof.
  revert off. induction es1 as [|e r IH]; intros off; cbn [app moffsets].
  - unfold mtext. cbn. rewrite Nat.add_0_r. reflexivity.
  - rewrite IH. f_equal. f_equal. rewrite mtext_cons, app_length. f_equal. lia.
Qed.

Section WS.
Variable ws : list N.

Definition mmk_of (p : nat * (list N * list N * list (list N))) : meta :=
  mkmeta (fst p) (label_from_string (mkey (snd p))) (clean_string ws false false (mraw (snd p))).

Lemma mresult_eq es : mresult ws es = map mmk_of (moffsets 0 es).
Proof. reflexivity. Qed.

Lemma mfold_no_match clean (ps : list (nat * (list N * list N * list (list N)))) :
  (forall p, In p ps -> bytes_eqb_l clean (label_from_string (mkey (snd p))) = false) ->
  fold_left (step clean) (map mmk_of ps) (None, None) = (None, None).
Proof.
  induction ps as [|p r IH]; intros H; [reflexivity|]. cbn [map fold_left step mmk_of m_key].
  rewrite (H p (or_introl eq_refl)). apply IH. intros q Hq. apply H. right. exact Hq.
Qed.

Lemma mfold_after clean (ps : list (nat * (list N * list N * list (list N)))) a :
  fold_left (step clean) (map mmk_of ps) (Some a, None) =
  (Some a, match ps with [] => None | p :: _ => Some (fst p) end).
Proof.
  destruct ps as [|p r]; [reflexivity|]. cbn [map fold_left step mmk_of m_start]. apply fold_done.
Qed.

Theorem update_rewrites_one_entry_multiline es1 ki vi cs es2 tail key value :
  let es := es1 ++ (ki, vi, cs) :: es2 in
  forallb wf_mentry es = true ->
  (match es with e1 :: _ => forallb is_ws (mval e1) = false | [] => True end) ->
  tail_ok tail ->
  (forall e, In e es1 -> bytes_eqb_l (label_from_string key) (label_from_string (mkey e)) = false) ->
  bytes_eqb_l (label_from_string key) (label_from_string ki) = true ->
  meta_update ws (mtext es ++ tail) key value =
  mtext (es1 ++ (ki, take_while is_ws vi ++ value, []) :: es2) ++ tail.
Proof.
  intros es Hw Hv Ht Hno Hyes.
  assert (Ees0 : es = es1 ++ (ki, vi, cs) :: es2) by reflexivity. clearbody es.
  assert (Hne : exists e1 r, es = e1 :: r) by (rewrite Ees0; destruct es1; cbn; eauto).
  destruct Hne as (e1 & r & Ees). rewrite Ees in Hv.
  assert (MR : meta_parse ws (mtext es ++ tail) = Some (mresult ws es, length (mtext es))).
  { pose proof Hw as Hw'. rewrite Ees in Hw'. rewrite Ees. apply meta_roundtrip_multiline; [exact Hw' | exact Hv | exact Ht]. }
  unfold meta_update. rewrite MR. rewrite mresult_eq. rewrite Ees0 at 1. rewrite moffsets_app. cbn [moffsets Nat.add]. rewrite map_app. cbn [map].
  change (upd_range (label_from_string key)) with (fun ms => fold_left (step (label_from_string key)) ms (@None nat, @None nat)). cbv beta.
  rewrite fold_left_app.
  rewrite mfold_no_match.
  2:{ intros p Hp. apply Hno. clear - Hp. revert Hp. generalize 0%nat. induction es1 as [|e l IH]; intros off Hp; [destruct Hp|].
      cbn [moffsets] in Hp. destruct Hp as [<-|Hp]; [left; reflexivity | right; exact (IH _ Hp)]. }
  cbn [fold_left step mmk_of m_key m_start fst snd mkey]. rewrite Hyes. rewrite mfold_after.
  set (o1 := length (mtext es1)).
  set (ctext := text_of_lines cs).
  assert (Htext : mtext es ++ tail = mtext es1 ++ (ki ++ 58 :: vi ++ [10]) ++ ctext ++ mtext es2 ++ tail).
  { rewrite Ees0. rewrite mtext_app, mtext_cons. unfold mlines, mkey, mval, mconts. cbn [fst snd text_of_lines flat_map]. fold (text_of_lines cs). fold ctext.
    rewrite <- !app_assoc. cbn [app]. rewrite <- !app_assoc. reflexivity. }
  assert (Hwe : wf_mentry (ki, vi, cs) = true).
  { rewrite Ees0 in Hw. rewrite forallb_app in Hw. apply andb_true_iff in Hw as [_ H]. cbn [forallb] in H. apply andb_true_iff in H as [H _]. exact H. }
  unfold wf_mentry, mkey, mval, mconts in Hwe. cbn [fst snd] in Hwe. apply andb_true_iff in Hwe as [Hwe _]. apply andb_true_iff in Hwe as [Hk Hnv].
  assert (Hb : after_colon (mtext es ++ tail) o1 = (o1 + S (length ki) + length (take_while is_ws vi))%nat).
  { unfold after_colon. rewrite Htext. unfold o1. rewrite skipn_app_exact.
    replace ((ki ++ 58 :: vi ++ [10]) ++ ctext ++ mtext es2 ++ tail) with (ki ++ 58 :: (vi ++ 10 :: ctext ++ mtext es2 ++ tail)).
    2:{ rewrite <- !app_assoc. cbn [app]. rewrite <- !app_assoc. reflexivity. }
    rewrite (take_while_all _ ki (58 :: _) (key_no_colon ki Hk) eq_refl).
    replace (S (length ki)) with (length (ki ++ [58])) by (rewrite app_length; cbn; lia).
    replace (ki ++ 58 :: vi ++ 10 :: ctext ++ mtext es2 ++ tail) with ((ki ++ [58]) ++ vi ++ 10 :: ctext ++ mtext es2 ++ tail) by (rewrite <- app_assoc; reflexivity).
    rewrite skipn_app_exact, (take_while_ws_line vi _ Hnv). reflexivity. }
  rewrite Hb. clear Hb.
  destruct (take_while_prefix is_ws vi) as [vrest Evi]. set (wsp := take_while is_ws vi) in *.
  set (b := (o1 + S (length ki) + length wsp)%nat).
  assert (Hfirst : firstn b (mtext es ++ tail) = mtext es1 ++ ki ++ 58 :: wsp).
  { rewrite Htext. unfold b, o1. rewrite <- Nat.add_assoc. rewrite firstn_app_r. f_equal.
    rewrite Evi. replace ((ki ++ 58 :: (wsp ++ vrest) ++ [10]) ++ ctext ++ mtext es2 ++ tail) with ((ki ++ 58 :: wsp) ++ vrest ++ [10] ++ ctext ++ mtext es2 ++ tail).
    2:{ rewrite <- !app_assoc. cbn [app]. rewrite <- !app_assoc. reflexivity. }
    replace (S (length ki) + length wsp)%nat with (length (ki ++ 58 :: wsp)) by (rewrite app_length; cbn [length]; lia).
    apply firstn_app_exact. }
  set (o2 := (o1 + length (text_of_lines (mlines (ki, vi, cs))))%nat).
  assert (Hl2 : length (text_of_lines (mlines (ki, vi, cs))) = (length (ki ++ 58%N :: vi ++ [10%N]) + length ctext)%nat).
  { unfold mlines, mkey, mval, mconts. cbn [fst snd text_of_lines flat_map]. fold (text_of_lines cs). fold ctext. rewrite !app_length. cbn [length]. rewrite !app_length. cbn [length]. lia. }
  assert (Hlen : length (mtext es) = (o2 + length (mtext es2))%nat).
  { rewrite Ees0. unfold o2, o1. rewrite mtext_app, app_length, mtext_cons, app_length. lia. }
  match goal with |- context [Nat.ltb ?e b] => assert (Hend : e = o2); [| rewrite Hend] end.
  { destruct es2 as [|e2 r2].
    - cbn [moffsets]. rewrite Hlen. unfold mtext. cbn. lia.
    - cbn [moffsets fst]. reflexivity. }
  assert (Hle : (b <= o2)%nat).
  { unfold b, o2. rewrite Hl2. rewrite !app_length. cbn [length]. rewrite app_length. cbn [length].
    assert (length wsp <= length vi)%nat by (rewrite Evi at 1; rewrite app_length; lia). lia. }
  destruct (Nat.ltb_spec o2 b) as [Hlt|_]; [lia|].
  assert (Hskip : skipn o2 (mtext es ++ tail) = mtext es2 ++ tail).
  { rewrite Htext. unfold o2, o1. rewrite Hl2. rewrite skipn_app_r.
    replace ((ki ++ 58 :: vi ++ [10]) ++ ctext ++ mtext es2 ++ tail) with (((ki ++ 58 :: vi ++ [10]) ++ ctext) ++ mtext es2 ++ tail) by (rewrite <- app_assoc; reflexivity).
    replace (length (ki ++ 58%N :: vi ++ [10%N]) + length ctext)%nat with (length ((ki ++ 58 :: vi ++ [10]) ++ ctext)) by (rewrite app_length; reflexivity).
    apply skipn_app_exact. }
  rewrite Hfirst, Hskip.
  rewrite mtext_app, mtext_cons. unfold mlines, mkey, mval, mconts. cbn [fst snd text_of_lines flat_map].
  rewrite <- !app_assoc. cbn [app]. rewrite <- !app_assoc. reflexivity.
Qed.
End WS.
