(* C15: the global invariant "doubly linked everywhere" along histories of surgery calls, a constant-footprint
   statement for the repaired tokens_prune (C07), and token_remove_first_child.  Continues TokenHeapProofs{,2}.v. *)
From Coq Require Import List NArith Bool Lia.
From MMD.lib Require Import Bytes BytesFacts.
From MMD.model Require Import TokenHeap.
From MMD.proofs Require Import TokenHeapFacts TokenHeapProofs TokenHeapProofs2.
Import ListNotations.
Local Open Scope N_scope.

(* ---- the global form of "siblings are doubly linked consistently": wherever a next (prev) pointer leads,
   the prev (next) pointer there leads back *)
Definition dl (h : heap) : Prop :=
  forall i j, j <> 0 ->
    (rd h i Fnx = Some j -> rd h j Fpv = Some i) /\ (rd h i Fpv = Some j -> rd h j Fnx = Some i).

(* an operation that rewrites links only inside a set S of tokens which is closed under next / prev in the old
   heap, and leaves the tokens of S coherent, keeps the whole heap coherent *)
Lemma dl_preserved h h' (Sl : list N) : let S := fun i => In i Sl in
  dl h ->
  (forall i, ~ S i -> rd h' i Fnx = rd h i Fnx /\ rd h' i Fpv = rd h i Fpv) ->
  (forall i j, S i -> j <> 0 -> (rd h i Fnx = Some j \/ rd h i Fpv = Some j) -> S j) ->
  (forall i j, S i -> j <> 0 ->
     (rd h' i Fnx = Some j -> rd h' j Fpv = Some i) /\ (rd h' i Fpv = Some j -> rd h' j Fnx = Some i)) ->
  dl h'.
Proof.
  intros S D Fr Cl Loc i j Zj.
  destruct (in_dec N.eq_dec i Sl) as [Si|NSi].
  - apply Loc; assumption.
  - destruct (Fr i NSi) as [F1 F2]. rewrite F1, F2.
    assert (NSj : forall k, (rd h i Fnx = Some k \/ rd h i Fpv = Some k) -> k <> 0 -> ~ S k).
    { intros k Hk Zk Sk. destruct (D i k Zk) as [D1 D2].
      destruct Hk as [Hk|Hk].
      - pose proof (D1 Hk) as B. apply NSi. apply (Cl k i Sk).
        + intro Zi. subst i. unfold rd, tokat in Hk. cbn in Hk. discriminate.
        + right. exact B.
      - pose proof (D2 Hk) as B. apply NSi. apply (Cl k i Sk).
        + intro Zi. subst i. unfold rd, tokat in Hk. cbn in Hk. discriminate.
        + left. exact B. }
    destruct (D i j Zj) as [D1 D2]. split; intro Hk.
    + destruct (Fr j (NSj j (or_introl Hk) Zj)) as [_ G]. rewrite G. apply D1, Hk.
    + destruct (Fr j (NSj j (or_intror Hk) Zj)) as [G _]. rewrite G. apply D2, Hk.
Qed.

(* inside a complete chain the links lead to chain members and back *)
Lemma seg_links h p l q i :
  seg h p l q -> In i l ->
  exists l1 l2, l = l1 ++ i :: l2 /\ rd h i Fpv = Some (List.last l1 p) /\ rd h i Fnx = Some (hd q l2).
Proof.
  revert p; induction l as [|x r IH]; intros p S Hi; [destruct Hi|].
  cbn [seg] in S. destruct S as (V & P & Nx & S).
  destruct Hi as [->|Hi].
  - exists [], r. cbn. repeat split; assumption.
  - destruct (IH x S Hi) as (l1 & l2 & E & P' & N'). exists (x :: l1), l2. subst r. cbn [app]. split; [reflexivity|].
    split; [|exact N']. rewrite P'. f_equal. symmetry. apply last_cons.
Qed.

Lemma seg_closed h l i j : seg h 0 l 0 -> In i l -> j <> 0 -> (rd h i Fnx = Some j \/ rd h i Fpv = Some j) -> In j l.
Proof.
  intros S Hi Zj Hj. destruct (seg_links _ _ _ _ _ S Hi) as (l1 & l2 & E & P & Nx). subst l.
  destruct Hj as [Hj|Hj].
  - rewrite Nx in Hj. injection Hj as <-. destruct l2 as [|y l2]; [cbn in Zj; congruence|]. cbn [hd].
    apply in_or_app. right. right. left. reflexivity.
  - rewrite P in Hj. injection Hj as <-. destruct (exists_last (l := l1)) as (l0 & e & ->).
    + intro X. subst l1. cbn in Zj. congruence.
    + rewrite last_last. apply in_or_app. left. apply in_or_app. right. left. reflexivity.
Qed.

Lemma seg_dl h l i j : seg h 0 l 0 -> In i l -> j <> 0 ->
  (rd h i Fnx = Some j -> rd h j Fpv = Some i) /\ (rd h i Fpv = Some j -> rd h j Fnx = Some i).
Proof.
  intros S Hi Zj. destruct (seg_links _ _ _ _ _ S Hi) as (l1 & l2 & E & P & Nx). subst l. split; intro Hj.
  - rewrite Nx in Hj. injection Hj as <-. destruct l2 as [|y l2]; [cbn in Zj; congruence|]. cbn [hd].
    assert (In y (l1 ++ i :: y :: l2)) by (apply in_or_app; right; right; left; reflexivity).
    replace (l1 ++ i :: y :: l2) with ((l1 ++ [i]) ++ y :: l2) in S, H by (rewrite <- app_assoc; reflexivity).
    apply seg_app in S. destruct S as [_ S]. cbn [seg] in S. destruct S as (_ & Py & _). rewrite last_last in Py. exact Py.
  - rewrite P in Hj. injection Hj as <-. destruct (exists_last (l := l1)) as (l0 & e & ->).
    + intro X. subst l1. cbn in Zj. congruence.
    + rewrite last_last. rewrite <- app_assoc in S. apply seg_app in S. destruct S as [_ S]. cbn [seg app hd] in S. tauto.
Qed.

(* ---- token_prune_graft keeps the whole heap doubly linked *)
Theorem graft_preserves_dl (h : heap) (a m b : list N) (fi la ctype mm : N) :
  dl h ->
  seg h 0 (a ++ fi :: m ++ la :: b) 0 -> NoDup (a ++ fi :: m ++ la :: b) ->
  rd h fi Fmt = Some mm -> mm = 0 \/ valid h mm /\ mm <> fi ->
  rd h (hd fi a) Ftl = Some (List.last b la) ->
  exists h', token_prune_graft h fi la ctype = Some h' /\ dl h'.
Proof.
  intros D HS ND Hmt Hmm Htl.
  destruct (prune_graft_spec h a m b fi la ctype mm HS ND Hmt Hmm Htl) as
    (h' & E & L & So & _ & _ & Sc & _ & _ & _ & _ & _ & _ & _ & _ & Fr).
  exists h'. split; [exact E|].
  set (c := fresh h) in *.
  apply (dl_preserved h h' ((a ++ fi :: m ++ la :: b) ++ [c])); [exact D| | |].
  - (* tokens outside the chain and other than the new one keep their links *)
    intros i Hi. rewrite in_app_iff in Hi. cbn [In] in Hi.
    destruct (N.eq_dec i 0) as [Zi|Zi]; [subst i; split; reflexivity|].
    assert (Ni : forall x, In x (a ++ fi :: m ++ la :: b) -> i <> x) by (intros x Hx X; apply Hi; left; rewrite X; exact Hx).
    assert (i <> fi) by (apply Ni; apply in_or_app; right; left; reflexivity).
    assert (i <> c) by (intro X; apply Hi; right; left; symmetry; exact X).
    split; apply Fr; try assumption; try (intros [_ X]; discriminate).
    + intros [X _]. revert X. apply Ni. apply in_or_app. right. right. apply in_or_app. right. left. reflexivity.
    + intros [X _]. revert X. apply Ni. apply in_or_app. right. right.
      destruct m as [|y m']; cbn [hd app]; left; reflexivity.
    + intros [X _]. destruct b as [|y b']; cbn [hd] in X; [contradiction|].
      revert X. apply Ni. apply in_or_app. right. right. apply in_or_app. right. right. left. reflexivity.
  - (* the chain is closed under its links in the old heap; the new token did not exist *)
    intros i j Hi Zj Hj. rewrite in_app_iff in Hi |- *. destruct Hi as [Hi|[<-|[]]].
    + left. eapply seg_closed; eauto.
    + exfalso. assert (rd h c Fnx = None /\ rd h c Fpv = None).
      { unfold rd. destruct (tokat h c) eqn:T; [|split; reflexivity]. apply tokat_some_valid in T. destruct (fresh_not_valid h T). }
      destruct H as [H1 H2]. rewrite H1, H2 in Hj. destruct Hj; discriminate.
  - (* every token of the two new chains is coherent with its neighbours *)
    intros i j Hi Zj. rewrite in_app_iff in Hi.
    assert (Hc : In i (a ++ fi :: b) \/ In i (c :: m ++ [la])).
    { destruct Hi as [Hi|[<-|[]]]; [|right; left; reflexivity].
      rewrite in_app_iff in Hi. cbn [In] in Hi. rewrite in_app_iff in Hi. cbn [In] in Hi.
      rewrite in_app_iff. cbn [In]. rewrite in_app_iff. cbn [In]. tauto. }
    destruct Hc as [Hc|Hc]; [exact (seg_dl h' _ i j So Hc Zj)|exact (seg_dl h' _ i j Sc Hc Zj)].
Qed.

Ltac fr_close Hi :=
  let X := fresh "X" in
  first [ assumption
        | (intros [_ X]; discriminate)
        | (intros [X _]; first [contradiction | (apply Hi; rewrite X; tauto) | (revert X; assumption)])
        | (intro X; apply Hi; rewrite X; tauto) ].

Lemma rd_fresh_none h g k : (Nlen h < k) -> rd h k g = None.
Proof.
  intro Hk. unfold rd. destruct (tokat h k) eqn:T; [|reflexivity]. apply tokat_some_valid in T. destruct T. lia.
Qed.

(* a generic instance: the operation turns the complete chain [old] into the complete chain [new], which consists of
   the old tokens and some freshly allocated ones, and leaves the links of all other tokens alone *)
Lemma dl_chain_to_chain h h' old new :
  dl h -> seg h 0 old 0 -> seg h' 0 new 0 ->
  (forall i, In i new -> In i old \/ Nlen h < i) -> (forall i, In i old -> In i new) ->
  (forall i, i <> 0 -> ~ In i new -> rd h' i Fnx = rd h i Fnx /\ rd h' i Fpv = rd h i Fpv) ->
  dl h'.
Proof.
  intros D So Sn Hnew Hold Fr.
  apply (dl_preserved h h' new); [exact D| | |].
  - intros i Hi. destruct (N.eq_dec i 0) as [Zi|Zi]; [subst i; split; reflexivity|]. apply Fr; assumption.
  - intros i j Hi Zj Hj. destruct (Hnew i Hi) as [Ho|Hf].
    + apply Hold. eapply seg_closed; eauto.
    + rewrite !rd_fresh_none in Hj by exact Hf. destruct Hj; discriminate.
  - intros i j Hi Zj. exact (seg_dl h' _ i j Sn Hi Zj).
Qed.

Theorem split_both_preserves_dl (h : heap) (t : N) (l r : list N) (ts tlen tty start len ntype : N) :
  dl h -> seg h 0 (l ++ t :: r) 0 -> NoDup (l ++ t :: r) ->
  rd h t Fst = Some ts -> rd h t Fln = Some tlen -> rd h t Fty = Some tty ->
  ts + tlen < W -> ts < start -> start + len < ts + tlen ->
  exists h', token_split h t start len ntype = Some h' /\ dl h'.
Proof.
  intros D HS ND Hst Hln Hty NW B1 B2.
  destruct (split_both h 0 t l r ts tlen tty start len ntype HS ND Hst Hln Hty NW) as (h' & E & L & Sn & _ & _ & _ & _ & _ & _ & _ & _ & _ & _ & _ & Fr); try lia.
  exists h'. split; [exact E|].
  apply (dl_chain_to_chain h h' (l ++ t :: r) (l ++ t :: fresh h :: (fresh h + 1) :: r)); try assumption.
  - intros i Hi. rewrite in_app_iff in Hi |- *. cbn [In] in Hi |- *. unfold fresh in *. intuition lia.
  - intros i Hi. rewrite in_app_iff in Hi |- *. cbn [In] in Hi |- *. tauto.
  - intros i Zi Hi. rewrite in_app_iff in Hi. cbn [In] in Hi.
    assert (i <> hd 0 r) by (destruct r as [|y r']; cbn [hd]; [exact Zi|intro X; apply Hi; right; right; right; right; left; symmetry; exact X]).
    split; apply Fr; fr_close Hi.
Qed.

Lemma dl_chain_to_chains h h' old new1 new2 :
  dl h -> seg h 0 old 0 -> seg h' 0 new1 0 -> seg h' 0 new2 0 ->
  (forall i, In i (new1 ++ new2) -> In i old \/ Nlen h < i) -> (forall i, In i old -> In i (new1 ++ new2)) ->
  (forall i, i <> 0 -> ~ In i (new1 ++ new2) -> rd h' i Fnx = rd h i Fnx /\ rd h' i Fpv = rd h i Fpv) ->
  dl h'.
Proof.
  intros D So S1 S2 Hnew Hold Fr.
  apply (dl_preserved h h' (new1 ++ new2)); [exact D| | |].
  - intros i Hi. destruct (N.eq_dec i 0) as [Zi|Zi]; [subst i; split; reflexivity|]. apply Fr; assumption.
  - intros i j Hi Zj Hj. destruct (Hnew i Hi) as [Ho|Hf].
    + apply Hold. eapply seg_closed; eauto.
    + rewrite !rd_fresh_none in Hj by exact Hf. destruct Hj; discriminate.
  - intros i j Hi Zj. apply in_app_or in Hi. destruct Hi as [Hi|Hi]; [exact (seg_dl h' _ i j S1 Hi Zj)|exact (seg_dl h' _ i j S2 Hi Zj)].
Qed.

Theorem split_start_preserves_dl (h : heap) (t : N) (l r : list N) (ts tlen tty start len ntype : N) :
  dl h -> seg h 0 (l ++ t :: r) 0 -> NoDup (l ++ t :: r) ->
  rd h t Fst = Some ts -> rd h t Fln = Some tlen -> rd h t Fty = Some tty ->
  ts + tlen < W -> ts < start -> start + len = ts + tlen ->
  exists h', token_split h t start len ntype = Some h' /\ dl h'.
Proof.
  intros D HS ND Hst Hln Hty NW B1 B2.
  destruct (split_start h 0 t l r ts tlen tty start len ntype HS ND Hst Hln Hty NW) as (h' & E & L & Sn & _ & _ & _ & _ & _ & _ & _ & Fr); try lia.
  exists h'. split; [exact E|].
  apply (dl_chain_to_chain h h' (l ++ t :: r) (l ++ t :: fresh h :: r)); try assumption.
  - intros i Hi. rewrite in_app_iff in Hi |- *. cbn [In] in Hi |- *. unfold fresh in *. intuition lia.
  - intros i Hi. rewrite in_app_iff in Hi |- *. cbn [In] in Hi |- *. tauto.
  - intros i Zi Hi. rewrite in_app_iff in Hi. cbn [In] in Hi.
    assert (i <> hd 0 r) by (destruct r as [|y r']; cbn [hd]; [exact Zi|intro X; apply Hi; right; right; right; left; symmetry; exact X]).
    split; apply Fr; fr_close Hi.
Qed.

Theorem split_stop_preserves_dl (h : heap) (t : N) (l r : list N) (ts tlen tty start len ntype : N) :
  dl h -> seg h 0 (l ++ t :: r) 0 -> NoDup (l ++ t :: r) ->
  rd h t Fst = Some ts -> rd h t Fln = Some tlen -> rd h t Fty = Some tty ->
  ts + tlen < W -> ts = start -> start + len < ts + tlen ->
  exists h', token_split h t start len ntype = Some h' /\ dl h'.
Proof.
  intros D HS ND Hst Hln Hty NW B1 B2.
  destruct (split_stop h 0 t l r ts tlen tty start len ntype HS ND Hst Hln Hty NW) as (h' & E & L & Sn & _ & _ & _ & _ & _ & _ & _ & Fr); try lia.
  exists h'. split; [exact E|].
  apply (dl_chain_to_chain h h' (l ++ t :: r) (l ++ t :: fresh h :: r)); try assumption.
  - intros i Hi. rewrite in_app_iff in Hi |- *. cbn [In] in Hi |- *. unfold fresh in *. intuition lia.
  - intros i Hi. rewrite in_app_iff in Hi |- *. cbn [In] in Hi |- *. tauto.
  - intros i Zi Hi. rewrite in_app_iff in Hi. cbn [In] in Hi.
    assert (i <> hd 0 r) by (destruct r as [|y r']; cbn [hd]; [exact Zi|intro X; apply Hi; right; right; right; left; symmetry; exact X]).
    split; apply Fr; fr_close Hi.
Qed.

Ltac inapp := repeat (progress (rewrite ?in_app_iff in *; cbn [In app] in *)).

Theorem prune_preserves_dl h a pvt x rr b :
  dl h -> seg h 0 (a ++ pvt :: (x :: rr) ++ b) 0 -> NoDup (a ++ pvt :: (x :: rr) ++ b) ->
  rd h (hd pvt a) Ftl = Some (List.last b (List.last rr x)) ->
  exists h', tokens_prune h x (List.last rr x) = Some h' /\ dl h'.
Proof.
  intros D HS ND Htl.
  destruct (prune_spec h a pvt x rr b HS ND Htl) as (h' & E & L & S1 & _ & S2 & Fr).
  exists h'. split; [exact E|].
  apply (dl_chain_to_chains h h' (a ++ pvt :: (x :: rr) ++ b) (a ++ pvt :: b) (x :: rr)); try assumption.
  - intros i Hi. left. inapp. tauto.
  - intros i Hi. inapp. tauto.
  - intros i Zi Hi. inapp.
    assert (i <> hd 0 b) by (destruct b as [|y b']; cbn [hd]; [exact Zi|intro X; apply Hi; left; right; right; left; symmetry; exact X]).
    assert (i <> hd pvt a) by (destruct a as [|y a']; cbn [hd]; intro X; apply Hi; left; [right; left|left; left]; symmetry; exact X).
    assert (i <> List.last rr x) by (intro X; apply Hi; right; rewrite X; apply last_in_cons).
    split; apply Fr; fr_close Hi.
Qed.

Theorem pop_link_preserves_dl h a pvt t b :
  dl h -> seg h 0 (a ++ pvt :: t :: b) 0 -> NoDup (a ++ pvt :: t :: b) ->
  exists h', token_pop_link_from_chain h t = Some h' /\ dl h'.
Proof.
  intros D HS ND.
  destruct (pop_link_spec h a pvt t b HS ND) as (h' & E & L & S1 & _ & N1 & P1 & _ & Fr).
  exists h'. split; [exact E|].
  assert (Vt : valid h' t) by (eapply rd_some_valid; exact N1).
  apply (dl_chain_to_chains h h' (a ++ pvt :: t :: b) (a ++ pvt :: b) [t]); try assumption.
  - cbn [seg]. repeat split; try assumption; destruct Vt; assumption.
  - intros i Hi. left. inapp. tauto.
  - intros i Hi. inapp. tauto.
  - intros i Zi Hi. inapp.
    assert (i <> hd 0 b) by (destruct b as [|y b']; cbn [hd]; [exact Zi|intro X; apply Hi; left; right; right; left; symmetry; exact X]).
    assert (i <> hd pvt a) by (destruct a as [|y a']; cbn [hd]; intro X; apply Hi; left; [right; left|left; left]; symmetry; exact X).
    split; apply Fr; fr_close Hi.
Qed.

Theorem chain_append_preserves_dl h x1 r1 x2 r2 :
  dl h -> seg h 0 (x1 :: r1) 0 -> seg h 0 (x2 :: r2) 0 -> NoDup ((x1 :: r1) ++ (x2 :: r2)) ->
  tail_ok h x1 r1 -> tail_ok h x2 r2 ->
  exists h', token_chain_append h x1 x2 = Some h' /\ dl h'.
Proof.
  intros D S1 S2 ND T1 T2.
  destruct (chain_append_spec h x1 r1 x2 r2 S1 S2 ND T1 T2) as (h' & E & L & Sn & _ & Fr).
  exists h'. split; [exact E|].
  apply (dl_preserved h h' ((x1 :: r1) ++ (x2 :: r2))); [exact D| | |].
  - intros i Hi. split; apply Fr; try (intros [_ X]; discriminate); intros [X _]; apply Hi; rewrite X.
    + apply in_or_app. left. apply last_in_cons.
    + apply in_or_app. right. left. reflexivity.
  - intros i j Hi Zj Hj. apply in_app_or in Hi. apply in_or_app. destruct Hi as [Hi|Hi]; [left|right]; eapply seg_closed; eauto.
  - intros i j Hi Zj. exact (seg_dl h' _ i j Sn Hi Zj).
Qed.

Theorem new_parent_preserves_dl h x r ptype sx :
  dl h -> seg h 0 (x :: r) 0 -> NoDup (x :: r) -> rd h x Fst = Some sx ->
  exists h', token_new_parent h x ptype = Some (h', fresh h) /\ dl h'.
Proof.
  intros D HS ND Hsx.
  destruct (new_parent_spec h 0 x r ptype sx HS ND Hsx) as (h' & el & ll & E & L & _ & _ & Sn & _ & _ & _ & _ & Nn & Pn & _ & _ & Fr).
  exists h'. split; [exact E|].
  assert (Vn : valid h' (fresh h)) by (eapply rd_some_valid; exact Nn).
  apply (dl_chain_to_chains h h' (x :: r) (x :: r) [fresh h]); try assumption.
  - cbn [seg]. repeat split; try assumption; destruct Vn; assumption.
  - intros i Hi. inapp. unfold fresh in *. intuition lia.
  - intros i Hi. inapp. tauto.
  - intros i Zi Hi. inapp. split; apply Fr; try (intros [_ X]; discriminate); try (intro X; apply Hi; rewrite X; tauto).
    intros [X _]. apply Hi. rewrite X. tauto.
Qed.

Lemma dl_nil : dl [].
Proof. intros i j _. unfold rd, tokat. destruct (i =? 0); cbn; [split; discriminate|]. destruct (idx i); cbn; split; discriminate. Qed.

Theorem new_preserves_dl h type start len : dl h -> dl (fst (token_new h type start len)).
Proof.
  intro D. unfold token_new. cbn [fst].
  pose proof (rd_alloc h (mktk type start len 0 0 0 (fresh h) 0)) as R.
  intros i j Zj. rewrite !R.
  destruct (N.eqb_spec i (fresh h)) as [Ei|Ei].
  - cbn. split; intro X; injection X as <-; congruence.
  - destruct (D i j Zj) as [D1 D2].
    destruct (N.eqb_spec j (fresh h)) as [Ej|Ej].
    + split; intro X; exfalso.
      * apply D1 in X. apply rd_some_valid in X. subst j. exact (fresh_not_valid h X).
      * apply D2 in X. apply rd_some_valid in X. subst j. exact (fresh_not_valid h X).
    + tauto.
Qed.

(* ---- mates: "paired delimiters point at each other" *)
Definition msym (h : heap) : Prop := forall i j, j <> 0 -> rd h i Fmt = Some j -> rd h j Fmt = Some i.

(* an operation that leaves the mate field of every old token alone and gives new tokens no mate keeps mates symmetric *)
Lemma msym_same h h' :
  msym h -> (forall j, rd h' j Fmt = rd h j Fmt \/ (rd h j Fmt = None /\ rd h' j Fmt = Some 0)) -> msym h'.
Proof.
  intros M Same i j Zj Hij.
  destruct (Same i) as [Ei|[_ Ei]]; [|rewrite Ei in Hij; injection Hij as <-; contradiction].
  rewrite Ei in Hij. pose proof (M i j Zj Hij) as B.
  destruct (Same j) as [Ej|[Nj _]]; [rewrite Ej; exact B|rewrite Nj in B; discriminate].
Qed.

Lemma msym_nil : msym [].
Proof. intros i j _ H. unfold rd, tokat in H. destruct (i =? 0); cbn in H; [discriminate|]. destruct (idx i); discriminate. Qed.

Theorem new_preserves_msym h type start len : msym h -> msym (fst (token_new h type start len)).
Proof.
  intro M. apply (msym_same h); [exact M|]. intro j. unfold token_new. cbn [fst].
  rewrite rd_alloc. destruct (N.eqb_spec j (fresh h)) as [E|E]; [|left; reflexivity].
  right. subst j. split; [apply rd_fresh_none; unfold fresh; lia|reflexivity].
Qed.

(* what token_pairs.c does to a matched opener and closer (token_pair_mate), both still without a mate *)
Definition pair_mate (h : heap) (a b : N) : option heap := let? h := wr h a Fmt b in wr h b Fmt a.

Theorem pair_mate_spec h a b :
  dl h -> msym h -> rd h a Fmt = Some 0 -> rd h b Fmt = Some 0 -> a <> b ->
  exists h', pair_mate h a b = Some h' /\ dl h' /\ msym h' /\ rd h' a Fmt = Some b /\ rd h' b Fmt = Some a.
Proof.
  intros D M Ha Hb Nab.
  assert (Va : valid h a) by (eapply rd_some_valid; exact Ha).
  assert (Vb : valid h b) by (eapply rd_some_valid; exact Hb).
  unfold pair_mate.
  destruct (wr_ok h a Fmt b Va) as (h1 & E1 & L1 & R1). rewrite E1. cbn [obind].
  destruct (wr_ok h1 b Fmt a) as (h2 & E2 & L2 & R2); [apply (valid_len h); assumption|].
  exists h2. split; [exact E2|].
  assert (Nba : b <> a) by (apply not_eq_sym; exact Nab).
  split; [|split; [|split]].
  - intros i j Zj. rewrite !R2, !R1. cbn [feqb]. rewrite !andb_false_r. apply D, Zj.
  - intros i j Zj. rewrite !R2, !R1.
    destruct (N.eqb_spec i b) as [Eib|Nib]; cbn [feqb andb].
    + intro X. injection X as <-. rewrite (proj2 (N.eqb_neq a b) Nab), N.eqb_refl. cbn [andb]. subst i. reflexivity.
    + destruct (N.eqb_spec i a) as [Eia|Nia]; cbn [andb].
      * intro X. injection X as <-. rewrite N.eqb_refl. cbn [andb]. subst i. reflexivity.
      * intro X. pose proof (M i j Zj X) as B.
        assert (j <> b) by (intro Y; subst j; rewrite Hb in B; injection B as B; destruct (rd_some_valid _ _ _ _ X); congruence).
        assert (j <> a) by (intro Y; subst j; rewrite Ha in B; injection B as B; destruct (rd_some_valid _ _ _ _ X); congruence).
        rewrite (proj2 (N.eqb_neq j b)), (proj2 (N.eqb_neq j a)) by assumption. cbn [andb]. exact B.
  - rewrite R2, R1, (proj2 (N.eqb_neq a b) Nab), N.eqb_refl. reflexivity.
  - rewrite R2, N.eqb_refl. reflexivity.
Qed.

Theorem graft_preserves_msym (h : heap) (a m b : list N) (fi la ctype mm : N) :
  msym h ->
  seg h 0 (a ++ fi :: m ++ la :: b) 0 -> NoDup (a ++ fi :: m ++ la :: b) ->
  rd h fi Fmt = Some mm -> mm = 0 \/ valid h mm /\ mm <> fi ->
  rd h (hd fi a) Ftl = Some (List.last b la) ->
  exists h', token_prune_graft h fi la ctype = Some h' /\ msym h'.
Proof.
  intros M HS ND Hmt Hmm Htl.
  destruct (prune_graft_spec h a m b fi la ctype mm HS ND Hmt Hmm Htl) as
    (h' & E & L & _ & _ & _ & _ & _ & _ & _ & _ & _ & Mf & Mc & Mm & Fr).
  exists h'. split; [exact E|].
  set (c := fresh h) in *.
  assert (Vf : valid h fi) by (eapply rd_some_valid; exact Hmt).
  assert (Ncf : c <> fi) by (apply not_eq_sym, valid_neq_fresh; exact Vf).
  assert (FrM : forall i, i <> fi -> i <> c -> i <> mm -> rd h' i Fmt = rd h i Fmt).
  { intros i H1 H2 H3. apply Fr; try assumption; try (intros [_ X]; discriminate). intros [X _]. contradiction. }
  intros i j Zj Hij.
  destruct (N.eq_dec i fi) as [->|Nif]; [rewrite Mf in Hij; injection Hij as <-; contradiction|].
  destruct (N.eq_dec i c) as [->|Nic].
  { rewrite Mc in Hij. injection Hij as <-. apply Mm, Zj. }
  destruct (N.eq_dec i mm) as [->|Nim].
  { destruct (N.eq_dec mm 0) as [Z|Z]; [subst mm; unfold rd, tokat in Hij; cbn in Hij; discriminate|].
    rewrite (Mm Z) in Hij. injection Hij as <-. exact Mc. }
  rewrite (FrM i Nif Nic Nim) in Hij. pose proof (M i j Zj Hij) as B.
  assert (j <> fi) by (intro X; subst j; rewrite Hmt in B; injection B as B; congruence).
  assert (j <> c) by (intro X; subst j; rewrite rd_fresh_none in B by (unfold c, fresh; lia); discriminate).
  assert (j <> mm).
  { intro X. subst j. destruct Hmm as [Z|[_ _]]; [contradiction|].
    pose proof (M fi mm Zj Hmt) as B'. rewrite B in B'. injection B' as B'. contradiction. }
  rewrite FrM by assumption. exact B.
Qed.

(* ---- "siblings appear in source order": along every next link the spans do not overlap and do not go back *)
Definition ordered (h : heap) : Prop :=
  forall i j si li sj, j <> 0 -> rd h i Fnx = Some j -> rd h i Fst = Some si -> rd h i Fln = Some li -> rd h j Fst = Some sj -> si + li <= sj.
Definition bounded (h : heap) : Prop :=
  forall i si li, rd h i Fst = Some si -> rd h i Fln = Some li -> si + li < W.

(* along a chain the start of every later token is at or after the end of an earlier one *)
Lemma seg_mono h : ordered h -> forall r p x q y,
  seg h p (x :: r) q -> In y r ->
  forall sx lx sy, rd h x Fst = Some sx -> rd h x Fln = Some lx -> rd h y Fst = Some sy -> sx + lx <= sy.
Proof.
  intros O. induction r as [|z r IH]; intros p x q y S Hy sx lx sy Hsx Hlx Hsy; [destruct Hy|].
  cbn [seg hd] in S. destruct S as (Vx & _ & Nx & S).
  assert (Vz : valid h z) by (cbn [seg] in S; tauto).
  destruct (rd_valid h z Fst Vz) as [sz Esz]. destruct (rd_valid h z Fln Vz) as [lz Elz].
  assert (Zz : z <> 0) by (destruct Vz; assumption).
  pose proof (O x z sx lx sz Zz Nx Hsx Hlx Esz) as B.
  destruct Hy as [->|Hy]; [rewrite Esz in Hsy; injection Hsy as <-; exact B|].
  pose proof (IH x z q y S Hy sz lz sy Esz Elz Hsy). lia.
Qed.

Theorem graft_preserves_order (h : heap) (a m b : list N) (fi la ctype mm : N) :
  dl h -> ordered h -> bounded h ->
  seg h 0 (a ++ fi :: m ++ la :: b) 0 -> NoDup (a ++ fi :: m ++ la :: b) ->
  rd h fi Fmt = Some mm -> mm = 0 \/ valid h mm /\ mm <> fi ->
  rd h (hd fi a) Ftl = Some (List.last b la) ->
  exists h', token_prune_graft h fi la ctype = Some h' /\ ordered h' /\ bounded h'.
Proof.
  intros D O B HS ND Hmt Hmm Htl.
  destruct (prune_graft_spec h a m b fi la ctype mm HS ND Hmt Hmm Htl) as
    (h' & E & L & So & _ & Cch & Sc & _ & _ & Fst' & Fln' & Cp & _ & _ & _ & Fr).
  exists h'. split; [exact E|].
  set (c := fresh h) in *.
  destruct (graft_pieces h a m b fi la HS) as (Sa & Vf & Pf & Nf & Sm & Vl & Pl & Nl & Sb).
  destruct (rd_valid h fi Fst Vf) as [sf Esf]. destruct (rd_valid h fi Fln Vf) as [lf Elf].
  destruct (rd_valid h la Fst Vl) as [sl Esl]. destruct (rd_valid h la Fln Vl) as [ll Ell].
  assert (Ncf : c <> fi) by (apply not_eq_sym, valid_neq_fresh; exact Vf).
  assert (Mfl : sf + lf <= sl).
  { assert (S' : seg h (List.last a 0) (fi :: m ++ [la]) (hd 0 b)).
    { apply seg_app in HS. destruct HS as [_ S1]. replace (fi :: m ++ la :: b) with ((fi :: m ++ [la]) ++ b) in S1 by (cbn; rewrite <- app_assoc; reflexivity).
      apply seg_app in S1. tauto. }
    apply (seg_mono h O (m ++ [la]) _ fi _ la S'); try assumption. apply in_or_app. right. left. reflexivity. }
  assert (Bl : sl + ll < W) by (apply (B la); assumption).
  assert (Lf' : rd h' fi Fln = Some (sl + ll - sf)).
  { rewrite (Fln' sl ll sf Esl Ell Esf). f_equal. rewrite wadd_small by exact Bl. apply wsub_small; lia. }
  assert (Sf' : rd h' fi Fst = Some sf) by (rewrite Fst'; exact Esf).
  assert (Sc' : rd h' c Fst = Some sf) by (rewrite (Cp Fst) by tauto; exact Esf).
  assert (Lc' : rd h' c Fln = Some lf) by (rewrite (Cp Fln) by tauto; exact Elf).
  assert (FrS : forall j g, (g = Fst \/ g = Fln) -> j <> fi -> j <> c -> rd h' j g = rd h j g).
  { intros j g Hg N1 N2. apply Fr; try assumption; intros [_ X]; rewrite X in Hg; destruct Hg; discriminate. }
  assert (FrN : forall j, j <> fi -> j <> c -> j <> la -> rd h' j Fnx = rd h j Fnx).
  { intros j N1 N2 N3. apply Fr; try assumption; try (intros [_ X]; discriminate). intros [X _]. contradiction. }
  assert (Nfc : rd h' c Fnx = Some (hd la m)).
  { cbn [seg] in Sc. destruct Sc as (_ & _ & Nx & _). rewrite hd_app_cons in Nx. exact Nx. }
  assert (Nff : rd h' fi Fnx = Some (hd 0 b)).
  { apply seg_app in So. destruct So as [_ So]. cbn [seg] in So. tauto. }
  assert (Nll : rd h' la Fnx = Some 0).
  { cbn [seg] in Sc. destruct Sc as (_ & _ & _ & Sc). apply seg_app in Sc. destruct Sc as [_ Sc]. cbn [seg hd] in Sc. tauto. }
  (* the start of an old token as read in the new heap *)
  assert (OldS : forall j sj, valid h j -> rd h' j Fst = Some sj -> rd h j Fst = Some sj).
  { intros j sj Vj Hj. destruct (N.eq_dec j fi) as [->|N1]; [rewrite Sf' in Hj; congruence|].
    rewrite FrS in Hj; [exact Hj|tauto|exact N1|apply valid_neq_fresh; exact Vj]. }
  split.
  - intros i j si li sj Zj Hn Hs Hl Hj.
    destruct (N.eq_dec i c) as [->|Nic].
    + rewrite Sc' in Hs. rewrite Lc' in Hl. injection Hs as <-. injection Hl as <-. rewrite Nfc in Hn. injection Hn as <-.
      assert (Vj : valid h (hd la m)) by (destruct m as [|y m']; cbn [hd]; [exact Vl|cbn [seg] in Sm; tauto]).
      exact (O fi (hd la m) sf lf sj Zj Nf Esf Elf (OldS _ _ Vj Hj)).
    + destruct (N.eq_dec i fi) as [->|Nif].
      * rewrite Sf' in Hs. rewrite Lf' in Hl. injection Hs as <-. injection Hl as <-. rewrite Nff in Hn. injection Hn as <-.
        assert (Vj : valid h (hd 0 b)) by (destruct b as [|y b']; cbn [hd] in *; [contradiction|cbn [seg] in Sb; tauto]).
        pose proof (O la (hd 0 b) sl ll sj Zj Nl Esl Ell (OldS _ _ Vj Hj)). lia.
      * destruct (N.eq_dec i la) as [->|Nil]; [rewrite Nll in Hn; injection Hn as <-; contradiction|].
        rewrite FrN in Hn by assumption. rewrite FrS in Hs, Hl by (try assumption; tauto).
        assert (Vj : valid h j) by (destruct (D i j Zj) as [D1 _]; eapply rd_some_valid; exact (D1 Hn)).
        exact (O i j si li sj Zj Hn Hs Hl (OldS _ _ Vj Hj)).
  - intros i si li Hs Hl.
    destruct (N.eq_dec i c) as [->|Nic]; [rewrite Sc' in Hs; rewrite Lc' in Hl; injection Hs as <-; injection Hl as <-; apply (B fi); assumption|].
    destruct (N.eq_dec i fi) as [->|Nif]; [rewrite Sf' in Hs; rewrite Lf' in Hl; injection Hs as <-; injection Hl as <-; lia|].
    rewrite FrS in Hs, Hl by (try assumption; tauto). apply (B i); assumption.
Qed.

(* the other primitives never write a mate field; tokens they allocate have none *)
Lemma same_of_frame h h' (news : list N) :
  (forall j, ~ In j news -> rd h' j Fmt = rd h j Fmt) -> (forall j, In j news -> Nlen h < j /\ rd h' j Fmt = Some 0) ->
  forall j, rd h' j Fmt = rd h j Fmt \/ (rd h j Fmt = None /\ rd h' j Fmt = Some 0).
Proof.
  intros F N j. destruct (in_dec N.eq_dec j news) as [I|I]; [right|left; apply F, I].
  destruct (N j I) as [A B]. split; [apply rd_fresh_none, A|exact B].
Qed.

Ltac nofmt := try (intros [_ X]; discriminate).

Theorem chain_append_preserves_msym h x1 r1 x2 r2 h' :
  msym h -> seg h 0 (x1 :: r1) 0 -> seg h 0 (x2 :: r2) 0 -> NoDup ((x1 :: r1) ++ (x2 :: r2)) -> tail_ok h x1 r1 -> tail_ok h x2 r2 ->
  token_chain_append h x1 x2 = Some h' -> msym h'.
Proof.
  intros M S1 S2 ND T1 T2 E.
  destruct (chain_append_spec h x1 r1 x2 r2 S1 S2 ND T1 T2) as (h2 & E2 & _ & _ & _ & Fr).
  assert (h2 = h') by congruence. subst h2.
  apply (msym_same h); [exact M|]. intro j. left. apply Fr; intros [_ X]; discriminate.
Qed.

Theorem split_preserves_msym h t l r ts tlen tty start len ntype h' :
  msym h -> seg h 0 (l ++ t :: r) 0 -> NoDup (l ++ t :: r) -> rd h t Fst = Some ts -> rd h t Fln = Some tlen -> rd h t Fty = Some tty ->
  ts + tlen < W -> ts <= start -> start + len <= ts + tlen ->
  token_split h t start len ntype = Some h' -> msym h'.
Proof.
  intros M HS ND Hst Hln Hty NW I1 I2 E.
  destruct (N.lt_ge_cases ts start) as [B1|B1]; destruct (N.lt_ge_cases (start + len) (ts + tlen)) as [B2|B2].
  - destruct (split_both h 0 t l r ts tlen tty start len ntype HS ND Hst Hln Hty NW I1 I2 B1 B2)
      as (h2 & E2 & _ & _ & _ & _ & _ & _ & _ & _ & _ & _ & _ & Ma & Ma2 & Fr).
    assert (h2 = h') by congruence. subst h2.
    apply (msym_same h); [exact M|]. apply (same_of_frame h h' [fresh h; fresh h + 1]).
    + intros j Hj. cbn [In] in Hj. apply Fr; try (intros [_ X]; discriminate); intro X; apply Hj; rewrite X; tauto.
    + intros j [<-|[<-|[]]]; (split; [unfold fresh; lia|assumption]).
  - destruct (split_start h 0 t l r ts tlen tty start len ntype HS ND Hst Hln Hty NW I1 I2 B1) as (h2 & E2 & _ & _ & _ & _ & _ & _ & _ & _ & Ma & Fr); [lia|].
    assert (h2 = h') by congruence. subst h2.
    apply (msym_same h); [exact M|]. apply (same_of_frame h h' [fresh h]).
    + intros j Hj. cbn [In] in Hj. apply Fr; try (intros [_ X]; discriminate); intro X; apply Hj; rewrite X; tauto.
    + intros j [<-|[]]. split; [unfold fresh; lia|assumption].
  - destruct (split_stop h 0 t l r ts tlen tty start len ntype HS ND Hst Hln Hty NW I1 I2) as (h2 & E2 & _ & _ & _ & _ & _ & _ & _ & _ & Ma & Fr); [lia|exact B2|].
    assert (h2 = h') by congruence. subst h2.
    apply (msym_same h); [exact M|]. apply (same_of_frame h h' [fresh h]).
    + intros j Hj. cbn [In] in Hj. apply Fr; try (intros [_ X]; discriminate); intro X; apply Hj; rewrite X; tauto.
    + intros j [<-|[]]. split; [unfold fresh; lia|assumption].
  - destruct (split_none h 0 t l r ts tlen start len ntype HS ND Hst Hln NW I1 I2) as (h2 & E2 & _ & _ & Fr); [lia|lia|].
    assert (h2 = h') by congruence. subst h2.
    apply (msym_same h); [exact M|]. intro j. left. apply Fr. intros [_ X]; discriminate.
Qed.

Theorem new_parent_preserves_msym h x r ptype sx h' n :
  msym h -> seg h 0 (x :: r) 0 -> NoDup (x :: r) -> rd h x Fst = Some sx -> token_new_parent h x ptype = Some (h', n) -> msym h'.
Proof.
  intros M HS ND Hsx E.
  destruct (new_parent_spec h 0 x r ptype sx HS ND Hsx) as (h2 & el & ll & E2 & _ & _ & _ & _ & _ & _ & _ & _ & _ & _ & _ & Mn & Fr).
  assert (h2 = h') by congruence. subst h2.
  apply (msym_same h); [exact M|]. apply (same_of_frame h h' [fresh h]).
  - intros j Hj. cbn [In] in Hj. apply Fr; [intro X; apply Hj; rewrite X; tauto|intros [_ X]; discriminate].
  - intros j [<-|[]]. split; [unfold fresh; lia|exact Mn].
Qed.

Theorem prune_preserves_msym h a pvt x rr b h' :
  msym h -> seg h 0 (a ++ pvt :: (x :: rr) ++ b) 0 -> NoDup (a ++ pvt :: (x :: rr) ++ b) ->
  rd h (hd pvt a) Ftl = Some (List.last b (List.last rr x)) -> tokens_prune h x (List.last rr x) = Some h' -> msym h'.
Proof.
  intros M HS ND Htl E.
  destruct (prune_spec h a pvt x rr b HS ND Htl) as (h2 & E2 & _ & _ & _ & _ & Fr).
  assert (h2 = h') by congruence. subst h2.
  apply (msym_same h); [exact M|]. intro j. left. apply Fr; intros [_ X]; discriminate.
Qed.

Theorem pop_link_preserves_msym h a pvt t b h' :
  msym h -> seg h 0 (a ++ pvt :: t :: b) 0 -> NoDup (a ++ pvt :: t :: b) -> token_pop_link_from_chain h t = Some h' -> msym h'.
Proof.
  intros M HS ND E.
  destruct (pop_link_spec h a pvt t b HS ND) as (h2 & E2 & _ & _ & _ & _ & _ & _ & Fr).
  assert (h2 = h') by congruence. subst h2.
  apply (msym_same h); [exact M|]. intro j. left. apply Fr; intros [_ X]; discriminate.
Qed.

(* ---- the other primitives keep siblings in source order *)

(* when no start / length changes and the only new next links are listed, order is kept *)
Lemma order_relink h h' (news : list (N * N)) :
  ordered h -> bounded h ->
  (forall j g, g = Fst \/ g = Fln -> rd h' j g = rd h j g) ->
  (forall i j, j <> 0 -> rd h' i Fnx = Some j -> rd h i Fnx = Some j \/ In (i, j) news) ->
  (forall i j si li sj, In (i, j) news -> rd h i Fst = Some si -> rd h i Fln = Some li -> rd h j Fst = Some sj -> si + li <= sj) ->
  ordered h' /\ bounded h'.
Proof.
  intros O B F Lk Nw. split.
  - intros i j si li sj Zj Hn Hs Hl Hj. rewrite F in Hs, Hl, Hj by tauto.
    destruct (Lk i j Zj Hn) as [Old|New]; [exact (O i j si li sj Zj Old Hs Hl Hj)|exact (Nw i j si li sj New Hs Hl Hj)].
  - intros i si li. rewrite !F by tauto. apply B.
Qed.

Lemma seg_last_nx h p x r q : seg h p (x :: r) q -> rd h (List.last r x) Fnx = Some q.
Proof.
  revert p x; induction r as [|y r IH]; intros p x S.
  - cbn [seg hd] in S. cbn. tauto.
  - cbn [seg] in S. destruct S as (_ & _ & _ & S).
    replace (List.last (y :: r) x) with (List.last r y) by (symmetry; apply last_cons). apply (IH x y S).
Qed.

Theorem prune_preserves_order h a pvt x rr b h' :
  ordered h -> bounded h -> seg h 0 (a ++ pvt :: (x :: rr) ++ b) 0 -> NoDup (a ++ pvt :: (x :: rr) ++ b) ->
  rd h (hd pvt a) Ftl = Some (List.last b (List.last rr x)) -> tokens_prune h x (List.last rr x) = Some h' -> ordered h' /\ bounded h'.
Proof.
  intros O B HS ND Htl E.
  destruct (prune_spec h a pvt x rr b HS ND Htl) as (h2 & E2 & _ & S1 & _ & S2 & Fr).
  assert (h2 = h') by congruence. subst h2.
  apply (order_relink h h' [(pvt, hd 0 b)]); try assumption.
  - intros j g Hg. apply Fr; intros [_ X]; rewrite X in Hg; destruct Hg; discriminate.
  - intros i j Zj Hn.
    destruct (N.eq_dec i pvt) as [->|N1].
    { right. left. f_equal. apply seg_app in S1. destruct S1 as [_ S1]. cbn [seg] in S1. destruct S1 as (_ & _ & Nx & _). congruence. }
    destruct (N.eq_dec i (List.last rr x)) as [->|N2].
    { exfalso. rewrite (seg_last_nx h' 0 x rr 0 S2) in Hn. injection Hn as <-. contradiction. }
    left. rewrite <- Hn. symmetry. apply Fr; try (intros [_ X]; discriminate); intros [X _]; contradiction.
  - intros i j si li sj [X|[]] Hs Hl Hj. injection X as <- <-.
    destruct b as [|y b']; [cbn [hd] in Hj; unfold rd, tokat in Hj; cbn in Hj; discriminate|]. cbn [hd] in Hj.
    apply seg_app in HS. destruct HS as [_ HS].
    apply (seg_mono h O ((x :: rr) ++ y :: b') _ pvt _ y HS); try assumption.
    apply in_or_app. right. left. reflexivity.
Qed.

Theorem pop_link_preserves_order h a pvt t b h' :
  ordered h -> bounded h -> seg h 0 (a ++ pvt :: t :: b) 0 -> NoDup (a ++ pvt :: t :: b) ->
  token_pop_link_from_chain h t = Some h' -> ordered h' /\ bounded h'.
Proof.
  intros O B HS ND E.
  destruct (pop_link_spec h a pvt t b HS ND) as (h2 & E2 & _ & S1 & _ & Nt & _ & _ & Fr).
  assert (h2 = h') by congruence. subst h2.
  apply (order_relink h h' [(pvt, hd 0 b)]); try assumption.
  - intros j g Hg. apply Fr; intros [_ X]; rewrite X in Hg; destruct Hg; discriminate.
  - intros i j Zj Hn.
    destruct (N.eq_dec i pvt) as [->|N1].
    { right. left. f_equal. apply seg_app in S1. destruct S1 as [_ S1]. cbn [seg] in S1. destruct S1 as (_ & _ & Nx & _). congruence. }
    destruct (N.eq_dec i t) as [->|N2]; [rewrite Nt in Hn; injection Hn as <-; contradiction|].
    left. rewrite <- Hn. symmetry. apply Fr; try (intros [_ X]; discriminate); intros [X _]; contradiction.
  - intros i j si li sj [X|[]] Hs Hl Hj. injection X as <- <-.
    destruct b as [|y b']; [cbn [hd] in Hj; unfold rd, tokat in Hj; cbn in Hj; discriminate|]. cbn [hd] in Hj.
    apply seg_app in HS. destruct HS as [_ HS].
    apply (seg_mono h O (t :: y :: b') _ pvt _ y HS); try assumption. right. left. reflexivity.
Qed.

Theorem mate_preserves_order h a b h' :
  ordered h -> bounded h -> pair_mate h a b = Some h' -> ordered h' /\ bounded h'.
Proof.
  intros O B E. unfold pair_mate in E.
  destruct (wr h a Fmt b) as [h1|] eqn:E1; [|discriminate]. cbn [obind] in E.
  assert (Va : valid h a). { unfold wr in E1. destruct (tokat h a) eqn:T; [eapply tokat_some_valid; eauto|discriminate]. }
  destruct (wr_ok h a Fmt b Va) as (h1' & E1' & L1 & R1). assert (h1' = h1) by congruence. subst h1'.
  assert (Vb : valid h1 b). { unfold wr in E. destruct (tokat h1 b) eqn:T; [eapply tokat_some_valid; eauto|discriminate]. }
  destruct (wr_ok h1 b Fmt a Vb) as (h2 & E2 & L2 & R2). assert (h2 = h') by congruence. subst h2.
  apply (order_relink h h' []); try assumption.
  - intros j g Hg. rewrite R2, R1. destruct Hg as [->| ->]; cbn [feqb]; rewrite !andb_false_r; reflexivity.
  - intros i j Zj Hn. left. rewrite R2, R1 in Hn. cbn [feqb] in Hn. rewrite !andb_false_r in Hn. exact Hn.
  - intros i j si li sj [].
Qed.

Lemma dl_next_valid h i j : dl h -> j <> 0 -> rd h i Fnx = Some j -> valid h j.
Proof. intros D Zj Hn. destruct (D i j Zj) as [D1 _]. eapply rd_some_valid. exact (D1 Hn). Qed.

Theorem new_preserves_order h type start len :
  dl h -> ordered h -> bounded h -> start + len < W ->
  ordered (fst (token_new h type start len)) /\ bounded (fst (token_new h type start len)).
Proof.
  intros D O B Bn. unfold token_new. cbn [fst].
  pose proof (rd_alloc h (mktk type start len 0 0 0 (fresh h) 0)) as R. split.
  - intros i j si li sj Zj. rewrite !R.
    destruct (N.eqb_spec i (fresh h)) as [Ei|Ei]; [cbn; intro X; injection X as <-; contradiction|].
    destruct (N.eqb_spec j (fresh h)) as [Ej|Ej].
    + intros Hn. exfalso. subst j. exact (fresh_not_valid h (dl_next_valid h i _ D Zj Hn)).
    + apply O, Zj.
  - intros i si li. rewrite !R. destruct (N.eqb_spec i (fresh h)); [cbn; intros X Y; injection X as <-; injection Y as <-; exact Bn|apply B].
Qed.

Theorem chain_append_preserves_order h x1 r1 x2 r2 h' :
  ordered h -> bounded h ->
  seg h 0 (x1 :: r1) 0 -> seg h 0 (x2 :: r2) 0 -> NoDup ((x1 :: r1) ++ (x2 :: r2)) -> tail_ok h x1 r1 -> tail_ok h x2 r2 ->
  (forall s1 l1 s2, rd h (List.last r1 x1) Fst = Some s1 -> rd h (List.last r1 x1) Fln = Some l1 -> rd h x2 Fst = Some s2 -> s1 + l1 <= s2) ->
  token_chain_append h x1 x2 = Some h' -> ordered h' /\ bounded h'.
Proof.
  intros O B S1 S2 ND T1 T2 Gap E.
  destruct (chain_append_spec h x1 r1 x2 r2 S1 S2 ND T1 T2) as (h2 & E2 & _ & Sn & _ & Fr).
  assert (h2 = h') by congruence. subst h2.
  apply (order_relink h h' [(List.last r1 x1, x2)]); try assumption.
  - intros j g Hg. apply Fr; intros [_ X]; rewrite X in Hg; destruct Hg; discriminate.
  - intros i j Zj Hn.
    destruct (N.eq_dec i (List.last r1 x1)) as [->|N1].
    + right. left. f_equal.
      assert (In (List.last r1 x1) ((x1 :: r1) ++ x2 :: r2)) by (apply in_or_app; left; apply last_in_cons).
      pose proof Sn as Sn'. apply seg_app in Sn'. destruct Sn' as [Sa _]. cbn [hd] in Sa.
      rewrite (seg_last_nx h' 0 x1 r1 x2 Sa) in Hn. congruence.
    + left. rewrite <- Hn. symmetry. apply Fr; try (intros [_ X]; discriminate). intros [X _]. contradiction.
  - intros i j si li sj [X|[]] Hs Hl Hj. injection X as <- <-. exact (Gap si li sj Hs Hl Hj).
Qed.

Theorem new_parent_preserves_order h x r ptype sx h' n :
  dl h -> ordered h -> bounded h -> seg h 0 (x :: r) 0 -> NoDup (x :: r) -> rd h x Fst = Some sx ->
  token_new_parent h x ptype = Some (h', n) -> ordered h' /\ bounded h'.
Proof.
  intros D O B HS ND Hsx E.
  destruct (new_parent_spec h 0 x r ptype sx HS ND Hsx) as (h2 & el & ll & E2 & _ & Eel & Ell & _ & _ & _ & Stn & Lnn & Nxn & _ & _ & _ & Fr).
  assert (h2 = h') by congruence. subst h2.
  set (t := fresh h) in *.
  assert (Vx : valid h x) by (cbn [seg] in HS; tauto).
  assert (FrO : forall j g, j <> t -> g <> Fpv -> rd h' j g = rd h j g) by (intros j g N1 N2; apply Fr; [exact N1|intros [_ X]; contradiction]).
  (* the end of the last child is not before the start of the first *)
  assert (Ge : sx <= el + ll).
  { destruct r as [|y r']; [cbn in Eel; rewrite Hsx in Eel; injection Eel as <-; lia|].
    destruct (rd_valid h x Fln Vx) as [lx Elx].
    pose proof (seg_mono h O (y :: r') 0 x 0 (List.last (y :: r') x) HS (in_last (y :: r') x ltac:(discriminate)) sx lx el Hsx Elx Eel). lia. }
  assert (Bl : el + ll < W) by (apply (B (List.last r x)); assumption).
  split.
  - intros i j si li sj Zj Hn Hs Hl Hj.
    destruct (N.eq_dec i t) as [->|Ni]; [rewrite Nxn in Hn; injection Hn as <-; contradiction|].
    rewrite FrO in Hn, Hs, Hl by (try assumption; discriminate).
    assert (Nj : j <> t) by (apply valid_neq_fresh; exact (dl_next_valid h i j D Zj Hn)).
    rewrite FrO in Hj by (try assumption; discriminate). exact (O i j si li sj Zj Hn Hs Hl Hj).
  - intros i si li Hs Hl.
    destruct (N.eq_dec i t) as [->|Ni].
    + rewrite Stn in Hs. rewrite Lnn in Hl. injection Hs as <-. injection Hl as <-.
      destruct r as [|y r']; [cbn in Eel, Ell; rewrite Hsx in Eel; injection Eel as <-; exact Bl|].
      rewrite wadd_small by exact Bl. rewrite wsub_small by lia. lia.
    + rewrite FrO in Hs, Hl by (try assumption; discriminate). apply (B i); assumption.
Qed.
Theorem split_preserves_order h t l r ts tlen tty start len ntype h' :
  dl h -> ordered h -> bounded h ->
  seg h 0 (l ++ t :: r) 0 -> NoDup (l ++ t :: r) -> rd h t Fst = Some ts -> rd h t Fln = Some tlen -> rd h t Fty = Some tty ->
  ts + tlen < W -> ts <= start -> start + len <= ts + tlen ->
  token_split h t start len ntype = Some h' -> ordered h' /\ bounded h'.
Proof.
  intros D O B HS ND Hst Hln Hty NW I1 I2 E.
  assert (Vt : valid h t) by (eapply rd_some_valid; exact Hst).
  assert (Nr : rd h t Fnx = Some (hd 0 r)).
  { pose proof HS as S0. apply seg_app in S0. destruct S0 as [_ S0]. cbn [seg] in S0. tauto. }
  assert (Gap : forall sj, hd 0 r <> 0 -> rd h (hd 0 r) Fst = Some sj -> ts + tlen <= sj).
  { intros sj Z Hj. exact (O t (hd 0 r) ts tlen sj Z Nr Hst Hln Hj). }
  assert (Nta : t <> (fresh h)) by (apply valid_neq_fresh; exact Vt).
  assert (Nta2 : t <> (fresh h + 1)) by (unfold fresh; destruct Vt; lia).
  assert (Vnr : hd 0 r <> 0 -> valid h (hd 0 r)) by (intro Z; exact (dl_next_valid h t _ D Z Nr)).
  (* a generic finish: given the starts / lengths / next links of t and of the new tokens, and the frame *)
  assert (Fin : forall (news : list N),
     (forall j g, ~ In j news -> ~ (j = t /\ g = Fnx) -> ~ (j = t /\ g = Fln) -> g <> Fpv -> g <> Fty -> rd h' j g = rd h j g) ->
     (forall j, In j news -> ~ valid h j) ->
     rd h' t Fst = Some ts ->
     (forall i j si li sj, (i = t \/ In i news) -> j <> 0 -> rd h' i Fnx = Some j -> rd h' i Fst = Some si -> rd h' i Fln = Some li ->
                           rd h' j Fst = Some sj -> si + li <= sj) ->
     (forall i si li, (i = t \/ In i news) -> rd h' i Fst = Some si -> rd h' i Fln = Some li -> si + li < W) ->
     ordered h' /\ bounded h').
  { intros news Fr Nv St' Lk Bd. split.
    - intros i j si li sj Zj Hn Hs Hl Hj.
      destruct (N.eq_dec i t) as [Eit|Nit]; [exact (Lk i j si li sj (or_introl Eit) Zj Hn Hs Hl Hj)|].
      destruct (in_dec N.eq_dec i news) as [Iin|Nin]; [exact (Lk i j si li sj (or_intror Iin) Zj Hn Hs Hl Hj)|].
      rewrite Fr in Hn, Hs, Hl by (try assumption; try discriminate; intros [X _]; contradiction).
      assert (Vj : valid h j) by exact (dl_next_valid h i j D Zj Hn).
      assert (Njn : ~ In j news) by (intro X; exact (Nv j X Vj)).
      destruct (N.eq_dec j t) as [->|Njt].
      + rewrite St' in Hj. injection Hj as <-. exact (O i t si li ts Zj Hn Hs Hl Hst).
      + rewrite Fr in Hj by (try assumption; try discriminate; intros [X _]; contradiction).
        exact (O i j si li sj Zj Hn Hs Hl Hj).
    - intros i si li Hs Hl.
      destruct (N.eq_dec i t) as [Eit|Nit]; [exact (Bd i si li (or_introl Eit) Hs Hl)|].
      destruct (in_dec N.eq_dec i news) as [Iin|Nin]; [exact (Bd i si li (or_intror Iin) Hs Hl)|].
      rewrite Fr in Hs, Hl by (try assumption; try discriminate; intros [X _]; contradiction). apply (B i); assumption. }
  destruct (N.lt_ge_cases ts start) as [B1|B1]; destruct (N.lt_ge_cases (start + len) (ts + tlen)) as [B2|B2].
  - destruct (split_both h 0 t l r ts tlen tty start len ntype HS ND Hst Hln Hty NW I1 I2 B1 B2)
      as (h2 & E2 & _ & Sn & St & Lt & _ & Sa & La & _ & Sa2 & La2 & _ & _ & _ & Fr).
    assert (h2 = h') by congruence. subst h2.
    apply seg_app in Sn. destruct Sn as [_ Sn]. cbn [seg hd] in Sn. destruct Sn as (_ & _ & Nt' & _ & _ & Na' & _ & _ & Na2' & _).
    apply (Fin [(fresh h); (fresh h + 1)]).
    + intros j g Nin F1 F2 F3 F4. apply Fr; try assumption; try (intro X; apply Nin; rewrite X; cbn; tauto). intros [_ X]. contradiction.
    + intros j [<-|[<-|[]]]; [apply fresh_not_valid|unfold fresh, valid; lia].
    + exact St.
    + intros i j si li sj Hi Zj Hn Hs Hl Hj. destruct Hi as [->|[<-|[<-|[]]]].
      * rewrite Nt' in Hn. injection Hn as <-. rewrite St in Hs. rewrite Lt in Hl. rewrite Sa in Hj. injection Hs as <-. injection Hl as <-. injection Hj as <-. lia.
      * rewrite Na' in Hn. injection Hn as <-. rewrite Sa in Hs. rewrite La in Hl. rewrite Sa2 in Hj. injection Hs as <-. injection Hl as <-. injection Hj as <-. lia.
      * rewrite Na2' in Hn. injection Hn as <-. rewrite Sa2 in Hs. rewrite La2 in Hl. injection Hs as <-. injection Hl as <-.
        assert (Vj : valid h (hd 0 r)) by (apply Vnr; exact Zj).
        rewrite Fr in Hj; try (intros [_ X]; discriminate); try (apply valid_neq_fresh; exact Vj); try (unfold fresh; destruct Vj; lia).
        pose proof (Gap sj Zj Hj). lia.
    + intros i si li Hi Hs Hl. destruct Hi as [->|[<-|[<-|[]]]].
      * rewrite St in Hs. rewrite Lt in Hl. injection Hs as <-. injection Hl as <-. lia.
      * rewrite Sa in Hs. rewrite La in Hl. injection Hs as <-. injection Hl as <-. lia.
      * rewrite Sa2 in Hs. rewrite La2 in Hl. injection Hs as <-. injection Hl as <-. lia.
  - destruct (split_start h 0 t l r ts tlen tty start len ntype HS ND Hst Hln Hty NW I1 I2 B1) as (h2 & E2 & _ & Sn & St & Lt & _ & Sa & La & _ & _ & Fr); [lia|].
    assert (h2 = h') by congruence. subst h2.
    apply seg_app in Sn. destruct Sn as [_ Sn]. cbn [seg hd] in Sn. destruct Sn as (_ & _ & Nt' & _ & _ & Na' & _).
    apply (Fin [(fresh h)]).
    + intros j g Nin F1 F2 F3 F4. apply Fr; try assumption; try (intro X; apply Nin; rewrite X; cbn; tauto). intros [_ X]. contradiction.
    + intros j [<-|[]]. apply fresh_not_valid.
    + exact St.
    + intros i j si li sj Hi Zj Hn Hs Hl Hj. destruct Hi as [->|[<-|[]]].
      * rewrite Nt' in Hn. injection Hn as <-. rewrite St in Hs. rewrite Lt in Hl. rewrite Sa in Hj. injection Hs as <-. injection Hl as <-. injection Hj as <-. lia.
      * rewrite Na' in Hn. injection Hn as <-. rewrite Sa in Hs. rewrite La in Hl. injection Hs as <-. injection Hl as <-.
        assert (Vj : valid h (hd 0 r)) by (apply Vnr; exact Zj).
        rewrite Fr in Hj; try (intros [_ X]; discriminate); try (apply valid_neq_fresh; exact Vj).
        pose proof (Gap sj Zj Hj). lia.
    + intros i si li Hi Hs Hl. destruct Hi as [->|[<-|[]]].
      * rewrite St in Hs. rewrite Lt in Hl. injection Hs as <-. injection Hl as <-. lia.
      * rewrite Sa in Hs. rewrite La in Hl. injection Hs as <-. injection Hl as <-. lia.
  - destruct (split_stop h 0 t l r ts tlen tty start len ntype HS ND Hst Hln Hty NW I1 I2) as (h2 & E2 & _ & Sn & St & Lt & _ & Sa & La & _ & _ & Fr); [lia|exact B2|].
    assert (h2 = h') by congruence. subst h2.
    apply seg_app in Sn. destruct Sn as [_ Sn]. cbn [seg hd] in Sn. destruct Sn as (_ & _ & Nt' & _ & _ & Na' & _).
    apply (Fin [(fresh h)]).
    + intros j g Nin F1 F2 F3 F4. apply Fr; try assumption; try (intro X; apply Nin; rewrite X; cbn; tauto); intros [_ X]; contradiction.
    + intros j [<-|[]]. apply fresh_not_valid.
    + exact St.
    + intros i j si li sj Hi Zj Hn Hs Hl Hj. destruct Hi as [->|[<-|[]]].
      * rewrite Nt' in Hn. injection Hn as <-. rewrite St in Hs. rewrite Lt in Hl. rewrite Sa in Hj. injection Hs as <-. injection Hl as <-. injection Hj as <-. lia.
      * rewrite Na' in Hn. injection Hn as <-. rewrite Sa in Hs. rewrite La in Hl. injection Hs as <-. injection Hl as <-.
        assert (Vj : valid h (hd 0 r)) by (apply Vnr; exact Zj).
        rewrite Fr in Hj; try (intros [_ X]; discriminate); try (apply valid_neq_fresh; exact Vj).
        pose proof (Gap sj Zj Hj). lia.
    + intros i si li Hi Hs Hl. destruct Hi as [->|[<-|[]]].
      * rewrite St in Hs. rewrite Lt in Hl. injection Hs as <-. injection Hl as <-. lia.
      * rewrite Sa in Hs. rewrite La in Hl. injection Hs as <-. injection Hl as <-. lia.
  - destruct (split_none h 0 t l r ts tlen start len ntype HS ND Hst Hln NW I1 I2) as (h2 & E2 & _ & _ & Fr); [lia|lia|].
    assert (h2 = h') by congruence. subst h2.
    apply (order_relink h h' []); try assumption.
    + intros j g Hg. apply Fr. intros [_ X]. rewrite X in Hg. destruct Hg; discriminate.
    + intros i j Zj Hn. left. rewrite Fr in Hn by (intros [_ X]; discriminate). exact Hn.
    + intros i j si li sj [].
Qed.

(* ---- histories: one step = one primitive called within the hypotheses of its theorem *)
Inductive good_step : heap -> heap -> Prop :=
| GNew h type start len : start + len < W -> good_step h (fst (token_new h type start len))
| GChainAppend h x1 r1 x2 r2 h' :
    seg h 0 (x1 :: r1) 0 -> seg h 0 (x2 :: r2) 0 -> NoDup ((x1 :: r1) ++ (x2 :: r2)) -> tail_ok h x1 r1 -> tail_ok h x2 r2 ->
    (* the appended chain starts at or after the end of the chain it is appended to *)
    (forall s1 l1 s2, rd h (List.last r1 x1) Fst = Some s1 -> rd h (List.last r1 x1) Fln = Some l1 -> rd h x2 Fst = Some s2 -> s1 + l1 <= s2) ->
    token_chain_append h x1 x2 = Some h' -> good_step h h'
| GGraft h a m b fi la ctype mm h' :
    seg h 0 (a ++ fi :: m ++ la :: b) 0 -> NoDup (a ++ fi :: m ++ la :: b) -> rd h fi Fmt = Some mm ->
    (mm = 0 \/ valid h mm /\ mm <> fi) -> rd h (hd fi a) Ftl = Some (List.last b la) ->
    token_prune_graft h fi la ctype = Some h' -> good_step h h'
| GSplit h t l r ts tlen tty start len ntype h' :
    seg h 0 (l ++ t :: r) 0 -> NoDup (l ++ t :: r) -> rd h t Fst = Some ts -> rd h t Fln = Some tlen -> rd h t Fty = Some tty ->
    ts + tlen < W -> ts <= start -> start + len <= ts + tlen ->
    token_split h t start len ntype = Some h' -> good_step h h'
| GParent h x r ptype sx h' n :
    seg h 0 (x :: r) 0 -> NoDup (x :: r) -> rd h x Fst = Some sx -> token_new_parent h x ptype = Some (h', n) -> good_step h h'
| GPrune h a pvt x rr b h' :
    seg h 0 (a ++ pvt :: (x :: rr) ++ b) 0 -> NoDup (a ++ pvt :: (x :: rr) ++ b) ->
    rd h (hd pvt a) Ftl = Some (List.last b (List.last rr x)) ->
    tokens_prune h x (List.last rr x) = Some h' -> good_step h h'
| GPop h a pvt t b h' :
    seg h 0 (a ++ pvt :: t :: b) 0 -> NoDup (a ++ pvt :: t :: b) -> token_pop_link_from_chain h t = Some h' -> good_step h h'
| GMate h a b h' :
    rd h a Fmt = Some 0 -> rd h b Fmt = Some 0 -> a <> b -> pair_mate h a b = Some h' -> good_step h h'.

Inductive reachable : heap -> Prop :=
| RNil : reachable []
| RStep h h' : reachable h -> good_step h h' -> reachable h'.

Ltac same_result :=
  match goal with
  | E : ?f = Some ?a, H : ?f = Some ?b |- _ => rewrite H in E; injection E; intros; subst; assumption
  end.

Lemma good_step_dl h h' : dl h -> good_step h h' -> dl h'.
Proof.
  intros D G. destruct G.
  - apply new_preserves_dl, D.
  - destruct (chain_append_preserves_dl h x1 r1 x2 r2) as (h2 & E & D2); try assumption. same_result.
  - destruct (graft_preserves_dl h a m b fi la ctype mm) as (h2 & E & D2); try assumption. same_result.
  - (* the four cases of a split inside the token *)
    destruct (N.lt_ge_cases ts start) as [B1|B1]; destruct (N.lt_ge_cases (start + len) (ts + tlen)) as [B2|B2].
    + destruct (split_both_preserves_dl h t l r ts tlen tty start len ntype) as (h2 & E & D2); try assumption. same_result.
    + destruct (split_start_preserves_dl h t l r ts tlen tty start len ntype) as (h2 & E & D2); try assumption; try lia. same_result.
    + destruct (split_stop_preserves_dl h t l r ts tlen tty start len ntype) as (h2 & E & D2); try assumption; try lia. same_result.
    + destruct (split_none h 0 t l r ts tlen start len ntype) as (h2 & E & _ & _ & Fr); try assumption; try lia.
      assert (h2 = h') by (rewrite E in *; congruence). subst h2.
      intros i j Zj. rewrite !Fr by (intros [_ X]; discriminate). apply D, Zj.
  - destruct (new_parent_preserves_dl h x r ptype sx) as (h2 & E & D2); try assumption. same_result.
  - destruct (prune_preserves_dl h a pvt x rr b) as (h2 & E & D2); try assumption. same_result.
  - destruct (pop_link_preserves_dl h a pvt t b) as (h2 & E & D2); try assumption. same_result.
  - (* mating writes no link *)
    unfold pair_mate in *.
    assert (Va : valid h a) by (eapply rd_some_valid; eassumption).
    assert (Vb : valid h b) by (eapply rd_some_valid; eassumption).
    destruct (wr_ok h a Fmt b Va) as (h1 & E1 & L1 & R1). rewrite E1 in *. cbn [obind] in *.
    destruct (wr_ok h1 b Fmt a) as (h2 & E2 & L2 & R2); [apply (valid_len h); assumption|].
    assert (h2 = h') by congruence. subst h2.
    intros i j Zj. rewrite !R2, !R1. cbn [feqb]. rewrite !andb_false_r. apply D, Zj.
Qed.

Lemma good_step_msym h h' : dl h -> msym h -> good_step h h' -> msym h'.
Proof.
  intros D M G. destruct G.
  - apply new_preserves_msym, M.
  - apply (chain_append_preserves_msym h x1 r1 x2 r2 h'); assumption.
  - destruct (graft_preserves_msym h a m b fi la ctype mm) as (h2 & E & M2); try assumption. same_result.
  - apply (split_preserves_msym h t l r ts tlen tty start len ntype h'); assumption.
  - apply (new_parent_preserves_msym h x r ptype sx h' n); assumption.
  - apply (prune_preserves_msym h a pvt x rr b h'); assumption.
  - apply (pop_link_preserves_msym h a pvt t b h'); assumption.
  - destruct (pair_mate_spec h a b D M) as (h2 & E & _ & M2 & _); try assumption. same_result.
Qed.

(* every heap built by calls that stay within the hypotheses is doubly linked everywhere *)
Lemma good_step_order h h' : dl h -> ordered h -> bounded h -> good_step h h' -> ordered h' /\ bounded h'.
Proof.
  intros D O B G. destruct G.
  - apply new_preserves_order; assumption.
  - apply (chain_append_preserves_order h x1 r1 x2 r2 h'); assumption.
  - destruct (graft_preserves_order h a m b fi la ctype mm) as (h2 & E & O2 & B2); try assumption.
    assert (h2 = h') by congruence. subst h2. split; assumption.
  - apply (split_preserves_order h t l r ts tlen tty start len ntype h'); assumption.
  - apply (new_parent_preserves_order h x r ptype sx h' n); assumption.
  - apply (prune_preserves_order h a pvt x rr b h'); assumption.
  - apply (pop_link_preserves_order h a pvt t b h'); assumption.
  - apply (mate_preserves_order h a b h'); assumption.
Qed.

Lemma order_nil : ordered [] /\ bounded [].
Proof.
  split.
  - intros i j si li sj _ H. unfold rd, tokat in H. destruct (i =? 0); cbn in H; [discriminate|]. destruct (idx i); discriminate.
  - intros i si li H. unfold rd, tokat in H. destruct (i =? 0); cbn in H; [discriminate|]. destruct (idx i); discriminate.
Qed.

Theorem reachable_coherent h : reachable h -> dl h /\ msym h /\ ordered h /\ bounded h.
Proof.
  induction 1 as [|h h' _ (D & M & O & B) G]; [split; [exact dl_nil|split; [exact msym_nil|exact order_nil]]|].
  split; [exact (good_step_dl h h' D G)|]. split; [exact (good_step_msym h h' D M G)|exact (good_step_order h h' D O B G)].
Qed.

Theorem reachable_doubly_linked h : reachable h -> dl h.
Proof. intro R. exact (proj1 (reachable_coherent h R)). Qed.

(* ---- the repaired tokens_prune does not look at the rest of the chain when the pruned run is followed by
   another token: its result is four field writes, whatever the length of the chain (C07: a paragraph with n
   strong spans prunes 2n inner tokens, each in constant time) *)
Theorem prune_inner_is_four_writes h x e pvt nb :
  rd h x Fpv = Some pvt -> rd h e Fnx = Some nb -> pvt <> 0 -> nb <> 0 -> x <> 0 -> e <> 0 ->
  tokens_prune h x e =
    (let? h := wr h pvt Fnx nb in let? h := wr h nb Fpv pvt in let? h := wr h x Fpv 0 in wr h e Fnx 0).
Proof.
  intros Px Ne Zp Zn Zx Ze. unfold tokens_prune.
  rewrite (proj2 (N.eqb_neq x 0) Zx), (proj2 (N.eqb_neq e 0) Ze). cbn [orb].
  rewrite Px, Ne. cbn [obind].
  rewrite (proj2 (N.eqb_neq pvt 0) Zp), (proj2 (N.eqb_neq nb 0) Zn).
  destruct (wr h pvt Fnx nb) as [h1|]; cbn [obind]; reflexivity.
Qed.

(* ---- token_remove_first_child(parent): the second child becomes the first and inherits the recorded tail *)
Theorem remove_first_child_spec h p x y r :
  rd h p Fch = Some x -> seg h 0 (x :: y :: r) 0 -> NoDup (x :: y :: r) -> tail_ok h x (y :: r) ->
  exists h', token_remove_first_child h p = Some h' /\ length h' = length h /\
    rd h' p Fch = Some y /\ seg h' 0 (y :: r) 0 /\ tail_ok h' y r /\
    (forall j g, ~ (j = p /\ g = Fch) -> ~ (j = y /\ g = Fpv) -> ~ (j = y /\ g = Ftl) -> rd h' j g = rd h j g).
Proof.
  intros Hch HS ND T.
  assert (Vp : valid h p) by (eapply rd_some_valid; exact Hch).
  cbn [seg hd] in HS. destruct HS as (Vx & Px & Nx & Vy & Py & Ny & Sr).
  apply NoDup_cons_iff in ND. destruct ND as [Xn ND2]. apply NoDup_cons_iff in ND2. destruct ND2 as [Yn NDr].
  assert (Nxy : x <> y) by (intro X; apply Xn; left; symmetry; exact X).
  unfold token_remove_first_child.
  destruct (N.eqb_spec p 0) as [Z|_]; [destruct Vp; contradiction|].
  rewrite Hch. cbn [obind].
  destruct (N.eqb_spec x 0) as [Z|_]; [destruct Vx; contradiction|].
  rewrite Nx. cbn [obind].
  wr_step h1 L1 R1; [exact Vp|].
  replace (rd h1 p Fch) with (Some y) by (rewrite R1, N.eqb_refl; reflexivity). cbn [obind].
  destruct (N.eqb_spec y 0) as [Z|_]; [destruct Vy; contradiction|].
  wr_step h2 L2 R2; [vld|].
  unfold tail_ok in T.
  assert (X1 : rd h2 x Ftl = Some (List.last (y :: r) x)) by (rdrw; cbn [feqb]; rewrite !andb_false_r; exact T).
  rewrite X1. cbn [obind].
  assert (X2 : rd h2 p Fch = Some y).
  { rewrite R2. cbn [feqb]. rewrite andb_false_r. rewrite R1, N.eqb_refl. reflexivity. }
  rewrite X2. cbn [obind].
  wr_step h3 L3 R3; [vld|].
  exists h3. split; [reflexivity|]. split; [vld|].
  assert (VV : forall z, valid h z -> valid h3 z) by (intros z Vz; vld).
  split; [rdrw; cbn [feqb]; rewrite !andb_false_r; rewrite N.eqb_refl; reflexivity|].
  split.
  { cbn [seg]. split; [apply VV, Vy|].
    split; [rdrw; cbn [feqb]; rewrite andb_false_r, N.eqb_refl; reflexivity|].
    split; [rdrw; cbn [feqb]; rewrite !andb_false_r; exact Ny|].
    eapply seg_frame; [| |exact Sr]; [intros z _ Vz; apply VV, Vz|].
    intros z Hz. split; rdrw; cbn [feqb]; rewrite ?andb_false_r; try reflexivity.
    assert (z <> y) by (intro X; rewrite X in Hz; contradiction).
    rewrite (proj2 (N.eqb_neq z y)) by assumption. reflexivity. }
  split.
  { unfold tail_ok. rewrite R3, N.eqb_refl. cbn [feqb andb]. f_equal. apply last_cons. }
  intros j g A1 A2 A3. rdrw. rewrite (if_not j y g Ftl) by exact A3. rewrite (if_not j y g Fpv) by exact A2.
  rewrite (if_not j p g Fch) by exact A1. reflexivity.
Qed.
