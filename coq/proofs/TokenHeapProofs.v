(* C15: what the tree surgery primitives of token.c (model: model/TokenHeap.v) do to well-formed
   chains of any length.  Each theorem runs the model symbolically: every write is to a token shown
   to exist, every read is resolved through the write history. *)
From Coq Require Import List NArith Bool Lia.
From MMD.lib Require Import Bytes.
From MMD.model Require Import TokenHeap.
From MMD.proofs Require Import TokenHeapFacts.
Import ListNotations.
Local Open Scope N_scope.

(* ---- symbolic execution *)

Lemma rd_alloc h t j g : rd (h ++ [t]) j g = if j =? fresh h then Some (getf t g) else rd h j g.
Proof.
  destruct (N.eqb_spec j (fresh h)) as [E|E]; [subst; apply rd_app_new|].
  unfold rd, tokat. destruct (N.eqb_spec j 0); [reflexivity|].
  destruct (N.le_gt_cases j (Nlen h)) as [L|L].
  - rewrite nth_error_app1; [reflexivity|]. unfold idx, Nlen in *. lia.
  - assert (X : nth_error (h ++ [t]) (idx j) = None).
    { apply nth_error_None. rewrite app_length. cbn [length]. unfold fresh, idx, Nlen in *. lia. }
    assert (Y : nth_error h (idx j) = None).
    { apply nth_error_None. unfold fresh, idx, Nlen in *. lia. }
    rewrite X, Y. reflexivity.
Qed.

Lemma tokat_rd h i t g : tokat h i = Some t -> rd h i g = Some (getf t g).
Proof. unfold rd. intros ->. reflexivity. Qed.

Lemma if_not {A} j i g f (a b : A) : ~ (j = i /\ g = f) -> (if (j =? i) && feqb g f then a else b) = b.
Proof.
  intro H. destruct (N.eqb_spec j i) as [E|E]; [|reflexivity]. destruct (feqb g f) eqn:G; [|reflexivity].
  apply feqb_eq in G. tauto.
Qed.

Ltac rdrw := repeat match goal with
  | R : (forall j g, rd ?h j g = @?rhs j g) |- context [rd ?h ?j ?g] => rewrite (R j g)
  end.
Ltac eqbs := repeat first
  [ rewrite N.eqb_refl
  | match goal with
    | H : ?a <> ?b |- context[?a =? ?b] => rewrite (proj2 (N.eqb_neq a b) H)
    | H : ?a <> ?b |- context[?b =? ?a] => rewrite (proj2 (N.eqb_neq b a) (not_eq_sym H))
    end
  | progress cbn [feqb andb]
  | rewrite andb_false_r | rewrite andb_true_r ].
Ltac rdeval := rdrw; eqbs.

Ltac vld := unfold valid, Nlen in *;
  repeat match goal with L : length _ = _ |- _ => rewrite L in * end;
  try rewrite app_length in *; cbn [length] in *; lia.

(* [wr_step] : execute the next write of the goal; the side condition is the validity of the target *)
Ltac wr_step h' L R :=
  match goal with
  | |- context [wr ?h ?i ?f ?v] =>
      let E := fresh "E" in
      let V := fresh "V" in
      assert (V : valid h i); [ | destruct (wr_ok h i f v V) as (h' & E & L & R); rewrite E; cbn [obind]; clear E V ]
  end.

Lemma nodup_app {A} (l1 l2 : list A) :
  NoDup (l1 ++ l2) <-> NoDup l1 /\ NoDup l2 /\ (forall x, In x l1 -> ~ In x l2).
Proof.
  induction l1 as [|a l1 IH]; cbn [app].
  - split; [intro H; repeat split; [constructor|exact H|intros x []]|tauto].
  - rewrite !NoDup_cons_iff, IH, in_app_iff. split.
    + intros (Na & N1 & N2 & D). repeat split; try tauto.
      intros x [->|Hx]; [tauto|apply D; exact Hx].
    + intros ((Na & N1) & N2 & D). repeat split; try tauto.
      * intros [H|H]; [tauto|]. exact (D a (or_introl eq_refl) H).
      * intros x Hx. apply D. right; exact Hx.
Qed.

Lemma in_last {A} (l : list A) d : l <> [] -> In (last l d) l.
Proof.
  induction l as [|a l IH]; [congruence|]. intros _. destruct l as [|b l]; [left; reflexivity|].
  right. apply IH. discriminate.
Qed.

Lemma last_app_cons {A} (l : list A) a r d : last (l ++ a :: r) d = last r a.
Proof.
  induction l as [|b l IH]; [apply last_cons|].
  change ((b :: l) ++ a :: r) with (b :: (l ++ a :: r)).
  destruct (l ++ a :: r) as [|y t] eqn:E; [destruct l; discriminate|].
  change (last (b :: y :: t) d) with (last (y :: t) d). exact IH.
Qed.

Lemma last_in_cons {A} (r : list A) x : In (last r x) (x :: r).
Proof. destruct r as [|y r]; [left; reflexivity|]. right. apply in_last. discriminate. Qed.

(* ---- token_chain_append: two well-formed chains become one; nothing else changes *)

Definition tail_ok (h : heap) (x : N) (r : list N) : Prop := rd h x Ftl = Some (last r x).

Theorem chain_append_spec h x1 r1 x2 r2 :
  seg h 0 (x1 :: r1) 0 -> seg h 0 (x2 :: r2) 0 -> NoDup ((x1 :: r1) ++ (x2 :: r2)) ->
  tail_ok h x1 r1 -> tail_ok h x2 r2 ->
  exists h', token_chain_append h x1 x2 = Some h' /\ length h' = length h /\
    seg h' 0 ((x1 :: r1) ++ (x2 :: r2)) 0 /\ tail_ok h' x1 (r1 ++ x2 :: r2) /\
    (forall j g, ~ (j = last r1 x1 /\ g = Fnx) -> ~ (j = x2 /\ g = Fpv) -> ~ (j = x1 /\ g = Ftl) -> rd h' j g = rd h j g).
Proof.
  intros S1 S2 ND T1 T2. unfold tail_ok in *.
  set (e1 := last r1 x1) in *.
  assert (Ve1 : valid h e1) by (eapply seg_valid; [exact S1|apply last_in_cons]).
  assert (Vx1 : valid h x1) by (cbn in S1; tauto).
  assert (Vx2 : valid h x2) by (cbn in S2; tauto).
  apply nodup_app in ND. destruct ND as (ND1 & ND2 & D).
  assert (Ne : e1 <> x2) by (intro X; apply (D e1 (last_in_cons r1 x1)); rewrite X; left; reflexivity).
  assert (N12 : x1 <> x2) by (intro X; apply (D x1 (or_introl eq_refl)); rewrite X; left; reflexivity).
  unfold token_chain_append.
  destruct (N.eqb_spec x1 0) as [Z|_]; [destruct Vx1; contradiction|].
  destruct (N.eqb_spec x2 0) as [Z|_]; [destruct Vx2; contradiction|]. cbn [orb].
  rewrite T1. cbn [obind].
  wr_step h1 L1 R1; [exact Ve1|].
  replace (rd h1 x1 Ftl) with (Some e1) by (rdeval; symmetry; exact T1). cbn [obind].
  wr_step h2 L2 R2; [vld|].
  replace (rd h2 x2 Ftl) with (Some (last r2 x2)) by (rdeval; symmetry; exact T2). cbn [obind].
  wr_step h3 L3 R3; [vld|].
  exists h3. split; [reflexivity|]. split; [congruence|].
  assert (VV : forall y, valid h y -> valid h3 y) by (intros y Hy; vld).
  split; [|split].
  - apply seg_app. split.
    + (* the first chain, its last token now pointing at x2 *)
      cbn [hd].
      destruct (exists_last (l := x1 :: r1)) as (l & e & El); [discriminate|].
      assert (Ee : e = e1) by (unfold e1; rewrite <- (last_cons r1 x1 0), El, last_last; reflexivity).
      subst e. rewrite El in S1 |- *. rewrite El in ND1.
      apply seg_app in S1. destruct S1 as [Sa Sb].
      apply nodup_app in ND1. destruct ND1 as (_ & _ & D1).
      apply seg_app. split.
      * eapply seg_frame; [| |exact Sa].
        -- intros y _ Hy. apply VV, Hy.
        -- intros y Hy.
           assert (y <> e1) by (intro X; subst y; exact (D1 e1 Hy (or_introl eq_refl))).
           assert (y <> x2). { intro X; subst y. apply (D x2); [rewrite El; apply in_or_app; left; exact Hy|left; reflexivity]. }
           split; rdeval; reflexivity.
      * cbn [seg] in Sb |- *. destruct Sb as (_ & P & _ & _).
        split; [apply VV, Ve1|]. split; [rdeval; exact P|]. split; [rdeval; reflexivity|exact I].
    + (* the second chain, its first token now pointing back at e1 *)
      replace (last (x1 :: r1) 0) with e1 by (unfold e1; symmetry; apply last_cons).
      eapply seg_change_pv; [exact S2| | | |].
      * intros y _ Hy. apply VV, Hy.
      * rdeval. reflexivity.
      * rdeval. reflexivity.
      * intros y Hy.
        assert (y <> x2) by (intro X; subst y; inversion ND2; contradiction).
        assert (y <> e1). { intro X; subst y. apply (D e1 (last_in_cons r1 x1)). right; exact Hy. }
        split; rdeval; reflexivity.
  - unfold tail_ok. rdeval.
    replace (last (r1 ++ x2 :: r2) x1) with (last r2 x2); [reflexivity|].
    symmetry. apply last_app_cons.
  - intros j g F1 F2 F3. rdrw. rewrite !if_not by assumption. reflexivity.
Qed.
