(* C15: what the tree surgery primitives of token.c (model: model/TokenHeap.v) do to well-formed
   chains of any length.  Each theorem runs the model symbolically: every write is to a token shown
   to exist, every read is resolved through the write history. *)
From Coq Require Import List NArith Bool Lia.
From MMD.lib Require Import Bytes BytesFacts.
From MMD.model Require Import TokenHeap.
From MMD.proofs Require Import TokenHeapFacts.
Import ListNotations.
Local Open Scope N_scope.

(* ---- symbolic execution *)

Lemma rd_alloc h t j g : rd (h ++ [t]) j g = if j =? fresh h then Some (getf t g) else rd h j g.
Proof.
  destruct (N.eqb_spec j (fresh h)) as [E|E]; [subst; apply rd_app_new|].
  unfold rd, tokat. destruct (N.eqb_spec j 0); [reflexivity|].
  destruct (N.le_gt_cases j (Nlen h)) as [L|L].
  - rewrite nth_error_app1; [reflexivity|]. unfold idx, Nlen in *. lia.
  - assert (X : nth_error (h ++ [t]) (idx j) = None).
    { apply nth_error_None. rewrite app_length. cbn [length]. unfold fresh, idx, Nlen in *. lia. }
    assert (Y : nth_error h (idx j) = None).
    { apply nth_error_None. unfold fresh, idx, Nlen in *. lia. }
    rewrite X, Y. reflexivity.
Qed.

Lemma tokat_rd h i t g : tokat h i = Some t -> rd h i g = Some (getf t g).
Proof. unfold rd. intros ->. reflexivity. Qed.

Lemma if_not {A} j i g f (a b : A) : ~ (j = i /\ g = f) -> (if (j =? i) && feqb g f then a else b) = b.
Proof.
  intro H. destruct (N.eqb_spec j i) as [E|E]; [|reflexivity]. destruct (feqb g f) eqn:G; [|reflexivity].
  apply feqb_eq in G. tauto.
Qed.

Lemma if_not2 {A} (z : bool) j i g f (a b : A) : ~ (j = i /\ g = f) -> (if z && ((j =? i) && feqb g f) then a else b) = b.
Proof. intro H. destruct z; cbn [andb]; [apply if_not; exact H|reflexivity]. Qed.

Ltac rdrw := repeat match goal with
  | R : (forall j g, rd ?h j g = @?rhs j g) |- context [rd ?h ?j ?g] => rewrite (R j g)
  end.
Ltac eqbs := repeat first
  [ rewrite N.eqb_refl
  | match goal with
    | H : ?a <> ?b |- context[?a =? ?b] => rewrite (proj2 (N.eqb_neq a b) H)
    | H : ?a <> ?b |- context[?b =? ?a] => rewrite (proj2 (N.eqb_neq b a) (not_eq_sym H))
    end
  | progress cbn [feqb andb]
  | rewrite andb_false_r | rewrite andb_true_r ].
Ltac rdeval := rdrw; eqbs.
Ltac frame_tac := rdrw; repeat first [ rewrite if_not by assumption | rewrite if_not2 by assumption | progress eqbs ]; try reflexivity.
Ltac fin := rdeval; cbn [getf kty kst kln knx kpv kch ktl kmt]; try reflexivity.

Ltac vld := unfold valid, fresh, Nlen in *;
  repeat match goal with L : length _ = _ |- _ => rewrite L in * end;
  try rewrite app_length in *; cbn [length] in *; lia.

(* [wr_step] : execute the next write of the goal; the side condition is the validity of the target *)
Ltac wr_step h' L R :=
  match goal with
  | |- context [wr ?h ?i ?f ?v] =>
      let E := fresh "E" in
      let V := fresh "V" in
      assert (V : valid h i); [ | destruct (wr_ok h i f v V) as (h' & E & L & R); rewrite E; cbn [obind]; clear E V ]
  end.

Lemma nodup_app {A} (l1 l2 : list A) :
  NoDup (l1 ++ l2) <-> NoDup l1 /\ NoDup l2 /\ (forall x, In x l1 -> ~ In x l2).
Proof.
  induction l1 as [|a l1 IH]; cbn [app].
  - split; [intro H; repeat split; [constructor|exact H|intros x []]|tauto].
  - rewrite !NoDup_cons_iff, IH, in_app_iff. split.
    + intros (Na & N1 & N2 & D). repeat split; try tauto.
      intros x [->|Hx]; [tauto|apply D; exact Hx].
    + intros ((Na & N1) & N2 & D). repeat split; try tauto.
      * intros [H|H]; [tauto|]. exact (D a (or_introl eq_refl) H).
      * intros x Hx. apply D. right; exact Hx.
Qed.

Lemma in_last {A} (l : list A) d : l <> [] -> In (last l d) l.
Proof.
  induction l as [|a l IH]; [congruence|]. intros _. destruct l as [|b l]; [left; reflexivity|].
  right. apply IH. discriminate.
Qed.

Lemma last_app_cons {A} (l : list A) a r d : last (l ++ a :: r) d = last r a.
Proof.
  induction l as [|b l IH]; [apply last_cons|].
  change ((b :: l) ++ a :: r) with (b :: (l ++ a :: r)).
  destruct (l ++ a :: r) as [|y t] eqn:E; [destruct l; discriminate|].
  change (last (b :: y :: t) d) with (last (y :: t) d). exact IH.
Qed.

Lemma last_in_cons {A} (r : list A) x : In (last r x) (x :: r).
Proof. destruct r as [|y r]; [left; reflexivity|]. right. apply in_last. discriminate. Qed.

(* ---- token_chain_append: two well-formed chains become one; nothing else changes *)

Definition tail_ok (h : heap) (x : N) (r : list N) : Prop := rd h x Ftl = Some (last r x).

Theorem chain_append_spec h x1 r1 x2 r2 :
  seg h 0 (x1 :: r1) 0 -> seg h 0 (x2 :: r2) 0 -> NoDup ((x1 :: r1) ++ (x2 :: r2)) ->
  tail_ok h x1 r1 -> tail_ok h x2 r2 ->
  exists h', token_chain_append h x1 x2 = Some h' /\ length h' = length h /\
    seg h' 0 ((x1 :: r1) ++ (x2 :: r2)) 0 /\ tail_ok h' x1 (r1 ++ x2 :: r2) /\
    (forall j g, ~ (j = last r1 x1 /\ g = Fnx) -> ~ (j = x2 /\ g = Fpv) -> ~ (j = x1 /\ g = Ftl) -> rd h' j g = rd h j g).
Proof.
  intros S1 S2 ND T1 T2. unfold tail_ok in *.
  set (e1 := last r1 x1) in *.
  assert (Ve1 : valid h e1) by (eapply seg_valid; [exact S1|apply last_in_cons]).
  assert (Vx1 : valid h x1) by (cbn in S1; tauto).
  assert (Vx2 : valid h x2) by (cbn in S2; tauto).
  apply nodup_app in ND. destruct ND as (ND1 & ND2 & D).
  assert (Ne : e1 <> x2) by (intro X; apply (D e1 (last_in_cons r1 x1)); rewrite X; left; reflexivity).
  assert (N12 : x1 <> x2) by (intro X; apply (D x1 (or_introl eq_refl)); rewrite X; left; reflexivity).
  unfold token_chain_append.
  destruct (N.eqb_spec x1 0) as [Z|_]; [destruct Vx1; contradiction|].
  destruct (N.eqb_spec x2 0) as [Z|_]; [destruct Vx2; contradiction|]. cbn [orb].
  rewrite T1. cbn [obind].
  wr_step h1 L1 R1; [exact Ve1|].
  replace (rd h1 x1 Ftl) with (Some e1) by (rdeval; symmetry; exact T1). cbn [obind].
  wr_step h2 L2 R2; [vld|].
  replace (rd h2 x2 Ftl) with (Some (last r2 x2)) by (rdeval; symmetry; exact T2). cbn [obind].
  wr_step h3 L3 R3; [vld|].
  exists h3. split; [reflexivity|]. split; [congruence|].
  assert (VV : forall y, valid h y -> valid h3 y) by (intros y Hy; vld).
  split; [|split].
  - apply seg_app. split.
    + (* the first chain, its last token now pointing at x2 *)
      cbn [hd].
      destruct (exists_last (l := x1 :: r1)) as (l & e & El); [discriminate|].
      assert (Ee : e = e1) by (unfold e1; rewrite <- (last_cons r1 x1 0), El, last_last; reflexivity).
      subst e. rewrite El in S1 |- *. rewrite El in ND1.
      apply seg_app in S1. destruct S1 as [Sa Sb].
      apply nodup_app in ND1. destruct ND1 as (_ & _ & D1).
      apply seg_app. split.
      * eapply seg_frame; [| |exact Sa].
        -- intros y _ Hy. apply VV, Hy.
        -- intros y Hy.
           assert (y <> e1) by (intro X; subst y; exact (D1 e1 Hy (or_introl eq_refl))).
           assert (y <> x2). { intro X; subst y. apply (D x2); [rewrite El; apply in_or_app; left; exact Hy|left; reflexivity]. }
           split; rdeval; reflexivity.
      * cbn [seg] in Sb |- *. destruct Sb as (_ & P & _ & _).
        split; [apply VV, Ve1|]. split; [rdeval; exact P|]. split; [rdeval; reflexivity|exact I].
    + (* the second chain, its first token now pointing back at e1 *)
      replace (last (x1 :: r1) 0) with e1 by (unfold e1; symmetry; apply last_cons).
      eapply seg_change_pv; [exact S2| | | |].
      * intros y _ Hy. apply VV, Hy.
      * rdeval. reflexivity.
      * rdeval. reflexivity.
      * intros y Hy.
        assert (y <> x2) by (intro X; subst y; inversion ND2; contradiction).
        assert (y <> e1). { intro X; subst y. apply (D e1 (last_in_cons r1 x1)). right; exact Hy. }
        split; rdeval; reflexivity.
  - unfold tail_ok. rdeval.
    replace (last (r1 ++ x2 :: r2) x1) with (last r2 x2); [reflexivity|].
    symmetry. apply last_app_cons.
  - intros j g F1 F2 F3. rdrw. rewrite !if_not by assumption. reflexivity.
Qed.

(* ---- conditional writes with a uniform description of the result *)

Lemma opt_wr (z : bool) h i f v : (z = false -> valid h i) ->
  exists h', (if z then Some h else wr h i f v) = Some h' /\ length h' = length h /\
             forall j g, rd h' j g = if negb z && ((j =? i) && feqb g f) then Some v else rd h j g.
Proof.
  intro V. destruct z; cbn [negb andb].
  - exists h. repeat split; reflexivity.
  - destruct (wr_ok h i f v (V eq_refl)) as (h' & E & L & R). exists h'. repeat split; assumption.
Qed.

Lemma hd_app_cons {A} (l : list A) x r d : hd d (l ++ x :: r) = hd x l.
Proof. destruct l; reflexivity. Qed.

Lemma nodup_mid {A} (a : list A) x b : NoDup (a ++ x :: b) -> ~ In x a /\ ~ In x b /\ NoDup (a ++ b).
Proof.
  intro H. pose proof (NoDup_remove_1 _ _ _ H). pose proof (NoDup_remove_2 _ _ _ H).
  rewrite in_app_iff in *. tauto.
Qed.

(* ---- token_prune_graft(first, last, type) with first <> last: the tokens first .. last of a chain
   become the children of a container that takes the place (and identity) of first *)

Section Graft.
Variables (h : heap) (a m b : list N) (fi la ctype mm : N).
Let L := a ++ fi :: m ++ la :: b.
Hypothesis HS : seg h 0 L 0.
Hypothesis ND : NoDup L.
Hypothesis Hmt : rd h fi Fmt = Some mm.
Hypothesis Hmm : mm = 0 \/ (valid h mm /\ mm <> fi).

Let c := fresh h.
Let nm := hd la m.
Let nb := hd 0 b.

Lemma graft_pieces :
  seg h 0 a fi /\ valid h fi /\ rd h fi Fpv = Some (List.last a 0) /\ rd h fi Fnx = Some nm /\
  seg h fi m la /\ valid h la /\ rd h la Fpv = Some (List.last m fi) /\ rd h la Fnx = Some nb /\ seg h la b 0.
Proof.
  unfold L in HS. apply seg_app in HS. cbn [hd] in HS. destruct HS as [Sa S1].
  cbn [seg] in S1. destruct S1 as (Vf & Pf & Nf & S2). rewrite hd_app_cons in Nf.
  apply seg_app in S2. cbn [hd] in S2. destruct S2 as [Sm S3].
  cbn [seg] in S3. destruct S3 as (Vl & Pl & Nl & Sb).
  repeat (split; [assumption|]). assumption.
Qed.

Lemma graft_distinct :
  fi <> la /\ ~ In fi a /\ ~ In fi m /\ ~ In fi b /\ ~ In la a /\ ~ In la m /\ ~ In la b /\
  (forall x, In x a -> ~ In x m /\ ~ In x b) /\ (forall x, In x m -> ~ In x b) /\ NoDup a /\ NoDup m /\ NoDup b.
Proof.
  unfold L in ND. apply nodup_app in ND. destruct ND as (Na & N1 & D1).
  apply NoDup_cons_iff in N1. destruct N1 as [F1 N2].
  apply nodup_app in N2. destruct N2 as (Nm & N3 & D2).
  apply NoDup_cons_iff in N3. destruct N3 as [F3 Nb].
  rewrite in_app_iff in F1. cbn [In] in F1.
  assert (HA : forall x, In x a -> x <> fi /\ ~ In x m /\ x <> la /\ ~ In x b).
  { intros x Hx. pose proof (D1 x Hx) as Q. cbn [In] in Q. rewrite in_app_iff in Q. cbn [In] in Q.
    repeat split; intro; apply Q; subst; tauto. }
  assert (HM : forall x, In x m -> x <> la /\ ~ In x b).
  { intros x Hx. pose proof (D2 x Hx) as Q. cbn [In] in Q. split; intro; apply Q; subst; tauto. }
  split; [intro; subst; tauto|].
  split; [intro Hx; destruct (HA _ Hx); tauto|].
  split; [tauto|]. split; [tauto|].
  split; [intro Hx; destruct (HA _ Hx) as (_ & _ & ? & _); tauto|].
  split; [intro Hx; destruct (HM _ Hx); tauto|].
  split; [exact F3|].
  split; [intros x Hx; destruct (HA _ Hx); tauto|].
  split; [intros x Hx; destruct (HM _ Hx); tauto|].
  tauto.
Qed.


(* the mate fix-up and the tail fix-up of the function, each with a uniform description *)
Lemma mate_block h0 (z : bool) :
  valid h0 fi -> (z = false -> valid h0 mm) -> rd h0 c Fmt = Some mm -> c <> fi ->
  exists h', (if z then Some h0 else
              let? h1 := wr h0 fi Fmt 0 in let? cm := rd h1 c Fmt in wr h1 cm Fmt c) = Some h' /\
             length h' = length h0 /\
             forall j g, rd h' j g = if negb z && ((j =? mm) && feqb g Fmt) then Some c
                                     else if negb z && ((j =? fi) && feqb g Fmt) then Some 0 else rd h0 j g.
Proof.
  intros Vf Vm Hc Ncf. destruct z; cbn [negb andb].
  - exists h0. repeat split; reflexivity.
  - destruct (wr_ok h0 fi Fmt 0 Vf) as (h1 & E1 & L1 & R1). rewrite E1. cbn [obind].
    assert (X : rd h1 c Fmt = Some mm) by (rewrite R1; eqbs; exact Hc).
    rewrite X. cbn [obind].
    destruct (wr_ok h1 mm Fmt c) as (h2 & E2 & L2 & R2); [apply (valid_len h0); [exact L1|apply Vm; reflexivity]|].
    exists h2. split; [exact E2|]. split; [congruence|].
    intros j g. rewrite R2, R1. reflexivity.
Qed.

Lemma tail_block h0 (z : bool) w :
  valid h0 fi -> (z = true -> head_of h0 fi = Some w /\ valid h0 w) ->
  exists h', (if z then let? w := head_of h0 fi in let? h1 := wr h0 fi Ftl fi in wr h1 w Ftl fi else Some h0) = Some h' /\
             length h' = length h0 /\
             forall j g, rd h' j g = if z && ((j =? w) && feqb g Ftl) then Some fi
                                     else if z && ((j =? fi) && feqb g Ftl) then Some fi else rd h0 j g.
Proof.
  intros Vf Hw. destruct z; cbn [andb].
  - destruct (Hw eq_refl) as [E Vw]. rewrite E. cbn [obind].
    destruct (wr_ok h0 fi Ftl fi Vf) as (h1 & E1 & L1 & R1). rewrite E1. cbn [obind].
    destruct (wr_ok h1 w Ftl fi) as (h2 & E2 & L2 & R2); [apply (valid_len h0); assumption|].
    exists h2. split; [exact E2|]. split; [congruence|].
    intros j g. rewrite R2, R1. reflexivity.
  - exists h0. repeat split; reflexivity.
Qed.


Lemma last_nonempty_default {A} (l : list A) d d' : l <> [] -> List.last l d = List.last l d'.
Proof. destruct l as [|x l]; [congruence|]. intros _. apply last_cons_default. Qed.

Theorem prune_graft_spec :
  rd h (hd fi a) Ftl = Some (List.last b la) ->
  exists h', token_prune_graft h fi la ctype = Some h' /\ length h' = S (length h) /\
    (* the outer chain: first .. last replaced by first *)
    seg h' 0 (a ++ fi :: b) 0 /\ rd h' (hd fi a) Ftl = Some (List.last b fi) /\
    (* the container and its children: a copy of first, then the tokens up to last *)
    rd h' fi Fch = Some c /\ seg h' 0 (c :: m ++ [la]) 0 /\ rd h' c Ftl = Some la /\
    rd h' fi Fty = Some ctype /\ rd h' fi Fst = rd h fi Fst /\
    (forall s l s0, rd h la Fst = Some s -> rd h la Fln = Some l -> rd h fi Fst = Some s0 ->
                    rd h' fi Fln = Some (wsub (wadd s l) s0)) /\
    (forall g, g = Fty \/ g = Fst \/ g = Fln \/ g = Fch -> rd h' c g = rd h fi g) /\
    (* mates *)
    rd h' fi Fmt = Some 0 /\ rd h' c Fmt = Some mm /\ (mm <> 0 -> rd h' mm Fmt = Some c) /\
    (* everything else is untouched *)
    (forall j g, j <> fi -> j <> c -> ~ (j = la /\ g = Fnx) -> ~ (j = nm /\ g = Fpv) -> ~ (j = nb /\ g = Fpv) ->
                 ~ (j = hd fi a /\ g = Ftl) -> ~ (j = mm /\ g = Fmt) -> rd h' j g = rd h j g).
Proof.
  intro Htl.
  destruct graft_pieces as (Sa & Vf & Pf & Nf & Sm & Vl & Pl & Nl & Sb).
  destruct graft_distinct as (Nfl & Fa & Fm & Fb & La & Lm & Lb & Da & Dm & NDa & NDm & NDb).
  assert (Vnm : valid h nm).
  { unfold nm. destruct m as [|y m']; [exact Vl|]. cbn [hd]. cbn [seg] in Sm. tauto. }
  assert (Nnm_f : nm <> fi).
  { unfold nm. destruct m as [|y m']; cbn [hd]; [congruence|]. intro X. apply Fm. subst. left; reflexivity. }
  assert (Vnb : nb <> 0 -> valid h nb).
  { unfold nb. destruct b as [|y b']; cbn [hd]; [congruence|]. intros _. cbn [seg] in Sb. tauto. }
  assert (Ncf : c <> fi) by (apply not_eq_sym, valid_neq_fresh; exact Vf).
  assert (Ncl : c <> la) by (apply not_eq_sym, valid_neq_fresh; exact Vl).
  assert (Ncnm : c <> nm) by (apply not_eq_sym, valid_neq_fresh; exact Vnm).
  assert (Vmm : (mm =? 0) = false -> valid h mm).
  { intro E. apply N.eqb_neq in E. destruct Hmm as [|[? _]]; [contradiction|assumption]. }
  assert (Nmmf : (mm =? 0) = false -> mm <> fi).
  { intro E. apply N.eqb_neq in E. destruct Hmm as [|[_ ?]]; [contradiction|assumption]. }
  unfold token_prune_graft.
  destruct (N.eqb_spec fi 0) as [Z|_]; [destruct Vf; contradiction|].
  destruct (N.eqb_spec la 0) as [Z|_]; [destruct Vl; contradiction|]. cbn [orb].
  rewrite Nl. cbn [obind].
  destruct (tokat_valid h fi Vf) as [tf Etf].
  unfold token_copy. rewrite Etf. cbn [obind]. fold c.
  pose proof (rd_alloc h tf) as R0.
  assert (Gf : forall g, rd h fi g = Some (getf tf g)) by (intro g; apply tokat_rd; exact Etf).
  assert (L0 : length (h ++ [tf]) = S (length h)) by (rewrite app_length; cbn; lia).
  assert (Vc0 : valid (h ++ [tf]) c) by apply valid_app_new.
  set (h0 := h ++ [tf]) in *.
  wr_step h1 L1 R1; [exact Vc0|].
  wr_step h2 L2 R2; [vld|].
  assert (X : rd h2 c Fnx = Some nm).
  { rdeval. fold c. eqbs. rewrite <- Gf. exact Nf. }
  rewrite X. cbn [obind]. clear X.
  destruct (N.eqb_spec nm 0) as [Z|_]; [destruct Vnm; contradiction|].
  wr_step h3 L3 R3; [vld|].
  destruct (N.eqb_spec fi la) as [Z|_]; [contradiction|].
  wr_step h4 L4 R4; [vld|].
  wr_step h5 L5 R5; [vld|].
  fold c in R0.
  destruct (rd_valid h la Fst Vl) as [ls Els]. destruct (rd_valid h la Fln Vl) as [ll Ell].
  destruct (rd_valid h fi Fst Vf) as [fs Efs].
  replace (rd h5 la Fst) with (Some ls) by (rdeval; symmetry; exact Els).
  replace (rd h5 la Fln) with (Some ll) by (rdeval; symmetry; exact Ell).
  replace (rd h5 fi Fst) with (Some fs) by (rdeval; symmetry; exact Efs).
  cbn [obind].
  wr_step h6 L6 R6; [vld|].
  wr_step h7 L7 R7; [vld|].
  replace (rd h7 fi Fmt) with (Some mm) by (rdeval; symmetry; exact Hmt).
  cbn [obind].
  destruct (mate_block h7 (mm =? 0)) as (h8 & E8 & L8 & R8).
  { vld. } { intro E. specialize (Vmm E). vld. } { rdeval. rewrite <- Gf. exact Hmt. } { exact Ncf. }
  rewrite E8. cbn [obind]. clear E8.
  wr_step h9 L9 R9; [vld|].
  destruct (opt_wr (nb =? 0) h9 nb Fpv fi) as (h10 & E10 & L10 & R10).
  { intro E. apply N.eqb_neq in E. specialize (Vnb E). vld. }
  rewrite E10. cbn [obind]. clear E10.
  (* membership facts *)
  assert (Nb_cases : nb = 0 \/ In nb b) by (unfold nb; destruct b; [left; reflexivity|right; left; reflexivity]).
  assert (Nm_cases : nm = la /\ m = [] \/ In nm m) by (unfold nm; destruct m; [left; split; reflexivity|right; left; reflexivity]).
  assert (Nfnb : fi <> nb) by (intro X; destruct Nb_cases as [Z|I]; [destruct Vf; congruence|apply Fb; rewrite X; exact I]).
  assert (Nlnb : la <> nb) by (intro X; destruct Nb_cases as [Z|I]; [destruct Vl; congruence|apply Lb; rewrite X; exact I]).
  assert (Ncnb : c <> nb).
  { intro X. destruct Nb_cases as [Z|I]; [unfold c, fresh in X; lia|].
    apply (fresh_not_valid h). fold c. rewrite X. eapply seg_valid; [exact Sb|exact I]. }
  assert (Nnmnb : nm <> nb).
  { intro X. destruct Nm_cases as [[E _]|I]; [congruence|].
    destruct Nb_cases as [Z|I']; [destruct Vnm; congruence|]. apply (Dm nm I). rewrite X. exact I'. }
  assert (Ha : forall y, In y a -> y <> c /\ y <> fi /\ y <> la /\ y <> nm /\ y <> nb).
  { intros y Hy. pose proof (seg_valid _ _ _ _ _ Sa Hy) as Vy.
    split; [apply valid_neq_fresh; exact Vy|]. split; [intro X; rewrite X in Hy; contradiction|]. split; [intro X; rewrite X in Hy; contradiction|].
    destruct (Da y Hy) as [D1 D2]. split.
    - intro X. destruct Nm_cases as [[E _]|I]; [rewrite X, E in Hy; contradiction|rewrite <- X in I; contradiction].
    - intro X. destruct Nb_cases as [Z|I]; [destruct Vy as [Vy0 _]; apply Vy0; congruence|rewrite <- X in I; contradiction]. }
  assert (Hm' : forall y, In y m -> y <> c /\ y <> fi /\ y <> la /\ y <> nb).
  { intros y Hy. pose proof (seg_valid _ _ _ _ _ Sm Hy) as Vy.
    split; [apply valid_neq_fresh; exact Vy|]. split; [intro X; rewrite X in Hy; contradiction|]. split; [intro X; rewrite X in Hy; contradiction|].
    intro X. destruct Nb_cases as [Z|I]; [destruct Vy as [Vy0 _]; apply Vy0; congruence|]. apply (Dm y Hy). rewrite X. exact I. }
  assert (Hb : forall y, In y b -> y <> c /\ y <> fi /\ y <> la /\ y <> nm).
  { intros y Hy. pose proof (seg_valid _ _ _ _ _ Sb Hy) as Vy.
    split; [apply valid_neq_fresh; exact Vy|]. split; [intro X; rewrite X in Hy; contradiction|]. split; [intro X; rewrite X in Hy; contradiction|].
    intro X. destruct Nm_cases as [[E _]|I]; [rewrite X, E in Hy; contradiction|]. apply (Dm nm I). rewrite <- X. exact Hy. }
  replace (rd h10 fi Fnx) with (Some nb) by (rdeval; reflexivity).
  cbn [obind].
  assert (Sa10 : seg h10 0 a fi).
  { eapply seg_frame; [| |exact Sa]; [intros y _ Vy; vld|].
    intros y Hy. destruct (Ha y Hy) as (? & ? & ? & ? & ?). split; rdeval; reflexivity. }
  assert (Pf10 : rd h10 fi Fpv = Some (List.last a 0)) by (rdeval; exact Pf).
  destruct (tail_block h10 (nb =? 0) (hd fi a)) as (h11 & E11 & L11 & R11).
  { vld. }
  { intros _. split.
    - unfold head_of. replace (hd fi a) with (hd fi a) by reflexivity.
      apply (walk_prev h10 (fuel_of h10) a fi [] nb).
      + apply seg_app. split; [exact Sa10|]. cbn [seg]. split; [vld|]. split; [exact Pf10|]. split; [rdeval; reflexivity|exact I].
      + unfold fuel_of. pose proof (seg_length _ _ _ _ NDa Sa). vld.
    - destruct a as [|y a']; cbn [hd]; [vld|]. cbn [seg] in Sa. destruct Sa as (Vy & _). vld. }
  rewrite E11. clear E11.
  exists h11. split; [reflexivity|]. split; [vld|].
  assert (VV : forall y, valid h y -> valid h11 y) by (intros y Vy; vld).
  assert (Vc : valid h11 c) by vld.
  (* 1. the outer chain *)
  split.
  { apply seg_app. cbn [hd]. split.
    - eapply seg_frame; [| |exact Sa]; [intros y _ Vy; apply VV, Vy|].
      intros y Hy. destruct (Ha y Hy) as (? & ? & ? & ? & ?). split; rdeval; reflexivity.
    - cbn [seg]. split; [apply VV, Vf|]. split; [rdeval; exact Pf|]. split; [rdeval; reflexivity|].
      destruct b as [|y b']; [exact I|].
      eapply seg_change_pv; [exact Sb| | | |].
      + intros z _ Vz. apply VV, Vz.
      + change y with nb. assert (Z : (nb =? 0) = false) by (apply N.eqb_neq; intro Z; apply Vnb in Z; [|unfold nb; cbn; destruct (seg_valid _ _ _ _ _ Sb (or_introl eq_refl)); assumption]; unfold nb in *; cbn [hd] in *; destruct Z; contradiction).
        rdeval. rewrite Z. cbn [negb andb]. rdeval. reflexivity.
      + destruct (Hb y (or_introl eq_refl)) as (? & ? & ? & ?). rdeval. reflexivity.
      + intros z Hz. destruct (Hb z (or_intror Hz)) as (? & ? & ? & ?).
        assert (z <> nb) by (unfold nb; cbn [hd]; intro X; rewrite X in Hz; inversion NDb; contradiction).
        split; rdeval; reflexivity. }
  assert (Vhd : valid h (hd fi a)).
  { destruct a as [|y a']; cbn [hd]; [exact Vf|]. cbn [seg] in Sa. tauto. }
  assert (Nhdc : hd fi a <> c) by (apply valid_neq_fresh; exact Vhd).
  (* 2. the tail recorded at the head of the outer chain *)
  split.
  { destruct b as [|y b'].
    - assert (Z : (nb =? 0) = true) by reflexivity.
      rewrite R11, Z, N.eqb_refl. reflexivity.
    - assert (Z : (nb =? 0) = false).
      { apply N.eqb_neq. unfold nb. cbn [hd]. destruct (seg_valid _ _ _ _ _ Sb (or_introl eq_refl)); assumption. }
      rdrw. rewrite Z. cbn [andb]. eqbs. rewrite Htl. f_equal. apply last_nonempty_default. discriminate. }
  (* 3. child pointer *)
  split; [rdeval; reflexivity|].
  (* 4. the chain of children *)
  split.
  { cbn [seg]. split; [exact Vc|]. split; [rdeval; reflexivity|].
    split; [rewrite hd_app_cons; fold nm; rdeval; rewrite <- Gf; exact Nf|].
    apply seg_app. cbn [hd]. split.
    - destruct m as [|y m']; [exact I|].
      eapply seg_change_pv; [exact Sm| | | |].
      + intros z _ Vz. apply VV, Vz.
      + change y with nm. rdeval. reflexivity.
      + destruct (Hm' y (or_introl eq_refl)) as (? & ? & ? & ?). rdeval. reflexivity.
      + intros z Hz. destruct (Hm' z (or_intror Hz)) as (? & ? & ? & ?).
        assert (z <> nm) by (unfold nm; cbn [hd]; intro X; rewrite X in Hz; inversion NDm; contradiction).
        split; rdeval; reflexivity.
    - cbn [seg]. split; [apply VV, Vl|]. split; [|split; [rdeval; reflexivity|exact I]].
      destruct m as [|y m'].
      + change la with nm at 1. cbn [List.last]. rdeval. reflexivity.
      + assert (la <> nm) by (unfold nm; cbn [hd]; intro X; apply Lm; rewrite X; left; reflexivity).
        rdeval. rewrite Pl. f_equal. apply last_nonempty_default. discriminate. }
  (* 5. tail of the children, kind, start, length of the container *)
  split; [rdeval; reflexivity|].
  split; [rdeval; reflexivity|].
  split; [rdeval; reflexivity|].
  split.
  { intros s l s0 Hs Hl Hs0. rdeval. congruence. }
  (* 6. the first child is a copy of the old first token *)
  split.
  { intros g [ -> | [ -> | [ -> | -> ] ] ]; rdeval; rewrite Gf; reflexivity. }
  (* 7. mates *)
  destruct (N.eqb_spec mm 0) as [Zm|Zm].
  - split; [rdeval; rewrite Hmt, Zm; reflexivity|].
    split; [rdeval; rewrite <- Gf; exact Hmt|].
    split; [intro X; contradiction|].
    intros j g H1 H2 H3 H4 H5 H6 H7. rdrw.
    rewrite (if_not2 _ j (hd fi a) g Ftl) by exact H6. rewrite (if_not2 _ j nb g Fpv) by exact H5.
    rewrite (if_not j la g Fnx) by exact H3. rewrite (if_not j nm g Fpv) by exact H4. eqbs. reflexivity.
  - assert (Vm : valid h mm) by (destruct Hmm as [|[? _]]; [contradiction|assumption]).
    assert (Nmf : mm <> fi) by (destruct Hmm as [|[_ ?]]; [contradiction|assumption]).
    assert (Nmc : mm <> c) by (apply valid_neq_fresh; exact Vm).
    split; [rdeval; reflexivity|].
    split; [rdeval; rewrite <- Gf; exact Hmt|].
    split; [intros _; rdeval; reflexivity|].
    intros j g H1 H2 H3 H4 H5 H6 H7. rdrw.
    rewrite (if_not2 _ j (hd fi a) g Ftl) by exact H6. rewrite (if_not2 _ j nb g Fpv) by exact H5.
    rewrite (if_not2 _ j mm g Fmt) by exact H7.
    rewrite (if_not j la g Fnx) by exact H3. rewrite (if_not j nm g Fpv) by exact H4. eqbs. reflexivity.
Qed.
End Graft.

(* ---- token_split(t, start, len, type): the span of t is cut into up to three tokens that tile it *)

Section Split.
Variables (h : heap) (p t : N) (l r : list N).
Variables (ts tlen tty start len ntype : N).
Hypothesis HS : seg h p (l ++ t :: r) 0.
Hypothesis ND : NoDup (l ++ t :: r).
Hypothesis Hst : rd h t Fst = Some ts.
Hypothesis Hln : rd h t Fln = Some tlen.
Hypothesis Hty : rd h t Fty = Some tty.
Hypothesis NoWrap : ts + tlen < W.
Hypothesis Inside1 : ts <= start.
Hypothesis Inside2 : start + len <= ts + tlen.

Let a := fresh h.
Let a2 := fresh h + 1.
Let nr := hd 0 r.

Lemma split_pieces :
  seg h p l t /\ valid h t /\ rd h t Fpv = Some (List.last l p) /\ rd h t Fnx = Some nr /\ seg h t r 0 /\
  ~ In t l /\ ~ In t r /\ (nr <> 0 -> valid h nr /\ nr <> t) /\ (forall y, In y l -> y <> nr).
Proof.
  apply seg_app in HS. cbn [hd] in HS. destruct HS as [Sl S1]. cbn [seg] in S1. destruct S1 as (Vt & Pt & Nt & Sr).
  apply nodup_mid in ND. destruct ND as (Tl & Tr & NDlr).
  repeat (split; [assumption|]). split.
  - intro Z. unfold nr in *. destruct r as [|y r']; cbn [hd] in *; [congruence|]. cbn [seg] in Sr.
    split; [tauto|]. intro X. apply Tr. rewrite <- X. left; reflexivity.
  - intros y Hy X. unfold nr in X. destruct r as [|z r']; cbn [hd] in X.
    + pose proof (seg_valid _ _ _ _ _ Sl Hy) as [V0 _]. congruence.
    + apply nodup_app in NDlr. destruct NDlr as (_ & _ & D). apply (D y Hy). rewrite X. left; reflexivity.
Qed.

(* both a leading and a trailing remainder: t -> [t' ; A ; T2] *)
Theorem split_both :
  ts < start -> start + len < ts + tlen ->
  exists h', token_split h t start len ntype = Some h' /\ length h' = S (S (length h)) /\
    seg h' p (l ++ t :: a :: a2 :: r) 0 /\
    rd h' t Fst = Some ts /\ rd h' t Fln = Some (start - ts) /\ rd h' t Fty = Some tty /\
    rd h' a Fst = Some start /\ rd h' a Fln = Some len /\ rd h' a Fty = Some ntype /\
    rd h' a2 Fst = Some (start + len) /\ rd h' a2 Fln = Some (ts + tlen - (start + len)) /\ rd h' a2 Fty = Some tty /\
    rd h' a Fmt = Some 0 /\ rd h' a2 Fmt = Some 0 /\
    (forall j g, j <> a -> j <> a2 -> ~ (j = t /\ g = Fnx) -> ~ (j = t /\ g = Fln) -> ~ (j = nr /\ g = Fpv) -> rd h' j g = rd h j g).
Proof.
  intros B1 B2.
  destruct split_pieces as (Sl & Vt & Pt & Nt & Sr & Tl & Tr & Vnr & Lnr).
  assert (Nta : t <> a) by (apply valid_neq_fresh; exact Vt).
  assert (Nta2 : t <> a2) by (unfold a2, fresh; destruct Vt; lia).
  assert (Naa2 : a <> a2) by (unfold a, a2; lia).
  unfold token_split.
  destruct (N.eqb_spec t 0) as [Z|_]; [destruct Vt; contradiction|].
  rewrite Hst, Hln. cbn [obind].
  assert (E1 : wadd start len = start + len) by (apply wadd_small; lia).
  assert (E2 : wadd ts tlen = ts + tlen) by (apply wadd_small; lia).
  rewrite E1, E2.
  destruct (N.ltb_spec start ts) as [X|_]; [lia|].
  destruct (N.ltb_spec (ts + tlen) (start + len)) as [X|_]; [lia|].
  destruct (N.ltb_spec ts start) as [_|X]; [|lia].
  destruct (N.ltb_spec (start + len) (ts + tlen)) as [_|X]; [|lia].
  unfold token_new at 1. cbn [fst snd]. fold a.
  pose proof (rd_alloc h (mktk ntype start len 0 0 0 a 0)) as R0. fold a in R0.
  assert (L0 : length (h ++ [mktk ntype start len 0 0 0 a 0]) = S (length h)) by (rewrite app_length; cbn; lia).
  set (h0 := h ++ [mktk ntype start len 0 0 0 a 0]) in *.
  replace (rd h0 t Fty) with (Some tty) by (rdeval; symmetry; exact Hty). cbn [obind].
  unfold token_new at 1. cbn [fst snd].
  assert (F0 : fresh h0 = a2) by (unfold a2, fresh, Nlen; rewrite L0; lia).
  rewrite F0.
  pose proof (rd_alloc h0 (mktk tty (start + len) (wsub (ts + tlen) (start + len)) 0 0 0 a2 0)) as R0'. rewrite F0 in R0'.
  assert (L0' : length (h0 ++ [mktk tty (start + len) (wsub (ts + tlen) (start + len)) 0 0 0 a2 0]) = S (S (length h))) by (rewrite app_length; cbn; lia).
  set (h0' := h0 ++ [mktk tty (start + len) (wsub (ts + tlen) (start + len)) 0 0 0 a2 0]) in *.
  replace (rd h0' t Fnx) with (Some nr) by (rdeval; symmetry; exact Nt). cbn [obind].
  assert (Va : valid h0' a) by (unfold a; vld).
  assert (Va2 : valid h0' a2) by (unfold a2; vld).
  assert (Vt' : valid h0' t) by vld.
  wr_step h1 L1 R1; [exact Va2|].
  destruct (opt_wr (nr =? 0) h1 nr Fpv a2) as (h2 & E & L2 & R2).
  { intro Z. apply N.eqb_neq in Z. destruct (Vnr Z) as [V _]. vld. }
  rewrite E. cbn [obind]. clear E.
  wr_step h3 L3 R3; [vld|].
  wr_step h4 L4 R4; [vld|].
  wr_step h5 L5 R5; [vld|].
  wr_step h6 L6 R6; [vld|].
  wr_step h7 L7 R7; [vld|].
  exists h7. split; [reflexivity|]. split; [vld|].
  assert (VV : forall y, valid h y -> valid h7 y) by (intros y Vy; vld).
  assert (Nnra : nr <> 0 -> nr <> a /\ nr <> a2).
  { intro Z. destruct (Vnr Z) as [V _]. split; [apply valid_neq_fresh; exact V|unfold a2, fresh; destruct V; lia]. }
  assert (Ntnr : t <> nr).
  { destruct (N.eq_dec nr 0) as [Z|Z]; [rewrite Z; destruct Vt; assumption|]. destruct (Vnr Z) as [_ ?]. apply not_eq_sym. assumption. }
  split.
  { apply seg_app. cbn [hd]. split.
    - eapply seg_frame; [| |exact Sl]; [intros y _ Vy; apply VV, Vy|].
      intros y Hy. pose proof (seg_valid _ _ _ _ _ Sl Hy) as Vy.
      assert (y <> t) by (intro X; rewrite X in Hy; contradiction).
      assert (y <> a) by (apply valid_neq_fresh; exact Vy).
      assert (y <> a2) by (unfold a2, fresh; destruct Vy; lia).
      pose proof (Lnr y Hy). split; fin.
    - cbn [seg]. split; [apply VV, Vt|]. split; [fin; exact Pt|]. split; [fin|].
      split; [vld|]. split; [fin|]. split; [fin|].
      split; [unfold a2, fresh; vld|]. split; [fin|]. split; [fin; fold nr; reflexivity|].
      destruct r as [|y r']; [exact I|].
      assert (Z : nr <> 0) by (unfold nr; cbn [hd]; destruct (seg_valid _ _ _ _ _ Sr (or_introl eq_refl)); assumption).
      destruct (Nnra Z). destruct (Vnr Z) as [_ ?].
      eapply seg_change_pv; [exact Sr| | | |].
      + intros z _ Vz. apply VV, Vz.
      + change y with nr. rdrw. rewrite (proj2 (N.eqb_neq nr 0) Z). eqbs. reflexivity.
      + change y with nr. fin.
      + intros z Hz. pose proof (seg_valid _ _ _ _ _ Sr (or_intror Hz)) as Vz.
        assert (z <> t) by (intro X; apply Tr; rewrite <- X; right; exact Hz).
        assert (z <> a) by (apply valid_neq_fresh; exact Vz).
        assert (z <> a2) by (unfold a2, fresh; destruct Vz; lia).
        assert (z <> nr).
        { unfold nr; cbn [hd]. intro X. apply nodup_mid in ND. destruct ND as (_ & _ & NDlr). apply nodup_app in NDlr.
          destruct NDlr as (_ & NDr & _). inversion NDr. subst. contradiction. }
        split; fin. }
  assert (Na2a : a2 <> a) by (apply not_eq_sym; exact Naa2).
  split; [fin; exact Hst|].
  split; [fin; f_equal; apply wsub_small; lia|].
  split; [fin; exact Hty|].
  split; [fin|]. split; [fin|]. split; [fin|].
  split; [fin|]. split; [fin; f_equal; apply wsub_small; lia|]. split; [fin|].
  split; [fin|]. split; [fin|].
  intros j g H1 H2 H3 H4 H5. frame_tac.
Qed.

(* only a leading remainder: t -> [t' ; A] *)
Theorem split_start :
  ts < start -> start + len = ts + tlen ->
  exists h', token_split h t start len ntype = Some h' /\ length h' = S (length h) /\
    seg h' p (l ++ t :: a :: r) 0 /\
    rd h' t Fst = Some ts /\ rd h' t Fln = Some (start - ts) /\ rd h' t Fty = Some tty /\
    rd h' a Fst = Some start /\ rd h' a Fln = Some len /\ rd h' a Fty = Some ntype /\ rd h' a Fmt = Some 0 /\
    (forall j g, j <> a -> ~ (j = t /\ g = Fnx) -> ~ (j = t /\ g = Fln) -> ~ (j = nr /\ g = Fpv) -> rd h' j g = rd h j g).
Proof.
  intros B1 B2.
  destruct split_pieces as (Sl & Vt & Pt & Nt & Sr & Tl & Tr & Vnr & Lnr).
  assert (Nta : t <> a) by (apply valid_neq_fresh; exact Vt).
  unfold token_split.
  destruct (N.eqb_spec t 0) as [Z|_]; [destruct Vt; contradiction|].
  rewrite Hst, Hln. cbn [obind].
  assert (E1 : wadd start len = start + len) by (apply wadd_small; lia).
  assert (E2 : wadd ts tlen = ts + tlen) by (apply wadd_small; lia).
  rewrite E1, E2.
  destruct (N.ltb_spec start ts) as [X|_]; [lia|].
  destruct (N.ltb_spec (ts + tlen) (start + len)) as [X|_]; [lia|].
  destruct (N.ltb_spec ts start) as [_|X]; [|lia].
  destruct (N.ltb_spec (start + len) (ts + tlen)) as [X|_]; [lia|].
  unfold token_new at 1. cbn [fst snd]. fold a.
  pose proof (rd_alloc h (mktk ntype start len 0 0 0 a 0)) as R0. fold a in R0.
  assert (L0 : length (h ++ [mktk ntype start len 0 0 0 a 0]) = S (length h)) by (rewrite app_length; cbn; lia).
  set (h0 := h ++ [mktk ntype start len 0 0 0 a 0]) in *.
  replace (rd h0 t Fnx) with (Some nr) by (rdeval; symmetry; exact Nt). cbn [obind].
  assert (Va : valid h0 a) by (unfold a; vld).
  assert (Ntnr : t <> nr).
  { destruct (N.eq_dec nr 0) as [Z|Z]; [rewrite Z; destruct Vt; assumption|]. destruct (Vnr Z) as [_ ?]. apply not_eq_sym. assumption. }
  assert (Nnra : nr <> 0 -> nr <> a) by (intro Z; destruct (Vnr Z) as [V _]; apply valid_neq_fresh; exact V).
  assert (Nanr : a <> nr).
  { destruct (N.eq_dec nr 0) as [Z|Z]; [rewrite Z; unfold a, fresh; lia|]. apply not_eq_sym, Nnra, Z. }
  wr_step h1 L1 R1; [exact Va|].
  destruct (opt_wr (nr =? 0) h1 nr Fpv a) as (h2 & E & L2 & R2).
  { intro Z. apply N.eqb_neq in Z. destruct (Vnr Z) as [V _]. vld. }
  rewrite E. cbn [obind]. clear E.
  wr_step h3 L3 R3; [vld|].
  wr_step h4 L4 R4; [vld|].
  wr_step h5 L5 R5; [vld|].
  exists h5. split; [reflexivity|]. split; [vld|].
  assert (VV : forall y, valid h y -> valid h5 y) by (intros y Vy; vld).
  split.
  { apply seg_app. cbn [hd]. split.
    - eapply seg_frame; [| |exact Sl]; [intros y _ Vy; apply VV, Vy|].
      intros y Hy. pose proof (seg_valid _ _ _ _ _ Sl Hy) as Vy.
      assert (y <> t) by (intro X; rewrite X in Hy; contradiction).
      assert (y <> a) by (apply valid_neq_fresh; exact Vy).
      pose proof (Lnr y Hy). split; fin.
    - cbn [seg]. split; [apply VV, Vt|]. split; [fin; exact Pt|]. split; [fin|].
      split; [vld|]. split; [fin|]. split; [fin; fold nr; reflexivity|].
      destruct r as [|y r']; [exact I|].
      assert (Z : nr <> 0) by (unfold nr; cbn [hd]; destruct (seg_valid _ _ _ _ _ Sr (or_introl eq_refl)); assumption).
      pose proof (Nnra Z). destruct (Vnr Z) as [_ ?].
      eapply seg_change_pv; [exact Sr| | | |].
      + intros z _ Vz. apply VV, Vz.
      + change y with nr. rdrw. rewrite (proj2 (N.eqb_neq nr 0) Z). eqbs. reflexivity.
      + change y with nr. fin.
      + intros z Hz. pose proof (seg_valid _ _ _ _ _ Sr (or_intror Hz)) as Vz.
        assert (z <> t) by (intro X; apply Tr; rewrite <- X; right; exact Hz).
        assert (z <> a) by (apply valid_neq_fresh; exact Vz).
        assert (z <> nr).
        { unfold nr; cbn [hd]. intro X. apply nodup_mid in ND. destruct ND as (_ & _ & NDlr). apply nodup_app in NDlr.
          destruct NDlr as (_ & NDr & _). inversion NDr. subst. contradiction. }
        split; fin. }
  split; [fin; exact Hst|].
  split; [fin; f_equal; apply wsub_small; lia|].
  split; [fin; exact Hty|].
  split; [fin|]. split; [fin|]. split; [fin|].
  split; [fin|].
  intros j g H1 H2 H3 H4. frame_tac.
Qed.

(* only a trailing remainder: t keeps the head (with the new kind), A is the rest (with the old kind) *)
Theorem split_stop :
  ts = start -> start + len < ts + tlen ->
  exists h', token_split h t start len ntype = Some h' /\ length h' = S (length h) /\
    seg h' p (l ++ t :: a :: r) 0 /\
    rd h' t Fst = Some ts /\ rd h' t Fln = Some len /\ rd h' t Fty = Some ntype /\
    rd h' a Fst = Some (start + len) /\ rd h' a Fln = Some (ts + tlen - (start + len)) /\ rd h' a Fty = Some tty /\ rd h' a Fmt = Some 0 /\
    (forall j g, j <> a -> ~ (j = t /\ g = Fnx) -> ~ (j = t /\ g = Fln) -> ~ (j = t /\ g = Fty) -> ~ (j = nr /\ g = Fpv) -> rd h' j g = rd h j g).
Proof.
  intros B1 B2.
  destruct split_pieces as (Sl & Vt & Pt & Nt & Sr & Tl & Tr & Vnr & Lnr).
  assert (Nta : t <> a) by (apply valid_neq_fresh; exact Vt).
  unfold token_split.
  destruct (N.eqb_spec t 0) as [Z|_]; [destruct Vt; contradiction|].
  rewrite Hst, Hln. cbn [obind].
  assert (E1 : wadd start len = start + len) by (apply wadd_small; lia).
  assert (E2 : wadd ts tlen = ts + tlen) by (apply wadd_small; lia).
  rewrite E1, E2.
  destruct (N.ltb_spec start ts) as [X|_]; [lia|].
  destruct (N.ltb_spec (ts + tlen) (start + len)) as [X|_]; [lia|].
  destruct (N.ltb_spec ts start) as [X|_]; [lia|].
  destruct (N.ltb_spec (start + len) (ts + tlen)) as [_|X]; [|lia].
  rewrite Hty. cbn [obind].
  unfold token_new at 1. cbn [fst snd]. fold a.
  pose proof (rd_alloc h (mktk tty (start + len) (wsub (ts + tlen) (start + len)) 0 0 0 a 0)) as R0. fold a in R0.
  assert (L0 : length (h ++ [mktk tty (start + len) (wsub (ts + tlen) (start + len)) 0 0 0 a 0]) = S (length h)) by (rewrite app_length; cbn; lia).
  set (h0 := h ++ [mktk tty (start + len) (wsub (ts + tlen) (start + len)) 0 0 0 a 0]) in *.
  assert (Va : valid h0 a) by (unfold a; vld).
  assert (Ntnr : t <> nr).
  { destruct (N.eq_dec nr 0) as [Z|Z]; [rewrite Z; destruct Vt; assumption|]. destruct (Vnr Z) as [_ ?]. apply not_eq_sym. assumption. }
  assert (Nnra : nr <> 0 -> nr <> a) by (intro Z; destruct (Vnr Z) as [V _]; apply valid_neq_fresh; exact V).
  assert (Nanr : a <> nr).
  { destruct (N.eq_dec nr 0) as [Z|Z]; [rewrite Z; unfold a, fresh; lia|]. apply not_eq_sym, Nnra, Z. }
  wr_step h1 L1 R1; [exact Va|].
  replace (rd h1 t Fnx) with (Some nr) by (rdeval; symmetry; exact Nt). cbn [obind].
  wr_step h2 L2 R2; [vld|].
  wr_step h3 L3 R3; [vld|].
  replace (rd h3 a Fnx) with (Some nr) by (rdeval; reflexivity). cbn [obind].
  destruct (opt_wr (nr =? 0) h3 nr Fpv a) as (h4 & E & L4 & R4).
  { intro Z. apply N.eqb_neq in Z. destruct (Vnr Z) as [V _]. vld. }
  rewrite E. cbn [obind]. clear E.
  wr_step h5 L5 R5; [vld|].
  wr_step h6 L6 R6; [vld|].
  exists h6. split; [reflexivity|]. split; [vld|].
  assert (VV : forall y, valid h y -> valid h6 y) by (intros y Vy; vld).
  split.
  { apply seg_app. cbn [hd]. split.
    - eapply seg_frame; [| |exact Sl]; [intros y _ Vy; apply VV, Vy|].
      intros y Hy. pose proof (seg_valid _ _ _ _ _ Sl Hy) as Vy.
      assert (y <> t) by (intro X; rewrite X in Hy; contradiction).
      assert (y <> a) by (apply valid_neq_fresh; exact Vy).
      pose proof (Lnr y Hy). split; fin.
    - cbn [seg]. split; [apply VV, Vt|]. split; [fin; exact Pt|]. split; [fin|].
      split; [vld|]. split; [fin|]. split; [fin; fold nr; reflexivity|].
      destruct r as [|y r']; [exact I|].
      assert (Z : nr <> 0) by (unfold nr; cbn [hd]; destruct (seg_valid _ _ _ _ _ Sr (or_introl eq_refl)); assumption).
      pose proof (Nnra Z). destruct (Vnr Z) as [_ ?].
      eapply seg_change_pv; [exact Sr| | | |].
      + intros z _ Vz. apply VV, Vz.
      + change y with nr. rdrw. rewrite (proj2 (N.eqb_neq nr 0) Z). eqbs. reflexivity.
      + change y with nr. fin.
      + intros z Hz. pose proof (seg_valid _ _ _ _ _ Sr (or_intror Hz)) as Vz.
        assert (z <> t) by (intro X; apply Tr; rewrite <- X; right; exact Hz).
        assert (z <> a) by (apply valid_neq_fresh; exact Vz).
        assert (z <> nr).
        { unfold nr; cbn [hd]. intro X. apply nodup_mid in ND. destruct ND as (_ & _ & NDlr). apply nodup_app in NDlr.
          destruct NDlr as (_ & NDr & _). inversion NDr. subst. contradiction. }
        split; fin. }
  split; [fin; exact Hst|].
  split; [fin; f_equal; rewrite wsub_small by lia; lia|].
  split; [fin|].
  split; [fin|]. split; [fin; f_equal; apply wsub_small; lia|]. split; [fin|].
  split; [fin|].
  intros j g H1 H2 H3 H4 H5. frame_tac.
Qed.

(* the requested range is the whole token: only the kind changes *)
Theorem split_none :
  ts = start -> start + len = ts + tlen ->
  exists h', token_split h t start len ntype = Some h' /\ length h' = length h /\
    rd h' t Fty = Some ntype /\ (forall j g, ~ (j = t /\ g = Fty) -> rd h' j g = rd h j g).
Proof.
  intros B1 B2.
  destruct split_pieces as (Sl & Vt & Pt & Nt & Sr & Tl & Tr & Vnr & Lnr).
  unfold token_split.
  destruct (N.eqb_spec t 0) as [Z|_]; [destruct Vt; contradiction|].
  rewrite Hst, Hln. cbn [obind].
  assert (E1 : wadd start len = start + len) by (apply wadd_small; lia).
  assert (E2 : wadd ts tlen = ts + tlen) by (apply wadd_small; lia).
  rewrite E1, E2.
  destruct (N.ltb_spec start ts) as [X|_]; [lia|].
  destruct (N.ltb_spec (ts + tlen) (start + len)) as [X|_]; [lia|].
  destruct (N.ltb_spec ts start) as [X|_]; [lia|].
  destruct (N.ltb_spec (start + len) (ts + tlen)) as [X|_]; [lia|].
  wr_step h1 L1 R1; [exact Vt|].
  exists h1. split; [reflexivity|]. split; [exact L1|]. split; [fin|].
  intros j g F. rdrw. rewrite if_not by exact F. reflexivity.
Qed.

End Split.

(* a range that is not inside the token leaves everything as it is *)
Theorem split_outside h t ts tlen start len ntype :
  rd h t Fst = Some ts -> rd h t Fln = Some tlen -> ts + tlen < W -> start + len < W ->
  start < ts \/ ts + tlen < start + len -> token_split h t start len ntype = Some h.
Proof.
  intros Hst Hln NW1 NW2 B.
  pose proof (rd_some_valid _ _ _ _ Hst) as Vt.
  unfold token_split.
  destruct (N.eqb_spec t 0) as [Z|_]; [destruct Vt; contradiction|].
  rewrite Hst, Hln. cbn [obind].
  assert (E1 : wadd start len = start + len) by (apply wadd_small; lia).
  assert (E2 : wadd ts tlen = ts + tlen) by (apply wadd_small; lia).
  rewrite E1, E2.
  destruct (N.ltb_spec start ts) as [X|X]; [reflexivity|].
  destruct (N.ltb_spec (ts + tlen) (start + len)) as [Y|Y]; [reflexivity|]. lia.
Qed.

(* ---- token_new_parent(child, type): a new token above a chain; its span runs from the start of the
   first child to the end of the last one *)

Theorem new_parent_spec h p0 x r ptype sx :
  seg h p0 (x :: r) 0 -> NoDup (x :: r) -> rd h x Fst = Some sx ->
  exists h' el ll, token_new_parent h x ptype = Some (h', fresh h) /\ length h' = S (length h) /\
    rd h (List.last r x) Fst = Some el /\ rd h (List.last r x) Fln = Some ll /\
    seg h' 0 (x :: r) 0 /\
    rd h' (fresh h) Fch = Some x /\ rd h' (fresh h) Fty = Some ptype /\ rd h' (fresh h) Fst = Some sx /\
    rd h' (fresh h) Fln = Some (match r with [] => ll | _ => wsub (wadd el ll) sx end) /\
    rd h' (fresh h) Fnx = Some 0 /\ rd h' (fresh h) Fpv = Some 0 /\ rd h' (fresh h) Ftl = Some (fresh h) /\ rd h' (fresh h) Fmt = Some 0 /\
    (forall j g, j <> fresh h -> ~ (j = x /\ g = Fpv) -> rd h' j g = rd h j g).
Proof.
  intros HS ND Hsx.
  set (t := fresh h).
  assert (Vx : valid h x) by (cbn [seg] in HS; tauto).
  assert (Ve : valid h (List.last r x)) by (eapply seg_valid; [exact HS|apply last_in_cons]).
  destruct (rd_valid h _ Fst Ve) as [el Eel]. destruct (rd_valid h _ Fln Ve) as [ll Ell].
  assert (Nxt : x <> t) by (apply valid_neq_fresh; exact Vx).
  unfold token_new_parent.
  destruct (N.eqb_spec x 0) as [Z|_]; [destruct Vx; contradiction|].
  rewrite Hsx. cbn [obind].
  unfold token_new. fold t.
  pose proof (rd_alloc h (mktk ptype sx 0 0 0 0 t 0)) as R0. fold t in R0.
  assert (L0 : length (h ++ [mktk ptype sx 0 0 0 0 t 0]) = S (length h)) by (rewrite app_length; cbn; lia).
  set (h0 := h ++ [mktk ptype sx 0 0 0 0 t 0]) in *.
  assert (Vt : valid h0 t) by (unfold t; vld).
  wr_step h1 L1 R1; [exact Vt|].
  wr_step h2 L2 R2; [vld|].
  assert (VV : forall y, valid h y -> valid h2 y) by (intros y Vy; vld).
  assert (S2 : seg h2 0 (x :: r) 0).
  { eapply seg_change_pv; [exact HS| | | |].
    - intros y _ Vy. apply VV, Vy.
    - fin.
    - fin.
    - intros y Hy. pose proof (seg_valid _ _ _ _ _ HS (or_intror Hy)) as Vy.
      assert (y <> t) by (apply valid_neq_fresh; exact Vy).
      assert (y <> x) by (intro X; rewrite X in Hy; inversion ND; contradiction).
      split; fin. }
  assert (Nx : rd h2 x Fnx = Some (hd 0 r)) by (cbn [seg] in S2; tauto).
  rewrite Nx. cbn [obind].
  assert (FR : forall h3, (forall j g, rd h3 j g = if (j =? t) && feqb g Fln then Some (match r with [] => ll | _ => wsub (wadd el ll) sx end) else rd h2 j g) ->
               length h3 = length h2 ->
    length h3 = S (length h) /\
    rd h (List.last r x) Fst = Some el /\ rd h (List.last r x) Fln = Some ll /\
    seg h3 0 (x :: r) 0 /\
    rd h3 t Fch = Some x /\ rd h3 t Fty = Some ptype /\ rd h3 t Fst = Some sx /\
    rd h3 t Fln = Some (match r with [] => ll | _ => wsub (wadd el ll) sx end) /\
    rd h3 t Fnx = Some 0 /\ rd h3 t Fpv = Some 0 /\ rd h3 t Ftl = Some t /\ rd h3 t Fmt = Some 0 /\
    (forall j g, j <> t -> ~ (j = x /\ g = Fpv) -> rd h3 j g = rd h j g)).
  { intros h3 R3 L3.
    split; [vld|]. split; [exact Eel|]. split; [exact Ell|].
    split.
    { eapply seg_frame; [| |exact S2]; [intros z _ Vz; vld|].
      intros z Hz. pose proof (seg_valid _ _ _ _ _ HS Hz) as Vz.
      assert (z <> t) by (apply valid_neq_fresh; exact Vz). split; fin. }
    split; [fin|]. split; [fin|]. split; [fin|]. split; [fin|].
    split; [fin|]. split; [fin|]. split; [fin|]. split; [fin|].
    intros j g H1 H2. rdrw. rewrite (if_not j x g Fpv) by exact H2. eqbs. reflexivity. }
  destruct r as [|y r'].
  - cbn [hd N.eqb]. cbn [List.last] in *.
    replace (rd h2 x Fln) with (Some ll) by (fin; symmetry; exact Ell). cbn [obind].
    wr_step h3 L3 R3; [vld|].
    exists h3, el, ll. split; [reflexivity|]. apply FR; assumption.
  - cbn [hd].
    assert (Vy : valid h y) by (cbn [seg] in HS; tauto).
    destruct (N.eqb_spec y 0) as [Z|_]; [destruct Vy; contradiction|].
    assert (W1 : last_of h2 x = Some (List.last (y :: r') x)).
    { unfold last_of. apply (walk_next h2 (fuel_of h2) 0 [] x (y :: r') 0); [exact S2|reflexivity|].
      unfold fuel_of. pose proof (seg_length _ _ _ _ ND HS). cbn [length] in *. vld. }
    rewrite W1. cbn [obind].
    set (e := List.last (y :: r') x) in *.
    assert (Net : e <> t) by (apply valid_neq_fresh; exact Ve).
    replace (rd h2 e Fst) with (Some el).
    2:{ rdrw. destruct (N.eqb_spec e x) as [X|X]; cbn [andb feqb]; eqbs; symmetry; exact Eel. }
    replace (rd h2 e Fln) with (Some ll).
    2:{ rdrw. destruct (N.eqb_spec e x) as [X|X]; cbn [andb feqb]; eqbs; symmetry; exact Ell. }
    replace (rd h2 t Fst) with (Some sx) by fin. cbn [obind].
    wr_step h3 L3 R3; [vld|].
    exists h3, el, ll. split; [reflexivity|]. apply FR; assumption.
Qed.

(* ---- tokens_prune(first, last): a run of tokens is taken out of the middle or the end of a chain *)

Theorem prune_spec h a pvt x rr b :
  let e := List.last rr x in
  seg h 0 (a ++ pvt :: (x :: rr) ++ b) 0 -> NoDup (a ++ pvt :: (x :: rr) ++ b) ->
  rd h (hd pvt a) Ftl = Some (List.last b e) ->
  exists h', tokens_prune h x e = Some h' /\ length h' = length h /\
    seg h' 0 (a ++ pvt :: b) 0 /\ rd h' (hd pvt a) Ftl = Some (List.last b pvt) /\
    seg h' 0 (x :: rr) 0 /\
    (forall j g, ~ (j = pvt /\ g = Fnx) -> ~ (j = hd 0 b /\ g = Fpv) -> ~ (j = x /\ g = Fpv) -> ~ (j = e /\ g = Fnx) -> ~ (j = hd pvt a /\ g = Ftl) ->
                 rd h' j g = rd h j g).
Proof.
  intros e HS ND Htl.
  set (nb := hd 0 b).
  (* pieces *)
  pose proof HS as S0. apply seg_app in S0. cbn [hd] in S0. destruct S0 as [Sa S1].
  cbn [seg] in S1. destruct S1 as (Vp & Pp & Np & S2). change (hd 0 ((x :: rr) ++ b)) with x in Np.
  apply seg_app in S2. destruct S2 as [Sx Sb]. fold nb in Sx.
  replace (List.last (x :: rr) pvt) with e in Sb by (unfold e; symmetry; apply last_cons).
  assert (Vx : valid h x) by (cbn [seg] in Sx; tauto).
  assert (Px : rd h x Fpv = Some pvt) by (cbn [seg] in Sx; tauto).
  assert (Ve : valid h e) by (eapply seg_valid; [exact Sx|apply last_in_cons]).
  assert (Ne : rd h e Fnx = Some nb).
  { destruct (exists_last (l := x :: rr)) as (l' & e' & El); [discriminate|].
    assert (e' = e) by (unfold e; rewrite <- (last_cons rr x 0), El, last_last; reflexivity). subst e'.
    rewrite El in Sx. apply seg_app in Sx. destruct Sx as [_ Sx]. cbn [seg hd] in Sx. tauto. }
  (* distinctness *)
  apply nodup_app in ND. destruct ND as (NDa & ND1 & Da).
  apply NoDup_cons_iff in ND1. destruct ND1 as [Pn ND2].
  apply nodup_app in ND2. destruct ND2 as (NDx & NDb & Dx).
  assert (Npx : pvt <> x) by (intro X; apply Pn; apply in_or_app; left; left; symmetry; exact X).
  assert (Npe : pvt <> e) by (intro X; apply Pn; apply in_or_app; left; rewrite X; apply last_in_cons).
  assert (Nb_cases : nb = 0 \/ In nb b) by (unfold nb; destruct b; [left; reflexivity|right; left; reflexivity]).
  assert (Vnb : nb <> 0 -> valid h nb) by (intro Z; destruct Nb_cases as [|I]; [contradiction|eapply seg_valid; [exact Sb|exact I]]).
  assert (Npnb : pvt <> nb).
  { intro X. destruct Nb_cases as [Z|I]; [destruct Vp; congruence|]. apply Pn. apply in_or_app. right. rewrite X. exact I. }
  assert (Nxnb : x <> nb).
  { intro X. destruct Nb_cases as [Z|I]; [destruct Vx; congruence|]. apply (Dx x (or_introl eq_refl)). rewrite X. exact I. }
  assert (Nenb : e <> nb).
  { intro X. destruct Nb_cases as [Z|I]; [destruct Ve; congruence|]. apply (Dx e (last_in_cons rr x)). rewrite X. exact I. }
  assert (Ha : forall y, In y a -> y <> pvt /\ y <> x /\ y <> e /\ y <> nb).
  { intros y Hy. pose proof (Da y Hy) as Q. cbn [In] in Q. rewrite in_app_iff in Q.
    split; [intro X; apply Q; left; symmetry; exact X|].
    split; [intro X; apply Q; right; left; left; symmetry; exact X|].
    split; [intro X; apply Q; right; left; rewrite X; apply last_in_cons|].
    intro X. destruct Nb_cases as [Z|I]; [destruct (seg_valid _ _ _ _ _ Sa Hy); congruence|]. apply Q. right. right. rewrite X. exact I. }
  unfold tokens_prune.
  destruct (N.eqb_spec x 0) as [Z|_]; [destruct Vx; contradiction|].
  destruct (N.eqb_spec e 0) as [Z|_]; [destruct Ve; contradiction|]. cbn [orb].
  rewrite Px, Ne. cbn [obind].
  destruct (N.eqb_spec pvt 0) as [Z|_]; [destruct Vp; contradiction|].
  wr_step h1 L1 R1; [exact Vp|].
  (* the chain a ++ [pvt] in h1, with pvt now pointing at nb *)
  assert (Sa1 : seg h1 0 (a ++ [pvt]) nb).
  { apply seg_app. cbn [hd]. split.
    - eapply seg_frame; [| |exact Sa]; [intros y _ Vy; vld|].
      intros y Hy. destruct (Ha y Hy) as (? & ? & ? & ?). split; fin.
    - cbn [seg]. split; [vld|]. split; [fin; exact Pp|]. split; [fin|exact I]. }
  assert (Vhd : valid h (hd pvt a)).
  { destruct a as [|y a']; cbn [hd]; [exact Vp|]. cbn [seg] in Sa. tauto. }
  assert (FT : exists h2, (if nb =? 0 then fix_token_chain_tail h1 pvt else Some h1) = Some h2 /\ length h2 = length h1 /\
                 forall j g, rd h2 j g = if (nb =? 0) && ((j =? hd pvt a) && feqb g Ftl) then Some pvt else rd h1 j g).
  { destruct (N.eqb_spec nb 0) as [Z|Z]; cbn [andb].
    - unfold fix_token_chain_tail.
      destruct (N.eqb_spec pvt 0) as [Z'|_]; [destruct Vp; contradiction|].
      assert (W1 : head_of h1 pvt = Some (hd pvt a)).
      { unfold head_of. apply (walk_prev h1 (fuel_of h1) a pvt [] nb); [exact Sa1|].
        unfold fuel_of. pose proof (seg_length _ _ _ _ NDa Sa). vld. }
      assert (W2 : last_of h1 pvt = Some pvt).
      { unfold last_of. rewrite Z in Sa1. apply (walk_next h1 (fuel_of h1) 0 a pvt [] 0); [exact Sa1|reflexivity|]. unfold fuel_of. cbn. lia. }
      rewrite W1, W2. cbn [obind].
      destruct (wr_ok h1 (hd pvt a) Ftl pvt) as (h2 & E & L2 & R2); [vld|].
      exists h2. split; [exact E|]. split; [exact L2|]. exact R2.
    - exists h1. repeat split; reflexivity. }
  destruct FT as (h2 & E2 & L2 & R2). rewrite E2. cbn [obind]. clear E2.
  destruct (opt_wr (nb =? 0) h2 nb Fpv pvt) as (h3 & E3 & L3 & R3).
  { intro Z. apply N.eqb_neq in Z. specialize (Vnb Z). vld. }
  rewrite E3. cbn [obind]. clear E3.
  wr_step h4 L4 R4; [vld|].
  wr_step h5 L5 R5; [vld|].
  exists h5. split; [reflexivity|]. split; [vld|].
  assert (VV : forall y, valid h y -> valid h5 y) by (intros y Vy; vld).
  assert (Nxp : x <> pvt) by (apply not_eq_sym; exact Npx).
  assert (Nep : e <> pvt) by (apply not_eq_sym; exact Npe).
  split.
  { (* the remaining chain *)
    apply seg_app. cbn [hd]. split.
    - eapply seg_frame; [| |exact Sa]; [intros y _ Vy; apply VV, Vy|].
      intros y Hy. destruct (Ha y Hy) as (? & ? & ? & ?). split; fin.
    - cbn [seg]. split; [apply VV, Vp|]. split; [fin; exact Pp|]. split; [fin|].
      destruct b as [|y b']; [exact I|].
      assert (Z : (nb =? 0) = false).
      { apply N.eqb_neq. unfold nb. cbn [hd]. destruct (seg_valid _ _ _ _ _ Sb (or_introl eq_refl)); assumption. }
      eapply seg_change_pv; [exact Sb| | | |].
      + intros z _ Vz. apply VV, Vz.
      + change y with nb. rdrw. rewrite Z. eqbs. reflexivity.
      + change y with nb. assert (nb <> e) by (apply not_eq_sym; exact Nenb). assert (nb <> pvt) by (apply not_eq_sym; exact Npnb). fin.
      + intros z Hz.
        assert (z <> pvt) by (intro X; apply Pn; apply in_or_app; right; rewrite <- X; right; exact Hz).
        assert (z <> x) by (intro X; apply (Dx x (or_introl eq_refl)); rewrite <- X; right; exact Hz).
        assert (z <> e) by (intro X; apply (Dx e (last_in_cons rr x)); rewrite <- X; right; exact Hz).
        assert (z <> nb) by (unfold nb; cbn [hd]; intro X; rewrite X in Hz; inversion NDb; contradiction).
        split; fin. }
  split.
  { (* tail at the head *)
    assert (hd pvt a <> x).
    { destruct a as [|y a']; cbn [hd]; [exact Npx|]. destruct (Ha y (or_introl eq_refl)) as (_ & ? & _). assumption. }
    assert (hd pvt a <> e).
    { destruct a as [|y a']; cbn [hd]; [exact Npe|]. destruct (Ha y (or_introl eq_refl)) as (_ & _ & ? & _). assumption. }
    destruct b as [|y b'].
    - assert (Z : (nb =? 0) = true) by reflexivity. rdrw. rewrite Z. cbn [negb andb]. eqbs. reflexivity.
    - assert (Z : (nb =? 0) = false).
      { apply N.eqb_neq. unfold nb. cbn [hd]. destruct (seg_valid _ _ _ _ _ Sb (or_introl eq_refl)); assumption. }
      rdrw. rewrite Z. cbn [negb andb]. eqbs. rewrite Htl. f_equal. apply last_nonempty_default. discriminate. }
  split.
  { (* the pruned run is a chain of its own *)
    destruct (exists_last (l := x :: rr)) as (l' & e' & El); [discriminate|].
    assert (e' = e) by (unfold e; rewrite <- (last_cons rr x 0), El, last_last; reflexivity). subst e'.
    destruct l' as [|x' l''].
    - (* one token: x = e *)
      cbn [app] in El. injection El as Ex Er. rewrite Er. cbn [seg]. split; [apply VV, Vx|].
      split; [fin|]. split; [|exact I]. cbn [hd]. rewrite Ex. fin.
    - cbn [app] in El. injection El as Ex Er. subst x'. rewrite Er.
      rewrite Er in Sx. change (x :: l'' ++ [e]) with ((x :: l'') ++ [e]) in Sx |- *.
      apply seg_app in Sx. destruct Sx as [Sl Se]. cbn [hd] in Sl.
      assert (NDl : NoDup ((x :: l'') ++ [e])) by (change ((x :: l'') ++ [e]) with (x :: l'' ++ [e]); rewrite <- Er; exact NDx).
      apply nodup_app in NDl. destruct NDl as (NDl1 & _ & Dl).
      apply seg_app. cbn [hd]. split.
      + eapply seg_change_pv; [exact Sl| | | |].
        * intros z _ Vz. apply VV, Vz.
        * fin.
        * assert (x <> e) by (intro X; apply (Dl x (or_introl eq_refl)); rewrite X; left; reflexivity). fin.
        * intros z Hz.
          assert (In z (x :: rr)) by (rewrite Er; right; apply in_or_app; left; exact Hz).
          assert (z <> pvt) by (intro X; apply Pn; apply in_or_app; left; rewrite <- X; assumption).
          assert (z <> x) by (intro X; rewrite X in Hz; inversion NDl1; contradiction).
          assert (z <> e) by (intro X; apply (Dl z (or_intror Hz)); rewrite X; left; reflexivity).
          assert (z <> nb).
          { intro X. destruct Nb_cases as [Z|I']; [destruct (seg_valid _ _ _ _ _ Sl (or_intror Hz)); congruence|].
            apply (Dx z); [assumption|rewrite X; exact I']. }
          split; fin.
      + cbn [seg] in Se |- *. destruct Se as (_ & Pe & _). split; [apply VV, Ve|].
        assert (e <> x) by (intro X; apply (Dl x (or_introl eq_refl)); rewrite <- X; left; reflexivity).
        split; [fin; rewrite Pe; f_equal; apply last_cons_default|]. split; [fin|exact I]. }
  intros j g H1 H2 H3 H4 H5. fold nb in H2. frame_tac.
Qed.
