(* C15: the pair matcher (model/PairMatch.v) on a first pass - a parent whose children are a complete chain of tokens
   without children and without mates - always terminates normally and leaves a coherent heap: the children are again a
   complete doubly linked chain with the right tail, every link in the heap leads back, mates are symmetric.  Every call
   of token_prune_graft and token_pair_mate it makes is shown to satisfy the hypotheses of the surgery theorems. *)
From Coq Require Import List NArith Bool Lia.
From MMD.lib Require Import Bytes BytesFacts.
From MMD.model Require Import TokenHeap PairMatch.
From MMD.proofs Require Import TokenHeapFacts TokenHeapProofs TokenHeapProofs2 TokenHeapDL.
Import ListNotations.
Local Open Scope N_scope.

(* ---- the stack: its top splits the tokens already passed, the rest of the stack lives in the part before it *)
Fixpoint stk_ok (stk done : list N) : Prop :=
  match stk with
  | [] => True
  | x :: rest => exists d1 d2, done = d1 ++ x :: d2 /\ stk_ok rest d1
  end.

Lemma stk_ok_app stk done more : stk_ok stk done -> stk_ok stk (done ++ more).
Proof.
  destruct stk as [|x rest]; [trivial|]. cbn. intros (d1 & d2 & -> & H).
  exists d1, (d2 ++ more). split; [rewrite <- app_assoc; reflexivity|exact H].
Qed.

Lemma stk_ok_push stk done w : stk_ok stk done -> stk_ok (w :: stk) (done ++ [w]).
Proof. intro H. cbn. exists done, []. split; [reflexivity|exact H]. Qed.

Lemma stk_ok_nth stk done k peek :
  stk_ok stk done -> nth_error stk k = Some peek ->
  exists a m, done = a ++ peek :: m /\ stk_ok (skipn (S k) stk) a.
Proof.
  revert stk done; induction k as [|k IH]; intros stk done H E; destruct stk as [|x rest]; try discriminate.
  - cbn in E. injection E as ->. cbn in H. destruct H as (d1 & d2 & -> & H). exists d1, d2. split; [reflexivity|exact H].
  - cbn in E. cbn in H. destruct H as (d1 & d2 & -> & H).
    destruct (IH rest d1 H E) as (a & m & -> & H'). exists a, (m ++ x :: d2).
    split; [rewrite <- app_assoc; reflexivity|exact H'].
Qed.

Lemma stk_ok_in stk done x : stk_ok stk done -> In x stk -> In x done.
Proof.
  revert done; induction stk as [|y rest IH]; intros done H I; [destruct I|].
  cbn in H. destruct H as (d1 & d2 & -> & H). destruct I as [->|I].
  - apply in_or_app. right. left. reflexivity.
  - apply in_or_app. left. apply (IH d1 H I).
Qed.

(* ---- find_opener returns an entry of the list it scans, with its index *)
Lemma find_opener_index e h w above k0 peek k :
  find_opener e h w above k0 = Some (Some (peek, k)) ->
  exists j, nth_error above j = Some peek /\ k = (k0 + j)%nat.
Proof.
  revert k0; induction above as [|x rest IH]; intro k0; cbn [find_opener]; [discriminate|].
  destruct (rd h x Fty) as [pty|]; cbn [obind]; [|discriminate].
  destruct (rd h w Fty) as [wty|]; cbn [obind]; [|discriminate].
  destruct (pair_type e pty wty =? 0).
  - intro H. destruct (IH _ H) as (j & Hj & ->). exists (S j). split; [exact Hj|lia].
  - destruct (rd h x Fnx) as [a1|]; cbn [obind]; [|discriminate].
    destruct (rd h x Fst) as [a2|]; cbn [obind]; [|discriminate].
    destruct (rd h x Fln) as [a3|]; cbn [obind]; [|discriminate].
    destruct (rd h w Fst) as [a4|]; cbn [obind]; [|discriminate].
    destruct (rd h w Fln) as [a5|]; cbn [obind]; [|discriminate].
    destruct (negb (empty_allowed e (pair_type e pty wty)) && (a1 =? w) && (wadd a2 a3 =? a4)); [discriminate|].
    destruct (match_len e (pair_type e pty wty) && negb (a3 =? a5)).
    + intro H. destruct (IH _ H) as (j & Hj & ->). exists (S j). split; [exact Hj|lia].
    + intro H. injection H as -> ->. exists O. split; [reflexivity|lia].
Qed.

(* find_opener never gets stuck when every token it looks at exists *)
Lemma find_opener_total e h w above k0 :
  valid h w -> (forall x, In x above -> valid h x) -> exists r, find_opener e h w above k0 = Some r.
Proof.
  intros Vw; revert k0; induction above as [|x rest IH]; intros k0 Va; cbn [find_opener]; [eauto|].
  assert (Vx : valid h x) by (apply Va; left; reflexivity).
  destruct (rd_valid h x Fty Vx) as [pty ->]. destruct (rd_valid h w Fty Vw) as [wty ->]. cbn [obind].
  assert (IH' : exists r, find_opener e h w rest (S k0) = Some r) by (apply IH; intros y Hy; apply Va; right; exact Hy).
  destruct (pair_type e pty wty =? 0); [exact IH'|].
  destruct (rd_valid h x Fnx Vx) as [a1 ->]. destruct (rd_valid h x Fst Vx) as [a2 ->]. destruct (rd_valid h x Fln Vx) as [a3 ->].
  destruct (rd_valid h w Fst Vw) as [a4 ->]. destruct (rd_valid h w Fln Vw) as [a5 ->]. cbn [obind].
  destruct (negb (empty_allowed e (pair_type e pty wty)) && (a1 =? w) && (wadd a2 a3 =? a4)); [eauto|].
  destruct (match_len e (pair_type e pty wty) && negb (a3 =? a5)); [exact IH'|eauto].
Qed.

(* ---- flags *)
Lemma flag_set_flag s i g j : i <> 0 -> j <> 0 ->
  flag (set_flag s i g) j = if j =? i then option_map g (flag s j) else flag s j.
Proof.
  intros Zi Zj. unfold flag, set_flag. cbn [fl].
  destruct (N.eqb_spec j 0) as [|_]; [contradiction|].
  rewrite nth_error_upd_nth.
  destruct (N.eqb_spec j i) as [->|N]; [rewrite Nat.eqb_refl; reflexivity|].
  destruct (Nat.eqb_spec (idx j) (idx i)) as [E|E]; [|reflexivity].
  exfalso. apply N. apply idx_inj; assumption.
Qed.

Lemma flag_some s i : length (fl s) = length (hp s) -> valid (hp s) i -> exists f, flag s i = Some f.
Proof.
  intros L V. unfold flag. destruct (N.eqb_spec i 0) as [Z|_]; [destruct V; contradiction|].
  destruct (nth_error (fl s) (idx i)) eqn:E; [eauto|]. apply nth_error_None in E. pose proof (idx_lt _ _ V). lia.
Qed.

Lemma hp_set_flag s i g : hp (set_flag s i g) = hp s.
Proof. reflexivity. Qed.

Lemma set_flag_len s i g : length (fl (set_flag s i g)) = length (fl s).
Proof. unfold set_flag. cbn. apply upd_nth_length. Qed.

(* token_pair_mate on the state: the heap part is pair_mate of TokenHeapDL, both flags say "matched" afterwards *)
Lemma pair_mate_f_ok s a b :
  valid (hp s) a -> valid (hp s) b ->
  exists s', pair_mate_f s a b = Some s' /\ pair_mate (hp s) a b = Some (hp s') /\
    length (hp s') = length (hp s) /\ length (fl s') = length (fl s) /\
    (forall j g, ~ (j = a /\ g = Fmt) -> ~ (j = b /\ g = Fmt) -> rd (hp s') j g = rd (hp s) j g) /\
    (forall i, i <> 0 -> i <> a -> i <> b -> flag s' i = flag s i) /\
    (forall f, flag s' a = Some f -> unmatched f = false) /\ (forall f, flag s' b = Some f -> unmatched f = false).
Proof.
  intros Va Vb. unfold pair_mate_f, pair_mate.
  destruct (N.eqb_spec a 0) as [Z|Za]; [destruct Va; contradiction|].
  destruct (N.eqb_spec b 0) as [Z|Zb]; [destruct Vb; contradiction|]. cbn [orb].
  destruct (wr_ok (hp s) a Fmt b Va) as (h1 & E1 & L1 & R1). rewrite E1. cbn [obind hp fl].
  assert (Vb1 : valid h1 b) by (apply (valid_len (hp s)); assumption).
  destruct (wr_ok h1 b Fmt a Vb1) as (h2 & E2 & L2 & R2).
  rewrite hp_set_flag. cbn [hp]. rewrite E2. cbn [obind].
  eexists. split; [reflexivity|]. rewrite !hp_set_flag. cbn [hp]. split; [reflexivity|]. split; [lia|].
  split; [rewrite set_flag_len; cbn [fl]; rewrite set_flag_len; reflexivity|].
  split.
  { intros j g F1 F2. rewrite R2, (if_not j b g Fmt) by exact F2. rewrite R1, (if_not j a g Fmt) by exact F1. reflexivity. }
  assert (FM : forall h t i, flag {| hp := h; fl := fl t |} i = flag t i) by reflexivity.
  split.
  { intros i Zi Nia Nib.
    rewrite flag_set_flag by assumption. rewrite (proj2 (N.eqb_neq i b) Nib). rewrite FM.
    rewrite flag_set_flag by assumption. rewrite (proj2 (N.eqb_neq i a) Nia). apply FM. }
  split.
  - intros f Hf. rewrite flag_set_flag in Hf by assumption.
    destruct (N.eqb_spec a b) as [Eab|Nab].
    + destruct (flag _ a); cbn in Hf; [|discriminate]. injection Hf as <-. reflexivity.
    + rewrite FM in Hf. rewrite flag_set_flag in Hf by assumption. rewrite N.eqb_refl in Hf.
      destruct (flag _ a); cbn in Hf; [|discriminate]. injection Hf as <-. reflexivity.
  - intros f Hf. rewrite flag_set_flag in Hf by assumption. rewrite N.eqb_refl in Hf.
    destruct (flag _ b); cbn in Hf; [|discriminate]. injection Hf as <-. reflexivity.
Qed.

Lemma flag_app_old s f i : length (fl s) = length (hp s) -> valid (hp s) i -> forall h', flag {| hp := h'; fl := fl s ++ [f] |} i = flag s i.
Proof.
  intros L V h'. unfold flag. cbn [fl]. destruct (N.eqb_spec i 0); [reflexivity|].
  rewrite nth_error_app1; [reflexivity|]. pose proof (idx_lt _ _ V). lia.
Qed.

(* token_prune_graft on the state *)
Lemma graft_f_ok s (a m b : list N) (fi la pt mm : N) :
  length (fl s) = length (hp s) ->
  seg (hp s) 0 (a ++ fi :: m ++ la :: b) 0 -> NoDup (a ++ fi :: m ++ la :: b) ->
  rd (hp s) fi Fmt = Some mm -> mm = 0 \/ valid (hp s) mm /\ mm <> fi ->
  rd (hp s) (hd fi a) Ftl = Some (List.last b la) ->
  exists s', graft_f s fi la pt = Some s' /\ token_prune_graft (hp s) fi la pt = Some (hp s') /\
    length (fl s') = length (hp s') /\
    (forall i, valid (hp s) i -> i <> fi -> flag s' i = flag s i) /\
    (forall f, flag s' fi = Some f -> can_open f = false /\ can_close f = false /\ exists f0, flag s fi = Some f0 /\ unmatched f = unmatched f0).
Proof.
  intros LF HS ND Hmt Hmm Htl.
  assert (Vf : valid (hp s) fi) by (eapply rd_some_valid; exact Hmt).
  assert (Zf : fi <> 0) by (destruct Vf; assumption).
  destruct (flag_some s fi LF Vf) as [ff Eff].
  destruct (prune_graft_spec (hp s) a m b fi la pt mm HS ND Hmt Hmm Htl) as (h' & E & L' & _).
  unfold graft_f. rewrite Eff. cbn [obind]. rewrite E. cbn [obind].
  eexists. split; [reflexivity|]. rewrite hp_set_flag. cbn [hp]. split; [reflexivity|].
  split; [rewrite set_flag_len; cbn [fl]; rewrite app_length; cbn [length]; lia|].
  split.
  - intros i Vi Nif. assert (Zi : i <> 0) by (destruct Vi; assumption).
    rewrite flag_set_flag by assumption. rewrite (proj2 (N.eqb_neq i fi) Nif). apply flag_app_old; assumption.
  - intros f Hf. rewrite flag_set_flag in Hf by assumption. rewrite N.eqb_refl in Hf.
    rewrite (flag_app_old s ff fi LF Vf) in Hf. rewrite Eff in Hf. cbn in Hf. injection Hf as <-. cbn.
    split; [reflexivity|]. split; [reflexivity|]. exists ff. split; reflexivity.
Qed.

(* ---- the loop invariant of a first pass: [done] are the tokens already passed, [w] the current one, [r] those to come *)
Definition Inv (s : pmstate) (p : N) (done : list N) (w : N) (r : list N) (stk : list N) : Prop :=
  let h := hp s in let L := done ++ w :: r in
  seg h 0 L 0 /\ NoDup L /\ rd h (hd w done) Ftl = Some (List.last r w) /\
  dl h /\ msym h /\
  valid h p /\ ~ In p L /\ rd h p Fch = Some (hd w done) /\
  length (fl s) = length h /\
  (forall x, In x r -> rd h x Fch = Some 0) /\
  (forall x f, In x L -> flag s x = Some f -> unmatched f = true -> rd h x Fmt = Some 0) /\
  stk_ok stk done /\ (forall x, In x stk -> rd h x Fmt = Some 0) /\
  ordered h /\ bounded h.

Lemma in_skipn {A} (l : list A) n x : In x (skipn n l) -> In x l.
Proof. revert l; induction n as [|n IH]; intros l H; [exact H|]. destruct l; [destruct H|]. right. apply IH, H. Qed.

Lemma msym_frame h h' : msym h -> (forall j, rd h' j Fmt = rd h j Fmt) -> msym h'.
Proof. intros M F i j Zj. rewrite !F. apply M, Zj. Qed.

Lemma dl_frame h h' : dl h -> (forall j, rd h' j Fnx = rd h j Fnx /\ rd h' j Fpv = rd h j Fpv) -> dl h'.
Proof. intros D F i j Zj. destruct (F i) as [A B]. destruct (F j) as [A' B']. rewrite A, B, A', B'. apply D, Zj. Qed.

Lemma order_frame h h' : ordered h -> bounded h ->
  (forall j g, g = Fnx \/ g = Fst \/ g = Fln -> rd h' j g = rd h j g) -> ordered h' /\ bounded h'.
Proof.
  intros O B F. split.
  - intros i j si li sj Zj. rewrite !F by tauto. apply O, Zj.
  - intros i si li. rewrite !F by tauto. apply B.
Qed.

Lemma try_close_inv e s p done w r stk :
  Inv s p done w r stk ->
  exists s' stk' w' done', try_close e p 0 s stk w = Some (s', stk', w') /\ Inv s' p done' w' r stk'.
Proof.
  intros (HS & ND & Tl & D & M & Vp & Np & Pc & LF & Rch & FM & SK & SKm & Or & Bd).
  assert (Keep : exists s' stk' w' done', Some (s, stk, w) = Some (s', stk', w') /\ Inv s' p done' w' r stk').
  { exists s, stk, w, done. split; [reflexivity|]. unfold Inv. repeat (split; [assumption|]). assumption. }
  assert (Vw : valid (hp s) w) by (eapply seg_valid; [exact HS|apply in_or_app; right; left; reflexivity]).
  destruct (flag_some s w LF Vw) as [wf Ewf]. destruct (rd_valid (hp s) w Fty Vw) as [wty Ewty].
  unfold try_close. rewrite Ewf, Ewty. cbn [obind]. rewrite Nat.sub_0_r, firstn_all.
  destruct (can_close wf && can_close_pair e wty && unmatched wf) eqn:C; [|exact Keep].
  assert (Um : unmatched wf = true) by (apply andb_prop in C; tauto).
  match goal with |- context [if ?c then Some (s, stk, w) else _] => destruct c end; [exact Keep|].
  assert (Vstk : forall x, In x stk -> valid (hp s) x).
  { intros x Hx. eapply seg_valid; [exact HS|]. apply in_or_app. left. eapply stk_ok_in; eauto. }
  destruct (find_opener_total e (hp s) w stk 0 Vw Vstk) as [fo Efo]. rewrite Efo. cbn [obind].
  destruct fo as [[peek k]|]; [|exact Keep].
  destruct (find_opener_index _ _ _ _ _ _ _ Efo) as (j & Hj & Ek). cbn in Ek. subst k.
  destruct (stk_ok_nth _ _ _ _ SK Hj) as (a & m & Ed & SKa).
  assert (Ipk : In peek stk) by (eapply nth_error_In; eauto).
  assert (Mpk : rd (hp s) peek Fmt = Some 0) by (apply SKm, Ipk).
  assert (Mw : rd (hp s) w Fmt = Some 0) by (apply (FM w wf); [apply in_or_app; right; left; reflexivity|exact Ewf|exact Um]).
  assert (Vpk : valid (hp s) peek) by (apply Vstk, Ipk).
  assert (EL : done ++ w :: r = a ++ peek :: m ++ w :: r) by (rewrite Ed, <- app_assoc; reflexivity).
  rewrite EL in HS, ND.
  destruct (graft_distinct (hp s) a m r peek w 0 HS ND Mpk (or_introl eq_refl)) as (Npw & Pa & Pm & Pr & Wa & Wm & Wr & Da & Dm & NDa & NDm & NDr).
  destruct (pair_mate_f_ok s peek w Vpk Vw) as (s1 & E1 & H1 & L1 & LF1 & Fr1 & Fl1 & Upk & Uw).
  destruct (pair_mate_spec (hp s) peek w D M Mpk Mw Npw) as (h1 & H1' & D1 & M1 & Mpk1 & Mw1).
  assert (h1 = hp s1) by congruence. subst h1.
  rewrite E1. cbn [obind].
  assert (Fr1' : forall j g, g <> Fmt -> rd (hp s1) j g = rd (hp s) j g).
  { intros j0 g Ng. apply Fr1; intros [_ X]; contradiction. }
  assert (VV1 : forall y, valid (hp s) y -> valid (hp s1) y) by (intros y Vy; apply (valid_len (hp s)); assumption).
  destruct (rd_valid (hp s) peek Fty Vpk) as [pty Epty].
  rewrite (Fr1' peek Fty) by discriminate. rewrite Epty. cbn [obind].
  assert (S1 : seg (hp s1) 0 (a ++ peek :: m ++ w :: r) 0).
  { eapply seg_frame; [| |exact HS]; [intros y _ Vy; apply VV1, Vy|]. intros y _. split; apply Fr1'; discriminate. }
  destruct (order_frame (hp s) (hp s1) Or Bd) as [Or1 Bd1].
  { intros j0 g Hg. apply Fr1'. intro X. rewrite X in Hg. destruct Hg as [|[|]]; discriminate. }
  (* the stack that remains lives in a *)
  assert (SKa_in : forall x, In x (skipn (S j) stk) -> In x a) by (intros x Hx; eapply stk_ok_in; eauto).
  destruct (should_prune e (pair_type e pty wty)) eqn:SP.
  - (* graft *)
    rewrite (Fr1' peek Fpv) by discriminate.
    destruct (graft_pieces (hp s) a m r peek w HS) as (Sa & _ & Ppk & _).
    rewrite Ppk. cbn [obind].
    assert (Tl1 : rd (hp s1) (hd peek a) Ftl = Some (List.last r w)).
    { rewrite Fr1' by discriminate. rewrite <- Tl. rewrite Ed. rewrite hd_app_cons. reflexivity. }
    assert (LFs1 : length (fl s1) = length (hp s1)) by congruence.
    assert (Hmm1 : w = 0 \/ valid (hp s1) w /\ w <> peek) by (right; split; [apply VV1, Vw|apply not_eq_sym, Npw]).
    destruct (graft_f_ok s1 a m r peek w (pair_type e pty wty) w LFs1 S1 ND Mpk1 Hmm1 Tl1) as (s2 & E2 & H2 & LF2 & Fl2 & Fl2pk).
    rewrite E2. cbn [obind].
    destruct (prune_graft_spec (hp s1) a m r peek w (pair_type e pty wty) w S1 ND Mpk1 Hmm1 Tl1)
      as (h2 & H2' & L2 & So & Tlo & Cch & Sc & _ & _ & _ & _ & _ & Mf2 & Mc2 & Mm2 & Fr2).
    assert (h2 = hp s2) by congruence. subst h2.
    destruct (graft_preserves_dl (hp s1) a m r peek w (pair_type e pty wty) w D1 S1 ND Mpk1 Hmm1 Tl1) as (h2 & H2'' & D2).
    assert (h2 = hp s2) by congruence. subst h2.
    destruct (graft_preserves_msym (hp s1) a m r peek w (pair_type e pty wty) w M1 S1 ND Mpk1 Hmm1 Tl1) as (h2 & H2''' & M2).
    assert (h2 = hp s2) by congruence. subst h2.
    destruct (graft_preserves_order (hp s1) a m r peek w (pair_type e pty wty) w D1 Or1 Bd1 S1 ND Mpk1 Hmm1 Tl1) as (h2 & H2'''' & Or2 & Bd2).
    assert (h2 = hp s2) by congruence. subst h2.
    set (c := fresh (hp s1)) in *.
    assert (VV2 : forall y, valid (hp s1) y -> valid (hp s2) y).
    { intros y [Zy Ly]. split; [exact Zy|]. unfold Nlen in *. rewrite L2. lia. }
    assert (Vp2 : valid (hp s2) p) by (apply VV2, VV1, Vp).
    assert (Np' : forall x, In x (a ++ peek :: m ++ w :: r) -> p <> x) by (intros x Hx X; apply Np; rewrite EL, X; exact Hx).
    assert (Npc : p <> c) by (apply valid_neq_fresh, VV1, Vp).
    (* fields of tokens outside first / new child that the graft does not list are unchanged: for p *)
    assert (Pc2 : rd (hp s2) p Fch = Some (hd peek a)).
    { rewrite Fr2; try (intros [_ X]; discriminate); try assumption.
      - rewrite Fr1' by discriminate. rewrite Pc, Ed, hd_app_cons. reflexivity.
      - apply Np'. apply in_or_app. right. left. reflexivity. }
    (* the conditional write of parent->child *)
    assert (W : exists h3, (if List.last a 0 =? 0 then wr (hp s2) p Fch peek else Some (hp s2)) = Some h3 /\ length h3 = length (hp s2) /\
                  rd h3 p Fch = Some (hd peek a) /\ (forall j g, ~ (j = p /\ g = Fch) -> rd h3 j g = rd (hp s2) j g)).
    { destruct (N.eqb_spec (List.last a 0) 0) as [Z|Z].
      - destruct (wr_ok (hp s2) p Fch peek Vp2) as (h3 & E3 & L3 & R3). exists h3. split; [exact E3|]. split; [exact L3|].
        assert (a = []).
        { destruct a as [|y a']; [reflexivity|]. exfalso.
          assert (In (List.last (y :: a') 0) (y :: a')) by (apply in_last; discriminate).
          destruct (seg_valid _ _ _ _ _ Sa H) as [X _]. contradiction. }
        subst a. cbn [hd]. split; [rewrite R3, N.eqb_refl; reflexivity|].
        intros j0 g F. rewrite R3, if_not by exact F. reflexivity.
      - exists (hp s2). split; [reflexivity|]. split; [reflexivity|]. split; [exact Pc2|]. intros; reflexivity. }
    destruct W as (h3 & E3 & L3 & Pc3 & Fr3). rewrite E3. cbn [obind].
    exists {| hp := h3; fl := fl s2 |}, (skipn (S j) stk), peek, a. split; [reflexivity|].
    unfold Inv. cbn [hp fl].
    assert (Fr3nx : forall j0 g, g <> Fch -> rd h3 j0 g = rd (hp s2) j0 g) by (intros j0 g Ng; apply Fr3; intros [_ X]; contradiction).
    assert (VV3 : forall y, valid (hp s2) y -> valid h3 y) by (intros y Vy; apply (valid_len (hp s2)); assumption).
    split.
    { eapply seg_frame; [| |exact So]; [intros y _ Vy; apply VV3, Vy|]. intros y _. split; apply Fr3nx; discriminate. }
    split.
    { apply nodup_app in ND. destruct ND as (_ & ND2 & _). apply NoDup_cons_iff in ND2. destruct ND2 as [_ ND3].
      apply nodup_app in ND3. destruct ND3 as (_ & ND4 & _). apply NoDup_cons_iff in ND4. destruct ND4 as [_ ND5].
      apply nodup_app. split; [exact NDa|]. split; [constructor; [exact Pr|exact ND5]|].
      intros x Hx [<-|Hx']; [contradiction|]. destruct (Da x Hx) as [_ X]. contradiction. }
    split; [rewrite Fr3nx by discriminate; exact Tlo|].
    split; [eapply dl_frame; [exact D2|]; intro j0; split; apply Fr3nx; discriminate|].
    split; [eapply msym_frame; [exact M2|]; intro j0; apply Fr3nx; discriminate|].
    split; [apply VV3, Vp2|].
    split.
    { intro Hp. apply in_app_or in Hp. destruct Hp as [Hp|[Hp|Hp]].
      - apply (Np' p); [apply in_or_app; left; exact Hp|reflexivity].
      - apply (Np' peek); [apply in_or_app; right; left; reflexivity|symmetry; exact Hp].
      - apply (Np' p); [apply in_or_app; right; right; apply in_or_app; right; right; exact Hp|reflexivity]. }
    split; [exact Pc3|].
    split; [congruence|].
    split.
    { intros x Hx. rewrite Fr3.
      2:{ intros [X _]. apply (Np' x); [apply in_or_app; right; right; apply in_or_app; right; right; exact Hx|symmetry; exact X]. }
      assert (Vx : valid (hp s) x) by (eapply seg_valid; [exact HS|apply in_or_app; right; right; apply in_or_app; right; right; exact Hx]).
      rewrite Fr2; try (intros [_ X]; discriminate).
      - rewrite Fr1' by discriminate. apply Rch, Hx.
      - intro X. apply Pr. rewrite <- X. exact Hx.
      - apply valid_neq_fresh, VV1, Vx. }
    split.
    { intros x f Hx Hf Uf.
      apply in_app_or in Hx. destruct Hx as [Hx|[<-|Hx]].
      - (* x in a *)
        assert (Vx : valid (hp s) x) by (eapply seg_valid; [exact HS|apply in_or_app; left; exact Hx]).
        assert (Nxp : x <> peek) by (intro X; apply Pa; rewrite <- X; exact Hx).
        assert (Nxw : x <> w) by (intro X; apply Wa; rewrite <- X; exact Hx).
        assert (Zx : x <> 0) by (destruct Vx; assumption).
        unfold flag in Hf. cbn [fl] in Hf. fold (flag s2 x) in Hf.
        rewrite (Fl2 x (VV1 x Vx) Nxp), (Fl1 x Zx Nxp Nxw) in Hf.
        rewrite Fr3nx by discriminate. rewrite Fr2; try (intros [_ X]; discriminate); try assumption.
        + rewrite Fr1; try (intros [X _]; contradiction). apply (FM x f); [rewrite EL; apply in_or_app; left; exact Hx|exact Hf|exact Uf].
        + apply valid_neq_fresh, VV1, Vx.
        + intros [X _]. contradiction.
      - (* x = peek: its flag says matched *)
        unfold flag in Hf. cbn [fl] in Hf. fold (flag s2 peek) in Hf.
        destruct (Fl2pk f Hf) as (_ & _ & f0 & Ef0 & Eu). rewrite Eu in Uf. rewrite (Upk f0 Ef0) in Uf. discriminate.
      - (* x in r *)
        assert (Vx : valid (hp s) x) by (eapply seg_valid; [exact HS|apply in_or_app; right; right; apply in_or_app; right; right; exact Hx]).
        assert (Nxp : x <> peek) by (intro X; apply Pr; rewrite <- X; exact Hx).
        assert (Nxw : x <> w) by (intro X; apply Wr; rewrite <- X; exact Hx).
        assert (Zx : x <> 0) by (destruct Vx; assumption).
        unfold flag in Hf. cbn [fl] in Hf. fold (flag s2 x) in Hf.
        rewrite (Fl2 x (VV1 x Vx) Nxp), (Fl1 x Zx Nxp Nxw) in Hf.
        rewrite Fr3nx by discriminate. rewrite Fr2; try (intros [_ X]; discriminate); try assumption.
        + rewrite Fr1; try (intros [X _]; contradiction). apply (FM x f); [rewrite EL; apply in_or_app; right; right; apply in_or_app; right; right; exact Hx|exact Hf|exact Uf].
        + apply valid_neq_fresh, VV1, Vx.
        + intros [X _]. contradiction. }
    split; [exact SKa|].
    split.
    { intros x Hx. pose proof (SKa_in x Hx) as Hxa.
      assert (Vx : valid (hp s) x) by (eapply seg_valid; [exact HS|apply in_or_app; left; exact Hxa]).
      assert (Nxp : x <> peek) by (intro X; apply Pa; rewrite <- X; exact Hxa).
      assert (Nxw : x <> w) by (intro X; apply Wa; rewrite <- X; exact Hxa).
      rewrite Fr3nx by discriminate. rewrite Fr2; try (intros [_ X]; discriminate); try assumption.
      + rewrite Fr1; try (intros [X _]; contradiction). apply SKm. eapply in_skipn; eauto.
      + apply valid_neq_fresh, VV1, Vx.
      + intros [X _]. contradiction. }
    apply (order_frame (hp s2) h3 Or2 Bd2). intros j0 g Hg. apply Fr3nx. intro X. rewrite X in Hg. destruct Hg as [|[|]]; discriminate.
  - (* mated, not grafted (emphasis markers) *)
    exists s1, (skipn (S j) stk), w, done. split; [reflexivity|].
    unfold Inv. rewrite EL.
    split; [exact S1|]. split; [exact ND|].
    split; [rewrite Fr1' by discriminate; exact Tl|].
    split; [exact D1|]. split; [exact M1|]. split; [apply VV1, Vp|].
    split; [rewrite <- EL; exact Np|].
    split; [rewrite Fr1' by discriminate; exact Pc|].
    split; [congruence|].
    split; [intros x Hx; rewrite Fr1' by discriminate; apply Rch, Hx|].
    split.
    { intros x f Hx Hf Uf.
      destruct (N.eq_dec x peek) as [->|Nxp]; [rewrite (Upk f Hf) in Uf; discriminate|].
      destruct (N.eq_dec x w) as [->|Nxw]; [rewrite (Uw f Hf) in Uf; discriminate|].
      assert (Vx : valid (hp s) x) by (eapply seg_valid; [exact HS|exact Hx]).
      assert (Zx : x <> 0) by (destruct Vx; assumption).
      rewrite (Fl1 x Zx Nxp Nxw) in Hf.
      rewrite Fr1; try (intros [X _]; contradiction). apply (FM x f); [rewrite EL; exact Hx|exact Hf|exact Uf]. }
    split; [rewrite Ed; apply stk_ok_app; exact SKa|].
    split; [|split; assumption].
    intros x Hx. pose proof (SKa_in x Hx) as Hxa.
    assert (Nxp : x <> peek) by (intro X; apply Pa; rewrite <- X; exact Hxa).
    assert (Nxw : x <> w) by (intro X; apply Wa; rewrite <- X; exact Hxa).
    rewrite Fr1; try (intros [X _]; contradiction). apply SKm. eapply in_skipn; eauto.
Qed.

(* what holds when the walk has passed the last token *)
Definition Final (s : pmstate) (p : N) (L : list N) : Prop :=
  let h := hp s in
  seg h 0 L 0 /\ NoDup L /\ (L <> [] -> rd h (hd 0 L) Ftl = Some (List.last L 0)) /\ dl h /\ msym h /\
  rd h p Fch = Some (hd 0 L) /\ length (fl s) = length h /\ ordered h /\ bounded h.

Lemma try_open_inv e s p done w r stk :
  Inv s p done w r stk ->
  exists stk', try_open e s stk w = Some stk' /\ rd (hp s) w Fnx = Some (hd 0 r) /\
    match r with
    | [] => Final s p (done ++ [w])
    | w2 :: r' => Inv s p (done ++ [w]) w2 r' stk' /\ rd (hp s) w2 Fch = Some 0
    end.
Proof.
  intros (HS & ND & Tl & D & M & Vp & Np & Pc & LF & Rch & FM & SK & SKm & Or & Bd).
  assert (Vw : valid (hp s) w) by (eapply seg_valid; [exact HS|apply in_or_app; right; left; reflexivity]).
  destruct (flag_some s w LF Vw) as [wf Ewf]. destruct (rd_valid (hp s) w Fty Vw) as [wty Ewty].
  unfold try_open. rewrite Ewf, Ewty. cbn [obind].
  eexists. split; [reflexivity|].
  assert (Nx : rd (hp s) w Fnx = Some (hd 0 r)).
  { pose proof HS as S0. apply seg_app in S0. destruct S0 as [_ S0]. cbn [seg] in S0. tauto. }
  split; [exact Nx|].
  destruct r as [|w2 r'].
  - unfold Final. split; [exact HS|]. split; [exact ND|].
    split; [intros _; rewrite hd_app_cons, last_last; exact Tl|].
    split; [exact D|]. split; [exact M|]. split; [rewrite hd_app_cons; exact Pc|]. split; [exact LF|]. split; assumption.
  - split; [|apply Rch; left; reflexivity].
    unfold Inv. rewrite <- app_assoc. cbn [app].
    split; [exact HS|]. split; [exact ND|].
    split; [rewrite hd_app_cons; rewrite Tl; f_equal; apply last_cons|].
    split; [exact D|]. split; [exact M|]. split; [exact Vp|]. split; [exact Np|].
    split; [rewrite hd_app_cons; exact Pc|]. split; [exact LF|].
    split; [intros x Hx; apply Rch; right; exact Hx|].
    split; [exact FM|].
    destruct (can_open wf && can_open_pair e wty && unmatched wf) eqn:C.
    + split; [apply stk_ok_push, SK|]. split; [|split; assumption].
      intros x [<-|Hx]; [|apply SKm, Hx].
      apply (FM w wf); [apply in_or_app; right; left; reflexivity|exact Ewf|]. apply andb_prop in C. tauto.
    + split; [apply stk_ok_app, SK|]. split; [exact SKm|split; assumption].
Qed.

Section WalkProof.
Variable rec : pmstate -> list N -> N -> option (pmstate * list N).
Variable e : penv.

Lemma walk_inv p : forall r n s done w stk,
  Inv s p done w r stk -> rd (hp s) w Fch = Some 0 -> (S (length r) < n)%nat ->
  exists s' stk' L', walk rec e p 0 n s stk w = Some (s', stk') /\ Final s' p L'.
Proof.
  induction r as [|w2 r' IH]; intros n s done w stk I0 C0 Ln.
  - destruct n as [|n]; [lia|]. cbn [walk].
    assert (Vw : valid (hp s) w).
    { destruct I0 as (HS & _). eapply seg_valid; [exact HS|apply in_or_app; right; left; reflexivity]. }
    destruct (N.eqb_spec w 0) as [Z|_]; [destruct Vw; contradiction|].
    rewrite C0. cbn [obind N.eqb].
    destruct (try_close_inv e s p done w [] stk I0) as (s1 & stk1 & w1 & done1 & E1 & I1). rewrite E1. cbn [obind].
    destruct (try_open_inv e s1 p done1 w1 [] stk1 I1) as (stk2 & E2 & Nx & F). rewrite E2. cbn [obind].
    rewrite Nx. cbn [obind hd].
    (* one more unit of fuel is needed to see the end of the chain *)
    destruct n as [|n]; [cbn in Ln; lia|]. cbn [walk N.eqb]. eauto.
  - destruct n as [|n]; [cbn in Ln; lia|]. cbn [walk].
    assert (Vw : valid (hp s) w).
    { destruct I0 as (HS & _). eapply seg_valid; [exact HS|apply in_or_app; right; left; reflexivity]. }
    destruct (N.eqb_spec w 0) as [Z|_]; [destruct Vw; contradiction|].
    rewrite C0. cbn [obind N.eqb].
    destruct (try_close_inv e s p done w (w2 :: r') stk I0) as (s1 & stk1 & w1 & done1 & E1 & I1). rewrite E1. cbn [obind].
    destruct (try_open_inv e s1 p done1 w1 (w2 :: r') stk1 I1) as (stk2 & E2 & Nx & I2 & C2). rewrite E2. cbn [obind].
    rewrite Nx. cbn [obind hd].
    apply (IH n s1 (done1 ++ [w1]) w2 stk2 I2 C2). cbn in Ln. lia.
Qed.
End WalkProof.

(* ---- the first pass of the pair matcher over the children of [p] *)
Theorem first_pass_coherent e s p w r fuel :
  let h := hp s in
  seg h 0 (w :: r) 0 -> NoDup (w :: r) -> rd h w Ftl = Some (List.last r w) ->
  dl h -> msym h -> ordered h -> bounded h -> valid h p -> ~ In p (w :: r) -> rd h p Fch = Some w ->
  length (fl s) = length h ->
  (forall x, In x (w :: r) -> rd h x Fch = Some 0 /\ rd h x Fmt = Some 0) ->
  exists s' L', match_pairs (S fuel) e s [] p 0 = Some (s', []) /\ Final s' p L'.
Proof.
  intros h HS ND Tl D M Or Bd Vp Np Pc LF Init.
  cbn [match_pairs]. change (0 =? kMaxPairRecursiveDepth) with false. cbn iota.
  fold h. rewrite Pc. cbn [obind length].
  assert (I0 : Inv s p [] w r []).
  { unfold Inv. cbn [app hd]. fold h.
    split; [exact HS|]. split; [exact ND|]. split; [exact Tl|]. split; [exact D|]. split; [exact M|].
    split; [exact Vp|]. split; [exact Np|]. split; [exact Pc|]. split; [exact LF|].
    split; [intros x Hx; apply Init; right; exact Hx|].
    split; [intros x f Hx _ _; apply Init, Hx|].
    split; [exact I|]. split; [intros x []|]. split; assumption. }
  assert (C0 : rd (hp s) w Fch = Some 0) by (apply Init; left; reflexivity).
  destruct (walk_inv (fun s stk w => match_pairs fuel e s stk w (0 + 1)) e p r ((S (length (hp s))) * 2) s [] w [] I0 C0) as (s' & stk' & L' & E & F).
  { pose proof (seg_length _ _ _ _ ND HS) as Len. cbn [length] in Len. unfold h in Len. lia. }
  unfold h. rewrite E. cbn [obind]. exists s', L'. split; [|exact F].
  rewrite Nat.sub_0_r. rewrite skipn_all. reflexivity.
Qed.

(* ---- executable checks of the two global invariants (used for concrete examples) *)
Definition ids_of (h : heap) : list N := map N.of_nat (seq 1 (length h)).

Definition back_ok (h : heap) (f g : fld) (i : N) : bool :=
  match rd h i f with
  | Some j => (j =? 0) || match rd h j g with Some k => k =? i | None => false end
  | None => true
  end.

Definition dl_check (h : heap) : bool := forallb (fun i => back_ok h Fnx Fpv i && back_ok h Fpv Fnx i) (ids_of h).
Definition msym_check (h : heap) : bool := forallb (fun i => back_ok h Fmt Fmt i) (ids_of h).

Lemma valid_in_ids h i : valid h i -> In i (ids_of h).
Proof.
  intros [Z L]. unfold ids_of. apply in_map_iff. exists (N.to_nat i). split; [lia|].
  apply in_seq. unfold Nlen in L. lia.
Qed.

Lemma back_ok_sound h f g i j : back_ok h f g i = true -> j <> 0 -> rd h i f = Some j -> rd h j g = Some i.
Proof.
  unfold back_ok. intros B Zj E. rewrite E in B. rewrite (proj2 (N.eqb_neq j 0) Zj) in B. cbn [orb] in B.
  destruct (rd h j g) as [k|]; [|discriminate]. apply N.eqb_eq in B. congruence.
Qed.

Lemma dl_check_sound h : dl_check h = true -> dl h.
Proof.
  intros C i j Zj. unfold dl_check in C. rewrite forallb_forall in C.
  split; intro E; pose proof (rd_some_valid _ _ _ _ E) as V; specialize (C i (valid_in_ids h i V)); apply andb_prop in C; destruct C as [C1 C2].
  - exact (back_ok_sound h Fnx Fpv i j C1 Zj E).
  - exact (back_ok_sound h Fpv Fnx i j C2 Zj E).
Qed.

Lemma msym_check_sound h : msym_check h = true -> msym h.
Proof.
  intros C i j Zj E. unfold msym_check in C. rewrite forallb_forall in C.
  pose proof (rd_some_valid _ _ _ _ E) as V. exact (back_ok_sound h Fmt Fmt i j (C i (valid_in_ids h i V)) Zj E).
Qed.

Definition ord_ok (h : heap) (i : N) : bool :=
  match rd h i Fnx, rd h i Fst, rd h i Fln with
  | Some j, Some si, Some li =>
      (si + li <? W) && ((j =? 0) || match rd h j Fst with Some sj => si + li <=? sj | None => true end)
  | _, _, _ => true
  end.
Definition order_check (h : heap) : bool := forallb (ord_ok h) (ids_of h).

Lemma order_check_sound h : order_check h = true -> ordered h /\ bounded h.
Proof.
  intro C. unfold order_check in C. rewrite forallb_forall in C. split.
  - intros i j si li sj Zj Hn Hs Hl Hj.
    pose proof (C i (valid_in_ids h i (rd_some_valid _ _ _ _ Hn))) as B. unfold ord_ok in B. rewrite Hn, Hs, Hl, Hj in B.
    apply andb_prop in B. destruct B as [_ B]. rewrite (proj2 (N.eqb_neq j 0) Zj) in B. cbn [orb] in B. apply N.leb_le, B.
  - intros i si li Hs Hl.
    pose proof (rd_some_valid _ _ _ _ Hs) as V. destruct (rd_valid h i Fnx V) as [j Hn].
    pose proof (C i (valid_in_ids h i V)) as B. unfold ord_ok in B. rewrite Hn, Hs, Hl in B.
    apply andb_prop in B. destruct B as [B _]. apply N.ltb_lt, B.
Qed.

(* non-vacuity: "[a *b* ]" - six tokens under a parent, brackets pruned, stars only mated *)
Definition ex_env : penv := env_of [mkpr 1 2 50 5; mkpr 3 3 51 0].
Definition ex_state : pmstate :=
  mkps [mktk 1 0 1 2 0 0 6 0; mktk 9 1 1 3 1 0 2 0; mktk 3 2 1 4 2 0 3 0; mktk 9 3 1 5 3 0 4 0; mktk 3 4 1 6 4 0 5 0; mktk 2 5 1 0 5 0 6 0;
        mktk 77 0 6 0 0 1 7 0] (repeat dflags 7).

Example first_pass_applies :
  let h := hp ex_state in
  seg h 0 [1; 2; 3; 4; 5; 6] 0 /\ NoDup [1; 2; 3; 4; 5; 6] /\ rd h 1 Ftl = Some (List.last [2; 3; 4; 5; 6] 1) /\
  dl h /\ msym h /\ (ordered h /\ bounded h) /\ valid h 7 /\ ~ In 7 [1; 2; 3; 4; 5; 6] /\ rd h 7 Fch = Some 1 /\ length (fl ex_state) = length h /\
  (forall x, In x [1; 2; 3; 4; 5; 6] -> rd h x Fch = Some 0 /\ rd h x Fmt = Some 0) /\
  exists s', match_pairs 8 ex_env ex_state [] 7 0 = Some (s', []) /\
             rd (hp s') 7 Fch = Some 1 /\ rd (hp s') 1 Fty = Some 50 /\ rd (hp s') 1 Fch = Some 8 /\ rd (hp s') 6 Fmt = Some 8 /\
             rd (hp s') 3 Fmt = Some 5 /\ rd (hp s') 5 Fmt = Some 3 /\ dl_check (hp s') = true /\ msym_check (hp s') = true /\
             order_check (hp s') = true.
Proof.
  cbn zeta.
  split; [cbn; unfold valid; cbn; repeat split; try lia; discriminate|].
  split; [repeat constructor; cbn; intuition discriminate|].
  split; [reflexivity|].
  split; [apply dl_check_sound; vm_compute; reflexivity|].
  split; [apply msym_check_sound; vm_compute; reflexivity|].
  split; [apply order_check_sound; vm_compute; reflexivity|].
  split; [unfold valid; cbn; split; [discriminate|lia]|].
  split; [cbn; intuition discriminate|].
  split; [reflexivity|]. split; [reflexivity|].
  split; [intros x Hx; cbn in Hx; repeat (destruct Hx as [<-|Hx]; [split; reflexivity|]); destruct Hx|].
  eexists. split; [vm_compute; reflexivity|]. vm_compute. repeat split; reflexivity.
Qed.
