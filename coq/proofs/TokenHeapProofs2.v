(* C15: token_append_child and token_pop_link_from_chain on the heap model (continues TokenHeapProofs.v). *)
From Coq Require Import List NArith Bool Lia.
From MMD.lib Require Import Bytes BytesFacts.
From MMD.model Require Import TokenHeap.
From MMD.proofs Require Import TokenHeapFacts TokenHeapProofs.
Import ListNotations.
Local Open Scope N_scope.

(* ---- token_append_child(parent, t), parent already has children: the chains are joined and the
   parent's length is made to reach the end of the new last child *)
Theorem append_child_spec h p x r y s ps el ll :
  seg h 0 (x :: r) 0 -> seg h 0 (y :: s) 0 -> NoDup ((x :: r) ++ (y :: s)) ->
  tail_ok h x r -> tail_ok h y s ->
  rd h p Fch = Some x -> rd h p Fst = Some ps ->
  rd h (List.last s y) Fst = Some el -> rd h (List.last s y) Fln = Some ll ->
  exists h', token_append_child h p y = Some h' /\ length h' = length h /\
    seg h' 0 ((x :: r) ++ (y :: s)) 0 /\ tail_ok h' x (r ++ y :: s) /\
    rd h' p Fch = Some x /\ rd h' p Fln = Some (wsub (wadd el ll) ps) /\
    (forall j g, ~ (j = List.last r x /\ g = Fnx) -> ~ (j = y /\ g = Fpv) -> ~ (j = x /\ g = Ftl) -> ~ (j = p /\ g = Fln) ->
                 rd h' j g = rd h j g).
Proof.
  intros S1 S2 ND T1 T2 Hch Hps Hel Hll.
  assert (Vp : valid h p) by (eapply rd_some_valid; exact Hch).
  assert (Vx : valid h x) by (cbn [seg] in S1; tauto).
  assert (Vy : valid h y) by (cbn [seg] in S2; tauto).
  destruct (chain_append_spec h x r y s S1 S2 ND T1 T2) as (h1 & E1 & L1 & S' & T' & F1).
  unfold token_append_child.
  destruct (N.eqb_spec p 0) as [Z|_]; [destruct Vp; contradiction|].
  destruct (N.eqb_spec y 0) as [Z|_]; [destruct Vy; contradiction|]. cbn [orb].
  rewrite Hch. cbn [obind].
  destruct (N.eqb_spec x 0) as [Z|_]; [destruct Vx; contradiction|].
  rewrite E1. cbn [obind].
  assert (G : forall j g, g = Fch \/ g = Fst \/ g = Fln \/ g = Fty \/ g = Fmt -> rd h1 j g = rd h j g).
  { intros j g Hg. apply F1; intros [_ X]; rewrite X in Hg; intuition discriminate. }
  rewrite (G p Fch) by tauto. rewrite Hch. cbn [obind].
  unfold tail_ok in T'. rewrite T'. cbn [obind].
  replace (List.last (r ++ y :: s) x) with (List.last s y) by (symmetry; apply last_app_cons).
  rewrite (G _ Fst) by tauto. rewrite (G _ Fln) by tauto. rewrite (G p Fst) by tauto.
  rewrite Hel, Hll, Hps. cbn [obind].
  destruct (wr_ok h1 p Fln (wsub (wadd el ll) ps)) as (h2 & E2 & L2 & R2); [apply (valid_len h); assumption|].
  exists h2. split; [exact E2|]. split; [congruence|].
  split.
  { eapply seg_frame; [| |exact S'].
    - intros z _ Vz. apply (valid_len h1); assumption.
    - intros z _. split; rewrite R2; cbn [feqb]; rewrite andb_false_r; reflexivity. }
  split.
  { unfold tail_ok. rewrite R2. cbn [feqb]. rewrite andb_false_r. exact T'. }
  split; [rewrite R2; cbn [feqb]; rewrite andb_false_r; rewrite G by tauto; exact Hch|].
  split; [rewrite R2, N.eqb_refl; reflexivity|].
  intros j g A1 A2 A3 A4. rewrite R2. rewrite if_not by exact A4. apply F1; assumption.
Qed.

(* ... and when the parent has no child yet *)
Theorem append_first_child_spec h p y s ps el ll :
  seg h 0 (y :: s) 0 -> tail_ok h y s ->
  rd h p Fch = Some 0 -> rd h p Fst = Some ps ->
  rd h (List.last s y) Fst = Some el -> rd h (List.last s y) Fln = Some ll -> p <> List.last s y ->
  exists h', token_append_child h p y = Some h' /\ length h' = length h /\
    rd h' p Fch = Some y /\ rd h' p Fln = Some (wsub (wadd el ll) ps) /\
    (forall j g, ~ (j = p /\ g = Fch) -> ~ (j = p /\ g = Fln) -> rd h' j g = rd h j g).
Proof.
  intros S2 T2 Hch Hps Hel Hll Npe.
  assert (Vp : valid h p) by (eapply rd_some_valid; exact Hch).
  assert (Vy : valid h y) by (cbn [seg] in S2; tauto).
  unfold token_append_child.
  destruct (N.eqb_spec p 0) as [Z|_]; [destruct Vp; contradiction|].
  destruct (N.eqb_spec y 0) as [Z|_]; [destruct Vy; contradiction|]. cbn [orb].
  rewrite Hch. cbn [obind N.eqb].
  destruct (wr_ok h p Fch y Vp) as (h1 & E1 & L1 & R1). rewrite E1. cbn [obind].
  rewrite (R1 p Fch), N.eqb_refl. cbn [feqb andb obind].
  unfold tail_ok in T2.
  assert (X1 : rd h1 y Ftl = Some (List.last s y)) by (rewrite R1; cbn [feqb]; rewrite andb_false_r; exact T2).
  rewrite X1. cbn [obind].
  assert (X2 : rd h1 (List.last s y) Fst = Some el) by (rewrite R1; cbn [feqb]; rewrite andb_false_r; exact Hel).
  assert (X3 : rd h1 (List.last s y) Fln = Some ll) by (rewrite R1; cbn [feqb]; rewrite andb_false_r; exact Hll).
  assert (X4 : rd h1 p Fst = Some ps) by (rewrite R1; cbn [feqb]; rewrite andb_false_r; exact Hps).
  rewrite X2, X3, X4. cbn [obind].
  destruct (wr_ok h1 p Fln (wsub (wadd el ll) ps)) as (h2 & E2 & L2 & R2); [apply (valid_len h); assumption|].
  exists h2. split; [exact E2|]. split; [congruence|].
  split; [rewrite R2; cbn [feqb]; rewrite andb_false_r; rewrite R1, N.eqb_refl; reflexivity|].
  split; [rewrite R2, N.eqb_refl; reflexivity|].
  intros j g A1 A2. rewrite R2, if_not by exact A2. rewrite R1, if_not by exact A1. reflexivity.
Qed.

(* ---- walking along next links only *)
Fixpoint nxseg (h : heap) (l : list N) (q : N) : Prop :=
  match l with
  | [] => True
  | x :: r => valid h x /\ rd h x Fnx = Some (hd q r) /\ nxseg h r q
  end.

Lemma seg_nxseg h p l q : seg h p l q -> nxseg h l q.
Proof. revert p; induction l as [|x r IH]; intro p; cbn [seg nxseg]; [tauto|]. intros (V & _ & Nx & S). eauto. Qed.

Lemma nxseg_frame h h' l q :
  (forall x, In x l -> valid h x -> valid h' x) -> (forall x, In x l -> rd h' x Fnx = rd h x Fnx) ->
  nxseg h l q -> nxseg h' l q.
Proof.
  induction l as [|x r IH]; intros HV HF; cbn [nxseg]; [tauto|]. intros (V & Nx & S).
  split; [apply HV; [left; reflexivity|exact V]|]. split; [rewrite HF; [exact Nx|left; reflexivity]|].
  apply IH; [intros y Hy; apply HV; right; exact Hy|intros y Hy; apply HF; right; exact Hy|exact S].
Qed.

Lemma walk_next_nx h fuel x r : nxseg h (x :: r) 0 -> (length r < fuel)%nat -> walk Fnx h fuel x = Some (List.last r x).
Proof.
  revert fuel x; induction r as [|y r IH]; intros fuel x S L.
  - destruct fuel; [cbn in L; lia|]. cbn [walk]. cbn in S. destruct S as (_ & Nx & _). rewrite Nx. reflexivity.
  - destruct fuel; [cbn in L; lia|]. cbn [walk]. cbn [nxseg hd] in S. destruct S as (_ & Nx & S).
    rewrite Nx. cbn [obind].
    assert (V : valid h y) by (cbn [nxseg] in S; tauto).
    destruct (N.eqb_spec y 0) as [E|E]; [destruct V; contradiction|].
    rewrite (IH fuel y S); [|cbn in L; lia]. rewrite (last_cons r y x). reflexivity.
Qed.

(* ---- token_pop_link_from_chain(t), t not the head of its chain: the neighbours are joined, the head
   records the (possibly new) tail, t is left alone with no links *)
Theorem pop_link_spec h a pvt t b :
  seg h 0 (a ++ pvt :: t :: b) 0 -> NoDup (a ++ pvt :: t :: b) ->
  exists h', token_pop_link_from_chain h t = Some h' /\ length h' = length h /\
    seg h' 0 (a ++ pvt :: b) 0 /\ rd h' (hd pvt a) Ftl = Some (List.last b pvt) /\
    rd h' t Fnx = Some 0 /\ rd h' t Fpv = Some 0 /\ rd h' t Ftl = Some t /\
    (forall j g, ~ (j = t /\ g = Fnx) -> ~ (j = t /\ g = Fpv) -> ~ (j = t /\ g = Ftl) -> ~ (j = pvt /\ g = Fnx) -> ~ (j = hd 0 b /\ g = Fpv) ->
                 ~ (j = hd pvt a /\ g = Ftl) -> rd h' j g = rd h j g).
Proof.
  intros HS ND.
  set (nb := hd 0 b).
  pose proof HS as S0. apply seg_app in S0. cbn [hd] in S0. destruct S0 as [Sa S1].
  cbn [seg hd] in S1. destruct S1 as (Vp & Pp & Np & Vt & Pt & Nt & Sb). fold nb in Nt.
  apply nodup_app in ND. destruct ND as (NDa & ND1 & Da).
  apply NoDup_cons_iff in ND1. destruct ND1 as [Pn ND2].
  apply NoDup_cons_iff in ND2. destruct ND2 as [Tn NDb].
  assert (Npt : pvt <> t) by (intro X; apply Pn; left; symmetry; exact X).
  assert (Ntp : t <> pvt) by (apply not_eq_sym; exact Npt).
  assert (Nb_cases : nb = 0 \/ In nb b) by (unfold nb; destruct b; [left; reflexivity|right; left; reflexivity]).
  assert (Vnb : nb <> 0 -> valid h nb) by (intro Z; destruct Nb_cases as [|I]; [contradiction|eapply seg_valid; [exact Sb|exact I]]).
  assert (Npnb : pvt <> nb).
  { intro X. destruct Nb_cases as [Z|I]; [destruct Vp; congruence|]. apply Pn. right. rewrite X. exact I. }
  assert (Ntnb : t <> nb).
  { intro X. destruct Nb_cases as [Z|I]; [destruct Vt; congruence|]. apply Tn. rewrite X. exact I. }
  assert (Ha : forall y, In y a -> y <> pvt /\ y <> t /\ y <> nb /\ ~ In y b).
  { intros y Hy. pose proof (Da y Hy) as Q. cbn [In] in Q.
    split; [intro X; apply Q; left; symmetry; exact X|].
    split; [intro X; apply Q; right; left; symmetry; exact X|].
    split; [|intro X; apply Q; right; right; exact X].
    intro X. destruct Nb_cases as [Z|I]; [destruct (seg_valid _ _ _ _ _ Sa Hy); congruence|]. apply Q. right. right. rewrite X. exact I. }
  assert (Hb : forall y, In y b -> y <> pvt /\ y <> t).
  { intros y Hy. split; [intro X; apply Pn; right; rewrite <- X; exact Hy|intro X; apply Tn; rewrite <- X; exact Hy]. }
  assert (Vhd : valid h (hd pvt a)).
  { destruct a as [|y a']; cbn [hd]; [exact Vp|]. cbn [seg] in Sa. tauto. }
  unfold token_pop_link_from_chain.
  destruct (N.eqb_spec t 0) as [Z|_]; [destruct Vt; contradiction|].
  rewrite Pt, Nt. cbn [obind].
  wr_step h1 L1 R1; [exact Vt|].
  wr_step h2 L2 R2; [vld|].
  wr_step h3 L3 R3; [vld|].
  destruct (N.eqb_spec pvt 0) as [Z|_]; [destruct Vp; contradiction|].
  wr_step h4 L4 R4; [vld|].
  (* the walks of fix_token_chain_tail in h4 *)
  assert (W1 : head_of h4 pvt = Some (hd pvt a)).
  { unfold head_of. apply (walk_prev h4 (fuel_of h4) a pvt [] nb).
    - apply seg_app. cbn [hd]. split.
      + eapply seg_frame; [| |exact Sa]; [intros y _ Vy; vld|].
        intros y Hy. destruct (Ha y Hy) as (? & ? & ? & ?). split; fin.
      + cbn [seg]. split; [vld|]. split; [fin; exact Pp|]. split; [fin|exact I].
    - unfold fuel_of. pose proof (seg_length _ _ _ _ NDa Sa). vld. }
  assert (W2 : last_of h4 pvt = Some (List.last b pvt)).
  { unfold last_of. apply walk_next_nx.
    - cbn [nxseg]. split; [vld|]. split; [fin|].
      eapply nxseg_frame; [| |exact (seg_nxseg _ _ _ _ Sb)]; [intros y _ Vy; vld|].
      intros y Hy. destruct (Hb y Hy). fin.
    - unfold fuel_of. pose proof (seg_length _ _ _ _ NDb Sb). vld. }
  unfold fix_token_chain_tail.
  destruct (N.eqb_spec pvt 0) as [Z|_]; [destruct Vp; contradiction|].
  rewrite W1, W2. cbn [obind].
  wr_step h5 L5 R5; [vld|].
  destruct (opt_wr (nb =? 0) h5 nb Fpv pvt) as (h6 & E6 & L6 & R6).
  { intro Z. apply N.eqb_neq in Z. specialize (Vnb Z). vld. }
  rewrite E6. clear E6.
  exists h6. split; [reflexivity|]. split; [vld|].
  assert (VV : forall y, valid h y -> valid h6 y) by (intros y Vy; vld).
  split.
  { apply seg_app. cbn [hd]. split.
    - eapply seg_frame; [| |exact Sa]; [intros y _ Vy; apply VV, Vy|].
      intros y Hy. destruct (Ha y Hy) as (? & ? & ? & ?). split; fin.
    - cbn [seg]. split; [apply VV, Vp|]. split; [fin; exact Pp|]. split; [fin|].
      destruct b as [|y b']; [exact I|].
      assert (Z : (nb =? 0) = false).
      { apply N.eqb_neq. unfold nb. cbn [hd]. destruct (seg_valid _ _ _ _ _ Sb (or_introl eq_refl)); assumption. }
      eapply seg_change_pv; [exact Sb| | | |].
      + intros z _ Vz. apply VV, Vz.
      + change y with nb. rdrw. rewrite Z. eqbs. reflexivity.
      + change y with nb. assert (nb <> t) by (apply not_eq_sym; exact Ntnb). assert (nb <> pvt) by (apply not_eq_sym; exact Npnb). fin.
      + intros z Hz. destruct (Hb z (or_intror Hz)).
        assert (z <> nb) by (unfold nb; cbn [hd]; intro X; rewrite X in Hz; inversion NDb; contradiction).
        split; fin. }
  split; [rdrw; eqbs; reflexivity|].
  assert (Nthd : t <> hd pvt a).
  { destruct a as [|y a']; cbn [hd]; [exact Ntp|]. destruct (Ha y (or_introl eq_refl)) as (_ & ? & _). apply not_eq_sym. assumption. }
  split; [fin|]. split; [fin|]. split; [fin|].
  intros j g H1 H2 H3 H4 H5 H6. fold nb in H5. frame_tac.
Qed.

(* ... and t the head of its chain: the rest becomes a chain of its own (its head does not learn the
   tail: nothing reads it - strip_line_tokens_from_block, the only caller, discards that chain) *)
Theorem pop_head_spec h t b :
  seg h 0 (t :: b) 0 -> NoDup (t :: b) ->
  exists h', token_pop_link_from_chain h t = Some h' /\ length h' = length h /\
    seg h' 0 b 0 /\ rd h' t Fnx = Some 0 /\ rd h' t Fpv = Some 0 /\ rd h' t Ftl = Some t /\
    (forall j g, ~ (j = t /\ g = Fnx) -> ~ (j = t /\ g = Fpv) -> ~ (j = t /\ g = Ftl) -> ~ (j = hd 0 b /\ g = Fpv) -> rd h' j g = rd h j g).
Proof.
  intros HS ND.
  set (nb := hd 0 b).
  cbn [seg] in HS. destruct HS as (Vt & Pt & Nt & Sb). fold nb in Nt.
  apply NoDup_cons_iff in ND. destruct ND as [Tn NDb].
  assert (Nb_cases : nb = 0 \/ In nb b) by (unfold nb; destruct b; [left; reflexivity|right; left; reflexivity]).
  assert (Vnb : nb <> 0 -> valid h nb) by (intro Z; destruct Nb_cases as [|I]; [contradiction|eapply seg_valid; [exact Sb|exact I]]).
  assert (Ntnb : t <> nb).
  { intro X. destruct Nb_cases as [Z|I]; [destruct Vt; congruence|]. apply Tn. rewrite X. exact I. }
  unfold token_pop_link_from_chain.
  destruct (N.eqb_spec t 0) as [Z|_]; [destruct Vt; contradiction|].
  rewrite Pt, Nt. cbn [obind N.eqb].
  wr_step h1 L1 R1; [exact Vt|].
  wr_step h2 L2 R2; [vld|].
  wr_step h3 L3 R3; [vld|].
  destruct (opt_wr (nb =? 0) h3 nb Fpv 0) as (h4 & E4 & L4 & R4).
  { intro Z. apply N.eqb_neq in Z. specialize (Vnb Z). vld. }
  rewrite E4. clear E4.
  exists h4. split; [reflexivity|]. split; [vld|].
  assert (VV : forall y, valid h y -> valid h4 y) by (intros y Vy; vld).
  split.
  { destruct b as [|y b']; [exact I|].
    assert (Z : (nb =? 0) = false).
    { apply N.eqb_neq. unfold nb. cbn [hd]. destruct (seg_valid _ _ _ _ _ Sb (or_introl eq_refl)); assumption. }
    eapply seg_change_pv; [exact Sb| | | |].
    - intros z _ Vz. apply VV, Vz.
    - change y with nb. rdrw. rewrite Z. eqbs. reflexivity.
    - change y with nb. assert (nb <> t) by (apply not_eq_sym; exact Ntnb). fin.
    - intros z Hz.
      assert (z <> t) by (intro X; apply Tn; rewrite <- X; right; exact Hz).
      assert (z <> nb) by (unfold nb; cbn [hd]; intro X; rewrite X in Hz; inversion NDb; contradiction).
      split; fin. }
  split; [fin|]. split; [fin|]. split; [fin|].
  intros j g H1 H2 H3 H4. fold nb in H4. frame_tac.
Qed.
