From Coq Require Import Lia.
From MMD.lib Require Import Bytes BytesFacts PrefixCode.
From MMD.gen Require Import Escapers.
From MMD.model Require Import OpmlModel.
From MMD.proofs Require Import EscaperProofs.
Local Open Scope N_scope.

Fixpoint list_eqb (a b : list N) : bool :=
  match a, b with [], [] => true | x :: a', y :: b' => (x =? y) && list_eqb a' b' | _, _ => false end.
Lemma list_eqb_eq a : forall b, list_eqb a b = true -> a = b.
Proof.
  induction a as [|x a IH]; intros [|y b] H; cbn in H; try discriminate; [reflexivity|].
  apply andb_true_iff in H as [H1 H2]. apply N.eqb_eq in H1. subst. f_equal. apply IH. exact H2.
Qed.

(* p is found as itself, whatever follows it *)
Fixpoint lookup_ok (es : list (list N * N)) (p : list N) (b : N) : bool :=
  match es with
  | [] => false
  | (q, c) :: r => if list_eqb q p then (c =? b) else negb (prefixb q p) && negb (prefixb p q) && lookup_ok r p b
  end.

Lemma lookup_ok_find es p b : lookup_ok es p b = true -> forall rest, find_entity es (p ++ rest) = Some (b, length p).
Proof.
  induction es as [|[q c] r IH]; cbn [lookup_ok find_entity]; intros H rest; [discriminate|].
  destruct (list_eqb q p) eqn:E.
  - apply list_eqb_eq in E. subst q. rewrite prefixb_app. apply N.eqb_eq in H. subst. reflexivity.
  - apply andb_true_iff in H as [H H3]. apply andb_true_iff in H as [H1 H2].
    apply negb_true_iff in H1, H2.
    destruct (prefixb q (p ++ rest)) eqn:Eq.
    + exfalso. destruct (prefix_common q p (p ++ rest) Eq (prefixb_app p rest)) as [Hc|Hc]; congruence.
    + apply IH. exact H3.
Qed.

(* a codeword of the escaper decodes to its byte *)
Definition code_ok (t : list (list N)) (b : N) : bool :=
  match tab_enc t b with
  | [] => false
  | [c] => (c =? b) && negb (c =? 38)
  | c :: p => (c =? 38) && lookup_ok entities p b
  end.

Lemma unesc_skip n : forall p rest, length p = n -> unesc n (p ++ rest) = unesc 0 rest.
Proof.
  induction n as [|n IH]; intros p rest H.
  - destruct p; [reflexivity|discriminate].
  - destruct p as [|x p]; [discriminate|]. cbn [app unesc]. apply IH. cbn in H. lia.
Qed.

Lemma unesc_code t b : code_ok t b = true -> forall rest, unesc 0 (tab_enc t b ++ rest) = b :: unesc 0 rest.
Proof.
  unfold code_ok. intros H rest. destruct (tab_enc t b) as [|c [|d p]] eqn:E; [discriminate| |].
  - apply andb_true_iff in H as [H1 H2]. apply N.eqb_eq in H1. subst c. apply negb_true_iff in H2.
    cbn [app unesc]. rewrite H2. reflexivity.
  - apply andb_true_iff in H as [H1 H2]. cbn [app unesc]. rewrite H1.
    change (d :: p ++ rest) with ((d :: p) ++ rest). rewrite (lookup_ok_find _ _ _ H2 rest).
    f_equal. apply unesc_skip. reflexivity.
Qed.

Theorem unesc_esc t alphabet : forallb (code_ok t) alphabet = true ->
  forall s, over alphabet s -> xml_as_text (esc t s) = s.
Proof.
  intros Hc s Hs. unfold xml_as_text, esc, encode. induction Hs as [|b s Hb Hs IH]; [reflexivity|].
  cbn [flat_map]. rewrite forallb_forall in Hc. rewrite (unesc_code t b (Hc b Hb)). f_equal. exact IH.
Qed.

Lemma opml_codes_ok : forallb (code_ok esc_opml) bytes1 = true.
Proof. vm_compute. reflexivity. Qed.

(* ---- outline nesting *)
Local Close Scope N_scope.

(* with a stack [l; l-1; ...; 1] closing down to level l' <= l+1 leaves [l'-1; ...; 1] *)
Fixpoint countdown (n : nat) : list nat := match n with O => [] | S k => n :: countdown k end.

Lemma close_ge_countdown l : forall n, 1 <= l -> l <= S n ->
  close_ge l (countdown n) = (repeat OClose (S n - l), countdown (l - 1)).
Proof.
  induction n as [|n IH]; intros H1 H2.
  - assert (l = 1) by lia. subst. reflexivity.
  - cbn [countdown close_ge]. destruct (Nat.leb_spec l (S n)) as [Hle|Hgt].
    + rewrite (IH H1 Hle). replace (S (S n) - l) with (S (S n - l)) by lia. reflexivity.
    + assert (l = S (S n)) by lia. subst. replace (S (S n) - S (S n)) with 0 by lia.
      replace (S (S n) - 1) with (S n) by lia. reflexivity.
Qed.

Lemma close_all n : close_ge 0 (countdown n) = (repeat OClose n, []).
Proof. induction n as [|n IH]; [reflexivity|]. cbn [countdown close_ge Nat.leb]. rewrite IH. reflexivity. Qed.

Lemma import_closes k : forall depth r, k <= depth -> import_levels (repeat OClose k ++ r) depth = import_levels r (depth - k).
Proof.
  induction k as [|k IH]; intros depth r H; cbn [repeat app import_levels].
  - rewrite Nat.sub_0_r. reflexivity.
  - rewrite IH by lia. f_equal. lia.
Qed.

Lemma final_closes k : forall depth r, k <= depth -> final_depth (repeat OClose k ++ r) depth = final_depth r (depth - k).
Proof.
  induction k as [|k IH]; intros depth r H; cbn [repeat app final_depth].
  - rewrite Nat.sub_0_r. reflexivity.
  - rewrite IH by lia. f_equal. lia.
Qed.

Lemma levels_roundtrip_from levels : forall n, nested_from n levels = true ->
  import_levels (export_tags levels (countdown n)) n = levels /\ final_depth (export_tags levels (countdown n)) n = 0.
Proof.
  induction levels as [|l r IH]; intros n H.
  - cbn [export_tags]. rewrite close_all. cbn [fst]. split.
    + rewrite <- (app_nil_r (repeat OClose n)). rewrite import_closes by lia. reflexivity.
    + rewrite <- (app_nil_r (repeat OClose n)). rewrite final_closes by lia. cbn. lia.
  - cbn [nested_from] in H. apply andb_true_iff in H as [H H3]. apply andb_true_iff in H as [H1 H2].
    apply Nat.leb_le in H1, H2. cbn [export_tags]. rewrite (close_ge_countdown l n H1 H2).
    assert (Ec : l :: countdown (l - 1) = countdown l) by (destruct l; [lia|]; cbn; rewrite Nat.sub_0_r; reflexivity).
    rewrite Ec. destruct (IH l H3) as [I1 I2]. split.
    + rewrite import_closes by lia. cbn [import_levels]. replace (S (n - (S n - l))) with l by lia. rewrite I1. reflexivity.
    + rewrite final_closes by lia. cbn [final_depth]. replace (S (n - (S n - l))) with l by lia. exact I2.
Qed.

(* ---- slices: nothing between the cuts is lost *)
Fixpoint increasing (pos : nat) (cuts : list nat) : bool :=
  match cuts with [] => true | c :: r => Nat.leb pos c && increasing c r end.

Lemma slices_concat (src : list N) cuts : forall pos, increasing pos cuts = true ->
  concat (slices src pos cuts) = skipn pos src.
Proof.
  induction cuts as [|c r IH]; intros pos H; cbn [slices concat].
  - apply app_nil_r.
  - cbn [increasing] in H. apply andb_true_iff in H as [H1 H2]. apply Nat.leb_le in H1.
    rewrite (IH c H2). rewrite <- (firstn_skipn (c - pos) (skipn pos src)) at 2.
    f_equal. rewrite skipn_skipn'. f_equal. lia.
Qed.

Lemma itmz_codes_ok : forallb (code_ok esc_itmz) bytes1 = true.
Proof. vm_compute. reflexivity. Qed.

Lemma levels_roundtrip levels : properly_nested levels = true ->
  import_levels (export_tags levels []) 0 = levels /\ final_depth (export_tags levels []) 0 = 0.
Proof. intros H. apply (levels_roundtrip_from levels 0 H). Qed.

(* a document that starts with text before the first heading: that text is an item of level 100 *)
Lemma preamble_closed levels : levels <> [] -> forallb (fun l => Nat.leb l 100) levels = true ->
  export_tags levels [100] = OClose :: export_tags levels [].
Proof.
  destruct levels as [|l r]; [congruence|]. intros _ H. cbn [forallb] in H. apply andb_true_iff in H as [H _].
  cbn [export_tags close_ge]. rewrite H. reflexivity.
Qed.

Lemma levels_roundtrip_preamble levels : properly_nested levels = true -> forallb (fun l => Nat.leb l 100) levels = true ->
  import_levels (OOpen :: export_tags levels [100]) 0 = 1 :: levels /\ final_depth (OOpen :: export_tags levels [100]) 0 = 0.
Proof.
  intros H Hb. destruct levels as [|l r] eqn:E.
  - cbn. auto.
  - rewrite <- E in *. rewrite preamble_closed by (subst; [discriminate|assumption] || (subst; discriminate) || assumption).
    cbn [import_levels final_depth pred]. destruct (levels_roundtrip levels H) as [H1 H2]. rewrite H1, H2. auto.
Qed.
