(* C15: read/write algebra of the token heap, list segments (chains), pointer walks.
   Used by proofs/TokenHeapProofs.v. *)
From Coq Require Import List NArith Bool Lia.
From MMD.lib Require Import Bytes.
From MMD.model Require Import TokenHeap.
Import ListNotations.
Local Open Scope N_scope.

Definition feqb (a b : fld) : bool :=
  match a, b with
  | Fty, Fty | Fst, Fst | Fln, Fln | Fnx, Fnx | Fpv, Fpv | Fch, Fch | Ftl, Ftl | Fmt, Fmt => true
  | _, _ => false
  end.

Lemma feqb_eq a b : feqb a b = true <-> a = b.
Proof. destruct a, b; cbn; split; intro H; try reflexivity; try discriminate. Qed.

Lemma getf_setf t f g v : getf (setf t f v) g = if feqb g f then v else getf t g.
Proof. destruct f, g; reflexivity. Qed.

Definition valid (h : heap) (i : N) : Prop := i <> 0 /\ i <= Nlen h.

Lemma idx_lt h i : valid h i -> (idx i < length h)%nat.
Proof. unfold valid, idx, Nlen. intros [H0 H1]. lia. Qed.

Lemma tokat_valid h i : valid h i -> exists t, tokat h i = Some t.
Proof.
  intro V. unfold tokat. destruct (N.eqb_spec i 0) as [E|E]; [destruct V; contradiction|].
  destruct (nth_error h (idx i)) eqn:N; [eauto|].
  apply nth_error_None in N. apply idx_lt in V. lia.
Qed.

Lemma tokat_some_valid h i t : tokat h i = Some t -> valid h i.
Proof.
  unfold tokat, valid. destruct (N.eqb_spec i 0) as [E|E]; [discriminate|].
  intro H. split; [exact E|].
  assert (idx i < length h)%nat by (apply nth_error_Some; congruence).
  unfold idx, Nlen in *. lia.
Qed.

Lemma rd_valid h i f : valid h i -> exists v, rd h i f = Some v.
Proof. intro V. destruct (tokat_valid h i V) as [t E]. unfold rd. rewrite E. eauto. Qed.

Lemma rd_some_valid h i f v : rd h i f = Some v -> valid h i.
Proof. unfold rd. destruct (tokat h i) eqn:E; [|discriminate]. intros _. eapply tokat_some_valid; eauto. Qed.

Lemma upd_nth_length {A} (l : list A) n g : length (upd_nth l n g) = length l.
Proof. revert n; induction l as [|x r IH]; intros [|n]; cbn; auto. Qed.

Lemma nth_error_upd_nth {A} (l : list A) n m g :
  nth_error (upd_nth l n g) m = if Nat.eqb m n then option_map g (nth_error l m) else nth_error l m.
Proof.
  revert n m; induction l as [|x r IH]; intros [|n] [|m]; cbn; auto;
    try (destruct (Nat.eqb m n); reflexivity).
Qed.

Lemma idx_inj i j : i <> 0 -> j <> 0 -> idx i = idx j -> i = j.
Proof. unfold idx. lia. Qed.

(* writing a field of a valid token succeeds; the new heap reads as the old one except there *)
Lemma wr_ok h i f v : valid h i ->
  exists h', wr h i f v = Some h' /\ length h' = length h /\
             forall j g, rd h' j g = if (j =? i) && feqb g f then Some v else rd h j g.
Proof.
  intro V. destruct (tokat_valid h i V) as [t E]. unfold wr. rewrite E.
  eexists; split; [reflexivity|]. split; [apply upd_nth_length|].
  intros j g. unfold rd, tokat.
  destruct (N.eqb_spec j 0) as [J0|J0].
  - subst j. destruct V as [V0 _]. destruct (N.eqb_spec 0 i); [congruence|reflexivity].
  - rewrite nth_error_upd_nth.
    destruct (N.eqb_spec j i) as [JI|JI].
    + subst j. rewrite Nat.eqb_refl. unfold tokat in E. destruct (N.eqb_spec i 0); [contradiction|].
      rewrite E. cbn. rewrite getf_setf. destruct (feqb g f); reflexivity.
    + destruct (Nat.eqb_spec (idx j) (idx i)) as [X|X]; [|reflexivity].
      exfalso. apply JI. destruct V. apply idx_inj; auto.
Qed.

Lemma valid_len h h' i : length h' = length h -> valid h i -> valid h' i.
Proof. unfold valid, Nlen. intros -> H; exact H. Qed.

(* allocation *)
Lemma fresh_not_valid h : ~ valid h (fresh h).
Proof. unfold valid, fresh. lia. Qed.

Lemma valid_neq_fresh h i : valid h i -> i <> fresh h.
Proof. intros V E. subst. exact (fresh_not_valid h V). Qed.

Lemma rd_app_old h t i f : valid h i -> rd (h ++ [t]) i f = rd h i f.
Proof.
  intro V. unfold rd, tokat. destruct (N.eqb_spec i 0); [reflexivity|].
  rewrite nth_error_app1; [reflexivity|apply idx_lt; exact V].
Qed.

Lemma rd_app_new h t f : rd (h ++ [t]) (fresh h) f = Some (getf t f).
Proof.
  unfold rd, tokat, fresh. destruct (N.eqb_spec (Nlen h + 1) 0); [lia|].
  rewrite nth_error_app2; unfold idx, Nlen; [|lia].
  replace (N.to_nat (N.of_nat (length h) + 1 - 1) - length h)%nat with O by lia. reflexivity.
Qed.

Lemma valid_app_old h t i : valid h i -> valid (h ++ [t]) i.
Proof. unfold valid, Nlen. rewrite app_length. cbn. lia. Qed.

Lemma valid_app_new h t : valid (h ++ [t]) (fresh h).
Proof. unfold valid, Nlen, fresh. rewrite app_length. cbn. unfold Nlen. lia. Qed.

Lemma fresh_app h t : fresh (h ++ [t]) = fresh h + 1.
Proof. unfold fresh, Nlen. rewrite app_length. cbn. lia. Qed.

(* ---- list segments: [seg h p l q] says that the tokens of l are linked through next / prev in
   this order, the first one's prev is p and the last one's next is q *)
Fixpoint seg (h : heap) (p : N) (l : list N) (q : N) : Prop :=
  match l with
  | [] => True
  | x :: r => valid h x /\ rd h x Fpv = Some p /\ rd h x Fnx = Some (hd q r) /\ seg h x r q
  end.

Lemma last_cons_default {A} (l : list A) a d d' : last (a :: l) d = last (a :: l) d'.
Proof. revert a; induction l as [|b l IH]; intro a; [reflexivity|]. change (last (b :: l) d = last (b :: l) d'). apply IH. Qed.

Lemma last_cons {A} (l : list A) a d : last (a :: l) d = last l a.
Proof. destruct l as [|b l]; [reflexivity|]. change (last (b :: l) d = last (b :: l) a). apply last_cons_default. Qed.

Lemma seg_app h p l1 l2 q :
  seg h p (l1 ++ l2) q <-> seg h p l1 (hd q l2) /\ seg h (last l1 p) l2 q.
Proof.
  revert p; induction l1 as [|x r IH]; intro p.
  - cbn. tauto.
  - change ((x :: r) ++ l2) with (x :: (r ++ l2)). cbn [seg]. rewrite IH.
    assert (E1 : hd q (r ++ l2) = hd (hd q l2) r) by (destruct r; reflexivity).
    assert (E2 : last (x :: r) p = last r x) by apply last_cons.
    rewrite E1, E2. tauto.
Qed.

(* a segment only depends on the next / prev fields (and the existence) of its own tokens *)
Lemma seg_frame h h' p l q :
  (forall x, In x l -> valid h x -> valid h' x) ->
  (forall x, In x l -> rd h' x Fnx = rd h x Fnx /\ rd h' x Fpv = rd h x Fpv) ->
  seg h p l q -> seg h' p l q.
Proof.
  revert p; induction l as [|x r IH]; intros p HV HF; cbn [seg]; [tauto|].
  intros (V & P & Nx & S).
  destruct (HF x (or_introl eq_refl)) as [F1 F2].
  split; [apply HV; [left; reflexivity|exact V]|].
  split; [congruence|]. split; [congruence|].
  apply IH; [intros y Hy; apply HV; right; exact Hy|intros y Hy; apply HF; right; exact Hy|exact S].
Qed.

Lemma seg_valid h p l q x : seg h p l q -> In x l -> valid h x.
Proof.
  revert p; induction l as [|y r IH]; intros p; cbn [seg In]; [tauto|].
  intros (V & _ & _ & S) [E|I]; [subst; exact V|eapply IH; eauto].
Qed.

(* the same segment with another predecessor for its first token / another successor of its last *)
Lemma seg_change_pv h h' p p' x r q :
  seg h p (x :: r) q ->
  (forall y, In y (x :: r) -> valid h y -> valid h' y) ->
  rd h' x Fpv = Some p' -> rd h' x Fnx = rd h x Fnx ->
  (forall y, In y r -> rd h' y Fnx = rd h y Fnx /\ rd h' y Fpv = rd h y Fpv) ->
  seg h' p' (x :: r) q.
Proof.
  cbn [seg]. intros (V & P & Nx & S) HV P' Nx' HF.
  split; [apply HV; [left; reflexivity|exact V]|]. split; [exact P'|]. split; [congruence|].
  eapply seg_frame; [| |exact S]; [intros y Hy; apply HV; right; exact Hy|exact HF].
Qed.

(* ---- pointer walks along a segment *)

Lemma walk_next h fuel p l x r q :
  seg h p (l ++ x :: r) q -> q = 0 -> (length r < fuel)%nat ->
  walk Fnx h fuel x = Some (last r x).
Proof.
  intros S Q. subst q. apply seg_app in S. destruct S as [_ S].
  remember (last l p) as p' eqn:E. clear E p l.
  revert fuel x p' S; induction r as [|y r IH]; intros fuel x p' S L.
  - destruct fuel; [cbn in L; lia|]. cbn [walk]. cbn in S. destruct S as (_ & _ & Nx & _).
    rewrite Nx. cbn. reflexivity.
  - destruct fuel; [cbn in L; lia|]. cbn [walk]. cbn [seg] in S. destruct S as (_ & _ & Nx & S).
    cbn [hd] in Nx. rewrite Nx. cbn [obind].
    assert (V : valid h y) by (cbn [seg] in S; tauto).
    destruct (N.eqb_spec y 0) as [E|E]; [destruct V; contradiction|].
    rewrite (IH fuel y x S); [|cbn in L; lia].
    rewrite (last_cons r y x). reflexivity.
Qed.

Lemma walk_prev h fuel l x r q :
  seg h 0 (l ++ x :: r) q -> (length l < fuel)%nat ->
  walk Fpv h fuel x = Some (hd x l).
Proof.
  revert fuel x r; induction l as [|y l IH] using rev_ind; intros fuel x r S L.
  - destruct fuel; [cbn in L; lia|]. cbn [walk app] in *. cbn [seg] in S. destruct S as (_ & P & _).
    rewrite P. cbn. reflexivity.
  - destruct fuel; [rewrite app_length in L; cbn in L; lia|]. cbn [walk].
    rewrite <- app_assoc in S. cbn [app] in S.
    pose proof S as S'. apply seg_app in S'. destruct S' as [_ S'].
    cbn [seg] in S'. destruct S' as (Vy & _ & _ & (_ & Px & _)).
    rewrite Px. cbn [obind].
    destruct (N.eqb_spec y 0) as [E|E]; [destruct Vy; contradiction|].
    rewrite (IH fuel y (x :: r) S); [|rewrite app_length in L; cbn in L; lia].
    destruct l; reflexivity.
Qed.

(* a chain with distinct tokens is no longer than the heap *)
Lemma NoDup_map_idx l : (forall x, In x l -> x <> 0) -> NoDup l -> NoDup (map idx l).
Proof.
  induction l as [|x r IH]; intros NZ ND; [constructor|].
  inversion ND as [|? ? Hx Hr]; subst. cbn [map]. constructor.
  - intro Hin. apply in_map_iff in Hin. destruct Hin as (y & E & Hy).
    assert (y = x) by (apply idx_inj; [apply NZ; right; exact Hy|apply NZ; left; reflexivity|exact E]).
    subst y. contradiction.
  - apply IH; [intros y Hy; apply NZ; right; exact Hy|exact Hr].
Qed.

Lemma seg_length h p l q : NoDup l -> seg h p l q -> (length l <= length h)%nat.
Proof.
  intros ND S.
  assert (I : incl (map idx l) (seq 0 (length h))).
  { intros n Hn. apply in_map_iff in Hn. destruct Hn as (x & <- & Hx).
    apply in_seq. pose proof (idx_lt h x (seg_valid _ _ _ _ _ S Hx)). lia. }
  assert (ND' : NoDup (map idx l)).
  { apply NoDup_map_idx; [|exact ND]. intros x Hx. destruct (seg_valid _ _ _ _ _ S Hx); assumption. }
  pose proof (NoDup_incl_length ND' I) as L. rewrite map_length, seq_length in L. exact L.
Qed.
