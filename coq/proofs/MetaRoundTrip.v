(* C11: the multi-key round trip.  A block written as lines "key:value" (one line per entry) followed by
   an empty line and any body - or by the end of the text - is parsed back into exactly those entries,
   in order, each with its offset, its normalised key and the cleaned text of the rest of its line. *)
From Coq Require Import Lia.
From MMD.lib Require Import Bytes BytesFacts.
From MMD.model Require Import LabelModel MetaModel.
From MMD.proofs Require Import MetaProofs.
Local Open Scope N_scope.

Definition noteol (b : N) : bool := negb (is_eol b).
Definition no_eol (v : list N) : bool := forallb noteol v.
Definition entry := (list N * list N)%type.
Definition entry_line (e : entry) : list N := fst e ++ 58 :: snd e ++ [10].
Definition block_text (es : list entry) : list N := flat_map entry_line es.
Definition wf_entry (e : entry) : bool := wf_key (fst e) && no_eol (snd e).

Fixpoint with_offsets (off : nat) (es : list entry) : list (nat * entry) :=
  match es with [] => [] | e :: r => (off, e) :: with_offsets (off + length (entry_line e)) r end.
Definition lines_of_entries (off : nat) (es : list entry) : list (nat * list N) :=
  map (fun p => (fst p, entry_line (snd p))) (with_offsets off es).

Lemma keychar_noteol b : is_keychar b = true -> noteol b = true.
Proof.
  unfold is_keychar, is_alnum, noteol, is_eol. intros H.
  destruct (N.eqb_spec b 10) as [->|]; [discriminate|]. destruct (N.eqb_spec b 13) as [->|]; [discriminate|]. reflexivity.
Qed.
Lemma alnum_keychar b : is_alnum b = true -> is_keychar b = true.
Proof. unfold is_keychar. intros ->. reflexivity. Qed.

Lemma key_no_eol k : wf_key k = true -> no_eol k = true.
Proof.
  destruct k as [|x r]; [discriminate|]. cbn [wf_key no_eol forallb]. intros H. apply andb_true_iff in H as [Hx Hr].
  rewrite (keychar_noteol x (alnum_keychar x Hx)). cbn [andb].
  apply forallb_forall. intros b Hb. rewrite forallb_forall in Hr. apply keychar_noteol, Hr, Hb.
Qed.

Lemma entry_body_no_eol e : wf_entry e = true -> no_eol (fst e ++ 58 :: snd e) = true.
Proof.
  unfold wf_entry. intros H. apply andb_true_iff in H as [Hk Hv]. unfold no_eol. rewrite forallb_app.
  fold (no_eol (fst e)). rewrite (key_no_eol _ Hk). cbn [forallb andb]. exact Hv.
Qed.

(* ---- one line *)
Lemma split_one ln : no_eol ln = true -> forall f rest off,
  split_lines (S f) (ln ++ 10 :: rest) off = (off, ln ++ [10]) :: split_lines f rest (off + S (length ln)).
Proof.
  intros Hn f rest off.
  assert (Hb : take_while noteol (ln ++ 10 :: rest) = ln) by (apply take_while_all; [exact Hn|reflexivity]).
  assert (Hs : skipn (length ln) (ln ++ 10 :: rest) = 10 :: rest) by apply skipn_app_exact.
  assert (Hl : skipn (length (ln ++ [10])) (ln ++ 10 :: rest) = rest).
  { replace (ln ++ 10 :: rest) with ((ln ++ [10]) ++ rest) by (rewrite <- app_assoc; reflexivity). apply skipn_app_exact. }
  assert (Hlen : (off + length (ln ++ [10%N]) = off + S (length ln))%nat) by (rewrite app_length; cbn; lia).
  destruct ln as [|y ln'].
  - cbn [app] in *. cbn [split_lines]. change (fun b => negb (is_eol b)) with noteol.
    cbn [take_while noteol is_eol N.eqb negb orb Pos.eqb length skipn app]. cbn in Hlen. reflexivity.
  - cbn [app] in *. cbn [split_lines]. change (fun b => negb (is_eol b)) with noteol.
    rewrite Hb, Hs. cbn iota beta. cbn [app]. rewrite Hl. cbn [app] in Hlen. rewrite Hlen. reflexivity.
Qed.

Lemma split_entries es : forallb wf_entry es = true -> forall f tail off,
  split_lines (length es + f) (block_text es ++ tail) off =
  lines_of_entries off es ++ split_lines f tail (off + length (block_text es)).
Proof.
  induction es as [|e r IH]; intros Hw f tail off.
  - cbn. rewrite Nat.add_0_r. reflexivity.
  - cbn [forallb] in Hw. apply andb_true_iff in Hw as [He Hr].
    cbn [block_text flat_map length Nat.add]. rewrite <- app_assoc.
    unfold entry_line at 1. rewrite <- !app_assoc. cbn [app].
    assert (Eq : fst e ++ 58 :: (snd e ++ [10]) ++ flat_map entry_line r ++ tail = (fst e ++ 58 :: snd e) ++ 10 :: (block_text r ++ tail)).
    { unfold block_text. rewrite <- ?app_assoc. cbn [app]. rewrite <- ?app_assoc. reflexivity. }
    rewrite Eq. rewrite (split_one _ (entry_body_no_eol e He)).
    rewrite IH by exact Hr.
    unfold lines_of_entries. cbn [with_offsets map fst snd].
    assert (El : length (entry_line e) = S (length (fst e ++ 58 :: snd e))).
    { unfold entry_line. rewrite !app_length. cbn [length]. rewrite app_length. cbn. lia. }
    assert (Eline : (fst e ++ 58 :: snd e) ++ [10] = entry_line e) by (unfold entry_line; rewrite <- app_assoc; reflexivity).
    assert (El2 : length (entry_line e ++ flat_map entry_line r) = (S (length (fst e ++ 58%N :: snd e)) + length (block_text r))%nat).
    { rewrite app_length, El. reflexivity. }
    rewrite Eline, El2, El. cbn [app]. f_equal. f_equal. f_equal. lia.
Qed.

(* ---- the lines of the block *)
Lemma entry_line_not_blank e : wf_entry e = true -> is_blank (entry_line e) = false.
Proof.
  intros H. unfold is_blank, line_body. change (fun b => negb (is_eol b)) with noteol.
  unfold entry_line.
  replace (fst e ++ 58 :: snd e ++ [10]) with ((fst e ++ 58 :: snd e) ++ [10]) by (rewrite <- app_assoc; reflexivity).
  rewrite (take_while_all noteol _ [10] (entry_body_no_eol e H) eq_refl).
  unfold wf_entry in H. apply andb_true_iff in H as [Hk _]. destruct (fst e) as [|x k]; [discriminate|].
  cbn [wf_key] in Hk. apply andb_true_iff in Hk as [Hx _]. cbn [app forallb].
  assert (E : (x =? 32) || (x =? 9) = false).
  { unfold is_alnum in Hx. destruct (N.eqb_spec x 32) as [->|]; [discriminate|]. destruct (N.eqb_spec x 9) as [->|]; [discriminate|]. reflexivity. }
  rewrite E. reflexivity.
Qed.

Lemma block_lines_entries es : forallb wf_entry es = true -> forall off more,
  (match more with [] => True | (_, ln) :: _ => is_blank ln = true end) ->
  block_lines (lines_of_entries off es ++ more) = lines_of_entries off es.
Proof.
  induction es as [|e r IH]; intros Hw off more Hm.
  - cbn. destruct more as [|[o ln] m]; [reflexivity|]. cbn [block_lines]. rewrite Hm. reflexivity.
  - cbn [forallb] in Hw. apply andb_true_iff in Hw as [He Hr].
    unfold lines_of_entries. cbn [with_offsets map app fst snd block_lines]. rewrite (entry_line_not_blank e He).
    f_equal. apply (IH Hr). exact Hm.
Qed.

(* ---- assembling the entries *)
Definition raw (p : nat * entry) : nat * list N * list N := (fst p, fst (snd p), snd (snd p) ++ [10]).

Lemma entry_key_len e : wf_entry e = true -> meta_key_len (entry_line e) = Some (length (fst e)).
Proof. intros H. unfold wf_entry in H. apply andb_true_iff in H as [Hk _]. unfold entry_line. apply meta_key_len_exact. exact Hk. Qed.

Lemma build_entries es : forallb wf_entry es = true -> forall off cur acc,
  build (lines_of_entries off es) cur acc =
  acc ++ (match cur with Some c => [c] | None => [] end) ++ map raw (with_offsets off es).
Proof.
  induction es as [|e r IH]; intros Hw off cur acc.
  - cbn. destruct cur; rewrite ?app_nil_r; reflexivity.
  - cbn [forallb] in Hw. apply andb_true_iff in Hw as [He Hr].
    unfold lines_of_entries. cbn [with_offsets map fst snd build]. rewrite (entry_key_len e He).
    fold (lines_of_entries (off + length (entry_line e)) r). rewrite (IH Hr).
    assert (E1 : firstn (length (fst e)) (entry_line e) = fst e) by (unfold entry_line; apply firstn_app_exact).
    assert (E2 : skipn (S (length (fst e))) (entry_line e) = snd e ++ [10]).
    { unfold entry_line. replace (S (length (fst e))) with (length (fst e ++ [58])) by (rewrite app_length; cbn; lia).
      replace (fst e ++ 58 :: snd e ++ [10]) with ((fst e ++ [58]) ++ snd e ++ [10]) by (rewrite <- app_assoc; reflexivity).
      apply skipn_app_exact. }
    rewrite E1, E2. unfold raw at 2. cbn [fst snd map app].
    destruct cur as [c|]; cbn [app]; rewrite <- ?app_assoc; reflexivity.
Qed.

Lemma endoff_gen l : forall o a,
  fold_left (fun _ p => (fst p + length (snd p))%nat) (lines_of_entries o l) a =
  match l with [] => a | _ => (o + length (block_text l))%nat end.
Proof.
  induction l as [|e r IH]; intros o a; [reflexivity|].
  unfold lines_of_entries. cbn [with_offsets map fold_left fst snd].
  fold (lines_of_entries (o + length (entry_line e)) r). rewrite IH.
  cbn [block_text flat_map]. rewrite app_length. destruct r as [|e0 r0]; [cbn; lia|]. fold (block_text (e0 :: r0)). lia.
Qed.

Lemma endoff_entries es : forall off, es <> [] ->
  fold_left (fun _ p => (fst p + length (snd p))%nat) (lines_of_entries off es) O = (off + length (block_text es))%nat.
Proof. intros off Hne. rewrite endoff_gen. destruct es; [congruence|reflexivity]. Qed.

Lemma entries_le_text (l : list entry) : (length l <= length (block_text l))%nat.
Proof.
  induction l as [|e r IH]; [cbn; lia|]. cbn [block_text flat_map length]. rewrite app_length.
  unfold entry_line at 1. rewrite !app_length. cbn [length]. fold (block_text r). lia.
Qed.

Section WS.
Variable ws : list N.

Definition result (es : list entry) : list meta :=
  map (fun p => mkmeta (fst p) (label_from_string (fst (snd p))) (clean_string ws false false (snd (snd p) ++ [10]))) (with_offsets 0 es).

(* tail: what follows the block - nothing, or an empty line and any body *)
Definition tail_ok (tail : list N) : Prop := tail = [] \/ exists body, tail = 10 :: body.

Theorem meta_roundtrip e1 r tail :
  forallb wf_entry (e1 :: r) = true -> forallb is_ws (snd e1) = false -> tail_ok tail ->
  meta_parse ws (block_text (e1 :: r) ++ tail) = Some (result (e1 :: r), length (block_text (e1 :: r))).
Proof.
  intros Hw Hv Ht. set (es := e1 :: r) in *.
  assert (Hlines : exists more, lines_of (block_text es ++ tail) = lines_of_entries 0 es ++ more /\
                                match more with [] => True | (_, ln) :: _ => is_blank ln = true end).
  { unfold lines_of.
    replace (S (length (block_text es ++ tail))) with (length es + (S (length (block_text es ++ tail)) - length es))%nat.
    2:{ pose proof (entries_le_text es).
        rewrite app_length. lia. }
    rewrite (split_entries es Hw). eexists. split; [reflexivity|].
    destruct Ht as [->|[body ->]].
    - destruct (S (length (block_text es ++ [])) - length es)%nat; exact I.
    - assert (Hf : exists f, (S (length (block_text es ++ 10%N :: body)) - length es = S f)%nat).
      { pose proof (entries_le_text es).
        rewrite app_length. cbn [length]. exists (length (block_text es) + S (length body) - length es)%nat. lia. }
      destruct Hf as [f ->]. change (10 :: body) with ([] ++ 10 :: body). rewrite (split_one [] eq_refl). reflexivity. }
  destruct Hlines as (more & El & Hm).
  unfold meta_parse. rewrite El. unfold es at 1. unfold lines_of_entries at 1. cbn [with_offsets map app fst snd].
  assert (He1 : wf_entry e1 = true) by (cbn [forallb] in Hw; apply andb_true_iff in Hw as [H _]; exact H).
  rewrite (entry_key_len e1 He1).
  assert (E2 : skipn (S (length (fst e1))) (entry_line e1) = snd e1 ++ [10]).
  { unfold entry_line. replace (S (length (fst e1))) with (length (fst e1 ++ [58])) by (rewrite app_length; cbn; lia).
    replace (fst e1 ++ 58 :: snd e1 ++ [10]) with ((fst e1 ++ [58]) ++ snd e1 ++ [10]) by (rewrite <- app_assoc; reflexivity).
    apply skipn_app_exact. }
  rewrite E2.
  assert (Hb : is_blank (snd e1 ++ [10]) = false).
  { unfold is_blank, line_body. change (fun b => negb (is_eol b)) with noteol.
    unfold wf_entry in He1. apply andb_true_iff in He1 as [_ Hn].
    rewrite (take_while_all noteol (snd e1) [10] Hn eq_refl). exact Hv. }
  rewrite Hb.
  change ((0%nat, entry_line e1) :: map (fun p => (fst p, entry_line (snd p))) (with_offsets (0 + length (entry_line e1)) r))
    with (lines_of_entries 0 es).
  rewrite (block_lines_entries es Hw 0 more Hm).
  rewrite (endoff_entries es 0 ltac:(discriminate)), (build_entries es Hw). cbn [app Nat.add].
  f_equal. f_equal. unfold result. rewrite map_map. apply map_ext. intros [o [k v]]. reflexivity.
Qed.
End WS.

(* ---- what the cleaned value is for an ordinary value: words separated by single blanks come back
   unchanged (clean_string turns the final line ending into a blank and trims it) *)
From MMD.lib Require Import Transducer.

Section Simple.
Variable ws : list N.
Hypothesis ws_blank : existsb (N.eqb 32) ws = true.

Definition plain (b : N) : bool :=
  negb (b =? 92) && negb (b =? 38) && negb (is_space b) && negb (existsb (N.eqb b) ws).
(* no leading, trailing or doubled blank; every other byte ordinary (no backslash, ampersand, white space) *)
Fixpoint simpleb (after_blank : bool) (v : list N) : bool :=
  match v with
  | [] => negb after_blank
  | b :: r => if b =? 32 then negb after_blank && simpleb true r else plain b && simpleb false r
  end.

Lemma trun_app {T} (st : T -> N -> T * list N) a : forall t b,
  trun T st t (a ++ b) = let '(t1, o1) := trun T st t a in let '(t2, o2) := trun T st t1 b in (t2, o1 ++ o2).
Proof.
  induction a as [|x r IH]; intros t b; cbn [app trun].
  - destruct (trun T st t b). reflexivity.
  - destruct (st t x) as [t1 o1]. rewrite IH. destruct (trun T st t1 r) as [t2 o2]. destruct (trun T st t2 b) as [t3 o3].
    rewrite app_assoc. reflexivity.
Qed.

Lemma cnormal_plain bw b : plain b = true -> cnormal false false bw b = (mkc false CNormal, [b]).
Proof.
  unfold plain. intros H. apply andb_true_iff in H as [H _]. apply andb_true_iff in H as [H H3]. apply andb_true_iff in H as [H1 H2].
  apply negb_true_iff in H1, H2, H3. unfold cnormal. rewrite H1, H3, H2. reflexivity.
Qed.

Lemma trun_simple v : forall ab, simpleb ab v = true ->
  trun cstate (cstep false false) (mkc ab CNormal) v = (mkc (match v with [] => ab | _ => false end) CNormal, v).
Proof.
  induction v as [|b r IH]; intros ab H; cbn [trun simpleb] in *.
  - reflexivity.
  - unfold cstep at 1. cbn [mode bw]. destruct (N.eqb_spec b 32) as [->|Hn].
    + apply andb_true_iff in H as [Ha Hr]. apply negb_true_iff in Ha. subst ab.
      change (cnormal false false false 32) with (mkc true CNormal, [32]). cbn iota beta.
      rewrite (IH true Hr). destruct r as [|y r']; [cbn in Hr; discriminate|]. reflexivity.
    + apply andb_true_iff in H as [Hp Hr]. rewrite (cnormal_plain ab b Hp). cbn iota beta. rewrite (IH false Hr).
      destruct r; reflexivity.
Qed.

Lemma trim_snoc_ws l x : existsb (N.eqb x) ws = true -> trim_trailing ws (l ++ [x]) = trim_trailing ws l.
Proof.
  intros Hx. induction l as [|y r IH]; cbn [app trim_trailing].
  - rewrite Hx. reflexivity.
  - rewrite IH. reflexivity.
Qed.

Lemma trim_simple v : forall ab, simpleb ab v = true -> trim_trailing ws v = v.
Proof.
  induction v as [|b r IH]; intros ab H; cbn [simpleb trim_trailing] in *; [reflexivity|].
  destruct (N.eqb_spec b 32) as [->|Hn].
  - apply andb_true_iff in H as [_ Hr]. rewrite (IH true Hr). destruct r as [|y r']; [cbn in Hr; discriminate|]. reflexivity.
  - apply andb_true_iff in H as [Hp Hr]. rewrite (IH false Hr). destruct r as [|y r']; [|reflexivity].
    unfold plain in Hp. apply andb_true_iff in Hp as [_ Hw]. apply negb_true_iff in Hw. rewrite Hw. reflexivity.
Qed.

Theorem clean_simple_value v : v <> [] -> simpleb true v = true -> clean_string ws false false (v ++ [10]) = v.
Proof.
  intros Hne Hs. unfold clean_string, clean_core, transduce. rewrite trun_app.
  unfold cinit. rewrite (trun_simple v true Hs). destruct v as [|b r]; [congruence|]. cbn iota beta.
  cbn [trun]. unfold cstep at 1. cbn [mode bw]. change (cnormal false false false 10) with (mkc true CNormal, [32]).
  cbn iota beta. cbn [cflush mode]. rewrite !app_nil_r. rewrite (trim_snoc_ws (b :: r) 32 ws_blank). apply (trim_simple (b :: r) true Hs).
Qed.
End Simple.
