(* C11: the round trip for entries whose value continues on following lines.  A block written as, per entry, one line
   "key:value" followed by any number of continuation lines - lines that are not blank and do not themselves start a
   key - and then the end of the text or an empty line and any body, is parsed back into exactly those entries: each at
   its offset, with its normalised key, and with the cleaned text of its first line joined with its continuation lines
   (leading blanks of an indented continuation line removed). *)
From Coq Require Import Lia.
From MMD.lib Require Import Bytes BytesFacts.
From MMD.model Require Import LabelModel MetaModel.
From MMD.proofs Require Import MetaProofs MetaRoundTrip.
Local Open Scope N_scope.

(* a continuation line: its text without the line ending *)
Definition wf_cont (c : list N) : bool :=
  no_eol c && negb (forallb is_ws c) && (match meta_key_len (c ++ [10]) with None => true | Some _ => false end).

Definition mentry := (list N * list N * list (list N))%type.          (* key, rest of the first line, continuation lines *)
Definition mkey (e : mentry) := fst (fst e).
Definition mval (e : mentry) := snd (fst e).
Definition mconts (e : mentry) := snd e.
Definition wf_mentry (e : mentry) : bool := wf_key (mkey e) && no_eol (mval e) && forallb wf_cont (mconts e).

(* the lines of an entry, each without its line ending *)
Definition mlines (e : mentry) : list (list N) := (mkey e ++ 58 :: mval e) :: mconts e.
Definition text_of_lines (ls : list (list N)) : list N := flat_map (fun l => l ++ [10]) ls.
Definition mtext (es : list mentry) : list N := text_of_lines (flat_map mlines es).

(* the raw value build assembles *)
Definition cont_part (c : list N) : list N :=
  10 :: (if indented (c ++ [10]) then drop_while is_ws (c ++ [10]) else c ++ [10]).
Definition mraw (e : mentry) : list N := (mval e ++ [10]) ++ flat_map cont_part (mconts e).

Fixpoint loffsets (off : nat) (ls : list (list N)) : list (nat * list N) :=
  match ls with [] => [] | l :: r => (off, l ++ [10]) :: loffsets (off + S (length l)) r end.

Lemma text_of_lines_length_ge ls : (length ls <= length (text_of_lines ls))%nat.
Proof.
  induction ls as [|l r IH]; [cbn; lia|]. cbn [text_of_lines flat_map length]. rewrite app_length, app_length. cbn [length].
  fold (text_of_lines r). lia.
Qed.

Lemma split_text_lines ls : forallb no_eol ls = true -> forall f tail off,
  split_lines (length ls + f) (text_of_lines ls ++ tail) off =
  loffsets off ls ++ split_lines f tail (off + length (text_of_lines ls)).
Proof.
  induction ls as [|l r IH]; intros Hn f tail off.
  - cbn. rewrite Nat.add_0_r. reflexivity.
  - cbn [forallb] in Hn. apply andb_true_iff in Hn as [Hl Hr].
    cbn [text_of_lines flat_map length Nat.add loffsets]. fold (text_of_lines r).
    replace ((l ++ [10]) ++ text_of_lines r) with (l ++ 10 :: text_of_lines r) by (rewrite <- app_assoc; reflexivity).
    rewrite <- app_assoc. cbn [app]. rewrite (split_one l Hl). rewrite (IH Hr). cbn [app]. f_equal. f_equal. f_equal.
    rewrite app_length. cbn [length]. lia.
Qed.

Lemma line_not_blank l : no_eol l = true -> forallb is_ws l = false -> is_blank (l ++ [10]) = false.
Proof.
  intros Hn Hb. unfold is_blank, line_body. change (fun b => negb (is_eol b)) with noteol.
  rewrite (take_while_all noteol l [10] Hn eq_refl). exact Hb.
Qed.

Lemma block_lines_loffsets ls : forallb no_eol ls = true -> forallb (fun l => negb (forallb is_ws l)) ls = true ->
  forall off more, (match more with [] => True | (_, ln) :: _ => is_blank ln = true end) ->
  block_lines (loffsets off ls ++ more) = loffsets off ls.
Proof.
  induction ls as [|l r IH]; intros Hn Hb off more Hm.
  - cbn. destruct more as [|[o ln] m]; [reflexivity|]. cbn [block_lines]. rewrite Hm. reflexivity.
  - cbn [forallb] in Hn, Hb. apply andb_true_iff in Hn as [Hl Hr]. apply andb_true_iff in Hb as [Hbl Hbr].
    cbn [loffsets app block_lines]. rewrite (line_not_blank l Hl); [|destruct (forallb is_ws l); [discriminate|reflexivity]].
    f_equal. apply IH; assumption.
Qed.

Lemma endoff_loffsets ls : forall off a, ls <> [] ->
  fold_left (fun _ p => (fst p + length (snd p))%nat) (loffsets off ls) a = (off + length (text_of_lines ls))%nat.
Proof.
  induction ls as [|l r IH]; intros off a Hne; [congruence|].
  cbn [loffsets fold_left fst snd text_of_lines flat_map]. fold (text_of_lines r). rewrite !app_length. cbn [length].
  destruct r as [|l2 r2].
  - cbn. lia.
  - rewrite IH by discriminate. lia.
Qed.

(* ---- assembling: the continuation lines of an entry are appended to the entry under construction *)
Lemma build_conts cs : forallb wf_cont cs = true -> forall off ko key v rest acc,
  build (loffsets off cs ++ rest) (Some (ko, key, v)) acc =
  build rest (Some (ko, key, v ++ flat_map cont_part cs)) acc.
Proof.
  induction cs as [|c r IH]; intros Hw off ko key v rest acc.
  - cbn. rewrite app_nil_r. reflexivity.
  - cbn [forallb] in Hw. apply andb_true_iff in Hw as [Hc Hr].
    unfold wf_cont in Hc. apply andb_true_iff in Hc as [Hc Hk]. 
    cbn [loffsets app build]. destruct (meta_key_len (c ++ [10])); [discriminate|].
    rewrite (IH Hr). cbn [flat_map]. unfold cont_part at 2. rewrite <- app_assoc. reflexivity.
Qed.

Fixpoint moffsets (off : nat) (es : list mentry) : list (nat * mentry) :=
  match es with [] => [] | e :: r => (off, e) :: moffsets (off + length (text_of_lines (mlines e))) r end.

Definition mrawp (p : nat * mentry) : nat * list N * list N := (fst p, mkey (snd p), mraw (snd p)).

Lemma loffsets_app off a b : loffsets off (a ++ b) = loffsets off a ++ loffsets (off + length (text_of_lines a)) b.
Proof.
  revert off. induction a as [|l r IH]; intros off; cbn [app loffsets text_of_lines flat_map length].
  - rewrite Nat.add_0_r. reflexivity.
  - rewrite IH. f_equal. f_equal. fold (text_of_lines r). rewrite !app_length. cbn [length]. f_equal. lia.
Qed.

Lemma build_mentries es : forallb wf_mentry es = true -> forall off cur acc,
  build (loffsets off (flat_map mlines es)) cur acc =
  acc ++ (match cur with Some c => [c] | None => [] end) ++ map mrawp (moffsets off es).
Proof.
  induction es as [|e r IH]; intros Hw off cur acc.
  - cbn. destruct cur; rewrite ?app_nil_r; reflexivity.
  - cbn [forallb] in Hw. apply andb_true_iff in Hw as [He Hr].
    unfold wf_mentry in He. apply andb_true_iff in He as [He Hcs]. apply andb_true_iff in He as [Hk Hv].
    cbn [flat_map]. rewrite loffsets_app. unfold mlines at 1. cbn [loffsets app build].
    replace ((mkey e ++ 58 :: mval e) ++ [10]) with (mkey e ++ 58 :: (mval e ++ [10])) by (rewrite <- app_assoc; reflexivity).
    rewrite (meta_key_len_exact (mkey e) (mval e ++ [10]) Hk).
    rewrite firstn_app_exact.
    replace (S (length (mkey e))) with (length (mkey e ++ [58])) by (rewrite app_length; cbn; lia).
    replace (mkey e ++ 58 :: mval e ++ [10]) with ((mkey e ++ [58]) ++ mval e ++ [10]) by (rewrite <- app_assoc; reflexivity).
    rewrite skipn_app_exact.
    rewrite (build_conts (mconts e) Hcs).
    rewrite (IH Hr). cbn [moffsets map]. unfold mrawp at 2. cbn [fst snd]. unfold mraw.
    destruct cur as [c|]; cbn [app]; rewrite <- ?app_assoc; reflexivity.
Qed.

Section WS.
Variable ws : list N.

Definition mresult (es : list mentry) : list meta :=
  map (fun p => mkmeta (fst p) (label_from_string (mkey (snd p))) (clean_string ws false false (mraw (snd p)))) (moffsets 0 es).

Lemma lines_wf es : forallb wf_mentry es = true ->
  forallb no_eol (flat_map mlines es) = true /\ forallb (fun l => negb (forallb is_ws l)) (flat_map mlines es) = true.
Proof.
  induction es as [|e r IH]; intros Hw; [split; reflexivity|].
  cbn [forallb] in Hw. apply andb_true_iff in Hw as [He Hr]. destruct (IH Hr) as [I1 I2].
  unfold wf_mentry in He. apply andb_true_iff in He as [He Hcs]. apply andb_true_iff in He as [Hk Hv].
  cbn [flat_map]. rewrite !forallb_app, I1, I2, !andb_true_r. unfold mlines. cbn [forallb].
  assert (Hkl : no_eol (mkey e ++ 58 :: mval e) = true) by (apply (entry_body_no_eol (mkey e, mval e)); unfold wf_entry; cbn [fst snd]; rewrite Hk, Hv; reflexivity).
  rewrite Hkl. cbn [andb].
  assert (Hnb : forallb is_ws (mkey e ++ 58 :: mval e) = false).
  { destruct (mkey e) as [|x k]; [discriminate|]. cbn [wf_key] in Hk. apply andb_true_iff in Hk as [Hx _]. cbn [app forallb].
    assert (E : is_ws x = false). { unfold is_ws, is_alnum in *. destruct (N.eqb_spec x 32) as [->|]; [discriminate|]. destruct (N.eqb_spec x 9) as [->|]; [discriminate|]. reflexivity. }
    rewrite E. reflexivity. }
  rewrite Hnb. cbn [negb andb].
  split.
  - apply forallb_forall. intros c Hc. rewrite forallb_forall in Hcs. specialize (Hcs c Hc). unfold wf_cont in Hcs.
    apply andb_true_iff in Hcs as [H _]. apply andb_true_iff in H as [H _]. exact H.
  - apply forallb_forall. intros c Hc. rewrite forallb_forall in Hcs. specialize (Hcs c Hc). unfold wf_cont in Hcs.
    apply andb_true_iff in Hcs as [H _]. apply andb_true_iff in H as [_ H]. exact H.
Qed.

Theorem meta_roundtrip_multiline e1 r tail :
  forallb wf_mentry (e1 :: r) = true -> forallb is_ws (mval e1) = false -> tail_ok tail ->
  meta_parse ws (mtext (e1 :: r) ++ tail) = Some (mresult (e1 :: r), length (mtext (e1 :: r))).
Proof.
  intros Hw Hv Ht. set (es := e1 :: r) in *. set (ls := flat_map mlines es).
  destruct (lines_wf es Hw) as [Hn Hb].
  assert (Hls : exists l1 lr, ls = l1 :: lr /\ l1 = mkey e1 ++ 58 :: mval e1).
  { unfold ls, es. cbn [flat_map]. unfold mlines at 1. cbn [app]. eauto. }
  destruct Hls as (l1 & lr & Els & El1).
  assert (Hlines : exists more, lines_of (mtext es ++ tail) = loffsets 0 ls ++ more /\
                                match more with [] => True | (_, ln) :: _ => is_blank ln = true end).
  { unfold lines_of, mtext. fold ls.
    replace (S (length (text_of_lines ls ++ tail))) with (length ls + (S (length (text_of_lines ls ++ tail)) - length ls))%nat.
    2:{ pose proof (text_of_lines_length_ge ls). rewrite app_length. lia. }
    rewrite (split_text_lines ls Hn). eexists. split; [reflexivity|].
    destruct Ht as [->|[body ->]].
    - destruct (S (length (text_of_lines ls ++ [])) - length ls)%nat; exact I.
    - assert (Hf : exists f, (S (length (text_of_lines ls ++ 10%N :: body)) - length ls = S f)%nat).
      { pose proof (text_of_lines_length_ge ls). rewrite app_length. cbn [length].
        exists (length (text_of_lines ls) + S (length body) - length ls)%nat. lia. }
      destruct Hf as [f ->]. change (10 :: body) with ([] ++ 10 :: body). rewrite (split_one [] eq_refl). reflexivity. }
  destruct Hlines as (more & El & Hm).
  assert (Hk1 : wf_key (mkey e1) = true).
  { cbn [forallb] in Hw. apply andb_true_iff in Hw as [H _]. unfold wf_mentry in H. apply andb_true_iff in H as [H _]. apply andb_true_iff in H as [H _]. exact H. }
  assert (Hnv1 : no_eol (mval e1) = true).
  { cbn [forallb] in Hw. apply andb_true_iff in Hw as [H _]. unfold wf_mentry in H. apply andb_true_iff in H as [H _]. apply andb_true_iff in H as [_ H]. exact H. }
  assert (Hfirst : loffsets 0 ls ++ more = (0%nat, mkey e1 ++ 58 :: (mval e1 ++ [10])) :: (loffsets (0 + S (length l1)) lr ++ more)).
  { rewrite Els. cbn [loffsets app]. rewrite El1. rewrite <- app_assoc. reflexivity. }
  unfold meta_parse. rewrite El. cbv zeta. rewrite Hfirst at 1. cbv beta iota.
  rewrite (meta_key_len_exact (mkey e1) (mval e1 ++ [10]) Hk1).
  replace (S (length (mkey e1))) with (length (mkey e1 ++ [58])) by (rewrite app_length; cbn; lia).
  replace (mkey e1 ++ 58 :: mval e1 ++ [10]) with ((mkey e1 ++ [58]) ++ mval e1 ++ [10]) by (rewrite <- app_assoc; reflexivity).
  rewrite skipn_app_exact. rewrite (line_not_blank (mval e1) Hnv1 Hv).
  rewrite (block_lines_loffsets ls Hn Hb 0 more Hm).
  rewrite (endoff_loffsets ls 0 0) by (rewrite Els; discriminate).
  unfold ls at 1. rewrite (build_mentries es Hw). cbn [app Nat.add].
  f_equal. f_equal. unfold mresult. rewrite map_map. apply map_ext. intros [o e]. reflexivity.
Qed.
End WS.
