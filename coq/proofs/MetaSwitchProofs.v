From Coq Require Import List String ZArith NArith Bool Lia.
Import ListNotations.
From MMD.lib Require Import MiniC.
From MMD.gen Require Import MetaKeys.
From MMD.model Require Import MetaSwitchModel.
Local Open Scope string_scope.

Definition all_branches : list stmt := map snd meta_chain ++ [meta_default].

Lemma branch_in key : In (branch_for key) all_branches.
Proof.
  unfold branch_for, all_branches. destruct (find _ meta_chain) as [[k s]|] eqn:E.
  - apply find_some in E as [Hin _]. apply in_or_app. left. apply in_map_iff. exists (k, s). auto.
  - apply in_or_app. right. left. reflexivity.
Qed.

Lemma branch_default key : forallb (fun p => negb (bytes_eqb key (fst p))) meta_chain = true -> branch_for key = meta_default.
Proof.
  intros H. unfold branch_for. destruct (find _ meta_chain) as [[k s]|] eqn:E; [|reflexivity].
  apply find_some in E as [Hin Hk]. rewrite forallb_forall in H. specialize (H _ Hin). cbn in *. rewrite Hk in H. discriminate.
Qed.

(* ---- A: frame *)
Lemma writes_ok : forallb (fun s => subset (writes s) settings_vars) all_branches = true.
Proof. vm_compute. reflexivity. Qed.

Lemma step_frame atoi_f label_f st m x : ~ In x settings_vars -> step atoi_f label_f st m x = st x.
Proof.
  intros Hx. unfold step. apply frame. intros Hin. apply Hx.
  pose proof writes_ok as W. rewrite forallb_forall in W. specialize (W _ (branch_in (fst m))).
  apply (subset_spec _ _ W). exact Hin.
Qed.

Lemma default_writes : subset (writes meta_default) [EXTV] = true.
Proof. vm_compute. reflexivity. Qed.

Lemma step_other_key atoi_f label_f st key v x :
  forallb (fun p => negb (bytes_eqb key (fst p))) meta_chain = true -> x <> EXTV ->
  step atoi_f label_f st (key, v) x = st x.
Proof.
  intros Hk Hx. unfold step. cbn [fst snd]. rewrite (branch_default key Hk). apply frame.
  intros Hin. apply (subset_spec _ _ default_writes) in Hin. destruct Hin as [E|[]]. congruence.
Qed.

(* ---- C: the wrapper switch does not reach the settings *)
Lemma ni_all : forallb (ni_ok [EXTV]) (meta_pre :: meta_post :: all_branches) = true.
Proof. vm_compute. reflexivity. Qed.

Lemma step_ni atoi_f label_f m a b : low_eq [EXTV] a b -> low_eq [EXTV] (step atoi_f label_f a m) (step atoi_f label_f b m).
Proof.
  intros L. unfold step. apply noninterference; [|exact L].
  pose proof ni_all as W. rewrite forallb_forall in W. apply W. right. right. apply branch_in.
Qed.

Lemma loop_ni atoi_f label_f ms : forall a b, low_eq [EXTV] a b -> low_eq [EXTV] (loop atoi_f label_f ms a) (loop atoi_f label_f ms b).
Proof.
  induction ms as [|m r IH]; intros a b L; cbn [loop fold_left]; [exact L|].
  apply IH. apply step_ni. exact L.
Qed.

Lemma body_ni atoi_f label_f ms a b : low_eq [EXTV] a b ->
  low_eq [EXTV] (exec [] atoi_f label_f meta_post (loop atoi_f label_f ms (exec [] atoi_f label_f meta_pre a)))
               (exec [] atoi_f label_f meta_post (loop atoi_f label_f ms (exec [] atoi_f label_f meta_pre b))).
Proof.
  intros L. pose proof ni_all as W. rewrite forallb_forall in W.
  apply noninterference; [apply W; right; left; reflexivity|].
  apply loop_ni. apply noninterference; [apply W; left; reflexivity|exact L].
Qed.

(* ---- D: the complete / snippet decision *)
Lemma effects_known : forallb (fun s => match flag_effect EXTV F_COMPLETE F_SNIPPET s with Some _ => true | None => false end) all_branches = true.
Proof. vm_compute. reflexivity. Qed.

Lemma FG : F_COMPLETE <> F_SNIPPET.
Proof. discriminate. Qed.

Lemma step_flags atoi_f label_f st m : 
  flag_post EXTV F_COMPLETE F_SNIPPET st (step atoi_f label_f st m) (negb (is_control (fst m))).
Proof.
  unfold step, is_control, effect_of.
  pose proof effects_known as W. rewrite forallb_forall in W. specialize (W _ (branch_in (fst m))).
  destruct (flag_effect EXTV F_COMPLETE F_SNIPPET (branch_for (fst m))) as [b|] eqn:E; [|discriminate].
  pose proof (flag_effect_sound (snd m) atoi_f label_f EXTV F_COMPLETE F_SNIPPET FG _ b st E) as P.
  destruct b; exact P.
Qed.

Lemma loop_flags atoi_f label_f ms : forall st,
  flag_post EXTV F_COMPLETE F_SNIPPET st (loop atoi_f label_f ms st) (existsb (fun m => negb (is_control (fst m))) ms).
Proof.
  induction ms as [|m r IH]; intros st f; cbn [loop fold_left existsb].
  - cbn [andb]. rewrite orb_false_r. reflexivity.
  - fold (loop atoi_f label_f r (step atoi_f label_f st m)). rewrite (IH _ f).
    pose proof (step_flags atoi_f label_f st m) as P. rewrite (P f), (P F_SNIPPET).
    change (String.eqb F_SNIPPET F_COMPLETE) with false. rewrite andb_false_r, orb_false_r.
    destruct (has_flag (st EXTV) f), (has_flag (st EXTV) F_SNIPPET), (is_control (fst m)),
             (existsb (fun m0 => negb (is_control (fst m0))) r), (String.eqb f F_COMPLETE); reflexivity.
Qed.

Lemma pre_post_keep_flags : mem EXTV (writes meta_pre ++ writes meta_post) = false.
Proof. vm_compute. reflexivity. Qed.
