(* C15: token_remove_last_child, token_remove_tail and fix_token_chain_tail on the heap model
   (continues TokenHeapProofs2.v). *)
From Coq Require Import List NArith Bool Lia.
From MMD.lib Require Import Bytes BytesFacts.
From MMD.model Require Import TokenHeap.
From MMD.proofs Require Import TokenHeapFacts TokenHeapProofs TokenHeapProofs2.
Import ListNotations.
Local Open Scope N_scope.

(* the same segment with another successor for its last token *)
Lemma seg_change_nx h h' p l z q q' :
  seg h p (l ++ [z]) q -> NoDup (l ++ [z]) ->
  (forall y, In y (l ++ [z]) -> valid h y -> valid h' y) ->
  rd h' z Fnx = Some q' -> rd h' z Fpv = rd h z Fpv ->
  (forall y, In y l -> rd h' y Fnx = rd h y Fnx /\ rd h' y Fpv = rd h y Fpv) ->
  seg h' p (l ++ [z]) q'.
Proof.
  intros S ND HV Nz Pz HF.
  apply seg_app in S. destruct S as [S1 S2]. apply seg_app. cbn [hd] in *. split.
  - eapply seg_frame; [| |exact S1]; [intros y Hy; apply HV, in_or_app; left; exact Hy|exact HF].
  - cbn [seg] in *. destruct S2 as (V & P & _ & _).
    split; [apply HV; [apply in_or_app; right; left; reflexivity|exact V]|].
    split; [congruence|]. split; [exact Nz|exact I].
Qed.

(* ---- token_remove_tail(head) on a chain of at least two tokens: the last one is unlinked and the
   head's tail pointer moves to its predecessor; the removed token keeps its fields (it is freed) *)
Theorem remove_tail_spec h x m t :
  seg h 0 ((x :: m) ++ [t]) 0 -> NoDup ((x :: m) ++ [t]) -> tail_ok h x (m ++ [t]) ->
  exists h', token_remove_tail h x = Some h' /\ length h' = length h /\
    seg h' 0 (x :: m) 0 /\ tail_ok h' x m /\
    (forall j g, ~ (j = List.last m x /\ g = Fnx) -> ~ (j = x /\ g = Ftl) -> rd h' j g = rd h j g).
Proof.
  intros HS ND T.
  set (pv := List.last m x).
  assert (Vx : valid h x) by (cbn [app seg] in HS; tauto).
  pose proof HS as HS'. apply seg_app in HS'. destruct HS' as [S1 S2]. cbn [hd] in S1.
  cbn [seg] in S2. destruct S2 as (Vt & Pt & _ & _).
  rewrite last_cons in Pt. fold pv in Pt.
  assert (Ipv : In pv (x :: m)).
  { unfold pv. rewrite <- (last_cons m x 0). apply in_last. discriminate. }
  assert (Vpv : valid h pv) by (eapply seg_valid; [exact S1|exact Ipv]).
  pose proof ND as ND'. apply nodup_app in ND'. destruct ND' as (ND1 & _ & Dj).
  assert (Ntx : t <> x).
  { intro X. apply (Dj x); [left; reflexivity|left; exact X]. }
  assert (Ntpv : pv <> t) by (intro X; apply (Dj pv Ipv); left; symmetry; exact X).
  unfold tail_ok in T. rewrite last_last in T.
  unfold token_remove_tail.
  destruct (N.eqb_spec x 0) as [Z|_]; [destruct Vx; contradiction|].
  rewrite T. cbn [obind].
  destruct (N.eqb_spec t x) as [Z|_]; [contradiction|].
  rewrite Pt. cbn [obind].
  destruct (N.eqb_spec pv 0) as [Z|_]; [destruct Vpv; contradiction|].
  wr_step h1 L1 R1; [exact Vpv|].
  assert (X1 : rd h1 t Fpv = Some pv) by (rdrw; cbn [feqb]; rewrite andb_false_r; exact Pt).
  rewrite X1. cbn [obind].
  wr_step h2 L2 R2; [vld|].
  exists h2. split; [reflexivity|]. split; [vld|].
  assert (VV : forall z, valid h z -> valid h2 z) by (intros z Vz; vld).
  split.
  { destruct (exists_last (l := x :: m)) as (l0 & z0 & El); [discriminate|].
    assert (Ez : z0 = pv).
    { unfold pv. rewrite <- (last_cons m x 0), El. symmetry. apply last_last. }
    subst z0. rewrite El in *.
    eapply seg_change_nx; [exact S1|exact ND1| | | |].
    - intros y _ Vy. apply VV, Vy.
    - rdrw. cbn [feqb]. rewrite andb_false_r, N.eqb_refl. reflexivity.
    - rdrw. cbn [feqb]. rewrite !andb_false_r. reflexivity.
    - intros y Hy.
      assert (y <> pv).
      { intro X. subst y. apply nodup_app in ND1. destruct ND1 as (_ & _ & D1). apply (D1 pv Hy). left; reflexivity. }
      split; rdrw; cbn [feqb]; rewrite ?andb_false_r; try reflexivity.
      rewrite (proj2 (N.eqb_neq y pv)) by assumption. reflexivity. }
  split; [unfold tail_ok; rewrite R2, N.eqb_refl; reflexivity|].
  intros j g A1 A2. rdrw. rewrite (if_not j x g Ftl) by exact A2. fold pv in A1.
  rewrite (if_not j pv g Fnx) by exact A1. reflexivity.
Qed.

(* ... on a chain of one token nothing is written (the C code then frees nothing either: head->tail == head returns) *)
Theorem remove_tail_single h x : valid h x -> rd h x Ftl = Some x -> token_remove_tail h x = Some h.
Proof.
  intros V T. unfold token_remove_tail.
  destruct (N.eqb_spec x 0) as [Z|_]; [reflexivity|]. rewrite T. cbn [obind]. rewrite N.eqb_refl. reflexivity.
Qed.

(* ---- token_remove_last_child(parent): the same surgery on the parent's child chain; the parent's
   child pointer and every field of the parent are untouched *)
Theorem remove_last_child_spec h p x m t :
  rd h p Fch = Some x ->
  seg h 0 ((x :: m) ++ [t]) 0 -> NoDup ((x :: m) ++ [t]) -> tail_ok h x (m ++ [t]) ->
  exists h', token_remove_last_child h p = Some h' /\ length h' = length h /\
    rd h' p Fch = Some x /\ seg h' 0 (x :: m) 0 /\ tail_ok h' x m /\
    (forall j g, ~ (j = List.last m x /\ g = Fnx) -> ~ (j = x /\ g = Ftl) -> rd h' j g = rd h j g).
Proof.
  intros Hch HS ND T.
  assert (Vp : valid h p) by (eapply rd_some_valid; exact Hch).
  set (pv := List.last m x).
  assert (Vx : valid h x) by (cbn [app seg] in HS; tauto).
  pose proof HS as HS'. apply seg_app in HS'. destruct HS' as [S1 S2]. cbn [hd] in S1.
  cbn [seg] in S2. destruct S2 as (Vt & Pt & _ & _).
  rewrite last_cons in Pt. fold pv in Pt.
  assert (Ipv : In pv (x :: m)).
  { unfold pv. rewrite <- (last_cons m x 0). apply in_last. discriminate. }
  assert (Vpv : valid h pv) by (eapply seg_valid; [exact S1|exact Ipv]).
  pose proof ND as ND'. apply nodup_app in ND'. destruct ND' as (ND1 & _ & Dj).
  assert (Ntpv : pv <> t) by (intro X; apply (Dj pv Ipv); left; symmetry; exact X).
  unfold tail_ok in T. rewrite last_last in T.
  unfold token_remove_last_child.
  destruct (N.eqb_spec p 0) as [Z|_]; [destruct Vp; contradiction|].
  rewrite Hch. cbn [obind].
  destruct (N.eqb_spec x 0) as [Z|_]; [destruct Vx; contradiction|].
  rewrite T. cbn [obind]. rewrite Pt. cbn [obind].
  destruct (N.eqb_spec pv 0) as [Z|_]; [destruct Vpv; contradiction|].
  wr_step h1 L1 R1; [exact Vpv|].
  assert (X0 : rd h1 p Fch = Some x) by (rdrw; cbn [feqb]; rewrite andb_false_r; exact Hch).
  rewrite X0. cbn [obind].
  assert (X1 : rd h1 t Fpv = Some pv) by (rdrw; cbn [feqb]; rewrite andb_false_r; exact Pt).
  rewrite X1. cbn [obind].
  wr_step h2 L2 R2; [vld|].
  exists h2. split; [reflexivity|]. split; [vld|].
  assert (VV : forall z, valid h z -> valid h2 z) by (intros z Vz; vld).
  split; [rdrw; cbn [feqb]; rewrite !andb_false_r; exact Hch|].
  split.
  { destruct (exists_last (l := x :: m)) as (l0 & z0 & El); [discriminate|].
    assert (Ez : z0 = pv).
    { unfold pv. rewrite <- (last_cons m x 0), El. symmetry. apply last_last. }
    subst z0. rewrite El in *.
    eapply seg_change_nx; [exact S1|exact ND1| | | |].
    - intros y _ Vy. apply VV, Vy.
    - rdrw. cbn [feqb]. rewrite andb_false_r, N.eqb_refl. reflexivity.
    - rdrw. cbn [feqb]. rewrite !andb_false_r. reflexivity.
    - intros y Hy.
      assert (y <> pv).
      { intro X. subst y. apply nodup_app in ND1. destruct ND1 as (_ & _ & D1). apply (D1 pv Hy). left; reflexivity. }
      split; rdrw; cbn [feqb]; rewrite ?andb_false_r; try reflexivity.
      rewrite (proj2 (N.eqb_neq y pv)) by assumption. reflexivity. }
  split; [unfold tail_ok; rewrite R2, N.eqb_refl; reflexivity|].
  intros j g A1 A2. rdrw. rewrite (if_not j x g Ftl) by exact A2. fold pv in A1.
  rewrite (if_not j pv g Fnx) by exact A1. reflexivity.
Qed.

(* ---- fix_token_chain_tail(t), t anywhere in a chain of distinct tokens: exactly the head's tail
   pointer is rewritten, to the last token *)
Theorem fix_chain_tail_spec h l t r :
  seg h 0 (l ++ t :: r) 0 -> NoDup (l ++ t :: r) ->
  exists h', fix_token_chain_tail h t = Some h' /\ length h' = length h /\
    seg h' 0 (l ++ t :: r) 0 /\ rd h' (hd t l) Ftl = Some (List.last r t) /\
    (forall j g, ~ (j = hd t l /\ g = Ftl) -> rd h' j g = rd h j g).
Proof.
  intros HS ND.
  assert (Vt : valid h t) by (eapply seg_valid; [exact HS|apply in_or_app; right; left; reflexivity]).
  pose proof (seg_length _ _ _ _ ND HS) as Len. rewrite app_length in Len. cbn [length] in Len.
  unfold fix_token_chain_tail, head_of, last_of, fuel_of.
  destruct (N.eqb_spec t 0) as [Z|_]; [destruct Vt; contradiction|].
  rewrite (walk_prev h _ l t r 0 HS) by lia. cbn [obind].
  rewrite (walk_next h _ 0 l t r 0 HS eq_refl) by lia. cbn [obind].
  assert (Ihd : In (hd t l) (l ++ t :: r)).
  { destruct l as [|a l']; cbn [hd]; [left; reflexivity|left; reflexivity]. }
  wr_step h1 L1 R1; [eapply seg_valid; [exact HS|exact Ihd]|].
  exists h1. split; [reflexivity|]. split; [vld|].
  split.
  { eapply seg_frame; [| |exact HS]; [intros z _ Vz; vld|].
    intros z _. split; rdrw; cbn [feqb]; rewrite andb_false_r; reflexivity. }
  split; [rewrite R1, N.eqb_refl; reflexivity|].
  intros j g A. rdrw. rewrite (if_not _ _ _ _ _ _ A). reflexivity.
Qed.

(* ---- any number of removals: the loop of strip_line_tokens_from_block that strips the trailing empty
   lines of an indented code block calls token_remove_last_child once per trailing token.  Removing as many
   last children as [ts] has tokens leaves exactly the chain in front of them, whatever the lengths;
   no type, start, length, child or mate field of any token changes. *)
Fixpoint iter_opt (n : nat) (f : heap -> option heap) (h : heap) : option heap :=
  match n with O => Some h | S k => let? h := f h in iter_opt k f h end.

Theorem remove_last_children_spec ts : forall h p x m,
  rd h p Fch = Some x ->
  seg h 0 ((x :: m) ++ ts) 0 -> NoDup ((x :: m) ++ ts) -> tail_ok h x (m ++ ts) ->
  exists h', iter_opt (length ts) (fun h => token_remove_last_child h p) h = Some h' /\ length h' = length h /\
    rd h' p Fch = Some x /\ seg h' 0 (x :: m) 0 /\ tail_ok h' x m /\
    (forall j g, g <> Fnx -> g <> Ftl -> rd h' j g = rd h j g).
Proof.
  induction ts as [|t ts' IH] using rev_ind; intros h p x m Hch HS ND T.
  - cbn [length iter_opt]. rewrite app_nil_r in *. exists h. split; [reflexivity|]. split; [reflexivity|]. split; [exact Hch|]. split; [exact HS|]. split; [exact T|]. reflexivity.
  - rewrite app_length. cbn [length]. rewrite Nat.add_comm. cbn [plus iter_opt].
    assert (E1 : (x :: m) ++ ts' ++ [t] = (x :: (m ++ ts')) ++ [t]) by (cbn [app]; rewrite app_assoc; reflexivity).
    assert (E2 : m ++ ts' ++ [t] = (m ++ ts') ++ [t]) by (rewrite app_assoc; reflexivity).
    rewrite E1 in HS, ND. rewrite E2 in T.
    destruct (remove_last_child_spec h p x (m ++ ts') t Hch HS ND T) as (h1 & R1 & L1 & C1 & S1 & T1 & F1).
    rewrite R1. cbn [obind].
    assert (ND1 : NoDup ((x :: m) ++ ts')).
    { apply nodup_app in ND. destruct ND as (N1 & _ & _). exact N1. }
    destruct (IH h1 p x m C1 S1 ND1 T1) as (h2 & R2 & L2 & C2 & S2 & T2 & F2).
    exists h2. split; [exact R2|]. split; [congruence|]. split; [exact C2|]. split; [exact S2|]. split; [exact T2|].
    intros j g G1 G2. rewrite F2 by assumption. apply F1; intros [_ X]; contradiction.
Qed.

(* ---- token_split_on_char(t, source, c) when the separator does not occur among the bytes the loop reads
   (all of the token but its last byte): nothing is allocated and nothing is written *)
Lemma split_on_char_loop_none n : forall h src c t start pos stop,
  (forall q, pos <= q -> q + 1 < stop -> nth (N.to_nat (start + q)) src 0 <> c) ->
  split_on_char_loop n h src c t start pos stop = Some h.
Proof.
  induction n as [|k IH]; intros h src c t start pos stop Hno; cbn [split_on_char_loop]; [reflexivity|].
  destruct (N.ltb_spec (pos + 1) stop) as [Lt|Ge]; [|reflexivity].
  rewrite (proj2 (N.eqb_neq _ _) (Hno pos (N.le_refl _) Lt)).
  apply IH. intros q Hq. apply Hno. lia.
Qed.

Theorem split_on_char_absent_is_identity h src t c start len :
  t <> 0 -> rd h t Fst = Some start -> rd h t Fln = Some len -> start + len <= Nlen src + 2 ->
  (forall q, q + 1 < len -> nth (N.to_nat (start + q)) src 0 <> c) ->
  token_split_on_char h src t c = Some h.
Proof.
  intros Zt Hs Hl Hb Hno. unfold token_split_on_char.
  rewrite (proj2 (N.eqb_neq _ _) Zt), Hs, Hl. cbn [obind].
  destruct (N.ltb_spec (Nlen src + 2) (start + len)) as [X|_]; [lia|].
  apply split_on_char_loop_none. intros q _. apply Hno.
Qed.
