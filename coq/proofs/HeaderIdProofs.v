From Coq Require Import Lia.
From MMD.lib Require Import Bytes Transducer.
From MMD.model Require Import LabelModel HeaderIdModel.
Local Open Scope N_scope.

Definition ascii (s : list N) : Prop := Forall (fun b => b < 128) s.

Lemma is_cont_ascii b : b < 128 -> is_cont b = false.
Proof. intros H. unfold is_cont. destruct (N.leb_spec 128 b); [lia|reflexivity]. Qed.

Lemma ldecide_ascii p f : p < 128 -> ldecide p false f = if label_allowed p then [lower p] else [].
Proof. intros H. unfold ldecide. rewrite (is_cont_ascii p H). reflexivity. Qed.

Lemma trun_pending p f b r :
  trun lstate lstep (mkl (Some p) f) (b :: r) =
  (fst (trun lstate lstep (mkl (Some b) false) r), ldecide p (is_cont b) f ++ snd (trun lstate lstep (mkl (Some b) false) r)).
Proof. cbn [trun]. unfold lstep at 1. cbn [pend LabelModel.first]. destruct (trun lstate lstep (mkl (Some b) false) r). reflexivity. Qed.

Lemma trun_ascii s : forall p f, p < 128 -> ascii s ->
  snd (trun lstate lstep (mkl (Some p) f) s) ++ lflush (fst (trun lstate lstep (mkl (Some p) f) s)) = label_spec (p :: s).
Proof.
  induction s as [|b r IH]; intros p f Hp Hs.
  - cbn [trun fst snd app]. unfold lflush. cbn [pend LabelModel.first]. rewrite (ldecide_ascii p f Hp).
    unfold label_spec. cbn [filter]. destruct (label_allowed p); reflexivity.
  - inversion Hs as [|? ? Hb Hr]; subst. rewrite trun_pending.
    rewrite (is_cont_ascii b Hb), (ldecide_ascii p f Hp).
    specialize (IH b false Hb Hr). destruct (trun lstate lstep (mkl (Some b) false) r) as [t2 o2]. cbn [fst snd] in *.
    rewrite <- app_assoc, IH. unfold label_spec. cbn [filter]. destruct (label_allowed p); reflexivity.
Qed.

Lemma label_ascii s : ascii s -> label_from_string s = label_spec s.
Proof.
  intros Hs. unfold label_from_string, transduce. destruct s as [|p r].
  - reflexivity.
  - inversion Hs as [|? ? Hp Hr]; subst.
    assert (E : trun lstate lstep linit (p :: r) = trun lstate lstep (mkl (Some p) true) r).
    { cbn [trun]. unfold lstep at 1, linit at 1. cbn [pend]. destruct (trun lstate lstep (mkl (Some p) true) r). reflexivity. }
    rewrite E. pose proof (trun_ascii r p true Hp Hr) as H.
    destruct (trun lstate lstep (mkl (Some p) true) r) as [t2 o2]. cbn [fst snd app] in *. exact H.
Qed.

Lemma label_spec_app a b : label_spec (a ++ b) = label_spec a ++ label_spec b.
Proof. unfold label_spec. rewrite filter_app, map_app. reflexivity. Qed.

Lemma label_spec_repeat c n : label_allowed c = false -> label_spec (repeat c n) = [].
Proof. intros H. induction n as [|n IH]; [reflexivity|]. unfold label_spec in *. cbn [repeat filter]. rewrite H. exact IH. Qed.

Lemma ascii_app a b : ascii a -> ascii b -> ascii (a ++ b).
Proof. intros Ha Hb. apply Forall_app. split; assumption. Qed.
Lemma ascii_repeat c n : c < 128 -> ascii (repeat c n).
Proof. intros H. induction n; cbn; constructor; assumption. Qed.

Lemma ascii_label_span st title : ascii title -> ascii (label_span st title).
Proof.
  intros Ht. destruct st as [l c|n|n]; cbn [label_span header_span].
  - repeat apply ascii_app; try assumption; try (apply ascii_repeat; lia); try (constructor; [lia|constructor]).
    destruct c; [constructor|]. constructor; [lia|]. apply ascii_repeat. lia.
  - apply ascii_app; [assumption|]. constructor; [lia|constructor].
  - apply ascii_app; [assumption|]. constructor; [lia|constructor].
Qed.

(* the id placed on a heading, the label of its automatic link and the label a reference to its title
   is looked up under are the same string, whatever the heading style *)
Lemma header_id_is_reference st title : ascii title ->
  header_id st title = reference_label title /\ autolink_label st title = reference_label title /\
  reference_label title = label_spec title.
Proof.
  intros Ht. unfold header_id, autolink_label, reference_label.
  rewrite (label_ascii _ (ascii_label_span st title Ht)), (label_ascii _ Ht).
  assert (E : label_spec (label_span st title) = label_spec title).
  { destruct st as [l c|n|n]; cbn [label_span header_span]; rewrite !label_spec_app.
    - rewrite (label_spec_repeat 35 l) by reflexivity.
      assert (Ec : label_spec (match c with O => [] | _ => 32 :: repeat 35 c end) = []).
      { destruct c; [reflexivity|]. change (32 :: repeat 35 (S c)) with ([32] ++ repeat 35 (S c)).
        rewrite label_spec_app, (label_spec_repeat 35 (S c)) by reflexivity. reflexivity. }
      rewrite Ec. change (label_spec [32]) with (@nil N). change (label_spec [10]) with (@nil N).
      cbn [app]. rewrite app_nil_r. reflexivity.
    - change (label_spec [10]) with (@nil N). rewrite app_nil_r. reflexivity.
    - change (label_spec [10]) with (@nil N). rewrite app_nil_r. reflexivity. }
  rewrite E. auto.
Qed.

(* why the underline has to be cut off: '-' is a label character *)
Lemma setext2_underline_matters title n : ascii title -> (0 < n)%nat ->
  label_from_string (header_span (Setext2 n) title) <> reference_label title.
Proof.
  intros Ht Hn. unfold reference_label. cbn [header_span].
  rewrite (label_ascii title Ht).
  rewrite label_ascii.
  - rewrite !label_spec_app. intros E. apply (f_equal (@length N)) in E. rewrite !app_length in E.
    assert (L : length (label_spec (repeat 45 n)) = n).
    { clear. induction n as [|n IH]; [reflexivity|]. unfold label_spec in *. cbn [repeat filter].
      change (label_allowed 45) with true. cbn [map length]. rewrite IH. reflexivity. }
    rewrite L in E. lia.
  - apply ascii_app; [assumption|]. repeat apply ascii_app; try (apply ascii_repeat; lia); constructor; try lia; constructor.
Qed.

Lemma manual_id_spec lab : ascii lab -> manual_id lab = label_spec lab.
Proof.
  intros Hl. unfold manual_id. rewrite label_ascii.
  - rewrite !label_spec_app. change (label_spec [91]) with (@nil N). change (label_spec [93]) with (@nil N).
    cbn [app]. rewrite app_nil_r. reflexivity.
  - repeat apply ascii_app; try assumption; constructor; try lia; constructor.
Qed.

(* ---- titles in any encoding: the label of a concatenation is the concatenation of the labels whenever
   the second part does not begin with a UTF-8 continuation byte (which no valid UTF-8 text does) *)
Definition starts_clean (b : list N) : Prop := match b with [] => True | x :: _ => is_cont x = false end.

Lemma lflush_first_irrelevant p f : is_cont p = false -> lflush (mkl (Some p) f) = lflush (mkl (Some p) true).
Proof. intros Hp. unfold lflush, ldecide. cbn [pend LabelModel.first]. rewrite Hp. reflexivity. Qed.

(* running from a pending byte: output and flush, as one list *)
Definition lrun (p : N) (f : bool) (s : list N) : list N :=
  snd (trun lstate lstep (mkl (Some p) f) s) ++ lflush (fst (trun lstate lstep (mkl (Some p) f) s)).

Lemma lrun_first_irrelevant p f s : is_cont p = false -> lrun p f s = lrun p true s.
Proof.
  intros Hp. unfold lrun. destruct s as [|b r'].
  - cbn [trun fst snd app]. apply lflush_first_irrelevant. exact Hp.
  - rewrite !trun_pending. cbn [fst snd]. unfold ldecide. rewrite Hp. reflexivity.
Qed.

Lemma label_cons p r : label_from_string (p :: r) = lrun p true r.
Proof.
  unfold label_from_string, transduce, lrun.
  assert (E : trun lstate lstep linit (p :: r) = trun lstate lstep (mkl (Some p) true) r).
  { cbn [trun]. unfold lstep at 1, linit at 1. cbn [pend]. destruct (trun lstate lstep (mkl (Some p) true) r). reflexivity. }
  rewrite E. destruct (trun lstate lstep (mkl (Some p) true) r). reflexivity.
Qed.

Lemma lrun_app a : forall p f b0 b, is_cont b0 = false ->
  lrun p f (a ++ b0 :: b) = lrun p f a ++ lrun b0 true b.
Proof.
  induction a as [|x a IH]; intros p f b0 b Hb.
  - rewrite <- (lrun_first_irrelevant b0 false b Hb). unfold lrun. cbn [app]. rewrite trun_pending. cbn [fst snd trun app].
    rewrite Hb. unfold lflush at 2. cbn [pend LabelModel.first]. rewrite <- app_assoc. reflexivity.
  - specialize (IH x false b0 b Hb). unfold lrun in *. cbn [app]. rewrite !trun_pending. cbn [fst snd].
    rewrite <- app_assoc, IH, <- !app_assoc. reflexivity.
Qed.

Lemma label_app a b : starts_clean b -> label_from_string (a ++ b) = label_from_string a ++ label_from_string b.
Proof.
  intros Hb. destruct b as [|b0 b]; [rewrite app_nil_r; cbn; rewrite app_nil_r; reflexivity|]. cbn in Hb.
  destruct a as [|p a].
  - reflexivity.
  - cbn [app]. rewrite !label_cons. apply lrun_app. exact Hb.
Qed.

Lemma ascii_starts_clean l : ascii l -> starts_clean l.
Proof. intros H. destruct l as [|x r]; [exact I|]. inversion H; subst. apply is_cont_ascii. assumption. Qed.

Lemma label_decoration d : ascii d -> forallb (fun b => negb (label_allowed b)) d = true -> label_from_string d = [].
Proof.
  intros Ha Hd. rewrite (label_ascii d Ha). unfold label_spec. induction d as [|x r IH]; [reflexivity|].
  cbn [forallb] in Hd. apply andb_true_iff in Hd as [Hx Hr]. apply negb_true_iff in Hx. cbn [filter]. rewrite Hx.
  inversion Ha; subst. apply IH; assumption.
Qed.

(* the id of a heading, the label of its automatic link and the label of a reference to its title agree
   for every title that does not begin with a continuation byte - in particular for every valid UTF-8 title *)
Theorem header_id_is_reference_utf8 st title : starts_clean title ->
  header_id st title = reference_label title /\ autolink_label st title = reference_label title.
Proof.
  intros Ht. unfold header_id, autolink_label, reference_label.
  assert (E : label_from_string (label_span st title) = label_from_string title); [|rewrite E; auto].
  assert (Hnl : label_from_string [10] = []) by reflexivity.
  destruct st as [l c|n|n]; cbn [label_span header_span].
  - set (pre := repeat 35 l ++ [32]).
    set (post := (match c with O => [] | _ => 32 :: repeat 35 c end) ++ [10]).
    assert (Hpre : ascii pre /\ forallb (fun b => negb (label_allowed b)) pre = true).
    { unfold pre. split; [apply ascii_app; [apply ascii_repeat; lia|constructor; [lia|constructor]]|].
      rewrite forallb_app. rewrite andb_true_iff. split; [|reflexivity]. clear. induction l; [reflexivity|]. cbn [repeat forallb]. rewrite IHl. reflexivity. }
    assert (Hpost : ascii post /\ forallb (fun b => negb (label_allowed b)) post = true).
    { unfold post. split.
      - apply ascii_app; [|constructor; [lia|constructor]]. destruct c; [constructor|]. constructor; [lia|]. apply ascii_repeat. lia.
      - rewrite forallb_app. rewrite andb_true_iff. split; [|reflexivity]. destruct c; [reflexivity|]. cbn [forallb]. rewrite andb_true_iff. split; [reflexivity|].
        generalize (S c). clear. intros k. induction k; [reflexivity|]. cbn [repeat forallb]. rewrite IHk. reflexivity. }
    assert (Eq : repeat 35 l ++ [32] ++ title ++ post = pre ++ title ++ post)
      by (unfold pre; rewrite <- !app_assoc; reflexivity).
    rewrite Eq. clear Eq.
    clearbody pre post. destruct title as [|t0 tr].
    + change (pre ++ [] ++ post) with (pre ++ post). rewrite (label_app pre post (ascii_starts_clean post (proj1 Hpost))).
      rewrite (label_decoration pre (proj1 Hpre) (proj2 Hpre)), (label_decoration post (proj1 Hpost) (proj2 Hpost)). reflexivity.
    + assert (Hc : starts_clean ((t0 :: tr) ++ post)) by exact Ht.
      rewrite (label_app pre ((t0 :: tr) ++ post) Hc).
      rewrite (label_decoration pre (proj1 Hpre) (proj2 Hpre)).
      rewrite (label_app (t0 :: tr) post (ascii_starts_clean post (proj1 Hpost))).
      rewrite (label_decoration post (proj1 Hpost) (proj2 Hpost)). cbn [app]. apply app_nil_r.
  - rewrite label_app by (cbn; reflexivity). rewrite Hnl. apply app_nil_r.
  - rewrite label_app by (cbn; reflexivity). rewrite Hnl. apply app_nil_r.
Qed.
