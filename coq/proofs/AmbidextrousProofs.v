(* Facts about model/Ambidextrous.v: no read of the STAR / UL cases leaves the NUL-terminated text, and the flags
   of a marker depend only on the text between the nearest whitespace / line ending on either side. *)
From Coq Require Import List Arith NArith Bool Lia.
From MMD.gen Require Import CharTable.
From MMD.model Require Import Ambidextrous.
Import ListNotations.

(* ---------- what the proofs need from the regenerated classifier tables *)
Lemma wsle_facts_b :
  forallb (fun x => negb (marker x) && negb (is_star x) && negb (alnum x) && wslp x) is_whitespace_or_line_ending = true.
Proof. vm_compute. reflexivity. Qed.

Lemma wsle_facts c : wsle c = true ->
  marker c = false /\ is_star c = false /\ alnum c = false /\ wslp c = true /\ nonword c = false.
Proof.
  unfold wsle, inb. intros H. apply existsb_exists in H. destruct H as [x [Hin Hx]].
  apply N.eqb_eq in Hx. subst x.
  pose proof (proj1 (forallb_forall _ _) wsle_facts_b c Hin) as F. cbv beta in F.
  unfold nonword.
  destruct (marker c), (is_star c), (alnum c), (wslp c); cbn in F; try discriminate; repeat split; reflexivity.
Qed.

Lemma nul_facts : marker 0%N = false /\ is_star 0%N = false /\ nonword 0%N = false /\ wsle 0%N = true /\ alnum 0%N = false.
Proof. vm_compute. repeat split; reflexivity. Qed.

Lemma star_is_marker c : is_star c = true -> marker c = true.
Proof. unfold is_star, marker. intros ->. reflexivity. Qed.

Lemma star_not_nonword c : is_star c = true -> nonword c = false.
Proof. unfold is_star. intros H. apply N.eqb_eq in H. subst c. vm_compute. reflexivity. Qed.

(* ---------- reads *)
Lemma rd_lt s i : i < length s -> rd s i = nth_error s i /\ exists c, nth_error s i = Some c.
Proof.
  intros H. unfold rd. destruct (nth_error s i) eqn:E.
  - split; [reflexivity | eauto].
  - apply nth_error_None in E. lia.
Qed.

Lemma rd_end s : rd s (length s) = Some 0%N.
Proof.
  unfold rd. destruct (nth_error s (length s)) eqn:E.
  - assert (nth_error s (length s) <> None) as H by congruence. apply nth_error_Some in H. lia.
  - rewrite Nat.eqb_refl. reflexivity.
Qed.

Lemma rd_le s i : i <= length s -> exists c, rd s i = Some c.
Proof.
  intros H. destruct (Nat.eq_dec i (length s)) as [->|N].
  - rewrite rd_end. eauto.
  - destruct (rd_lt s i) as [E [c Ec]]; [lia|]. rewrite E. eauto.
Qed.

(* ---------- the loops stay inside the text *)
Lemma scan_left_ok p s off : off <= length s -> exists o, scan_left p s off = Some o /\ o <= off.
Proof.
  induction off as [|o IH]; intros H; cbn [scan_left].
  - eauto.
  - destruct (rd_le s (S o) H) as [c ->]. destruct (p c).
    + destruct IH as [o' [E L]]; [lia|]. rewrite E. eauto.
    + eauto.
Qed.

Lemma count_left_ok p s off : off <= length s -> exists n o, count_left p s off = Some (n, o) /\ o <= off.
Proof.
  induction off as [|o IH]; intros H; cbn [count_left].
  - eauto.
  - destruct (rd_le s (S o) H) as [c ->]. destruct (p c).
    + destruct IH as [n [o' [E L]]]; [lia|]. rewrite E. eauto.
    + eauto.
Qed.

Lemma count_left_m1_ok p s off1 : off1 <= S (length s) -> exists n, count_left_m1 p s off1 = Some n.
Proof.
  induction off1 as [|o IH]; intros H; cbn [count_left_m1].
  - eauto.
  - destruct (rd_le s o) as [c ->]; [lia|]. destruct (p c).
    + destruct IH as [n E]; [lia|]. rewrite E. cbn. eauto.
    + eauto.
Qed.

Lemma scan_tail_ok p l : p 0%N = false -> exists k, scan_tail p l = Some k /\ k <= length l.
Proof.
  intros P0. induction l as [|c l IH]; cbn [scan_tail length].
  - rewrite P0. exists 0. split; [reflexivity | lia].
  - destruct (p c).
    + destruct IH as [k [E L]]. rewrite E. cbn. exists (S k). split; [reflexivity | lia].
    + exists 0. split; [reflexivity | lia].
Qed.

Lemma scan_right_ok p s off : p 0%N = false -> off <= length s ->
  exists k, scan_right p s off = Some k /\ off + k <= length s.
Proof.
  intros P0 H. unfold scan_right. destruct (Nat.leb_spec off (length s)) as [_|]; [|lia].
  destruct (scan_tail_ok p (skipn off s) P0) as [k [E L]]. rewrite E. exists k. split; [reflexivity|].
  rewrite skipn_length in L. lia.
Qed.

Lemma scan_left_le p s off o : scan_left p s off = Some o -> o <= off.
Proof.
  revert o. induction off as [|o' IH]; intros o; cbn [scan_left].
  - intros [= <-]. lia.
  - destruct (rd s (S o')) as [c|]; [|discriminate]. destruct (p c).
    + intros E. apply IH in E. lia.
    + intros [= <-]. lia.
Qed.

(* the left scan stops above 0 only on a byte that fails the test *)
Lemma scan_left_stop p s off o : scan_left p s off = Some (S o) -> exists ch, rd s (S o) = Some ch /\ p ch = false.
Proof.
  induction off as [|o' IH]; cbn [scan_left].
  - discriminate.
  - destruct (rd s (S o')) as [c|] eqn:E; [|discriminate]. destruct (p c) eqn:P.
    + exact IH.
    + intros [= <-]. eauto.
Qed.

Lemma look_left_ok s start : start < length s ->
  exists a o, look_left s start = Some (a, o) /\ o <= start.
Proof.
  intros H. unfold look_left. destruct (scan_left_ok marker s start) as [o [-> L]]; [lia|].
  destruct o as [|o].
  - destruct (rd_le s 0) as [c ->]; [lia|]. eauto.
  - eauto.
Qed.

Lemma left_class_ok s start : start < length s -> exists r, left_class s start = Some r.
Proof.
  intros H. unfold left_class. destruct (look_left_ok s start H) as [a [o [-> L]]].
  destruct a; [eauto|]. destruct (rd_le s o) as [c ->]; [lia|]. eauto.
Qed.

Lemma right_class_ok s start : start < length s -> exists r, right_class s start = Some r.
Proof.
  intros H. unfold right_class. destruct nul_facts as [M0 _].
  destruct (scan_right_ok marker s (S start) M0) as [k [-> LK]]; [lia|].
  destruct (rd_le s (S start + k)) as [c ->]; [lia|]. eauto.
Qed.

Lemma word_counts_ok s sm1 : S sm1 < length s -> exists r, word_counts s (S sm1) = Some r.
Proof.
  intros H. destruct nul_facts as [M0 [S0 [W0 _]]]. unfold word_counts.
  destruct (count_left_ok is_star s sm1) as [lead [o1 [-> L1]]]; [lia|].
  unfold pre_of. destruct (scan_left_ok nonword s o1) as [o2 [-> L2]]; [lia|].
  destruct (count_left_m1_ok is_star s (S o2)) as [pre ->]; [lia|].
  destruct (scan_right_ok is_star s (S (S sm1)) S0) as [lag [-> L3]]; [lia|].
  cbv zeta.
  destruct (scan_right_ok nonword s (S (S sm1) + lag) W0) as [w [-> L4]]; [lia|].
  destruct (S (S sm1) + lag + w) as [|o4] eqn:E4; [lia|].
  destruct (scan_right_ok is_star s (S o4) S0) as [post [-> _]]; [lia|].
  eauto.
Qed.

(* when the left class says "not whitespace and not the start", some byte before the marker is not a marker *)
Lemma left_class_false s t la m : left_class s t = Some (false, la) -> nth_error s t = Some m -> marker m = true ->
  exists L ch, L < t /\ rd s L = Some ch /\ marker ch = false /\
               (forall i c, L < i -> i <= t -> rd s i = Some c -> True).
Proof.
  intros E Ht Mm. unfold left_class, look_left in E.
  destruct (scan_left marker s t) as [o|] eqn:ES; [|discriminate].
  assert (o <= t) as Lo by (eapply scan_left_le; eassumption).
  assert (rd s t = Some m) as Rt by (unfold rd; rewrite Ht; reflexivity).
  destruct o as [|o].
  - destruct (rd s 0) as [c0|] eqn:E0; [|discriminate].
    destruct (marker c0) eqn:M0; [discriminate|].
    exists 0, c0. repeat split; auto.
    destruct t; [congruence | lia].
  - destruct (scan_left_stop _ _ _ _ ES) as [ch [Ech Pch]].
    exists (S o), ch. repeat split; auto.
    destruct (Nat.eq_dec (S o) t) as [EQ|]; [|lia]. rewrite EQ in Ech. congruence.
Qed.

Theorem assign_in_bounds (star : bool) s t :
  nth_error s t = Some (if star then 42%N else 95%N) -> exists r, assign star s t = Some r.
Proof.
  intros Ht.
  assert (t < length s) as Lt by (apply nth_error_Some; congruence).
  destruct (left_class_ok s t Lt) as [[lw la] EL].
  destruct (right_class_ok s t Lt) as [[rw ra] ER].
  destruct star; cbn [assign]; [unfold assign_star | unfold assign_ul]; rewrite EL, ER; [|eauto].
  destruct (negb rw && negb lw) eqn:B; [|eauto].
  destruct t as [|sm1].
  - (* the marker is the first byte: nothing to its left, so it cannot close *)
    destruct lw; [rewrite andb_false_r in B; discriminate|].
    destruct (left_class_false s 0 la 42%N EL Ht eq_refl) as [L [ch [HL _]]]. lia.
  - destruct (word_counts_ok s sm1 Lt) as [[[[lead lag] pre] post] ->]. eauto.
Qed.

(* ================= the text to the left of a separating whitespace / line ending is never looked at ============= *)
Section LeftContext.
Variables (pre : list N) (c : N) (s : list N).
Hypothesis Hc : wsle c = true.
Local Notation s' := (pre ++ c :: s).
Local Notation n := (S (length pre)).

Lemma rd_shift i : rd s' (n + i) = rd s i.
Proof.
  unfold rd. rewrite nth_error_app2 by lia.
  replace (S (length pre) + i - length pre) with (S i) by lia. cbn [nth_error].
  destruct (nth_error s i); [reflexivity|].
  rewrite app_length. cbn [length].
  destruct (Nat.eqb_spec i (length s)), (Nat.eqb_spec (S (length pre) + i) (length pre + S (length s))); try lia; reflexivity.
Qed.

Lemma rd_sep : rd s' (length pre) = Some c.
Proof. unfold rd. rewrite nth_error_app2 by lia. rewrite Nat.sub_diag. reflexivity. Qed.

Lemma scan_left_sep p : p c = false -> scan_left p s' (length pre) = Some (length pre).
Proof.
  intros P. remember (length pre) as lp eqn:E. destruct lp as [|m]; cbn [scan_left]; [reflexivity|].
  rewrite E, rd_sep, P. reflexivity.
Qed.

Lemma scan_left_shift p off : p c = false ->
  scan_left p s' (n + off) =
  match scan_left p s off with
  | Some 0 => match rd s 0 with Some c0 => if p c0 then Some (length pre) else Some n | None => None end
  | Some (S o) => Some (n + S o)
  | None => None
  end.
Proof.
  intros P. induction off as [|o IH].
  - cbn [scan_left]. replace (n + 0) with (S (length pre)) by lia. cbn [scan_left].
    change (S (length pre)) with n at 1. replace n with (n + 0) at 1 by lia. rewrite rd_shift.
    destruct (rd s 0) as [c0|]; [|reflexivity]. destruct (p c0); [apply scan_left_sep; exact P | reflexivity].
  - replace (n + S o) with (S (n + o)) by lia. cbn [scan_left].
    replace (S (n + o)) with (n + S o) by lia. rewrite rd_shift.
    destruct (rd s (S o)) as [ch|]; [|reflexivity]. destruct (p ch); [exact IH | reflexivity].
Qed.

Lemma look_left_shift t : t < length s ->
  look_left s' (n + t) =
  match look_left s t with
  | Some (true, _) => Some (false, length pre)
  | Some (false, o) => Some (false, n + o)
  | None => None
  end.
Proof.
  intros Lt. destruct (wsle_facts c Hc) as [Mc _]. unfold look_left. rewrite (scan_left_shift marker t Mc).
  destruct (scan_left marker s t) as [[|o]|]; [| |reflexivity].
  - destruct (rd_le s 0) as [c0 E0]; [lia|]. rewrite E0. destruct (marker c0) eqn:M0.
    + remember (length pre) as lp eqn:E. destruct lp as [|m]; [|reflexivity].
      rewrite E, rd_sep, Mc. reflexivity.
    + rewrite Nat.add_0_r. reflexivity.
  - reflexivity.
Qed.

Lemma left_class_shift t : t < length s -> left_class s' (n + t) = left_class s t.
Proof.
  intros Lt. destruct (wsle_facts c Hc) as [_ [_ [Ac _]]].
  unfold left_class. rewrite (look_left_shift t Lt).
  destruct (look_left s t) as [[[|] o]|]; [| |reflexivity].
  - rewrite rd_sep, Hc, Ac. reflexivity.
  - rewrite rd_shift. reflexivity.
Qed.

Lemma skipn_shift off : skipn (n + off) s' = skipn off s.
Proof. induction pre as [|x l IH]; cbn; [reflexivity | exact IH]. Qed.

Lemma scan_right_shift p off : scan_right p s' (n + off) = scan_right p s off.
Proof.
  unfold scan_right. rewrite skipn_shift.
  assert (length s' = n + length s) as -> by (rewrite app_length; cbn [length]; lia).
  destruct (Nat.leb_spec (n + off) (n + length s)), (Nat.leb_spec off (length s)); try lia; reflexivity.
Qed.

Lemma right_class_shift t : right_class s' (n + t) = right_class s t.
Proof.
  unfold right_class. replace (S (n + t)) with (n + S t) by lia. rewrite scan_right_shift.
  destruct (scan_right marker s (S t)) as [k|]; [|reflexivity].
  replace (n + S t + k) with (n + (S t + k)) by lia. rewrite rd_shift. reflexivity.
Qed.

Lemma count_left_shift p off : p c = false -> forall k o,
  count_left p s off = Some (k, o) ->
  (o = 0 -> forall c0, rd s 0 = Some c0 -> p c0 = false) ->
  count_left p s' (n + off) = Some (k, n + o).
Proof.
  intros P. induction off as [|o' IH]; intros k o E Z.
  - cbn [count_left] in E. injection E as <- <-.
    replace (n + 0) with (S (length pre)) by lia. cbn [count_left].
    change (S (length pre)) with n. replace n with (n + 0) at 1 by lia. rewrite rd_shift.
    destruct (rd_le s 0) as [c0 E0]; [lia|]. rewrite E0, (Z eq_refl c0 E0). reflexivity.
  - cbn [count_left] in E. replace (n + S o') with (S (n + o')) by lia. cbn [count_left].
    replace (S (n + o')) with (n + S o') by lia. rewrite rd_shift.
    destruct (rd s (S o')) as [ch|]; [|discriminate]. destruct (p ch).
    + destruct (count_left p s o') as [[k' o'']|] eqn:E'; [|discriminate]. injection E as <- <-.
      rewrite (IH k' o'' eq_refl Z). reflexivity.
    + injection E as <- <-. reflexivity.
Qed.

Lemma count_left_m1_shift p k : p c = false -> count_left_m1 p s' (n + k) = count_left_m1 p s k.
Proof.
  intros P. induction k as [|k IH].
  - replace (n + 0) with (S (length pre)) by lia. cbn [count_left_m1]. rewrite rd_sep, P. reflexivity.
  - replace (n + S k) with (S (n + k)) by lia. cbn [count_left_m1]. rewrite rd_shift, IH. reflexivity.
Qed.

Lemma pre_of_shift o1 : pre_of s' (n + o1) = pre_of s o1.
Proof.
  destruct (wsle_facts c Hc) as [_ [Sc [_ [_ Wc]]]]. unfold pre_of. induction o1 as [|o IH].
  - cbn [scan_left]. replace (n + 0) with (S (length pre)) by lia. cbn [scan_left].
    change (S (length pre)) with n. replace n with (n + 0) at 1 by lia. rewrite rd_shift.
    destruct (rd_le s 0) as [c0 E0]; [lia|]. rewrite E0. cbn [count_left_m1]. rewrite E0.
    destruct (nonword c0) eqn:W.
    + rewrite (scan_left_sep nonword Wc). cbn [count_left_m1]. rewrite rd_sep, Sc.
      destruct (is_star c0) eqn:S0; [|reflexivity]. rewrite (star_not_nonword c0 S0) in W. discriminate.
    + cbn [count_left_m1]. change (S (length pre)) with n. replace n with (n + 0) at 1 by lia. rewrite rd_shift, E0.
      destruct (is_star c0); [|reflexivity]. rewrite rd_sep, Sc. reflexivity.
  - replace (n + S o) with (S (n + o)) by lia. cbn [scan_left].
    replace (S (n + o)) with (n + S o) by lia. rewrite rd_shift.
    destruct (rd s (S o)) as [ch|]; [|reflexivity]. destruct (nonword ch); [exact IH|].
    replace (S (n + S o)) with (n + S (S o)) by lia. apply count_left_m1_shift. exact Sc.
Qed.

Lemma count_left_stops p x L ch off : rd x L = Some ch -> p ch = false -> L <= off ->
  forall k o, count_left p x off = Some (k, o) -> L <= o.
Proof.
  intros EL PL. induction off as [|o' IH]; intros LE k o E; cbn [count_left] in E.
  - injection E as <- <-. exact LE.
  - destruct (rd x (S o')) as [c1|] eqn:E1; [|discriminate]. destruct (p c1) eqn:P1.
    + destruct (count_left p x o') as [[k' o'']|] eqn:E'; [|discriminate]. injection E as <- <-.
      apply (IH ltac:(destruct (Nat.eq_dec L (S o')) as [EQ|]; [rewrite EQ in EL; congruence | lia]) k' o'' eq_refl).
    + injection E as <- <-. exact LE.
Qed.

Lemma word_counts_shift t m la : t < length s -> nth_error s t = Some m -> marker m = true ->
  left_class s t = Some (false, la) ->
  word_counts s' (n + t) = word_counts s t.
Proof.
  intros Lt Ht Mm ELC. destruct (wsle_facts c Hc) as [_ [Sc _]].
  destruct (left_class_false s t la m ELC Ht Mm) as [L [ch [HL [EL [ML _]]]]].
  destruct t as [|sm1]; [lia|].
  replace (n + S sm1) with (S (n + sm1)) by lia. unfold word_counts.
  destruct (count_left is_star s sm1) as [[lead o1]|] eqn:ECL.
  2:{ destruct (count_left_ok is_star s sm1) as [? [? [E _]]]; [lia | congruence]. }
  assert (L <= o1) as LO.
  { eapply (count_left_stops is_star s L ch sm1 EL); [|lia|exact ECL].
    destruct (is_star ch) eqn:S1; [|reflexivity]. rewrite (star_is_marker ch S1) in ML. discriminate. }
  rewrite (count_left_shift is_star sm1 Sc lead o1 ECL).
  2:{ intros -> c0 E0. assert (L = 0) as -> by lia. rewrite EL in E0. injection E0 as <-.
      destruct (is_star ch) eqn:S1; [|reflexivity]. rewrite (star_is_marker ch S1) in ML. discriminate. }
  rewrite pre_of_shift. destruct (pre_of s o1) as [pre0|]; [|reflexivity].
  replace (S (S (n + sm1))) with (n + S (S sm1)) by lia. rewrite scan_right_shift.
  destruct (scan_right is_star s (S (S sm1))) as [lag|]; [|reflexivity]. cbv zeta.
  replace (n + S (S sm1) + lag) with (n + (S (S sm1) + lag)) by lia. rewrite scan_right_shift.
  destruct (scan_right nonword s (S (S sm1) + lag)) as [w|]; [|reflexivity].
  replace (n + (S (S sm1) + lag) + w) with (n + (S (S sm1) + lag + w)) by lia.
  replace (S (S sm1) + lag + w) with (S (S sm1 + lag + w)) by lia.
  replace (n + S (S sm1 + lag + w)) with (S (n + (S sm1 + lag + w))) by lia.
  replace (S (n + (S sm1 + lag + w))) with (n + S (S sm1 + lag + w)) by lia. rewrite scan_right_shift.
  reflexivity.
Qed.

Theorem assign_left_context (star : bool) t :
  nth_error s t = Some (if star then 42%N else 95%N) ->
  assign star s' (n + t) = assign star s t.
Proof.
  intros Ht. assert (t < length s) as Lt by (apply nth_error_Some; congruence).
  destruct star; cbn [assign]; [unfold assign_star | unfold assign_ul];
    rewrite (left_class_shift t Lt), right_class_shift; [|reflexivity].
  destruct (left_class s t) as [[lw la]|] eqn:ELC; [|reflexivity].
  destruct (right_class s t) as [[rw ra]|]; [|reflexivity].
  destruct (negb rw && negb lw) eqn:B; [|reflexivity].
  destruct lw; [rewrite andb_false_r in B; discriminate|].
  rewrite (word_counts_shift t 42%N la Lt Ht eq_refl ELC). reflexivity.
Qed.
End LeftContext.

(* ================= nor is the text to the right of one ============= *)
Lemma scan_left_ext p s1 s2 off : (forall i, i <= off -> rd s1 i = rd s2 i) -> scan_left p s1 off = scan_left p s2 off.
Proof.
  induction off as [|o IH]; intros H; cbn [scan_left]; [reflexivity|].
  rewrite (H (S o) (le_n _)). destruct (rd s2 (S o)) as [c|]; [|reflexivity].
  destruct (p c); [|reflexivity]. apply IH. intros i Hi. apply H. lia.
Qed.

Lemma count_left_ext p s1 s2 off : (forall i, i <= off -> rd s1 i = rd s2 i) -> count_left p s1 off = count_left p s2 off.
Proof.
  induction off as [|o IH]; intros H; cbn [count_left]; [reflexivity|].
  rewrite (H (S o) (le_n _)). destruct (rd s2 (S o)) as [c|]; [|reflexivity].
  destruct (p c); [|reflexivity]. rewrite IH; [reflexivity|]. intros i Hi. apply H. lia.
Qed.

Lemma count_left_m1_ext p s1 s2 off1 : (forall i, i < off1 -> rd s1 i = rd s2 i) -> count_left_m1 p s1 off1 = count_left_m1 p s2 off1.
Proof.
  induction off1 as [|o IH]; intros H; cbn [count_left_m1]; [reflexivity|].
  rewrite (H o (le_n _)). destruct (rd s2 o) as [c|]; [|reflexivity].
  destruct (p c); [|reflexivity]. rewrite IH; [reflexivity|]. intros i Hi. apply H. lia.
Qed.

Lemma count_left_le p s off k o : count_left p s off = Some (k, o) -> o <= off.
Proof.
  revert k o. induction off as [|o' IH]; intros k o; cbn [count_left].
  - intros [= <- <-]. lia.
  - destruct (rd s (S o')) as [c|]; [|discriminate]. destruct (p c).
    + destruct (count_left p s o') as [[k' o'']|] eqn:E; [|discriminate]. intros [= <- <-].
      specialize (IH k' o'' eq_refl). lia.
    + intros [= <- <-]. lia.
Qed.

Lemma left_class_ext s1 s2 t : (forall i, i <= t -> rd s1 i = rd s2 i) -> left_class s1 t = left_class s2 t.
Proof.
  intros H. unfold left_class, look_left. rewrite (scan_left_ext marker s1 s2 t H).
  destruct (scan_left marker s2 t) as [o|] eqn:E; [|reflexivity].
  apply scan_left_le in E. destruct o as [|o].
  - rewrite (H 0) by lia. destruct (rd s2 0) as [c0|]; [|reflexivity].
    destruct (marker c0); [reflexivity|]. rewrite (H 0) by lia. reflexivity.
  - rewrite (H (S o) E). reflexivity.
Qed.

Lemma pre_of_ext s1 s2 o1 : (forall i, i <= o1 -> rd s1 i = rd s2 i) -> pre_of s1 o1 = pre_of s2 o1.
Proof.
  intros H. unfold pre_of. rewrite (scan_left_ext nonword s1 s2 o1 H).
  destruct (scan_left nonword s2 o1) as [o2|] eqn:E; [|reflexivity].
  apply scan_left_le in E. apply count_left_m1_ext. intros i Hi. apply H. lia.
Qed.

Section RightContext.
Variables (s : list N) (c : N) (post : list N).
Hypothesis Hc : wsle c = true.
Local Notation s'' := (s ++ c :: post).

Lemma rd_r_lt i : i < length s -> rd s'' i = rd s i.
Proof.
  intros H. destruct (rd_lt s i H) as [E [x Ex]]. rewrite E. unfold rd. rewrite nth_error_app1 by exact H.
  rewrite Ex. reflexivity.
Qed.

Lemma rd_r_end : rd s'' (length s) = Some c.
Proof. unfold rd. rewrite nth_error_app2 by lia. rewrite Nat.sub_diag. reflexivity. Qed.

Lemma scan_tail_app p l : p c = false -> p 0%N = false -> scan_tail p (l ++ c :: post) = scan_tail p l.
Proof.
  intros Pc P0. induction l as [|x l IH]; cbn [scan_tail app].
  - rewrite Pc, P0. reflexivity.
  - rewrite IH. reflexivity.
Qed.

Lemma scan_right_r p off : p c = false -> p 0%N = false -> off <= length s -> scan_right p s'' off = scan_right p s off.
Proof.
  intros Pc P0 H. unfold scan_right. rewrite app_length. cbn [length].
  destruct (Nat.leb_spec off (length s + S (length post))), (Nat.leb_spec off (length s)); try lia.
  rewrite skipn_app. replace (off - length s) with 0 by lia. cbn [skipn]. apply scan_tail_app; assumption.
Qed.

Lemma right_class_r t : t < length s -> right_class s'' t = right_class s t.
Proof.
  intros Lt. destruct (wsle_facts c Hc) as [Mc [_ [Ac _]]]. destruct nul_facts as [M0 [_ [_ [W0 A0]]]].
  unfold right_class. rewrite (scan_right_r marker (S t) Mc M0) by lia.
  destruct (scan_right_ok marker s (S t) M0) as [k [-> LK]]; [lia|].
  destruct (Nat.eq_dec (S t + k) (length s)) as [E|NE].
  - rewrite E, rd_r_end, rd_end, Hc, Ac, W0, A0. reflexivity.
  - rewrite rd_r_lt by lia. reflexivity.
Qed.

Lemma word_counts_r t : t < length s -> word_counts s'' t = word_counts s t.
Proof.
  intros Lt. destruct (wsle_facts c Hc) as [_ [Sc [_ [_ Wc]]]]. destruct nul_facts as [_ [S0 [W0 _]]].
  destruct t as [|sm1]; [reflexivity|]. unfold word_counts.
  rewrite (count_left_ext is_star s'' s sm1) by (intros i Hi; apply rd_r_lt; lia).
  destruct (count_left is_star s sm1) as [[lead o1]|] eqn:E1; [|reflexivity].
  apply count_left_le in E1.
  rewrite (pre_of_ext s'' s o1) by (intros i Hi; apply rd_r_lt; lia).
  destruct (pre_of s o1) as [pre0|]; [|reflexivity].
  rewrite (scan_right_r is_star (S (S sm1)) Sc S0) by lia.
  destruct (scan_right_ok is_star s (S (S sm1)) S0) as [lag [-> L3]]; [lia|]. cbv zeta.
  rewrite (scan_right_r nonword (S (S sm1) + lag) Wc W0) by lia.
  destruct (scan_right_ok nonword s (S (S sm1) + lag) W0) as [w [-> L4]]; [lia|].
  destruct (S (S sm1) + lag + w) as [|o4] eqn:E4; [reflexivity|].
  rewrite (scan_right_r is_star (S o4) Sc S0) by lia. reflexivity.
Qed.

Theorem assign_right_context (star : bool) t : t < length s -> assign star s'' t = assign star s t.
Proof.
  intros Lt.
  assert (left_class s'' t = left_class s t) as EL by (apply left_class_ext; intros i Hi; apply rd_r_lt; lia).
  destruct star; cbn [assign]; [unfold assign_star | unfold assign_ul];
    rewrite EL, (right_class_r t Lt); [|reflexivity].
  rewrite (word_counts_r t Lt). reflexivity.
Qed.
End RightContext.

(* the flags of a marker depend only on the text between the nearest whitespace / line ending on either side *)
Theorem assign_context_independent (star : bool) pre c1 s c2 post t :
  wsle c1 = true -> wsle c2 = true ->
  nth_error s t = Some (if star then 42%N else 95%N) ->
  assign star (pre ++ c1 :: s ++ c2 :: post) (S (length pre) + t) = assign star s t.
Proof.
  intros H1 H2 Ht. assert (t < length s) as Lt by (apply nth_error_Some; congruence).
  rewrite (assign_left_context pre c1 (s ++ c2 :: post) H1 star t).
  - apply assign_right_context; assumption.
  - rewrite nth_error_app1 by exact Lt. exact Ht.
Qed.

(* the terminating NUL and a line ending are interchangeable: a text that is the whole document gives the same flags
   as the same text followed by a newline and anything else *)
Corollary assign_line_vs_document (star : bool) s post t :
  nth_error s t = Some (if star then 42%N else 95%N) ->
  assign star (s ++ 10%N :: post) t = assign star s t.
Proof.
  intros Ht. apply assign_right_context; [vm_compute; reflexivity | apply nth_error_Some; congruence].
Qed.

(* ================= the documented flanking rule ============= *)
Lemma left_class_ws s t la : left_class s t = Some (true, la) -> la = false.
Proof.
  unfold left_class. destruct (look_left s t) as [[[|] o]|]; [intros [= <-]; reflexivity | | discriminate].
  destruct (rd s o) as [c|]; [|discriminate]. intros [= W <-]. apply (wsle_facts c W).
Qed.

Lemma right_class_ws s t ra : right_class s t = Some (true, ra) -> ra = false.
Proof.
  unfold right_class. destruct (scan_right marker s (S t)) as [k|]; [|discriminate].
  destruct (rd s (S t + k)) as [c|]; [|discriminate]. intros [= W <-]. apply (wsle_facts c W).
Qed.

Lemma flanking (star : bool) s t la ra :
  (left_class s t = Some (true, la) -> right_class s t = Some (false, ra) -> assign star s t = Some (true, false)) /\
  (left_class s t = Some (false, la) -> right_class s t = Some (true, ra) -> assign star s t = Some (false, true)).
Proof.
  split; intros EL ER.
  - pose proof (left_class_ws s t la EL) as ->.
    destruct star; cbn [assign]; [unfold assign_star | unfold assign_ul]; rewrite EL, ER; reflexivity.
  - pose proof (right_class_ws s t ra ER) as ->.
    destruct star; cbn [assign]; [unfold assign_star | unfold assign_ul]; rewrite EL, ER; cbn [negb andb];
      [reflexivity | rewrite andb_false_r; reflexivity].
Qed.

(* ================= the other cases of the routine: no read leaves the text either ============= *)
Lemma prev_ok s start : start <= length s -> exists pv, prev s start = Some pv.
Proof.
  intros H. unfold prev. destruct start as [|p]; [eauto|].
  destruct (rd_le s p) as [c ->]; [lia|]. eauto.
Qed.

Lemma find_left_ok m s off : off <= S (length s) -> exists b, find_left m s off = Some b.
Proof.
  induction off as [|o IH]; intros H; cbn [find_left]; [eauto|].
  destruct (rd_le s o) as [c ->]; [lia|]. destruct (wsle c); [eauto|]. destruct (N.eqb c m); [eauto|]. apply IH. lia.
Qed.

Lemma find_tail_ok m l : exists b, find_tail m l = Some b.
Proof.
  destruct nul_facts as [_ [_ [_ [W0 _]]]].
  induction l as [|c l IH]; cbn [find_tail].
  - rewrite W0. eauto.
  - destruct (wsle c); [eauto|]. destruct (N.eqb c m); [eauto|]. exact IH.
Qed.

Lemma backtick_ok s start len : start < length s -> exists r, assign_backtick s start len = Some r.
Proof.
  intros H. unfold assign_backtick. destruct (negb (Nat.eqb len 2)); [eauto|].
  destruct start as [|p]; [eauto|].
  destruct (rd_le s (S p)) as [c ->]; [lia|]. destruct (negb (N.eqb c 96)); [|eauto].
  destruct (rd_le s p) as [c1 ->]; [lia|]. eauto.
Qed.

Lemma quote_ok s start len : start < length s -> exists r, assign_quote s start len = Some r.
Proof.
  intros H. unfold assign_quote. destruct (prev_ok s start) as [pv ->]; [lia|].
  destruct (rd_le s (S start)) as [cn ->]; [lia|].
  destruct (match pv with None => (true, false) | Some cp => _ end) as [o c]. eauto.
Qed.

Lemma quote_single_ok s start len : start < length s -> exists r, assign_quote_single s start len = Some r.
Proof.
  intros H. unfold assign_quote_single. destruct (prev_ok s start) as [pv ->]; [lia|].
  destruct (rd_le s (S start)) as [cn Ecn]; [lia|]. rewrite Ecn.
  destruct (negb _); [eauto|].
  assert (exists poss, match pv with
          | Some cp => if punct cp && alnum cn && (N.eqb cn 115 || N.eqb cn 83)
                       then match rd s (S (S start)) with Some c2 => Some (wslp c2) | None => None end else Some false
          | None => Some false end = Some poss) as [poss ->].
  { destruct pv as [cp|]; [|eauto].
    destruct (punct cp && alnum cn && (N.eqb cn 115 || N.eqb cn 83)) eqn:B; [|eauto].
    (* the byte after the quote is an s, so it is not the terminator and one more byte may be read *)
    assert (S start <> length s) as NE.
    { intros E. rewrite E, rd_end in Ecn. injection Ecn as <-. change (N.eqb 0 115 || N.eqb 0 83) with false in B. rewrite andb_false_r in B. discriminate. }
    destruct (rd_le s (S (S start))) as [c2 ->]; [lia|]. eauto. }
  destruct poss; [eauto|]. apply quote_ok. exact H.
Qed.

Lemma dash_ok s start len : start < length s -> exists r, assign_dash s start len = Some r.
Proof.
  intros H. unfold assign_dash. destruct (negb (Nat.eqb len 1)); [eauto|].
  destruct (prev_ok s start) as [pv ->]; [lia|].
  destruct pv as [cp|]; [|eauto]. destruct (negb (digit cp)); [eauto|].
  destruct (rd_le s (S start)) as [cn ->]; [lia|]. eauto.
Qed.

Lemma math_ok s start len : start < length s -> start + len <= length s -> exists r, assign_math s start len = Some r.
Proof.
  intros H HL. unfold assign_math. destruct (prev_ok s start) as [pv ->]; [lia|].
  destruct (match pv with None => (true, false) | Some cp => _ end) as [o c].
  destruct (rd_le s (start + len) HL) as [cn ->].
  destruct (wsle cn); [eauto|]. destruct (negb (wslp cn)); eauto.
Qed.

Lemma supsub_ok s start len : start < length s -> start + len <= length s -> exists r, assign_supsub s start len = Some r.
Proof.
  intros H HL. destruct nul_facts as [_ [_ [W0 _]]]. unfold assign_supsub.
  destruct (rd_le s start) as [m ->]; [lia|].
  destruct (prev_ok s start) as [pv ->]; [lia|].
  destruct (rd_le s (start + len) HL) as [cn ->].
  assert (exists cc, (if match pv with None => true | Some cp => negb (wsle cp) end then find_left m s start else Some false) = Some cc) as [cc ->].
  { destruct (match pv with None => true | Some cp => negb (wsle cp) end); [|eauto]. apply find_left_ok. lia. }
  destruct (negb (wsle cn)); [|eauto].
  destruct (Nat.leb_spec (start + len) (length s)) as [_|]; [|lia].
  destruct (find_tail_ok m (skipn (start + len) s)) as [co ->].
  destruct (negb cc && negb co); [|eauto].
  destruct (scan_right_ok nonword s (start + len) W0 HL) as [k [-> _]]. eauto.
Qed.

Theorem assign_tok_in_bounds k s start len :
  start < length s -> start + len <= length s ->
  (k = KStar -> nth_error s start = Some 42%N) -> (k = KUl -> nth_error s start = Some 95%N) ->
  exists r, assign_tok k s start len = Some r.
Proof.
  intros H HL HS HU. destruct k; cbn [assign_tok].
  - destruct (assign_in_bounds true s start (HS eq_refl)) as [[o c] E]. cbn [assign] in E. rewrite E. eauto.
  - destruct (assign_in_bounds false s start (HU eq_refl)) as [[o c] E]. cbn [assign] in E. rewrite E. eauto.
  - apply backtick_ok; assumption.
  - apply quote_single_ok; assumption.
  - apply quote_ok; assumption.
  - apply dash_ok; assumption.
  - apply math_ok; assumption.
  - apply supsub_ok; assumption.
Qed.

(* ================= context independence for the other token kinds (all but the two-backtick quote, whose can_close
   is cleared at offset 0 only - a flag that cannot matter there: nothing precedes it that it could close) ============= *)
Lemma wsle_facts2_b :
  forallb (fun x => negb (punct x) && negb (digit x)) is_whitespace_or_line_ending = true.
Proof. vm_compute. reflexivity. Qed.

Lemma wsle_facts2 c : wsle c = true -> punct c = false /\ digit c = false.
Proof.
  unfold wsle, inb. intros H. apply existsb_exists in H. destruct H as [x [Hin Hx]].
  apply N.eqb_eq in Hx. subst x.
  pose proof (proj1 (forallb_forall _ _) wsle_facts2_b c Hin) as F. cbv beta in F.
  destruct (punct c), (digit c); cbn in F; try discriminate; split; reflexivity.
Qed.

Lemma nul_facts2 : wslp 0%N = true /\ digit 0%N = false /\ punct 0%N = false.
Proof. vm_compute. repeat split; reflexivity. Qed.

Section LeftContext2.
Variables (pre : list N) (c : N) (s : list N).
Hypothesis Hc : wsle c = true.
Local Notation s' := (pre ++ c :: s).
Local Notation n := (S (length pre)).

Lemma prev_shift_S p : prev s' (n + S p) = prev s (S p).
Proof. unfold prev. replace (n + S p) with (S (n + p)) by lia. rewrite (rd_shift pre c s). reflexivity. Qed.

Lemma prev_shift_0 : prev s' (n + 0) = Some (Some c).
Proof. unfold prev. replace (n + 0) with (S (length pre)) by lia. rewrite (rd_sep pre c s). reflexivity. Qed.

Lemma find_left_shift m off : find_left m s' (n + off) = find_left m s off.
Proof.
  induction off as [|o IH].
  - replace (n + 0) with (S (length pre)) by lia. cbn [find_left]. rewrite (rd_sep pre c s), Hc. reflexivity.
  - replace (n + S o) with (S (n + o)) by lia. cbn [find_left]. rewrite (rd_shift pre c s), IH. reflexivity.
Qed.

Lemma quote_left start len : assign_quote s' (n + start) len = assign_quote s start len.
Proof.
  unfold assign_quote. replace (S (n + start)) with (n + S start) by lia. rewrite (rd_shift pre c s).
  destruct start as [|p].
  - rewrite prev_shift_0. cbn [prev]. rewrite Hc. reflexivity.
  - rewrite prev_shift_S. reflexivity.
Qed.

Lemma quote_single_left start len : assign_quote_single s' (n + start) len = assign_quote_single s start len.
Proof.
  destruct (wsle_facts c Hc) as [_ [_ [_ [Wc _]]]]. destruct (wsle_facts2 c Hc) as [Pc _].
  unfold assign_quote_single. rewrite quote_left.
  replace (S (n + start)) with (n + S start) by lia. replace (S (n + S start)) with (n + S (S start)) by lia.
  rewrite !(rd_shift pre c s).
  destruct start as [|p].
  - rewrite prev_shift_0. cbn [prev]. rewrite Wc, Pc. cbn [andb orb]. reflexivity.
  - rewrite prev_shift_S. reflexivity.
Qed.

Lemma dash_left start len : assign_dash s' (n + start) len = assign_dash s start len.
Proof.
  destruct (wsle_facts2 c Hc) as [_ Dc]. unfold assign_dash.
  replace (S (n + start)) with (n + S start) by lia. rewrite (rd_shift pre c s).
  destruct start as [|p].
  - rewrite prev_shift_0. cbn [prev]. rewrite Dc. reflexivity.
  - rewrite prev_shift_S. reflexivity.
Qed.

Lemma math_left start len : assign_math s' (n + start) len = assign_math s start len.
Proof.
  unfold assign_math. replace (n + start + len) with (n + (start + len)) by lia. rewrite (rd_shift pre c s).
  destruct start as [|p].
  - rewrite prev_shift_0. cbn [prev]. rewrite Hc. reflexivity.
  - rewrite prev_shift_S. reflexivity.
Qed.

Lemma supsub_left start len : assign_supsub s' (n + start) len = assign_supsub s start len.
Proof.
  unfold assign_supsub. rewrite (rd_shift pre c s).
  destruct (rd s start) as [m|]; [|reflexivity].
  replace (n + start + len) with (n + (start + len)) by lia.
  rewrite (rd_shift pre c s), (scan_right_shift pre c s), (skipn_shift pre c s), find_left_shift.
  assert (length s' = n + length s) as -> by (rewrite app_length; cbn [length]; lia).
  assert (Nat.leb (n + (start + len)) (n + length s) = Nat.leb (start + len) (length s)) as ->.
  { destruct (Nat.leb_spec (n + (start + len)) (n + length s)), (Nat.leb_spec (start + len) (length s)); try lia; reflexivity. }
  destruct start as [|p].
  - rewrite prev_shift_0. cbn [prev find_left]. rewrite Hc. cbn [negb]. reflexivity.
  - rewrite prev_shift_S. reflexivity.
Qed.
End LeftContext2.

Lemma find_left_ext m s1 s2 off : (forall i, i < off -> rd s1 i = rd s2 i) -> find_left m s1 off = find_left m s2 off.
Proof.
  induction off as [|o IH]; intros H; cbn [find_left]; [reflexivity|].
  rewrite (H o (le_n _)). destruct (rd s2 o) as [x|]; [|reflexivity].
  destruct (wsle x); [reflexivity|]. destruct (N.eqb x m); [reflexivity|]. apply IH. intros i Hi. apply H. lia.
Qed.

Lemma prev_ext s1 s2 start : (forall i, i < start -> rd s1 i = rd s2 i) -> prev s1 start = prev s2 start.
Proof. intros H. unfold prev. destruct start as [|p]; [reflexivity|]. rewrite (H p (le_n _)). reflexivity. Qed.

Section RightContext2.
Variables (s : list N) (c : N) (post : list N).
Hypothesis Hc : wsle c = true.
Local Notation s'' := (s ++ c :: post).

(* a read at or below the end of s: the same byte, or the separator where s alone has its terminator *)
Lemma rd_r_le i : i <= length s ->
  (rd s'' i = rd s i /\ i < length s) \/ (rd s'' i = Some c /\ rd s i = Some 0%N /\ i = length s).
Proof.
  intros H. destruct (Nat.eq_dec i (length s)) as [->|NE].
  - right. rewrite (rd_r_end s c post), rd_end. auto.
  - left. split; [apply rd_r_lt|]; lia.
Qed.

Lemma prev_r start : start <= length s -> prev s'' start = prev s start.
Proof. intros H. apply prev_ext. intros i Hi. apply rd_r_lt. lia. Qed.

Lemma find_tail_app m l : find_tail m (l ++ c :: post) = find_tail m l.
Proof.
  destruct nul_facts as [_ [_ [_ [W0 _]]]].
  induction l as [|x l IH]; cbn [find_tail app].
  - rewrite Hc, W0. reflexivity.
  - rewrite IH. reflexivity.
Qed.

Lemma quote_r start len : start < length s -> assign_quote s'' start len = assign_quote s start len.
Proof.
  intros H. destruct nul_facts as [_ [_ [_ [W0 _]]]]. unfold assign_quote. rewrite prev_r by lia.
  destruct (rd_r_le (S start)) as [[-> _]|[-> [-> _]]]; [lia|reflexivity|].
  destruct (prev s start) as [pv|]; [|reflexivity]. rewrite Hc, W0. reflexivity.
Qed.

Lemma quote_single_r start len : start < length s -> assign_quote_single s'' start len = assign_quote_single s start len.
Proof.
  intros H. destruct (wsle_facts c Hc) as [_ [_ [Ac [Wc _]]]]. destruct nul_facts as [_ [_ [_ [_ A0]]]]. destruct nul_facts2 as [P0 _].
  unfold assign_quote_single. rewrite (quote_r start len H), prev_r by lia.
  destruct (prev s start) as [pv|]; [|reflexivity].
  destruct (rd_r_le (S start)) as [[-> L1]|[-> [-> _]]]; [lia| |].
  - destruct (rd s (S start)) as [cn|]; [|reflexivity].
    destruct (rd_r_le (S (S start))) as [[-> _]|[-> [-> _]]]; [lia|reflexivity|].
    rewrite Wc, P0. reflexivity.
  - rewrite Wc, P0, Ac, A0, !orb_true_r. cbn [negb]. destruct pv as [cp|]; rewrite ?andb_false_r; reflexivity.
Qed.

Lemma dash_r start len : start < length s -> assign_dash s'' start len = assign_dash s start len.
Proof.
  intros H. destruct (wsle_facts2 c Hc) as [_ Dc]. destruct nul_facts2 as [_ [D0 _]].
  unfold assign_dash. rewrite prev_r by lia.
  destruct (rd_r_le (S start)) as [[-> _]|[-> [-> _]]]; [lia|reflexivity|]. rewrite Dc, D0. reflexivity.
Qed.

Lemma math_r start len : start < length s -> start + len <= length s -> assign_math s'' start len = assign_math s start len.
Proof.
  intros H HL. destruct nul_facts as [_ [_ [_ [W0 _]]]]. unfold assign_math. rewrite prev_r by lia.
  destruct (rd_r_le (start + len) HL) as [[-> _]|[-> [-> _]]]; [reflexivity|]. rewrite Hc, W0. reflexivity.
Qed.

Lemma supsub_r start len : start < length s -> start + len <= length s -> assign_supsub s'' start len = assign_supsub s start len.
Proof.
  intros H HL. destruct nul_facts as [_ [_ [WN0 [W0 _]]]]. destruct (wsle_facts c Hc) as [_ [_ [_ [_ Wc]]]].
  unfold assign_supsub. rewrite (rd_r_lt s c post start H), prev_r by lia.
  destruct (rd s start) as [m|]; [|reflexivity].
  rewrite (find_left_ext m s'' s start) by (intros i Hi; apply rd_r_lt; lia).
  rewrite (scan_right_r s c post nonword (start + len) Wc WN0 HL).
  rewrite app_length. cbn [length].
  assert (Nat.leb (start + len) (length s + S (length post)) = Nat.leb (start + len) (length s)) as ->.
  { destruct (Nat.leb_spec (start + len) (length s + S (length post))), (Nat.leb_spec (start + len) (length s)); try lia; reflexivity. }
  rewrite skipn_app. replace (start + len - length s) with 0 by lia. cbn [skipn]. rewrite find_tail_app.
  destruct (rd_r_le (start + len) HL) as [[-> _]|[-> [-> _]]]; [reflexivity|]. rewrite Hc, W0. reflexivity.
Qed.
End RightContext2.

Theorem assign_tok_context_independent k pre c1 s c2 post start len :
  wsle c1 = true -> wsle c2 = true -> k <> KBacktick ->
  start < length s -> start + len <= length s ->
  (k = KStar -> nth_error s start = Some 42%N) -> (k = KUl -> nth_error s start = Some 95%N) ->
  assign_tok k (pre ++ c1 :: s ++ c2 :: post) (S (length pre) + start) len = assign_tok k s start len.
Proof.
  intros H1 H2 NB Lt HL HS HU.
  assert (start < length (s ++ c2 :: post)) as Lt' by (rewrite app_length; lia).
  destruct k; cbn [assign_tok].
  - pose proof (assign_context_independent true pre c1 s c2 post start H1 H2 (HS eq_refl)) as E. cbn [assign] in E. rewrite E. reflexivity.
  - pose proof (assign_context_independent false pre c1 s c2 post start H1 H2 (HU eq_refl)) as E. cbn [assign] in E. rewrite E. reflexivity.
  - congruence.
  - rewrite quote_single_left by assumption. apply quote_single_r; assumption.
  - rewrite quote_left by assumption. apply quote_r; assumption.
  - rewrite dash_left by assumption. apply dash_r; assumption.
  - rewrite math_left by assumption. apply math_r; assumption.
  - rewrite supsub_left by assumption. apply supsub_r; assumption.
Qed.
