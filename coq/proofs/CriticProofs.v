(* Proofs for C12: on well-formed edit scripts the model's accept / reject give exactly the edited text. *)
From Coq Require Import Lia.
From MMD.lib Require Import Bytes BytesFacts.
From MMD.model Require Import CriticModel CriticSpec.
Local Open Scope N_scope.

(* ---- induction principle for the nested script type *)
Section CmInd.
Variable Pc : cm -> Prop.
Hypothesis Htext : forall t, Pc (CText t).
Hypothesis Hadd : forall l, Forall Pc l -> Pc (CAdd l).
Hypothesis Hdel : forall l, Forall Pc l -> Pc (CDel l).
Hypothesis Hhi : forall l, Forall Pc l -> Pc (CHi l).
Hypothesis Hsub : forall o n, Pc (CSub o n).
Hypothesis Hcom : forall t, Pc (CCom t).
Fixpoint cm_ind' (c : cm) : Pc c :=
  let fix go (l : list cm) : Forall Pc l :=
    match l with [] => Forall_nil _ | x :: r => Forall_cons x (cm_ind' x) (go r) end in
  match c with
  | CText t => Htext t
  | CAdd l => Hadd l (go l)
  | CDel l => Hdel l (go l)
  | CHi l => Hhi l (go l)
  | CSub o n => Hsub o n
  | CCom t => Hcom t
  end.
End CmInd.

(* ---- the tokenizer on annotated scripts *)
Lemma tokenize_from_skip k : forall l, tokenize_from k l = tokenize (skipn k l).
Proof.
  induction k as [|k IH]; intros l; [reflexivity|].
  destruct l as [|b r]; [reflexivity|]. cbn [tokenize_from skipn]. apply IH.
Qed.

Lemma tokenize_mark m rest : tokenize (mark_text m ++ rest) = M m :: tokenize rest.
Proof.
  unfold tokenize. destruct m; cbn [mark_text app tokenize_from];
    unfold match_at; cbn [marks3 find mark_text prefixb N.eqb Pos.eqb andb];
    cbn [app]; rewrite ?tokenize_from_skip; reflexivity.
Qed.

Lemma tokenize_plain b rest : marker_char b = false -> tokenize (b :: rest) = P b :: tokenize rest.
Proof.
  intros H. unfold marker_char in H. repeat (apply orb_false_iff in H as [H ?]).
  assert (H92 : (b =? 92) = false) by assumption.
  unfold tokenize. cbn [tokenize_from]. unfold match_at. cbn [marks3 find mark_text prefixb].
  repeat match goal with Hx : (b =? ?k) = false |- _ => rewrite (N.eqb_sym b k) in Hx end.
  repeat match goal with Hx : (?k =? b) = false |- _ => rewrite Hx; clear Hx end.
  cbn [andb]. destruct rest as [|c r]; [reflexivity|].
  rewrite (N.eqb_sym b 92). match goal with Hx : (92 =? b) = false |- _ => rewrite Hx end. reflexivity.
Qed.

Lemma tokenize_escape c rest : escapable c = true -> tokenize (92 :: c :: rest) = P 92 :: P c :: tokenize rest.
Proof.
  intros H. unfold tokenize. cbn [tokenize_from]. unfold match_at.
  cbn [marks3 find mark_text prefixb N.eqb Pos.eqb andb]. rewrite H. cbn [andb app Nat.sub].
  cbn [tokenize_from]. reflexivity.
Qed.

Definition atom_items (a : atom) : list item := match a with Pl b => [P b] | Es c => [P 92; P c] end.
Definition atoms_items (l : list atom) : list item := flat_map atom_items l.

Lemma tokenize_atoms t rest : forallb atom_ok t = true ->
  tokenize (atoms_text t ++ rest) = atoms_items t ++ tokenize rest.
Proof.
  induction t as [|a t IH]; intros H; [reflexivity|].
  cbn [forallb] in H. apply andb_true_iff in H as [Ha Ht].
  cbn [atoms_text atoms_items flat_map]. rewrite <- !app_assoc. fold (atoms_text t). fold (atoms_items t).
  destruct a as [b|c]; cbn [atom_text atom_items atom_ok app] in *.
  - rewrite tokenize_plain by (apply negb_true_iff, Ha). rewrite IH by exact Ht. reflexivity.
  - rewrite tokenize_escape by exact Ha. rewrite IH by exact Ht. reflexivity.
Qed.

(* the item sequence of a script *)
Fixpoint items (c : cm) : list item :=
  match c with
  | CText t => atoms_items t
  | CAdd l => M AddO :: flat_map items l ++ [M AddC]
  | CDel l => M DelO :: flat_map items l ++ [M DelC]
  | CHi l => M HiO :: flat_map items l ++ [M HiC]
  | CSub o n => M SubO :: atoms_items o ++ M SubD :: atoms_items n ++ [M SubC]
  | CCom t => M ComO :: atoms_items t ++ [M ComC]
  end.

Lemma tokenize_script c : wf c = true -> forall rest, tokenize (annotate c ++ rest) = items c ++ tokenize rest.
Proof.
  induction c as [t|l IH|l IH|l IH|o n|t] using cm_ind'; intros Hwf rest; cbn [annotate items wf] in *.
  - apply tokenize_atoms, Hwf.
  - rewrite <- !app_assoc, tokenize_mark. cbn [app]. f_equal. rewrite <- app_assoc.
    revert Hwf rest. induction IH as [|x l Hx _ IHl]; intros Hwf rest; cbn [flat_map forallb] in *.
    + cbn [app]. rewrite tokenize_mark. reflexivity.
    + apply andb_true_iff in Hwf as [H1 H2]. rewrite <- !app_assoc. rewrite Hx by exact H1. rewrite IHl by exact H2. reflexivity.
  - rewrite <- !app_assoc, tokenize_mark. cbn [app]. f_equal. rewrite <- app_assoc.
    revert Hwf rest. induction IH as [|x l Hx _ IHl]; intros Hwf rest; cbn [flat_map forallb] in *.
    + cbn [app]. rewrite tokenize_mark. reflexivity.
    + apply andb_true_iff in Hwf as [H1 H2]. rewrite <- !app_assoc. rewrite Hx by exact H1. rewrite IHl by exact H2. reflexivity.
  - rewrite <- !app_assoc, tokenize_mark. cbn [app]. f_equal. rewrite <- app_assoc.
    revert Hwf rest. induction IH as [|x l Hx _ IHl]; intros Hwf rest; cbn [flat_map forallb] in *.
    + cbn [app]. rewrite tokenize_mark. reflexivity.
    + apply andb_true_iff in Hwf as [H1 H2]. rewrite <- !app_assoc. rewrite Hx by exact H1. rewrite IHl by exact H2. reflexivity.
  - apply andb_true_iff in Hwf as [Ho Hn].
    rewrite <- !app_assoc, tokenize_mark. rewrite tokenize_atoms by exact Ho.
    rewrite tokenize_mark. rewrite tokenize_atoms by exact Hn. rewrite tokenize_mark.
    cbn [app]. f_equal. rewrite <- app_assoc. f_equal. cbn [app]. f_equal. rewrite <- app_assoc. reflexivity.
  - rewrite <- !app_assoc, tokenize_mark. rewrite tokenize_atoms by exact Hwf. rewrite tokenize_mark.
    cbn [app]. f_equal. rewrite <- app_assoc. reflexivity.
Qed.

(* ---- the pair matcher on the items of a script *)
Definition leaves (its : list item) : list tree := map Leaf its.

Fixpoint trees (c : cm) : list tree :=
  match c with
  | CText t => leaves (atoms_items t)
  | CAdd l => [Pair AddO (flat_map trees l) AddC]
  | CDel l => [Pair DelO (flat_map trees l) DelC]
  | CHi l => [Pair HiO (flat_map trees l) HiC]
  | CSub o n => [Pair SubO (leaves (atoms_items o) ++ Leaf (M SubD) :: leaves (atoms_items n)) SubC]
  | CCom t => [Pair ComO (leaves (atoms_items t)) ComC]
  end.

Definition push_trees (ts : list tree) (st : pstate) : pstate := fold_left (fun st t => push_tree t st) ts st.

Lemma push_trees_app a b st : push_trees (a ++ b) st = push_trees b (push_trees a st).
Proof. unfold push_trees. apply fold_left_app. Qed.

Lemma push_trees_frame ts : forall b o body rest,
  push_trees ts (b, (o, body) :: rest) = (b, (o, rev ts ++ body) :: rest).
Proof.
  induction ts as [|t ts IH]; intros b o body rest; [reflexivity|].
  cbn [push_trees fold_left]. unfold push_tree at 2. cbn [snd fst].
  fold (push_trees ts (b, (o, t :: body) :: rest)). rewrite IH. cbn [rev]. rewrite <- app_assoc. reflexivity.
Qed.

Lemma push_trees_bottom ts : forall b, push_trees ts (b, []) = (rev ts ++ b, []).
Proof.
  induction ts as [|t ts IH]; intros b; [reflexivity|].
  cbn [push_trees fold_left]. unfold push_tree at 2. cbn [snd fst].
  fold (push_trees ts (t :: b, [])). rewrite IH. cbn [rev]. rewrite <- app_assoc. reflexivity.
Qed.

Lemma atoms_items_plain t : forall st,
  fold_left pair_step (atoms_items t) st = push_trees (leaves (atoms_items t)) st.
Proof.
  unfold atoms_items. induction t as [|a t IH]; intros st; [reflexivity|].
  cbn [flat_map]. unfold leaves. rewrite map_app, fold_left_app. fold (leaves (atom_items a)).
  rewrite push_trees_app. rewrite IH. f_equal. destruct a; reflexivity.
Qed.

Lemma pair_list (l : list cm) :
  Forall (fun c => forall st, fold_left pair_step (items c) st = push_trees (trees c) st) l ->
  forall st, fold_left pair_step (flat_map items l) st = push_trees (flat_map trees l) st.
Proof.
  induction 1 as [|x l Hx _ IH]; intros st; [reflexivity|].
  cbn [flat_map]. rewrite fold_left_app, push_trees_app, Hx, IH. reflexivity.
Qed.

Lemma pair_wrapped o c body_items body_trees st :
  is_opener o = true -> is_opener c = false -> opener_of c = Some o -> mark_eqb o o = true ->
  (forall st, fold_left pair_step body_items st = push_trees body_trees st) ->
  fold_left pair_step (M o :: body_items ++ [M c]) st = push_trees [Pair o body_trees c] st.
Proof.
  intros Ho Hc Hoc Hoo Hbody. cbn [fold_left]. rewrite fold_left_app. cbn [fold_left].
  assert (E1 : pair_step st (M o) = (fst st, (o, []) :: snd st)) by (unfold pair_step; rewrite Ho; reflexivity).
  rewrite E1, Hbody. destruct st as [b fr]. cbn [fst snd].
  rewrite push_trees_frame, app_nil_r.
  unfold pair_step. rewrite Hc, Hoc. cbn [snd close_search fst]. rewrite Hoo. cbn [app].
  rewrite rev_involutive. reflexivity.
Qed.

Lemma pair_script c : forall st, fold_left pair_step (items c) st = push_trees (trees c) st.
Proof.
  induction c as [t|l IH|l IH|l IH|o n|t] using cm_ind'; intros st; cbn [items trees].
  - apply atoms_items_plain.
  - apply pair_wrapped; try reflexivity. apply pair_list, IH.
  - apply pair_wrapped; try reflexivity. apply pair_list, IH.
  - apply pair_wrapped; try reflexivity. apply pair_list, IH.
  - replace (atoms_items o ++ M SubD :: atoms_items n ++ [M SubC]) with ((atoms_items o ++ M SubD :: atoms_items n) ++ [M SubC])
      by (rewrite <- app_assoc; reflexivity).
    apply (pair_wrapped SubO SubC (atoms_items o ++ M SubD :: atoms_items n)); try reflexivity.
    intros st'. rewrite fold_left_app, push_trees_app, atoms_items_plain. cbn [fold_left].
    change (Leaf (M SubD) :: leaves (atoms_items n)) with ([Leaf (M SubD)] ++ leaves (atoms_items n)).
    rewrite push_trees_app. rewrite atoms_items_plain. reflexivity.
  - apply pair_wrapped; try reflexivity. apply atoms_items_plain.
Qed.

Lemma pair_items_script (s : list cm) : pair_items (flat_map items s) = flat_map trees s.
Proof.
  unfold pair_items. rewrite (pair_list s).
  - rewrite push_trees_bottom. unfold finish. cbn [snd fst rev fold_left app]. rewrite app_nil_r. apply rev_involutive.
  - apply Forall_forall. intros c _. apply pair_script.
Qed.

(* ---- what accept / reject keep *)
Lemma leaves_text its : flat_map accept_tree (leaves its) = flat_map item_text its /\
                        flat_map reject_tree (leaves its) = flat_map item_text its.
Proof.
  induction its as [|i its [IH1 IH2]]; [split; reflexivity|].
  unfold leaves in *. cbn [map flat_map accept_tree reject_tree]. rewrite IH1, IH2. split; reflexivity.
Qed.

Lemma atoms_items_text t : flat_map item_text (atoms_items t) = atoms_text t.
Proof.
  unfold atoms_items, atoms_text. induction t as [|a t IH]; [reflexivity|].
  cbn [flat_map]. rewrite flat_map_app, IH. destruct a; reflexivity.
Qed.

Lemma atoms_text_app a b : atoms_text (a ++ b) = atoms_text a ++ atoms_text b.
Proof. apply flat_map_app. Qed.

Lemma concat_map_flat {A B} (f : A -> list B) l : concat (map f l) = flat_map f l.
Proof. symmetry. apply flat_map_concat_map. Qed.

Lemma no_div_in_atoms t : forallb (fun x => negb (is_div x)) (leaves (atoms_items t)) = true.
Proof.
  unfold atoms_items, leaves. induction t as [|a t IH]; [reflexivity|].
  cbn [flat_map]. rewrite map_app, forallb_app, IH. destruct a; reflexivity.
Qed.

Lemma last_div_from_nodiv l : forall i best, forallb (fun x => negb (is_div x)) l = true -> last_div_from l i best = best.
Proof.
  induction l as [|x l IH]; intros i best H; [reflexivity|]. cbn in H. apply andb_true_iff in H as [H1 H2].
  cbn [last_div_from]. apply negb_true_iff in H1. rewrite H1. apply IH, H2.
Qed.

Lemma last_div_sub a b :
  forallb (fun x => negb (is_div x)) a = true -> forallb (fun x => negb (is_div x)) b = true ->
  last_div (a ++ Leaf (M SubD) :: b) = Some (length a).
Proof.
  intros Ha Hb. unfold last_div.
  assert (G : forall a i best, forallb (fun x => negb (is_div x)) a = true ->
              last_div_from (a ++ Leaf (M SubD) :: b) i best = Some (i + length a)%nat).
  { clear a Ha. induction a as [|x a IH]; intros i best Ha.
    - cbn [app last_div_from is_div]. rewrite last_div_from_nodiv by exact Hb. f_equal. cbn. lia.
    - cbn in Ha. apply andb_true_iff in Ha as [H1 H2]. cbn [app last_div_from]. apply negb_true_iff in H1. rewrite H1.
      rewrite IH by exact H2. f_equal. cbn. lia. }
  rewrite G by exact Ha. reflexivity.
Qed.

Lemma render_list l :
  Forall (fun c => flat_map accept_tree (trees c) = atoms_text (accepted c) /\
                   flat_map reject_tree (trees c) = atoms_text (rejected c)) l ->
  flat_map accept_tree (flat_map trees l) = atoms_text (flat_map accepted l) /\
  flat_map reject_tree (flat_map trees l) = atoms_text (flat_map rejected l).
Proof.
  induction 1 as [|x l [Hx1 Hx2] _ [IH1 IH2]]; [split; reflexivity|].
  cbn [flat_map]. rewrite !flat_map_app, !atoms_text_app, Hx1, Hx2, IH1, IH2. split; reflexivity.
Qed.

Lemma render_script c :
  flat_map accept_tree (trees c) = atoms_text (accepted c) /\
  flat_map reject_tree (trees c) = atoms_text (rejected c).
Proof.
  induction c as [t|l IH|l IH|l IH|o n|t] using cm_ind'; cbn [trees accepted rejected].
  - destruct (leaves_text (atoms_items t)) as [H1 H2]. rewrite H1, H2, atoms_items_text. split; reflexivity.
  - destruct (render_list l IH) as [H1 H2]. cbn [flat_map accept_tree reject_tree].
    rewrite ?app_nil_r, ?concat_map_flat. split; [exact H1|reflexivity].
  - destruct (render_list l IH) as [H1 H2]. cbn [flat_map accept_tree reject_tree].
    rewrite ?app_nil_r, ?concat_map_flat. split; [reflexivity|exact H2].
  - destruct (render_list l IH) as [H1 H2]. cbn [flat_map accept_tree reject_tree].
    rewrite ?app_nil_r, ?concat_map_flat. split; [exact H1|exact H2].
  - cbn [flat_map accept_tree reject_tree]. rewrite !app_nil_r.
    rewrite last_div_sub by apply no_div_in_atoms.
    rewrite !map_app. cbn [map]. split.
    + rewrite <- (map_length accept_tree (leaves (atoms_items o))).
      replace (S (length (map accept_tree (leaves (atoms_items o))))) with (length (map accept_tree (leaves (atoms_items o)) ++ [accept_tree (Leaf (M SubD))])) by (rewrite app_length; cbn; lia).
      change (map accept_tree (leaves (atoms_items o)) ++ accept_tree (Leaf (M SubD)) :: map accept_tree (leaves (atoms_items n)))
        with (map accept_tree (leaves (atoms_items o)) ++ [accept_tree (Leaf (M SubD))] ++ map accept_tree (leaves (atoms_items n))).
      rewrite app_assoc, skipn_app_exact, concat_map_flat.
      destruct (leaves_text (atoms_items n)) as [H1 _]. rewrite H1. apply atoms_items_text.
    + rewrite <- (map_length reject_tree (leaves (atoms_items o))). rewrite firstn_app_exact, concat_map_flat.
      destruct (leaves_text (atoms_items o)) as [_ H2]. rewrite H2. apply atoms_items_text.
  - cbn [flat_map accept_tree reject_tree]. split; reflexivity.
Qed.

(* ---- the theorems *)
Lemma tokenize_scriptL s : forallb wf s = true -> tokenize (annotateL s) = flat_map items s.
Proof.
  unfold annotateL. intros H.
  assert (G : forall rest, tokenize (flat_map annotate s ++ rest) = flat_map items s ++ tokenize rest).
  { induction s as [|c s IH]; intros rest; [reflexivity|]. cbn [forallb] in H. apply andb_true_iff in H as [H1 H2].
    cbn [flat_map]. rewrite <- !app_assoc, tokenize_script by exact H1. rewrite IH by exact H2. reflexivity. }
  specialize (G []). rewrite !app_nil_r in G. exact G.
Qed.

Theorem accept_correct s : forallb wf s = true -> critic_accept (annotateL s) = acceptedL s.
Proof.
  intros H. unfold critic_accept, acceptedL. rewrite tokenize_scriptL by exact H. rewrite pair_items_script.
  induction s as [|c s IH]; [reflexivity|]. cbn [forallb] in H. apply andb_true_iff in H as [_ H2].
  cbn [flat_map]. rewrite flat_map_app, atoms_text_app, IH by exact H2. f_equal. apply render_script.
Qed.

Theorem reject_correct s : forallb wf s = true -> critic_reject (annotateL s) = rejectedL s.
Proof.
  intros H. unfold critic_reject, rejectedL. rewrite tokenize_scriptL by exact H. rewrite pair_items_script.
  induction s as [|c s IH]; [reflexivity|]. cbn [forallb] in H. apply andb_true_iff in H as [_ H2].
  cbn [flat_map]. rewrite flat_map_app, atoms_text_app, IH by exact H2. f_equal. apply render_script.
Qed.

(* ---- idempotence: the edited text contains no marker, so a second pass changes nothing *)
Lemma accepted_ok c : wf c = true -> forallb atom_ok (accepted c) = true /\ forallb atom_ok (rejected c) = true.
Proof.
  induction c as [t|l IH|l IH|l IH|o n|t] using cm_ind'; cbn [wf accepted rejected]; intros H; try (split; [exact H|exact H] || (split; reflexivity)).
  - split; [|reflexivity]. induction IH as [|x l Hx _ IHl]; [reflexivity|]. cbn [forallb flat_map] in *.
    apply andb_true_iff in H as [H1 H2]. rewrite forallb_app. destruct (Hx H1) as [-> _]. rewrite IHl by exact H2. reflexivity.
  - split; [reflexivity|]. induction IH as [|x l Hx _ IHl]; [reflexivity|]. cbn [forallb flat_map] in *.
    apply andb_true_iff in H as [H1 H2]. rewrite forallb_app. destruct (Hx H1) as [_ ->]. rewrite IHl by exact H2. reflexivity.
  - split.
    + induction IH as [|x l Hx _ IHl]; [reflexivity|]. cbn [forallb flat_map] in *.
      apply andb_true_iff in H as [H1 H2]. rewrite forallb_app. destruct (Hx H1) as [-> _]. rewrite IHl by exact H2. reflexivity.
    + induction IH as [|x l Hx _ IHl]; [reflexivity|]. cbn [forallb flat_map] in *.
      apply andb_true_iff in H as [H1 H2]. rewrite forallb_app. destruct (Hx H1) as [_ ->]. rewrite IHl by exact H2. reflexivity.
  - apply andb_true_iff in H as [Ho Hn]. split; assumption.
Qed.

Lemma acceptedL_ok s : forallb wf s = true ->
  forallb atom_ok (flat_map accepted s) = true /\ forallb atom_ok (flat_map rejected s) = true.
Proof.
  induction s as [|c s IH]; intros H; [split; reflexivity|]. cbn [forallb flat_map] in *.
  apply andb_true_iff in H as [H1 H2]. rewrite !forallb_app. destruct (accepted_ok c H1) as [-> ->].
  destruct (IH H2) as [-> ->]. split; reflexivity.
Qed.

Lemma plain_text_fixed t : forallb atom_ok t = true ->
  critic_accept (atoms_text t) = atoms_text t /\ critic_reject (atoms_text t) = atoms_text t.
Proof.
  intros H.
  assert (Hw : forallb wf [CText t] = true) by (cbn; rewrite H; reflexivity).
  pose proof (accept_correct [CText t] Hw) as A. pose proof (reject_correct [CText t] Hw) as R.
  unfold annotateL, acceptedL, rejectedL in *. cbn [flat_map annotate accepted rejected] in *.
  rewrite !app_nil_r in *. split; assumption.
Qed.

Theorem accept_idempotent s : forallb wf s = true ->
  critic_accept (critic_accept (annotateL s)) = critic_accept (annotateL s) /\
  critic_reject (critic_accept (annotateL s)) = critic_accept (annotateL s).
Proof.
  intros H. rewrite accept_correct by exact H. unfold acceptedL.
  apply plain_text_fixed. apply (acceptedL_ok s H).
Qed.

Theorem reject_idempotent s : forallb wf s = true ->
  critic_reject (critic_reject (annotateL s)) = critic_reject (annotateL s) /\
  critic_accept (critic_reject (annotateL s)) = critic_reject (annotateL s).
Proof.
  intros H. rewrite reject_correct by exact H. unfold rejectedL.
  destruct (plain_text_fixed _ (proj2 (acceptedL_ok s H))) as [A R]. split; assumption.
Qed.

(* ---- nothing is lost or invented by tokenizer and matcher; unmatched markers are untouched *)
Lemma match_at_sound l its n : match_at l = Some (its, n) ->
  flat_map item_text its = firstn n l /\ (1 <= n)%nat /\ (n <= length l)%nat.
Proof.
  unfold match_at. destruct (find (fun m => prefixb (mark_text m) l) marks3) as [m|] eqn:F.
  - intros [= <- <-]. apply find_some in F as [Hin F]. apply prefixb_spec in F as [t ->].
    cbn [flat_map item_text]. rewrite app_nil_r.
    assert (Hl : length (mark_text m) = 3%nat).
    { destruct m; try reflexivity. cbn in Hin. repeat (destruct Hin as [Hin|Hin]; try discriminate). destruct Hin. }
    split; [|split; [lia|rewrite app_length; lia]].
    rewrite <- Hl. rewrite firstn_app_exact. reflexivity.
  - destruct (prefixb (mark_text SubD) l) eqn:Pd.
    + intros [= <- <-]. apply prefixb_spec in Pd as [t ->]. cbn [flat_map item_text]. rewrite app_nil_r.
      split; [reflexivity|]. split; [lia|cbn; lia].
    + destruct l as [|b0 [|c r]]; try discriminate.
      destruct ((b0 =? 92) && escapable c) eqn:E; [|discriminate].
      intros [= <- <-]. apply andb_true_iff in E as [E _]. apply N.eqb_eq in E. subst b0.
      split; [reflexivity|]. split; [lia|cbn; lia].
Qed.

Lemma tokenize_partition : forall n l, (length l <= n)%nat -> flat_map item_text (tokenize l) = l.
Proof.
  induction n as [|n IH]; intros l Hl.
  - destruct l; [reflexivity|simpl in Hl; lia].
  - destruct l as [|b r]; [reflexivity|]. unfold tokenize. cbn [tokenize_from].
    destruct (match_at (b :: r)) as [[its k]|] eqn:E.
    + destruct (match_at_sound _ _ _ E) as (H1 & H2 & H3).
      rewrite flat_map_app, H1, tokenize_from_skip.
      destruct k as [|k]; [lia|]. cbn [Nat.sub firstn skipn]. rewrite Nat.sub_0_r.
      rewrite IH by (rewrite skipn_length; simpl in Hl; lia).
      cbn [firstn]. rewrite <- app_comm_cons. f_equal. apply firstn_skipn.
    + cbn [flat_map item_text app]. f_equal. fold (tokenize r). apply IH. simpl in Hl. lia.
Qed.

Definition raw_frames (frames : list frame) : list N :=
  flat_map (fun f => mark_text (fst f) ++ flat_map raw_tree (rev (snd f))) (rev frames).
Definition raw_state (st : pstate) : list N := flat_map raw_tree (rev (fst st)) ++ raw_frames (snd st).

Lemma raw_frames_cons f rest : raw_frames (f :: rest) = raw_frames rest ++ mark_text (fst f) ++ flat_map raw_tree (rev (snd f)).
Proof. unfold raw_frames. cbn [rev]. rewrite flat_map_app. cbn [flat_map]. rewrite app_nil_r. reflexivity. Qed.

Lemma raw_push t st : raw_state (push_tree t st) = raw_state st ++ raw_tree t.
Proof.
  destruct st as [b [|[o body] rest]]; unfold push_tree, raw_state; cbn [fst snd].
  - cbn [rev]. rewrite flat_map_app. cbn [flat_map raw_frames rev]. rewrite !app_nil_r. reflexivity.
  - rewrite !raw_frames_cons. cbn [fst snd rev]. rewrite flat_map_app. cbn [flat_map]. rewrite app_nil_r, <- !app_assoc. reflexivity.
Qed.

Lemma close_search_raw o : forall frames acc body rest,
  close_search o frames acc = Some (body, rest) ->
  raw_frames frames ++ flat_map raw_tree (rev acc) = raw_frames rest ++ mark_text o ++ flat_map raw_tree (rev body).
Proof.
  induction frames as [|[o' b'] fr IH]; intros acc body rest H; [discriminate|]. cbn [close_search fst snd] in H.
  destruct (mark_eqb o' o) eqn:E.
  - injection H as <- <-. rewrite raw_frames_cons. cbn [fst snd]. rewrite rev_app_distr, flat_map_app, <- !app_assoc.
    assert (o' = o) by (destruct o', o; try discriminate; reflexivity). subst. reflexivity.
  - apply IH in H. rewrite raw_frames_cons. cbn [fst snd]. rewrite <- H.
    unfold flatten_frame. cbn [fst snd]. rewrite !rev_app_distr, !flat_map_app. cbn [rev app flat_map raw_tree item_text].
    rewrite app_nil_r, <- !app_assoc. reflexivity.
Qed.

Lemma raw_step st it : raw_state (pair_step st it) = raw_state st ++ item_text it.
Proof.
  destruct it as [m|b]; unfold pair_step.
  2:{ rewrite raw_push. reflexivity. }
  destruct (is_opener m) eqn:Ho.
  - unfold raw_state. cbn [fst snd]. rewrite raw_frames_cons. cbn [fst snd rev flat_map]. rewrite app_nil_r, app_assoc. reflexivity.
  - destruct (opener_of m) as [o|] eqn:Hoc; [|rewrite raw_push; reflexivity].
    destruct (close_search o (snd st) []) as [[body rest]|] eqn:Hs; [|rewrite raw_push; reflexivity].
    rewrite raw_push. unfold raw_state at 1. cbn [fst snd raw_tree].
    apply close_search_raw in Hs. cbn [rev flat_map] in Hs. rewrite app_nil_r in Hs.
    unfold raw_state. rewrite Hs. cbn [item_text]. rewrite <- !app_assoc. reflexivity.
Qed.

Lemma fold_flatten fr : forall acc,
  fold_left (fun acc f => flatten_frame f ++ acc) (rev fr) acc = flat_map flatten_frame fr ++ acc.
Proof.
  induction fr as [|f fr IH]; intros acc; [reflexivity|].
  cbn [rev flat_map]. rewrite fold_left_app. cbn [fold_left]. rewrite IH, <- app_assoc. reflexivity.
Qed.

Lemma raw_flatten fr : flat_map raw_tree (rev (flat_map flatten_frame fr)) = raw_frames fr.
Proof.
  induction fr as [|f fr IH]; [reflexivity|].
  cbn [flat_map]. rewrite rev_app_distr, flat_map_app, IH, raw_frames_cons.
  unfold flatten_frame. rewrite rev_app_distr. cbn [rev app flat_map raw_tree item_text]. reflexivity.
Qed.

Lemma raw_finish st : flat_map raw_tree (finish st) = raw_state st.
Proof.
  destruct st as [b frames]. unfold finish, raw_state. cbn [fst snd].
  rewrite fold_flatten, app_nil_r, rev_app_distr, flat_map_app, raw_flatten. reflexivity.
Qed.

Lemma raw_fold its : forall st, raw_state (fold_left pair_step its st) = raw_state st ++ flat_map item_text its.
Proof.
  induction its as [|i its IH]; intros st; cbn [fold_left flat_map]; [rewrite app_nil_r; reflexivity|].
  rewrite IH, raw_step, <- app_assoc. reflexivity.
Qed.

Theorem matcher_keeps_text its : flat_map raw_tree (pair_items its) = flat_map item_text its.
Proof. unfold pair_items. rewrite raw_finish, raw_fold. reflexivity. Qed.

Definition is_leaf (t : tree) : bool := match t with Leaf _ => true | Pair _ _ _ => false end.

Theorem unmatched_untouched s :
  forallb is_leaf (pair_items (tokenize s)) = true -> critic_accept s = s /\ critic_reject s = s.
Proof.
  intros H. unfold critic_accept, critic_reject.
  pose proof (matcher_keeps_text (tokenize s)) as K. rewrite (tokenize_partition (length s) s (le_n _)) in K.
  assert (G : forall ts, forallb is_leaf ts = true ->
              flat_map accept_tree ts = flat_map raw_tree ts /\ flat_map reject_tree ts = flat_map raw_tree ts).
  { induction ts as [|t ts IH]; intros Hl; [split; reflexivity|]. cbn [forallb] in Hl. apply andb_true_iff in Hl as [H1 H2].
    destruct t; [|discriminate]. destruct (IH H2) as [A R]. cbn [flat_map accept_tree reject_tree raw_tree]. rewrite A, R. split; reflexivity. }
  destruct (G _ H) as [A R]. rewrite A, R, K. split; reflexivity.
Qed.
