(* Proofs about the lemon driver model: soundness of the membership test used by the reflection,
   and the lift from the finite closure check to all token sequences. *)
From Coq Require Import Lia FMapPositive.
From MMD.lib Require Import Bytes Lemon FiniteInv.
Local Open Scope Z_scope.

Lemma stack_eqb_eq a b : stack_eqb a b = true -> a = b.
Proof.
  unfold stack_eqb. intros H. apply andb_true_iff in H as [Hl Hf]. apply Nat.eqb_eq in Hl.
  revert b Hl Hf. induction a as [|x a IH]; intros [|y b] Hl Hf; try discriminate; [reflexivity|].
  cbn in Hf. apply andb_true_iff in Hf as [H1 H2]. apply Z.eqb_eq in H1. subst y.
  f_equal. apply IH; [simpl in Hl; lia|exact H2].
Qed.

Definition seen_of_list (l : list pstack) : seen :=
  fold_left (fun m s => PositiveMap.add (skey s) s m) l (PositiveMap.empty _).

Lemma seen_of_list_in l : forall m k t,
  PositiveMap.find k (fold_left (fun m s => PositiveMap.add (skey s) s m) l m) = Some t ->
  In t l \/ PositiveMap.find k m = Some t.
Proof.
  induction l as [|s l IH]; intros m k t H; cbn [fold_left] in H.
  - right; exact H.
  - apply IH in H as [H|H]; [left; right; exact H|].
    rewrite PositiveMapAdditionalFacts.gsspec in H.
    destruct (PositiveMap.E.eq_dec k (skey s)) as [E|E].
    + injection H as <-. left; left; reflexivity.
    + right; exact H.
Qed.

Lemma seen_mem_sound l s : seen_mem (seen_of_list l) s = true -> In s l.
Proof.
  unfold seen_mem. destruct (PositiveMap.find (skey s) (seen_of_list l)) as [t|] eqn:E; [|discriminate].
  intros H. apply stack_eqb_eq in H. subst t.
  apply seen_of_list_in in E as [E|E]; [exact E|]. rewrite PositiveMap.gempty in E. discriminate.
Qed.

Section Lift.
Variable T : tables.
Variable R : list pstack.
Variable kinds : list Z.

Definition parser_closed : bool :=
  closed pstack Z (next_stack T) (good_token_step T) R kinds (seen_mem (seen_of_list R)).

Definition ends_accepted : bool :=
  forallb (fun s => stack_eqb s base || good_end_step T s) R.

(* every token of every sequence over the assignable line kinds is consumed by exactly one shift,
   without syntax error, parse failure, stack overflow, table overrun or exhausted fuel; and the
   stack stays inside R (hence below YYSTACKDEPTH) *)
Theorem all_sequences_good :
  parser_closed = true -> In base R ->
  forall w, Forall (fun a => In a kinds) w ->
  In (fold_left (next_stack T) w base) R /\
  all_good pstack Z (next_stack T) (good_token_step T) base w = true.
Proof.
  intros Hc Hb w Hw.
  apply (finite_inv pstack Z (next_stack T) (good_token_step T) R kinds
           (seen_mem (seen_of_list R)) (seen_mem_sound R) Hc w base Hb Hw).
Qed.

(* a good token step leaves a non-base stack (one entry was pushed on top of a non-empty stack) *)
Lemma good_end_from_R : ends_accepted = true -> forall s, In s R -> s <> base -> good_end_step T s = true.
Proof.
  intros He s Hs Hn. unfold ends_accepted in He. rewrite forallb_forall in He.
  specialize (He s Hs). apply orb_true_iff in He as [He|He]; [apply stack_eqb_eq in He; contradiction|exact He].
Qed.
End Lift.

(* ---- from the per-step checks to statements about the event trace of a whole document *)
Section Trace.
Variable T : tables.

Lemma good_run w : forall s,
  all_good pstack Z (next_stack T) (good_token_step T) s w = true ->
  exists ev, parse_tokens T s w = Ok (fold_left (next_stack T) w s, ev) /\
             length (filter is_shift ev) = length w /\
             existsb is_bad ev = false /\ existsb is_accept ev = false /\
             (w <> [] -> fold_left (next_stack T) w s <> base).
Proof.
  induction w as [|a w IH]; intros s H; cbn [all_good fold_left] in *.
  - exists []. repeat split; try reflexivity. intros C; contradiction.
  - apply andb_true_iff in H as [Hg Hrest].
    unfold good_token_step in Hg.
    unfold parse_tokens. cbn [run_tokens]. fold (parse_tokens T).
    destruct (parse_token T s a) as [[s' e1]|] eqn:E; [|discriminate]. cbn [bind fst snd].
    assert (Hn : next_stack T s a = s') by (unfold next_stack; rewrite E; reflexivity).
    rewrite Hn in *.
    repeat (apply andb_true_iff in Hg as [Hg ?]).
    destruct (IH s' Hrest) as (e2 & Hp & Hl & Hb & Ha & Hne).
    change (run_tokens (parse_token T) s' w) with (parse_tokens T s' w). rewrite Hp. cbn [bind fst snd].
    exists (e1 ++ e2). split; [reflexivity|].
    rewrite filter_app, app_length, !existsb_app, Hl, Hb, Ha.
    apply Nat.eqb_eq in Hg. rewrite Hg.
    split; [reflexivity|]. split; [rewrite orb_false_r; apply negb_true_iff; assumption|].
    split; [rewrite orb_false_r; apply negb_true_iff; assumption|].
    intros _. destruct w as [|b w]; [|apply Hne; discriminate].
    cbn [fold_left]. intros C. rewrite C in *.
    match goal with Hx : negb (stack_eqb base base) = true |- _ => cbn in Hx; discriminate end.
Qed.

Lemma good_end s : good_end_step T s = true ->
  exists ev, parse_token T s 0 = Ok (base, ev) /\ existsb is_bad ev = false /\ existsb is_accept ev = true /\
             filter is_shift ev = [].
Proof.
  unfold good_end_step. destruct (parse_token T s 0) as [[s' ev]|]; [|discriminate].
  intros H. apply andb_true_iff in H as [H H3]. apply andb_true_iff in H as [H H4].
  apply andb_true_iff in H as [H1 H2]. apply Nat.eqb_eq in H4.
  exists ev. destruct s' as [|z r]; [discriminate|]. destruct z; try discriminate.
  destruct r; [|discriminate].
  split; [reflexivity|]. split; [apply negb_true_iff, H1|]. split; [exact H2|].
  destruct (filter is_shift ev); [reflexivity|discriminate].
Qed.

Lemma parse_tokens_app a b : forall s,
  parse_tokens T s (a ++ b) =
  (do x <- parse_tokens T s a; do y <- parse_tokens T (fst x) b; Ok (fst y, snd x ++ snd y)).
Proof.
  unfold parse_tokens. induction a as [|t a IH]; intros s; cbn [app run_tokens].
  - cbn [bind fst snd app]. destruct (run_tokens (parse_token T) s b) as [[? ?]|]; reflexivity.
  - destruct (parse_token T s t) as [[s1 e1]|]; cbn [bind fst snd]; [|reflexivity].
    rewrite IH. destruct (run_tokens (parse_token T) s1 a) as [[s2 e2]|]; cbn [bind fst snd]; [|reflexivity].
    destruct (run_tokens (parse_token T) s2 b) as [[s3 e3]|]; cbn [bind fst snd]; [|reflexivity].
    rewrite app_assoc. reflexivity.
Qed.
End Trace.

(* ---- the document-level statement, from the three computed checks *)
Theorem never_errors_from_checks T R kinds :
  parser_closed T R kinds = true -> seen_mem (seen_of_list R) base = true -> ends_accepted T R = true ->
  forall w, w <> [] -> Forall (fun a => In a kinds) w ->
  exists ev, parse_document T w = Ok (base, ev) /\
             existsb is_bad ev = false /\
             length (filter is_shift ev) = length w /\
             existsb is_accept ev = true.
Proof.
  intros Hc Hb He w Hne Hw.
  apply seen_mem_sound in Hb.
  destruct (all_sequences_good T R kinds Hc Hb w Hw) as [Hin Hgood].
  destruct (good_run T w base Hgood) as (e1 & Hp & Hl & Hbad & Hacc & Hnb).
  specialize (Hnb Hne).
  pose proof (good_end_from_R T R He _ Hin Hnb) as Hend.
  destruct (good_end T _ Hend) as (e2 & Hp2 & Hbad2 & Hacc2 & Hs).
  unfold parse_document. rewrite parse_tokens_app, Hp. cbn [bind fst snd].
  unfold parse_tokens at 1. cbn [run_tokens]. rewrite Hp2. cbn [bind fst snd].
  exists (e1 ++ e2 ++ []). rewrite app_nil_r. split; [reflexivity|].
  rewrite !existsb_app, filter_app, app_length, Hbad, Hbad2, Hacc, Hacc2, Hl, Hs.
  split; [reflexivity|]. split; [cbn; lia|reflexivity].
Qed.

(* stack height along every run *)
Theorem height_bounded T R kinds h :
  parser_closed T R kinds = true -> seen_mem (seen_of_list R) base = true ->
  forallb (fun s => (length s <=? h)%nat) R = true ->
  forall w, Forall (fun a => In a kinds) w -> (length (fold_left (next_stack T) w base) <= h)%nat.
Proof.
  intros Hc Hb Hh w Hw. apply seen_mem_sound in Hb.
  destruct (all_sequences_good T R kinds Hc Hb w Hw) as [Hin _].
  rewrite forallb_forall in Hh. apply Nat.leb_le, Hh, Hin.
Qed.
