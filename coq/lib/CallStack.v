(* Bound on the weight (sum of frame sizes) of every call path in a call graph in which every cycle
   passes through a function that refuses to recurse beyond a depth limit ("guarded").
   Data (regenerated): per node its frame weight, SCC number, guardedness and a potential [h];
   per SCC: Hmax (largest potential), Wg (largest guarded frame), M (how many guarded frames of
   this SCC a stack can hold), B (bound for any path starting in this SCC).
   All side conditions are boolean checks over the edge and node lists. *)
From Coq Require Import List Arith NArith Bool Lia.
Import ListNotations.
Local Open Scope N_scope.

Section CS.
Variable nnodes : nat.
Variables (w h : nat -> N) (scc : nat -> nat) (guarded : nat -> bool).
Variables (Hmax Wg M B : nat -> N).      (* indexed by SCC number *)
Variable edges : list (nat * nat).

Definition unit (c : nat) : N := Wg c + Hmax c.
Definition bound (c : nat) : N := Hmax c + M c * unit c.

Definition node_ok (v : nat) : bool :=
  (if guarded v then w v <=? Wg (scc v) else (w v <=? h v) && (h v <=? Hmax (scc v))) &&
  (bound (scc v) <=? B (scc v)).

Definition edge_ok (e : nat * nat) : bool :=
  let '(u, v) := e in
  if Nat.eqb (scc u) (scc v) then
    (if guarded u || guarded v then true else w u + h v <=? h u)
  else (Nat.ltb (scc v) (scc u)) && (bound (scc u) + B (scc v) <=? B (scc u)).

Definition graph_ok : bool := forallb node_ok (seq 0 nnodes) && forallb edge_ok edges.

(* call paths *)
Fixpoint valid (p : list nat) : Prop :=
  match p with
  | [] => True
  | u :: r => (u < nnodes)%nat /\ match r with [] => True | v :: _ => In (u, v) edges end /\ valid r
  end.

Definition weight (p : list nat) : N := fold_right (fun v acc => w v + acc) 0 p.

(* guarded frames of SCC c on the path *)
Fixpoint cnt (c : nat) (p : list nat) : N :=
  match p with
  | [] => 0
  | v :: r => (if guarded v && Nat.eqb (scc v) c then 1 else 0) + cnt c r
  end.

Definition within_budget (p : list nat) : Prop := forall c, cnt c p <= M c.

Definition localpot (v : nat) (n : N) : N := (if guarded v then 0 else h v) + n * unit (scc v).
Definition R (c : nat) : N := B c - bound c.

Hypothesis Hok : graph_ok = true.

Lemma node_facts v : (v < nnodes)%nat -> node_ok v = true.
Proof.
  intros Hv. unfold graph_ok in Hok. apply andb_true_iff in Hok as [Hn _].
  rewrite forallb_forall in Hn. apply Hn. apply in_seq. lia.
Qed.

Lemma edge_facts u v : In (u, v) edges -> edge_ok (u, v) = true.
Proof.
  intros Hin. unfold graph_ok in Hok. apply andb_true_iff in Hok as [_ He].
  rewrite forallb_forall in He. apply (He _ Hin).
Qed.

Lemma cnt_tail_le c v r : cnt c r <= cnt c (v :: r).
Proof. cbn [cnt]. lia. Qed.

Lemma budget_tail v r : within_budget (v :: r) -> within_budget r.
Proof. intros H c. specialize (H c). pose proof (cnt_tail_le c v r). lia. Qed.

Lemma localpot_le_bound v n : (v < nnodes)%nat -> n <= M (scc v) -> localpot v n <= bound (scc v).
Proof.
  intros Hv Hn. pose proof (node_facts v Hv) as Hk. unfold node_ok in Hk. apply andb_true_iff in Hk as [Hk _].
  unfold localpot, bound. assert (n * unit (scc v) <= M (scc v) * unit (scc v)) by (apply N.mul_le_mono_r; exact Hn).
  destruct (guarded v).
  - lia.
  - apply andb_true_iff in Hk as [_ Hh]. apply N.leb_le in Hh. lia.
Qed.

Lemma self_le_localpot v r : (v < nnodes)%nat -> w v <= localpot v (cnt (scc v) (v :: r)).
Proof.
  intros Hv. pose proof (node_facts v Hv) as Hk. unfold node_ok in Hk. apply andb_true_iff in Hk as [Hk _].
  unfold localpot. cbn [cnt]. rewrite Nat.eqb_refl. destruct (guarded v); cbn [andb].
  - apply N.leb_le in Hk. unfold unit. nia.
  - apply andb_true_iff in Hk as [Hw _]. apply N.leb_le in Hw. lia.
Qed.

Theorem path_bounded_aux p : forall v, valid (v :: p) -> within_budget (v :: p) ->
  weight (v :: p) <= localpot v (cnt (scc v) (v :: p)) + R (scc v).
Proof.
  induction p as [|u r IH]; intros v Hval Hb.
  - destruct Hval as (Hv & _ & _). cbn [weight fold_right]. pose proof (self_le_localpot v [] Hv). lia.
  - destruct Hval as (Hv & He & Hval'). pose proof Hval' as (Hu & _ & _).
    specialize (IH u Hval' (budget_tail _ _ Hb)).
    pose proof (edge_facts _ _ He) as Hk. unfold edge_ok in Hk.
    pose proof (node_facts v Hv) as Hnv. unfold node_ok in Hnv. apply andb_true_iff in Hnv as [Hnv HBv].
    pose proof (node_facts u Hu) as Hnu. unfold node_ok in Hnu. apply andb_true_iff in Hnu as [Hnu HBu].
    apply N.leb_le in HBv, HBu.
    change (weight (v :: u :: r)) with (w v + weight (u :: r)).
    destruct (Nat.eqb_spec (scc v) (scc u)) as [Es|Es].
    + (* same SCC *)
      set (c := scc v) in *. rewrite <- Es in IH. fold c in IH.
      assert (Hc : cnt c (v :: u :: r) = (if guarded v then 1 else 0) + cnt c (u :: r)).
      { cbn [cnt]. unfold c at 2. rewrite Nat.eqb_refl. destruct (guarded v); reflexivity. }
      rewrite Hc. unfold localpot in *. fold c in IH |- *. rewrite <- ?Es in *.
      destruct (guarded v) eqn:Gv; destruct (guarded u) eqn:Gu; cbn [orb] in Hk.
      * apply N.leb_le in Hnv. unfold unit in *. nia.
      * apply N.leb_le in Hnv. apply andb_true_iff in Hnu as [_ Hhu]. apply N.leb_le in Hhu.
        unfold unit in *. nia.
      * apply andb_true_iff in Hnv as [Hwv _]. apply N.leb_le in Hwv. lia.
      * apply N.leb_le in Hk. lia.
    + (* leaving the SCC downwards *)
      apply andb_true_iff in Hk as [Hlt Hbb]. apply N.leb_le in Hbb.
      assert (Hlp : localpot u (cnt (scc u) (u :: r)) <= bound (scc u)).
      { apply localpot_le_bound; [exact Hu|]. apply (budget_tail _ _ Hb). }
      pose proof (self_le_localpot v (u :: r) Hv) as Hself.
      unfold R in *. lia.
Qed.

Theorem path_bounded p : p <> [] -> valid p -> within_budget p ->
  exists v, hd_error p = Some v /\ weight p <= B (scc v).
Proof.
  destruct p as [|v p]; [congruence|]. intros _ Hval Hb. exists v. split; [reflexivity|].
  pose proof (path_bounded_aux p v Hval Hb) as H.
  destruct Hval as (Hv & _ & _).
  pose proof (localpot_le_bound v (cnt (scc v) (v :: p)) Hv (Hb (scc v))) as Hl.
  pose proof (node_facts v Hv) as Hk. unfold node_ok in Hk. apply andb_true_iff in Hk as [_ HB]. apply N.leb_le in HB.
  unfold R in H. lia.
Qed.
End CS.
