(* Two generic facts about running a DFA over the output of a byte-wise encoder. *)
From MMD.lib Require Import Bytes.

Section Dfa.
Variables (Q : Type) (step : Q -> N -> Q).
Definition run (l : list N) (q : Q) : Q := fold_left step l q.

Lemma run_app a b q : run (a ++ b) q = run b (run a q).
Proof. apply fold_left_app. Qed.

Variable enc : N -> list N.
Variable alphabet : list N.

(* every codeword takes q0 back to q0  ==>  every encoded string does *)
Theorem closed_under_codewords q0 :
  (forall c, In c alphabet -> run (enc c) q0 = q0) ->
  forall s, Forall (fun c => In c alphabet) s -> run (flat_map enc s) q0 = q0.
Proof.
  intros H. induction s as [|c s IH]; intros Hs; [reflexivity|].
  inversion Hs; subst. cbn [flat_map]. rewrite run_app, H by assumption. apply IH. assumption.
Qed.

(* simulation: if from every state the codeword of c does what c itself does (unless c leads to
   the sink [bad]), then encoding preserves acceptance of every string the automaton accepts *)
Variable bad : Q.
Hypothesis bad_sink : forall c, step bad c = bad.

Lemma run_bad l : run l bad = bad.
Proof. induction l as [|c l IH]; [reflexivity|]. cbn. rewrite bad_sink. exact IH. Qed.

Theorem simulation :
  (forall q c, In c alphabet -> step q c <> bad -> run (enc c) q = step q c) ->
  forall s, Forall (fun c => In c alphabet) s ->
  forall q, run s q <> bad -> run (flat_map enc s) q = run s q.
Proof.
  intros H. induction s as [|c s IH]; intros Hs q Hq; [reflexivity|].
  inversion Hs; subst. cbn [flat_map]. rewrite run_app.
  assert (Hc : step q c <> bad).
  { intros E. apply Hq. cbn. unfold run in *. cbn [fold_left]. rewrite E. apply run_bad. }
  rewrite H by assumption. change (run (c :: s) q) with (run s (step q c)).
  apply IH; [assumption|]. exact Hq.
Qed.
End Dfa.
