(* Reflection lemma: a finite set R containing the start state and closed under every letter of
   the alphabet contains the state after EVERY word; a per-step predicate checked on R x alphabet
   holds at every step of every run.  The closure test is a boolean computed by vm_compute over
   regenerated data; the quantifier over words is a real induction. *)
From Coq Require Import List Bool.
Import ListNotations.

Section FI.
Variables (S A : Type) (next : S -> A -> S) (good : S -> A -> bool).
Variables (R : list S) (alphabet : list A) (memR : S -> bool).
Hypothesis memR_sound : forall s, memR s = true -> In s R.

Definition closed : bool :=
  forallb (fun s => forallb (fun a => memR (next s a) && good s a) alphabet) R.

Fixpoint all_good (s : S) (w : list A) : bool :=
  match w with [] => true | a :: r => good s a && all_good (next s a) r end.

Lemma closed_step : closed = true -> forall s a, In s R -> In a alphabet ->
  In (next s a) R /\ good s a = true.
Proof.
  intros Hc s a Hs Ha. unfold closed in Hc. rewrite forallb_forall in Hc.
  specialize (Hc s Hs). rewrite forallb_forall in Hc. specialize (Hc a Ha).
  apply andb_true_iff in Hc as [H1 H2]. split; [apply memR_sound, H1|exact H2].
Qed.

Theorem finite_inv : closed = true -> forall w s, In s R -> Forall (fun a => In a alphabet) w ->
  In (fold_left next w s) R /\ all_good s w = true.
Proof.
  intros Hc. induction w as [|a w IH]; intros s Hs Hw; cbn [fold_left all_good].
  - split; [exact Hs|reflexivity].
  - inversion Hw as [|? ? Ha Hw']; subst.
    destruct (closed_step Hc s a Hs Ha) as [Hn Hg].
    destruct (IH (next s a) Hn Hw') as [H1 H2]. split; [exact H1|]. rewrite Hg, H2. reflexivity.
Qed.
End FI.
