(* XML character-data / attribute-value safety as DFAs over bytes.
   [xstep false]: character data: no raw '<' except a complete empty-element tag <name/>, every
   '&' starts one of the predefined entity references or a numeric character reference.
   [xstep true]: the same inside a double-quoted attribute value: additionally no raw double quote and no tags. *)
From MMD.lib Require Import Bytes Dfa.
Local Open Scope N_scope.

Inductive xstate :=
| XT                      (* text *)
| XAmp                    (* after & *)
| XName (k : N)           (* inside a named entity: k = position in the entity trie *)
| XHash | XDec | XHex0 | XHex
| XTag0 | XTag | XTagSlash
| XBad.

(* named entities: amp lt gt quot apos, as a hand-written trie over letters
   1:a 2:am 3:amp 4:ap 5:apo 6:apos 7:l 8:lt 9:g 10:gt 11:q 12:qu 13:quo 14:quot *)
Definition name_step (k b : N) : xstate :=
  let ch := b in
  match k with
  | 1 => if ch =? 109 then XName 2 else if ch =? 112 then XName 4 else XBad
  | 2 => if ch =? 112 then XName 3 else XBad
  | 3 => if ch =? 59 then XT else XBad
  | 4 => if ch =? 111 then XName 5 else XBad
  | 5 => if ch =? 115 then XName 6 else XBad
  | 6 => if ch =? 59 then XT else XBad
  | 7 => if ch =? 116 then XName 8 else XBad
  | 8 => if ch =? 59 then XT else XBad
  | 9 => if ch =? 116 then XName 10 else XBad
  | 10 => if ch =? 59 then XT else XBad
  | 11 => if ch =? 117 then XName 12 else XBad
  | 12 => if ch =? 111 then XName 13 else XBad
  | 13 => if ch =? 116 then XName 14 else XBad
  | 14 => if ch =? 59 then XT else XBad
  | _ => XBad
  end.

Definition is_digit (b : N) := (48 <=? b) && (b <=? 57).
Definition is_hex (b : N) := is_digit b || ((97 <=? b) && (b <=? 102)) || ((65 <=? b) && (b <=? 70)).
Definition is_namestart (b : N) := ((97 <=? b) && (b <=? 122)) || ((65 <=? b) && (b <=? 90)) || (b =? 95).
Definition is_namechar (b : N) := is_namestart b || is_digit b || (b =? 58) || (b =? 45) || (b =? 46).

Definition xstep (attr : bool) (q : xstate) (b : N) : xstate :=
  match q with
  | XT => if b =? 38 then XAmp
          else if b =? 60 then (if attr then XBad else XTag0)
          else if (b =? 34) && attr then XBad
          else XT
  | XAmp => if b =? 97 then XName 1 else if b =? 108 then XName 7 else if b =? 103 then XName 9
            else if b =? 113 then XName 11 else if b =? 35 then XHash else XBad
  | XName k => name_step k b
  | XHash => if is_digit b then XDec else if b =? 120 then XHex0 else XBad
  | XDec => if is_digit b then XDec else if b =? 59 then XT else XBad
  | XHex0 => if is_hex b then XHex else XBad
  | XHex => if is_hex b then XHex else if b =? 59 then XT else XBad
  | XTag0 => if is_namestart b then XTag else XBad
  | XTag => if is_namechar b then XTag else if b =? 47 then XTagSlash else XBad
  | XTagSlash => if b =? 62 then XT else XBad
  | XBad => XBad
  end.

Definition xstate_is_text (q : xstate) : bool := match q with XT => true | _ => false end.
Definition xml_safe (attr : bool) (l : list N) : bool := xstate_is_text (run xstate (xstep attr) l XT).
