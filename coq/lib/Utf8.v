(* UTF-8 validity (RFC 3629: no overlong forms, no surrogates, at most U+10FFFF) as a DFA. *)
From MMD.lib Require Import Bytes Dfa.
Local Open Scope N_scope.

Inductive ustate := U0 | UC1 | UC2 | UC3 | UE0 | UED | UF0 | UF4 | UBad.

Definition ustate_eqb (a b : ustate) : bool :=
  match a, b with
  | U0, U0 | UC1, UC1 | UC2, UC2 | UC3, UC3 | UE0, UE0 | UED, UED | UF0, UF0 | UF4, UF4 | UBad, UBad => true
  | _, _ => false
  end.

Definition all_ustates : list ustate := [U0; UC1; UC2; UC3; UE0; UED; UF0; UF4; UBad].

Definition inr (lo hi b : N) : bool := (lo <=? b) && (b <=? hi).

Definition ustep (q : ustate) (b : N) : ustate :=
  match q with
  | U0 => if b <? 128 then U0
          else if inr 194 223 b then UC1
          else if b =? 224 then UE0
          else if inr 225 236 b || inr 238 239 b then UC2
          else if b =? 237 then UED
          else if b =? 240 then UF0
          else if inr 241 243 b then UC3
          else if b =? 244 then UF4
          else UBad
  | UC1 => if inr 128 191 b then U0 else UBad
  | UC2 => if inr 128 191 b then UC1 else UBad
  | UC3 => if inr 128 191 b then UC2 else UBad
  | UE0 => if inr 160 191 b then UC1 else UBad
  | UED => if inr 128 159 b then UC1 else UBad
  | UF0 => if inr 144 191 b then UC2 else UBad
  | UF4 => if inr 128 143 b then UC2 else UBad
  | UBad => UBad
  end.

Definition valid_utf8 (l : list N) : bool := ustate_eqb (run ustate ustep l U0) U0.

Lemma ustate_eqb_eq a b : ustate_eqb a b = true <-> a = b.
Proof. destruct a, b; cbn; split; intros H; try reflexivity; try discriminate. Qed.

Lemma ubad_sink c : ustep UBad c = UBad. Proof. reflexivity. Qed.
