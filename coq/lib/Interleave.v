(* Schedule independence: threads that each step only their own private component end, under
   EVERY interleaving, in the state they reach when run alone for the same number of steps. *)
From Coq Require Import List Arith Lia.
Import ListNotations.

Section I.
Variable L : Type.
Variable step : L -> L.          (* one deterministic step of a thread on its private state *)

Fixpoint upd (s : list L) (i : nat) : list L :=
  match s, i with
  | [], _ => []
  | x :: r, O => step x :: r
  | x :: r, S j => x :: upd r j
  end.

Definition run (sched : list nat) (s : list L) : list L := fold_left upd sched s.

Fixpoint iter (n : nat) (x : L) : L := match n with O => x | S k => iter k (step x) end.

Lemma nth_error_upd s : forall i j,
  nth_error (upd s i) j = if Nat.eqb i j then option_map step (nth_error s j) else nth_error s j.
Proof.
  induction s as [|x r IH]; intros i j; cbn [upd].
  - destruct (Nat.eqb i j); destruct j; reflexivity.
  - destruct i as [|i], j as [|j]; cbn [nth_error Nat.eqb option_map]; try reflexivity. apply IH.
Qed.

Lemma iter_step n x : iter n (step x) = step (iter n x).
Proof. revert x; induction n as [|n IH]; intros x; cbn [iter]; [reflexivity|]. rewrite IH. reflexivity. Qed.

Theorem interleave_serial_equiv sched : forall s i,
  nth_error (run sched s) i = option_map (iter (count_occ Nat.eq_dec sched i)) (nth_error s i).
Proof.
  unfold run. induction sched as [|k sched IH]; intros s i; cbn [fold_left count_occ].
  - destruct (nth_error s i); reflexivity.
  - rewrite IH, nth_error_upd. destruct (Nat.eq_dec k i) as [->|Hne].
    + rewrite Nat.eqb_refl. destruct (nth_error s i); cbn [option_map iter]; reflexivity.
    + destruct (Nat.eqb_spec k i); [contradiction|]. reflexivity.
Qed.
End I.
