(* Bytes, size_t arithmetic, result type, list slicing helpers.  Definitions only
   (lemmas are in BytesFacts.v) so that models extract even when a proof is broken. *)
From Coq Require Export List NArith ZArith Bool.
Export ListNotations.
Local Open Scope N_scope.

Notation byte := N (only parsing).

Inductive err := OOB | Hang | BadArg | TableOOB | Other.
Inductive res (A : Type) := Ok (a : A) | Err (e : err).
Arguments Ok {A} a.
Arguments Err {A} e.

Definition bind {A B} (r : res A) (f : A -> res B) : res B :=
  match r with Ok a => f a | Err e => Err e end.
Notation "'do' x <- r ; k" := (bind r (fun x => k)) (at level 200, x name, r at level 100, k at level 200).

(* size_t is 64 bits on the platform the checks run on *)
Definition W : N := 18446744073709551616.
Definition SIZE_MAX : N := 18446744073709551615.
Definition wadd (a b : N) : N := (a + b) mod W.
Definition wsub (a b : N) : N := (a + W - b mod W) mod W.
Definition wmul (a b : N) : N := (a * b) mod W.
Definition wofZ (z : Z) : N := Z.to_N (z mod (Z.of_N W)).

Definition Nlen {A} (l : list A) : N := N.of_nat (length l).

Definition sub_list {A} (l : list A) (off n : nat) : list A := firstn n (skipn off l).
Definition blit {A} (l : list A) (off : nat) (b : list A) : list A :=
  firstn off l ++ b ++ skipn (off + length b) l.

Fixpoint take_nonzero (l : list byte) : list byte :=
  match l with
  | [] => []
  | x :: t => if N.eqb x 0 then [] else x :: take_nonzero t
  end.

Definition nonul (l : list byte) : bool := forallb (fun b => negb (N.eqb b 0)) l.
Definition isbytes (l : list byte) : bool := forallb (fun b => N.ltb b 256) l.

Fixpoint prefixb (p l : list byte) : bool :=
  match p, l with
  | [], _ => true
  | x :: p', y :: l' => N.eqb x y && prefixb p' l'
  | _ :: _, [] => false
  end.

(* index of the first occurrence of [p] in [l] (strstr); [p = []] matches at 0 *)
Fixpoint find_sub (p l : list byte) : option nat :=
  if prefixb p l then Some O else
  match l with
  | [] => None
  | _ :: t => match find_sub p t with Some i => Some (S i) | None => None end
  end.
