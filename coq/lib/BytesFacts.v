(* Lemmas about the helpers of Bytes.v *)
From Coq Require Import Lia.
From MMD.lib Require Import Bytes.
Local Open Scope N_scope.

Lemma W_val : W = 2 ^ 64. Proof. reflexivity. Qed.

Lemma wadd_small a b : a + b < W -> wadd a b = a + b.
Proof. intros H; unfold wadd; apply N.mod_small; exact H. Qed.

Lemma wsub_small a b : b <= a -> a < W -> wsub a b = a - b.
Proof.
  intros Hb Ha; unfold wsub.
  rewrite (N.mod_small b W) by lia.
  replace (a + W - b) with ((a - b) + 1 * W) by lia.
  rewrite N.mod_add by (unfold W; lia). apply N.mod_small; lia.
Qed.

Lemma wmul2_small c : c * 2 < W -> wmul c 2 = c * 2.
Proof. intros H; unfold wmul; apply N.mod_small; exact H. Qed.

Lemma Nlen_app {A} (a b : list A) : Nlen (a ++ b) = Nlen a + Nlen b.
Proof. unfold Nlen; rewrite app_length; lia. Qed.

Lemma Nlen_cons {A} (x : A) l : Nlen (x :: l) = 1 + Nlen l.
Proof. unfold Nlen; simpl length; lia. Qed.

Lemma Nlen_nil {A} : Nlen (@nil A) = 0. Proof. reflexivity. Qed.

Lemma Nlen_to_nat {A} (l : list A) : N.to_nat (Nlen l) = length l.
Proof. unfold Nlen; apply Nat2N.id. Qed.

Lemma Nlen_repeat {A} (x : A) n : Nlen (repeat x n) = N.of_nat n.
Proof. unfold Nlen; rewrite repeat_length; reflexivity. Qed.

Lemma Nlen_firstn {A} (l : list A) n : (n <= length l)%nat -> Nlen (firstn n l) = N.of_nat n.
Proof. intros H; unfold Nlen; rewrite firstn_length_le by exact H; reflexivity. Qed.

Lemma Nlen_zero {A} (l : list A) : Nlen l = 0 -> l = [].
Proof. destruct l; [reflexivity|]. unfold Nlen; simpl; lia. Qed.

(* ---- slicing *)
Lemma firstn_app_l {A} (a b : list A) n : (n <= length a)%nat -> firstn n (a ++ b) = firstn n a.
Proof.
  intros H; rewrite firstn_app. replace (n - length a)%nat with O by lia.
  simpl; apply app_nil_r.
Qed.

Lemma firstn_app_exact {A} (a b : list A) : firstn (length a) (a ++ b) = a.
Proof. rewrite firstn_app_l by lia. apply firstn_all. Qed.

Lemma firstn_app_r {A} (a b : list A) n : firstn (length a + n) (a ++ b) = a ++ firstn n b.
Proof. apply firstn_app_2. Qed.

Lemma skipn_app_exact {A} (a b : list A) : skipn (length a) (a ++ b) = b.
Proof. rewrite skipn_app, skipn_all, Nat.sub_diag; reflexivity. Qed.

Lemma skipn_app_r {A} (a b : list A) n : skipn (length a + n) (a ++ b) = skipn n b.
Proof.
  rewrite skipn_app. rewrite skipn_all2 by lia.
  replace (length a + n - length a)%nat with n by lia. reflexivity.
Qed.

Lemma skipn_app_l {A} (a b : list A) n : (n <= length a)%nat -> skipn n (a ++ b) = skipn n a ++ b.
Proof. intros H; rewrite skipn_app. replace (n - length a)%nat with O by lia. reflexivity. Qed.

Lemma skipn_skipn' {A} (l : list A) a b : skipn a (skipn b l) = skipn (b + a) l.
Proof.
  revert l; induction b as [|b IH]; intros l; [reflexivity|].
  destruct l as [|x l]; [rewrite !skipn_nil; reflexivity|]. simpl. apply IH.
Qed.

Lemma firstn_skipn_split {A} (l : list A) a b :
  firstn (a + b) l = firstn a l ++ firstn b (skipn a l).
Proof.
  revert l; induction a as [|a IH]; intros l; [reflexivity|].
  destruct l as [|x l]; [simpl; rewrite firstn_nil; reflexivity|]. simpl. f_equal. apply IH.
Qed.

Lemma blit_view {A} (a t b : list A) :
  blit (a ++ t) (length a) b = a ++ b ++ skipn (length b) t.
Proof. unfold blit. rewrite firstn_app_exact, skipn_app_r. reflexivity. Qed.

Lemma blit_view_off {A} (a t b : list A) k : (k <= length t)%nat ->
  blit (a ++ t) (length a + k) b = a ++ firstn k t ++ b ++ skipn (k + length b) t.
Proof.
  intros H; unfold blit. rewrite firstn_app_r.
  replace (length a + k + length b)%nat with (length a + (k + length b))%nat by lia.
  rewrite skipn_app_r, <- app_assoc. reflexivity.
Qed.

Lemma sub_list_view {A} (a t : list A) k n :
  sub_list (a ++ t) (length a + k) n = firstn n (skipn k t).
Proof. unfold sub_list. rewrite skipn_app_r. reflexivity. Qed.

Lemma length_blit {A} (l b : list A) off : (off + length b <= length l)%nat ->
  length (blit l off b) = length l.
Proof.
  intros H; unfold blit. rewrite !app_length, firstn_length_le, skipn_length by lia. lia.
Qed.

(* ---- NUL-free strings *)
Lemma nonul_app a b : nonul (a ++ b) = nonul a && nonul b.
Proof. unfold nonul; apply forallb_app. Qed.

Lemma nonul_firstn l n : nonul l = true -> nonul (firstn n l) = true.
Proof.
  revert n; induction l as [|x l IH]; intros [|n] H; try reflexivity.
  simpl in *. apply andb_true_iff in H as [H1 H2]. rewrite H1; simpl. apply IH, H2.
Qed.

Lemma nonul_skipn l n : nonul l = true -> nonul (skipn n l) = true.
Proof.
  revert n; induction l as [|x l IH]; intros [|n] H; try reflexivity; try exact H.
  simpl in *. apply andb_true_iff in H as [H1 H2]. apply IH, H2.
Qed.

Lemma take_nonzero_nonul c t : nonul c = true -> take_nonzero (c ++ 0 :: t) = c.
Proof.
  induction c as [|x c IH]; intros H; [reflexivity|].
  simpl in *. apply andb_true_iff in H as [H1 H2].
  destruct (x =? 0); [discriminate|]. f_equal. apply IH, H2.
Qed.

Lemma take_nonzero_id c : nonul c = true -> take_nonzero c = c.
Proof.
  induction c as [|x c IH]; intros H; [reflexivity|].
  simpl in *. apply andb_true_iff in H as [H1 H2].
  destruct (x =? 0); [discriminate|]. f_equal. apply IH, H2.
Qed.

(* ---- find_sub *)
Lemma prefixb_spec p l : prefixb p l = true <-> exists t, l = p ++ t.
Proof.
  revert l; induction p as [|x p IH]; intros l; simpl.
  - split; [intros _; exists l; reflexivity | reflexivity].
  - destruct l as [|y l].
    + split; [discriminate | intros [t Ht]; discriminate].
    + rewrite andb_true_iff, N.eqb_eq, IH. split.
      * intros [-> [t ->]]. exists t; reflexivity.
      * intros [t Ht]. injection Ht as -> ->. split; [reflexivity | exists t; reflexivity].
Qed.

Lemma find_sub_bound p l i : find_sub p l = Some i -> (i + length p <= length l)%nat.
Proof.
  revert i; induction l as [|y l IH]; intros i; cbn [find_sub].
  - destruct (prefixb p []) eqn:E; [|discriminate].
    intros [= <-]. apply prefixb_spec in E as [t Ht].
    destruct p; [simpl; lia | discriminate].
  - destruct (prefixb p (y :: l)) eqn:E.
    + intros [= <-]. apply prefixb_spec in E as [t Ht]. rewrite Ht, app_length. lia.
    + destruct (find_sub p l) as [j|] eqn:F; [|discriminate].
      intros [= <-]. specialize (IH j eq_refl). simpl length. lia.
Qed.

Lemma find_sub_sound p l i : find_sub p l = Some i -> exists t, skipn i l = p ++ t.
Proof.
  revert i; induction l as [|y l IH]; intros i; cbn [find_sub].
  - destruct (prefixb p []) eqn:E; [|discriminate]. intros [= <-]. apply prefixb_spec, E.
  - destruct (prefixb p (y :: l)) eqn:E.
    + intros [= <-]. apply prefixb_spec, E.
    + destruct (find_sub p l) as [j|] eqn:F; [|discriminate]. intros [= <-]. apply IH; reflexivity.
Qed.
