(* Generic worklist exploration of a finite state space + the soundness of its membership test.
   Used with FiniteInv: the set returned is checked for closure by vm_compute. *)
From Coq Require Import List Bool PArith FMapPositive.
Import ListNotations.

Section Explore.
Variables (St A : Type) (next : St -> A -> St) (key : St -> positive) (eqb : St -> St -> bool).
Hypothesis eqb_eq : forall a b, eqb a b = true -> a = b.

Definition smap := PositiveMap.t St.
Definition smem (m : smap) (s : St) : bool :=
  match PositiveMap.find (key s) m with Some t => eqb s t | None => false end.

Fixpoint explore (fuel : nat) (alphabet : list A) (work : list St) (m : smap) (order : list St)
  : option (list St) :=
  match fuel with
  | O => None
  | S f =>
    match work with
    | [] => Some order
    | s :: w =>
      if smem m s then explore f alphabet w m order
      else explore f alphabet (map (next s) alphabet ++ w) (PositiveMap.add (key s) s m) (s :: order)
    end
  end.

Definition smap_of_list (l : list St) : smap :=
  fold_left (fun m s => PositiveMap.add (key s) s m) l (PositiveMap.empty _).

Lemma smap_of_list_in l : forall m k t,
  PositiveMap.find k (fold_left (fun m s => PositiveMap.add (key s) s m) l m) = Some t ->
  In t l \/ PositiveMap.find k m = Some t.
Proof.
  induction l as [|s l IH]; intros m k t H; cbn [fold_left] in H.
  - right; exact H.
  - apply IH in H as [H|H]; [left; right; exact H|].
    rewrite PositiveMapAdditionalFacts.gsspec in H.
    destruct (PositiveMap.E.eq_dec k (key s)) as [E|E].
    + injection H as <-. left; left; reflexivity.
    + right; exact H.
Qed.

Lemma smem_sound l s : smem (smap_of_list l) s = true -> In s l.
Proof.
  unfold smem. destruct (PositiveMap.find (key s) (smap_of_list l)) as [t|] eqn:E; [|discriminate].
  intros H. apply eqb_eq in H. subst t.
  apply smap_of_list_in in E as [E|E]; [exact E|]. rewrite PositiveMap.gempty in E. discriminate.
Qed.
End Explore.
