(* Byte-wise escapers as codes: a table [enc] of codewords; if no codeword is a prefix of another
   (and none is empty) the escaped text decodes uniquely back to the source - "undoing the target's
   escaping reproduces the source exactly", and in particular escaping is injective. *)
From Coq Require Import Lia.
From MMD.lib Require Import Bytes BytesFacts.
Local Open Scope N_scope.

Section PC.
Variable enc : N -> list N.
Variable alphabet : list N.

Definition encode (s : list N) : list N := flat_map enc s.

Fixpoint find_code (cands : list N) (l : list N) : option N :=
  match cands with
  | [] => None
  | c :: r => if prefixb (enc c) l then Some c else find_code r l
  end.

Fixpoint decode (fuel : nat) (l : list N) : option (list N) :=
  match l with
  | [] => Some []
  | _ :: _ =>
    match fuel with
    | O => None
    | S f => match find_code alphabet l with
             | None => None
             | Some c => option_map (cons c) (decode f (skipn (length (enc c)) l))
             end
    end
  end.

Definition prefix_free : bool :=
  forallb (fun a => forallb (fun b => (a =? b) || negb (prefixb (enc a) (enc b))) alphabet) alphabet &&
  forallb (fun a => negb (length (enc a) =? 0)%nat) alphabet.

Lemma prefixb_app p t : prefixb p (p ++ t) = true.
Proof. apply prefixb_spec. exists t. reflexivity. Qed.

Lemma prefix_common x y l : prefixb x l = true -> prefixb y l = true -> prefixb x y = true \/ prefixb y x = true.
Proof.
  revert y l. induction x as [|a x IH]; intros y l Hx Hy; [left; reflexivity|].
  destruct y as [|b y]; [right; reflexivity|].
  destruct l as [|c l]; [discriminate|]. cbn [prefixb] in *.
  apply andb_true_iff in Hx as [Hx1 Hx2]. apply andb_true_iff in Hy as [Hy1 Hy2].
  apply N.eqb_eq in Hx1, Hy1. subst. rewrite N.eqb_refl. cbn [andb]. eapply IH; eassumption.
Qed.

Lemma find_code_hit : prefix_free = true -> forall c rest, In c alphabet ->
  find_code alphabet (enc c ++ rest) = Some c.
Proof.
  intros Hpf c rest Hc. unfold prefix_free in Hpf. apply andb_true_iff in Hpf as [Hpf _].
  rewrite forallb_forall in Hpf.
  assert (G : forall cands, (forall a, In a cands -> In a alphabet) -> In c cands ->
              find_code cands (enc c ++ rest) = Some c).
  { induction cands as [|a cands IH]; intros Hsub Hin; [destruct Hin|]. cbn [find_code].
    destruct (prefixb (enc a) (enc c ++ rest)) eqn:E.
    - f_equal. pose proof (prefix_common _ _ _ E (prefixb_app (enc c) rest)) as [P|P].
      + specialize (Hpf a (Hsub a (or_introl eq_refl))). rewrite forallb_forall in Hpf.
        specialize (Hpf c Hc). rewrite P in Hpf. cbn in Hpf. rewrite orb_false_r in Hpf. apply N.eqb_eq, Hpf.
      + specialize (Hpf c Hc). rewrite forallb_forall in Hpf.
        specialize (Hpf a (Hsub a (or_introl eq_refl))). rewrite P in Hpf. cbn in Hpf.
        rewrite orb_false_r in Hpf. symmetry. apply N.eqb_eq, Hpf.
    - destruct Hin as [->|Hin].
      + rewrite prefixb_app in E. discriminate.
      + apply IH; [intros b Hb; apply Hsub; right; exact Hb|exact Hin]. }
  apply G; auto.
Qed.

Theorem decode_encode : prefix_free = true -> forall s, Forall (fun c => In c alphabet) s ->
  forall fuel, (length (encode s) < fuel)%nat -> decode fuel (encode s) = Some s.
Proof.
  intros Hpf. pose proof Hpf as Hpf'. unfold prefix_free in Hpf'. apply andb_true_iff in Hpf' as [_ Hne].
  rewrite forallb_forall in Hne.
  induction s as [|c s IH]; intros Hs fuel Hf; cbn [encode flat_map].
  - destruct fuel; reflexivity.
  - inversion Hs as [|? ? Hc Hs']; subst.
    assert (Hlen : (0 < length (enc c))%nat).
    { specialize (Hne c Hc). destruct (length (enc c)); [discriminate|lia]. }
    destruct (enc c ++ flat_map enc s) as [|x l] eqn:E.
    { apply (f_equal (@length _)) in E. rewrite app_length in E. simpl in E. lia. }
    destruct fuel as [|f]; [lia|]. cbn [decode]. rewrite <- E.
    rewrite find_code_hit by assumption.
    rewrite skipn_app_exact. fold (encode s). rewrite IH; [reflexivity|exact Hs'|].
    cbn [encode flat_map] in Hf. rewrite app_length in Hf. unfold encode. lia.
Qed.

Corollary encode_injective : prefix_free = true -> forall s t,
  Forall (fun c => In c alphabet) s -> Forall (fun c => In c alphabet) t -> encode s = encode t -> s = t.
Proof.
  intros Hpf s t Hs Ht E.
  pose proof (decode_encode Hpf s Hs (S (length (encode s))) ltac:(lia)) as D1.
  pose proof (decode_encode Hpf t Ht (S (length (encode t))) ltac:(lia)) as D2.
  rewrite E in D1. rewrite D1 in D2. injection D2. auto.
Qed.
End PC.
