(* Byte transducers (finite state, finite lookahead) and preservation of UTF-8 validity, decided by
   reflection over the product of the transducer with the UTF-8 automaton on input and output. *)
From Coq Require Import Lia.
From MMD.lib Require Import Bytes Dfa Utf8 FiniteInv Explore.
Local Open Scope N_scope.

Section Trans.
Variable T : Type.
Variable tinit : T.
Variable tstep : T -> N -> T * list N.      (* consume one input byte, emit some output *)
Variable tflush : T -> list N.              (* at end of input *)

Fixpoint trun (t : T) (w : list N) : T * list N :=
  match w with
  | [] => (t, [])
  | b :: r => let '(t1, o1) := tstep t b in let '(t2, o2) := trun t1 r in (t2, o1 ++ o2)
  end.
Definition transduce (w : list N) : list N := let '(t, o) := trun tinit w in o ++ tflush t.

(* product state: transducer state, UTF-8 state of the input so far, of the output so far;
   once the input is invalid the state is collapsed (we claim nothing about invalid input) *)
Definition pstate := option (T * ustate * ustate).
Definition pnext (p : pstate) (b : N) : pstate :=
  match p with
  | None => None
  | Some (t, qi, qo) =>
    let qi' := ustep qi b in
    if ustate_eqb qi' UBad then None else
    let '(t', o) := tstep t b in Some (t', qi', run ustate ustep o qo)
  end.
Definition pinit : pstate := Some (tinit, U0, U0).

(* whenever the input so far is complete valid UTF-8, so is the output after flushing *)
Definition pgood (p : pstate) : bool :=
  match p with
  | None => true
  | Some (t, qi, qo) => negb (ustate_eqb qi U0) || ustate_eqb (run ustate ustep (tflush t) qo) U0
  end.

Lemma trun_product w : forall t qi qo,
  run ustate ustep w qi <> UBad ->
  fold_left pnext w (Some (t, qi, qo)) =
  Some (fst (trun t w), run ustate ustep w qi, run ustate ustep (snd (trun t w)) qo).
Proof.
  induction w as [|b w IH]; intros t qi qo Hv; cbn [fold_left trun].
  - reflexivity.
  - cbn [pnext]. unfold run in Hv. cbn [fold_left] in Hv. fold (run ustate ustep w (ustep qi b)) in Hv.
    destruct (ustate_eqb (ustep qi b) UBad) eqn:E.
    + apply ustate_eqb_eq in E. rewrite E in Hv. exfalso. apply Hv. apply run_bad. exact ubad_sink.
    + destruct (tstep t b) as [t1 o1] eqn:Es. rewrite IH by exact Hv.
      destruct (trun t1 w) as [t2 o2]. cbn [fst snd].
      unfold run. rewrite fold_left_app. reflexivity.
Qed.

Variable R : list pstate.
Variable alphabet : list N.
Variable memR : pstate -> bool.
Hypothesis memR_sound : forall s, memR s = true -> In s R.

Theorem transducer_preserves_utf8 :
  closed pstate N pnext (fun p _ => pgood p) R alphabet memR = true ->
  forallb pgood R = true -> In pinit R ->
  forall w, Forall (fun c => In c alphabet) w -> valid_utf8 w = true -> valid_utf8 (transduce w) = true.
Proof.
  intros Hc Hg Hi w Hw Hv.
  destruct (finite_inv pstate N pnext (fun p _ => pgood p) R alphabet memR memR_sound Hc w pinit Hi Hw) as [Hin _].
  unfold valid_utf8 in Hv. apply ustate_eqb_eq in Hv.
  unfold pinit in Hin. rewrite trun_product in Hin by (rewrite Hv; discriminate).
  rewrite forallb_forall in Hg. specialize (Hg _ Hin). cbn [pgood] in Hg.
  rewrite Hv in Hg. cbn [ustate_eqb negb orb] in Hg.
  unfold valid_utf8, transduce. destruct (trun tinit w) as [t o]. cbn [fst snd] in Hg.
  unfold run in *. rewrite fold_left_app. exact Hg.
Qed.
End Trans.
