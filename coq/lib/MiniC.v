(* A small imperative language - the statement forms that occur in process_metadata_stack (writer.c):
   if / else over string comparisons, comparisons with constants and flag tests; assignments of
   constants, of functions of the current metadata value, and "flags |= FLAG" - with an interpreter
   and three verified static analyses:
     writes        a variable that is not written keeps its value              (frame)
     ni_ok         no information flows from a set H of variables to the others (noninterference)
     flag_effect   the statement's only effect on a flag variable is "set F unless G is set"
   tools/tr_metakeys.py regenerates the program text from the C source on every run; the theorems of
   C20 are obtained by running these analyses on it (reflection). *)
From Coq Require Import List String Bool ZArith NArith Lia.
Import ListNotations.
Local Open Scope string_scope.

Inductive val :=
| VZ (z : Z)                    (* integers *)
| VS (s : list N)               (* C strings *)
| VC (c : string)               (* named constants (enum values) *)
| VFlags (l : list string)      (* a bit set, as the list of the flag names that are set *)
| VUnset.

Inductive expr :=
| EAtoi | ELabel | EDup         (* atoi(m->value), label_from_string(m->value), my_strdup(m->value) *)
| EConst (c : string)
| EInt (z : Z)
| EVar (v : string).

Inductive cond :=
| CStrEq (v : string) (lit : list N)      (* strcmp(v, "lit") == 0 *)
| CEq (v : string) (e : expr)
| CNe (v : string) (e : expr)
| CMask (v : string) (flag : string)      (* (v & FLAG) *)
| CNotMask (v : string) (flag : string)   (* !(v & FLAG) *)
| COr (a b : cond)
| CAnd (a b : cond).

Inductive stmt :=
| SSkip
| SSeq (a b : stmt)
| SIf (c : cond) (t e : stmt)
| SAssign (v : string) (e : expr)
| SOrFlag (v : string) (flag : string)    (* v |= FLAG *)
| SFree (v : string).                     (* free(v): no effect on the modelled state *)

Definition state := string -> val.
Definition upd (st : state) (v : string) (x : val) : state := fun y => if String.eqb v y then x else st y.

Fixpoint bytes_eqb (a b : list N) : bool :=
  match a, b with [], [] => true | x :: a', y :: b' => N.eqb x y && bytes_eqb a' b' | _, _ => false end.
Fixpoint flags_eqb (a b : list string) : bool :=
  match a, b with [], [] => true | x :: a', y :: b' => String.eqb x y && flags_eqb a' b' | _, _ => false end.
Definition val_eqb (a b : val) : bool :=
  match a, b with
  | VZ x, VZ y => Z.eqb x y
  | VS x, VS y => bytes_eqb x y
  | VC x, VC y => String.eqb x y
  | VFlags x, VFlags y => flags_eqb x y
  | VUnset, VUnset => true
  | _, _ => false
  end.
Definition mem (x : string) (l : list string) : bool := existsb (String.eqb x) l.

Section Sem.
(* the metadata entry being processed and the two library functions applied to its value *)
Variable value : list N.
Variable atoi_f : list N -> Z.
Variable label_f : list N -> list N.

Definition eval (st : state) (e : expr) : val :=
  match e with
  | EAtoi => VZ (atoi_f value)
  | ELabel => VS (label_f value)
  | EDup => VS value
  | EConst c => VC c
  | EInt z => VZ z
  | EVar v => st v
  end.

Definition has_flag (x : val) (f : string) : bool := match x with VFlags l => mem f l | _ => false end.

Fixpoint ceval (st : state) (c : cond) : bool :=
  match c with
  | CStrEq v lit => match st v with VS s => bytes_eqb s lit | _ => false end
  | CEq v e => val_eqb (st v) (eval st e)
  | CNe v e => negb (val_eqb (st v) (eval st e))
  | CMask v f => has_flag (st v) f
  | CNotMask v f => negb (has_flag (st v) f)
  | COr a b => ceval st a || ceval st b
  | CAnd a b => ceval st a && ceval st b
  end.

Definition add_flag (x : val) (f : string) : val :=
  match x with VFlags l => if mem f l then VFlags l else VFlags (f :: l) | _ => VFlags [f] end.

Fixpoint exec (s : stmt) (st : state) : state :=
  match s with
  | SSkip => st
  | SSeq a b => exec b (exec a st)
  | SIf c t e => if ceval st c then exec t st else exec e st
  | SAssign v e => upd st v (eval st e)
  | SOrFlag v f => upd st v (add_flag (st v) f)
  | SFree _ => st
  end.

(* ---- frame *)
Fixpoint writes (s : stmt) : list string :=
  match s with
  | SSkip | SFree _ => []
  | SSeq a b => writes a ++ writes b
  | SIf _ t e => writes t ++ writes e
  | SAssign v _ | SOrFlag v _ => [v]
  end.

Lemma mem_In x l : mem x l = true <-> In x l.
Proof.
  unfold mem. rewrite existsb_exists. split.
  - intros (y & Hin & E). apply String.eqb_eq in E. subst. exact Hin.
  - intros H. exists x. split; [exact H | apply String.eqb_refl].
Qed.

Lemma upd_other st v x y : v <> y -> upd st v x y = st y.
Proof. intros H. unfold upd. destruct (String.eqb_spec v y); [congruence|reflexivity]. Qed.
Lemma upd_same st v x : upd st v x v = x.
Proof. unfold upd. rewrite String.eqb_refl. reflexivity. Qed.

Theorem frame s : forall st x, ~ In x (writes s) -> exec s st x = st x.
Proof.
  induction s as [|a IHa b IHb|c t IHt e IHe|v e|v f|v]; intros st x H; cbn [exec writes] in *.
  - reflexivity.
  - rewrite IHb by (intros Hin; apply H; apply in_or_app; right; exact Hin).
    apply IHa. intros Hin. apply H. apply in_or_app. left. exact Hin.
  - destruct (ceval st c).
    + apply IHt. intros Hin. apply H. apply in_or_app. left. exact Hin.
    + apply IHe. intros Hin. apply H. apply in_or_app. right. exact Hin.
  - apply upd_other. intros E. apply H. left. exact E.
  - apply upd_other. intros E. apply H. left. exact E.
  - reflexivity.
Qed.

(* ---- noninterference: H = the variables that must not influence the others *)
Variable H : list string.

Definition ereads (e : expr) : list string := match e with EVar v => [v] | _ => [] end.
Fixpoint creads (c : cond) : list string :=
  match c with
  | CStrEq v _ | CMask v _ | CNotMask v _ => [v]
  | CEq v e | CNe v e => v :: ereads e
  | COr a b | CAnd a b => creads a ++ creads b
  end.
Definition disjoint (a b : list string) : bool := forallb (fun x => negb (mem x b)) a.
Definition subset (a b : list string) : bool := forallb (fun x => mem x b) a.

Fixpoint ni_ok (s : stmt) : bool :=
  match s with
  | SSkip | SFree _ => true
  | SSeq a b => ni_ok a && ni_ok b
  | SIf c t e => if disjoint (creads c) H then ni_ok t && ni_ok e else subset (writes t ++ writes e) H
  | SAssign v e => mem v H || disjoint (ereads e) H
  | SOrFlag v _ => true          (* reads and writes the same variable *)
  end.

Definition low_eq (a b : state) : Prop := forall x, ~ In x H -> a x = b x.

Lemma disjoint_spec a b : disjoint a b = true -> forall x, In x a -> ~ In x b.
Proof.
  unfold disjoint. rewrite forallb_forall. intros Hd x Hx Hb. specialize (Hd x Hx).
  apply negb_true_iff in Hd. apply mem_In in Hb. congruence.
Qed.
Lemma subset_spec a b : subset a b = true -> forall x, In x a -> In x b.
Proof. unfold subset. rewrite forallb_forall. intros Hs x Hx. apply mem_In. apply Hs. exact Hx. Qed.

Lemma eval_low a b e : low_eq a b -> disjoint (ereads e) H = true -> eval a e = eval b e.
Proof.
  intros L D. destruct e; cbn [eval]; try reflexivity. apply L. apply (disjoint_spec _ _ D). left. reflexivity.
Qed.

Lemma ceval_low a b c : low_eq a b -> disjoint (creads c) H = true -> ceval a c = ceval b c.
Proof.
  intros L. induction c as [v lit|v e|v e|v f|v f|c1 IH1 c2 IH2|c1 IH1 c2 IH2]; intros D; cbn [ceval creads] in *.
  - rewrite (L v); [reflexivity|]. apply (disjoint_spec _ _ D). left. reflexivity.
  - unfold disjoint in D. cbn [forallb] in D. apply andb_true_iff in D as [D1 D2].
    rewrite (L v) by (apply negb_true_iff in D1; intros X; apply mem_In in X; congruence).
    rewrite (eval_low a b e L D2). reflexivity.
  - unfold disjoint in D. cbn [forallb] in D. apply andb_true_iff in D as [D1 D2].
    rewrite (L v) by (apply negb_true_iff in D1; intros X; apply mem_In in X; congruence).
    rewrite (eval_low a b e L D2). reflexivity.
  - rewrite (L v); [reflexivity|]. apply (disjoint_spec _ _ D). left. reflexivity.
  - rewrite (L v); [reflexivity|]. apply (disjoint_spec _ _ D). left. reflexivity.
  - unfold disjoint in D. rewrite forallb_app in D. apply andb_true_iff in D as [D1 D2]. rewrite IH1, IH2 by assumption. reflexivity.
  - unfold disjoint in D. rewrite forallb_app in D. apply andb_true_iff in D as [D1 D2]. rewrite IH1, IH2 by assumption. reflexivity.
Qed.

Theorem noninterference s : ni_ok s = true -> forall a b, low_eq a b -> low_eq (exec s a) (exec s b).
Proof.
  induction s as [|s1 IH1 s2 IH2|c t IHt e IHe|v e|v f|v]; intros Hok a b L; cbn [exec ni_ok] in *.
  - exact L.
  - apply andb_true_iff in Hok as [H1 H2]. apply IH2; [exact H2|]. apply IH1; assumption.
  - destruct (disjoint (creads c) H) eqn:D.
    + apply andb_true_iff in Hok as [H1 H2]. rewrite (ceval_low a b c L D).
      destruct (ceval b c); [apply IHt | apply IHe]; assumption.
    + (* the branches only write H: the other variables keep their values in both runs *)
      intros x Hx.
      assert (Hw : ~ In x (writes (SIf c t e))).
      { cbn [writes]. intros Hin. apply Hx. apply (subset_spec _ _ Hok). exact Hin. }
      pose proof (frame (SIf c t e) a x Hw) as Fa. pose proof (frame (SIf c t e) b x Hw) as Fb.
      cbn [exec] in Fa, Fb. rewrite Fa, Fb. apply L. exact Hx.
  - intros x Hx. unfold upd. destruct (String.eqb_spec v x) as [E|E]; [|apply L; exact Hx].
    subst x. apply orb_true_iff in Hok as [Hm|Hd]; [apply mem_In in Hm; contradiction|].
    apply eval_low; assumption.
  - intros x Hx. unfold upd. destruct (String.eqb_spec v x) as [E|E]; [|apply L; exact Hx].
    subst x. rewrite (L v Hx). reflexivity.
  - exact L.
Qed.

(* ---- effect on one flag variable: "set F unless G is set" *)
Variables (fv F G : string).

Definition is_set_unless (s : stmt) : bool :=
  match s with
  | SIf (CNotMask v g) (SOrFlag v' f) SSkip => String.eqb v fv && String.eqb v' fv && String.eqb g G && String.eqb f F
  | _ => false
  end.

(* Some true: sets F unless G;  Some false: leaves fv alone;  None: anything else *)
Fixpoint flag_effect (s : stmt) : option bool :=
  if is_set_unless s then Some true else
  match s with
  | SSeq a b => match flag_effect a, flag_effect b with Some x, Some y => Some (x || y) | _, _ => None end
  | _ => if mem fv (writes s) then None else Some false
  end.

Definition flag_post (st st' : state) (b : bool) : Prop :=
  forall f, has_flag (st' fv) f = has_flag (st fv) f || (b && negb (has_flag (st fv) G) && String.eqb f F).

Lemma has_flag_add x f g : has_flag (add_flag x f) g = has_flag x g || String.eqb g f.
Proof.
  unfold add_flag, has_flag. destruct x as [z|s|c|l|]; cbn [mem existsb]; try (rewrite orb_false_r; reflexivity).
  destruct (mem f l) eqn:E.
  - destruct (String.eqb_spec g f) as [->|N]; [rewrite E; reflexivity | rewrite orb_false_r; reflexivity].
  - cbn [mem existsb]. rewrite orb_comm. reflexivity.
Qed.

Hypothesis FG : F <> G.

Lemma set_unless_sound s st : is_set_unless s = true -> flag_post st (exec s st) true.
Proof.
  destruct s as [| | c t e | | |]; try discriminate. destruct c as [| | | |v g| |]; try discriminate.
  destruct t as [| | | |v' f|]; try discriminate. destruct e; try discriminate.
  cbn [is_set_unless]. intros Hs. apply andb_true_iff in Hs as [Hs E4]. apply andb_true_iff in Hs as [Hs E3].
  apply andb_true_iff in Hs as [E1 E2]. apply String.eqb_eq in E1, E2, E3, E4. subst.
  intros f. cbn [exec ceval]. destruct (has_flag (st fv) G) eqn:Hg; cbn [negb andb].
  - rewrite orb_false_r. reflexivity.
  - cbn [exec]. rewrite upd_same, has_flag_add. reflexivity.
Qed.

Lemma no_write_effect s st : mem fv (writes s) = false -> flag_post st (exec s st) false.
Proof.
  intros Em f. rewrite frame; [cbn [andb]; rewrite orb_false_r; reflexivity|].
  intros Hin. apply mem_In in Hin. congruence.
Qed.

Lemma flag_effect_leaf s b : is_set_unless s = false -> (forall a c, s <> SSeq a c) ->
  flag_effect s = Some b -> b = false /\ mem fv (writes s) = false.
Proof.
  intros Hi Hn He. destruct s; try (exfalso; eapply Hn; reflexivity);
    unfold flag_effect in He; fold flag_effect in He; rewrite Hi in He;
    match type of He with (if mem fv ?w then _ else _) = _ => destruct (mem fv w) eqn:Em; [discriminate|] end;
    injection He as <-; auto.
Qed.

Theorem flag_effect_sound s : forall b st, flag_effect s = Some b -> flag_post st (exec s st) b.
Proof.
  induction s as [|a IHa c IHc|c t IHt e IHe|v e|v f|v]; intros b st He.
  - destruct (flag_effect_leaf SSkip b eq_refl ltac:(discriminate) He) as [-> Em]. apply no_write_effect. exact Em.
  - (* SSeq *)
    cbn [flag_effect is_set_unless] in He.
    destruct (flag_effect a) as [x|] eqn:Ea; [|discriminate]. destruct (flag_effect c) as [y|] eqn:Ec; [|discriminate].
    injection He as <-. specialize (IHa x st eq_refl). specialize (IHc y (exec a st) eq_refl).
    intros f. cbn [exec]. rewrite (IHc f), (IHa f), (IHa G).
    assert (EG : String.eqb G F = false) by (apply String.eqb_neq; congruence). rewrite EG, andb_false_r, orb_false_r.
    destruct (has_flag (st fv) f), (has_flag (st fv) G), x, y, (String.eqb f F); reflexivity.
  - (* SIf *)
    destruct (is_set_unless (SIf c t e)) eqn:Ei.
    + unfold flag_effect in He. fold flag_effect in He. rewrite Ei in He. injection He as <-. apply set_unless_sound. exact Ei.
    + destruct (flag_effect_leaf _ b Ei ltac:(discriminate) He) as [-> Em]. apply no_write_effect. exact Em.
  - destruct (flag_effect_leaf (SAssign v e) b eq_refl ltac:(discriminate) He) as [-> Em]. apply no_write_effect. exact Em.
  - destruct (flag_effect_leaf (SOrFlag v f) b eq_refl ltac:(discriminate) He) as [-> Em]. apply no_write_effect. exact Em.
  - destruct (flag_effect_leaf (SFree v) b eq_refl ltac:(discriminate) He) as [-> Em]. apply no_write_effect. exact Em.
Qed.

End Sem.
