(* Gallina transcription of the lemon parser driver template as instantiated in
   /repo/src/parser.c (YYFALLBACK on; no YYERRORSYMBOL, YYWILDCARD, YYNOERRORRECOVERY;
   fixed stack of YYSTACKDEPTH entries).  Parametric in the tables, which
   tools/tr_lemon.py regenerates from parser.c on every run.  Every table read is bounds
   checked ([Err TableOOB]); every C assert of the template is an [Err Other].
   Definitions only. *)
From Coq Require Import FMapPositive.
From MMD.lib Require Import Bytes.
Local Open Scope Z_scope.

Definition tbl := PositiveMap.t Z.
Definition tkey (i : Z) : positive := Z.to_pos (i + 1).
Definition tget (t : tbl) (i : Z) : option Z :=
  if i <? 0 then None else PositiveMap.find (tkey i) t.
Fixpoint tbl_of_list_from (l : list Z) (i : Z) (acc : tbl) : tbl :=
  match l with
  | [] => acc
  | x :: r => tbl_of_list_from r (i + 1) (PositiveMap.add (tkey i) x acc)
  end.
Definition tbl_of_list (l : list Z) : tbl := tbl_of_list_from l 0 (PositiveMap.empty Z).

Record tables := mktables {
  t_action : tbl; t_lookahead : tbl; t_shift_ofst : tbl; t_reduce_ofst : tbl; t_default : tbl;
  t_fallback : tbl; t_fallback_len : Z; t_rule_lhs : tbl; t_rule_nrhs : tbl;
  YYNOCODE : Z; YYNSTATE : Z; YYNRULE : Z; YY_MAX_SHIFT : Z; YY_MIN_SHIFTREDUCE : Z;
  YY_MAX_SHIFTREDUCE : Z; YY_MIN_REDUCE : Z; YY_MAX_REDUCE : Z; YY_ERROR_ACTION : Z;
  YY_ACCEPT_ACTION : Z; YY_ACTTAB_COUNT : Z; YY_SHIFT_COUNT : Z; YY_REDUCE_COUNT : Z;
  YYSTACKDEPTH : Z
}.

Definition mk_tables (a la so ro d f rl rn : list Z)
  (nocode nstate nrule maxshift minsr maxsr minred maxred erract accact acttab shiftcount redcount depth : Z) :=
  mktables (tbl_of_list a) (tbl_of_list la) (tbl_of_list so) (tbl_of_list ro) (tbl_of_list d)
           (tbl_of_list f) (Z.of_nat (length f)) (tbl_of_list rl) (tbl_of_list rn)
           nocode nstate nrule maxshift minsr maxsr minred maxred erract accact acttab shiftcount redcount depth.

Inductive event :=
| EShift (major newstate : Z)       (* yy_shift: token pushed *)
| EReduce (rule under : Z)          (* yy_reduce by rule; [under] = state exposed below the popped entries *)
| EGoto (newstate : Z)              (* state pushed after a reduce *)
| EAccept
| ESyntaxError (major : Z)          (* token discarded *)
| EFail                             (* %parse_failure: whole document discarded *)
| EOverflow.                        (* yyStackOverflow: whole document discarded *)

(* generic sequencing of a one-token step (kept outside the section so that the guard checker
   never unfolds the fuelled loop) *)
Fixpoint run_tokens {S E} (step : S -> Z -> res (S * list E)) (stk : S) (toks : list Z) : res (S * list E) :=
  match toks with
  | [] => Ok (stk, [])
  | t :: r => do x <- step stk t; do y <- run_tokens step (fst x) r; Ok (fst y, snd x ++ snd y)
  end.

Section Driver.
Variable T : tables.

(* the parser stack: state numbers, top first; the last element is the base entry (state 0).
   yytos - yystack = length - 1 *)
Definition pstack := list Z.

Definition rd (t : tbl) (i : Z) : res Z :=
  match tget t i with Some v => Ok v | None => Err TableOOB end.

(* yy_find_shift_action; [fuel] bounds the fallback loop *)
Fixpoint find_shift_action (fuel : nat) (stateno la : Z) : res Z :=
  if stateno >=? YY_MIN_REDUCE T then Ok stateno else
  if stateno >? YY_SHIFT_COUNT T then Err Other else                 (* assert *)
  do ofs <- rd (t_shift_ofst T) stateno;
  let i := ofs + la in
  let miss := fun _ : unit =>
    (* fallback, else default *)
    match (if la <? t_fallback_len T then tget (t_fallback T) la else None) with
    | Some fb =>
      if fb =? 0 then rd (t_default T) stateno else
      match fuel with
      | O => Err Hang
      | S f => find_shift_action f stateno fb
      end
    | None => rd (t_default T) stateno
    end in
  if (i <? 0) || (i >=? YY_ACTTAB_COUNT T) then miss tt else
  do lk <- rd (t_lookahead T) i;
  if lk =? la then rd (t_action T) i else miss tt.

(* yy_find_reduce_action (no YYERRORSYMBOL: the range tests are asserts) *)
Definition find_reduce_action (stateno la : Z) : res Z :=
  if stateno >? YY_REDUCE_COUNT T then Err Other else
  do ofs <- rd (t_reduce_ofst T) stateno;
  let i := ofs + la in
  if (i <? 0) || (i >=? YY_ACTTAB_COUNT T) then Err Other else
  do lk <- rd (t_lookahead T) i;
  if lk =? la then rd (t_action T) i else Err Other.

Definition renumber (st : Z) : Z :=
  if st >? YY_MAX_SHIFT T then st + YY_MIN_REDUCE T - YY_MIN_SHIFTREDUCE T else st.

Definition base : pstack := [0].

(* one call of Parse(major).  Returns the new stack and the events, oldest first. *)
Fixpoint parse_loop (fuel : nat) (stk : pstack) (major : Z) (endofinput : bool) (acc : list event)
  : res (pstack * list event) :=
  match fuel with
  | O => Err Hang
  | S f =>
    match stk with
    | [] => Err Other
    | top :: _ =>
      do act <- find_shift_action 4 top major;
      if act <=? YY_MAX_SHIFTREDUCE T then
        (* yy_shift *)
        if Z.of_nat (length stk) >=? YYSTACKDEPTH T then Ok (base, acc ++ [EOverflow])
        else Ok (renumber act :: stk, acc ++ [EShift major (renumber act)])
      else if act <=? YY_MAX_REDUCE T then
        (* yy_reduce *)
        let rule := act - YY_MIN_REDUCE T in
        do lhs <- rd (t_rule_lhs T) rule;
        do nrhs <- rd (t_rule_nrhs T) rule;
        if (nrhs =? 0) && (Z.of_nat (length stk) >=? YYSTACKDEPTH T) then Ok (base, acc ++ [EReduce rule top; EOverflow]) else
        let rest := skipn (Z.to_nat nrhs) stk in
        match rest with
        | [] => Err Other                                  (* popped below the base entry *)
        | under :: _ =>
          do goact <- find_reduce_action under lhs;
          if goact <=? YY_MAX_SHIFTREDUCE T then
            let stk' := renumber goact :: rest in
            parse_loop f stk' major endofinput (acc ++ [EReduce rule under; EGoto (renumber goact)])
          else if goact =? YY_ACCEPT_ACTION T then
            (* yytos -= yysize; yy_accept; loop ends because yytos == yystack *)
            match rest with
            | [_] => Ok (rest, acc ++ [EReduce rule under; EAccept])
            | _ => Err Other                               (* assert(yytos == yystack) *)
            end
          else Err Other
        end
      else if act =? YY_ERROR_ACTION T then
        if endofinput then Ok (base, acc ++ [ESyntaxError major; EFail])
        else Ok (stk, acc ++ [ESyntaxError major])
      else Err Other
    end
  end.

Definition FUEL : nat := 400.

Definition parse_token (stk : pstack) (major : Z) : res (pstack * list event) :=
  parse_loop FUEL stk major (major =? 0) [].

(* a whole token sequence followed by end of input, as mmd_parse_token_chain drives it *)
Definition parse_tokens : pstack -> list Z -> res (pstack * list event) := run_tokens parse_token.

Definition parse_document (toks : list Z) : res (pstack * list event) :=
  parse_tokens base (toks ++ [0]).

Definition stack_eqb (a b : pstack) : bool :=
  (length a =? length b)%nat && forallb (fun p => fst p =? snd p) (combine a b).

(* ---- what must hold of one step *)
Definition is_shift (e : event) : bool := match e with EShift _ _ => true | _ => false end.
Definition is_bad (e : event) : bool :=
  match e with ESyntaxError _ | EFail | EOverflow => true | _ => false end.
Definition is_accept (e : event) : bool := match e with EAccept => true | _ => false end.

(* a line token is consumed properly: exactly one shift, no error/overflow/accept *)
Definition good_token_step (stk : pstack) (major : Z) : bool :=
  match parse_token stk major with
  | Ok (stk', ev) =>
    (length (filter is_shift ev) =? 1)%nat && negb (existsb is_bad ev) && negb (existsb is_accept ev)
    && (Z.of_nat (length stk') <? YYSTACKDEPTH T) && negb (stack_eqb stk' base)
  | Err _ => false
  end.

(* end of input is accepted: no shift of a discarded token, ends with Accept on the base stack *)
Definition good_end_step (stk : pstack) : bool :=
  match parse_token stk 0 with
  | Ok (stk', ev) =>
    negb (existsb is_bad ev) && existsb is_accept ev && (length (filter is_shift ev) =? 0)%nat &&
    match stk' with [0] => true | _ => false end
  | Err _ => false
  end.

Definition next_stack (stk : pstack) (major : Z) : pstack :=
  match parse_token stk major with Ok (s, _) => s | Err _ => [] end.

(* ---- reachable stacks: worklist exploration (computed inside Coq by vm_compute) *)
Definition skey (stk : pstack) : positive :=
  fold_left (fun acc s => (acc * 1024 + Z.to_pos (s + 1))%positive) stk 1%positive.

Definition seen := PositiveMap.t pstack.
Definition seen_mem (m : seen) (s : pstack) : bool :=
  match PositiveMap.find (skey s) m with Some t => stack_eqb s t | None => false end.

Fixpoint explore (fuel : nat) (alphabet : list Z) (work : list pstack) (m : seen) (order : list pstack)
  : option (seen * list pstack) :=
  match fuel with
  | O => None
  | S f =>
    match work with
    | [] => Some (m, order)
    | s :: w =>
      if seen_mem m s then explore f alphabet w m order
      else
        let succs := map (next_stack s) alphabet in
        explore f alphabet (succs ++ w) (PositiveMap.add (skey s) s m) (s :: order)
    end
  end.

Definition reachable (alphabet : list Z) : option (list pstack) :=
  match explore (500 * 400)%nat alphabet [base] (PositiveMap.empty _) [] with
  | Some (_, o) => Some o
  | None => None
  end.

End Driver.
