(* Block-level compositionality of the lemon driver, by reflection.
   The driver is a finite transducer bc_over parser stacks; its output is projected to the rules that create
   top-level blocks.  A DFA bc_over line kinds describes "closed" documents: sequences of blocks of the
   chosen kinds, each followed by at least one empty line.  The checks below (evaluated by vm_compute on
   the regenerated tables) establish a simulation between a bc_run in context and the same bc_run from the
   empty stack; [comp] lifts them to all closed documents. *)
From Coq Require Import List ZArith Bool Lia.
Import ListNotations.
From MMD.lib Require Import Bytes Lemon.
Local Open Scope Z_scope.

Section BC.
Variable T : tables.
Variable block_lhs : Z.                 (* the nonterminal "block" *)
Variable dstep : nat -> Z -> option nat.   (* DFA bc_over line kinds; state 0 = start of a document; [fin] = after a block and its empty line(s) *)
Variable fin : nat.
Variable alphabet : list Z.

Definition is_block_rule (r : Z) : bool :=
  match tget (t_rule_lhs T) r with Some l => l =? block_lhs | None => false end.
Definition brules (ev : list event) : list Z :=
  flat_map (fun e => match e with EReduce r _ => if is_block_rule r then [r] else [] | _ => [] end) ev.

(* one token (0 = end of input): new stack and the block rules reduced; None on any error event *)
Definition bc_step (q : pstack) (t : Z) : option (pstack * list Z) :=
  match parse_token T q t with
  | Ok (q', ev) => if existsb is_bad ev then None else Some (q', brules ev)
  | Err _ => None
  end.
(* the empty stack is only met on the empty document, which is not parsed at all *)
Definition bc_flush (q : pstack) : option (list Z) := if stack_eqb q base then Some [] else option_map snd (bc_step q 0).

Fixpoint bc_run (q : pstack) (w : list Z) : option (pstack * list Z) :=
  match w with
  | [] => Some (q, [])
  | t :: r => match bc_step q t with
              | Some (q1, o1) => match bc_run q1 r with Some (q2, o2) => Some (q2, o1 ++ o2) | None => None end
              | None => None
              end
  end.
Fixpoint drun (a : nat) (w : list Z) : option nat :=
  match w with
  | [] => Some a
  | t :: r => match dstep a t with Some a' => drun a' r | None => None end
  end.
Definition closed (w : list Z) : Prop := w = [] \/ drun 0 w = Some fin.

(* the block rules of a whole document: all tokens, then end of input *)
Definition bc_F (q : pstack) (w : list Z) : option (list Z) :=
  match bc_run q w with
  | Some (q', o) => match bc_flush q' with Some f => Some (o ++ f) | None => None end
  | None => None
  end.

(* ---- finite sets and the checks *)
Definition zl_eqb (a b : list Z) : bool := (length a =? length b)%nat && forallb (fun p => fst p =? snd p) (combine a b).
Lemma zl_eqb_eq a : forall b, zl_eqb a b = true -> a = b.
Proof.
  unfold zl_eqb. induction a as [|x a IH]; intros [|y b] H; cbn in H; try discriminate; [reflexivity|].
  apply andb_true_iff in H as [Hl H]. apply andb_true_iff in H as [Hx H]. apply Z.eqb_eq in Hx. subst.
  f_equal. apply IH. rewrite Hl, H. reflexivity.
Qed.

Definition hstate := (pstack * nat)%type.
Definition triple := (pstack * pstack * nat)%type.
Definition memH (H : list hstate) (x : hstate) : bool := existsb (fun y => zl_eqb (fst x) (fst y) && Nat.eqb (snd x) (snd y)) H.
Definition memS (S : list triple) (x : triple) : bool :=
  existsb (fun y => zl_eqb (fst (fst x)) (fst (fst y)) && zl_eqb (snd (fst x)) (snd (fst y)) && Nat.eqb (snd x) (snd y)) S.

Lemma memH_in H x : memH H x = true -> In x H.
Proof.
  unfold memH. rewrite existsb_exists. intros ([q a] & Hin & E). apply andb_true_iff in E as [E1 E2].
  apply zl_eqb_eq in E1. apply Nat.eqb_eq in E2. destruct x as [q' a']. cbn in *. subst. exact Hin.
Qed.
Lemma memS_in S x : memS S x = true -> In x S.
Proof.
  unfold memS. rewrite existsb_exists. intros ([[c l] a] & Hin & E). apply andb_true_iff in E as [E E3].
  apply andb_true_iff in E as [E1 E2]. apply zl_eqb_eq in E1, E2. apply Nat.eqb_eq in E3.
  destruct x as [[c' l'] a']. cbn in *. subst. exact Hin.
Qed.

Variable H : list hstate.
Variable S : list triple.

Definition check_H : bool :=
  memH H (base, 0%nat) &&
  forallb (fun x => forallb (fun t =>
    match dstep (snd x) t with
    | Some a' => match bc_step (fst x) t with Some (q', _) => memH H (q', a') | None => false end
    | None => true
    end) alphabet) H &&
  forallb (fun x => if Nat.eqb (snd x) fin then negb (stack_eqb (fst x) base) && match bc_flush (fst x) with Some _ => true | None => false end else true) H.

Definition check_P1 : bool :=
  forallb (fun x => if Nat.eqb (snd x) fin then forallb (fun t =>
    match dstep 0%nat t with
    | Some a' =>
      match bc_step (fst x) t, bc_step base t, bc_flush (fst x) with
      | Some (q', o), Some (b', ob), Some f => zl_eqb o (f ++ ob) && memS S (q', b', a')
      | _, _, _ => false
      end
    | None => true
    end) alphabet else true) H.

Definition check_P2 : bool :=
  forallb (fun x => let '(c, l, a) := x in forallb (fun t =>
    match dstep a t with
    | Some a' =>
      match bc_step c t, bc_step l t with
      | Some (c', oc), Some (l', ol) => zl_eqb oc ol && memS S (c', l', a')
      | _, _ => false
      end
    | None => true
    end) alphabet) S.

Definition check_P3 : bool :=
  forallb (fun x => let '(c, l, a) := x in
    if Nat.eqb a fin then match bc_flush c, bc_flush l with Some f, Some g => zl_eqb f g | _, _ => false end else true) S.

Definition check_P4 : bool := match bc_flush base with Some [] => true | _ => false end.

Definition all_checks : bool := check_H && check_P1 && check_P2 && check_P3 && check_P4 &&
  forallb (fun t => existsb (Z.eqb t) alphabet) alphabet.

(* ---- from the checks to all closed documents *)
Hypothesis Hchk : all_checks = true.

Definition bc_over (w : list Z) : Prop := Forall (fun t => In t alphabet) w.

Lemma in_alpha t : In t alphabet -> existsb (Z.eqb t) alphabet = true.
Proof. intros Hin. apply existsb_exists. exists t. split; [exact Hin | apply Z.eqb_refl]. Qed.

Lemma chk : check_H = true /\ check_P1 = true /\ check_P2 = true /\ check_P3 = true /\ check_P4 = true.
Proof.
  pose proof Hchk as C. unfold all_checks in C.
  apply andb_true_iff in C as [C _]. apply andb_true_iff in C as [C C5]. apply andb_true_iff in C as [C C4].
  apply andb_true_iff in C as [C C3]. apply andb_true_iff in C as [C1 C2]. auto.
Qed.

Lemma H_base : In (base, 0%nat) H.
Proof.
  destruct chk as (C & _). unfold check_H in C. apply andb_true_iff in C as [C _]. apply andb_true_iff in C as [C _].
  apply memH_in. exact C.
Qed.

Lemma H_step q a t a' : In (q, a) H -> In t alphabet -> dstep a t = Some a' ->
  exists q' o, bc_step q t = Some (q', o) /\ In (q', a') H.
Proof.
  intros Hin Ht Hd. destruct chk as (C & _). unfold check_H in C. apply andb_true_iff in C as [C _]. apply andb_true_iff in C as [_ C].
  rewrite forallb_forall in C. specialize (C _ Hin). rewrite forallb_forall in C. specialize (C _ Ht). cbn [fst snd] in C.
  rewrite Hd in C. destruct (bc_step q t) as [[q' o]|]; [|discriminate]. exists q', o. split; [reflexivity|]. apply memH_in. exact C.
Qed.

Lemma H_fin q : In (q, fin) H -> stack_eqb q base = false /\ exists f, bc_flush q = Some f.
Proof.
  intros Hin. destruct chk as (C & _). unfold check_H in C. apply andb_true_iff in C as [_ C].
  rewrite forallb_forall in C. specialize (C _ Hin). cbn [fst snd] in C. rewrite Nat.eqb_refl in C.
  apply andb_true_iff in C as [C1 C2]. apply negb_true_iff in C1. split; [exact C1|].
  destruct (bc_flush q) as [f|]; [exists f; reflexivity|discriminate].
Qed.

Lemma P1 q t a' : In (q, fin) H -> In t alphabet -> dstep 0%nat t = Some a' ->
  exists q' b' ob f, bc_step q t = Some (q', f ++ ob) /\ bc_step base t = Some (b', ob) /\ bc_flush q = Some f /\ In (q', b', a') S.
Proof.
  intros Hin Ht Hd. destruct chk as (_ & C & _). unfold check_P1 in C.
  rewrite forallb_forall in C. specialize (C _ Hin). cbn [fst snd] in C. rewrite Nat.eqb_refl in C.
  rewrite forallb_forall in C. specialize (C _ Ht). rewrite Hd in C.
  destruct (bc_step q t) as [[q' o]|]; [|discriminate]. destruct (bc_step base t) as [[b' ob]|]; [|discriminate].
  destruct (bc_flush q) as [f|]; [|discriminate]. apply andb_true_iff in C as [C1 C2]. apply zl_eqb_eq in C1. subst o.
  exists q', b', ob, f. repeat split. apply memS_in. exact C2.
Qed.

Lemma P2 c l a t a' : In (c, l, a) S -> In t alphabet -> dstep a t = Some a' ->
  exists c' l' o, bc_step c t = Some (c', o) /\ bc_step l t = Some (l', o) /\ In (c', l', a') S.
Proof.
  intros Hin Ht Hd. destruct chk as (_ & _ & C & _). unfold check_P2 in C.
  rewrite forallb_forall in C. specialize (C _ Hin). cbn beta iota in C.
  rewrite forallb_forall in C. specialize (C _ Ht). rewrite Hd in C.
  destruct (bc_step c t) as [[c' oc]|]; [|discriminate]. destruct (bc_step l t) as [[l' ol]|]; [|discriminate].
  apply andb_true_iff in C as [C1 C2]. apply zl_eqb_eq in C1. subst ol.
  exists c', l', oc. repeat split. apply memS_in. exact C2.
Qed.

Lemma P3 c l : In (c, l, fin) S -> exists f, bc_flush c = Some f /\ bc_flush l = Some f.
Proof.
  intros Hin. destruct chk as (_ & _ & _ & C & _). unfold check_P3 in C.
  rewrite forallb_forall in C. specialize (C _ Hin). cbn beta iota in C. rewrite Nat.eqb_refl in C.
  destruct (bc_flush c) as [f|]; [|discriminate]. destruct (bc_flush l) as [g|]; [|discriminate].
  apply zl_eqb_eq in C. subst g. exists f. auto.
Qed.

Lemma P4 : bc_flush base = Some [].
Proof.
  destruct chk as (_ & _ & _ & _ & C). unfold check_P4 in C. destruct (bc_flush base) as [[|? ?]|]; try discriminate. reflexivity.
Qed.

Lemma run_app q u : forall v,
  bc_run q (u ++ v) = match bc_run q u with
                   | Some (q1, o1) => match bc_run q1 v with Some (q2, o2) => Some (q2, o1 ++ o2) | None => None end
                   | None => None
                   end.
Proof.
  revert q. induction u as [|t r IH]; intros q v; cbn [app bc_run].
  - destruct (bc_run q v) as [[q2 o2]|]; reflexivity.
  - destruct (bc_step q t) as [[q1 o1]|]; [|reflexivity]. rewrite IH.
    destruct (bc_run q1 r) as [[q2 o2]|]; [|reflexivity]. destruct (bc_run q2 v) as [[q3 o3]|]; [|reflexivity].
    rewrite app_assoc. reflexivity.
Qed.

Lemma L_H w : forall q a a', In (q, a) H -> bc_over w -> drun a w = Some a' ->
  exists q' o, bc_run q w = Some (q', o) /\ In (q', a') H.
Proof.
  induction w as [|t r IH]; intros q a a' Hin Hw Hd; cbn [bc_run drun] in *.
  - injection Hd as <-. eauto.
  - inversion Hw as [|? ? Ht Hr]; subst. destruct (dstep a t) as [a1|] eqn:Ed; [|discriminate].
    destruct (H_step q a t a1 Hin Ht Ed) as (q1 & o1 & Es & Hin1). rewrite Es.
    destruct (IH q1 a1 a' Hin1 Hr Hd) as (q2 & o2 & Er & Hin2). rewrite Er. eauto.
Qed.

Lemma L_S w : forall c l a, In (c, l, a) S -> bc_over w -> drun a w = Some fin ->
  exists c' l' o f, bc_run c w = Some (c', o) /\ bc_run l w = Some (l', o) /\ bc_flush c' = Some f /\ bc_flush l' = Some f.
Proof.
  induction w as [|t r IH]; intros c l a Hin Hw Hd; cbn [bc_run drun] in *.
  - injection Hd as ->. destruct (P3 c l Hin) as (f & F1 & F2). exists c, l, [], f. auto.
  - inversion Hw as [|? ? Ht Hr]; subst. destruct (dstep a t) as [a1|] eqn:Ed; [|discriminate].
    destruct (P2 c l a t a1 Hin Ht Ed) as (c1 & l1 & o1 & Ec & El & Hin1). rewrite Ec, El.
    destruct (IH c1 l1 a1 Hin1 Hr Hd) as (c2 & l2 & o2 & f & Rc & Rl & Fc & Fl). rewrite Rc, Rl.
    exists c2, l2, (o1 ++ o2), f. auto.
Qed.

Lemma L_G q t r : In (q, fin) H -> bc_over (t :: r) -> drun 0%nat (t :: r) = Some fin ->
  exists f x, bc_flush q = Some f /\ bc_F base (t :: r) = Some x /\ bc_F q (t :: r) = Some (f ++ x).
Proof.
  intros Hin Hw Hd. inversion Hw as [|? ? Ht Hr]; subst. cbn [drun] in Hd.
  destruct (dstep 0%nat t) as [a1|] eqn:Ed; [|discriminate].
  destruct (P1 q t a1 Hin Ht Ed) as (q1 & b1 & ob & f & Eq & Eb & Ef & Hin1).
  destruct (L_S r q1 b1 a1 Hin1 Hr Hd) as (c2 & l2 & o & f2 & Rc & Rl & Fc & Fl).
  exists f, (ob ++ o ++ f2). split; [exact Ef|]. unfold bc_F. cbn [bc_run]. rewrite Eq, Eb, Rc, Rl, Fc, Fl.
  split; [rewrite <- app_assoc; reflexivity|]. rewrite <- !app_assoc. reflexivity.
Qed.

(* bc_F on any closed document is defined *)
Lemma F_defined w : closed w -> bc_over w -> exists x, bc_F base w = Some x.
Proof.
  intros [->|Hd] Hw.
  - unfold bc_F. cbn [bc_run]. rewrite P4. eauto.
  - destruct (L_H w base 0%nat fin H_base Hw Hd) as (q & o & Er & Hin). destruct (H_fin q Hin) as (_ & f & Ef).
    unfold bc_F. rewrite Er, Ef. eauto.
Qed.

Theorem comp u v : closed u -> closed v -> bc_over u -> bc_over v ->
  exists x y, bc_F base u = Some x /\ bc_F base v = Some y /\ bc_F base (u ++ v) = Some (x ++ y).
Proof.
  intros Cu Cv Hu Hv.
  destruct (F_defined u Cu Hu) as (x & Fx). destruct (F_defined v Cv Hv) as (y & Fy).
  exists x, y. split; [exact Fx|]. split; [exact Fy|].
  destruct Cu as [->|Du].
  - cbn [app]. unfold bc_F in Fx. cbn [bc_run] in Fx. rewrite P4 in Fx. injection Fx as <-. exact Fy.
  - destruct Cv as [->|Dv].
    + rewrite app_nil_r. unfold bc_F in Fy. cbn [bc_run] in Fy. rewrite P4 in Fy. injection Fy as <-. rewrite app_nil_r. exact Fx.
    + destruct v as [|t r]; [cbn in Dv; injection Dv as Dv; rewrite app_nil_r;
                             unfold bc_F in Fy; cbn [bc_run] in Fy; rewrite P4 in Fy; injection Fy as <-; rewrite app_nil_r; exact Fx|].
      destruct (L_H u base 0%nat fin H_base Hu Du) as (q & ou & Er & Hin).
      destruct (L_G q t r Hin Hv Dv) as (f & x' & Ef & Fb & Fq).
      rewrite Fb in Fy. injection Fy as <-.
      unfold bc_F in Fx. rewrite Er, Ef in Fx. injection Fx as <-.
      unfold bc_F in Fq |- *. rewrite run_app, Er.
      destruct (bc_run q (t :: r)) as [[q2 ov]|]; [|discriminate].
      destruct (bc_flush q2) as [f2|]; [|discriminate]. injection Fq as Fq.
      rewrite <- !app_assoc. rewrite Fq. reflexivity.
Qed.

(* ---- what bc_F is in terms of the driver: the block rules among the events of parse_document *)
Lemma brules_app a b : brules (a ++ b) = brules a ++ brules b.
Proof. unfold brules. apply flat_map_app. Qed.

Lemma run_tokens_of_run w : forall q q' o, bc_run q w = Some (q', o) ->
  exists ev, run_tokens (parse_token T) q w = Ok (q', ev) /\ existsb is_bad ev = false /\ brules ev = o.
Proof.
  induction w as [|t r IH]; intros q q' o Hr; cbn [bc_run run_tokens] in *.
  - injection Hr as <- <-. exists []. auto.
  - unfold bc_step in Hr at 1. destruct (parse_token T q t) as [[q1 ev1]|e] eqn:Ep; [|discriminate].
    destruct (existsb is_bad ev1) eqn:Eb; [discriminate|].
    destruct (bc_run q1 r) as [[q2 o2]|] eqn:Er; [|discriminate]. injection Hr as <- <-.
    destruct (IH q1 q2 o2 Er) as (ev2 & Et & Eb2 & Eo). cbn [bind fst snd]. rewrite Et. cbn [bind fst snd].
    exists (ev1 ++ ev2). split; [reflexivity|]. split; [rewrite existsb_app, Eb, Eb2; reflexivity|].
    rewrite brules_app, Eo. reflexivity.
Qed.

Lemma run_tokens_app q u v :
  run_tokens (parse_token T) q (u ++ v) =
  match run_tokens (parse_token T) q u with
  | Ok (q1, e1) => match run_tokens (parse_token T) q1 v with Ok (q2, e2) => Ok (q2, e1 ++ e2) | Err e => Err e end
  | Err e => Err e
  end.
Proof.
  revert q. induction u as [|t r IH]; intros q; cbn [app run_tokens].
  - destruct (run_tokens (parse_token T) q v) as [[q2 e2]|e]; reflexivity.
  - destruct (parse_token T q t) as [[q1 e1]|e]; cbn [bind fst snd]; [|reflexivity]. rewrite IH.
    destruct (run_tokens (parse_token T) q1 r) as [[q2 e2]|e]; cbn [bind fst snd]; [|reflexivity].
    destruct (run_tokens (parse_token T) q2 v) as [[q3 e3]|e]; cbn [bind fst snd]; [|reflexivity].
    rewrite app_assoc. reflexivity.
Qed.

Theorem F_is_parse_document w x : w <> [] -> drun 0%nat w = Some fin -> bc_over w -> bc_F base w = Some x ->
  exists stk ev, parse_document T w = Ok (stk, ev) /\ existsb is_bad ev = false /\ brules ev = x.
Proof.
  intros Hne Hd Hw HF. unfold bc_F in HF.
  destruct (L_H w base 0%nat fin H_base Hw Hd) as (q & o & Er & Hin). rewrite Er in HF.
  destruct (H_fin q Hin) as (Hnb & _). unfold bc_flush in HF. rewrite Hnb in HF.
  unfold bc_step in HF. destruct (parse_token T q 0) as [[q2 ev2]|e] eqn:Ep; [|discriminate].
  destruct (existsb is_bad ev2) eqn:Eb; [discriminate|]. cbn [option_map snd] in HF. injection HF as <-.
  destruct (run_tokens_of_run w base q o Er) as (ev & Et & Ebad & Eo).
  unfold parse_document, parse_tokens. rewrite run_tokens_app, Et. cbn [run_tokens]. rewrite Ep. cbn [bind fst snd].
  exists q2, (ev ++ ev2 ++ []). split; [reflexivity|]. rewrite app_nil_r. split; [rewrite existsb_app, Ebad, Eb; reflexivity|].
  rewrite brules_app, Eo. reflexivity.
Qed.

(* ---- exploration that produces H and S (its result is checked, not trusted) *)
Fixpoint explore_H (fuel : nat) (work : list hstate) (acc : list hstate) : list hstate :=
  match fuel with
  | O => acc
  | Datatypes.S f =>
    match work with
    | [] => acc
    | x :: w =>
      if memH acc x then explore_H f w acc
      else
        let nexts := flat_map (fun t => match dstep (snd x) t with
                                        | Some a' => match bc_step (fst x) t with Some (q', _) => [(q', a')] | None => [] end
                                        | None => [] end) alphabet in
        explore_H f (nexts ++ w) (x :: acc)
    end
  end.

Fixpoint explore_S (fuel : nat) (work : list triple) (acc : list triple) : list triple :=
  match fuel with
  | O => acc
  | Datatypes.S f =>
    match work with
    | [] => acc
    | x :: w =>
      if memS acc x then explore_S f w acc
      else
        let '(c, l, a) := x in
        let nexts := flat_map (fun t => match dstep a t with
                                        | Some a' => match bc_step c t, bc_step l t with
                                                     | Some (c', _), Some (l', _) => [(c', l', a')]
                                                     | _, _ => [] end
                                        | None => [] end) alphabet in
        explore_S f (nexts ++ w) (x :: acc)
    end
  end.

Definition seeds_S (Hs : list hstate) : list triple :=
  flat_map (fun x => if Nat.eqb (snd x) fin then flat_map (fun t =>
    match dstep 0%nat t with
    | Some a' => match bc_step (fst x) t, bc_step base t with Some (q', _), Some (b', _) => [(q', b', a')] | _, _ => [] end
    | None => [] end) alphabet else []) Hs.
End BC.
