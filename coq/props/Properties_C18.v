(* C18  The shared token pool honours its init/drain/free protocol.
   Statements only; proofs are in proofs/PoolProofs.v. *)
From Coq Require Import Lia.
From MMD.lib Require Import Bytes.
From MMD.model Require Import PoolModel.
From MMD.proofs Require Import PoolProofs.
Local Open Scope N_scope.

(* Any well-bracketed history runs to completion (no NULL dereference, malloc'ed blocks only)
   and ends in a state satisfying the protocol invariant at the history's nesting depth. *)
Theorem pool_history_safe :
  forall ops, well_bracketed 0 ops = true ->
  exists st rs, prun pinit ops = Ok (st, rs) /\ PInv (depth_of 0 ops) st.
Proof. intros ops H. exact (run_inv_depth ops 0%nat pinit pinv_init H). Qed.
Print Assumptions pool_history_safe.

(* Tokens stay valid and distinct: after any well-bracketed prefix, an allocation returns an
   address inside a live (not freed) slab, at an object index below 1024, different from every
   address handed out since the last outermost drain. *)
Theorem pool_alloc_fresh :
  forall pre, well_bracketed 0 (pre ++ [PAlloc]) = true ->
  exists st1 rs st2 a,
    prun pinit pre = Ok (st1, rs) /\ pstep st1 PAlloc = Ok (st2, Some a) /\
    ~ In a (handed st1) /\ In (fst a) (live st2) /\ snd a < NOBJ /\ handed st2 = a :: handed st1.
Proof. intros pre H. exact (run_alloc_fresh pre 0%nat pinit pinv_init H). Qed.
Print Assumptions pool_alloc_fresh.

(* No slab is passed to free() while the use count is positive. *)
Theorem pool_no_early_free :
  forall d st o st' r, PInv d st -> op_allowed d o = true -> pstep st o = Ok (st', r) ->
  freed st' <> freed st -> count st' = 0%Z.
Proof. exact no_early_free. Qed.
Print Assumptions pool_no_early_free.

(* Memory is released at the outermost drain: whenever the nesting depth is back to zero,
   no slab is live, nothing is recorded as handed out, and the pool is absent or empty. *)
Theorem pool_outermost_drain_releases :
  forall ops, well_bracketed 0 ops = true -> depth_of 0 ops = 0%nat ->
  exists st rs, prun pinit ops = Ok (st, rs) /\ count st = 0%Z /\ live st = [] /\ handed st = [] /\
                (pool st = None \/ pool st = Some (mkpd [] None None)).
Proof.
  intros ops H Hd. destruct (pool_history_safe ops H) as (st & rs & Hr & Hinv).
  rewrite Hd in Hinv. destruct Hinv as [Hc (Hl & Hh & Hp)]. exists st, rs. auto.
Qed.
Print Assumptions pool_outermost_drain_releases.

(* A later init starts from a clean pool: from ANY two states at nesting depth zero that satisfy
   the invariant (the initial state, a drained pool, a freed pool after arbitrary earlier use)
   the same continuation hands out the same sequence of object indices. *)
Theorem pool_reinit_is_fresh :
  forall ops st1 st2, PInv 0 st1 -> PInv 0 st2 -> well_bracketed 0 ops = true ->
  exists s1 r1 s2 r2, prun st1 ops = Ok (s1, r1) /\ prun st2 ops = Ok (s2, r2) /\ idxs r1 = idxs r2.
Proof. intros ops st1 st2 H1 H2 Hw. apply (run_idx_indep ops 0%nat st1 st2 H1 H2); [intros C; contradiction|exact Hw]. Qed.
Print Assumptions pool_reinit_is_fresh.

(* ---- non-vacuity: the CLI's own history spans two slabs and is well bracketed *)
Example cli_history :
  let ops := [PInit; PInit] ++ repeat PAlloc 1030 ++ [PDrain; PDrain; PFree] in
  well_bracketed 0 ops = true /\ depth_of 0 ops = 0%nat /\
  exists st rs, prun pinit ops = Ok (st, rs) /\ freed st = [1; 0]%nat /\
                nth 1026 rs None = Some (1%nat, 0).
Proof. vm_compute. repeat split. eexists; eexists; repeat split. Qed.
