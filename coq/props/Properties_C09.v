(* C09  Package outputs are valid archives with the required members.
   Obligations over gen/Packages.v, regenerated from epub.c / opendocument.c / textbundle.c / itmz.c on
   every run: what each archive-building function puts into its archive, in which order and with which
   compression flag, and which paths its manifests name.  That the bytes miniz writes form a valid ZIP
   and that the main document equals the plain rendering is decided by checks/c09.py (testing). *)
From Coq Require Import List String Bool.
Import ListNotations.
From MMD.model Require Import PackagePolicy.
From MMD.gen Require Import Packages.
Local Open Scope string_scope.

Definition pk (f : string) : list pitem := match flat pkg_funs f with Some l => l | None => [] end.

(* every packager opens one archive, adds members and assets, and finalises it as its last step *)
Theorem packages_are_completed :
  forallb (fun f => brackets_ok (pk f) && no_duplicate_members (pk f))
          ["epub_create"; "opendocument_text_create"; "textbundle_create"; "itmz_create"] = true.
Proof. vm_compute. reflexivity. Qed.
Print Assumptions packages_are_completed.

(* EPUB: mimetype first with the EPUB media type; container.xml names OEBPS/main.opf; the package
   document lists nav.xhtml and main.xhtml, and both are members *)
Theorem epub_required_members :
  option_map fst (first_member (pk "epub_create")) = Some "mimetype" /\
  lists pkg_literals "epub_mimetype" "application/epub+zip" = true /\
  forallb (has_member (pk "epub_create")) ["META-INF/container.xml"; "OEBPS/main.opf"; "OEBPS/nav.xhtml"; "OEBPS/main.xhtml"] = true /\
  lists pkg_literals "epub_container_xml" "OEBPS/main.opf" = true /\
  forallb (lists pkg_literals "epub_package_document") ["nav.xhtml"; "main.xhtml"] = true.
Proof. vm_compute. auto. Qed.
Print Assumptions epub_required_members.

(* ODT: mimetype first and stored; content / styles / meta / settings and a manifest listing them *)
Theorem odt_required_members :
  first_member (pk "opendocument_text_create") = Some ("mimetype", true) /\
  lists pkg_literals "opendocument_core_zip" "application/vnd.oasis.opendocument.text" = true /\
  forallb (has_member (pk "opendocument_text_create")) ["content.xml"; "styles.xml"; "meta.xml"; "settings.xml"; "META-INF/manifest.xml"] = true /\
  forallb (lists pkg_literals "opendocument_manifest_file") ["content.xml"; "styles.xml"; "meta.xml"; "settings.xml"] = true.
Proof. vm_compute. auto. Qed.
Print Assumptions odt_required_members.

(* TextBundle: info.json and the text; ITMZ: mapdata.xml *)
Theorem textbundle_itmz_required_members :
  forallb (has_member (pk "textbundle_create")) ["info.json"; "text.markdown"] = true /\
  has_member (pk "itmz_create") "mapdata.xml" = true.
Proof. vm_compute. auto. Qed.
Print Assumptions textbundle_itmz_required_members.

(* assets are added to the same archive before it is finalised, wherever the format has assets *)
Theorem assets_inside_the_archive :
  forallb (fun f => existsb (fun it => match it with PAssets => true | _ => false end) (pk f))
          ["epub_create"; "opendocument_text_create"; "textbundle_create"] = true.
Proof. vm_compute. reflexivity. Qed.
Print Assumptions assets_inside_the_archive.
