From MMD.lib Require Import Bytes.
Theorem placeholder_c19 : True. Proof. exact I. Qed.
