(* C19  DString operations behave like the obvious string model.
   Theorem statements only; proofs are in proofs/DStringProofs.v. *)
From Coq Require Import Lia.
From MMD.lib Require Import Bytes BytesFacts.
From MMD.model Require Import DStringModel DStringSpec.
From MMD.proofs Require Import DStringProofs.
Local Open Scope N_scope.

(* One operation, from ANY state satisfying the invariant (not only reachable ones), with ANY
   size_t arguments: the C-level model returns normally (no out-of-bounds access, no exhausted
   loop fuel), re-establishes the invariant and computes exactly what the ideal string computes. *)
Theorem dstring_step_refines_ideal :
  forall fill s c j o, View s c j -> op_ok o = true -> fits c o ->
  exists s' j', step fill s o = Ok (s', snd (sp_step c o)) /\ View s' (fst (sp_step c o)) j'.
Proof. exact step_refines. Qed.
Print Assumptions dstring_step_refines_ideal.

(* Every finite history from d_string_new *)
Theorem dstring_history_refines_ideal :
  forall fill p ops, nonul p = true -> Nlen p + 1 <= BIG -> hist_ok p ops ->
  exists s0 j0 s' j',
    ds_new fill p = Ok s0 /\ View s0 p j0 /\
    run_model fill s0 ops = Ok (s', snd (run_spec p ops)) /\
    View s' (fst (run_spec p ops)) j'.
Proof.
  intros fill p ops Hp Hs Hh.
  destruct (new_ok fill p Hp Hs) as (s0 & j0 & Hn & Hv).
  destruct (run_refines fill ops s0 p j0 Hv Hh) as (s' & j' & Hr & Hv').
  exists s0, j0, s', j'. auto.
Qed.
Print Assumptions dstring_history_refines_ideal.

(* what the invariant says, in the words of the property: content = ideal string, recorded
   length = content length, NUL-terminated, capacity larger than the length *)
Theorem dstring_inv_meaning :
  forall s c j, View s c j ->
  content s = c /\ len s = Nlen c /\ nth_error (raw s) (N.to_nat (len s)) = Some 0 /\
  len s < cap s /\ cap s = Nlen (raw s) /\ nonul (content s) = true.
Proof.
  intros s c j Hv. pose proof (view_content s c j Hv) as Hc. pose proof Hv as (_ & Hl & Hn & Hcap & _).
  repeat split; try assumption.
  - exact (view_nul s c j Hv).
  - exact (view_len_lt_cap s c j Hv).
  - rewrite Hc; exact Hn.
Qed.
Print Assumptions dstring_inv_meaning.

(* no out-of-bounds access and no non-termination in any well-formed history (C01 share) *)
Theorem dstring_no_oob_no_hang :
  forall fill p ops e, nonul p = true -> Nlen p + 1 <= BIG -> hist_ok p ops ->
  ds_new fill p <> Err e /\
  forall s0, ds_new fill p = Ok s0 -> run_model fill s0 ops <> Err e.
Proof.
  intros fill p ops e Hp Hs Hh.
  destruct (dstring_history_refines_ideal fill p ops Hp Hs Hh) as (s0 & j0 & s' & j' & Hn & _ & Hr & _).
  split; [rewrite Hn; discriminate|].
  intros s1 H1. rewrite Hn in H1. injection H1 as <-. rewrite Hr. discriminate.
Qed.
Print Assumptions dstring_no_oob_no_hang.

(* ---- the hypotheses are satisfiable: a state at the growth boundary len = 1023, cap = 1024,
   and a history that crosses it and uses the sentinel / out-of-range arguments *)
Example boundary_state :
  exists s j, ds_new 190 (repeat 97 1023) = Ok s /\ View s (repeat 97 1023) j /\ len s = 1023 /\ cap s = 1024.
Proof.
  destruct (new_ok 190 (repeat 97 1023) eq_refl) as (s & j & Hn & Hv).
  - vm_compute. discriminate.
  - exists s, j. split; [exact Hn|]. split; [exact Hv|].
    vm_compute in Hn. injection Hn as <-. split; reflexivity.
Qed.

Example boundary_history :
  hist_ok (repeat 97 1023)
    [OAppendC 98; OErase 2 (SIZE_MAX - 1); OSubstr SIZE_MAX 1; OReplace 0 1 [97; 97] []; OInsert SIZE_MAX [99]].
Proof. cbn [hist_ok]. repeat split; vm_compute; try reflexivity; try discriminate. Qed.
