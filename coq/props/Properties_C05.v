(* C05  Output is a function of (source, options) only: no hidden history.
   gen/Globals.v: process-global writable data and libc imports reachable, in the relocation graph
   of the objects compiled from the current tree, from the 41 public entry points. *)
From Coq Require Import List String Bool.
Import ListNotations.
From MMD.gen Require Import Globals EngineFields.
From MMD.model Require Import GlobalsPolicy.
Open Scope string_scope.

(* every piece of writable process-global data a conversion can reach is the PRNG used for e-mail
   obfuscation (restarted per export), the token pool (C18) or the verification hook; a new static
   cache or counter anywhere in the library breaks this obligation *)
Theorem writable_globals_classified :
  subset reachable_writable_pool (rng_state ++ pool_state ++ hook_state) = true.
Proof. vm_compute. reflexivity. Qed.
Print Assumptions writable_globals_classified.

(* the only history- or environment-dependent libc functions reachable are the ones behind the
   documented random options, generated identifiers and package dates *)
Theorem nondeterministic_imports_enumerated :
  subset (filter (fun x => mem x nondeterministic_libc) reachable_imports_pool) allowed_nondeterministic = true.
Proof. vm_compute. reflexivity. Qed.
Print Assumptions nondeterministic_imports_enumerated.

(* a conversion that restarts the generator before using it yields the same output (and the same
   generator state afterwards) whatever the generator contained before *)
Theorem conversion_independent_of_generator_history :
  forall (G I O : Type) (reseed : G -> G), (forall g1 g2, reseed g1 = reseed g2) ->
  forall (body : G -> I -> O * G) g1 g2 i, conv G I O reseed body g1 i = conv G I O reseed body g2 i.
Proof. intros. apply conv_independent. assumption. Qed.
Print Assumptions conversion_independent_of_generator_history.

(* engine reuse: every field of struct mmd_engine is configuration, or is re-initialised before a
   re-parse (mmd_engine_reset / tokenizer), or is on the enumerated exception list; configuration
   fields are assigned only by the constructor, the language setter and the save/restore around
   a sub-parse *)
Theorem engine_reuse_is_fresh :
  forallb (fun f => mem f (config_fields ++ reset_fields ++ retokenize_fields ++ exception_fields)) engine_fields = true /\
  forallb (fun w => negb (mem (fst w) config_fields) || mem (snd w) config_writers) engine_field_writes = true.
Proof. vm_compute. split; reflexivity. Qed.
Print Assumptions engine_reuse_is_fresh.
