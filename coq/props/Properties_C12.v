(* C12  Accepting or rejecting CriticMarkup yields exactly the edited text.
   Model: model/CriticModel.v (tied to critic_markup.c / token_pairs.c by correspondence);
   specification: model/CriticSpec.v (edit scripts). *)
From MMD.lib Require Import Bytes.
From MMD.model Require Import CriticModel CriticSpec.
From MMD.proofs Require Import CriticProofs.
Local Open Scope N_scope.

(* For every well-formed edit script - additions, deletions, highlights nested to any depth,
   substitutions, comments, around text made of non-marker bytes and backslash escapes, with empty
   payloads and paragraph breaks allowed - accept returns the text with every change applied and
   reject the text with every change discarded, byte for byte. *)
Theorem critic_accept_correct :
  forall s, forallb wf s = true -> critic_accept (annotateL s) = acceptedL s.
Proof. exact accept_correct. Qed.
Print Assumptions critic_accept_correct.

Theorem critic_reject_correct :
  forall s, forallb wf s = true -> critic_reject (annotateL s) = rejectedL s.
Proof. exact reject_correct. Qed.
Print Assumptions critic_reject_correct.

(* both are idempotent, and after one of them the other changes nothing either *)
Theorem critic_idempotent :
  forall s, forallb wf s = true ->
  critic_accept (critic_accept (annotateL s)) = critic_accept (annotateL s) /\
  critic_reject (critic_reject (annotateL s)) = critic_reject (annotateL s) /\
  critic_reject (critic_accept (annotateL s)) = critic_accept (annotateL s) /\
  critic_accept (critic_reject (annotateL s)) = critic_reject (annotateL s).
Proof.
  intros s H. destruct (accept_idempotent s H) as [A1 A2]. destruct (reject_idempotent s H) as [R1 R2]. auto.
Qed.
Print Assumptions critic_idempotent.

(* for EVERY byte string: tokenizing and pairing neither lose nor invent a byte, and if no pair
   of markers is matched, accept and reject return the string unchanged (unmatched markers,
   including a lone divider, are left untouched) *)
Theorem critic_matcher_keeps_text :
  forall s, flat_map raw_tree (pair_items (tokenize s)) = s.
Proof.
  intros s. rewrite matcher_keeps_text. apply (tokenize_partition (length s)). apply Nat.le_refl.
Qed.
Print Assumptions critic_matcher_keeps_text.

Theorem critic_unmatched_untouched :
  forall s, forallb is_leaf (pair_items (tokenize s)) = true -> critic_accept s = s /\ critic_reject s = s.
Proof. exact unmatched_untouched. Qed.
Print Assumptions critic_unmatched_untouched.

(* the sub-range variants edit inside the range only *)
Theorem critic_range_frames_outside :
  forall s start len, exists mid, critic_accept_range s start len = firstn start s ++ mid ++ skipn (start + len)%nat s.
Proof. intros. eexists. reflexivity. Qed.
Print Assumptions critic_range_frames_outside.

(* non-vacuity: a nested script meets the hypothesis; "a ~> b" has no matched pair *)
Example nested_script :
  let s := [CText [Pl 97]; CAdd [CText [Pl 98]; CDel [CText [Es 123]]; CHi [CSub [Pl 99] [Pl 100]]]; CCom [Pl 101]] in
  forallb wf s = true /\ critic_accept (annotateL s) = [97; 98; 100] /\ critic_reject (annotateL s) = [97].
Proof. vm_compute. repeat split; reflexivity. Qed.
Example lone_divider : critic_accept [97; 32; 126; 62; 32; 98] = [97; 32; 126; 62; 32; 98].
Proof. vm_compute. reflexivity. Qed.
