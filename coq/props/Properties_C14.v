(* C14  Outline export is lossless and re-import reproduces the document.
   Theorem statements only; proofs are in proofs/OpmlProofs.v.  esc_opml / esc_itmz are the escaper
   tables regenerated from the compiled code on every run (tools/tr_escapers.py); xml_as_text is the
   hand model of print_xml_as_text (xml.c), export_tags / import_levels the hand models of the outline
   nesting in opml.c and of the depth counter in opml-reader.c - all three tied by checks/c14.py. *)
From Coq Require Import List Arith Bool Lia NArith.
Import ListNotations.
From MMD.lib Require Import Bytes.
From MMD.gen Require Import Escapers.
From MMD.model Require Import OpmlModel.
From MMD.proofs Require Import EscaperProofs OpmlProofs.

(* XML escaping on export and unescaping on import are exact inverses on all text *)
Theorem opml_unescape_inverts_escape : forall s, over bytes1 s -> xml_as_text (esc esc_opml s) = s.
Proof. exact (unesc_esc esc_opml bytes1 opml_codes_ok). Qed.
Print Assumptions opml_unescape_inverts_escape.

Theorem itmz_unescape_inverts_escape : forall s, over bytes1 s -> xml_as_text (esc esc_itmz s) = s.
Proof. exact (unesc_esc esc_itmz bytes1 itmz_codes_ok). Qed.
Print Assumptions itmz_unescape_inverts_escape.

(* headings that are properly nested come back with the level they had, and every item is closed *)
Theorem outline_levels_roundtrip : forall levels, properly_nested levels = true ->
  import_levels (export_tags levels []) 0 = levels /\ final_depth (export_tags levels []) 0 = 0.
Proof. exact levels_roundtrip. Qed.
Print Assumptions outline_levels_roundtrip.

(* the same with text before the first heading (the Preamble item, closed by the first heading) *)
Theorem outline_levels_roundtrip_preamble : forall levels, properly_nested levels = true ->
  forallb (fun l => Nat.leb l 100) levels = true ->
  import_levels (OOpen :: export_tags levels [100]) 0 = 1 :: levels /\ final_depth (OOpen :: export_tags levels [100]) 0 = 0.
Proof. exact levels_roundtrip_preamble. Qed.
Print Assumptions outline_levels_roundtrip_preamble.

(* the premise is needed: a skipped level comes back one level higher *)
Theorem outline_skipped_level_not_preserved :
  properly_nested [1; 3] = false /\ import_levels (export_tags [1; 3] []) 0 = [1; 2].
Proof. split; reflexivity. Qed.
Print Assumptions outline_skipped_level_not_preserved.

(* the notes are the slices of the source between the headings: together with the heading spans they
   are the whole text, so no body character is lost *)
Theorem outline_sections_lossless : forall (src : list N) cuts, increasing 0 cuts = true ->
  concat (slices src 0 cuts) = src.
Proof. intros src cuts H. exact (slices_concat src cuts 0 H). Qed.
Print Assumptions outline_sections_lossless.

Example levels_sample : properly_nested [1; 2; 3; 3; 2; 1; 2] = true /\
  export_tags [1; 2; 2; 1] [] = [OOpen; OOpen; OClose; OOpen; OClose; OClose; OOpen; OClose].
Proof. split; reflexivity. Qed.
Example unescape_sample :
  xml_as_text [38;97;109;112;59; 38;108;116;59; 65; 38;35;49;48;59; 38; 66; 38;35;49;51;59]%N = [38; 60; 65; 10; 38; 66; 13]%N.
Proof. reflexivity. Qed.
