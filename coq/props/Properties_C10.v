(* C10  Generated anchors and the references to them always match.
   Theorem statements only; proofs are in proofs/AnchorProofs.v and proofs/HeaderIdProofs.v.
   The note bookkeeping model (model/AnchorModel.v) is tied to html.c / writer.c by the correspondence
   check of checks/c10.py, which compares the anchor sequence of the real HTML with [export]. *)
From Coq Require Import List Arith Bool Lia NArith.
Import ListNotations.
From MMD.model Require Import AnchorModel LabelModel HeaderIdModel.
From MMD.proofs Require Import AnchorProofs HeaderIdProofs.

(* the export of every well-formed document terminates: a definition enters a list at most once *)
Theorem anchors_export_terminates : forall D, wf_doc D = true -> exists s tr, export D = Some (s, tr).
Proof. exact export_total. Qed.
Print Assumptions anchors_export_terminates.

(* the entries of each list are numbered 1..m without gap or repetition *)
Theorem anchors_entries_numbered : forall D s tr, export D = Some (s, tr) ->
  forall k, exists m, entries k tr = seq 1 m /\ m <= length (used s k).
Proof.
  intros D s tr H k. destruct (export_entries D s tr H) as (s1 & s2 & G1 & G2 & EF & EG & EC & _).
  destruct k.
  - exists (length (used s1 Fn)). split; [exact EF|]. pose proof (grows_len _ _ Fn G1). pose proof (grows_len _ _ Fn G2). lia.
  - exists (length (used s2 Gl)). split; [exact EG|]. apply (grows_len _ _ Gl G2).
  - exists (length (used s Cn)). split; [exact EC|]. lia.
Qed.
Print Assumptions anchors_entries_numbered.

(* every call links to an entry that exists, as long as no note is first used inside an entry of a list
   that has already been written (footnotes, glossary, citations are written in this order) *)
Theorem anchors_calls_resolve : forall D s tr, forward_only D = true -> export D = Some (s, tr) ->
  forall k n b, In (ECall k n b) tr -> In (EEntry k n) tr.
Proof. exact calls_resolve. Qed.
Print Assumptions anchors_calls_resolve.

(* without that restriction the statement is false of the code as it is: a footnote first used inside a
   citation entry is called but never listed (recorded as a known finding) *)
Definition late_note : adoc := mkdoc [Call Cn 0] [[]] [] [[Call Fn 0]].
Theorem anchors_calls_resolve_refuted :
  wf_doc late_note = true /\
  exists s tr, export late_note = Some (s, tr) /\ In (ECall Fn 1 true) tr /\ ~ In (EEntry Fn 1) tr.
Proof.
  split; [reflexivity|]. eexists. eexists. split; [vm_compute; reflexivity|]. split.
  - cbn. tauto.
  - cbn. intros H. repeat (destruct H as [H|H]; [discriminate|]). exact H.
Qed.
Print Assumptions anchors_calls_resolve_refuted.

(* numbering follows the order of first use: the calls that carry the back-link id are numbered
   1, 2, 3 ... in output order, their ids are pairwise different, there is one for every entry, and
   every later call of the same note comes after it *)
Theorem anchors_first_use_order : forall D s tr, nocite_free D = true -> export D = Some (s, tr) ->
  forall k,
    firsts k tr = seq 1 (length (used s k)) /\
    NoDup (firsts k tr) /\
    (forall n, In (EEntry k n) tr -> In (ECall k n true) tr) /\
    (forall a b n, tr = a ++ ECall k n false :: b -> In (ECall k n true) a).
Proof.
  intros D s tr Hn H k. destruct (export_wf D s tr Hn H) as [W L].
  pose proof (wf_firsts tr _ k W) as F. cbn beta in F. rewrite <- L in F.
  split; [exact F|]. split; [rewrite F; apply seq_NoDup|]. split.
  - intros n Hin. apply in_firsts. rewrite F. apply in_seq.
    destruct (anchors_entries_numbered D s tr H k) as (m & Em & Hm).
    apply in_entries in Hin. rewrite Em in Hin. apply in_seq in Hin. lia.
  - intros a b n E. eapply reuse_after_first; eassumption.
Qed.
Print Assumptions anchors_first_use_order.

(* the model's hypotheses are met by an ordinary document: two footnotes, one re-used, one first used
   inside the other, a glossary term and a citation called from a footnote *)
Definition sample : adoc :=
  mkdoc [Call Fn 1; Call Gl 0; Call Fn 1; Call Cn 1] [[Call Cn 0]; [Call Fn 0; Call Gl 0]] [[Call Cn 0]] [[]; []].
Example sample_ok : wf_doc sample = true /\ forward_only sample = true /\ nocite_free sample = true /\
  option_map snd (export sample) =
  Some [ECall Fn 1 true; ECall Gl 1 true; ECall Fn 1 false; ECall Cn 1 true;
        EEntry Fn 1; ECall Fn 2 true; ECall Gl 1 false; EBack Fn 1;
        EEntry Fn 2; ECall Cn 2 true; EBack Fn 2;
        EEntry Gl 1; ECall Cn 2 false; EBack Gl 1;
        EEntry Cn 1; EBack Cn 1; EEntry Cn 2; EBack Cn 2].
Proof. vm_compute. auto. Qed.

(* headings: the id placed on the heading, the label its automatic link is stored under and the label a
   reference "[title][]" is looked up under are one and the same string for every heading style (ATX with
   any number of opening and closing #, Setext with any underline length); stated for ASCII titles, where
   the label is the title's letters, digits and . _ - : in lower case *)
Local Open Scope N_scope.
Theorem heading_id_matches_reference : forall st title, Forall (fun b => b < 128) title ->
  header_id st title = reference_label title /\ autolink_label st title = reference_label title /\
  reference_label title = map lower (filter label_allowed title).
Proof. exact header_id_is_reference. Qed.
Print Assumptions heading_id_matches_reference.

(* the same for titles in any encoding: whenever the title does not begin with a UTF-8 continuation byte -
   in particular for every valid UTF-8 title - the id, the automatic link label and the reference label agree *)
Theorem heading_id_matches_reference_any_title : forall st title,
  match title with [] => True | x :: _ => is_cont x = false end ->
  header_id st title = reference_label title /\ autolink_label st title = reference_label title.
Proof. exact header_id_is_reference_utf8. Qed.
Print Assumptions heading_id_matches_reference_any_title.

Theorem heading_manual_label : forall lab, Forall (fun b => b < 128) lab ->
  manual_id lab = map lower (filter label_allowed lab).
Proof. exact manual_id_spec. Qed.
Print Assumptions heading_manual_label.

(* the label has to be computed from the span without the underline: with it a level 2 Setext heading
   could never be referred to *)
Theorem heading_setext2_needs_trim : forall title n, Forall (fun b => b < 128) title -> (0 < n)%nat ->
  label_from_string (header_span (Setext2 n) title) <> reference_label title.
Proof. exact setext2_underline_matters. Qed.
Print Assumptions heading_setext2_needs_trim.
