(* C04  All output formats carry the same text, escaped for the target: the escapers.
   gen/Escapers.v is the complete behaviour of each single-byte escaper of /repo (all 256 inputs,
   obtained by calling the freshly compiled function on every run); each string printer applies it
   byte by byte (checked by correspondence in checks/c04.py). *)
From MMD.lib Require Import Bytes PrefixCode.
From MMD.gen Require Import Escapers.
From MMD.proofs Require Import EscaperProofs.
Local Open Scope N_scope.

(* verbatim text reproduces exactly after undoing the escaping (hence escaping is injective):
   HTML, LaTeX, OpenDocument, OPML, ITMZ escapers, for every string of non-NUL bytes *)
Definition roundtrip_tables := [esc_html; esc_latex; esc_odf; esc_opml; esc_itmz].
Theorem esc_roundtrip :
  forall t, In t roundtrip_tables -> forall s, over bytes1 s ->
  decode (tab_enc t) bytes1 (S (length (esc t s))) (esc t s) = Some s.
Proof.
  intros t Ht. apply table_roundtrip.
  repeat (destruct Ht as [<-|Ht]; [vm_compute; reflexivity|]). destruct Ht.
Qed.
Print Assumptions esc_roundtrip.

(* a character reserved in HTML/XML appears in escaped output only as one of the listed forms *)
Definition xml_reserved := [38; 60; 62; 34].                       (* ampersand, less-than, greater-than, double quote *)
Definition xml_forms := [[38;97;109;112;59]; [38;108;116;59]; [38;103;116;59]; [38;113;117;111;116;59]].
Theorem esc_html_reserved_only_escaped :
  forall c, In c bytes1 -> In (tab_enc esc_html c) xml_forms \/ (tab_enc esc_html c = [c] /\ ~ In c xml_reserved).
Proof. apply table_reserved. vm_compute. reflexivity. Qed.
Print Assumptions esc_html_reserved_only_escaped.

(* OpenDocument: same, plus TAB which is rendered as the <text:tab/> element followed by a TAB *)
Theorem esc_odf_reserved_only_escaped :
  forall c, In c bytes1 ->
  In (tab_enc esc_odf c) ([60;116;101;120;116;58;116;97;98;47;62;9] :: xml_forms) \/
  (tab_enc esc_odf c = [c] /\ ~ In c xml_reserved).
Proof. apply table_reserved. vm_compute. reflexivity. Qed.
Print Assumptions esc_odf_reserved_only_escaped.

(* LaTeX: \ { } $ % & # _ ^ ~ appear only inside these forms *)
Definition latex_reserved := [92; 123; 125; 36; 37; 38; 35; 95; 94; 126].
Definition latex_forms : list (list N) :=
  [ [92;116;101;120;116;98;97;99;107;115;108;97;115;104;123;125];   (* \textbackslash{} *)
    [92;123]; [92;125]; [92;36]; [92;37]; [92;38]; [92;35]; [92;95]; (* \{ \} \$ \% \& \# \_ *)
    [92;94;123;125];                                                 (* \^{} *)
    [92;101;110;115;117;114;101;109;97;116;104;123;92;115;105;109;125]; (* \ensuremath{\sim} *)
    [92;115;108;97;115;104;123;125];                                 (* \slash{}  for / *)
    [92;116;101;120;116;98;97;114;123;125];                          (* \textbar{} for | *)
    [36;60;36]; [36;62;36];                                          (* $<$ $>$ *)
    [92;92;10]; [92;92;13] ].                                        (* \\ + line ending *)
Theorem esc_latex_reserved_only_escaped :
  forall c, In c bytes1 -> In (tab_enc esc_latex c) latex_forms \/ (tab_enc esc_latex c = [c] /\ ~ In c latex_reserved).
Proof. apply table_reserved. vm_compute. reflexivity. Qed.
Print Assumptions esc_latex_reserved_only_escaped.

(* non-vacuity / reading aid *)
Example esc_html_sample : esc esc_html [60; 97; 38; 98; 62; 34] =
  [38;108;116;59; 97; 38;97;109;112;59; 98; 38;103;116;59; 38;113;117;111;116;59].
Proof. vm_compute. reflexivity. Qed.
