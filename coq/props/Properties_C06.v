(* C06  Every documented entry point produces the same result: the C-string and DString wrappers.
   gen/ApiWrappers.v is regenerated from /repo/src/mmd.c on every run. *)
From Coq Require Import List Arith NArith Bool.
Import ListNotations.
From MMD.model Require Import ApiSem.
From MMD.gen Require Import ApiWrappers.

Definition wrapper_of (f : family) (op : nat) : option wrapper :=
  find (fun w => (match w_fam w, f with FString, FString | FDString, FDString => true | _, _ => false end) && (w_op w =? op)%nat) wrappers.

Definition pair_ok (op : nat) : bool :=
  match wrapper_of FString op, wrapper_of FDString op with
  | Some a, Some b => well_shaped a && well_shaped b && same_call a b
  | _, _ => false
  end.

(* For every one of the ten operations and for EVERY interpretation of the engine primitives, the
   C-string variant and the DString variant denote the same call of the engine function of the
   same name on an engine over the same text with the same extensions, language and arguments -
   and each of them does make that call (so none returns without producing its result). *)
Theorem convert_variants_agree :
  forall op, In op (seq 0 10) ->
  exists a b, wrapper_of FString op = Some a /\ wrapper_of FDString op = Some b /\
  forall (Src Ext Lang Arg Engine Res : Type) create ext0 set_language engine_op s e l args,
    denote Src Ext Lang Arg Engine Res create ext0 set_language engine_op a s e l args =
    denote Src Ext Lang Arg Engine Res create ext0 set_language engine_op b s e l args /\
    denote Src Ext Lang Arg Engine Res create ext0 set_language engine_op a s e l args <> None.
Proof.
  assert (H : forallb pair_ok (seq 0 10) = true) by (vm_compute; reflexivity).
  rewrite forallb_forall in H. intros op Hop. specialize (H op Hop). unfold pair_ok in H.
  destruct (wrapper_of FString op) as [a|]; [|discriminate].
  destruct (wrapper_of FDString op) as [b|]; [|discriminate].
  apply andb_true_iff in H as [H H3]. apply andb_true_iff in H as [H1 H2].
  exists a, b. split; [reflexivity|]. split; [reflexivity|]. intros. apply same_call_denote; assumption.
Qed.
Print Assumptions convert_variants_agree.

(* ownership: the C-string variants free their private copy of the source (except the update
   function, which hands the updated buffer back to the caller); the DString variants never free
   the caller's DString *)
Theorem wrappers_free_what_they_own :
  forallb (fun w => match w_fam w, w_free w with
                    | FString, Some b => Bool.eqb b (negb (w_op w =? 4)%nat)
                    | FDString, Some b => negb b
                    | _, None => false
                    end) wrappers = true.
Proof. vm_compute. reflexivity. Qed.
Print Assumptions wrappers_free_what_they_own.
