(* C20  Document wrapper and metadata never change the body rendering.
   Theorem statements only; proofs in proofs/MetaSwitchProofs.v over lib/MiniC.v.
   meta_chain / meta_default / meta_pre / meta_post / export_cases / switch_readers are regenerated from
   /repo/src/writer.c (and all of src/*.c for switch_readers) by tools/tr_metakeys.py on every run, so the
   theorems are re-checked against what process_metadata_stack and mmd_engine_export_token_tree say now. *)
From Coq Require Import List String ZArith NArith Bool Lia.
Import ListNotations.
From MMD.lib Require Import MiniC.
From MMD.gen Require Import MetaKeys.
From MMD.model Require Import MetaSwitchModel.
From MMD.proofs Require Import MetaSwitchProofs.
Local Open Scope string_scope.

Definition str (s : string) : list N := map (fun a => N.of_nat (Ascii.nat_of_ascii a)) (list_ascii_of_string s).

(* the documented rendering-control keys; every other key - bibtex included - asks for a complete document *)
Definition control_keys : list (list N) :=
  map str ["baseheaderlevel"; "epubheaderlevel"; "htmlheaderlevel"; "xhtmlheaderlevel"; "latexheaderlevel"; "odfheaderlevel";
           "language"; "latexmode"; "quoteslanguage"].

Theorem control_keys_are_exactly_the_documented_ones :
  map fst (filter (fun p => is_control (fst p)) meta_chain) = control_keys /\
  map fst (filter (fun p => negb (is_control (fst p))) meta_chain) = [str "bibtex"] /\
  flag_effect EXTV F_COMPLETE F_SNIPPET meta_default = Some true.
Proof. vm_compute. auto. Qed.
Print Assumptions control_keys_are_exactly_the_documented_ones.

(* the complete-vs-snippet decision, for every metadata block (any keys, values, order, repetitions) and
   any initial extension bits: after the loop EXT_COMPLETE is set iff it was forced, or EXT_SNIPPET was
   not forced and some key is not a rendering-control key; no other bit changes *)
Theorem complete_decision : forall atoi_f label_f ms st f,
  has_flag (loop atoi_f label_f ms st EXTV) f =
  has_flag (st EXTV) f ||
  (existsb (fun m => negb (is_control (fst m))) ms && negb (has_flag (st EXTV) F_SNIPPET) && String.eqb f F_COMPLETE).
Proof. intros. apply loop_flags. Qed.
Print Assumptions complete_decision.

(* metadata reaches the scratch pad only through the listed settings: every other variable is untouched
   by any key with any value ... *)
Theorem metadata_reaches_only_listed_settings : forall atoi_f label_f st m x,
  ~ In x settings_vars -> step atoi_f label_f st m x = st x.
Proof. exact step_frame. Qed.
Print Assumptions metadata_reaches_only_listed_settings.

(* ... and a key outside the documented list touches nothing but the complete-document request *)
Theorem undocumented_key_only_requests_complete : forall atoi_f label_f st key v x,
  forallb (fun p => negb (bytes_eqb key (fst p))) meta_chain = true -> x <> EXTV ->
  step atoi_f label_f st (key, v) x = st x.
Proof. exact step_other_key. Qed.
Print Assumptions undocumented_key_only_requests_complete.

(* forcing a complete document or a snippet cannot change any setting the body is rendered with: two
   runs that differ only in the extension bits end with the same language, quotes language, header
   level, output format and bibtex file *)
Theorem wrapper_switch_never_reaches_settings : forall atoi_f label_f ms a b,
  (forall x, ~ In x [EXTV] -> a x = b x) ->
  forall x, ~ In x [EXTV] ->
  exec [] atoi_f label_f meta_post (loop atoi_f label_f ms (exec [] atoi_f label_f meta_pre a)) x =
  exec [] atoi_f label_f meta_post (loop atoi_f label_f ms (exec [] atoi_f label_f meta_pre b)) x.
Proof. intros atoi_f label_f ms a b L. exact (body_ni atoi_f label_f ms a b L). Qed.
Print Assumptions wrapper_switch_never_reaches_settings.

(* the wrapper is emitted strictly before and after the body: in each textual format the only calls
   guarded by EXT_COMPLETE are the first "mmd_start_complete_..." and the last "mmd_end_complete_...", and no
   other function of the library looks at the two switches *)
Theorem wrapper_brackets_the_body :
  forallb (fun fmt => match case_for fmt with Some items => wrapper_ok (calls_only items) | None => false end)
          ["FORMAT_HTML"; "FORMAT_LATEX"; "FORMAT_BEAMER"; "FORMAT_MEMOIR"] = true /\
  switch_readers = ["mmd_engine_export_token_tree"; "process_metadata_stack"].
Proof. vm_compute. auto. Qed.
Print Assumptions wrapper_brackets_the_body.

(* non-vacuity: a block with a control key and another key, on a state without forced switches *)
Example decision_sample :
  let st0 : state := fun v => if String.eqb v EXTV then VFlags ["EXT_SMART"] else VUnset in
  let ms := [(str "language", str "de"); (str "author", str "x")] in
  has_flag (loop (fun _ => 0%Z) (fun v => v) ms st0 EXTV) F_COMPLETE = true /\
  has_flag (loop (fun _ => 0%Z) (fun v => v) [(str "language", str "de")] st0 EXTV) F_COMPLETE = false /\
  loop (fun _ => 0%Z) (fun v => v) ms st0 "scratch->quotes_lang" = VC "GERMAN".
Proof. vm_compute. auto. Qed.
