(* C02 (a)  The block grammar accepts every sequence of line kinds; nothing is dropped.
   The tables (gen/ParserTables.v) are regenerated from /repo/src/parser.c and the set of
   assignable line kinds from /repo/src/mmd.c on every run; lib/Lemon.v is the driver. *)
From Coq Require Import Lia.
From MMD.lib Require Import Bytes Lemon FiniteInv.
From MMD.gen Require Import ParserTables.
From MMD.proofs Require Import LemonProofs.
Local Open Scope Z_scope.

(* the parser stacks reachable over the assignable line kinds, computed by a worklist run *)
Definition R_opt : option (list pstack) := Eval vm_compute in reachable parser_tables line_kinds.
Definition R : list pstack := match R_opt with Some l => l | None => [] end.
Definition max_height : nat := Eval vm_compute in fold_left Nat.max (map (@length Z) R) O.

(* The reflection step: R contains the initial stack, is closed under every assignable line
   kind, every (stack, kind) step is good (exactly one shift; no syntax error, parse failure,
   overflow, table overrun, exhausted fuel), every non-initial stack accepts end of input, and
   stacks are far below YYSTACKDEPTH. *)
Theorem parser_reachable_finite :
  parser_closed parser_tables R line_kinds = true /\
  seen_mem (seen_of_list R) base = true /\
  ends_accepted parser_tables R = true /\
  forallb (fun s => (length s <=? max_height)%nat) R = true /\
  (Z.of_nat max_height <? YYSTACKDEPTH parser_tables) = true.
Proof. vm_compute. repeat split; reflexivity. Qed.
Print Assumptions parser_reachable_finite.

(* For EVERY non-empty sequence of assignable line kinds the driver, run as
   mmd_parse_token_chain runs it (tokens, then end of input), returns normally with the empty
   stack; its event trace contains no syntax error, no parse failure, no stack overflow; exactly
   one shift per input token (nothing dropped, nothing duplicated); and an Accept. *)
Theorem parser_never_errors :
  forall w, w <> [] -> Forall (fun a => In a line_kinds) w ->
  exists ev, parse_document parser_tables w = Ok (base, ev) /\
             existsb is_bad ev = false /\
             length (filter is_shift ev) = length w /\
             existsb is_accept ev = true.
Proof.
  destruct parser_reachable_finite as (Hc & Hb & He & _).
  exact (never_errors_from_checks parser_tables R line_kinds Hc Hb He).
Qed.
Print Assumptions parser_never_errors.

(* the parser stack never grows beyond [max_height] entries (so YYSTACKDEPTH = 100 is never reached) *)
Theorem parser_stack_bounded :
  forall w, Forall (fun a => In a line_kinds) w ->
  (length (fold_left (next_stack parser_tables) w base) <= max_height)%nat /\
  (Z.of_nat max_height < YYSTACKDEPTH parser_tables).
Proof.
  destruct parser_reachable_finite as (Hc & Hb & _ & Hh & Hd).
  intros w Hw. split; [exact (height_bounded parser_tables R line_kinds max_height Hc Hb Hh w Hw)|].
  apply Z.ltb_lt, Hd.
Qed.
Print Assumptions parser_stack_bounded.

(* non-vacuity: a 12-line document mixing list, table separator, fence, setext, quote lines *)
Example mixed_document :
  let w := [20; 6; 10; 34; 6; 31; 38; 2; 19; 7; 28; 13] in
  forallb (fun a => existsb (Z.eqb a) line_kinds) w = true /\
  exists ev, parse_document parser_tables w = Ok (base, ev) /\ length (filter is_shift ev) = 12%nat.
Proof. split; [vm_compute; reflexivity|]. vm_compute. eexists; split; reflexivity. Qed.

(* ---- C02 (b), partial: a SYNTACTIC may-analysis regenerated from the sources on every run.
   Every token type that non-writer code can put into a tree (gen/WriterCases.v: [produced]) has
   a case label in the token switch of every writer whose default branch is an escape
   ("Unknown token type"; html also ends the process) or is on the justified allow-list of types
   that are rewritten before export.  This is not a semantic theorem about which token reaches
   which switch in which context; the runs of checks/c02.py (T-chk) cover that. *)
From MMD.gen Require Import WriterCases.
Definition covers (w : nat) : bool :=
  forallb (fun t => existsb (N.eqb t) (effective w)) produced.
Theorem writers_cover_produced_partial :
  forallb covers (seq 0 n_writers) = true.
Proof. vm_compute. reflexivity. Qed.
Print Assumptions writers_cover_produced_partial.


(* (c), partial, syntactic like (b): strip_line_tokens_from_block still dissolves every line kind that no writer can
   print (a removed case label sends that kind to the default branch, which keeps the LINE_* token in the tree), every
   kind a grammar action retypes a line to is among them, and every kind the line classifier assigns is either dissolved
   or kept by design. *)
From MMD.model Require Import StripPolicy.
Theorem line_kinds_are_dissolved_partial :
  subset_s must_be_dissolved strip_dissolved = true /\
  subset_s grammar_retyped strip_dissolved = true /\
  subset_s classifier_assigned (strip_dissolved ++ kept_by_design) = true.
Proof. vm_compute. repeat split; reflexivity. Qed.
Print Assumptions line_kinds_are_dissolved_partial.
