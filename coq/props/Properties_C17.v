(* C17  Independent conversions may run concurrently when the pool is disabled. *)
From Coq Require Import List String Bool Arith.
Import ListNotations.
From MMD.lib Require Import Interleave.
From MMD.gen Require Import Globals.
From MMD.model Require Import GlobalsPolicy.
Open Scope string_scope.

(* Schedule independence: if every step of a thread reads and writes only that thread's own
   component, then under EVERY interleaving each thread ends in the state it reaches when run
   alone for the same number of steps. *)
Theorem interleave_serial_equiv :
  forall (L : Type) (step : L -> L) (sched : list nat) (s : list L) (i : nat),
  nth_error (run L step sched s) i = option_map (iter L step (count_occ Nat.eq_dec sched i)) (nth_error s i).
Proof. exact Interleave.interleave_serial_equiv. Qed.
Print Assumptions interleave_serial_equiv.

(* The premise, for the build without the token pool: the writable process-global data reachable
   from the public entry points (relocation graph of the objects compiled from the current tree
   with -DDISABLE_OBJECT_POOL), apart from the verification hook.  The statement "it is empty" is
   REFUTED by the current tree: Knuth's generator (rng.c) is shared by all threads. *)
Theorem nopool_shared_footprint_refuted :
  minus reachable_writable_nopool hook_state <> [].
Proof. vm_compute. discriminate. Qed.
Print Assumptions nopool_shared_footprint_refuted.

(* What is proved instead: nothing else is shared - every reachable writable global is one of the
   five generator variables (known finding) or the hook; a new static buffer, cache or counter
   anywhere in the library breaks this obligation. *)
Theorem nopool_shared_footprint_except_known :
  minus reachable_writable_nopool (rng_state ++ hook_state) = [].
Proof. vm_compute. reflexivity. Qed.
Print Assumptions nopool_shared_footprint_except_known.

(* libc functions that are not thread-safe and reachable from the entry points: exactly the ones
   behind random anchors / generated identifiers (rand, srand) and package dates (localtime) *)
Theorem nopool_unsafe_libc_enumerated :
  subset (filter (fun x => mem x not_mt_safe_libc) reachable_imports_nopool) ["rand"; "srand"; "localtime"] = true.
Proof. vm_compute. reflexivity. Qed.
Print Assumptions nopool_unsafe_libc_enumerated.

Example three_threads :
  run nat S [0; 2; 1; 2; 2; 0]%nat [10; 20; 30]%nat = [12; 21; 33]%nat.
Proof. reflexivity. Qed.
