(* C08  XML-based outputs are well-formed for every input: the escapers.  Document text printed
   through these escapers can never break out of the element or attribute it is placed in. *)
From MMD.lib Require Import Bytes XmlDfa.
From MMD.gen Require Import Escapers.
From MMD.proofs Require Import EscaperProofs.
Local Open Scope N_scope.

(* as element content: no raw '<' (other than a complete empty-element tag the escaper itself
   emits: <br/>, <text:tab/>, <text:line-break/>), every '&' starts a predefined or numeric
   character reference - for EVERY string of non-NUL bytes *)
Definition text_tables := [esc_html; esc_html_br; esc_odf; esc_odf_br; esc_opml; esc_itmz].
Theorem esc_xml_text_safe :
  forall t, In t text_tables -> forall s, over bytes1 s -> xml_safe false (esc t s) = true.
Proof.
  intros t Ht. apply table_xml_safe.
  repeat (destruct Ht as [<-|Ht]; [vm_compute; reflexivity|]). destruct Ht.
Qed.
Print Assumptions esc_xml_text_safe.

(* inside a double-quoted attribute value: additionally no raw double quote and no tag.
   HTML, OPML and ITMZ escapers: every non-NUL byte string; OpenDocument escaper: every string
   without C0 control characters (it turns TAB into an element, which is not allowed there) *)
Theorem esc_xml_attr_safe :
  forall t, In t [esc_html; esc_opml; esc_itmz] -> forall s, over bytes1 s -> xml_safe true (esc t s) = true.
Proof.
  intros t Ht. apply table_xml_safe.
  repeat (destruct Ht as [<-|Ht]; [vm_compute; reflexivity|]). destruct Ht.
Qed.
Print Assumptions esc_xml_attr_safe.

Theorem esc_odf_attr_safe_control_free :
  forall s, over bytes32 s -> xml_safe true (esc esc_odf s) = true.
Proof. apply table_xml_safe. vm_compute. reflexivity. Qed.
Print Assumptions esc_odf_attr_safe_control_free.

(* the restriction is necessary: a TAB breaks attribute safety of the OpenDocument escaper *)
Theorem esc_odf_attr_tab_refuted : xml_safe true (esc esc_odf [9]) = false.
Proof. vm_compute. reflexivity. Qed.
Print Assumptions esc_odf_attr_tab_refuted.

Example attr_sample : xml_safe true (esc esc_opml [34; 60; 38; 39; 10]) = true /\ xml_safe true [34] = false.
Proof. vm_compute. split; reflexivity. Qed.
