(* C11  Metadata is reported, extracted and updated faithfully (first layer).
   Model: model/MetaModel.v + model/LabelModel.v, tied to mmd.c / writer.c / scanners.c by correspondence. *)
From MMD.lib Require Import Bytes Utf8.
From MMD.gen Require Import CharTable.
From MMD.model Require Import LabelModel MetaModel.
From MMD.proofs Require Import MetaProofs LabelProofs EscaperProofs MetaRoundTrip MetaUpdate MetaMultiLine MetaUpdateMulti.
Local Open Scope N_scope.

(* a key - a letter or digit followed by letters, digits, blanks, '_', '-', '.' - directly followed by
   a colon is recognised with exactly its own length (trailing blanks included), so the value
   starts right after the colon: no character of the value is lost to the key or added from it *)
Theorem meta_key_recognised_exactly :
  forall k v, wf_key k = true -> meta_key_len (k ++ 58 :: v) = Some (length k).
Proof. exact meta_key_len_exact. Qed.
Print Assumptions meta_key_recognised_exactly.

(* the normalised key and value of every entry are valid UTF-8 when the source is (no multi-byte
   character is split by the normalisation) *)
Theorem meta_normalisation_preserves_utf8 :
  forall raw, over bytes1 raw -> valid_utf8 raw = true ->
  valid_utf8 (label_from_string raw) = true /\ valid_utf8 (clean_string is_whitespace_or_line_ending false false raw) = true.
Proof.
  intros raw Ho Hv. split; [apply label_utf8; assumption|].
  apply clean_utf8; try assumption. intros b Hb.
  assert (H : forallb (fun b => b <? 128) is_whitespace_or_line_ending = true) by (vm_compute; reflexivity).
  rewrite forallb_forall in H. apply N.ltb_lt, H, Hb.
Qed.
Print Assumptions meta_normalisation_preserves_utf8.

(* the multi-key round trip: a block written as one "key:value" line per entry - any number of entries, keys
   with blanks, values with any bytes except line endings, the first value not blank - followed by the end of
   the text or by an empty line and ANY body, is read back as exactly those entries, in their order, each
   at its offset, with its normalised key and the cleaned text of the rest of its line; the block ends
   exactly where the last entry line ends (so no byte of the body is taken for metadata and none of the
   block is left to the body) *)
Theorem meta_block_roundtrip :
  forall ws e1 r tail,
  forallb wf_entry (e1 :: r) = true -> forallb is_ws (snd e1) = false -> tail_ok tail ->
  meta_parse ws (block_text (e1 :: r) ++ tail) = Some (result ws (e1 :: r), length (block_text (e1 :: r))).
Proof. exact meta_roundtrip. Qed.
Print Assumptions meta_block_roundtrip.

(* the same with values that continue on following lines: per entry one "key:value" line and any number of continuation
   lines - lines that are not blank and do not themselves start a key, indented or not - then the end of the text or an
   empty line and ANY body.  Every entry is read back at its offset with its normalised key and the cleaned text of its
   first line joined with its continuation lines (leading blanks of an indented continuation line dropped); the block
   ends exactly after the last line of the last entry. *)
Theorem meta_block_roundtrip_multiline :
  forall ws e1 r tail,
  forallb wf_mentry (e1 :: r) = true -> forallb is_ws (mval e1) = false -> tail_ok tail ->
  meta_parse ws (mtext (e1 :: r) ++ tail) = Some (mresult ws (e1 :: r), length (mtext (e1 :: r))).
Proof. exact meta_roundtrip_multiline. Qed.
Print Assumptions meta_block_roundtrip_multiline.

(* non-vacuity: "A b :<tab>v1" continued by "    more", then "K2:x" *)
Example multiline_entries_are_well_formed :
  let e1 : mentry := ([65;32;98;32], [9;118;49], [[32;32;32;32;109;111;114;101]]) in
  let e2 : mentry := ([75;50], [120], []) in
  forallb wf_mentry [e1; e2] = true /\ forallb is_ws (mval e1) = false /\
  mtext [e1; e2] = [65;32;98;32;58;9;118;49;10;32;32;32;32;109;111;114;101;10;75;50;58;120;10].
Proof. vm_compute. repeat split; reflexivity. Qed.

(* updating: on such a block, mmd_engine_update_metavalue_for_key (model: MetaModel.meta_update, tied to the compiled
   function on every update of the correspondence run) called with a key that the entry (ki, vi) is the first to carry -
   in any spelling with the same normalised form - rewrites exactly that entry's value, keeping the blanks after its
   colon: every other line of the block, and everything after the block, is the same text as before.  A key may occur
   again later in the block; the entry rewritten is the one a query returns. *)
Theorem update_rewrites_exactly_one_value :
  forall ws es1 ki vi es2 tail key value,
  let es := es1 ++ (ki, vi) :: es2 in
  forallb wf_entry es = true ->
  (match es with e1 :: _ => forallb is_ws (snd e1) = false | [] => True end) ->
  tail_ok tail ->
  (forall e, In e es1 -> bytes_eqb_l (label_from_string key) (label_from_string (fst e)) = false) ->
  bytes_eqb_l (label_from_string key) (label_from_string ki) = true ->
  meta_update ws (block_text es ++ tail) key value =
  block_text (es1 ++ (ki, take_while is_ws vi ++ value) :: es2) ++ tail.
Proof. exact update_rewrites_one_value. Qed.
Print Assumptions update_rewrites_exactly_one_value.

(* ... and reads back: the updated text is again a block of the same entries, the updated one carrying the new value
   (cleaned like any value), all others their old ones, ending where the rewritten block ends *)
Theorem update_reads_back_new_value :
  forall ws es1 ki vi es2 tail key value,
  let es := es1 ++ (ki, vi) :: es2 in
  let es' := es1 ++ (ki, take_while is_ws vi ++ value) :: es2 in
  forallb wf_entry es = true ->
  (match es with e1 :: _ => forallb is_ws (snd e1) = false | [] => True end) ->
  tail_ok tail ->
  (forall e, In e es1 -> bytes_eqb_l (label_from_string key) (label_from_string (fst e)) = false) ->
  bytes_eqb_l (label_from_string key) (label_from_string ki) = true ->
  no_eol value = true -> forallb is_ws value = false ->
  meta_parse ws (meta_update ws (block_text es ++ tail) key value) = Some (result ws es', length (block_text es')).
Proof. exact update_reads_back. Qed.
Print Assumptions update_reads_back_new_value.

(* the same update on a block whose entries may continue on following lines: the new value takes the place of the rest of
   the entry's first line AND of its continuation lines; every other entry, with its continuation lines, and everything
   after the block stay as they are (so the result is again a block the multi-line round trip applies to) *)
Theorem update_rewrites_exactly_one_entry_multiline :
  forall ws es1 ki vi cs es2 tail key value,
  let es := es1 ++ (ki, vi, cs) :: es2 in
  forallb wf_mentry es = true ->
  (match es with e1 :: _ => forallb is_ws (mval e1) = false | [] => True end) ->
  tail_ok tail ->
  (forall e, In e es1 -> bytes_eqb_l (label_from_string key) (label_from_string (mkey e)) = false) ->
  bytes_eqb_l (label_from_string key) (label_from_string ki) = true ->
  meta_update ws (mtext es ++ tail) key value =
  mtext (es1 ++ (ki, take_while is_ws vi ++ value, []) :: es2) ++ tail.
Proof. exact update_rewrites_one_entry_multiline. Qed.
Print Assumptions update_rewrites_exactly_one_entry_multiline.

(* adding: a key that no entry of the block carries is appended to the block as one line "key:<tab>value"; the lines of the
   block and everything after it stay, and the text reads back as the old entries followed by the new one *)
Theorem update_adds_a_new_key :
  forall ws es tail key value,
  es <> [] -> forallb wf_entry es = true ->
  (match es with e1 :: _ => forallb is_ws (snd e1) = false | [] => True end) ->
  tail_ok tail ->
  (forall e, In e es -> bytes_eqb_l (label_from_string key) (label_from_string (fst e)) = false) ->
  meta_update ws (block_text es ++ tail) key value = block_text (es ++ [(key, 9 :: value)]) ++ tail /\
  (wf_key key = true -> no_eol value = true ->
   meta_parse ws (meta_update ws (block_text es ++ tail) key value) =
   Some (result ws (es ++ [(key, 9 :: value)]), length (block_text (es ++ [(key, 9 :: value)])))).
Proof.
  intros ws es tail key value Hne Hw Hv Ht Hno. split.
  - apply update_adds_new_key; assumption.
  - intros Hk Hnv. apply added_key_reads_back; assumption.
Qed.
Print Assumptions update_adds_a_new_key.

(* non-vacuity, with a key that occurs twice: "a: 1 / b: 2 / A: 3 / <empty line> / body", update a := NEW *)
Example update_example :
  let ws := is_whitespace_or_line_ending in
  let s := [97;58;32;49;10; 98;58;32;50;10; 65;58;32;51;10; 10; 98;111;100;121;10] in
  meta_update ws s [97] [78;69;87] = [97;58;32;78;69;87;10; 98;58;32;50;10; 65;58;32;51;10; 10; 98;111;100;121;10] /\
  meta_value_for ws (meta_update ws s [97] [78;69;87]) [97] = Some [78;69;87] /\
  meta_value_for ws (meta_update ws s [97] [78;69;87]) [98] = Some [50].
Proof. vm_compute. repeat split; reflexivity. Qed.

(* and for an ordinary value - words separated by single blanks, no backslash, ampersand or other white
   space - the cleaned text is the value itself: what was written is what is reported *)
Theorem meta_simple_value_unchanged :
  forall v, v <> [] -> simpleb is_whitespace_or_line_ending true v = true ->
  clean_string is_whitespace_or_line_ending false false (v ++ [10]) = v.
Proof. intros v. apply clean_simple_value. vm_compute. reflexivity. Qed.
Print Assumptions meta_simple_value_unchanged.

(* a value ending in a backslash is the case the restriction excludes: the backslash and the line ending
   form a hard break which is then trimmed *)
Example meta_value_trailing_backslash :
  clean_string is_whitespace_or_line_ending false false ([97; 92] ++ [10]) = [97].
Proof. vm_compute. reflexivity. Qed.

(* worked instances of the whole extraction, incl. end of input without newline, continuation
   lines and a key with blanks before the colon *)
Example meta_examples :
  let ws := is_whitespace_or_line_ending in
  let s1 := [84;105;116;108;101;58;32;88;121;122] in                                   (* "Title: Xyz" <EOF> *)
  let s2 := [65;32;98;32;58;9;118;49;10;32;32;32;32;109;111;114;101;10;75;50;58;120;10;10;98;111;100;121] in
  meta_value_for ws s1 [116;105;116;108;101] = Some [88;121;122] /\
  meta_parse ws s2 = Some ([mkmeta 0 [97;98] [118;49;32;109;111;114;101]; mkmeta 18 [107;50] [120]], 23%nat).
Proof. vm_compute. split; reflexivity. Qed.
