(* C07  Bounded stack (the part a call-graph argument can carry).
   gen/CallGraph.v is regenerated on every run from the -O0 objects (one node per source function,
   frame sizes from gcc -fstack-usage) and the guard pattern in the sources. *)
From Coq Require Import List Arith NArith Bool String Lia.
Import ListNotations.
From MMD.lib Require Import CallStack.
From MMD.gen Require Import CallGraph.
From MMD.model Require Import CallStackPolicy GlobalsPolicy.
Local Open Scope N_scope.

Definition fw (v : nat) := nth v cg_w 0.
Definition fh (v : nat) := nth v cg_h 0.
Definition fscc (v : nat) := nth v cg_scc O.
Definition fguard (v : nat) := nth v cg_guarded false.
Definition fHmax (c : nat) := nth c cg_Hmax 0.
Definition fWg (c : nat) := nth c cg_Wg 0.
Definition fM (c : nat) := nth c cg_M 0.
Definition fB (c : nat) := nth c cg_B 0.

Theorem callgraph_checks :
  graph_ok cg_nnodes fw fh fscc fguard fHmax fWg fM fB cg_edges = true /\
  forallb (fun b => b <=? cg_Bmax) cg_B = true /\ (cg_Bmax <? 8 * 1024 * 1024) = true.
Proof. vm_compute. repeat split; reflexivity. Qed.
Print Assumptions callgraph_checks.

(* Every call path of the library that stays outside the unguarded recursive functions, and on
   which each guarded function has at most kMax+1 live frames (what its depth test enforces), uses
   at most cg_Bmax bytes of stack - below the usual 8 MiB. *)
Theorem guarded_call_paths_bounded :
  forall p, p <> [] ->
  valid cg_nnodes cg_edges p ->
  within_budget fscc fguard fM p ->
  weight fw p <= cg_Bmax /\ cg_Bmax < 8 * 1024 * 1024.
Proof.
  intros p Hne Hv Hb. destruct callgraph_checks as (Hok & HB & Hlt).
  destruct (path_bounded cg_nnodes fw fh fscc fguard fHmax fWg fM fB cg_edges Hok p Hne Hv Hb) as (v & _ & Hw).
  split; [|apply N.ltb_lt, Hlt].
  rewrite forallb_forall in HB.
  destruct (Nat.lt_ge_cases (fscc v) (List.length cg_B)) as [Hin|Hout].
  - assert (fB (fscc v) <= cg_Bmax) by (apply N.leb_le, HB, nth_In, Hin). lia.
  - unfold fB in Hw. rewrite nth_overflow in Hw by exact Hout. lia.
Qed.
Print Assumptions guarded_call_paths_bounded.

(* the recursion that is NOT covered by a guard is exactly the recorded set (known finding), and
   the nine depth guards the sources are known to contain are all recognised *)
Theorem unguarded_recursion_enumerated :
  subset cg_unguarded_recursive known_unguarded_recursive = true /\
  subset expected_guards cg_guarded_names = true.
Proof. vm_compute. split; reflexivity. Qed.
Print Assumptions unguarded_recursion_enumerated.

(* the full statement "no call path exceeds the stack" is refuted by the current tree *)
Theorem all_recursion_guarded_refuted : cg_unguarded_recursive <> [].
Proof. vm_compute. discriminate. Qed.
Print Assumptions all_recursion_guarded_refuted.

(* Cost (one step towards the k-copies clause): the repaired tokens_prune (fix c2dc4be; model/TokenHeap.v, tied to
   token.c by the heap correspondence of check C15) does not look at the rest of the chain when the pruned run is
   followed by another token - its result is four field writes whatever the length of the chain.  A paragraph with n
   strong spans prunes 2n such inner tokens; before the repair each of them walked the whole chain (n^2). *)
From MMD.model Require Import TokenHeap.
From MMD.proofs Require Import TokenHeapDL.
Local Open Scope N_scope.
Theorem prune_of_inner_tokens_is_constant_work : forall h x e pvt nb,
  rd h x Fpv = Some pvt -> rd h e Fnx = Some nb -> pvt <> 0 -> nb <> 0 -> x <> 0 -> e <> 0 ->
  tokens_prune h x e =
    (let? h := wr h pvt Fnx nb in let? h := wr h nb Fpv pvt in let? h := wr h x Fpv 0 in wr h e Fnx 0).
Proof. exact prune_inner_is_four_writes. Qed.
Print Assumptions prune_of_inner_tokens_is_constant_work.
