(* C13  Transclusion terminates on any include graph (and the manifest has no duplicates).
   Model: model/TranscludeModel.v, tied to transclude.c by correspondence on materialised file trees. *)
From Coq Require Import Lia.
From MMD.lib Require Import Bytes.
From MMD.model Require Import TranscludeModel.
From MMD.proofs Require Import TranscludeProofs.
Local Open Scope N_scope.

(* For EVERY file system (any include graph: trees, sharing, self inclusion, cycles, missing files),
   every source, search path, source path and output format, transclusion returns - the recursion
   fuel (one more than the number of files) and the per-file loop fuel are never exhausted - and the
   manifest it built lists no file twice. *)
Theorem transclude_terminates :
  forall fs fmt search_path source_path src,
  exists out st, transclude_top fs fmt search_path source_path src = Ok (out, st) /\ NoDup (manifest st).
Proof. exact transclude_top_ok. Qed.
Print Assumptions transclude_terminates.

(* the 1100-byte marker buffer: a marker is copied only when '}}' is found less than 1000 bytes after
   '{{', so at most 997 bytes plus the terminator are written *)
Theorem marker_text_fits : forall j : nat, Nat.leb 1000 j = false -> (j - 2 + 1 <= 1100)%nat.
Proof. intros j H. apply Nat.leb_gt in H. lia. Qed.

(* non-vacuity: a file including itself and a two-cycle terminate with the expected text *)
Example self_and_cycle :
  let a := [47; 97] in let b := [47; 98] in                       (* "/a" "/b" *)
  let inc p := [123; 123] ++ p ++ [125; 125] in
  let fs := [(a, [120] ++ inc a ++ inc b); (b, [121] ++ inc a)] in
  exists st, transclude_top fs EHtml [47] a ([120] ++ inc a ++ inc b) =
             Ok ([120] ++ ([120] ++ inc a ++ ([121] ++ inc a)) ++ ([121] ++ ([120] ++ inc a ++ inc b)), st) /\ cyc st = true.
Proof. vm_compute. eexists; split; reflexivity. Qed.
