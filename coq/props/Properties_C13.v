(* C13  Transclusion terminates on any include graph and substitutes exactly.
   Model: model/TranscludeModel.v, tied to transclude.c by correspondence on materialised file trees. *)
From Coq Require Import Lia.
From MMD.lib Require Import Bytes.
From MMD.model Require Import TranscludeModel.
From MMD.proofs Require Import TranscludeProofs TranscludeExact.
Local Open Scope N_scope.

(* For EVERY file system (any include graph: trees, sharing, self inclusion, cycles, missing files),
   every source, search path, source path and output format, transclusion returns - the recursion
   fuel (one more than the number of files) and the per-file loop fuel are never exhausted - and the
   manifest it built lists no file twice. *)
Theorem transclude_terminates :
  forall fs fmt search_path source_path src,
  exists out st, transclude_top fs fmt search_path source_path src = Ok (out, st) /\ NoDup (manifest st).
Proof. exact transclude_top_ok. Qed.
Print Assumptions transclude_terminates.

(* the 1100-byte marker buffer: a marker is copied only when '}}' is found less than 1000 bytes after
   '{{', so at most 997 bytes plus the terminator are written *)
Theorem marker_text_fits : forall j : nat, Nat.leb 1000 j = false -> (j - 2 + 1 <= 1100)%nat.
Proof. intros j H. apply Nat.leb_gt in H. lia. Qed.
Print Assumptions marker_text_fits.

(* non-vacuity: a file including itself and a two-cycle terminate with the expected text *)
Example self_and_cycle :
  let a := [47; 97] in let b := [47; 98] in                       (* "/a" "/b" *)
  let inc p := [123; 123] ++ p ++ [125; 125] in
  let fs := [(a, [120] ++ inc a ++ inc b); (b, [121] ++ inc a)] in
  exists st, transclude_top fs EHtml [47] a ([120] ++ inc a ++ inc b) =
             Ok ([120] ++ ([120] ++ inc a ++ ([121] ++ inc a)) ++ ([121] ++ ([120] ++ inc a ++ inc b)), st) /\ cyc st = true.
Proof. vm_compute. eexists; split; reflexivity. Qed.


(* Exact substitution.  Files are described in structured form ([sdoc]: text pieces alternating with marker
   names; texts without '{', names without braces, shorter than the limit, not TOC, not absolute, no ".*"
   wildcard; every file starts with a byte that cannot begin a metadata key or a byte order mark) and
   [expand] is plain textual substitution that refuses to include a file inside itself.  For include trees
   of ANY depth and width: whenever [expand] succeeds - all targets exist and no cycle is met - the model of
   mmd_transclude_source returns exactly the expanded text. *)
Theorem transclusion_substitutes_exactly :
  forall fs fmt F, ends_with_sep F = true -> forall segs,
  (forall p, lookup fs p = option_map src (segs p)) ->
  (forall p d, segs p = Some d -> doc_ok d = true) ->
  forall n stack st d out, doc_ok d = true -> expand F segs n stack d = Some out ->
  forall p, exists st', transclude fs fmt n F p stack st (src d) = Ok (out, st').
Proof. exact transclude_exact. Qed.
Print Assumptions transclusion_substitutes_exactly.

(* non-vacuity: a -> b -> c and a second use of b; the expansion and the model agree on the text *)
Definition b_ (s : list N) := s.
Definition ex_F : list N := [47; 100; 47].                                   (* "/d/" *)
Definition ex_c : sdoc := mksd [] [46; 99].                                   (* ".c" *)
Definition ex_b : sdoc := mksd [([46; 98], [99])] [33].                      (* ".b{{c}}!" *)
Definition ex_a : sdoc := mksd [([46; 97; 32], [98])] [32; 121].             (* ".a {{b}} y" *)
Definition ex_top : sdoc := mksd [([46; 116; 32], [97]); ([32; 109; 32], [98])] [32; 101].   (* ".t {{a}} m {{b}} e" *)
Definition ex_segs (p : list N) : option sdoc :=
  if bytes_eqb p (ex_F ++ [97]) then Some ex_a else if bytes_eqb p (ex_F ++ [98]) then Some ex_b
  else if bytes_eqb p (ex_F ++ [99]) then Some ex_c else None.
Definition ex_fs : fsys := [(ex_F ++ [97], src ex_a); (ex_F ++ [98], src ex_b); (ex_F ++ [99], src ex_c)].
Example exact_sample :
  doc_ok ex_top = true /\
  expand ex_F ex_segs 4 [] ex_top = Some [46;116;32; 46;97;32; 46;98; 46;99; 33; 32;121; 32;109;32; 46;98; 46;99; 33; 32;101] /\
  option_map fst (match transclude_top ex_fs EHtml ex_F (ex_F ++ [116]) (src ex_top) with Ok r => Some r | Err _ => None end) =
  expand ex_F ex_segs 4 [] ex_top.
Proof. vm_compute. auto. Qed.
