(* C01  Memory-safe, crash-free conversion of arbitrary input.
   Coq cannot establish memory safety of the C code as a whole (no C semantics is available here); what
   is proved is the bounds logic of the mechanisms the property names, on models whose out-of-range
   access is an explicit error value.  This file holds the obligation that is specific to C01 (the
   fixed-size column alignment array) and collects, by reference, the bounds theorems proved for the
   other properties.  Everything else is exercised under ASan/UBSan by checks/c01.py (testing). *)
From Coq Require Import List Arith NArith Bool Lia ZArith.
Import ListNotations.
From MMD.gen Require Import Bounds.
From MMD.model Require Import TableAlignModel.
From MMD.proofs Require Import TableAlignProofs.
From MMD.props Require Properties_C19 Properties_C18 Properties_C02 Properties_C13 Properties_C15.

(* table_alignment: size, recording bound and read guards are regenerated from writer.h, writer.c,
   html.c, latex.c and opendocument-content.c on every run.  For every separator line - any number of
   cells - no write falls outside the array, the terminator included, the recorded column count stays
   below the array size, and every indexed read in the writers is guarded by a bound within the array
   or runs below the recorded column count. *)
Theorem table_alignment_in_bounds :
  forall cells, exists arr n,
    record table_alignment_size record_limit cells 0 (repeat 0%N table_alignment_size) = Some (arr, n) /\
    n < table_alignment_size /\ length arr = table_alignment_size /\
    forallb (read_ok table_alignment_size) alignment_reads = true.
Proof.
  intros cells.
  assert (Hlim : exists l, record_limit = Some l /\ l < table_alignment_size) by (eexists; split; [reflexivity | vm_compute; lia]).
  destruct Hlim as (l & El & Hl). rewrite El.
  destruct (record_in_bounds table_alignment_size l cells Hl 0 (repeat 0%N table_alignment_size) (repeat_length _ _) (Nat.le_0_l _))
    as (a & n & Hr & Hn & Ha).
  exists a, n. split; [exact Hr|]. split; [lia|]. split; [exact Ha|]. vm_compute. reflexivity.
Qed.
Print Assumptions table_alignment_in_bounds.

(* the guard is what makes this true: without it, a separator line with as many cells as the array has
   slots writes outside it (the defect repaired in the repository, see known_findings.json) *)
Theorem table_alignment_unguarded_refuted :
  record table_alignment_size None (repeat 108%N table_alignment_size) 0 (repeat 0%N table_alignment_size) = None.
Proof. apply record_unguarded_overflows. vm_compute. lia. Qed.
Print Assumptions table_alignment_unguarded_refuted.

(* bounds theorems established under other properties, which C01 relies on: *)
(* DString: no out-of-bounds access, no non-termination in any well-formed history *)
Definition ledger_dstring := Properties_C19.dstring_no_oob_no_hang.
(* token pool: every allocation is fresh and inside a live slab; no slab freed while in use *)
Definition ledger_pool_fresh := Properties_C18.pool_alloc_fresh.
Definition ledger_pool_no_early_free := Properties_C18.pool_no_early_free.
(* block parser: no table overrun, stack height bounded below YYSTACKDEPTH for every line sequence *)
Definition ledger_parser := Properties_C02.parser_never_errors.
Definition ledger_parser_stack := Properties_C02.parser_stack_bounded.
(* transclusion: terminates on every include graph; the 1100-byte marker buffer is not overrun *)
Definition ledger_transclude := Properties_C13.transclude_terminates.
Definition ledger_marker_buffer := Properties_C13.marker_text_fits.
(* token kinds stay below kMaxTokenTypes (the size of the pairing tables) *)
Definition ledger_enums := Properties_C15.enum_relations.
Print Assumptions ledger_dstring.
Print Assumptions ledger_parser.
