(* C01  Memory-safe, crash-free conversion of arbitrary input.
   Coq cannot establish memory safety of the C code as a whole (no C semantics is available here); what
   is proved is the bounds logic of the mechanisms the property names, on models whose out-of-range
   access is an explicit error value.  This file holds the obligation that is specific to C01 (the
   fixed-size column alignment array) and collects, by reference, the bounds theorems proved for the
   other properties.  Everything else is exercised under ASan/UBSan by checks/c01.py (testing). *)
From Coq Require Import List Arith NArith Bool Lia ZArith.
Import ListNotations.
From MMD.gen Require Import Bounds.
From MMD.model Require Import TableAlignModel Ambidextrous.
From MMD.proofs Require Import TableAlignProofs AmbidextrousProofs.
From MMD.props Require Properties_C19 Properties_C18 Properties_C02 Properties_C13 Properties_C15.

(* table_alignment: size, recording bound and read guards are regenerated from writer.h, writer.c,
   html.c, latex.c and opendocument-content.c on every run.  For every separator line - any number of
   cells - no write falls outside the array, the terminator included, the recorded column count stays
   below the array size, and every indexed read in the writers is guarded by a bound within the array
   or runs below the recorded column count. *)
Theorem table_alignment_in_bounds :
  forall cells, exists arr n,
    record table_alignment_size record_limit cells 0 (repeat 0%N table_alignment_size) = Some (arr, n) /\
    n < table_alignment_size /\ length arr = table_alignment_size /\
    forallb (read_ok table_alignment_size) alignment_reads = true.
Proof.
  intros cells.
  assert (Hlim : exists l, record_limit = Some l /\ l < table_alignment_size) by (eexists; split; [reflexivity | vm_compute; lia]).
  destruct Hlim as (l & El & Hl). rewrite El.
  destruct (record_in_bounds table_alignment_size l cells Hl 0 (repeat 0%N table_alignment_size) (repeat_length _ _) (Nat.le_0_l _))
    as (a & n & Hr & Hn & Ha).
  exists a, n. split; [exact Hr|]. split; [lia|]. split; [exact Ha|]. vm_compute. reflexivity.
Qed.
Print Assumptions table_alignment_in_bounds.

(* the guard is what makes this true: without it, a separator line with as many cells as the array has
   slots writes outside it (the defect repaired in the repository, see known_findings.json) *)
Theorem table_alignment_unguarded_refuted :
  record table_alignment_size None (repeat 108%N table_alignment_size) 0 (repeat 0%N table_alignment_size) = None.
Proof. apply record_unguarded_overflows. vm_compute. lia. Qed.
Print Assumptions table_alignment_unguarded_refuted.

(* bounds theorems established under other properties, which C01 relies on: *)
(* mmd_assign_ambidextrous_tokens_in_block, cases STAR and UL (the scans to the left and to the right of an emphasis
   marker, including the word scans of the "middle of a word" rule): for every text, whatever its bytes and length,
   and every marker in it, no byte is read before the text or after its terminating NUL, and the size_t offset that
   t->start - 1 would wrap at the start of the text is never formed.  The model's read is an error value outside
   [0, length]; the classifiers are the tables regenerated from the compiled char.c (the proof needs from them that
   NUL is a line ending and is neither a marker nor a word byte). *)
Theorem ambidextrous_reads_in_bounds :
  forall (star : bool) (s : list N) (t : nat),
    nth_error s t = Some (if star then 42%N else 95%N) ->
    exists can_open can_close, assign star s t = Some (can_open, can_close).
Proof. intros star s t H. destruct (assign_in_bounds star s t H) as [[o c] E]. eauto. Qed.
Print Assumptions ambidextrous_reads_in_bounds.

(* the same for every case of the routine that looks at the text around a token - backticks, single and double
   quotes (with the apostrophe tests that look two bytes ahead), dashes, math delimiters, super- and subscript (with
   their scans for a partner and for the end of the "x^2" form): for every text and every token (kind, start, len)
   whose span lies inside the text, no read leaves [0, strlen] *)
Theorem ambidextrous_all_cases_in_bounds :
  forall (k : tkind) (s : list N) (start len : nat),
    (start < length s)%nat -> (start + len <= length s)%nat ->
    (k = KStar -> nth_error s start = Some 42%N) -> (k = KUl -> nth_error s start = Some 95%N) ->
    exists r, assign_tok k s start len = Some r.
Proof. exact assign_tok_in_bounds. Qed.
Print Assumptions ambidextrous_all_cases_in_bounds.

(* non-vacuity, and the cases the scans are most likely to get wrong: a marker that is the whole text, markers at
   both ends, runs that reach the start *)
Example ambidextrous_edge_cases :
  (assign_all [42%N] = [(0%nat, Some (false, false))]) /\
  (assign_all [42; 42; 97; 42; 42]%N = [(0%nat, Some (true, false)); (1%nat, Some (true, false)); (3%nat, Some (false, true)); (4%nat, Some (false, true))]) /\
  (assign_all [95; 97; 95; 98; 95]%N = [(0%nat, Some (true, false)); (2%nat, Some (false, false)); (4%nat, Some (false, true))]).
Proof. vm_compute. auto. Qed.

(* DString: no out-of-bounds access, no non-termination in any well-formed history *)
Definition ledger_dstring := Properties_C19.dstring_no_oob_no_hang.
(* token pool: every allocation is fresh and inside a live slab; no slab freed while in use *)
Definition ledger_pool_fresh := Properties_C18.pool_alloc_fresh.
Definition ledger_pool_no_early_free := Properties_C18.pool_no_early_free.
(* block parser: no table overrun, stack height bounded below YYSTACKDEPTH for every line sequence *)
Definition ledger_parser := Properties_C02.parser_never_errors.
Definition ledger_parser_stack := Properties_C02.parser_stack_bounded.
(* transclusion: terminates on every include graph; the 1100-byte marker buffer is not overrun *)
Definition ledger_transclude := Properties_C13.transclude_terminates.
Definition ledger_marker_buffer := Properties_C13.marker_text_fits.
(* token kinds stay below kMaxTokenTypes (the size of the pairing tables) *)
Definition ledger_enums := Properties_C15.enum_relations.
Print Assumptions ledger_dstring.
Print Assumptions ledger_parser.
