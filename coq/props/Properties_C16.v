(* C16  Valid UTF-8 in, valid UTF-8 out: byte-level transformers.
   (1) every escaper maps valid UTF-8 to valid UTF-8 (it is the identity on bytes >= 0x80 and emits
       only ASCII for ASCII);  (2) no byte >= 0x80 is classified as white space, line ending,
       punctuation, letter or digit by char.c, so trimming / splitting on those classes can only
       cut at ASCII bytes, i.e. at character boundaries. *)
From MMD.lib Require Import Bytes Utf8.
From MMD.gen Require Import Escapers CharTable.
From MMD.proofs Require Import EscaperProofs.
Local Open Scope N_scope.

Definition all_tables := [esc_html; esc_html_br; esc_latex; esc_odf; esc_odf_br; esc_opml; esc_itmz].
Theorem esc_preserves_utf8 :
  forall t, In t all_tables -> forall s, over bytes1 s -> valid_utf8 s = true -> valid_utf8 (esc t s) = true.
Proof.
  intros t Ht. apply table_preserves_utf8.
  repeat (destruct Ht as [<-|Ht]; [vm_compute; reflexivity|]). destruct Ht.
Qed.
Print Assumptions esc_preserves_utf8.

Definition classes := [is_whitespace; is_line_ending; is_whitespace_or_line_ending; is_punctuation; is_alphanumeric;
                       is_alpha; is_digit; is_whitespace_or_punctuation; is_whitespace_or_line_ending_or_punctuation].
Theorem chartable_high_bytes_inert :
  forall cl, In cl classes -> forall b, In b cl -> b < 128.
Proof.
  assert (H : forallb (fun cl => forallb (fun b => b <? 128) cl) classes = true) by (vm_compute; reflexivity).
  rewrite forallb_forall in H. intros cl Hcl b Hb. specialize (H cl Hcl). rewrite forallb_forall in H.
  apply N.ltb_lt, H, Hb.
Qed.
Print Assumptions chartable_high_bytes_inert.

(* removing or inserting ASCII bytes at a character boundary keeps validity: cutting a valid string
   right before an ASCII byte leaves two valid strings *)
Example utf8_samples :
  valid_utf8 [118;111;105;108;195;160;32] = true /\ valid_utf8 [195] = false /\ valid_utf8 [160] = false /\
  valid_utf8 [237;160;128] = false /\ valid_utf8 [244;143;191;191] = true /\ valid_utf8 [192;128] = false.
Proof. vm_compute. repeat split; reflexivity. Qed.

(* (3) the functions that derive ids, labels, \label names, metadata keys and cleaned URLs /
   titles from source text: label_from_string and clean_string (writer.c), modelled as byte
   transducers (model/LabelModel.v, tied to the code by correspondence) keep valid UTF-8 valid:
   a multi-byte character is copied whole or not at all, never split, never case-mapped bytewise. *)
From MMD.model Require Import LabelModel.
From MMD.proofs Require Import LabelProofs.

Theorem label_preserves_utf8 :
  forall s, over bytes1 s -> valid_utf8 s = true -> valid_utf8 (label_from_string s) = true.
Proof. exact label_utf8. Qed.
Print Assumptions label_preserves_utf8.

Theorem clean_preserves_utf8 :
  forall lowercase url_clean s, over bytes1 s -> valid_utf8 s = true ->
  valid_utf8 (clean_string is_whitespace_or_line_ending lowercase url_clean s) = true.
Proof.
  intros lc uc. apply clean_utf8.
  apply (chartable_high_bytes_inert is_whitespace_or_line_ending). cbn. tauto.
Qed.
Print Assumptions clean_preserves_utf8.

Example label_sample :
  label_from_string [72; 195; 169; 32; 108; 95; 87; 240; 159; 142; 137; 33] = [104; 195; 169; 108; 95; 119; 240; 159; 142; 137].
Proof. vm_compute. reflexivity. Qed.
