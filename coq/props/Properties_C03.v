(* C03  HTML rendering agrees with the documented Markdown/MultiMarkdown semantics.
   The specification (model/SpecRender.v) is compositional by construction; that the implementation agrees
   with it is decided by checks/c03.py on generated documents (testing).  The block-level theorem about
   the real parser tables follows below. *)
From Coq Require Import List NArith Bool.
Import ListNotations.
From MMD.lib Require Import Bytes.
From MMD.model Require Import SpecRender.
Local Open Scope N_scope.

Lemma join_app (sep : list N) a b : a <> [] -> b <> [] -> join sep (a ++ b) = join sep a ++ sep ++ join sep b.
Proof.
  intros Ha Hb. induction a as [|x r IH]; [congruence|].
  destruct r as [|y r'].
  - cbn [app join]. destruct b; [congruence|]. reflexivity.
  - change ((x :: y :: r') ++ b) with (x :: (y :: r') ++ b). 
    assert (E : join sep (x :: (y :: r') ++ b) = x ++ sep ++ join sep ((y :: r') ++ b)) by reflexivity.
    rewrite E, IH by discriminate. cbn [join]. rewrite <- !app_assoc. reflexivity.
Qed.

(* the specified rendering of a sequence of blocks (under a given numbering of the footnotes) is the renderings of
   its blocks, separated by one empty line:
   putting two documents one after the other concatenates their renderings, whatever their blocks are *)
Theorem spec_render_compositional : forall o sp env d1 d2, d1 <> [] -> d2 <> [] ->
  render o sp env (d1 ++ d2) = render o sp env d1 ++ [10; 10] ++ render o sp env d2.
Proof.
  intros o sp env d1 d2 H1 H2. unfold render. rewrite map_app.
  apply join_app; intros E; apply map_eq_nil in E; contradiction.
Qed.
Print Assumptions spec_render_compositional.

(* and the same holds for the source text, so the two sides of the comparison split at the same places *)
Theorem spec_spell_compositional : forall sp d1 d2, d1 <> [] -> d2 <> [] -> crlf sp = false ->
  spell sp (d1 ++ d2) = removelast (spell sp d1) ++ [10; 10] ++ spell sp d2.
Proof.
  intros sp d1 d2 H1 H2 Hc. unfold spell. rewrite Hc, map_app.
  rewrite join_app by (intros E; apply map_eq_nil in E; contradiction).
  unfold NL. rewrite removelast_last. rewrite <- !app_assoc. reflexivity.
Qed.
Print Assumptions spec_spell_compositional.

(* ---- the real block parser (tables regenerated from parser.c on every run) *)
From Coq Require Import ZArith.
From MMD.lib Require Import Lemon BlockComp.
From MMD.gen Require Import ParserTables.
From MMD.model Require Import BlockLang.
From MMD.proofs Require Import BlockCompProofs.
Local Open Scope Z_scope.

(* [closed w]: w is a sequence of paragraphs, ATX / Setext headings, rules, fenced code blocks and block
   quotes (as line kinds), each followed by one or more empty lines.  For ANY two such documents, of any
   length, the top-level blocks the parser creates for their concatenation (the sequence of 'block ::= X'
   reductions in its event trace) are the blocks of the first followed by the blocks of the second: what
   comes before or after a closed block never changes how it is segmented. *)
Theorem blocks_compositional :
  forall u v, closed dstep FIN u -> closed dstep FIN v -> bc_over line_kinds u -> bc_over line_kinds v ->
  exists x y,
    bc_F parser_tables NT_block base u = Some x /\ bc_F parser_tables NT_block base v = Some y /\
    bc_F parser_tables NT_block base (u ++ v) = Some (x ++ y).
Proof. exact (comp parser_tables NT_block dstep FIN line_kinds Hset Sset block_checks). Qed.
Print Assumptions blocks_compositional.

(* F is what the driver does: for a non-empty closed document it is the list of block rules among the
   events of parse_document (all tokens, then end of input), and no error event occurs *)
Theorem block_trace_is_parse_document :
  forall w x, w <> [] -> drun dstep 0%nat w = Some FIN -> bc_over line_kinds w ->
  bc_F parser_tables NT_block base w = Some x ->
  exists stk ev, parse_document parser_tables w = Ok (stk, ev) /\ existsb is_bad ev = false /\
                 brules parser_tables NT_block ev = x.
Proof. exact (F_is_parse_document parser_tables NT_block dstep FIN line_kinds Hset Sset block_checks). Qed.
Print Assumptions block_trace_is_parse_document.

(* non-vacuity: a paragraph of two lines, a rule, a fenced block containing a heading-like line, a quote *)
Example closed_sample :
  let w := [K_PLAIN; K_PLAIN; K_EMPTY; K_HR; K_EMPTY; K_EMPTY; K_FENCE_BACKTICK_START_3; K_ATX_1; K_EMPTY; K_FENCE_BACKTICK_3; K_EMPTY;
            K_BLOCKQUOTE; K_PLAIN; K_EMPTY] in
  drun dstep 0%nat w = Some FIN /\
  bc_F parser_tables NT_block base w =
  Some [R_block_para; R_block_empty; R_block_LINE_HR; R_block_empty; R_block_fenced_block; R_block_empty; R_block_blockquote; R_block_empty].
Proof. vm_compute. auto. Qed.

(* and the restriction to closed blocks matters: two paragraphs without an empty line between them are one *)
Example unclosed_blocks_merge :
  bc_F parser_tables NT_block base [K_PLAIN] = Some [R_block_para] /\
  bc_F parser_tables NT_block base ([K_PLAIN] ++ [K_PLAIN]) = Some [R_block_para].
Proof. vm_compute. auto. Qed.

(* ---------- the delimiter rules (mmd_assign_ambidextrous_tokens_in_block, cases STAR and UL; model/Ambidextrous.v,
   tied to the compiled function by harness/ambi.c) *)
From MMD.model Require Import Ambidextrous.
From MMD.proofs Require Import AmbidextrousProofs.

(* Whether a * or _ may open or close emphasis depends only on the text between the nearest whitespace or line ending
   on either side: whatever precedes that whitespace (including nothing: the text may start the document) and
   whatever follows it (including nothing: the terminating NUL stands for a line ending) has no influence.  This is
   the part of "rendering is compositional" that the delimiter rules owe: a paragraph's markers are judged the same
   wherever the paragraph stands. *)
Theorem emphasis_flags_context_independent :
  forall (star : bool) (pre : list N) (c1 : N) (s : list N) (c2 : N) (post : list N) (t : nat),
    wsle c1 = true -> wsle c2 = true ->
    nth_error s t = Some (if star then 42%N else 95%N) ->
    assign star (pre ++ c1 :: s ++ c2 :: post) (S (length pre) + t) = assign star s t.
Proof. exact assign_context_independent. Qed.
Print Assumptions emphasis_flags_context_independent.

(* the same for the other tokens the routine judges by their surroundings - single and double quotes (incl. the
   apostrophe tests), dashes, math delimiters, super- and subscript: the outcome (open / close flags, new type, new
   length) of a token inside a whitespace-delimited stretch does not depend on the text beyond that whitespace.  The
   two-backtick quote form is left out: its can_close is cleared at offset 0 only, where nothing precedes it that it
   could close. *)
Theorem delimiter_outcome_context_independent :
  forall (k : tkind) (pre : list N) (c1 : N) (s : list N) (c2 : N) (post : list N) (start len : nat),
    wsle c1 = true -> wsle c2 = true -> k <> KBacktick ->
    (start < length s)%nat -> (start + len <= length s)%nat ->
    (k = KStar -> nth_error s start = Some 42%N) -> (k = KUl -> nth_error s start = Some 95%N) ->
    assign_tok k (pre ++ c1 :: s ++ c2 :: post) (S (length pre) + start) len = assign_tok k s start len.
Proof. exact assign_tok_context_independent. Qed.
Print Assumptions delimiter_outcome_context_independent.

(* the documented rule for unambiguous uses: a marker with whitespace (or the start of the text) before its run and
   something else after it can open and cannot close; one with whitespace (or the end) after its run and something
   else before it can close and cannot open - for * and for _ alike *)
Theorem flanking_markers :
  forall (star : bool) (s : list N) (t : nat) la ra,
    (left_class s t = Some (true, la) -> right_class s t = Some (false, ra) -> assign star s t = Some (true, false)) /\
    (left_class s t = Some (false, la) -> right_class s t = Some (true, ra) -> assign star s t = Some (false, true)).
Proof. exact flanking. Qed.
Print Assumptions flanking_markers.

Example emphasis_flags_example :
  (* "a *b* c": opener then closer; "x _b_": the same with underscores; "a_b_c": neither opens *)
  ((assign_all [97; 32; 42; 98; 42; 32; 99]%N = [(2%nat, Some (true, false)); (4%nat, Some (false, true))]) /\
   (assign_all [120; 32; 95; 98; 95]%N = [(2%nat, Some (true, false)); (4%nat, Some (false, true))]) /\
   (assign_all [97; 95; 98; 95; 99]%N = [(1%nat, Some (false, false)); (3%nat, Some (false, false))]) /\
   (* and the hypotheses of the context theorem are met by a marker inside a line of a longer text *)
   (assign true ([42; 120; 10] ++ 10 :: [97; 42; 98] ++ 10 :: [42])%N (S 3 + 1)%nat = assign true [97; 42; 98]%N 1%nat))%type.
Proof. vm_compute. auto. Qed.
