(* C03  HTML rendering agrees with the documented Markdown/MultiMarkdown semantics.
   The specification (model/SpecRender.v) is compositional by construction; that the implementation agrees
   with it is decided by checks/c03.py on generated documents (testing).  The block-level theorem about
   the real parser tables follows below. *)
From Coq Require Import List NArith Bool.
Import ListNotations.
From MMD.lib Require Import Bytes.
From MMD.model Require Import SpecRender.
Local Open Scope N_scope.

Lemma join_app (sep : list N) a b : a <> [] -> b <> [] -> join sep (a ++ b) = join sep a ++ sep ++ join sep b.
Proof.
  intros Ha Hb. induction a as [|x r IH]; [congruence|].
  destruct r as [|y r'].
  - cbn [app join]. destruct b; [congruence|]. reflexivity.
  - change ((x :: y :: r') ++ b) with (x :: (y :: r') ++ b). 
    assert (E : join sep (x :: (y :: r') ++ b) = x ++ sep ++ join sep ((y :: r') ++ b)) by reflexivity.
    rewrite E, IH by discriminate. cbn [join]. rewrite <- !app_assoc. reflexivity.
Qed.

(* the specified rendering of a sequence of blocks (under a given numbering of the footnotes) is the renderings of
   its blocks, separated by one empty line:
   putting two documents one after the other concatenates their renderings, whatever their blocks are *)
Theorem spec_render_compositional : forall o sp env d1 d2, d1 <> [] -> d2 <> [] ->
  render o sp env (d1 ++ d2) = render o sp env d1 ++ [10; 10] ++ render o sp env d2.
Proof.
  intros o sp env d1 d2 H1 H2. unfold render. rewrite map_app.
  apply join_app; intros E; apply map_eq_nil in E; contradiction.
Qed.
Print Assumptions spec_render_compositional.

(* and the same holds for the source text, so the two sides of the comparison split at the same places *)
Theorem spec_spell_compositional : forall sp d1 d2, d1 <> [] -> d2 <> [] -> crlf sp = false ->
  spell sp (d1 ++ d2) = removelast (spell sp d1) ++ [10; 10] ++ spell sp d2.
Proof.
  intros sp d1 d2 H1 H2 Hc. unfold spell. rewrite Hc, map_app.
  rewrite join_app by (intros E; apply map_eq_nil in E; contradiction).
  unfold NL. rewrite removelast_last. rewrite <- !app_assoc. reflexivity.
Qed.
Print Assumptions spec_spell_compositional.

(* ---- the real block parser (tables regenerated from parser.c on every run) *)
From Coq Require Import ZArith.
From MMD.lib Require Import Lemon BlockComp.
From MMD.gen Require Import ParserTables.
From MMD.model Require Import BlockLang.
From MMD.proofs Require Import BlockCompProofs.
Local Open Scope Z_scope.

(* [closed w]: w is a sequence of paragraphs, ATX / Setext headings, rules, fenced code blocks and block
   quotes (as line kinds), each followed by one or more empty lines.  For ANY two such documents, of any
   length, the top-level blocks the parser creates for their concatenation (the sequence of 'block ::= X'
   reductions in its event trace) are the blocks of the first followed by the blocks of the second: what
   comes before or after a closed block never changes how it is segmented. *)
Theorem blocks_compositional :
  forall u v, closed dstep FIN u -> closed dstep FIN v -> bc_over line_kinds u -> bc_over line_kinds v ->
  exists x y,
    bc_F parser_tables NT_block base u = Some x /\ bc_F parser_tables NT_block base v = Some y /\
    bc_F parser_tables NT_block base (u ++ v) = Some (x ++ y).
Proof. exact (comp parser_tables NT_block dstep FIN line_kinds Hset Sset block_checks). Qed.
Print Assumptions blocks_compositional.

(* F is what the driver does: for a non-empty closed document it is the list of block rules among the
   events of parse_document (all tokens, then end of input), and no error event occurs *)
Theorem block_trace_is_parse_document :
  forall w x, w <> [] -> drun dstep 0%nat w = Some FIN -> bc_over line_kinds w ->
  bc_F parser_tables NT_block base w = Some x ->
  exists stk ev, parse_document parser_tables w = Ok (stk, ev) /\ existsb is_bad ev = false /\
                 brules parser_tables NT_block ev = x.
Proof. exact (F_is_parse_document parser_tables NT_block dstep FIN line_kinds Hset Sset block_checks). Qed.
Print Assumptions block_trace_is_parse_document.

(* non-vacuity: a paragraph of two lines, a rule, a fenced block containing a heading-like line, a quote *)
Example closed_sample :
  let w := [K_PLAIN; K_PLAIN; K_EMPTY; K_HR; K_EMPTY; K_EMPTY; K_FENCE_BACKTICK_START_3; K_ATX_1; K_EMPTY; K_FENCE_BACKTICK_3; K_EMPTY;
            K_BLOCKQUOTE; K_PLAIN; K_EMPTY] in
  drun dstep 0%nat w = Some FIN /\
  bc_F parser_tables NT_block base w =
  Some [R_block_para; R_block_empty; R_block_LINE_HR; R_block_empty; R_block_fenced_block; R_block_empty; R_block_blockquote; R_block_empty].
Proof. vm_compute. auto. Qed.

(* and the restriction to closed blocks matters: two paragraphs without an empty line between them are one *)
Example unclosed_blocks_merge :
  bc_F parser_tables NT_block base [K_PLAIN] = Some [R_block_para] /\
  bc_F parser_tables NT_block base ([K_PLAIN] ++ [K_PLAIN]) = Some [R_block_para].
Proof. vm_compute. auto. Qed.
