(* C03  HTML rendering agrees with the documented Markdown/MultiMarkdown semantics.
   The specification (model/SpecRender.v) is compositional by construction; that the implementation agrees
   with it is decided by checks/c03.py on generated documents (testing).  The block-level theorem about
   the real parser tables follows below. *)
From Coq Require Import List NArith Bool.
Import ListNotations.
From MMD.lib Require Import Bytes.
From MMD.model Require Import SpecRender.
Local Open Scope N_scope.

Lemma join_app (sep : list N) a b : a <> [] -> b <> [] -> join sep (a ++ b) = join sep a ++ sep ++ join sep b.
Proof.
  intros Ha Hb. induction a as [|x r IH]; [congruence|].
  destruct r as [|y r'].
  - cbn [app join]. destruct b; [congruence|]. reflexivity.
  - change ((x :: y :: r') ++ b) with (x :: (y :: r') ++ b). 
    assert (E : join sep (x :: (y :: r') ++ b) = x ++ sep ++ join sep ((y :: r') ++ b)) by reflexivity.
    rewrite E, IH by discriminate. cbn [join]. rewrite <- !app_assoc. reflexivity.
Qed.

(* the specified rendering of a document is the renderings of its blocks, separated by one empty line:
   putting two documents one after the other concatenates their renderings, whatever their blocks are *)
Theorem spec_render_compositional : forall o sp d1 d2, d1 <> [] -> d2 <> [] ->
  render o sp (d1 ++ d2) = render o sp d1 ++ [10; 10] ++ render o sp d2.
Proof.
  intros o sp d1 d2 H1 H2. unfold render. rewrite map_app.
  apply join_app; intros E; apply map_eq_nil in E; contradiction.
Qed.
Print Assumptions spec_render_compositional.

(* and the same holds for the source text, so the two sides of the comparison split at the same places *)
Theorem spec_spell_compositional : forall sp d1 d2, d1 <> [] -> d2 <> [] -> crlf sp = false ->
  spell sp (d1 ++ d2) = removelast (spell sp d1) ++ [10; 10] ++ spell sp d2.
Proof.
  intros sp d1 d2 H1 H2 Hc. unfold spell. rewrite Hc, map_app.
  rewrite join_app by (intros E; apply map_eq_nil in E; contradiction).
  unfold NL. rewrite removelast_last. rewrite <- !app_assoc. reflexivity.
Qed.
Print Assumptions spec_spell_compositional.
