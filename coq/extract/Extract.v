(* Extraction of the executable models to OCaml.  ExtrOcamlBasic only: N/Z/positive/nat stay
   Coq datatypes.  The output file name is relative to the directory coqc runs in (coq/). *)
Require Extraction.
Require Import ExtrOcamlBasic.
From MMD.lib Require Import Bytes.
From MMD.lib Require Import Lemon Utf8 XmlDfa.
From MMD.lib Require Import MiniC BlockComp.
From MMD.gen Require Import ParserTables Bounds.
From MMD.gen Require Import Escapers CharTable.
From MMD.model Require Import DStringModel DStringSpec PoolModel TreeCheck LabelModel CriticModel TranscludeModel MetaModel AnchorModel HeaderIdModel OpmlModel MetaSwitchModel TableAlignModel SpecRender BlockLang TokenHeap PairMatch Ambidextrous.
From MMD.proofs Require Import EscaperProofs PairMatchProofs.
Extraction Language OCaml.
Extraction "mmdmodel.ml"
  Bytes.find_sub
  DStringModel.ds_new DStringModel.step DStringModel.content
  DStringSpec.sp_step DStringSpec.op_ok
  PoolModel.pinit PoolModel.pstep PoolModel.well_bracketed
  Lemon.parse_document ParserTables.parser_tables ParserTables.line_kinds
  TreeCheck.wf_tree
  LabelModel.label_from_string LabelModel.clean_string CharTable.is_whitespace_or_line_ending
  EscaperProofs.esc Escapers.esc_html Escapers.esc_html_br Escapers.esc_latex Escapers.esc_odf Escapers.esc_odf_br Escapers.esc_opml Escapers.esc_itmz
  Utf8.valid_utf8 XmlDfa.xml_safe
  CriticModel.critic_accept CriticModel.critic_reject CriticModel.critic_accept_range CriticModel.critic_reject_range
  TranscludeModel.transclude_top
  MetaModel.meta_parse MetaModel.meta_value_for MetaModel.meta_update
  AnchorModel.export AnchorModel.wf_doc AnchorModel.forward_only AnchorModel.nocite_free
  HeaderIdModel.header_id HeaderIdModel.header_span HeaderIdModel.manual_id HeaderIdModel.reference_label
  OpmlModel.xml_as_text OpmlModel.export_tags OpmlModel.import_levels OpmlModel.properly_nested
  MetaSwitchModel.process MetaSwitchModel.is_control MiniC.has_flag
  TableAlignModel.record TableAlignModel.colspec Bounds.table_alignment_size Bounds.record_limit
  SpecRender.render_doc SpecRender.spell_doc
  BlockComp.bc_F BlockComp.drun BlockLang.dstep BlockLang.FIN ParserTables.NT_block
  TokenHeap.th_run PairMatch.pm_run
  PairMatchProofs.dl_check PairMatchProofs.msym_check PairMatchProofs.order_check
  Ambidextrous.assign_all Ambidextrous.assign_toks.
