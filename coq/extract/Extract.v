(* Extraction of the executable models to OCaml.  ExtrOcamlBasic only: N/Z/positive/nat stay
   Coq datatypes.  The output file name is relative to the directory coqc runs in (coq/). *)
Require Extraction.
Require Import ExtrOcamlBasic.
From MMD.lib Require Import Bytes.
From MMD.lib Require Import Lemon.
From MMD.gen Require Import ParserTables.
From MMD.model Require Import DStringModel DStringSpec PoolModel TreeCheck.
Extraction Language OCaml.
Extraction "mmdmodel.ml"
  Bytes.find_sub
  DStringModel.ds_new DStringModel.step DStringModel.content
  DStringSpec.sp_step DStringSpec.op_ok
  PoolModel.pinit PoolModel.pstep PoolModel.well_bracketed
  Lemon.parse_document ParserTables.parser_tables ParserTables.line_kinds
  TreeCheck.wf_tree.
