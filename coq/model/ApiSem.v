(* C06: the thin API wrappers as terms and their meaning.  A wrapper term records what the
   translator found in the function body: which engine constructor, whether the language is set,
   how many times the engine function of the same name is called and with which of the wrapper's
   own parameters, how the engine is freed, whether a value is returned.  Definitions only. *)
From Coq Require Import List Arith NArith Bool.
Import ListNotations.

Inductive family := FString | FDString.

Record wrapper := mkw {
  w_fam : family;
  w_op : nat;                 (* index into the list of operations *)
  w_ext_from_arg : bool;      (* engine created with the caller's extensions *)
  w_ext_zero : bool;          (* engine created with extensions = 0 *)
  w_setlang : nat;            (* number of mmd_engine_set_language(e, language) calls *)
  w_ncall : nat;              (* calls of mmd_engine_<op>(e, ...) *)
  w_other : nat;              (* calls of other mmd_engine_* functions (besides set_language/free) *)
  w_args : list nat;          (* the wrapper parameters forwarded, in order *)
  w_free : option bool;       (* argument of mmd_engine_free: free the DString too? *)
  w_nfree : nat;
  w_returns : bool;           (* the function returns a value *)
  w_has_lang : bool           (* the wrapper has a language parameter *)
}.

(* Meaning, for ANY interpretation of the primitives.  The source enters as an abstract value: the
   string constructor copies it into a private DString, the DString constructor uses the caller's;
   both yield an engine over the same text. *)
Section Sem.
Variables (Src Ext Lang Arg Engine Res : Type).
Variable create : Src -> Ext -> Engine.
Variable ext0 : Ext.
Variable set_language : Engine -> Lang -> Engine.
Variable engine_op : nat -> Engine -> list Arg -> Res.

Definition well_shaped (w : wrapper) : bool :=
  (xorb (w_ext_from_arg w) (w_ext_zero w)) && (w_ncall w =? 1)%nat && (w_other w =? 0)%nat &&
  (w_nfree w =? 1)%nat && (w_setlang w <=? 1)%nat && (Nat.eqb (w_setlang w) (if w_has_lang w then 1 else 0)).

Definition denote (w : wrapper) (s : Src) (e : Ext) (l : Lang) (args : nat -> Arg) : option Res :=
  if well_shaped w then
    let eng := create s (if w_ext_from_arg w then e else ext0) in
    let eng := if (w_setlang w =? 1)%nat then set_language eng l else eng in
    Some (engine_op (w_op w) eng (map args (w_args w)))
  else None.

Definition same_call (a b : wrapper) : bool :=
  (w_op a =? w_op b)%nat && Bool.eqb (w_ext_from_arg a) (w_ext_from_arg b) && (w_setlang a =? w_setlang b)%nat &&
  (if list_eq_dec Nat.eq_dec (w_args a) (w_args b) then true else false).

Lemma same_call_denote a b : well_shaped a = true -> well_shaped b = true -> same_call a b = true ->
  forall s e l args, denote a s e l args = denote b s e l args /\ denote a s e l args <> None.
Proof.
  intros Ha Hb H s e l args. unfold denote. rewrite Ha, Hb. unfold same_call in H.
  apply andb_true_iff in H as [H H4]. apply andb_true_iff in H as [H H3]. apply andb_true_iff in H as [H1 H2].
  apply Nat.eqb_eq in H1, H3. apply eqb_prop in H2.
  destruct (list_eq_dec Nat.eq_dec (w_args a) (w_args b)) as [E|]; [|discriminate].
  rewrite H1, H2, H3, E. split; [reflexivity|discriminate].
Qed.
End Sem.
