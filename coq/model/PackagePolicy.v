(* What the archive-building functions put into their archives (regenerated in gen/Packages.v) and the
   requirements the package formats place on it.  Definitions only. *)
From Coq Require Import List String Bool Arith.
Import ListNotations.
Local Open Scope string_scope.

Inductive pitem :=
| PNew                               (* zip_new_archive *)
| PAdd (name : string) (stored : bool)   (* mz_zip_writer_add_mem: literal member name, or <variable>; stored = MZ_NO_COMPRESSION *)
| PAssets                            (* add_assets: one member per asset *)
| PCall (f : string)                 (* another packaging function *)
| PFinal.                            (* mz_zip_writer_finalize_heap_archive *)

Section Flat.
Variable funs : list (string * list pitem).

Definition body_of (f : string) : option (list pitem) := option_map snd (find (fun p => String.eqb f (fst p)) funs).

Fixpoint flatten (fuel : nat) (items : list pitem) : option (list pitem) :=
  match fuel with
  | O => None
  | S k =>
    match items with
    | [] => Some []
    | PCall f :: r =>
      match body_of f with
      | Some b => match flatten k b, flatten k r with Some x, Some y => Some (x ++ y)%list | _, _ => None end
      | None => None
      end
    | it :: r => option_map (cons it) (flatten k r)
    end
  end.

Definition flat (f : string) : option (list pitem) :=
  match body_of f with Some b => flatten 50 b | None => None end.
End Flat.

Definition is_add (name : string) (it : pitem) : bool := match it with PAdd n _ => String.eqb n name | _ => false end.
Definition adds (l : list pitem) : list (string * bool) :=
  flat_map (fun it => match it with PAdd n s => [(n, s)] | _ => [] end) l.
Definition has_member (l : list pitem) (name : string) : bool := existsb (is_add name) l.

(* one archive is opened first, finalised last, exactly once each *)
Definition brackets_ok (l : list pitem) : bool :=
  match l with
  | PNew :: r => match rev r with
                 | PFinal :: m => forallb (fun it => match it with PNew | PFinal | PCall _ => false | _ => true end) m
                 | _ => false
                 end
  | _ => false
  end.
Definition first_member (l : list pitem) : option (string * bool) := hd_error (adds l).
Definition no_duplicate_members (l : list pitem) : bool :=
  let names := map fst (adds l) in
  forallb (fun n => Nat.eqb (List.length (filter (String.eqb n) names)) 1) names.
Definition lists (lits : list (string * list string)) (f : string) (x : string) : bool :=
  match find (fun p => String.eqb f (fst p)) lits with Some (_, l) => existsb (String.eqb x) l | None => false end.
