(* Executable model of mmd_transclude_source (transclude.c) over an abstract file system.
   fs : list (path * content); a file is found by the exact path string the C code builds (the OS's
   normalisation of "./" and ".." and symbolic links are not modelled - the generator avoids them).
   Metadata recognition is the simple block form "key: value" lines up to the first empty line
   (what the generated files use; the general recogniser belongs to C11); both simplifications are
   validated by correspondence.  Definitions only. *)
From MMD.lib Require Import Bytes.
Local Open Scope N_scope.

Definition path := list N.
Definition fsys := list (path * list N).

Fixpoint bytes_eqb (a b : list N) : bool :=
  match a, b with
  | [], [] => true
  | x :: a', y :: b' => (x =? y) && bytes_eqb a' b'
  | _, _ => false
  end.

Fixpoint lookup (fs : fsys) (p : path) : option (list N) :=
  match fs with
  | [] => None
  | (q, c) :: r => if bytes_eqb p q then Some c else lookup r p
  end.

Definition mem_path (p : path) (l : list path) : bool := existsb (bytes_eqb p) l.

(* scan_file: read and strip a byte order mark *)
Definition strip_bom (c : list N) : list N :=
  match c with
  | 239 :: 187 :: 191 :: r => r
  | 239 :: 255 :: r => r
  | 255 :: 254 :: r => r
  | _ => c
  end.
Definition scan_file (fs : fsys) (p : path) : option (list N) := option_map strip_bom (lookup fs p).

(* ---- path helpers (POSIX) *)
Definition SEP : N := 47.
Definition ends_with_sep (p : path) : bool := match rev p with x :: _ => x =? SEP | [] => false end.
Definition add_trailing_sep (p : path) : path := if ends_with_sep p then p else p ++ [SEP].
Definition is_abs (p : path) : bool := match p with x :: _ => x =? SEP | [] => false end.
Definition path_from_dir_base (dir base : path) : path := if is_abs base then base else add_trailing_sep dir ++ base.

(* split_path_file: directory part = up to and including the last separator found at index >= 1 *)
Fixpoint last_sep_from (l : path) (i : nat) (best : option nat) : option nat :=
  match l with
  | [] => best
  | x :: r => last_sep_from r (S i) (if (x =? SEP) && negb (Nat.eqb i O) then Some i else best)
  end.
Definition source_folder (p : path) : path :=
  match last_sep_from p O None with
  | Some i => firstn (S i) p
  | None => []
  end.

(* ---- simple metadata: first line "key:" ..., block = lines up to the first empty line *)
Fixpoint line_split (l : list N) : list N * list N :=            (* first line without its newline, rest after it *)
  match l with
  | [] => ([], [])
  | x :: r => if x =? 10 then ([], r) else let '(a, b) := line_split r in (x :: a, b)
  end.
Definition is_key_char (b : N) : bool :=
  ((48 <=? b) && (b <=? 57)) || ((65 <=? b) && (b <=? 90)) || ((97 <=? b) && (b <=? 122)) || (b =? 32) || (b =? 95) || (b =? 45).
Fixpoint key_of_line (l : list N) : option (list N * list N) :=   (* (key, value) when the line is "key:value" *)
  match l with
  | [] => None
  | x :: r => if x =? 58 then Some ([], r)
              else if is_key_char x then match key_of_line r with Some (k, v) => Some (x :: k, v) | None => None end
              else None
  end.
Definition meta_first_line_ok (l : list N) : bool :=
  match key_of_line (fst (line_split l)) with
  | Some (k, _) => match k with x :: _ => negb (x =? 32) | [] => false end
  | None => false
  end.
(* offset just past the last line of the block *)
Fixpoint meta_block_end (fuel : nat) (l : list N) (off : nat) : nat :=
  match fuel with
  | O => off
  | S f =>
    match l with
    | [] => off
    | _ => let '(ln, rest) := line_split l in
           match ln with
           | [] => off                                         (* empty line ends the block *)
           | _ => meta_block_end f rest (off + length ln + (if Nat.ltb (length ln) (length l) then 1 else 0))
           end
    end
  end.
Definition meta_end (l : list N) : nat := if meta_first_line_ok l then meta_block_end (S (length l)) l O else O.

Definition lower (b : N) : N := if (65 <=? b) && (b <=? 90) then b + 32 else b.
Definition norm_key (k : list N) : list N := map lower (filter (fun b => negb (b =? 32)) k).
Fixpoint trim_left (l : list N) : list N := match l with x :: r => if (x =? 32) || (x =? 9) then trim_left r else l | [] => [] end.
Definition trim (l : list N) : list N := rev (trim_left (rev (trim_left l))).
Fixpoint meta_value (fuel : nat) (l : list N) (key : list N) : option (list N) :=
  match fuel with
  | O => None
  | S f =>
    let '(ln, rest) := line_split l in
    match ln with
    | [] => None
    | _ => match key_of_line ln with
           | Some (k, v) => if bytes_eqb (norm_key k) key then Some (trim v) else meta_value f rest key
           | None => meta_value f rest key
           end
    end
  end.
Definition transclude_base (l : list N) : option (list N) :=
  if meta_first_line_ok l then meta_value (S (length l)) l [116;114;97;110;115;99;108;117;100;101;98;97;115;101] else None.

(* ---- formats *)
Inductive ext_kind := EHtml | ETex | EFodt | ETxt | EMmd.
Definition ext_text (k : ext_kind) : list N :=
  match k with EHtml => [46;104;116;109;108] | ETex => [46;116;101;120] | EFodt => [46;102;111;100;116] | _ => [46;116;120;116] end.
Definition apply_wildcard (k : ext_kind) (text p : path) : path :=
  match k with
  | EMmd => p
  | _ => match rev text with
         | 42 :: 46 :: _ => firstn (length p - 2) p ++ ext_text k           (* text ends in .* *)
         | _ => p
         end
  end.

(* ---- the marker loop.  [rest] is the text from the current search position; what is before it is final. *)
Definition OPEN2 : list N := [123; 123].
Definition CLOSE2 : list N := [125; 125].
Definition TOC : list N := [84; 79; 67].

Record tstate := mkt { manifest : list path; cyc : bool }.

Section Trans.
Variable fs : fsys.
Variable fmt : ext_kind.

(* the marker loop of one file; [recurse] expands an included file (one level less of fuel) *)
Fixpoint loop (recurse : path -> path -> list path -> tstate -> list N -> res (list N * tstate))
              (folder : path) (stack : list path) (lfuel : nat) (rest : list N) (st : tstate)
  : res (list N * tstate) :=
  match lfuel with
  | O => Err Hang
  | S lf =>
    match find_sub OPEN2 rest with
    | None => Ok (rest, st)
    | Some i =>
      let before := firstn i rest in
      let at_open := skipn i rest in                       (* starts with {{ *)
      match find_sub CLOSE2 at_open with
      | None => Ok (rest, st)
      | Some j =>                                          (* j = stop - start *)
        let text := firstn (j - 2) (skipn 2 at_open) in
        let after := skipn (j + 2) at_open in
        if Nat.leb 1000 j then                              (* too long for a file name: last_match = start + 2 *)
          do r <- loop recurse folder stack lf (skipn 2 at_open) st; Ok (before ++ OPEN2 ++ fst r, snd r)
        else if bytes_eqb text TOC then
          do r <- loop recurse folder stack lf (skipn j at_open) st; Ok (before ++ firstn j at_open ++ fst r, snd r)
        else
          let p0 := if is_abs text then text else add_trailing_sep folder ++ text in
          let p := apply_wildcard fmt text p0 in
          if mem_path p stack then                          (* already being expanded: leave the marker *)
            do r <- loop recurse folder stack lf (skipn 2 at_open) (mkt (manifest st) true); Ok (before ++ OPEN2 ++ fst r, snd r)
          else
            let st1 := mkt (if mem_path p (manifest st) then manifest st else manifest st ++ [p]) (cyc st) in
            match scan_file fs p with
            | None => do r <- loop recurse folder stack lf (skipn 2 at_open) st1; Ok (before ++ OPEN2 ++ fst r, snd r)
            | Some buf =>
              do child <- recurse folder p (stack ++ [p]) st1 buf;
              let body := skipn (meta_end (fst child)) (fst child) in
              do r <- loop recurse folder stack lf after (snd child); Ok (before ++ body ++ fst r, snd r)
            end
      end
    end
  end.

Definition folder_of (search_path source_path : path) (src : list N) : path :=
  match transclude_base src with
  | Some t => path_from_dir_base (source_folder source_path) t
  | None => add_trailing_sep search_path
  end.

(* one file: [fuel] bounds the recursion into files *)
Fixpoint transclude (fuel : nat) (search_path source_path : path) (stack : list path) (st : tstate) (src : list N)
  : res (list N * tstate) :=
  match fuel with
  | O => Err Hang
  | S fuel' =>
    let off := meta_end src in
    do r <- loop (transclude fuel') (folder_of search_path source_path src) stack (S (length (skipn off src))) (skipn off src) st;
    Ok (firstn off src ++ fst r, snd r)
  end.
End Trans.

Definition transclude_top (fs : fsys) (fmt : ext_kind) (search_path source_path : path) (src : list N) :=
  transclude fs fmt (S (length fs)) search_path source_path [] (mkt [] false) src.
