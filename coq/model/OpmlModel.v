(* Executable models for the outline (OPML) round trip:
   - print_xml_as_text (xml.c): the decoder applied to attribute values on import;
   - the outline nesting of mmd_outline_add_opml (opml.c) and the depth counter of
     parse_opml_token_chain (opml-reader.c), on the sequence of heading levels.
   Definitions only. *)
From MMD.lib Require Import Bytes BytesFacts.
Local Open Scope N_scope.

(* ---- print_xml_as_text: after '&' one of these must follow for a reference to be decoded *)
Definition entities : list (list N * N) :=
  [ ([35; 49; 48; 59], 10);            (* #10;  *)
    ([35; 57; 59], 9);                 (* #9;   *)
    ([35; 49; 51; 59], 13);            (* #13;  *)
    ([97; 109; 112; 59], 38);          (* amp;  *)
    ([97; 112; 111; 115; 59], 39);     (* apos; *)
    ([108; 116; 59], 60);              (* lt;   *)
    ([103; 116; 59], 62);              (* gt;   *)
    ([113; 117; 111; 116; 59], 34) ].  (* quot; *)

Fixpoint find_entity (es : list (list N * N)) (r : list N) : option (N * nat) :=
  match es with
  | [] => None
  | (p, c) :: es' => if prefixb p r then Some (c, length p) else find_entity es' r
  end.

(* [skip]: bytes of a reference already decoded that are still to be passed over *)
Fixpoint unesc (skip : nat) (s : list N) : list N :=
  match s with
  | [] => []
  | b :: r =>
    match skip with
    | S k => unesc k r
    | O => if b =? 38 then
             match find_entity entities r with
             | Some (c, n) => c :: unesc n r
             | None => 38 :: unesc 0 r
             end
           else b :: unesc 0 r
    end
  end.
Definition xml_as_text (s : list N) : list N := unesc 0 s.

(* ---- outline structure.  A heading opens an item after closing every open item whose level is not
   smaller; the preamble item has level 100; the end of the document closes everything. *)
Inductive otag := OOpen | OClose.

Fixpoint close_ge (level : nat) (stack : list nat) : list otag * list nat :=
  match stack with
  | [] => ([], [])
  | t :: r => if Nat.leb level t then let '(tags, st) := close_ge level r in (OClose :: tags, st) else ([], stack)
  end.

Fixpoint export_tags (levels : list nat) (stack : list nat) : list otag :=
  match levels with
  | [] => fst (close_ge 0 stack)
  | l :: r => let '(tags, st) := close_ge l stack in tags ++ OOpen :: export_tags r (l :: st)
  end.

(* import: the level of an item is the number of items open around it, itself included *)
Fixpoint import_levels (tags : list otag) (depth : nat) : list nat :=
  match tags with
  | [] => []
  | OOpen :: r => S depth :: import_levels r (S depth)
  | OClose :: r => import_levels r (pred depth)
  end.

Fixpoint final_depth (tags : list otag) (depth : nat) : nat :=
  match tags with
  | [] => depth
  | OOpen :: r => final_depth r (S depth)
  | OClose :: r => final_depth r (pred depth)
  end.

(* properly nested: starts at level 1 and never skips a level on the way down *)
Fixpoint nested_from (prev : nat) (levels : list nat) : bool :=
  match levels with
  | [] => true
  | l :: r => Nat.leb 1 l && Nat.leb l (S prev) && nested_from l r
  end.
Definition properly_nested (levels : list nat) : bool := nested_from 0 levels.

(* ---- sections: the text between one heading and the next is that item's note.
   cuts = offsets where headings start and end: [s0; e0; s1; e1; ...] (increasing, within the text) *)
Fixpoint slices (src : list N) (pos : nat) (cuts : list nat) : list (list N) :=
  match cuts with
  | [] => [skipn pos src]
  | c :: r => firstn (c - pos) (skipn pos src) :: slices src c r
  end.
