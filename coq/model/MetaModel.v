(* Executable model of metadata extraction for the first block of a document, at byte level:
   which lines start a key (scanners.re meta_line / meta_key), how values are assembled
   (strip_line_tokens_from_metadata) and normalised (clean_string, label_from_string: LabelModel.v),
   where the block ends, and the query / update functions of mmd.c.
   Scope: blocks whose lines start at column 0 with a key or are continuation lines; the interplay
   with the general line classifier (URLs, list markers, tables ...) is outside the model and is
   excluded from the inputs it is compared on.  Definitions only. *)
From MMD.lib Require Import Bytes.
From MMD.model Require Import LabelModel.
Local Open Scope N_scope.

Fixpoint bytes_eqb_l (a b : list N) : bool :=
  match a, b with [], [] => true | x :: a', y :: b' => (x =? y) && bytes_eqb_l a' b' | _, _ => false end.

Definition is_alnum (b : N) : bool := ((48 <=? b) && (b <=? 57)) || ((65 <=? b) && (b <=? 90)) || ((97 <=? b) && (b <=? 122)).
Definition is_keychar (b : N) : bool := is_alnum b || (b =? 95) || (b =? 32) || (b =? 9) || (b =? 45) || (b =? 46).
Definition is_eol (b : N) : bool := (b =? 10) || (b =? 13).

Fixpoint take_while (f : N -> bool) (l : list N) : list N :=
  match l with x :: r => if f x then x :: take_while f r else [] | [] => [] end.

(* scan_meta_key: length of the key (its trailing blanks included), when the line is key ':' ... *)
Definition meta_key_len (line : list N) : option nat :=
  match line with
  | x :: r => if is_alnum x then
                let k := take_while is_keychar r in
                match skipn (length k) r with
                | 58 :: _ => Some (S (length k))
                | _ => None
                end
              else None
  | [] => None
  end.

(* lines with their start offsets; a line includes its terminator (\n, \r or \r\n) *)
Fixpoint split_lines (fuel : nat) (l : list N) (off : nat) : list (nat * list N) :=
  match fuel with
  | O => []
  | S f =>
    match l with
    | [] => []
    | _ => let body := take_while (fun b => negb (is_eol b)) l in
           let rest := skipn (length body) l in
           let term := match rest with
                       | 13 :: 10 :: _ => [13; 10]
                       | x :: _ => [x]
                       | [] => []
                       end in
           let ln := body ++ term in
           (off, ln) :: split_lines f (skipn (length ln) l) (off + length ln)
    end
  end.
Definition lines_of (s : list N) : list (nat * list N) := split_lines (S (length s)) s O.

Definition line_body (ln : list N) : list N := take_while (fun b => negb (is_eol b)) ln.
Definition is_blank (ln : list N) : bool := forallb (fun b => (b =? 32) || (b =? 9)) (line_body ln).
Definition is_ws (b : N) : bool := (b =? 32) || (b =? 9).
Fixpoint drop_while (f : N -> bool) (l : list N) : list N :=
  match l with x :: r => if f x then drop_while f r else l | [] => [] end.
Definition indented (ln : list N) : bool := match ln with 9 :: _ => true | 32 :: 32 :: 32 :: 32 :: _ => true | _ => false end.

(* the lines of the first block: up to the first blank line *)
Fixpoint block_lines (ls : list (nat * list N)) : list (nat * list N) :=
  match ls with
  | [] => []
  | (o, ln) :: r => if is_blank ln then [] else (o, ln) :: block_lines r
  end.

(* an entry under construction: key start offset, raw key text, raw value text *)
Definition entry := (nat * list N * list N)%type.

Fixpoint build (ls : list (nat * list N)) (cur : option entry) (acc : list entry) : list entry :=
  match ls with
  | [] => match cur with Some e => acc ++ [e] | None => acc end
  | (o, ln) :: r =>
    match meta_key_len ln with
    | Some k =>
      (* strip_line_tokens_from_metadata: value = the rest of the line after the colon *)
      let v := skipn (S k) ln in
      build r (Some (o, firstn k ln, v)) (match cur with Some e => acc ++ [e] | None => acc end)
    | None =>
      match cur with
      | Some (ko, key, v) =>
        let ln' := if indented ln then drop_while is_ws ln else ln in
        build r (Some (ko, key, v ++ [10] ++ ln')) acc
      | None => build r None acc
      end
    end
  end.

Record meta := mkmeta { m_start : nat; m_key : list N; m_value : list N }.

Section WithWs.
Variable ws : list N.            (* char.c white space / line ending class, from the regenerated table *)

Definition finish_entry (e : entry) : meta :=
  let '(o, k, v) := e in mkmeta o (label_from_string k) (clean_string ws false false v).

(* the whole first block; None = no metadata *)
Definition meta_parse (s : list N) : option (list meta * nat) :=
  let ls := lines_of s in
  match ls with
  | (_, first) :: _ =>
    match meta_key_len first with
    | Some k =>
      (* "key:" with nothing after it cannot start a block *)
      if is_blank (skipn (S k) first) then None else
      let bl := block_lines ls in
      let endoff := fold_left (fun _ p => (fst p + length (snd p))%nat) bl O in
      Some (map finish_entry (build bl None []), endoff)
    | None => None
    end
  | [] => None
  end.

Definition meta_keys (s : list N) : list (list N) := match meta_parse s with Some (ms, _) => map m_key ms | None => [] end.
Definition meta_value_for (s : list N) (key : list N) : option (list N) :=
  match meta_parse s with
  | Some (ms, _) => option_map m_value (find (fun m => bytes_eqb_l (m_key m) (label_from_string key)) ms)
  | None => None
  end.

(* mmd_engine_update_metavalue_for_key: the text after the update.  The entry that is replaced is the first one whose
   normalised key matches (the one a query returns); its text is replaced from the first non-blank byte after its colon
   up to the start of the next entry (or the end of the block).  d_string_erase clamps a range that would run
   backwards or past the end to "up to the end"; the scan for the colon is total here (every entry line has one). *)
Definition upd_range (clean : list N) (ms : list meta) : option nat * option nat :=
  fold_left (fun (acc : option nat * option nat) m =>
               match acc with
               | (None, en) => if bytes_eqb_l clean (m_key m) then (Some (m_start m), en) else acc
               | (Some st, None) => (Some st, Some (m_start m))
               | _ => acc
               end) ms (None, None).

Definition after_colon (s : list N) (st : nat) : nat :=
  let from := skipn st s in
  let k := length (take_while (fun b => negb (b =? 58)) from) in
  (st + S k + length (take_while is_ws (skipn (S k) from)))%nat.

Definition meta_update (s key value : list N) : list N :=
  match meta_parse s with
  | Some (ms, meta_end) =>
    match upd_range (label_from_string key) ms with
    | (Some st, en) =>
      let b := after_colon s st in
      let e := match en with Some e => e | None => meta_end end in
      if Nat.ltb e b then firstn b s ++ value ++ [10]
      else firstn b s ++ value ++ [10] ++ skipn e s
    | (None, _) =>
      if Nat.eqb meta_end 0 then key ++ [58; 9] ++ value ++ [10; 10] ++ s
      else firstn meta_end s ++ key ++ [58; 9] ++ value ++ [10] ++ skipn meta_end s
    end
  | None => key ++ [58; 9] ++ value ++ [10; 10] ++ s
  end.
End WithWs.
