(* CriticMarkup edit scripts: the specification side of C12. *)
From MMD.lib Require Import Bytes.
From MMD.model Require Import CriticModel.
Local Open Scope N_scope.

(* text: plain bytes that are not marker characters, and backslash escapes of marker characters *)
Inductive atom := Pl (b : N) | Es (c : N).
Definition marker_char (b : N) : bool :=
  (b =? 123) || (b =? 125) || (b =? 43) || (b =? 45) || (b =? 126) || (b =? 62) || (b =? 60) || (b =? 61) || (b =? 92).
Definition atom_ok (a : atom) : bool :=
  match a with Pl b => negb (marker_char b) | Es c => escapable c end.
Definition atom_text (a : atom) : list N := match a with Pl b => [b] | Es c => [92; c] end.
Definition atoms_text (l : list atom) : list N := flat_map atom_text l.

(* an edit script: marks nest inside additions, deletions and highlights *)
Inductive cm :=
| CText (t : list atom)
| CAdd (l : list cm)
| CDel (l : list cm)
| CHi (l : list cm)
| CSub (old new : list atom)
| CCom (t : list atom).

Fixpoint annotate (c : cm) : list N :=
  match c with
  | CText t => atoms_text t
  | CAdd l => mark_text AddO ++ flat_map annotate l ++ mark_text AddC
  | CDel l => mark_text DelO ++ flat_map annotate l ++ mark_text DelC
  | CHi l => mark_text HiO ++ flat_map annotate l ++ mark_text HiC
  | CSub o n => mark_text SubO ++ atoms_text o ++ mark_text SubD ++ atoms_text n ++ mark_text SubC
  | CCom t => mark_text ComO ++ atoms_text t ++ mark_text ComC
  end.

(* every proposed change applied *)
Fixpoint accepted (c : cm) : list atom :=
  match c with
  | CText t => t
  | CAdd l => flat_map accepted l
  | CDel _ => []
  | CHi l => flat_map accepted l
  | CSub _ n => n
  | CCom _ => []
  end.

(* every proposed change discarded *)
Fixpoint rejected (c : cm) : list atom :=
  match c with
  | CText t => t
  | CAdd _ => []
  | CDel l => flat_map rejected l
  | CHi l => flat_map rejected l
  | CSub o _ => o
  | CCom _ => []
  end.

Fixpoint wf (c : cm) : bool :=
  match c with
  | CText t => forallb atom_ok t
  | CAdd l | CDel l | CHi l => forallb wf l
  | CSub o n => forallb atom_ok o && forallb atom_ok n
  | CCom t => forallb atom_ok t
  end.

Definition annotateL (s : list cm) : list N := flat_map annotate s.
Definition acceptedL (s : list cm) : list N := atoms_text (flat_map accepted s).
Definition rejectedL (s : list cm) : list N := atoms_text (flat_map rejected s).
